(* END-TO-END exactness of the executable posting-list index (Model/Index.v) for builders whose fields
   may be configured with the PATTERN (CAc) and RANGE (CRange) containers, for EVERY bad-conjunction
   policy and EVERY outcome list: the hypotheses `Forall (eq AddOk) os` and
   `pol <> PolSkip \/ all conjunctions conj_ok'` of IndexCorrectHolders.index_correct_holders are removed.
   Model level (conj_sat', as index_correct_holders).  Same route as Proofs/IndexCorrectPolicy.v, whose
   generic part (xrun_conjs / xrun_doc / xidb / xouts / xm_indexed, Section Run) is instantiated with
     gconj_res thr parsers cfg cj   how parsing cj ends with the configured containers: POk tt or the
                                    FIRST failing expression's IndexingBETx result (PErr / PPanic / ...) *)
From Coq Require Import List NArith ZArith Bool Lia Arith.
From BE Require Import Model.GoTypes Model.GoVal Model.Parsers Model.Index.
From BE Require Import Proofs.IndexBuildInv Proofs.IndexCorrect Proofs.HoldersBuildInv Proofs.IndexCorrectHolders.
From BE Require Import Proofs.IndexCorrectPolicy.
From BE Require Gen.IdsGen Proofs.IdsProof Proofs.NoTrace.
Import ListNotations.
Local Open Scope Z_scope.

Section GBuild.
Variables (kind : index_kind) (pol : policy) (thr : Z) (parsers : fname -> parser_kind) (cfg : fname -> cont_kind).
Notation GInv := (GInv kind pol thr parsers cfg).
Notation GRepr := (GRepr kind thr parsers cfg).
Notation mkfd := (mkfd parsers cfg).
Notation conj_ok' := (conj_ok' parsers cfg).
Notation conj_rwf := (conj_rwf thr cfg).

Definition gexpr_res (f : fname) (e : expr) : pres unit := shape (indexing_tx thr (mkfd f) e).
Fixpoint gexprs_res (f : fname) (es : list expr) : pres unit :=
  match es with
  | [] => POk tt
  | e :: es' => match gexpr_res f e with POk _ => gexprs_res f es' | r => r end
  end.
Fixpoint gconj_res (cj : conj) : pres unit :=
  match cj with
  | [] => POk tt
  | (f, es) :: cj' => match gexprs_res f es with POk _ => gconj_res cj' | r => r end
  end.

Lemma gexprs_res_ok f es : gexprs_res f es = POk tt <-> forallb (expr_ok' parsers cfg f) es = true.
Proof.
  induction es as [|e es IH]; cbn [gexprs_res forallb]; [tauto|].
  rewrite <- (indexing_tx_ok thr parsers cfg f e). unfold gexpr_res.
  destruct (indexing_tx thr (mkfd f) e); cbn [shape is_ok andb];
    try (split; discriminate). exact IH.
Qed.
Lemma gconj_res_ok cj : gconj_res cj = POk tt <-> conj_ok' cj = true.
Proof.
  induction cj as [|[f es] cj IH]; cbn [gconj_res]; [unfold HoldersBuildInv.conj_ok'; cbn; tauto|].
  unfold HoldersBuildInv.conj_ok'. cbn [forallb fst snd]. fold (conj_ok' cj).
  pose proof (gexprs_res_ok f es) as He.
  destruct (gexprs_res f es) as [[]| | | |]; destruct (forallb (expr_ok' parsers cfg f) es); cbn [andb];
    try (destruct He as [He1 He2]; first [specialize (He1 eq_refl)|specialize (He2 eq_refl)]; discriminate);
    try exact IH; split; discriminate.
Qed.

Lemma index_exprs_gres : forall es st k cid f acc st' r,
  GInv st -> (cidx kind k < length (b_conts st))%nat -> index_exprs st k cid f es acc = (st', r) ->
  shape r = gexprs_res f es.
Proof.
  induction es as [|e es IH]; intros st k cid f acc st' r HF Hlen H; cbn [index_exprs] in H.
  - inversion H; subst. reflexivity.
  - destruct (ensure_field_gspec kind pol thr parsers cfg st f HF) as (F1 & Q1 & Hfd & K1).
    destruct (ensure_field st f) as [st1 fd]. cbn [fst snd] in *. subst fd.
    fold (with_created parsers cfg st1 k f) in H.
    assert (Hlen1 : (cidx kind k < length (b_conts st1))%nat) by (pose proof (gq_len _ _ Q1); lia).
    destruct (with_created_spec kind pol thr parsers cfg st1 k f F1) as (F2 & Q12 & H2).
    set (st2 := with_created parsers cfg st1 k f) in *.
    assert (Hlen2 : (cidx kind k < length (b_conts st2))%nat) by (pose proof (gq_len _ _ Q12); lia).
    rewrite (gi_thr _ _ _ _ _ _ F2) in H. cbn [gexprs_res]. unfold gexpr_res.
    destruct (indexing_tx thr (mkfd f) e) as [d| | | |] eqn:Ed; cbn [shape];
      try (inversion H; subst; reflexivity).
    eapply IH; eassumption.
Qed.

Lemma index_conj_gres : forall cj st k cid acc st' r,
  GInv st -> (cidx kind k < length (b_conts st))%nat -> index_conj st k cid cj acc = (st', r) ->
  shape r = gconj_res cj.
Proof.
  induction cj as [|[f es] cj IH]; intros st k cid acc st' r HF Hlen H; cbn [index_conj] in H.
  - inversion H; subst. reflexivity.
  - destruct (index_exprs st k cid f es acc) as [st1 r1] eqn:E1.
    destruct (index_exprs_gspec kind pol thr parsers cfg _ _ _ _ _ _ _ _ HF Hlen E1) as (F1 & Q1 & _).
    pose proof (index_exprs_gres _ _ _ _ _ _ _ _ HF Hlen E1) as R1. cbn [gconj_res]. rewrite <- R1.
    destruct r1 as [acc'| | | |]; cbn [shape]; try (inversion H; subst; reflexivity).
    assert (Hlen1 : (cidx kind k < length (b_conts st1))%nat) by (pose proof (gq_len _ _ Q1); lia).
    eapply IH; eassumption.
Qed.

Lemma add_conj_ggen d st i c st' o db :
  GInv st -> GRepr st db -> (conj_ok' c = true -> conj_rwf c) -> add_conj false d st (i, c) = (st', o) ->
  GInv st' /\
  match IdsGen.NewConjID d i (calc_size c) with
  | None => GRepr st' db /\ o = AddPanic
  | Some cid => o = res_out pol (gconj_res c) /\
                GRepr st' (db ++ (if conj_ok' c then [(cid, c)] else []))
  end.
Proof.
  intros HF HR Hrw H. pose proof H as H0. unfold add_conj in H.
  destruct (IdsGen.NewConjID d i (calc_size c)) as [cid|] eqn:Ec.
  2:{ inversion H; subst. auto. }
  cbn [andb negb] in H.
  pose proof (ensure_cont_GInv kind pol thr parsers cfg st (calc_size c) HF) as F0.
  pose proof (ensure_cont_gquiet st (calc_size c)) as Q0.
  pose proof (ensure_cont_len' kind pol thr parsers cfg st (calc_size c) HF) as L0.
  destruct (index_conj (ensure_cont st (calc_size c)) (calc_size c) cid c []) as [st2 r] eqn:Ei.
  destruct (index_conj_gspec kind pol thr parsers cfg _ _ _ _ _ _ _ F0 L0 Ei) as (F2 & Q2 & O2 & _).
  pose proof (index_conj_gres _ _ _ _ _ _ _ F0 L0 Ei) as R2.
  assert (Q02 : GQuiet st st2) by (eapply GQuiet_trans; eassumption).
  assert (Hfail : is_ok r = false -> (st2, res_out pol (shape r)) = (st', o) ->
            GInv st' /\ o = res_out pol (gconj_res c) /\
            GRepr st' (db ++ (if conj_ok' c then [(cid, c)] else []))).
  { intros Hr E. inversion E; subst. rewrite <- O2, Hr, app_nil_r, R2.
    split; [exact F2|]. split; [reflexivity|]. eapply GRepr_quiet; eassumption. }
  destruct r as [txs| | | |]; try (apply Hfail; [reflexivity|]; cbn [shape res_out]; exact H).
  - assert (o = AddOk) by (inversion H; reflexivity). subst o.
    assert (Hok : conj_ok' c = true) by (rewrite <- O2; reflexivity).
    destruct (add_conj_gspec kind pol thr parsers cfg _ _ _ _ _ _ HF HR (Hrw Hok) H0) as (cid' & Ec' & F' & R' & _).
    rewrite Ec in Ec'. inversion Ec'; subst cid'.
    split; [exact F'|]. split; [|exact R']. rewrite <- R2. reflexivity.
  - apply Hfail; [reflexivity|]. cbn [shape res_out]. rewrite <- (gi_pol _ _ _ _ _ _ HF).
    unfold pol_out. destruct (b_policy st); exact H.
Qed.

Lemma add_conjs_ggen d : forall ics st st' o db,
  GInv st -> GRepr st db -> Forall (fun ic => conj_ok' (snd ic) = true -> conj_rwf (snd ic)) ics ->
  add_conjs false d st ics = (st', o) ->
  GInv st' /\ GRepr st' (db ++ fst (xrun_conjs pol gconj_res d ics)) /\ o = snd (xrun_conjs pol gconj_res d ics).
Proof.
  induction ics as [|[i c] ics IH]; intros st st' o db HF HR Hrw H; cbn [add_conjs] in H.
  - inversion H; subst. cbn [xrun_conjs fst snd]. rewrite app_nil_r. auto.
  - inversion Hrw as [|? ? Hrw1 Hrw2]; subst. cbn [snd] in Hrw1.
    destruct (add_conj false d st (i, c)) as [st1 o1] eqn:E1.
    destruct (add_conj_ggen _ _ _ _ _ _ _ HF HR Hrw1 E1) as (F1 & G1). cbn [xrun_conjs].
    destruct (IdsGen.NewConjID d i (calc_size c)) as [cid|] eqn:Ec.
    2:{ destruct G1 as [R1 ->]. inversion H; subst. cbn [fst snd]. rewrite app_nil_r. auto. }
    destruct G1 as [Eo R1].
    pose proof (gconj_res_ok c) as Hok.
    assert (Hno : gconj_res c <> POk tt -> conj_ok' c = false).
    { intros Hne. destruct (conj_ok' c); [|reflexivity]. exfalso. apply Hne. apply Hok. reflexivity. }
    destruct (gconj_res c) as [[]| | | |]; cbn [res_out] in Eo.
    + subst o1. rewrite (proj1 Hok eq_refl) in R1.
      destruct (IH _ _ _ _ F1 R1 Hrw2 H) as (F2 & R2 & E2).
      destruct (xrun_conjs pol gconj_res d ics) as [db' o']. cbn [fst snd] in *.
      split; [exact F2|]. split; [|exact E2]. rewrite <- app_assoc in R2. exact R2.
    + rewrite (Hno ltac:(discriminate)), app_nil_r in R1. unfold pol_out in Eo.
      destruct pol; subst o1.
      * inversion H; subst. cbn [fst snd]. rewrite app_nil_r. auto.
      * exact (IH _ _ _ _ F1 R1 Hrw2 H).
      * inversion H; subst. cbn [fst snd]. rewrite app_nil_r. auto.
    + rewrite (Hno ltac:(discriminate)), app_nil_r in R1. subst o1. inversion H; subst. cbn [fst snd]. rewrite app_nil_r. auto.
    + rewrite (Hno ltac:(discriminate)), app_nil_r in R1. subst o1. inversion H; subst. cbn [fst snd]. rewrite app_nil_r. auto.
    + rewrite (Hno ltac:(discriminate)), app_nil_r in R1. subst o1. inversion H; subst. cbn [fst snd]. rewrite app_nil_r. auto.
Qed.

Lemma add_document_ggen st d st' o db :
  GInv st -> GRepr st db -> (forall c, In c (d_conjs d) -> conj_ok' c = true -> conj_rwf c) ->
  add_document false st d = (st', o) ->
  GInv st' /\ GRepr st' (db ++ fst (xrun_doc pol gconj_res d)) /\ o = snd (xrun_doc pol gconj_res d).
Proof.
  intros HF HR Hrw H. unfold add_document in H. unfold xrun_doc.
  destruct (d_conjs d) as [|c0 cs] eqn:Ed.
  - inversion H; subst. cbn [fst snd]. rewrite app_nil_r. auto.
  - rewrite <- Ed in *. destruct (255 <? Z.of_nat (length (d_conjs d))).
    + inversion H; subst. cbn [fst snd]. rewrite app_nil_r. auto.
    + eapply add_conjs_ggen; try eassumption.
      apply Forall_forall. intros ic Hic. apply Hrw. eapply indexed_from_snd. exact Hic.
Qed.

Lemma add_documents_ggen : forall ds st st' os db,
  GInv st -> GRepr st db -> (forall d c, In d ds -> In c (d_conjs d) -> conj_ok' c = true -> conj_rwf c) ->
  add_documents false st ds = (st', os) ->
  GInv st' /\ GRepr st' (db ++ xidb pol gconj_res ds) /\ os = xouts pol gconj_res ds.
Proof.
  induction ds as [|d ds IH]; intros st st' os db HF HR Hrw H; cbn [add_documents] in H.
  - inversion H; subst. cbn. rewrite app_nil_r. auto.
  - destruct (add_document false st d) as [st1 o] eqn:E1. destruct (add_documents false st1 ds) as [st2 os'] eqn:E2.
    inversion H; subst.
    destruct (add_document_ggen _ _ _ _ _ HF HR (fun c Hc => Hrw d c (or_introl eq_refl) Hc) E1) as (F1 & R1 & ->).
    destruct (IH _ _ _ _ F1 R1 (fun d' c Hd Hc => Hrw d' c (or_intror Hd) Hc) E2) as (F2 & R2 & ->).
    split; [exact F2|]. split; [|reflexivity].
    unfold xidb in *. cbn [flat_map]. rewrite app_assoc. exact R2.
Qed.

End GBuild.

Lemma gconj_res_ext thr parsers c1 c2 cj : (forall f, c1 f = c2 f) ->
  gconj_res thr parsers c1 cj = gconj_res thr parsers c2 cj.
Proof.
  intros H. induction cj as [|[f es] cj IH]; cbn [gconj_res]; [reflexivity|].
  assert (He : gexprs_res thr parsers c1 f es = gexprs_res thr parsers c2 f es).
  { induction es as [|e es IHe]; cbn [gexprs_res]; [reflexivity|]. unfold gexpr_res, mkfd. rewrite (H f), IHe. reflexivity. }
  rewrite He, IH. reflexivity.
Qed.

(* the configured builder, any policy, any outcomes *)
Theorem add_documents_grun kind pol thr parsers l st0 ds st os :
  config_fields (new_builder kind pol thr parsers) l = Some st0 ->
  (forall d c, In d ds -> In c (d_conjs d) -> conj_ok' parsers (fields_cfg st0) c = true -> conj_rwf thr (fields_cfg st0) c) ->
  add_documents false st0 ds = (st, os) ->
  GInv kind pol thr parsers (fields_cfg st0) st /\
  GRepr kind thr parsers (fields_cfg st0) st (xidb pol (gconj_res thr parsers (fields_cfg st0)) ds) /\
  os = xouts pol (gconj_res thr parsers (fields_cfg st0)) ds.
Proof.
  intros Hc Hrw H. destruct (configured_GInv _ _ _ _ _ _ Hc) as (HF & HR & _).
  exact (add_documents_ggen kind pol thr parsers (fields_cfg st0) ds _ _ _ [] HF HR Hrw H).
Qed.

(* MAIN: index_correct_holders without `Forall (eq AddOk) os` and without `pol <> PolSkip \/ all conj_ok'`.
   A conjunction is reported iff it is INDEXED (xm_indexed: its document has 1..255 conjunctions, it
   parses, and every conjunction before it got a conjunction id and either parsed or -- under PolSkip --
   failed with a parse ERROR) and satisfied; nothing else is reported; the outcomes are xouts. *)
Theorem index_correct_holders_policy kind pol thr parsers cfgl st0 ds st os q :
  config_fields (new_builder kind pol thr parsers) cfgl = Some st0 ->
  add_documents false st0 ds = (st, os) ->
  NoDup (map d_id ds) ->
  (forall d cj, In d ds -> In cj (d_conjs d) -> NoDup (map fst cj)) ->
  (forall d cj, In d ds -> In cj (d_conjs d) -> conj_rwf thr (cfg_of cfgl) cj) ->
  NoDup (map fst q) ->
  (forall f v, In (f, v) q -> qv_ok (cfg_of cfgl f) (parsers f) v = true) ->
  (kind = IKGroups -> forall f v, In (f, v) q -> cfg_of cfgl f = CAc -> nil_slice_wf v) ->
  let cres := gconj_res thr parsers (cfg_of cfgl) in
  os = xouts pol cres ds /\
  exists hits,
    retrieve_hits (build_index st) q = ROk hits /\
    NoDup (map snd hits) /\
    (forall x, In x (map snd hits) <->
       exists cj, In (x, cj) (xidb pol cres ds) /\ conj_sat' parsers (cfg_of cfgl) q cj = true) /\
    (forall d k cj cid, has_conj ds d k cj cid ->
       (In cid (map snd hits) <-> xm_indexed pol cres d k cj /\ conj_sat' parsers (cfg_of cfgl) q cj = true)) /\
    (forall h, In h hits -> fst h = IdsGen.ConjID_DocID (snd h) /\
       exists d k cj, has_conj ds d k cj (snd h) /\ xm_indexed pol cres d k cj /\
                      conj_sat' parsers (cfg_of cfgl) q cj = true).
Proof.
  intros Hcfg Hadd Hnd Hcjs Hrw Hq Hqp Hqnil cres.
  destruct (configured_GInv _ _ _ _ _ _ Hcfg) as (_ & _ & Hext).
  assert (Hext' : forall f, cfg_of cfgl f = fields_cfg st0 f) by (intros f; symmetry; apply Hext).
  set (cfg := fields_cfg st0) in *.
  assert (Hcres : forall c, gconj_res thr parsers cfg c = cres c).
  { intros c. apply gconj_res_ext. exact Hext. }
  assert (Hrw' : forall d c, In d ds -> In c (d_conjs d) -> conj_rwf thr cfg c).
  { intros d c Hd Hc. eapply conj_rwf_ext; [exact Hext'|]. eapply Hrw; eassumption. }
  destruct (add_documents_grun kind pol thr parsers cfgl st0 ds st os Hcfg (fun d c Hd Hc _ => Hrw' d c Hd Hc) Hadd)
    as (HF & HR & Eos).
  fold cfg in HF, HR, Eos.
  rewrite (xidb_ext pol _ cres ds Hcres) in HR. rewrite (xouts_ext pol _ cres ds Hcres) in Eos.
  split; [exact Eos|].
  set (db := xidb pol cres ds) in *.
  assert (Hdbm : forall cid cj, In (cid, cj) db <-> exists d k, has_conj ds d k cj cid /\ xm_indexed pol cres d k cj).
  { intros cid cj. apply idb_In. }
  assert (Hhas : forall cid cj, In (cid, cj) db -> exists d k, has_conj ds d k cj cid).
  { intros cid cj H. apply Hdbm in H. destruct H as (d & k & H & _). eauto. }
  assert (H60 : forall cid cj, In (cid, cj) db -> (cid < 2^60)%N).
  { intros cid cj H. apply Hhas in H. destruct H as (d & k & H). apply (has_conj_facts _ _ _ _ _ H). }
  assert (Hu : forall cid cj cj', In (cid, cj) db -> In (cid, cj') db -> cj = cj').
  { intros cid cj cj' H H'. apply Hhas in H, H'. destruct H as (d & k & H), H' as (d' & k' & H').
    apply (has_conj_unique _ _ _ _ _ _ _ _ Hnd H H'). }
  assert (Hndc : forall cid cj, In (cid, cj) db -> NoDup (map fst cj)).
  { intros cid cj H. apply Hhas in H. destruct H as (d & k & Hd & Hn & _).
    apply (Hcjs d cj Hd). eapply nth_error_In. exact Hn. }
  assert (Hsz : forall cid cj, In (cid, cj) db -> IdsGen.ConjID_Size cid = calc_size cj).
  { intros cid cj H. apply Hhas in H. destruct H as (d & k & H). apply (has_conj_facts _ _ _ _ _ H). }
  assert (Hdbok : forall cid cj, In (cid, cj) db -> conj_ok' parsers cfg cj = true).
  { intros cid cj H. apply Hdbm in H. destruct H as (d & k & _ & (_ & _ & Hr & _)).
    apply (gconj_res_ok thr parsers cfg cj). rewrite Hcres. exact Hr. }
  assert (Hdbrw : forall cid cj, In (cid, cj) db -> conj_rwf thr cfg cj).
  { intros cid cj H. apply Hhas in H. destruct H as (d & k & Hd & Hn & _).
    apply (Hrw' d cj Hd). eapply nth_error_In. exact Hn. }
  assert (Hqp' : forall f v, In (f, v) q -> qvok parsers cfg f v = true).
  { intros f v H. unfold qvok, cfg. rewrite Hext. apply Hqp. exact H. }
  assert (Hqnil' : kind = IKGroups -> forall f v, In (f, v) q -> cfg f = CAc -> nil_slice_wf v).
  { intros Hk f v H Hc. apply (Hqnil Hk f v H). rewrite Hext'. exact Hc. }
  assert (core : exists hits, retrieve_hits (build_index st) q = ROk hits /\ NoDup (map snd hits) /\
            (forall x, In x (map snd hits) <-> exists cj, In (x, cj) db /\ conj_sat' parsers cfg q cj = true) /\
            (forall h, In h hits -> fst h = IdsGen.ConjID_DocID (snd h))).
  { destruct kind.
    - apply (gkgroups_hits_correct IKGroups pol thr parsers cfg st db HF HR H60 Hu Hdbok Hdbrw q Hq Hqp' (Hqnil' eq_refl) Hndc eq_refl).
    - apply (gcompact_hits_correct ICompact pol thr parsers cfg st db HF HR H60 Hu Hdbok Hdbrw q Hq Hqp' Hndc eq_refl Hsz). }
  destruct core as (hits & E & N1 & I1 & O1).
  assert (I1' : forall x, In x (map snd hits) <->
            exists cj, In (x, cj) db /\ conj_sat' parsers (cfg_of cfgl) q cj = true).
  { intros x. rewrite I1. split; intros (cj & A & B); exists cj; (split; [exact A|]);
      [rewrite <- (conj_sat'_ext parsers cfg (cfg_of cfgl) q cj Hext)|rewrite (conj_sat'_ext parsers cfg (cfg_of cfgl) q cj Hext)]; exact B. }
  exists hits. split; [exact E|]. split; [exact N1|]. split; [exact I1'|]. split.
  - intros d k cj cid Hh. rewrite I1'. split.
    + intros (cj' & Hin & Hs). apply Hdbm in Hin. destruct Hin as (d' & k' & Hh' & Hm).
      destruct (has_conj_unique _ _ _ _ _ _ _ _ Hnd Hh Hh') as (<- & <- & <-). auto.
    + intros [Hm Hs]. exists cj. split; [|exact Hs]. apply Hdbm. exists d, k. auto.
  - intros h Hh. split; [apply O1; exact Hh|].
    assert (Hin : In (snd h) (map snd hits)) by (apply in_map; exact Hh).
    apply I1' in Hin. destruct Hin as (cj & Hin & Hs). apply Hdbm in Hin. destruct Hin as (d & k & Hhc & Hm).
    exists d, k, cj. auto.
Qed.

(* documents *)
Theorem retrieve_docs_holders_policy kind pol thr parsers cfgl st0 ds st os q :
  config_fields (new_builder kind pol thr parsers) cfgl = Some st0 ->
  add_documents false st0 ds = (st, os) ->
  NoDup (map d_id ds) ->
  (forall d cj, In d ds -> In cj (d_conjs d) -> NoDup (map fst cj)) ->
  (forall d cj, In d ds -> In cj (d_conjs d) -> conj_rwf thr (cfg_of cfgl) cj) ->
  NoDup (map fst q) ->
  (forall f v, In (f, v) q -> qv_ok (cfg_of cfgl f) (parsers f) v = true) ->
  (kind = IKGroups -> forall f v, In (f, v) q -> cfg_of cfgl f = CAc -> nil_slice_wf v) ->
  let cres := gconj_res thr parsers (cfg_of cfgl) in
  exists docs,
    retrieve (build_index st) q = ROk docs /\
    (forall d, In d ds ->
       (In (d_id d) docs <->
        exists k cj, xm_indexed pol cres d k cj /\ conj_sat' parsers (cfg_of cfgl) q cj = true /\
                     IdsGen.NewConjID (d_id d) (Z.of_nat k) (calc_size cj) <> None)) /\
    (forall z, In z docs -> exists d, In d ds /\ z = d_id d).
Proof.
  intros Hcfg Hadd Hnd Hcjs Hrw Hq Hqp Hqnil cres.
  destruct (index_correct_holders_policy kind pol thr parsers cfgl st0 ds st os q Hcfg Hadd Hnd Hcjs Hrw Hq Hqp Hqnil)
    as (_ & hits & E & _ & I1 & _ & O1). fold cres in I1, O1.
  destruct (hits_docs pol cres (conj_sat' parsers (cfg_of cfgl) q) ds (build_index st) q hits E I1
              (fun h Hh => proj1 (O1 h Hh))) as (Er & _ & D1).
  exists (collect_docs hits). split; [exact Er|]. split.
  - intros d Hd. rewrite D1. split.
    + intros (d' & cid & cj & Hd' & Ez & Hin & Hs).
      assert (d = d') by (eapply NoDup_map_eq; eassumption). subst d'.
      apply run_doc_In in Hin. destruct Hin as (k & Hm & Hc). exists k, cj. split; [exact Hm|]. split; [exact Hs|congruence].
    + intros (k & cj & Hm & Hs & Hc).
      destruct (IdsGen.NewConjID (d_id d) (Z.of_nat k) (calc_size cj)) as [cid|] eqn:Ec; [|congruence].
      exists d, cid, cj. split; [exact Hd|]. split; [reflexivity|]. split; [|exact Hs].
      apply run_doc_In. exists k. auto.
  - intros z Hz. apply D1 in Hz. destruct Hz as (d & _ & _ & Hd & Ez & _). eauto.
Qed.

(* ---- concrete runs: pattern and range containers, every policy ---- *)
Module HoldersPolicyWitness.
  Definition ps : fname -> parser_kind := fun _ => PCommon.
  Definition iv (z : Z) : gval := VInt KI z.
  Definition sv (s : list N) : gval := VStr s.
  Definition cfgl : list (fname * cont_kind) := [(1%N, CAc); (2%N, CRange)].
  Definition kw := {| e_incl := true; e_op := OpEQ; e_val := sv [97;98]%N |}.                       (* keyword "ab" *)
  Definition gt100 := {| e_incl := true; e_op := OpGT; e_val := VInt KI64 100 |}.
  Definition rbad := {| e_incl := true; e_op := OpOther; e_val := iv 1 |}.                          (* PErr on a range field *)
  Definition kwgt := {| e_incl := true; e_op := OpGT; e_val := sv [97]%N |}.                        (* PPanic on a pattern field *)
  Definition dA := {| d_id := 10; d_conjs := [ [(1%N,[kw])]; [(2%N,[rbad])]; [(2%N,[gt100])] ] |}.
  Definition dB := {| d_id := 11; d_conjs := [ [(2%N,[gt100])]; [(1%N,[kwgt])]; [(1%N,[kw])] ] |}.
  Definition docs := [dA; dB].
  Definition qq : assignment := [(1%N, sv [120;97;98]%N); (2%N, iv 500)].                         (* "xab", 500 *)

  Definition run k pol :=
    match config_fields (new_builder k pol 256 ps) cfgl with
    | None => None
    | Some st0 =>
      let '(st, os) := add_documents false st0 docs in
      Some (os, xouts pol (gconj_res 256 ps (cfg_of cfgl)) docs,
            match retrieve_hits (build_index st) qq with
            | ROk hits => Some (map (fun h : hitrec => (IdsGen.ConjID_DocID (snd h), IdsGen.ConjID_Index (snd h))) hits)
            | _ => None end,
            map (fun x => (IdsGen.ConjID_DocID (fst x), IdsGen.ConjID_Index (fst x)))
                (filter (fun x => conj_sat' ps (cfg_of cfgl) qq (snd x)) (xidb pol (gconj_res 256 ps (cfg_of cfgl)) docs)),
            retrieve (build_index st) qq)
    end.
  (* Skip: dA's bad range conjunction is skipped, its third conjunction is indexed; dB panics at its
     second conjunction (operator GT on a pattern field) and keeps its first *)
  Example run_skip : run IKGroups PolSkip =
    Some ([AddOk; AddPanic], [AddOk; AddPanic], Some [(10, 0); (11, 0); (10, 2)], [(10, 0); (10, 2); (11, 0)], ROk [10; 11]).
  Proof. vm_compute. reflexivity. Qed.
  Example run_error : run ICompact PolError =
    Some ([AddErr; AddPanic], [AddErr; AddPanic], Some [(10, 0); (11, 0)], [(10, 0); (11, 0)], ROk [10; 11]).
  Proof. vm_compute. reflexivity. Qed.
End HoldersPolicyWitness.

Check add_documents_grun.
Check index_correct_holders_policy.
Check retrieve_docs_holders_policy.
Print Assumptions add_documents_grun.
Print Assumptions index_correct_holders_policy.
Print Assumptions retrieve_docs_holders_policy.
