From Coq Require Import List NArith ZArith Bool.
From BE Require Import Model.GoTypes Model.GoVal Model.Parsers Model.Index Model.Publish.
Import ListNotations.

(* with a table of its own, nothing the builder does later is visible to the published index *)
Theorem published_independent st0 ops q :
  retrieve_published false st0 ops q = retrieve (build_index st0) q.
Proof.
  unfold retrieve_published, published. destruct (build_index st0); reflexivity.
Qed.

(* with the shared table (pinned tree) a field configured later becomes known to the old index:
   an assignment it used to ignore now makes the same retrieval fail *)
Definition st_pub : bstate :=
  fst (add_document false (new_builder IKGroups PolError 256 (fun _ => PCommon))
    {| d_id := 1; d_conjs := [[(0%N, [ {| e_incl := true; e_op := OpEQ; e_val := VInt KI 1 |} ])]] |}).
Definition q_late : assignment := [(0%N, VInt KI 1); (9%N, VBool true)].
Theorem shared_table_refuted :
  retrieve_published false st_pub [BReset; BConfigField 9%N CDefault] q_late = ROk [1%Z] /\
  retrieve_published true  st_pub [BReset; BConfigField 9%N CDefault] q_late = RErr.
Proof. vm_compute. split; reflexivity. Qed.
