package main

import (
	"encoding/json"
	"fmt"
	be "github.com/echoface/be_indexer"
	"github.com/echoface/be_indexer/holder/ahoholder"
	"reflect"
	"strings"
)

// ---- generator of document sets and queries over default-container fields ----

type docsetOpts struct {
	kind       string
	nFields    int
	maxDocs    int
	manyConj   bool // sometimes a document with many conjunctions
	multiSat   bool // bias to several simultaneously satisfied conjunctions (C04)
	mixedSizes bool // bias to mixed sizes / early exit (C02)
	noPre      bool // do not give the builder an earlier generation
	alpha      int  // value alphabet size (0 = the default 6); with a large one a query may hit 9 and more lists of one field
	valueShape func(r *Rand, vals []int64) TV
	queryShape func(r *Rand, vals []int64) TV
}

var extremeIDs = []int64{0, 1, -1, 2, -2, 7, -7, 100, -100, 1<<43 - 1, -(1<<43 - 1), 1<<43 - 2, -(1<<43 - 2)}

// text values, among them the empty string (a legal value with its own hash) in scalar and list form
func wordsShape(r *Rand, n int) TV {
	// "北京"/"南京", "é"/"è": different values that agree in the first byte of every character
	words := []string{"", "a", "1", "", "7", "北京", "南京", "é", "è"}
	if n <= 1 && r.Chance(60) {
		if r.Chance(15) {
			return tvJSON(pick(r, []string{"", "1", "7"}))
		}
		return tvStr(pick(r, words))
	}
	l := make([]TV, n)
	for i := range l {
		l[i] = tvStr(pick(r, words))
	}
	if r.Chance(30) {
		return tvList(l...)
	}
	return tvSlice("[]string", l...)
}

func intsShape(r *Rand, vals []int64) TV {
	if r.Chance(10) {
		return wordsShape(r, len(vals))
	}
	switch r.Intn(8) {
	case 0:
		if len(vals) == 1 {
			return tvInt("int", vals[0])
		}
	case 1:
		l := make([]TV, len(vals))
		for i, v := range vals {
			l[i] = tvInt("int64", v)
		}
		return tvSlice("[]int64", l...)
	case 2:
		l := make([]TV, len(vals))
		for i, v := range vals {
			l[i] = tvStr(fmt.Sprint(v))
		}
		return tvSlice("[]string", l...)
	case 3:
		l := make([]TV, len(vals))
		for i, v := range vals {
			if i%2 == 0 {
				l[i] = fitInt("int32", v)
			} else {
				l[i] = tvStr(fmt.Sprint(v))
			}
		}
		return tvList(l...)
	}
	l := make([]TV, len(vals))
	for i, v := range vals {
		l[i] = tvInt("int", v)
	}
	return tvSlice("[]int", l...)
}

// bigUShape: the value v stands for 2^63+v, written as an unsigned integer, a decimal string or a mix (identities beyond
// the int64 range; both sides of a docset use this shape, so matches still happen)
func bigUShape(r *Rand, vals []int64) TV {
	u := func(v int64) uint64 { return uint64(1<<63) + uint64(v) }
	l := make([]TV, len(vals))
	for i, v := range vals {
		switch r.Intn(3) {
		case 0:
			l[i] = tvUint("uint64", u(v))
		case 1:
			l[i] = tvStr(fmt.Sprint(u(v)))
		default:
			l[i] = tvUint("uint", u(v))
		}
	}
	switch {
	case len(vals) == 1 && r.Bool():
		return l[0]
	case r.Bool():
		for i, v := range vals {
			l[i] = tvUint("uint64", u(v))
		}
		return tvSlice("[]uint64", l...)
	}
	return tvList(l...)
}

// floatShape: the value v as a float with a fraction (integer part v; for 0 also with the sign bit set)
func floatShape(r *Rand, vals []int64) TV {
	l := make([]TV, len(vals))
	for i, v := range vals {
		f := float64(v)
		switch {
		case v > 0 || (v == 0 && r.Bool()):
			f += 0.5
		default:
			f -= 0.25
		}
		l[i] = tvFloat("float64", f)
	}
	if len(vals) == 1 && r.Bool() {
		return l[0]
	}
	if r.Bool() {
		return tvList(l...)
	}
	return tvSlice("[]float64", l...)
}

func (o *docsetOpts) alphaOr(d int) int {
	if o.alpha > 0 {
		return o.alpha
	}
	return d
}

func randVals(r *Rand, n int, alphabet int) []int64 {
	vs := make([]int64, n)
	for i := range vs {
		vs[i] = int64(r.Intn(alphabet+1)) - 1 // -1, 0 (zero values of their Go types) and 1..alphabet-1
	}
	return vs
}

func genConj(r *Rand, o *docsetOpts) eConj {
	var cj eConj
	switch r.Intn(12) {
	case 0: // empty conjunction: matches everything
		return cj
	case 1: // all negative
		n := 1 + r.Intn(3)
		for i := 0; i < n; i++ {
			cj = append(cj, eExpr{F: r.Intn(o.nFields), Inc: false, V: o.valueShape(r, randVals(r, 1+r.Intn(3), o.alphaOr(6)))})
		}
		return cj
	}
	n := 1 + r.Intn(6)
	if o.mixedSizes && r.Chance(40) {
		n = 3 + r.Intn(4)
	}
	for i := 0; i < n; i++ {
		f := r.Intn(o.nFields)
		if i > 0 && r.Chance(25) { // repetition on one field: in/in, in/not, not/not
			f = cj[r.Intn(len(cj))].F
		}
		nv := r.Intn(5)
		if r.Chance(80) && nv == 0 {
			nv = 1
		}
		v := o.valueShape(r, randVals(r, nv, o.alphaOr(6)))
		if nv == 0 && r.Bool() { // a NIL slice of a supported type lists nothing either (`var vs []int` and no append)
			v = TV{T: pick(r, []string{"[]int", "[]string", "[]int64", "[]interface{}"}), Nil: true}
		}
		cj = append(cj, eExpr{F: f, Inc: r.Chance(70), V: v})
	}
	return cj
}

func genDocset(r *Rand, o *docsetOpts) eCase {
	c := eCase{Kind: o.kind, Policy: "error"}
	if !o.noPre && o.kind != "rr" { // representation variety per docset (the roaring cases keep their own value shapes)
		oo := *o
		switch r.Intn(12) {
		case 0: // identities beyond the int64 range on both sides
			oo.valueShape, oo.queryShape = bigUShape, bigUShape
		case 1: // floats at query time against integers in the index
			oo.queryShape = floatShape
		case 2: // floats in the index against integers at query time
			oo.valueShape = floatShape
		case 3, 4: // a large value alphabet: many posting lists per field, queries assigning 9..16 values to one field
			oo.alpha = 24
		}
		o = &oo
	}
	nd := 1 + r.Intn(o.maxDocs)
	used := map[int64]bool{}
	for i := 0; i < nd; i++ {
		id := pick(r, extremeIDs)
		if r.Chance(50) {
			id = r.I64(-50, 50)
		}
		for used[id] {
			id = r.I64(-1000, 1000)
		}
		used[id] = true
		d := eDoc{ID: id}
		nc := 1 + r.Intn(4)
		if o.manyConj && r.Chance(3) {
			nc = 200 + r.Intn(56)
		}
		if o.multiSat {
			nc = 2 + r.Intn(4)
		}
		for j := 0; j < nc; j++ {
			cj := genConj(r, o)
			if o.multiSat && j > 0 && r.Chance(40) { // variants of the same conjunction: satisfied together
				cj = append(eConj{}, d.Cons[j-1]...)
				if len(cj) > 1 && r.Bool() {
					cj = cj[:len(cj)-1]
				}
			}
			d.Cons = append(d.Cons, cj)
		}
		c.Docs = append(c.Docs, d)
	}
	nq := 8 + r.Intn(13)
	for i := 0; i < nq; i++ {
		var q eQuery
		if i > 0 && r.Chance(15) { // repeat an earlier query (history independence)
			q = c.Queries[r.Intn(len(c.Queries))]
			c.Queries = append(c.Queries, q)
			continue
		}
		for f := 0; f < o.nFields+1; f++ { // field nFields is unknown to the index
			switch r.Intn(8) {
			case 0, 1: // absent
			case 2:
				q.A = append(q.A, eAssign{F: f, V: tvNil()})
			case 3:
				q.A = append(q.A, eAssign{F: f, V: tvSlice("[]int")})
			default:
				nq := 1 + r.Intn(3)
				if o.alpha > 0 && r.Chance(40) { // many values on one field: 9 and more posting lists behind one field cursor
					nq = 9 + r.Intn(8)
				}
				q.A = append(q.A, eAssign{F: f, V: o.queryShape(r, randVals(r, nq, o.alphaOr(6)+1))})
			}
		}
		q.Debug = r.Chance(20)
		c.Queries = append(c.Queries, q)
	}
	if r.Chance(25) && !o.noPre { // the builder has already produced an earlier generation (same id range, other documents)
		o2 := *o
		o2.noPre = true
		o2.maxDocs = 4
		c.Pre = genDocset(r, &o2).Docs
	}
	if r.Chance(30) { // several documents per AddDocument call
		c.Batch = 2 + r.Intn(4)
	} else if r.Chance(30) && len(c.Docs) > 1 { // an intermediate BuildIndex, then more documents (possibly new fields), then the final build
		c.Rebuild = 1 + r.Intn(len(c.Docs)-1)
	}
	return c
}

// exhaustive small scope: <=2 documents x 1..2 conjunctions over fields {0,1}, values {0,1}, every assignment
func smallScope(kind string, add func(in interface{})) {
	type ex struct {
		f   int
		inc bool
		v   int64
	}
	var atoms []ex
	for f := 0; f < 2; f++ {
		for _, inc := range []bool{true, false} {
			for v := int64(0); v < 2; v++ {
				atoms = append(atoms, ex{f, inc, v})
			}
		}
	}
	// conjunctions: subsets of atoms of size <= 2 (incl. empty)
	var conjs []eConj
	conjs = append(conjs, eConj{})
	for i := range atoms {
		conjs = append(conjs, eConj{{F: atoms[i].f, Inc: atoms[i].inc, V: tvSlice("[]int", tvInt("int", atoms[i].v))}})
		for j := i + 1; j < len(atoms); j++ {
			conjs = append(conjs, eConj{{F: atoms[i].f, Inc: atoms[i].inc, V: tvSlice("[]int", tvInt("int", atoms[i].v))},
				{F: atoms[j].f, Inc: atoms[j].inc, V: tvSlice("[]int", tvInt("int", atoms[j].v))}})
		}
	}
	// all assignments over fields {0,1}: absent, [0], [1], [0,1]
	var queries []eQuery
	opts := [][]int64{nil, {0}, {1}, {0, 1}}
	for _, a := range opts {
		for _, b := range opts {
			var q eQuery
			if a != nil {
				q.A = append(q.A, eAssign{F: 0, V: intsShape(&Rand{s: 99}, a)})
			}
			if b != nil {
				q.A = append(q.A, eAssign{F: 1, V: intsShape(&Rand{s: 99}, b)})
			}
			queries = append(queries, q)
		}
	}
	for i := range conjs {
		for j := i; j < len(conjs); j++ {
			c := eCase{Kind: kind, Policy: "error", Queries: queries}
			c.Docs = []eDoc{{ID: 1, Cons: []eConj{conjs[i]}}, {ID: -2, Cons: []eConj{conjs[j], conjs[i]}}}
			add(c)
		}
	}
}

const e2eRule = "seeded document sets (1..maxDocs documents, 1..4 and sometimes 200+ conjunctions, 0..6 expressions over the fields with repetition on one field, 0..4 values from the alphabet {-1, 0, 1..5} in several Go representations (per docset sometimes as identities beyond the int64 range 2^63+v in unsigned / decimal-string form, or as fractional floats on one side), empty lists, all-negative and empty conjunctions, ids incl. 0 and +-(2^43-1)), every tenth case over 9..16 fields, every eighth with pattern and range fields next to the default ones; documents added one per AddDocument call or (30%) in groups of 2..5, (20%) with an intermediate BuildIndex before the remaining documents, (25%) on a builder that has already built and Reset an earlier generation; 8..20 queries per index (absent/nil/empty/1..3 values per field -- one docset in six over a 24-value alphabet with 9..16 values per field --, an unknown field, repeats, debug options on 20%); thorough adds the exhaustive small scope (2 documents, conjunctions of <=2 atoms over 2 fields x 2 values, all 16 assignments). A case is integers against float64 of the same value at magnitudes 10^5 .. 2^53 (both sides); two generations of one cached builder re-adding the same ids with other values; the debug dumps of the built index are called before the queries whenever a query carries the debug options; non-trivial when some query returns a non-empty proper subset of the accepted documents; distinct = distinct input"

func init() {
	gen := func(kind string, multiSat, mixed bool) func(tier string, r *Rand, add func(in interface{})) {
		return func(tier string, r *Rand, add func(in interface{})) {
			o := &docsetOpts{kind: kind, nFields: 1 + r.Intn(5), maxDocs: 12, manyConj: true, multiSat: multiSat, mixedSizes: mixed,
				valueShape: intsShape, queryShape: intsShape}
			n := 40
			if tier == "thorough" {
				n = 3000
			}
			// corpus: values that carry no text but are values all the same (the empty string), as scalars and in
			// lists, on fields the matching conjunction needs to be counted
			{
				one := func(f int, inc bool, v TV) eExpr { return eExpr{F: f, Inc: inc, V: v} }
				c := eCase{Kind: kind, Policy: "error"}
				c.Docs = []eDoc{
					{ID: 1, Cons: []eConj{{one(0, true, tvStr(""))}}},
					{ID: 2, Cons: []eConj{{one(0, true, tvStr("sh")), one(1, true, tvSlice("[]string", tvStr(""), tvStr("direct")))}}},
					{ID: 3, Cons: []eConj{{one(0, true, tvStr("sh")), one(1, true, tvStr("x")), one(2, true, tvJSON(""))}}},
					{ID: 4, Cons: []eConj{{one(0, false, tvStr("zz"))}}},
					{ID: 5, Cons: []eConj{{one(1, false, tvStr(""))}, {one(2, true, tvSlice("[]string"))}}},
				}
				for _, a := range [][]eAssign{
					{{F: 0, V: tvStr("")}}, {{F: 0, V: tvStr("sh")}, {F: 1, V: tvStr("")}}, {{F: 0, V: tvStr("sh")}, {F: 1, V: tvSlice("[]string", tvStr(""))}},
					{{F: 0, V: tvStr("sh")}, {F: 1, V: tvStr("")}, {F: 2, V: tvStr("ios")}}, {{F: 0, V: tvStr("sh")}, {F: 1, V: tvStr("x")}, {F: 2, V: tvJSON("")}},
					{{F: 0, V: tvJSON("")}}, {{F: 1, V: tvStr("")}}, {{F: 0, V: tvStr("sh")}, {F: 1, V: tvStr("x")}, {F: 2, V: tvStr("")}}, {{F: 0, V: tvList(tvStr(""))}}, {},
				} {
					c.Queries = append(c.Queries, eQuery{A: a})
				}
				add(c)
			}
			// degenerate indexes: no conjunction of any document has an expression (only the match-everything list
			// exists); only exclude expressions; a single document
			for _, docs := range [][]eDoc{
				{{ID: 7, Cons: []eConj{{}}}, {ID: -3, Cons: []eConj{{}, {}}}},
				{{ID: 7, Cons: []eConj{{{F: 0, Inc: false, V: tvSlice("[]int", tvInt("int", 1))}}}}, {ID: 8, Cons: []eConj{{}}}},
				{{ID: 9, Cons: []eConj{{{F: 0, Inc: true, V: tvSlice("[]int", tvInt("int", 1))}}}}},
			} {
				add(eCase{Kind: kind, Policy: "error", Docs: docs, Queries: []eQuery{{}, {A: []eAssign{{F: 0, V: tvInt("int", 1)}}}, {A: []eAssign{{F: 0, V: tvInt("int", 2)}, {F: 5, V: tvStr("x")}}}}})
			}
			// the same answers when the builder has a cache provider: conjunctions mixing an expression long enough to be
			// cached with short ones (include and exclude, one and several fields), on cold and warm builds
			{
				ints := func(k, off int) TV {
					l := make([]TV, k)
					for i := range l {
						l[i] = tvInt("int", int64(off+i))
					}
					return tvSlice("[]int", l...)
				}
				c := eCase{Kind: kind, Policy: "error"}
				c.Docs = []eDoc{
					{ID: 1, Cons: []eConj{{{F: 0, Inc: true, V: ints(6, 0)}, {F: 1, Inc: true, V: tvStr("sh")}}}},
					{ID: 2, Cons: []eConj{{{F: 0, Inc: true, V: ints(6, 3)}, {F: 1, Inc: false, V: tvStr("bj")}}}},
					{ID: 3, Cons: []eConj{{{F: 0, Inc: true, V: ints(2, 7)}}, {{F: 2, Inc: true, V: ints(5, 0)}, {F: 0, Inc: true, V: ints(1, 7)}, {F: 1, Inc: true, V: tvSlice("[]string", tvStr("sh"), tvStr("gz"))}}}},
					{ID: -4, Cons: []eConj{{{F: 0, Inc: false, V: ints(5, 0)}, {F: 1, Inc: false, V: tvStr("sh")}}}},
				}
				for _, a := range []int64{0, 4, 7, 8, 9} {
					for _, city := range []string{"sh", "bj", "gz"} {
						c.Queries = append(c.Queries, eQuery{A: []eAssign{{F: 0, V: tvInt("int", a)}, {F: 1, V: tvStr(city)}}}, eQuery{A: []eAssign{{F: 0, V: tvInt("int", a)}, {F: 1, V: tvStr(city)}, {F: 2, V: tvInt("int", 2)}}})
					}
				}
				add(cacheIn{Cache: true, Case: c, Thr: 2, Seed: 81, MissPct: 0, DropPct: 0})
				add(cacheIn{Cache: true, Case: c, Thr: 2, Seed: 181, MissPct: 0, DropPct: 0, Trunc: 60}) // some writes cut short: entries found with their payload lost
				add(cacheIn{Cache: true, Case: c, Thr: 2, Seed: 82, MissPct: 30, DropPct: 0, Reuse: true})
				// two generations of one cached builder (Reset in between): the second re-adds the same ids with OTHER values at
				// the same positions and sizes -- it must answer for its own documents
				g2 := c
				g2.Docs = []eDoc{
					{ID: 1, Cons: []eConj{{{F: 0, Inc: true, V: ints(6, 20)}, {F: 1, Inc: true, V: tvStr("bj")}}}},
					{ID: 2, Cons: []eConj{{{F: 0, Inc: true, V: ints(6, 0)}, {F: 1, Inc: false, V: tvStr("sh")}}}},
					{ID: 3, Cons: []eConj{{{F: 0, Inc: true, V: ints(2, 3)}}, {{F: 2, Inc: true, V: ints(5, 1)}, {F: 0, Inc: true, V: ints(1, 9)}, {F: 1, Inc: true, V: tvSlice("[]string", tvStr("bj"))}}}},
					{ID: -4, Cons: []eConj{{{F: 0, Inc: false, V: ints(5, 4)}, {F: 1, Inc: false, V: tvStr("gz")}}}},
				}
				g2.Queries = append(append([]eQuery{}, c.Queries...), eQuery{A: []eAssign{{F: 0, V: tvInt("int", 22)}, {F: 1, V: tvStr("bj")}}}, eQuery{A: []eAssign{{F: 0, V: tvInt("int", 3)}, {F: 1, V: tvStr("gz")}}})
				g1 := c
				g1.Queries = g2.Queries
				add(cacheIn{Cache: true, Case: g1, Case2: &g2, Thr: 2, Seed: 83, MissPct: 0, DropPct: 0, Reuse: true})
			}
			// the same number as an integer on one side and as a float64 (as encoding/json decodes every number) on the
			// other, at magnitudes where a float no longer prints in plain decimal by default (10^6 and up, up to 2^53)
			for side := 0; side < 2; side++ {
				big := []int64{1000000, 1234567, -1000000, 21000000, 9007199254740992, 999999, 100000}
				mk := func(fl bool, v int64) TV {
					if fl {
						return tvFloat("float64", float64(v))
					}
					return tvInt("int64", v)
				}
				c := eCase{Kind: kind, Policy: "error"}
				for i, v := range big {
					c.Docs = append(c.Docs, eDoc{ID: int64(i + 1), Cons: []eConj{{{F: 0, Inc: true, V: tvList(mk(side == 0, v))}}, {{F: 1, Inc: true, V: tvStr("x")}, {F: 0, Inc: false, V: mk(side == 0, v)}}}})
				}
				for _, v := range big {
					c.Queries = append(c.Queries, eQuery{A: []eAssign{{F: 0, V: mk(side == 1, v)}}}, eQuery{A: []eAssign{{F: 0, V: tvList(mk(side == 1, v), mk(side == 1, 5))}, {F: 1, V: tvStr("x")}}})
				}
				add(c)
			}
			// default-container fields only: BuildIndex, then a document introducing a NEW field, then BuildIndex again
			// without Reset -- the index that is finally built must know the late field
			add(eCase{Kind: kind, Policy: "error", Rebuild: 1, Docs: []eDoc{
				{ID: 1, Cons: []eConj{{{F: 0, Inc: true, V: tvSlice("[]int", tvInt("int", 1))}}}},
				{ID: 2, Cons: []eConj{{{F: 1, Inc: true, V: tvSlice("[]int", tvInt("int", 2))}}, {{F: 0, Inc: true, V: tvSlice("[]int", tvInt("int", 3))}, {F: 2, Inc: false, V: tvStr("x")}}}},
			}, Queries: []eQuery{{A: []eAssign{{F: 1, V: tvInt("int", 2)}}}, {A: []eAssign{{F: 0, V: tvInt("int", 3)}, {F: 2, V: tvStr("x")}}}, {A: []eAssign{{F: 0, V: tvInt("int", 3)}, {F: 2, V: tvStr("y")}}},
				{A: []eAssign{{F: 0, V: tvInt("int", 1)}, {F: 1, V: tvInt("int", 2)}}}, {}}})
			if kind == "kgroups" {
				lateConfigCases(add)
			}
			// unsigned values from 2^63 on as SCALARS, on both sides (seed C01-6, which the random values stopped producing)
			{
				big := uint64(1)<<63 + 5
				c := eCase{Kind: kind, Policy: "error"}
				c.Docs = []eDoc{
					{ID: 1, Cons: []eConj{{{F: 0, Inc: true, V: tvUint("uint64", big)}}}},
					{ID: 2, Cons: []eConj{{{F: 0, Inc: true, V: tvSlice("[]int", tvInt("int", 7))}}}},
					{ID: 3, Cons: []eConj{{{F: 0, Inc: false, V: tvUint("uint", big+1)}}}},
				}
				for _, v := range []TV{tvUint("uint64", big), tvUint("uint", big), tvStr("9223372036854775813"), tvUint("uint64", big+1), tvSlice("[]uint64", tvUint("uint64", big)), tvInt("int", 7), tvUint("uint64", 1<<64-1)} {
					c.Queries = append(c.Queries, eQuery{A: []eAssign{{F: 0, V: v}}})
				}
				add(c)
			}
			// a retrieval that is REFUSED in a smaller size group after a larger one has matched (a range field that only
			// one-field conjunctions use, assigned a text its holder cannot read), straight before ordinary retrievals:
			// nothing of the refused one may show in their answers
			{
				sv := func(f int, s string) eExpr { return eExpr{F: f, Inc: true, V: tvStr(s)} }
				c := eCase{Kind: kind, Policy: "error", Configs: map[int]string{2: "ext_range"}}
				c.Docs = []eDoc{
					{ID: 10, Cons: []eConj{{sv(0, "sport"), {F: 1, Inc: true, V: tvSlice("[]int", tvInt("int", 1))}}}},
					{ID: 20, Cons: []eConj{{{F: 2, Inc: true, Op: 1, V: tvInt("int", 18)}}}},
					{ID: 30, Cons: []eConj{{sv(0, "sport")}}},
					{ID: 40, Cons: []eConj{{sv(0, "news"), {F: 1, Inc: true, V: tvSlice("[]int", tvInt("int", 1))}, {F: 3, Inc: true, V: tvStr("x")}}, {{F: 2, Inc: false, Op: 2, V: tvInt("int", 5)}}}},
				}
				bad := eQuery{A: []eAssign{{F: 0, V: tvStr("sport")}, {F: 1, V: tvInt("int", 1)}, {F: 2, V: tvStr("n/a")}}}
				bad3 := eQuery{A: []eAssign{{F: 0, V: tvStr("news")}, {F: 1, V: tvInt("int", 1)}, {F: 3, V: tvStr("x")}, {F: 2, V: TV{T: "other:map"}}}}
				for _, g := range []eQuery{{A: []eAssign{{F: 0, V: tvStr("sport")}}}, {A: []eAssign{{F: 2, V: tvInt("int", 30)}}}, {}, {A: []eAssign{{F: 0, V: tvStr("news")}, {F: 2, V: tvInt("int", 9)}}}} {
					c.Queries = append(c.Queries, g, bad, g, bad3, g)
				}
				add(c)
			}
			// an ABANDONED generation: the first thing a fresh (or just reset) builder is handed is a document whose LATER
			// conjunction is refused (its earlier ones are committed by then); the caller gives the feed up, Resets without
			// building and starts over -- nothing of the refused document may be in the index that is finally built
			for _, pol := range []string{"error", "panic"} {
				iv := func(f int, n int64) eExpr { return eExpr{F: f, Inc: true, V: tvSlice("[]int", tvInt("int", n))} }
				for _, pre := range [][]eDoc{
					{{ID: 7, Cons: []eConj{{iv(0, 1)}, {{F: 0, Inc: true, V: tvBool(true)}}}}},
					{{ID: 7, Cons: []eConj{{{F: 1, Inc: false, V: tvStr("x")}}, {iv(0, 1), iv(1, 2)}, {{F: 1, Inc: true, V: tvNil()}}}}, {ID: 8, Cons: []eConj{{{F: 0, Inc: true, V: TV{T: "other:map"}}}}}},
				} {
					add(eCase{Kind: kind, Policy: pol, Pre: pre, PreNoBuild: true, Docs: []eDoc{
						{ID: 1, Cons: []eConj{{iv(0, 1)}}}, {ID: 2, Cons: []eConj{{iv(0, 2), {F: 1, Inc: false, V: tvStr("y")}}}},
					}, Queries: []eQuery{{A: []eAssign{{F: 0, V: tvInt("int", 1)}}}, {}, {A: []eAssign{{F: 0, V: tvInt("int", 1)}, {F: 1, V: tvInt("int", 2)}}}, {A: []eAssign{{F: 0, V: tvInt("int", 2)}, {F: 1, V: tvStr("z")}}}}})
				}
			}
			for i := 0; i < n; i++ {
				o.nFields = 1 + r.Intn(5)
				if i%10 == 9 { // wide: many fields, so that a retrieval sorts and scans 9 and more field cursors
					o.nFields = 9 + r.Intn(8)
				}
				if i%8 == 3 { // all three containers in one index (pattern and range fields next to the default ones)
					add(mixedDocset(r, kind))
					continue
				}
				add(genDocset(r, o))
			}
			if tier == "thorough" {
				smallScope(kind, add)
			}
		}
	}
	cachedToo := map[string]string{"C": "From BE Require Import Corr.CheckCache."}
	props["C01"] = &propDef{header: "From BE Require Import Corr.CheckC01.", headers: cachedToo, rule: e2eRule, shardSize: 25,
		gen: gen("kgroups", false, false), exec: execE2EOrCache}
	props["C02"] = &propDef{header: "From BE Require Import Corr.CheckC02.", rule: e2eRule + "; compact builder, biased to mixed sizes in one cursor set and early exit", shardSize: 25, headers: cachedToo,
		gen: gen("compact", false, true), exec: execE2EOrCache}
}

// customSeparatorProbe: pattern holders with the separators "\n", "\t", "|", "" and ", " -- every conjunction the
// collector gets is satisfied under "a keyword occurs in the values joined by THAT separator", and every satisfied one is got
func customSeparatorProbe() (calls int, viol []string) {
	for si, sep := range []string{"\n", "\t", "|", "", ", "} {
		name := fmt.Sprintf("verif_ac_sep%d", si)
		sepCopy := sep
		be.RegisterEntriesHolder(name, func() be.EntriesHolder {
			return ahoholder.NewACEntriesHolder(ahoholder.ACHolderOption{QuerySep: sepCopy})
		})
		kws := [][]string{{"new york"}, {"new" + sep + "york"}, {"love"}, {"times square", "newyork"}}
		for _, kind := range []string{"kgroups", "compact"} {
			c := eCase{Kind: kind, Policy: "error"}
			b := newBuilder(&c)
			b.ConfigField(fieldName(1), be.FieldOption{Container: name})
			for i, ks := range kws {
				d := be.NewDocument(be.DocID(i + 1))
				d.AddConjunction(be.NewConjunction().In(fieldName(1), ks), be.NewConjunction().NotIn(fieldName(1), ks).In(fieldName(0), []int{1}))
				b.AddDocument(d)
			}
			var index be.BEIndex
			if safeCall(func() { index = b.BuildIndex() }) {
				continue
			}
			for _, vals := range [][]string{{"i love new", "york times"}, {"new york"}, {"new", "york"}, {"times", "square"}, {"nothing here"}, {"a new", "york", "love"}} {
				text := strings.Join(vals, sep)
				want := map[[2]int64]bool{}
				for i, ks := range kws {
					hit := false
					for _, k := range ks {
						hit = hit || strings.Contains(text, k)
					}
					if hit {
						want[[2]int64{int64(i + 1), 0}] = true
					} else {
						want[[2]int64{int64(i + 1), 1}] = true
					}
				}
				rec := &recCollector{}
				calls++
				var err error
				if safeCall(func() { err = index.RetrieveWithCollector(be.Assignments{fieldName(1): vals, fieldName(0): 1}, rec) }) || err != nil {
					viol = append(viol, fmt.Sprintf("separator %q, %s: retrieval of %q failed (%v)", sep, kind, vals, err))
					continue
				}
				got := map[[2]int64]bool{}
				for _, h := range rec.hits {
					got[[2]int64{h[0], h[1]}] = true
				}
				if !reflect.DeepEqual(got, want) && len(viol) < 6 {
					viol = append(viol, fmt.Sprintf("separator %q, %s index: values %q joined to %q: collector got (doc, position) %v, the substring rule gives %v", sep, kind, vals, text, got, want))
				}
			}
		}
	}
	return
}

// execE2EOrCache: an end-to-end case, or (input with "cache": true) three builds sharing a cache provider
func execE2EOrCache(raw json.RawMessage) (execResult, error) {
	var probe struct {
		Cache bool `json:"cache"`
	}
	json.Unmarshal(raw, &probe)
	if probe.Cache {
		return execCache(raw)
	}
	return execE2E(raw)
}

func init() {
	props["C04"] = &propDef{header: "From BE Require Import Corr.CheckC04.",
		headers:   map[string]string{"R": "From BE Require Import Corr.CheckRr.", "C": "From BE Require Import Corr.CheckCache."},
		rule:      e2eRule + "; both posting-list index types with a recording ResultCollector (also on builds served from a cache provider), biased to documents with several simultaneously satisfied conjunctions of equal and different sizes, also over pattern fields (texts containing several keywords) and range fields (overlapping kept intervals); the roaring scanner's raw result (GetRawResult after every retrieval) on default-container and pattern-container fields",
		shardSize: 25,
		gen: func(tier string, r *Rand, add func(in interface{})) {
			n := 40
			if tier == "thorough" {
				n = 3000
			}
			lateConfigCases(add)
			for i := 0; i < n; i++ {
				kind := "kgroups"
				if i%2 == 1 {
					kind = "compact"
				}
				o := &docsetOpts{kind: kind, nFields: 1 + r.Intn(4), maxDocs: 8, multiSat: true, valueShape: intsShape, queryShape: intsShape}
				add(genDocset(r, o))
			}
			// Skip policy: conjunctions that fail to index in front of satisfied ones -- the collector must still get the
			// positions of the ORIGINAL document
			for i := 0; i < n/4; i++ {
				kind := []string{"kgroups", "compact"}[i%2]
				o := &docsetOpts{kind: kind, nFields: 1 + r.Intn(3), maxDocs: 5, multiSat: true, noPre: true, valueShape: intsShape, queryShape: intsShape}
				c := genDocset(r, o)
				c.Policy = "skip"
				for d := range c.Docs {
					bad := eConj{{F: r.Intn(o.nFields), Inc: r.Bool(), V: pick(r, []TV{tvBool(true), {T: "other:map"}, tvList(tvInt("int", 1), tvBool(false), tvInt("int", 2))})}}
					pos := r.Intn(len(c.Docs[d].Cons) + 1)
					cons := append([]eConj{}, c.Docs[d].Cons[:pos]...)
					cons = append(cons, bad)
					c.Docs[d].Cons = append(cons, c.Docs[d].Cons[pos:]...)
				}
				add(c)
			}
			// pattern fields: collector hits on the posting-list indexes, raw result on the roaring index
			for i := 0; i < n/2; i++ {
				docs, qs := acDocsQueries(r, false)
				switch i % 3 {
				case 0, 1:
					add(eCase{Kind: []string{"kgroups", "compact"}[i%3], Policy: "error", Configs: map[int]string{1: "ac_matcher"}, Docs: docs, Queries: qs})
				default:
					c := rCase{Fields: []rField{{F: 0, Cont: "default"}, {F: 1, Cont: "ac_matcher"}}, Docs: docs}
					for _, q := range qs {
						c.Ops = append(c.Ops, rOp{S: 0, Op: "reset"}, rOp{S: 0, Op: "retrieve", A: q.A}, rOp{S: 0, Op: "raw"})
					}
					add(c)
				}
			}
			// range fields: kept intervals split by later ones, expanded ranges, `in` -- the collector must get the
			// conjunctions whose interval covers the value, each once
			for i := 0; i < n/2; i++ {
				add(rangeDocset(r, []string{"kgroups", "compact"}[i%2], i%4 >= 2))
			}
			rangeSplitCases(add)
			acAllMultibyte(add) // collector calls and raw results on a pattern field with multi-byte keywords only
			// roaring raw result on default-container fields
			for i := 0; i < n/2; i++ {
				add(genRrCase(r, 1+r.Intn(4), 0, 0, 8+r.Intn(12), 1+r.Intn(2)))
			}
			// a field read by the string-hash parser: lists of two and more strings in documents and assignments (typed and
			// untyped) -- each string is its own value, wherever it stands in its list
			{
				strs := func(t string, ss ...string) TV {
					l := make([]TV, len(ss))
					for i, x := range ss {
						l[i] = tvStr(x)
					}
					if t == "" {
						return tvList(l...)
					}
					return tvSlice(t, l...)
				}
				docs := []eDoc{
					{ID: 8, Cons: []eConj{{{F: 1, Inc: true, V: strs("[]string", "bj", "sh")}}, {{F: 1, Inc: true, V: strs("[]string", "gz", "sz", "hz")}, {F: 0, Inc: true, V: tvSlice("[]int", tvInt("int", 1))}}}},
					{ID: 9, Cons: []eConj{{{F: 1, Inc: false, V: strs("[]string", "bj", "sh")}}}},
					{ID: 10, Cons: []eConj{{{F: 1, Inc: true, V: strs("", "sh", "bj")}}}},
					{ID: 11, Cons: []eConj{{{F: 1, Inc: true, V: tvStr("bjsh")}}}},
				}
				var qs []eQuery
				for _, v := range []TV{tvStr("sh"), tvStr("bj"), tvStr("bjsh"), strs("[]string", "xx", "sh"), strs("[]string", "sh", "xx"), strs("", "xx", "hz"), strs("[]string", "gz", "sz"), tvStr("hz"), tvStr("gzsz")} {
					qs = append(qs, eQuery{A: []eAssign{{F: 1, V: v}}}, eQuery{A: []eAssign{{F: 1, V: v}, {F: 0, V: tvInt("int", 1)}}})
				}
				for _, kind := range []string{"kgroups", "compact"} {
					add(eCase{Kind: kind, Policy: "error", Parsers: map[int]string{1: "strhash"}, Docs: docs, Queries: qs})
				}
				c := rCase{Fields: []rField{{F: 0, Cont: "default"}, {F: 1, Cont: "default", Parser: "strhash"}}, Docs: docs}
				for _, q := range qs {
					c.Ops = append(c.Ops, rOp{S: 0, Op: "reset"}, rOp{S: 0, Op: "retrieve", A: q.A}, rOp{S: 0, Op: "raw"})
				}
				add(c)
			}
			// builds served from a cache provider: the collector must get the same conjunctions (include-free
			// conjunctions with long exclude lists next to other satisfied conjunctions of the same document)
			for _, kind := range []string{"kgroups", "compact"} {
				ints := func(k, off int) TV {
					l := make([]TV, k)
					for i := range l {
						l[i] = tvInt("int", int64(off+i))
					}
					return tvSlice("[]int", l...)
				}
				c := eCase{Kind: kind, Policy: "error"}
				c.Docs = []eDoc{
					{ID: 7, Cons: []eConj{{{F: 0, Inc: true, V: ints(1, 1)}}, {{F: 1, Inc: false, V: ints(5, 0)}}}},
					{ID: 8, Cons: []eConj{{{F: 1, Inc: false, V: ints(4, 3)}, {F: 2, Inc: false, V: ints(1, 3)}}, {{F: 0, Inc: true, V: ints(6, 0)}, {F: 1, Inc: true, V: ints(2, 100)}}}},
					{ID: -9, Cons: []eConj{{{F: 2, Inc: false, V: ints(7, 0)}}, {{F: 2, Inc: false, V: ints(2, 1)}}, {{F: 0, Inc: true, V: ints(3, 1)}}}},
				}
				for _, a := range [][3]int64{{1, 100, 9}, {1, 2, 3}, {0, 101, 1}, {9, 9, 9}, {1, 4, 0}, {2, 7, 7}} {
					c.Queries = append(c.Queries, eQuery{A: []eAssign{{F: 0, V: tvInt("int", a[0])}, {F: 1, V: tvInt("int", a[1])}, {F: 2, V: tvInt("int", a[2])}}},
						eQuery{A: []eAssign{{F: 1, V: tvInt("int", a[1])}}})
				}
				c.Queries = append(c.Queries, eQuery{})
				add(cacheIn{Cache: true, Case: c, Thr: 2, Seed: 5, MissPct: 0, DropPct: 0})
				add(cacheIn{Cache: true, Case: c, Thr: 2, Seed: 105, MissPct: 0, DropPct: 0, Trunc: 60}) // some writes cut short: entries found with their payload lost
				add(cacheIn{Cache: true, Case: c, Thr: 2, Seed: 6, MissPct: 30, DropPct: 0, Reuse: true})
			}
		},
		// pattern holders registered with OTHER query separators (the option the container offers; the Coq model has
		// the stock separator only): collector calls against the substring rule evaluated on the joined text
		extra: func(tier string, seed uint64, outdir string) (map[string]interface{}, []string) {
			calls, viol := customSeparatorProbe()
			return map[string]interface{}{"custom_separator_collector_calls": calls}, viol
		},
		exec: func(raw json.RawMessage) (execResult, error) {
			var probe struct {
				Fields json.RawMessage `json:"fields"`
				Cache  bool            `json:"cache"`
			}
			json.Unmarshal(raw, &probe)
			if probe.Cache {
				return execCache(raw)
			}
			if probe.Fields != nil {
				res, err := execRr(raw)
				res.Family = "R"
				return res, err
			}
			return execE2E(raw)
		}}
}
