(* C14: what a published index shares with its builder.  The functional model of BuildIndex
   (Model/Index.v: build_index) copies the field table by value; here the hand-over is made explicit:
   with `alias = true` (the pinned tree: setFieldDesc(b.fieldsData)) the index reads the builder's
   CURRENT table, with `alias = false` (the repaired tree) its own snapshot. *)
From Coq Require Import List NArith ZArith Bool.
From BE Require Import Model.GoTypes Model.GoVal Model.Parsers Model.Index.
Import ListNotations.

Inductive bop := BReset | BAddDocument (d : doc) | BConfigField (f : fname) (c : cont_kind) | BBuildIndex.

Definition reset (st : bstate) : bstate :=
  {| b_kind := b_kind st; b_policy := b_policy st; b_thr := b_thr st; b_fields := b_fields st;
     b_conts := match b_kind st with IKGroups => [] | ICompact => [new_econtainer] end;
     b_z := []; b_parsers := b_parsers st |}.

Definition apply_bop (st : bstate) (o : bop) : bstate :=
  match o with
  | BReset => reset st
  | BAddDocument d => fst (add_document false st d)
  | BConfigField f c => match config_field st f c with Some st' => st' | None => st end
  | BBuildIndex => st
  end.

(* the index as seen by Retrieve after the builder went on *)
Definition published (alias : bool) (ix : index) (builder_now : bstate) : index :=
  {| ix_kind := ix_kind ix; ix_fields := if alias then b_fields builder_now else ix_fields ix;
     ix_conts := ix_conts ix; ix_z := ix_z ix |}.

Definition retrieve_published (alias : bool) (st0 : bstate) (ops : list bop) (q : assignment) : rres (list Z) :=
  retrieve (published alias (build_index st0) (fold_left apply_bop ops st0)) q.
