package main

import (
	"encoding/json"
	"fmt"
	"reflect"
	"sort"

	be "github.com/echoface/be_indexer"
	"github.com/echoface/be_indexer/holder/rangeholder"
)

const c08Rule = "fault enumeration: seeded documents (1..3 conjunctions over a default, a pattern and a range field, incl. all-negative and empty conjunctions) x every expression position replaced by an unparseable value of that container's kind (default: bool / map / nested list / nil / lists with one unparseable element in last, first or middle position; pattern: integer / list with a non-string; range: non-numeric string, typed and untyped lists with one non-numeric element, ill-typed or reversed between pair, malformed description, unknown operator) x {include, exclude} x {skip, error, panic(recovered)} x {k-groups, compact}, followed by queries that would match the bad conjunction had it left a trace (empty assignment, an assignment hitting its includes and avoiding its excludes) and by ordinary queries; plus documents rejected outright (no conjunction, 256 conjunctions, id out of range). Posting-list contents are compared through the hook. number-range descriptions that only start like a range (trailing text, dangling separator, padded number) as default-holder values and as string between operands; the range container's operand decoding with EnableFloat2Int=false (float operands of > and < must be refused); Non-trivial = the faulty document has another conjunction or a neighbour that some query matches; distinct = distinct input"

func badValues(cont string) []TV {
	switch cont {
	case "ac_matcher":
		return []TV{tvInt("int", 5), tvSlice("[]int", tvInt("int", 5)), tvList(tvStr("a"), tvInt("int", 1)), tvNil(), tvList(tvInt("int", 1), tvStr("red")), tvList(tvStr("red"), tvBool(true), tvStr("blue"))}
	case "ext_range":
		return []TV{tvStr("x"), tvBool(true), tvList(tvStr("a")), {T: "other:map"}, tvList(tvStr("x"), tvInt("int", 15)), tvList(tvInt("int", 15), tvBool(true), tvInt("int", 16)), tvList(tvInt("int", 15), tvStr("x")),
			// typed lists of number texts with one element that is no number (middle, first, last)
			tvSlice("[]string", tvStr("15"), tvStr("x"), tvStr("16")), tvSlice("[]string", tvStr("x"), tvStr("15")), tvSlice("[]json.Number", tvJSON("15"), tvJSON("1x")),
			tvSlice("[]string", tvStr("15"), tvStr("")), tvSlice("[]bool", tvBool(true))}
	}
	// lists with the unparseable element last, first and in the middle: one bad element spoils the whole expression
	return []TV{tvBool(true), {T: "other:map"}, tvList(tvList(tvInt("int", 1))), tvNil(), tvList(tvInt("int", 1), tvBool(false)),
		tvList(tvBool(false), tvInt("int", 1)), tvList(tvInt("int", 1), TV{T: "other:map"}, tvInt("int", 2)), tvList(tvStr("1"), tvBool(true), tvInt("int", 99))}
}

func init() {
	props["C08"] = &propDef{
		header:    "From BE Require Import Corr.CheckC08.",
		headers:   map[string]string{"C": "From BE Require Import Corr.CheckCache.", "P": "From BE Require Import Corr.CheckParse."},
		rule:      c08Rule,
		shardSize: 60,
		gen: func(tier string, r *Rand, add func(in interface{})) {
			conts := map[int]string{1: "ac_matcher", 2: "ext_range"}
			words := []string{"red", "blue", "re"}
			mkGood := func(f int, inc bool) eExpr {
				switch f {
				case 1:
					return eExpr{F: 1, Inc: inc, V: tvSlice("[]string", tvStr(pick(r, words)))}
				case 2:
					if r.Bool() {
						return eExpr{F: 2, Inc: inc, Op: 3, V: tvSlice("[]int64", tvInt("int64", 10), tvInt("int64", int64(20+r.Intn(2000))))}
					}
					return eExpr{F: 2, Inc: inc, V: tvSlice("[]int", tvInt("int", r.I64(1, 6)))}
				}
				return eExpr{F: f, Inc: inc, V: intsShape(r, randVals(r, 1+r.Intn(2), 6))}
			}
			nBase := 6
			if tier == "thorough" {
				nBase = 120
			}
			for b := 0; b < nBase; b++ {
				// base documents
				var docs []eDoc
				nd := 1 + r.Intn(3)
				for d := 0; d < nd; d++ {
					doc := eDoc{ID: int64(d+1) * int64(1-2*r.Intn(2))}
					for k := 1 + r.Intn(3); k > 0; k-- {
						var cj eConj
						allNeg := r.Chance(35)
						for e := r.Intn(4); e > 0; e-- {
							f := pick(r, []int{0, 0, 1, 2, 3})
							cj = append(cj, mkGood(f, !allNeg && r.Chance(70)))
						}
						doc.Cons = append(doc.Cons, cj)
					}
					docs = append(docs, doc)
				}
				queries := []eQuery{{}, {A: []eAssign{{F: 0, V: tvInt("int", 1)}, {F: 1, V: tvStr("red blue")}, {F: 2, V: tvInt("int", 15)}, {F: 3, V: tvInt("int", 2)}}},
					{A: []eAssign{{F: 0, V: tvInt("int", 99)}, {F: 1, V: tvStr("zzz")}, {F: 2, V: tvInt("int", 99999)}}}}
				for q := 0; q < 4; q++ {
					var a []eAssign
					for f := 0; f < 4; f++ {
						switch r.Intn(3) {
						case 0:
						case 1:
							if f == 1 {
								a = append(a, eAssign{F: 1, V: tvStr(pick(r, words))})
							} else {
								a = append(a, eAssign{F: f, V: tvInt("int", r.I64(1, 7))})
							}
						case 2:
							if f == 2 {
								a = append(a, eAssign{F: 2, V: tvInt("int", r.I64(0, 2100))})
							}
						}
					}
					queries = append(queries, eQuery{A: a})
				}
				// every fault position
				for di := range docs {
					for ci := range docs[di].Cons {
						npos := len(docs[di].Cons[ci]) + 1 // also: one extra bad expression appended
						for pos := 0; pos < npos; pos++ {
							for _, inc := range []bool{true, false} {
								var f int
								if pos < len(docs[di].Cons[ci]) {
									f = docs[di].Cons[ci][pos].F
								} else {
									f = pick(r, []int{0, 1, 2})
								}
								bads := badValues(conts[f])
								bad := eExpr{F: f, Inc: inc, V: bads[r.Intn(len(bads))]}
								if conts[f] == "ext_range" && r.Chance(15) { // an operator the container does not know, on a value `in` would accept
									bad = eExpr{F: 2, Inc: inc, Op: 4, V: pick(r, []TV{tvInt("int", 3), tvSlice("[]int", tvInt("int", 3), tvInt("int", 15))})}
								} else if conts[f] == "ext_range" && r.Bool() {
									bad = eExpr{F: 2, Inc: inc, Op: 3, V: pick(r, []TV{tvSlice("[]int64", tvInt("int64", 9), tvInt("int64", 5)), tvSlice("[]int64", tvInt("int64", 1)), tvStr("9:5"), tvInt("int", 3), tvStr("1:5:0"),
										// descriptions that only START like a range
										tvStr("10:20,40:50"), tvStr("10:20:"), tvStr("10:20:2x"), tvStr(" 10:20"), tvStr("10:20:1:1"), tvStr("10:20 ")})}
								}
								for _, pol := range []string{"skip", "error", "panic"} {
									for _, kind := range []string{"kgroups", "compact"} {
										if tier != "thorough" && r.Chance(50) {
											continue
										}
										c := eCase{Kind: kind, Policy: pol, Configs: conts, Queries: queries}
										for dj := range docs {
											d := eDoc{ID: docs[dj].ID}
											for cj := range docs[dj].Cons {
												cc := append(eConj{}, docs[dj].Cons[cj]...)
												if dj == di && cj == ci {
													if pos < len(cc) {
														cc[pos] = bad
													} else {
														cc = append(cc, bad)
													}
												}
												d.Cons = append(d.Cons, cc)
											}
											c.Docs = append(c.Docs, d)
										}
										if r.Chance(30) { // several documents per AddDocument call: the call stops at the refused one
											c.Batch = 2 + r.Intn(3)
										}
										add(c)
									}
								}
							}
						}
					}
				}
				// rejected outright
				many := eDoc{ID: 77}
				for i := 0; i < 256; i++ {
					many.Cons = append(many.Cons, eConj{})
				}
				for _, kind := range []string{"kgroups", "compact"} {
					c := eCase{Kind: kind, Policy: "skip", Configs: conts, Queries: queries}
					c.Docs = append(c.Docs, docs...)
					c.Docs = append(c.Docs, eDoc{ID: 78}, many, eDoc{ID: 1 << 43, Cons: []eConj{{}}}, eDoc{ID: -(1 << 50), Cons: []eConj{{mkGood(0, true)}}})
					add(c)
					c.Batch = 3
					add(c)
				}
			}
			// an operator its container does not support (`<`, `>`, between on a default or a pattern field): the holder
			// panics, whatever the policy -- AddDocument must not swallow it and keep half of the conjunction; all-negative
			// conjunctions (a swallowed failure would leave their match-everything entry), alone and between good documents
			for _, pol := range []string{"skip", "error", "panic"} {
				for _, kind := range []string{"kgroups", "compact"} {
					for _, f := range []int{0, 1} {
						for _, op := range []int{2, 1, 3} {
							v := tvInt("int", 18)
							if op == 3 {
								v = tvSlice("[]int64", tvInt("int64", 1), tvInt("int64", 5))
							}
							c := eCase{Kind: kind, Policy: pol, Configs: conts}
							c.Docs = []eDoc{
								{ID: 1, Cons: []eConj{{mkGood(0, true)}}},
								{ID: 2, Cons: []eConj{{{F: f, Inc: false, Op: op, V: v}}}},
								{ID: 3, Cons: []eConj{{{F: f, Inc: false, Op: op, V: v}, {F: 3, Inc: false, V: tvStr("x")}}, {mkGood(0, true)}}},
								{ID: 4, Cons: []eConj{{mkGood(2, true)}}},
							}
							c.Queries = []eQuery{{}, {A: []eAssign{{F: 3, V: tvStr("y")}}}, {A: []eAssign{{F: 0, V: tvInt("int", 1)}}}, {A: []eAssign{{F: 2, V: tvInt("int", 30)}}}}
							add(c)
						}
					}
				}
			}
			// a default-holder field with the number-range parser: descriptions that only start like a range ("a:b" followed
			// by more text, a dangling separator, a padded number) are unparseable, whatever the policy
			for _, pol := range []string{"skip", "error", "panic"} {
				for _, kind := range []string{"kgroups", "compact"} {
					c := eCase{Kind: kind, Policy: pol, Configs: conts, Parsers: map[int]string{3: "numrange"}}
					for i, d := range []string{"18:30,40:50", "18:30:", "18:30:2x", " 18:30", "18:30:1:1", "18:30", "18:x", "18:30 "} {
						c.Docs = append(c.Docs, eDoc{ID: int64(i + 1), Cons: []eConj{{{F: 3, Inc: true, V: tvStr(d)}, {F: 0, Inc: true, V: tvSlice("[]int", tvInt("int", 1))}}, {{F: 0, Inc: true, V: tvSlice("[]int", tvInt("int", int64(i+10)))}}}})
					}
					c.Docs = append(c.Docs, eDoc{ID: 20, Cons: []eConj{{{F: 3, Inc: false, V: tvStr("18:30:")}}}}, eDoc{ID: 21, Cons: []eConj{{{F: 3, Inc: false, V: tvSlice("[]string", tvStr("18:30"), tvStr("40:50,60:70"))}}}})
					for _, a := range []int64{20, 45, 18, 30, 99} {
						c.Queries = append(c.Queries, eQuery{A: []eAssign{{F: 3, V: tvInt("int", a)}, {F: 0, V: tvInt("int", 1)}}}, eQuery{A: []eAssign{{F: 3, V: tvInt("int", a)}}})
					}
					c.Queries = append(c.Queries, eQuery{}, eQuery{A: []eAssign{{F: 0, V: tvInt("int", 12)}}})
					add(c)
				}
			}
			// a range holder configured with EnableFloat2Int = false (RangeHolderOption, registered through
			// RegisterEntriesHolder) must REFUSE a float operand of > and < (which makes the conjunction a bad one):
			// the operand decoding it calls, on floats, float texts, integers and between pairs
			for _, op := range []int{1, 2, 3} {
				for _, v := range []TV{tvFloat("float64", 18), tvFloat("float64", 18.5), tvFloat("float64", -2.5), tvFloat("float32", 7), tvFloat("float64", 0), tvStr("18.5"), tvStr("18"), tvJSON("18.0"), tvJSON("18"),
					tvInt("int", 18), tvInt("int64", -3), tvUint("uint8", 200), tvList(tvFloat("float64", 1), tvFloat("float64", 5)), tvSlice("[]int64", tvInt("int64", 1), tvInt("int64", 5)), tvSlice("[]float64", tvFloat("float64", 1)), tvBool(true), tvNil()} {
					add(pIn{K: "rangenf", Op: op, V: v})
					if op == 1 {
						add(pIn{K: "intsnf", V: v})
					}
				}
			}
			// builds with a cache provider: under Skip / Error / Panic an unparseable conjunction next to conjunctions
			// that the warm builds serve from the cache (before them, between them, after them)
			for _, pol := range []string{"skip", "error", "panic"} {
				for _, kind := range []string{"kgroups", "compact"} {
					ints := func(k, off int) TV {
						l := make([]TV, k)
						for i := range l {
							l[i] = tvInt("int", int64(off+i))
						}
						return tvSlice("[]int", l...)
					}
					bad := eConj{{F: 3, Inc: true, V: TV{T: "other:map"}}}
					c := eCase{Kind: kind, Policy: pol}
					c.Docs = []eDoc{
						{ID: 1, Cons: []eConj{bad, {{F: 0, Inc: true, V: ints(5, 0)}}, {{F: 0, Inc: false, V: ints(4, 0)}, {F: 3, Inc: true, V: tvStr("x")}}, bad, {{F: 3, Inc: true, V: tvStr("y")}}}},
						{ID: 2, Cons: []eConj{{{F: 0, Inc: true, V: ints(6, 0)}}, bad}},
						{ID: 3, Cons: []eConj{{{F: 0, Inc: true, V: ints(5, 3)}}}},
					}
					for _, a := range []int64{0, 3, 4, 5, 7, 9} {
						c.Queries = append(c.Queries, eQuery{A: []eAssign{{F: 0, V: tvInt("int", a)}}}, eQuery{A: []eAssign{{F: 0, V: tvInt("int", a)}, {F: 3, V: tvStr("x")}}})
					}
					c.Queries = append(c.Queries, eQuery{A: []eAssign{{F: 3, V: tvStr("y")}}}, eQuery{})
					add(cacheIn{Cache: true, Case: c, Thr: 2, Seed: 61, MissPct: 0, DropPct: 0})
					add(cacheIn{Cache: true, Case: c, Thr: 2, Seed: 161, MissPct: 0, DropPct: 0, Trunc: 60}) // some writes cut short: entries found with their payload lost
					// two generations of one builder (Reset in between): conjunctions the first generation cached come
					// back at the same position and size with an expression that no longer parses
					g1 := eCase{Kind: kind, Policy: pol}
					g1.Docs = []eDoc{
						{ID: 7, Cons: []eConj{{{F: 0, Inc: true, V: ints(5, 0)}, {F: 3, Inc: true, V: tvStr("sh")}}}},
						{ID: 8, Cons: []eConj{{{F: 0, Inc: true, V: ints(6, 0)}}, {{F: 0, Inc: false, V: ints(5, 10)}, {F: 3, Inc: true, V: tvStr("sh")}}}},
					}
					g2 := g1
					g2.Docs = []eDoc{
						{ID: 7, Cons: []eConj{{{F: 0, Inc: true, V: ints(5, 0)}, {F: 3, Inc: true, V: TV{T: "other:map"}}}}},
						{ID: 8, Cons: []eConj{{{F: 0, Inc: true, V: ints(6, 0)}}, {{F: 0, Inc: false, V: TV{T: "other:struct"}}, {F: 3, Inc: true, V: tvStr("sh")}}}},
					}
					for _, a := range []int64{0, 5, 12, 20} {
						g2.Queries = append(g2.Queries, eQuery{A: []eAssign{{F: 0, V: tvInt("int", a)}, {F: 3, V: tvStr("sh")}}}, eQuery{A: []eAssign{{F: 0, V: tvInt("int", a)}}})
					}
					g1.Queries = g2.Queries
					add(cacheIn{Cache: true, Case: g1, Case2: &g2, Thr: 2, Seed: 62, MissPct: 0, DropPct: 0, Reuse: true})
				}
			}
		},
		// a range holder registered with EnableFloat2Int = false (the end-to-end model has the stock option only, DESIGN
		// §10): float operands make the conjunction a bad one -- it must leave no trace, under every policy
		extra: func(tier string, seed uint64, outdir string) (map[string]interface{}, []string) {
			calls, viol := rangeNoFloatProbe()
			return map[string]interface{}{"range_holder_without_float_conversion_retrievals": calls}, viol
		},
		exec: func(raw json.RawMessage) (execResult, error) {
			var probe struct {
				Cache bool   `json:"cache"`
				K     string `json:"k"`
			}
			json.Unmarshal(raw, &probe)
			if probe.Cache {
				return execCache(raw)
			}
			if probe.K != "" {
				return execParse(raw)
			}
			return execE2E(raw)
		},
	}
}

// rangeNoFloatProbe: documents whose first conjunction has a float operand on a field of a range holder registered
// with EnableFloat2Int = false (`> 18.0`, `< 40.5`, `in []float64{30}`), followed by a good conjunction; the oracle is
// the DNF of the document WITHOUT its bad conjunction (skip), or without the document (error / panic)
func rangeNoFloatProbe() (calls int, viol []string) {
	const name = "verif_ext_range_nf"
	be.RegisterEntriesHolder(name, func() be.EntriesHolder {
		o := rangeholder.NewRangeHolderOption()
		o.EnableFloat2Int = false
		return rangeholder.NewNumberExtendRangeHolder(rangeholder.WithRangeHolderOption(o))
	})
	age, city := fieldName(2), fieldName(0)
	for _, kind := range []string{"kgroups", "compact"} {
		for _, pol := range []string{"skip", "error", "panic"} {
			c := eCase{Kind: kind, Policy: pol}
			b := newBuilder(&c)
			b.ConfigField(age, be.FieldOption{Container: name})
			mk := func(id int64, bad *be.Conjunction, goodCity string) *be.Document {
				d := be.NewDocument(be.DocID(id))
				d.AddConjunction(bad, be.NewConjunction().In(city, goodCity))
				return d
			}
			docs := []*be.Document{
				mk(1, be.NewConjunction().AddBoolExprs(&be.BooleanExpr{Field: age, BoolValues: be.NewBoolValue(be.ValueOptGT, 18.0, true)}), "sh"), // as decoded from JSON
				mk(2, be.NewConjunction().AddBoolExprs(&be.BooleanExpr{Field: age, BoolValues: be.NewBoolValue(be.ValueOptLT, 40.5, true)}), "sh"),
				mk(3, be.NewConjunction().In(age, []float64{30}), "bj"),
				mk(4, be.NewConjunction().NotIn(age, float32(30)).In(city, "gz"), "bj"),
			}
			good := be.NewDocument(9)
			good.AddConjunction(be.NewConjunction().Between(age, 19, 40))
			accepted := map[int64]bool{}
			for _, d := range docs {
				var err error
				p := safeCall(func() { err = b.AddDocument(d) })
				switch pol {
				case "skip":
					if p || err != nil {
						viol = append(viol, fmt.Sprintf("%s/%s: AddDocument(%d) must skip the bad conjunction, got panic=%v err=%v", kind, pol, d.ID, p, err))
					}
					accepted[int64(d.ID)] = true
				case "error":
					if p || err == nil {
						viol = append(viol, fmt.Sprintf("%s/%s: AddDocument(%d) with a float operand must return an error, got panic=%v err=%v", kind, pol, d.ID, p, err))
					}
				case "panic":
					if !p {
						viol = append(viol, fmt.Sprintf("%s/%s: AddDocument(%d) with a float operand must panic, got err=%v", kind, pol, d.ID, err))
					}
				}
			}
			if safeCall(func() { b.AddDocument(good) }) {
				viol = append(viol, kind+"/"+pol+": the all-integer document was refused")
			}
			index := b.BuildIndex()
			for _, q := range []struct {
				a    int64
				city string
			}{{30, "sh"}, {30, "bj"}, {30, "gz"}, {19, "sh"}, {50, "sh"}, {50, "bj"}, {10, "xx"}, {30, "xx"}} {
				var want []int64
				for id, cty := range map[int64]string{1: "sh", 2: "sh", 3: "bj", 4: "bj"} {
					if accepted[id] && cty == q.city { // only the good conjunction of an accepted document can match
						want = append(want, id)
					}
				}
				if q.a > 18 && q.a < 40 {
					want = append(want, 9)
				}
				var got be.DocIDList
				var err error
				calls++
				if safeCall(func() { got, err = index.Retrieve(be.Assignments{age: q.a, city: q.city}) }) || err != nil {
					viol = append(viol, fmt.Sprintf("%s/%s: Retrieve(age=%d, city=%s) failed: %v", kind, pol, q.a, q.city, err))
					continue
				}
				g := docIDs(got)
				sort.Slice(g, func(i, j int) bool { return g[i] < g[j] })
				sort.Slice(want, func(i, j int) bool { return want[i] < want[j] })
				if !reflect.DeepEqual(g, want) && !(len(g) == 0 && len(want) == 0) && len(viol) < 8 {
					viol = append(viol, fmt.Sprintf("%s/%s: a conjunction with a float operand on a range field without float conversion left a trace: age=%d city=%s -> %v, want %v", kind, pol, q.a, q.city, g, want))
				}
			}
		}
	}
	return
}
