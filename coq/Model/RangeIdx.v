From Coq Require Import List ZArith Bool Lia.
Import ListNotations.
Local Open Scope Z_scope.

(* a piece: [l, r) with the entries of every indexed range covering it *)
Record piece := { pl : Z; pr : Z; pe : list N }.

Definition contains (p : piece) (v : Z) : bool := (pl p <=? v) && (v <? pr p).
Definition contain_range (l r : Z) (l' r' : Z) : bool := (l <=? l') && (r' <=? r) && (l' <? r).

(* Range.Explode on piece range [pl,pr) with sub range [l,r): list of sub ranges (faithful) *)
Definition explode_vs (p : piece) (l r : Z) : list Z :=
  [pl p] ++ (if pl p <? l then [l] else []) ++ [r] ++ (if r <? pr p then [pr p] else []).

Fixpoint explode_loop (rgr : Z) (leftv prev : Z) (vs : list Z) : list (Z * Z) :=
  match vs with
  | [] => []
  | v :: vs' =>
    if leftv <? rgr then
      let v' := if v =? prev then v + 1 else v in
      (leftv, v') :: explode_loop rgr v' v' vs'
    else []
  end.

Definition explode (p : piece) (l r : Z) : list (Z * Z) :=
  match explode_vs p l r with
  | [] => []
  | v0 :: vs => explode_loop (pr p) v0 v0 vs
  end.

Definition new_range (l r : Z) : Z * Z := if l =? r then (l, r + 1) else (l, r).

(* pieces produced from p for sub ranges rgs; eid appended where the full range contains the sub range *)
Definition mk_pieces (p : piece) (fl fr : Z) (eid : N) (rgs : list (Z * Z)) : list piece :=
  map (fun '(a, b) => {| pl := a; pr := b;
                         pe := if contain_range fl fr a b then pe p ++ [eid] else pe p |}) rgs.

(* the loop of IndexingRange over the list; (rl, rr) is the current rg, (fl, fr) the full range *)
Fixpoint index_loop (items : list piece) (rl rr fl fr : Z) (right0 : Z) (eid : N) : list piece :=
  match items with
  | [] => []
  | p :: rest =>
    if rr <=? pl p then p :: rest                         (* break *)
    else if pr p <=? rl then p :: index_loop rest rl rr fl fr right0 eid   (* continue *)
    else if contains p rl then
      if pr p <? rr then                                  (* case 1 *)
        let '(nl, nr) := new_range (pr p) right0 in
        mk_pieces p fl fr eid (explode p rl (pr p)) ++ index_loop rest nl nr fl fr right0 eid
      else mk_pieces p fl fr eid (explode p rl rr) ++ index_loop rest rl rr fl fr right0 eid
    else p :: index_loop rest rl rr fl fr right0 eid
  end.

Definition indexing_range (items : list piece) (left right : Z) (eid : N) : list piece :=
  let right := if left =? right then right + 1 else right in
  let '(rl, rr) := new_range left right in
  let '(fl, fr) := new_range left right in
  index_loop items rl rr fl fr right eid.

Definition init (mn mx : Z) : list piece := [{| pl := mn; pr := mx; pe := [] |}].

Definition entries_at (x : Z) (items : list piece) : list N :=
  match find (fun p => contains p x) items with Some p => pe p | None => [] end.

