(* C11, specification leg (S): the real codecs' observables against round trip / refusal / order.
   Depends on nothing generated, so it still runs when the translated model does not compile. *)
From Coq Require Import List NArith ZArith Bool.
From BE Require Import Corr.Common.
Import ListNotations.
Local Open Scope N_scope.

Inductive case :=
| CConj (doc idx size : Z) (impl : option (N * (Z * (Z * Z))))        (* None = panic; id, DocID, Index, Size *)
| CEntry (c1 : N) (i1 : bool) (c2 : N) (i2 : bool) (e1 e2 : N) (g1 : N) (inc1 exc1 null1 : bool)
| CRr (idx doc : Z) (impl : option (N * (Z * N)))                      (* None = error; id, DocID, Idx *)
| CCast (d : Z) (u : N) (back : Z).                                    (* DocID -> uint64 -> DocID *)

Definition in_conj_range (doc idx size : Z) : bool :=
  ((Z.abs doc <=? 8796093022207) && (0 <=? idx) && (idx <? 256) && (0 <=? size) && (size <? 256))%Z.
Definition in_rr_range (idx doc : Z) : bool :=
  ((Z.abs doc <=? 36028797018963967) && (0 <=? idx) && (idx <? 256))%Z.

(* (spec holds, case is inside the theorem's domain, defect signature) *)
Definition spec_verdict (c : case) : bool * bool * N :=
  match c with
  | CConj doc idx size impl =>
    (if in_conj_range doc idx size
     then match impl with
          | Some (id, (d, (i, s))) => (d =? doc)%Z && (i =? idx)%Z && (s =? size)%Z && (id <? 2^60)
          | None => false end
     else match impl with None => true | Some _ => false end, true, 1)
  | CEntry c1 i1 c2 i2 e1 e2 g1 inc1 exc1 null1 =>
    let dom := (c1 <? 2^60) && (c2 <? 2^60) in
    let spec_lt := (c1 <? c2) || ((c1 =? c2) && negb i1 && i2) in
    (negb dom || (Bool.eqb (e1 <? e2) spec_lt && (g1 =? c1) && Bool.eqb inc1 i1 && Bool.eqb exc1 (negb i1) &&
                  negb null1 && (e1 <? 18446744073709551615)), dom, 2)
  | CRr idx doc impl =>
    (if in_rr_range idx doc
     then match impl with
          | Some (id, (d, i)) => (d =? doc)%Z && (Z.of_N i =? idx)%Z
          | None => false end
     else match impl with None => true | Some _ => false end, true, 3)
  | CCast d u back => ((back =? d)%Z, true, 4)
  end.

Definition spec_only (c : case) : verdict :=
  let '(s, d, g) := spec_verdict c in mk_verdict true s d g.
Definition run (cs : list case) := check_all spec_only cs.
