(* JSON ingest (C09): a document and the same document decoded from its own JSON encoding, each
   built into an index of its own and asked the same queries.  Specification leg. *)
From Coq Require Import List NArith ZArith Bool.
From BE Require Export Corr.SpecE2E.
From BE Require Import Model.Spec Corr.Common.
Import ListNotations.
Local Open Scope Z_scope.

Definition jcase := (ecase * ecase)%type.     (* (original, decoded) *)

Definition ires_same (a b : ires) : bool :=
  match a, b with
  | IRes d1 _, IRes d2 _ => eqb_list Z.eqb (setZ d1) (setZ d2)
  | IErr, IErr | IPanic, IPanic => true
  | _, _ => false
  end.

Definition big_int (v : gval) : bool :=
  let big := fun x => match x with VInt _ z => 9007199254740992 <? Z.abs z | _ => false end in
  match v with
  | VSlice _ _ vs | VList _ vs | VArr _ vs => existsb big vs
  | _ => big v
  end.
Definition has_big_int (c : ecase) : bool :=
  existsb (fun da => existsb (fun cj : conj => existsb (fun fe => existsb (fun e => big_int (e_val e)) (snd fe)) cj) (d_conjs (fst da))) (k_docs c).

(* a json.Number whose text is not the canonical decimal text of an integer (fraction, exponent, or "-0") *)
Definition frac_json (v : gval) : bool :=
  let fr := fun x => match x with VJson s => existsb (fun b => (b =? 46)%N || (b =? 101)%N || (b =? 69)%N) s || text_eqb s [45; 48]%N | _ => false end in
  match v with
  | VSlice _ _ vs | VList _ vs | VArr _ vs => existsb fr vs
  | _ => fr v
  end.
Definition has_frac_json (c : ecase) : bool :=
  existsb (fun da => existsb (fun cj : conj => existsb (fun fe => existsb (fun e => frac_json (e_val e)) (snd fe)) cj) (d_conjs (fst da))) (k_docs c).

(* a float32 whose integer part needs more than 24 bits: written with its shortest float32 digits, read back as
   another float64 (Model/Json.v widen32; JsonProof.N1_float32) *)
Definition big_f32 (v : gval) : bool :=
  let b := fun x => match x with VFloat true f => 16777216 <=? Z.abs (f_ip f) | _ => false end in
  match v with VSlice _ _ vs | VList _ vs | VArr _ vs => existsb b vs | _ => b v end.
(* a nil typed slice / nil []interface{} as an expression value: written as null, read back as the nil interface,
   which the default parsers and the pattern container refuse (JsonProof.N2_nil_slice) *)
Definition nil_slice_val (v : gval) : bool :=
  match v with VSlice _ true _ | VList true _ => true | _ => false end.
Definition has_val (p : gval -> bool) (c : ecase) : bool :=
  existsb (fun da => existsb (fun cj : conj => existsb (fun fe => existsb (fun e => p (e_val e)) (snd fe)) cj) (d_conjs (fst da))) (k_docs c).

(* signatures: 41 a decoded document is accepted/rejected differently, 42 answers differ,
   43 answers differ and the document holds an integer beyond 2^53 (float64 precision),
   44 answers differ and the document holds a json.Number with a fraction, an exponent or the text "-0",
   45 ... a float32 of magnitude >= 2^24,  46 ... a nil slice as an expression value *)
Definition spec_verdict_j (j : jcase) : bool * bool * N :=
  let '(o, d) := j in
  let '(ok_o, dom_o, sig_o) := SpecE2E.spec_verdict o in
  if negb ok_o then (false, dom_o, sig_o) else
  let sigd := if has_big_int o then 43%N else if has_frac_json o then 44%N else if has_val big_f32 o then 45%N
              else if has_val nil_slice_val o then 46%N else 42%N in
  if negb (eqb_list iadd_eqb (map snd (k_docs o)) (map snd (k_docs d))) then (false, dom_o, if has_big_int o then 43%N else if has_val nil_slice_val o then 46%N else 41%N)
  else if negb (eqb_list ires_same (map snd (k_queries o)) (map snd (k_queries d))) then (false, dom_o, sigd)
  else (true, dom_o, 0%N).

Definition spec_only_j (j : jcase) : verdict := let '(s, d, g) := spec_verdict_j j in mk_verdict true s d g.
Definition run (cs : list jcase) := check_all spec_only_j cs.
