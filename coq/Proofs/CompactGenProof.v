(* The scan loop of the compact index (the loop labelled RETRIEVE in CompactBEIndex.RetrieveWithCollector) TRANSLATED
   from /repo's be_indexer_compact.go on every run (Gen/CursorGen.v: one cursor set, the needed match count taken from
   the smallest current entry, the early exit, the two skipping passes, FieldCursors.Sort as translated, exhausted
   cursors dropped from the end of the slice; statements that only log are dropped) computes what the model's compact
   loop (Model/Index.cp_loop, the loop every C02 theorem is about) computes: whenever the model's loop finishes, the
   translated loop returns the same collector calls -- no index or slice bound violated, the stated fuel suffices. *)
From Coq Require Import List NArith ZArith Bool Lia Arith Permutation Sorting.Sorted.
From BE Require Import Model.Scan Model.Cursor Model.Index Proofs.ScanProof Proofs.CursorHist Proofs.IdsProof
  Proofs.CursorGenProof Proofs.SortGenProof Proofs.RetrieveKGenProof.
Import ListNotations.

Section Loops.
Variables (res : list (Z * N)) (e1 c1 : N) (k1 n1 : Z) (e2 next : N).

Lemma c_loop3_lock : forall k done rest fuel, (k <= length rest)%nat -> (k <= fuel)%nat ->
  (Z.of_nat (length done + length rest) < 2^60)%Z ->
  G.CompactBEIndex_RetrieveWithCollector_RETRIEVE_loop3 fcursor skipT fuel res e1 c1 k1 (Z.of_nat (length done + k)) e2 next
    (done ++ rest, Z.of_nat (length done)) =
  G.Ret (done ++ map (fun c => skipT c next) (firstn k rest) ++ skipn k rest, Z.of_nat (length done + k)).
Proof.
  assert (P : (2^60 < 2^63)%Z) by (apply Z.pow_lt_mono_r; lia).
  induction k as [|k IH]; intros done rest fuel Hk Hf Hlen.
  - rewrite Nat.add_0_r. cbn [firstn skipn map app].
    destruct fuel; cbn [G.CompactBEIndex_RetrieveWithCollector_RETRIEVE_loop3]; rewrite Z.ltb_irrefl; reflexivity.
  - destruct rest as [|c rest]; [cbn in Hk; lia|]. destruct fuel as [|f]; [lia|]. cbn [length] in *.
    cbn [G.CompactBEIndex_RetrieveWithCollector_RETRIEVE_loop3].
    replace (Z.of_nat (length done) <? Z.of_nat (length done + S k))%Z with true by (symmetry; apply Z.ltb_lt; lia).
    rewrite inbT_mid, updWith_mid. cbn [negb G.bind].
    replace (Z.of_nat (length done) + 1)%Z with (Z.of_nat (length (done ++ [skipT c next])))
      by (rewrite app_length; cbn [length]; lia).
    rewrite i64s by (rewrite app_length; cbn [length]; lia).
    replace (done ++ skipT c next :: rest) with ((done ++ [skipT c next]) ++ rest) by (rewrite <- app_assoc; reflexivity).
    replace (length done + S k)%nat with (length (done ++ [skipT c next]) + k)%nat by (rewrite app_length; cbn [length]; lia).
    rewrite IH; [|lia|lia|rewrite app_length; cbn [length]; lia].
    cbn [firstn skipn map app]. rewrite <- app_assoc. reflexivity.
Qed.

Lemma c_loop2_lock : forall rest done fuel, (length rest <= fuel)%nat ->
  (Z.of_nat (length done + length rest) < 2^60)%Z ->
  G.CompactBEIndex_RetrieveWithCollector_RETRIEVE_loop2 fcursor fc_current skipT fuel res e1 c1 k1 n1 e2 next
    (done ++ rest, Z.of_nat (length done)) =
  G.Ret (done ++ map (skipIf next) rest, Z.of_nat (length done + length rest)).
Proof.
  assert (P : (2^60 < 2^63)%Z) by (apply Z.pow_lt_mono_r; lia).
  induction rest as [|c rest IH]; intros done fuel Hf Hlen.
  - cbn [length map]. rewrite Nat.add_0_r, app_nil_r.
    destruct fuel; cbn [G.CompactBEIndex_RetrieveWithCollector_RETRIEVE_loop2]; rewrite Z.ltb_irrefl; reflexivity.
  - destruct fuel as [|f]; [cbn in Hf; lia|]. cbn [length] in *.
    cbn [G.CompactBEIndex_RetrieveWithCollector_RETRIEVE_loop2]. rewrite app_length. cbn [length].
    replace (Z.of_nat (length done) <? Z.of_nat (length done + S (length rest)))%Z with true by (symmetry; apply Z.ltb_lt; lia).
    rewrite inbT_mid, keyAt_mid'. cbn [negb G.bind].
    match goal with |- G.bind (G.bind ?a ?k1') ?k2' = _ =>
      replace a with (G.Ret (done ++ skipIf next c :: rest) : G.res (list fcursor))
        by (unfold skipIf; destruct (fc_current c <? next)%N; [rewrite updWith_mid|]; reflexivity) end.
    cbn [G.bind].
    replace (Z.of_nat (length done) + 1)%Z with (Z.of_nat (length (done ++ [skipIf next c])))
      by (rewrite app_length; cbn [length]; lia).
    rewrite i64s by (rewrite app_length; cbn [length]; lia).
    replace (done ++ skipIf next c :: rest) with ((done ++ [skipIf next c]) ++ rest) by (rewrite <- app_assoc; reflexivity).
    rewrite IH; [|lia|rewrite app_length; cbn [length]; lia].
    rewrite app_length. cbn [length map]. rewrite <- app_assoc. cbn [app].
    replace (length done + 1 + length rest)%nat with (length done + S (length rest))%nat by lia. reflexivity.
Qed.

(* `for len(cursors) > 0 && cursors[len-1].ReachEnd() { cursors = cursors[:len-1] }` *)
Lemma boolAt_last (p : list fcursor) c : G.boolAt fcursor_reach_end (p ++ [c]) (Z.of_nat (length p)) = fcursor_reach_end c.
Proof.
  unfold G.boolAt. rewrite Nat2Z.id. replace (nth_error (p ++ [c]) (length p)) with (Some c); [reflexivity|].
  symmetry. clear. induction p; cbn; auto.
Qed.
Lemma c_loop4_lock : forall cs fuel i0, (length cs <= fuel)%nat -> (Z.of_nat (length cs) < 2^60)%Z ->
  G.CompactBEIndex_RetrieveWithCollector_RETRIEVE_loop4 fcursor fcursor_reach_end fuel res e1 c1 k1 n1 e2 next i0 cs =
  G.Ret (trim_ended cs).
Proof.
  assert (P : (2^60 < 2^63)%Z) by (apply Z.pow_lt_mono_r; lia).
  induction cs as [|c p IH] using rev_ind; intros fuel i0 Hf Hlen.
  - destruct fuel; reflexivity.
  - rewrite app_length in *. cbn [length] in *.
    assert (Hi : G.i64 (Z.of_nat (length p + 1) - 1) = Z.of_nat (length p)) by (rewrite i64s by lia; lia).
    unfold trim_ended. rewrite rev_app_distr. cbn [rev app drop_ended].
    destruct fuel as [|f]; [lia|].
    cbn [G.CompactBEIndex_RetrieveWithCollector_RETRIEVE_loop4]. rewrite app_length. cbn [length]. rewrite Hi.
    replace (0 <? Z.of_nat (length p + 1))%Z with true by (symmetry; apply Z.ltb_lt; lia).
    rewrite inbT_mid, boolAt_last. cbn [negb orb andb].
    destruct (fcursor_reach_end c).
    + assert (HS : G.inbS (p ++ [c]) (Z.of_nat (length p)) = true).
      { unfold G.inbS. rewrite app_length. cbn [length]. apply andb_true_intro. split; [apply Z.leb_le|apply Z.leb_le]; lia. }
      rewrite HS. cbn [negb G.bind]. unfold G.firstnT. rewrite Nat2Z.id.
      rewrite firstn_app, Nat.sub_diag, firstn_all. cbn [firstn]. rewrite app_nil_r.
      rewrite IH by lia. reflexivity.
    + cbn [rev]. rewrite rev_involutive. reflexivity.
Qed.
End Loops.

Lemma trim_len cs : (length (trim_ended cs) <= length cs)%nat.
Proof.
  unfold trim_ended. rewrite rev_length. rewrite <- (rev_length cs).
  induction (rev cs) as [|c r IH]; cbn [drop_ended length]; [lia|]. destruct (fcursor_reach_end c); cbn [length]; lia.
Qed.

(* the main loop, round for round *)
Lemma c_loop1_lock : forall f cs res out F,
  (Z.of_nat (length cs) < 2^60)%Z -> (f + 2 * length cs <= F)%nat ->
  cp_loop f cs res = Some out ->
  exists cs', G.CompactBEIndex_RetrieveWithCollector_RETRIEVE_loop1 fcursor fc_current fcursor_reach_end skipT F (cs, res) =
              G.Ret (cs', out).
Proof.
  assert (P : (2^60 < 2^63)%Z) by (apply Z.pow_lt_mono_r; lia).
  induction f as [|f IH]; intros cs res out F Hlen HF H; [discriminate|].
  cbn [cp_loop] in H. unfold hitrec in *.
  destruct cs as [|c0 l0] eqn:Ecs0.
  { cbn [cp_round] in H. injection H as <-. exists []. destruct F; reflexivity. }
  destruct F as [|F']; [cbn [length] in *; lia|].
  cbn [G.CompactBEIndex_RetrieveWithCollector_RETRIEVE_loop1].
  replace (0 <? Z.of_nat (length (c0 :: l0)))%Z with true by (symmetry; apply Z.ltb_lt; cbn [length]; lia).
  change (G.inbT (c0 :: l0) 0) with true. cbn [negb]. change (G.keyAt fc_current (c0 :: l0) 0) with (fc_current c0).
  unfold cp_round in H.
  set (eid := fc_current c0) in *. set (cid := IdsGen.EntryID_GetConjID eid) in *.
  set (need := Z.to_nat (Z.max 1 (IdsGen.ConjID_Size cid))) in *.
  assert (Hneed : Z.max 1 (IdsGen.ConjID_Size cid) = Z.of_nat need) by (unfold need; rewrite Z2Nat.id; lia).
  assert (Hn1 : (1 <= need)%nat) by lia.
  rewrite Hneed. rewrite ltb_nat_Z.
  destruct (Nat.ltb_spec (length (c0 :: l0)) need) as [Hlt|Hn].
  { injection H as <-. cbn [G.bind]. exists (c0 :: l0). reflexivity. }
  destruct (nth_error (c0 :: l0) (need - 1)) as [cend|] eqn:En.
  2:{ apply nth_error_None in En. lia. }
  destruct (nth_error_split_len _ _ _ En) as (a & b & Ecs & La).
  set (endeid := fc_current cend) in *. set (endcid := IdsGen.EntryID_GetConjID endeid) in *.
  set (same := (cid =? endcid)%N) in *.
  set (next := if same then (IdsGen.NewEntryID endcid true + 1)%N else IdsGen.NewEntryID endcid false) in *.
  set (head := firstn need (c0 :: l0)) in *. set (tail := skipn need (c0 :: l0)) in *.
  assert (Lh : length head = need) by (unfold head; apply firstn_length_le; exact Hn).
  assert (Eht : c0 :: l0 = head ++ tail) by (unfold head, tail; symmetry; apply firstn_skipn).
  assert (Lt : (length head + length tail = length (c0 :: l0))%nat)
    by (pose proof (f_equal (@length _) Eht) as Q; rewrite app_length in Q; lia).
  destruct (if same && negb (IdsGen.EntryID_IsInclude eid) then skip_all tail next else Some tail) as [tail'|] eqn:Et; [|discriminate].
  destruct (skip_first need head next) as [head'|] eqn:Eh; [|discriminate].
  apply (skip_first_map next need head head' Lh) in Eh. subst head'.
  assert (Etail : tail' = if same && negb (IdsGen.EntryID_IsInclude eid) then map (skipIf next) tail else tail).
  { destruct (same && negb (IdsGen.EntryID_IsInclude eid)); [apply skip_all_map; exact Et|injection Et as <-; reflexivity]. }
  assert (Ltail' : length tail' = length tail).
  { rewrite Etail. destruct (same && negb _); [apply map_length|reflexivity]. }
  set (sorted := sort_fcursors (map (fun c => skipT c next) head ++ tail')) in *.
  set (cs1 := trim_ended sorted) in *.
  assert (Lsorted : length sorted = length (c0 :: l0)).
  { unfold sorted. rewrite sort_len, app_length, map_length. lia. }
  assert (Lcs1 : (length cs1 <= length (c0 :: l0))%nat) by (unfold cs1; rewrite <- Lsorted; apply trim_len).
  set (res1 := if same && IdsGen.EntryID_IsInclude eid then res ++ [(IdsGen.ConjID_DocID cid, cid)] else res) in *.
  destruct (IH cs1 res1 out F') as [csf Ef]; [lia|lia|exact H|].
  exists csf.
  assert (Hi : G.i64 (Z.of_nat need - 1) = Z.of_nat (length a)) by (rewrite i64s by lia; lia).
  assert (Hin : G.inbT (c0 :: l0) (Z.of_nat (length a)) = true) by (rewrite Ecs; apply inbT_mid).
  assert (Hk : G.keyAt fc_current (c0 :: l0) (Z.of_nat (length a)) = endeid) by (rewrite Ecs; apply keyAt_mid').
  rewrite Hi, Hin, Hk. cbn [negb]. fold endcid.
  assert (Esame : (endcid =? cid)%N = same) by (unfold same; apply N.eqb_sym).
  rewrite Esame.
  assert (L3 : forall r X, length X = length tail ->
    G.CompactBEIndex_RetrieveWithCollector_RETRIEVE_loop3 fcursor skipT (S F') r eid cid (IdsGen.ConjID_Size cid) (Z.of_nat need) endeid next (head ++ X, 0%Z) =
    G.Ret (map (fun c => skipT c next) head ++ X, Z.of_nat need)).
  { intros r X LX.
    pose proof (c_loop3_lock r eid cid (IdsGen.ConjID_Size cid) endeid next need [] (head ++ X) (S F')) as L.
    cbn [length app Nat.add Z.of_nat] in L. rewrite L; [|rewrite app_length; lia|cbn [length] in *; lia|rewrite app_length; cbn [length] in *; lia].
    rewrite firstn_app, Lh, Nat.sub_diag. cbn [firstn]. rewrite app_nil_r.
    rewrite firstn_all2 by lia. rewrite skipn_app, Lh, Nat.sub_diag. cbn [skipn].
    rewrite skipn_all2 by lia. reflexivity. }
  assert (LS : forall X, length X = length tail ->
    G.FieldCursors_Sort fcursor fc_current (S F') (map (fun c => skipT c next) head ++ X) =
    G.Ret (sort_fcursors (map (fun c => skipT c next) head ++ X))).
  { intros X LX. apply Sort_translated_spec; rewrite app_length, map_length; cbn [length] in *; lia. }
  assert (L4 : forall r i0, G.CompactBEIndex_RetrieveWithCollector_RETRIEVE_loop4 fcursor fcursor_reach_end (S F') r eid cid
                 (IdsGen.ConjID_Size cid) (Z.of_nat need) endeid next i0 sorted = G.Ret cs1).
  { intros r i0. apply c_loop4_lock; rewrite Lsorted; cbn [length] in *; lia. }
  rewrite Eht.
  destruct same eqn:Esm.
  - rewrite newentry_succ_nowrap. fold next.
    destruct (IdsGen.EntryID_IsInclude eid) eqn:Einc; cbn [andb negb] in Etail; cbn [G.bind].
    + subst tail'. rewrite L3 by reflexivity. cbn [G.bind]. rewrite LS by reflexivity. cbn [G.bind]. fold sorted.
      rewrite L4. cbn [G.bind]. cbn [andb] in *. exact Ef.
    + subst tail'.
      pose proof (c_loop2_lock res eid cid (IdsGen.ConjID_Size cid) (Z.of_nat need) endeid next tail head (S F')) as L2.
      rewrite Lh in L2. rewrite L2 by (cbn [length] in *; lia). cbn [G.bind].
      rewrite L3 by apply map_length. cbn [G.bind]. rewrite LS by apply map_length. cbn [G.bind]. fold sorted.
      rewrite L4. cbn [G.bind]. exact Ef.
  - cbn [andb] in Etail. subst tail'. fold next. cbn [G.bind].
    rewrite L3 by reflexivity. cbn [G.bind]. rewrite LS by reflexivity. cbn [G.bind]. fold sorted.
    rewrite L4. cbn [G.bind]. exact Ef.
Qed.

(* the compact scan loop as translated = Model/Index.cp_loop *)
Theorem compact_loop_translated_is_model : forall f cs res out,
  (Z.of_nat (length cs) < 2^60)%Z ->
  cp_loop f cs res = Some out ->
  exists cs', G.CompactBEIndex_RetrieveWithCollector_RETRIEVE fcursor fc_current fcursor_reach_end skipT (f + 2 * length cs) cs res =
              G.Ret (cs', out).
Proof.
  intros f cs res out Hlen H. unfold G.CompactBEIndex_RetrieveWithCollector_RETRIEVE.
  destruct (c_loop1_lock f cs res out (f + 2 * length cs) Hlen ltac:(lia) H) as [cs' E].
  exists cs'. unfold hitrec in *. rewrite E. reflexivity.
Qed.
