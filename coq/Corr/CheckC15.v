(* C15 uses the shared roaring case format. *)
From BE Require Export Corr.CheckRr.
