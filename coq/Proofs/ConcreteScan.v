(* The concrete scan loops of Model/Index.v (kg_round/kg_loop/retrieve_k over field cursors, and
   cp_round/cp_loop for the compact index) refine the abstract scan of Model/Scan.v, so that
   ScanProof.scan_correct transfers to the executable model.

   PROVED (all Qed, closed under the global context):
   - Rel: one concrete field cursor vs one abstract stream; Rel_cur (the exposed entry decodes to the
     stream head / is the sentinel iff the stream is empty); Rel_lt (the two sort keys compare alike);
     isort_F2 (lock-step insertion sort for Forall2-related lists); sort_sim.
   - decoding lemmas IdsGen <-> dec / excl_entry / incl_entry (getconj_div, isincl_dec, new_excl,
     new_incl_succ, wf_conj_lt) and the boundary facts bdry_excl / bdry_incl.
   - Rel_skip / skip_all_sim / skip_first_all / step_sim / decide_sim: FieldCursor.SkipTo = drop_below.
   - kg_round_sim: one round of the k-groups loop takes the same decision as Scan.round.
   - kg_loop_sim (any concrete fuel >= abstract fuel), total_le (the concrete fuel suffices),
     kg_loop_refines / retrieve_k_correct: retrieve_k returns exactly the satisfied conjunctions.
   - cp_round_sim, cp_loop_sim, cp_loop_refines / cp_loop_correct: the same for the compact loop
     (need = max 1 (ConjID_Size cid)); trimmed exhausted cursors = trailing empty streams (CInv).
   - Rel_new / live_new: the relation holds for NewFieldCursor over sorted lists of well-formed entries.

   REMARKS
   - `Forall sorted ss` is not a hypothesis: it follows from Forall2 Rel cs ss.
   - wf_entry e already gives e / 16 < 2^60, so Rel carries no separate bound.
   - compact: scan_correct needs a need function monotone on ALL of N, but ConjID_Size wraps above
     2^60; cneed is the code's need below 2^60 (cneed_eq) and the constant 255 above.  No well-formed
     entry has a conjunction id >= 2^60, so cp_round computes cneed on every entry it sees.
   - compact: cp_round has no sentinel test; it is only correct when no cursor is exhausted, which
     trim_ended maintains but which must hold INITIALLY (hypothesis `Forall live cs`; the model's
     get_entries/nonempty_lists guarantee it, see live_new).
   NOT DONE HERE: instantiating the hypotheses for a built index (posting lists produced by
   build_index are sorted/well-formed, and `cnt (c, true) ss <= need`), i.e. the link from
   retrieve_kgroups_hits / retrieve_compact_hits to these theorems. *)
From Coq Require Import List NArith ZArith Bool Lia Permutation Sorting.Sorted Arith.
From Coq Require Import ZifyN ZifyBool.
From BE Require Gen.IdsGen Proofs.IdsProof Model.Index.
From BE Require Import Model.Scan Proofs.ScanProof Model.Cursor Proofs.CursorProof Proofs.Refine Proofs.CursorHist.
Import ListNotations.
Local Open Scope N_scope.
Ltac Zify.zify_post_hook ::= Z.div_mod_to_equations.

(* ------------------------------------------------------------------------------------------ *)
(* generic list facts *)

Section F2.
  Context {A B : Type} (P : A -> B -> Prop).
  Lemma F2_nth l l' n a : Forall2 P l l' -> nth_error l n = Some a ->
    exists a', nth_error l' n = Some a' /\ P a a'.
  Proof.
    intros H. revert n. induction H as [|x y l l' Hxy Hl IH]; intros [|n] E; cbn [nth_error] in *; try discriminate.
    - inversion E; subst. eauto.
    - eauto.
  Qed.
  Lemma F2_length l l' : Forall2 P l l' -> length l = length l'.
  Proof. induction 1; cbn [length]; auto. Qed.
  Lemma F2_nth_none l l' n : Forall2 P l l' -> nth_error l n = None -> nth_error l' n = None.
  Proof. intros H E. apply nth_error_None. apply nth_error_None in E. rewrite <- (F2_length _ _ H). exact E. Qed.
  Lemma F2_firstn n : forall l l', Forall2 P l l' -> Forall2 P (firstn n l) (firstn n l').
  Proof. induction n as [|n IH]; intros l l' H; cbn [firstn]; auto. destruct H; auto. Qed.
  Lemma F2_skipn n : forall l l', Forall2 P l l' -> Forall2 P (skipn n l) (skipn n l').
  Proof. induction n as [|n IH]; intros l l' H; cbn [skipn]; auto. destruct H; auto. Qed.

  (* lock-step insertion sort: related lists whose keys compare alike are sorted alike *)
  Context (ka : A -> option N) (kb : B -> option N).
  Hypothesis Hk : forall a a' b b', P a a' -> P b b' -> lt_okey (ka a) (ka b) = lt_okey (kb a') (kb b').
  Lemma ins_F2 x x' l l' : P x x' -> Forall2 P l l' -> Forall2 P (ins ka x l) (ins kb x' l').
  Proof.
    intros Hx H. induction H as [|y y' l l' Hy Hl IH]; cbn [ins].
    - auto.
    - rewrite (Hk x x' y y') by auto. destruct (lt_okey (kb x') (kb y')); auto.
  Qed.
  Lemma isort_F2 l l' : Forall2 P l l' -> Forall2 P (isort ka l) (isort kb l').
  Proof.
    intros H. unfold isort. generalize (@Forall2_nil A B P). generalize (@nil A) (@nil B).
    induction H as [|x x' l l' Hx Hl IH]; intros acc acc' Hacc; cbn [fold_left]; auto.
    apply IH. apply ins_F2; auto.
  Qed.
End F2.

(* ------------------------------------------------------------------------------------------ *)
(* the relation *)

Definition cur_le (a b : fcursor) : Prop := fc_current a <= fc_current b.

(* wf_entry e already implies e / 16 < 2^60 (wf_conj_lt below), so no separate bound is needed *)
Definition Rel (c : fcursor) (s : stream) : Prop :=
  Forall WFm (fc_group c) /\ R (fc_group c) s /\ fc_current c = fc_cur (fc_group c).

Lemma Rel_sorted c s : Rel c s -> sorted s.
Proof. intros (_ & [H _] & _). exact H. Qed.

Lemma Rel_cur c s : Rel c s ->
  (fc_current c = NULLENTRY /\ s = []) \/
  (wf_entry (fc_current c) /\ exists s', s = dec (fc_current c) :: s').
Proof.
  intros (Hf & HR & Hc). pose proof (R_hkey _ _ Hf HR) as Hk. rewrite <- Hc in Hk.
  destruct (fc_cur_spec _ Hf) as [[Hr He]|[Hin Hmin]].
  - left. split; [congruence|]. destruct HR as [_ Hp]. rewrite Hr in Hp. cbn [map] in Hp.
    apply Permutation_sym, Permutation_nil in Hp. exact Hp.
  - right. pose proof (fc_remaining_wf _ _ Hf Hin) as Hw. rewrite <- Hc in Hw. split; auto.
    unfold okey in Hk. destruct (N.eqb_spec (fc_current c) NULLENTRY) as [E|_]; [destruct Hw; lia|].
    unfold hkey in Hk. destruct s as [|e s']; [discriminate|]. cbn [head hd_error option_map] in Hk.
    inversion Hk as [Hk']. apply key_inj in Hk'. subst e. eauto.
Qed.

Lemma Rel_lt a a' b b' : Rel a a' -> Rel b b' ->
  lt_okey (nkey (fc_current a)) (nkey (fc_current b)) = lt_okey (hkey a') (hkey b').
Proof.
  intros Ha Hb.
  destruct (Rel_cur _ _ Ha) as [[Ea ->]|[Wa [sa ->]]], (Rel_cur _ _ Hb) as [[Eb ->]|[Wb [sb ->]]];
    unfold nkey, hkey; cbn [head hd_error option_map lt_okey].
  - rewrite Ea, Eb. apply N.ltb_irrefl.
  - rewrite Ea. destruct Wb. apply N.ltb_ge. lia.
  - rewrite Eb. destruct Wa. apply N.ltb_lt. lia.
  - pose proof (dec_mono _ _ Wa Wb).
    destruct (N.ltb_spec (fc_current a) (fc_current b)), (N.ltb_spec (key (dec (fc_current a))) (key (dec (fc_current b)))); auto; lia.
Qed.

Lemma sort_sim cs ss : Forall2 Rel cs ss ->
  Forall2 Rel (sort_fcursors cs) (isort hkey ss) /\ StronglySorted cur_le (sort_fcursors cs).
Proof.
  intros H. split.
  - unfold sort_fcursors. apply isort_F2; auto. intros; apply Rel_lt; auto.
  - apply sort_fcursors_spec.
Qed.

(* ------------------------------------------------------------------------------------------ *)
(* decoding: the generated id codec vs dec / excl_entry / incl_entry *)

Lemma getconj_div e : IdsGen.EntryID_GetConjID e = e / 16.
Proof. unfold IdsGen.EntryID_GetConjID. rewrite N.shiftr_div_pow2. reflexivity. Qed.

Lemma isincl_dec e : wf_entry e -> IdsGen.EntryID_IsInclude e = (e mod 16 =? 1).
Proof.
  intros [H _]. unfold IdsGen.EntryID_IsInclude.
  replace (N.land e 1) with (e mod 2) by (change 1 with (N.ones 1); symmetry; apply N.land_ones).
  destruct (N.ltb_spec 0 (e mod 2)), (N.eqb_spec (e mod 16) 1); auto; lia.
Qed.

Lemma wf_conj_lt e : wf_entry e -> e / 16 < 2^60.
Proof. intros [_ H]. unfold NULLENTRY in H. change (2^60) with 1152921504606846976. lia. Qed.

Lemma new_excl c : c < 2^60 -> IdsGen.NewEntryID c false = excl_entry c.
Proof. intros H. rewrite IdsProof.NewEntryID_arith by exact H. unfold excl_entry. lia. Qed.

Lemma new_incl_succ c : c < 2^60 -> IdsGen.NewEntryID c true + 1 = incl_entry c + 1.
Proof. intros H. rewrite IdsProof.NewEntryID_arith by exact H. reflexivity. Qed.

Lemma excl_le_null c : c < 2^60 -> excl_entry c <= NULLENTRY.
Proof. change (2^60) with 1152921504606846976. unfold excl_entry, NULLENTRY. lia. Qed.
Lemma incl_succ_le_null c : c < 2^60 -> incl_entry c + 1 <= NULLENTRY.
Proof. change (2^60) with 1152921504606846976. unfold incl_entry, NULLENTRY. lia. Qed.

(* t is a conjunction boundary for b: exactly what R_skip needs *)
Definition bdry (t b : N) : Prop := forall e, wf_entry e -> (e < t <-> fst (dec e) < b).
Lemma bdry_excl d : bdry (excl_entry d) d.
Proof. intros e He. apply lt_excl; auto. Qed.
Lemma bdry_incl c : bdry (incl_entry c + 1) (N.succ c).
Proof. intros e He. apply lt_incl_succ; auto. Qed.

(* ------------------------------------------------------------------------------------------ *)
(* FieldCursor.SkipTo = drop_below *)

Lemma Rel_skip c s t b : t <= NULLENTRY -> bdry t b -> Rel c s ->
  exists c', fcursor_skip_to c t = Some (c', fc_current c') /\ Rel c' (drop_below b s).
Proof.
  intros Ht Hb (Hf & HR & Hc).
  destruct (R_skip _ _ t b Ht Hf HR Hb) as (fc' & Hsk & Hf' & HR').
  destruct (fcursor_skip_to c t) as [[c' m]|] eqn:E.
  - destruct (fcursor_skip_min _ _ _ _ E) as (Hg & Hm & Hm'). rewrite Hsk in Hg. inversion Hg; subst fc'.
    exists c'. split; [rewrite Hm; reflexivity|]. split; [|split]; auto. congruence.
  - unfold fcursor_skip_to in E. rewrite fc_skip_loop_spec, Hsk in E. discriminate.
Qed.

Lemma Rel_noskip c s t b : bdry t b -> Rel c s -> t <= fc_current c -> drop_below b s = s.
Proof.
  intros Hb Hr Hge. destruct (Rel_cur _ _ Hr) as [[_ ->]|[W [s' ->]]]; [reflexivity|].
  eapply drop_below_head_ge; [reflexivity|]. specialize (Hb _ W). lia.
Qed.

Lemma skip_all_sim t b cs ss : t <= NULLENTRY -> bdry t b -> Forall2 Rel cs ss ->
  exists cs', Index.skip_all cs t = Some cs' /\ Forall2 Rel cs' (map (drop_below b) ss).
Proof.
  intros Ht Hb H. induction H as [|c s cs ss Hc Hcs IH]; cbn [Index.skip_all map].
  - exists []. auto.
  - destruct IH as (r & Hr & HF). rewrite Hr. destruct (N.ltb_spec (fc_current c) t) as [Hlt|Hge].
    + destruct (Rel_skip c s t b Ht Hb Hc) as (c' & E & Hc'). rewrite E. cbn [option_map fst].
      exists (c' :: r). auto.
    + exists (c :: r). split; auto. constructor; auto. rewrite (Rel_noskip c s t b); auto.
Qed.

Lemma skip_first_all t b n : forall cs ss, t <= NULLENTRY -> bdry t b -> Forall2 Rel cs ss -> (length cs <= n)%nat ->
  exists cs', Index.skip_first n cs t = Some cs' /\ Forall2 Rel cs' (map (drop_below b) ss).
Proof.
  induction n as [|n IH]; intros cs ss Ht Hb H Hl.
  - destruct H; cbn [length] in Hl; [|lia]. exists []. split; [reflexivity|constructor].
  - destruct H as [|c s cs ss Hc Hcs]; cbn [Index.skip_first map].
    + exists []. split; [reflexivity|constructor].
    + cbn [length] in Hl. destruct (IH cs ss Ht Hb Hcs) as (r & Hr & HF); [lia|]. rewrite Hr.
      destruct (Rel_skip c s t b Ht Hb Hc) as (c' & E & Hc'). rewrite E. exists (c' :: r). auto.
Qed.

(* the cursor-moving part shared by both loops *)
Lemma step_sim need t b (all : bool) cs ss : t <= NULLENTRY -> bdry t b -> Forall2 Rel cs ss ->
  exists tail' head',
    (if all then Index.skip_all (skipn need cs) t else Some (skipn need cs)) = Some tail' /\
    Index.skip_first need (firstn need cs) t = Some head' /\
    Forall2 Rel (head' ++ tail') (if all then map (drop_below b) ss else map_first need (drop_below b) ss).
Proof.
  intros Ht Hb H.
  destruct (skip_first_all t b need (firstn need cs) (firstn need ss) Ht Hb (F2_firstn _ _ _ _ H) (firstn_le_length _ _))
    as (head' & Hh & HFh).
  destruct all.
  - destruct (skip_all_sim t b (skipn need cs) (skipn need ss) Ht Hb (F2_skipn _ _ _ _ H)) as (tail' & Htl & HFt).
    exists tail', head'. split; auto. split; auto.
    replace (map (drop_below b) ss) with (map (drop_below b) (firstn need ss) ++ map (drop_below b) (skipn need ss))
      by (rewrite <- map_app, firstn_skipn; reflexivity).
    apply Forall2_app; auto.
  - exists (skipn need cs), head'. split; auto. split; auto. unfold map_first.
    apply Forall2_app; auto. apply F2_skipn; auto.
Qed.

(* ------------------------------------------------------------------------------------------ *)
(* hit records *)
Definition hits_ok (res : list Index.hitrec) : Prop :=
  forall h, In h res -> fst h = IdsGen.ConjID_DocID (snd h).

Lemma hits_ok_snoc res c : hits_ok res -> hits_ok (res ++ [(IdsGen.ConjID_DocID c, c)]).
Proof. intros H h Hin. apply in_app_or in Hin. destruct Hin as [Hin|[<-|[]]]; auto. Qed.
Lemma res_snoc (res : list Index.hitrec) res' d c : map snd res = rev res' -> map snd (res ++ [(d, c)]) = rev (c :: res').
Proof. intros H. rewrite map_app. cbn [rev]. f_equal. exact H. Qed.

(* the part of a round after the two compared entries are known: common to k-groups and compact *)
Lemma decide_sim need cs ss res res' e ee :
  Forall2 Rel cs ss -> wf_entry e -> wf_entry ee -> map snd res = rev res' -> hits_ok res ->
  let cid := IdsGen.EntryID_GetConjID e in
  let endcid := IdsGen.EntryID_GetConjID ee in
  let same := (cid =? endcid) in
  let next := if same then (IdsGen.NewEntryID endcid true + 1) else IdsGen.NewEntryID endcid false in
  let resc := if same && IdsGen.EntryID_IsInclude e then res ++ [(IdsGen.ConjID_DocID cid, cid)] else res in
  let e0 := dec e in let eEnd := dec ee in
  let out := if fst e0 =? fst eEnd then
               if snd e0 then (map_first need (drop_below (N.succ (fst e0))) ss, fst e0 :: res')
               else (map (drop_below (N.succ (fst e0))) ss, res')
             else (map_first need (drop_below (fst eEnd)) ss, res') in
  exists tail' head',
    (if same && negb (IdsGen.EntryID_IsInclude e) then Index.skip_all (skipn need cs) next else Some (skipn need cs)) = Some tail' /\
    Index.skip_first need (firstn need cs) next = Some head' /\
    Forall2 Rel (head' ++ tail') (fst out) /\ map snd resc = rev (snd out) /\ hits_ok resc.
Proof.
  intros HF We Wee Hres Hok. cbv zeta.
  rewrite !getconj_div, (isincl_dec _ We). unfold dec. cbn [fst snd].
  pose proof (wf_conj_lt _ We) as Hc. pose proof (wf_conj_lt _ Wee) as Hce.
  destruct (N.eqb_spec (e / 16) (ee / 16)) as [Heq|Hne]; cbn [andb].
  - rewrite <- Heq. rewrite new_incl_succ by exact Hc.
    destruct (e mod 16 =? 1); cbn [negb].
    + destruct (step_sim need _ _ false cs ss (incl_succ_le_null _ Hc) (bdry_incl (e / 16)) HF) as (tl & hd & Ht & Hh & HF').
      exists tl, hd. cbn [fst snd]. split; auto. split; auto. split; auto. split; [apply res_snoc; auto|apply hits_ok_snoc; auto].
    + destruct (step_sim need _ _ true cs ss (incl_succ_le_null _ Hc) (bdry_incl (e / 16)) HF) as (tl & hd & Ht & Hh & HF').
      exists tl, hd. cbn [fst snd]. auto.
  - rewrite new_excl by exact Hce.
    destruct (step_sim need _ _ false cs ss (excl_le_null _ Hce) (bdry_excl (ee / 16)) HF) as (tl & hd & Ht & Hh & HF').
    exists tl, hd. cbn [fst snd]. auto.
Qed.

(* ------------------------------------------------------------------------------------------ *)
(* k-groups: one round *)

Lemma sorted_hd_le c0 cs n cend : StronglySorted cur_le (c0 :: cs) -> nth_error (c0 :: cs) n = Some cend ->
  fc_current c0 <= fc_current cend.
Proof.
  intros Hs Hn. apply StronglySorted_inv in Hs. destruct Hs as [_ Hall].
  apply nth_error_In in Hn. destruct Hn as [<-|Hin]; [lia|]. rewrite Forall_forall in Hall. apply Hall; auto.
Qed.

Definition round_post (cs1 : list fcursor) (res1 : list Index.hitrec) (ss1 : list stream) (res1' : list N) : Prop :=
  Forall2 Rel cs1 ss1 /\ StronglySorted cur_le cs1 /\ map snd res1 = rev res1' /\ hits_ok res1.

Lemma kg_round_sim need cs ss res res' :
  (1 <= need)%nat -> Forall2 Rel cs ss -> StronglySorted cur_le cs -> map snd res = rev res' -> hits_ok res ->
  match Scan.round (fun _ => need) ss res' with
  | None => Index.kg_round need cs res = Some None
  | Some (ss1, res1') => exists cs1 res1, Index.kg_round need cs res = Some (Some (cs1, res1)) /\
                                         round_post cs1 res1 ss1 res1'
  end.
Proof.
  intros Hn HF Hs Hres Hok. unfold Index.kg_round, Scan.round.
  destruct (nth_error cs (need - 1)) as [cend|] eqn:Ec.
  2:{ rewrite (F2_nth_none _ _ _ _ HF Ec). destruct ss as [|s0 ss0]; auto. destruct (head s0); auto. }
  destruct (F2_nth _ _ _ _ _ HF Ec) as (sEnd & Es & Hend).
  destruct cs as [|c0 cs0]; [destruct (need - 1)%nat; discriminate|].
  destruct ss as [|s0 ss0]; [inversion HF|].
  assert (Hc0 : Rel c0 s0) by (inversion HF; auto).
  rewrite Es. cbv beta iota zeta.
  destruct (Rel_cur _ _ Hend) as [[En Esn]|[Wend [send' Esend]]].
  - rewrite En, N.eqb_refl. subst sEnd. cbn [head hd_error]. destruct (head s0); auto.
  - destruct (N.eqb_spec (fc_current cend) NULLENTRY) as [E|_]; [destruct Wend; lia|].
    pose proof (sorted_hd_le _ _ _ _ Hs Ec) as Hle.
    destruct (Rel_cur _ _ Hc0) as [[E0 _]|[W0 [s0' E0]]]; [destruct Wend; lia|].
    assert (Hh0 : head s0 = Some (dec (fc_current c0))) by (rewrite E0; reflexivity).
    assert (HhE : head sEnd = Some (dec (fc_current cend))) by (rewrite Esend; reflexivity).
    rewrite Hh0, HhE.
    destruct (decide_sim need (c0 :: cs0) (s0 :: ss0) res res' _ _ HF W0 Wend Hres Hok)
      as (tl & hd & Ht & Hh & HF' & Hr & Ho).
    cbv zeta in Ht, Hh, HF', Hr, Ho. rewrite Ht, Hh.
    destruct (fst (dec (fc_current c0)) =? fst (dec (fc_current cend))); [destruct (snd (dec (fc_current c0)))|];
      cbn [fst snd] in HF', Hr; destruct (sort_sim _ _ HF') as [A B];
      (eexists; eexists; split; [reflexivity|]; split; [exact A|split; [exact B|split; [exact Hr|exact Ho]]]).
Qed.

(* ------------------------------------------------------------------------------------------ *)
(* k-groups: the loop; any concrete fuel >= the abstract fuel works *)

Lemma kg_loop_sim need : (1 <= need)%nat -> forall f ss res' r,
  Scan.loop (fun _ => need) f ss res' = Some r ->
  forall f' cs res, (f <= f')%nat -> Forall2 Rel cs ss -> StronglySorted cur_le cs ->
    map snd res = rev res' -> hits_ok res ->
    exists resc, Index.kg_loop f' need cs res = Some resc /\ map snd resc = rev r /\ hits_ok resc.
Proof.
  intros Hn. induction f as [|f IH]; intros ss res' r Hl f' cs res Hf HF Hs Hres Hok; [discriminate|].
  destruct f' as [|f']; [lia|]. cbn [Scan.loop Index.kg_loop] in *.
  pose proof (kg_round_sim need cs ss res res' Hn HF Hs Hres Hok) as Hsim.
  destruct (Scan.round (fun _ => need) ss res') as [[ss1 res1']|].
  - destruct Hsim as (cs1 & res1 & E & HF1 & Hs1 & Hres1 & Hok1). rewrite E.
    apply (IH ss1 res1' r Hl); auto. lia.
  - rewrite Hsim. inversion Hl; subst r. exists res. auto.
Qed.

(* the concrete fuel bounds the abstract one *)
Definition group_total (g : fcur) : nat := fold_right (fun m a => (length (fst m) + a)%nat) O g.
Lemma fc_remaining_len g : (length (fc_remaining g) <= group_total g)%nat.
Proof.
  unfold fc_remaining. induction g as [|m g IH]; cbn [map concat group_total fold_right length]; auto.
  rewrite app_length. unfold m_remaining at 1, remaining. rewrite skipn_length. fold (group_total g). lia.
Qed.
Lemma Rel_len c s : Rel c s -> (length s <= group_total (fc_group c))%nat.
Proof.
  intros (_ & [_ Hp] & _). rewrite (Permutation_length Hp), map_length. apply fc_remaining_len.
Qed.
Lemma total_le cs ss : Forall2 Rel cs ss -> (length (concat ss) <= Index.fc_total cs)%nat.
Proof.
  unfold Index.fc_total. induction 1 as [|c s cs ss Hc Hcs IH]; cbn [concat fold_right length]; auto.
  rewrite app_length. pose proof (Rel_len _ _ Hc) as H. unfold group_total in H. lia.
Qed.

Lemma retrieve_k_eq need cs res :
  Index.retrieve_k need cs res = Index.kg_loop (S (Index.fc_total cs)) need (sort_fcursors cs) res.
Proof.
  unfold Index.retrieve_k. destruct (Nat.ltb_spec (length cs) need) as [Hlt|Hge]; auto.
  cbn [Index.kg_loop]. unfold Index.kg_round.
  replace (nth_error (sort_fcursors cs) (need - 1)) with (@None fcursor); auto.
  symmetry. apply nth_error_None. unfold sort_fcursors.
  rewrite (Permutation_length (isort_perm _ cs)). lia.
Qed.

Theorem kg_loop_refines need cs ss :
  (1 <= need)%nat -> Forall2 Rel cs ss -> (forall c, (cnt (c, true) ss <= need)%nat) ->
  exists res r,
    Index.retrieve_k need cs [] = Some res /\ scan (fun _ => need) ss = Some r /\
    map snd res = rev r /\ (forall h, In h res -> fst h = IdsGen.ConjID_DocID (snd h)) /\
    (forall x, In x r <-> sat need ss x) /\ NoDup r.
Proof.
  intros Hn HF H1.
  assert (Hso : Forall sorted ss).
  { clear -HF. induction HF; constructor; auto. eapply Rel_sorted; eauto. }
  destruct (scan_correct (fun _ => need) ss (fun _ => Hn) (fun _ _ _ => le_n _) Hso H1) as (r & Hscan & Hr & Hnd).
  destruct (sort_sim _ _ HF) as [HFs Hss].
  unfold scan in Hscan.
  destruct (kg_loop_sim need Hn _ _ _ _ Hscan (S (Index.fc_total cs)) (sort_fcursors cs) [])
    as (resc & Hk & Hm & Hok); auto.
  { pose proof (total_le _ _ HF). lia. }
  { intros h []. }
  exists resc, r. rewrite retrieve_k_eq. unfold scan.
  split; [exact Hk|]. split; [exact Hscan|]. split; [exact Hm|]. split; [exact Hok|]. split; [exact Hr|exact Hnd].
Qed.

(* the transferred correctness statement for the executable retrieve_k *)
Corollary retrieve_k_correct need cs ss :
  (1 <= need)%nat -> Forall2 Rel cs ss -> (forall c, (cnt (c, true) ss <= need)%nat) ->
  exists res, Index.retrieve_k need cs [] = Some res /\
    (forall x, In x (map snd res) <-> sat need ss x) /\ NoDup (map snd res) /\
    (forall h, In h res -> fst h = IdsGen.ConjID_DocID (snd h)).
Proof.
  intros Hn HF H1. destruct (kg_loop_refines need cs ss Hn HF H1) as (res & r & Hk & _ & Hm & Hok & Hr & Hnd).
  exists res. split; auto. rewrite Hm. split; [|split]; auto.
  - intros x. rewrite <- in_rev. apply Hr.
  - apply NoDup_rev. exact Hnd.
Qed.

(* ------------------------------------------------------------------------------------------ *)
(* compact index: need = max 1 (ConjID_Size cid); exhausted cursors are trimmed *)

(* The code's need on every real conjunction id (< 2^60), extended monotonically beyond (ConjID_Size
   wraps there; no well-formed entry has such a conjunction id). *)
Definition cneed (c : N) : nat :=
  if c <? 2^60 then Nat.max 1 (Z.to_nat (IdsGen.ConjID_Size c)) else 255%nat.

Lemma size_le_255 c : (IdsGen.ConjID_Size c <= 255)%Z.
Proof.
  unfold IdsGen.ConjID_Size, IdsGen.i64. change 255 with (N.ones 8). rewrite N.land_ones.
  change (2^8) with 256. lia.
Qed.
Lemma cneed_pos c : (1 <= cneed c)%nat.
Proof. unfold cneed. destruct (c <? 2^60); lia. Qed.
Lemma cneed_mono c c' : c <= c' -> (cneed c <= cneed c')%nat.
Proof.
  intros H. unfold cneed. destruct (N.ltb_spec c (2^60)), (N.ltb_spec c' (2^60)); try lia.
  - pose proof (IdsProof.conj_size_monotone c c' H H1). lia.
  - pose proof (size_le_255 c). lia.
Qed.
Lemma cneed_eq c : c < 2^60 -> Z.to_nat (Z.max 1 (IdsGen.ConjID_Size c)) = cneed c.
Proof. intros H. unfold cneed. destruct (N.ltb_spec c (2^60)); lia. Qed.

Definition live (c : fcursor) : Prop := fc_current c <> NULLENTRY.

(* the concrete cursors match the non-empty streams; the trimmed ones are trailing empty streams *)
Definition CInv (cs : list fcursor) (ss : list stream) : Prop :=
  exists ss1 n, ss = ss1 ++ repeat [] n /\ Forall2 Rel cs ss1 /\ Forall live cs.

Lemma Rel_live c s : Rel c s -> live c -> wf_entry (fc_current c) /\ head s = Some (dec (fc_current c)).
Proof. intros Hr Hl. destruct (Rel_cur _ _ Hr) as [[E _]|[W [s' ->]]]; [contradiction|]. auto. Qed.
Lemma Rel_ended c s : Rel c s -> fc_current c = NULLENTRY -> s = [].
Proof. intros Hr E. destruct (Rel_cur _ _ Hr) as [[_ ->]|[[_ W] _]]; auto. lia. Qed.
Lemma Rel_le_null c s : Rel c s -> fc_current c <= NULLENTRY.
Proof. intros (_ & _ & ->). apply fc_cur_le_null. Qed.

Lemma ins_empty (acc : list stream) : ins hkey [] acc = acc ++ [[]].
Proof. induction acc as [|a acc IH]; cbn [ins app]; auto. unfold hkey at 1. cbn [head hd_error option_map lt_okey]. rewrite IH. reflexivity. Qed.
Lemma fold_ins_empty n : forall acc : list stream,
  fold_left (fun a x => ins hkey x a) (repeat [] n) acc = acc ++ repeat [] n.
Proof.
  induction n as [|n IH]; intros acc; cbn [repeat fold_left].
  - rewrite app_nil_r. reflexivity.
  - rewrite IH, ins_empty, <- app_assoc. reflexivity.
Qed.
Lemma isort_app_empty X n : isort hkey (X ++ repeat [] n) = isort hkey X ++ repeat [] n.
Proof. unfold isort. rewrite fold_left_app. apply fold_ins_empty. Qed.
Lemma map_app_empty b (ss1 : list (list entry)) n :
  map (drop_below b) (ss1 ++ repeat [] n) = map (drop_below b) ss1 ++ repeat [] n.
Proof. rewrite map_app. f_equal. induction n as [|n IH]; cbn [repeat map drop_below]; auto. rewrite IH. reflexivity. Qed.
Lemma map_first_app_empty need f (ss1 : list (list entry)) n : (need <= length ss1)%nat ->
  map_first need f (ss1 ++ repeat [] n) = map_first need f ss1 ++ repeat [] n.
Proof.
  intros H. unfold map_first. rewrite firstn_app, skipn_app.
  replace (need - length ss1)%nat with O by lia. cbn [firstn skipn]. rewrite app_nil_r, app_assoc. reflexivity.
Qed.
Lemma nth_app_empty {A} (ss1 : list (list A)) n k : (length ss1 <= k)%nat ->
  nth_error (ss1 ++ repeat [] n) k = None \/ nth_error (ss1 ++ repeat [] n) k = Some [].
Proof.
  intros H. destruct (nth_error (ss1 ++ repeat [] n) k) as [s|] eqn:E; auto. right.
  rewrite nth_error_app2 in E by exact H. apply nth_error_In in E. apply repeat_spec in E. subst s. reflexivity.
Qed.

Lemma trim_ended_snoc l c :
  Index.trim_ended (l ++ [c]) = if fcursor_reach_end c then Index.trim_ended l else l ++ [c].
Proof.
  unfold Index.trim_ended. rewrite rev_app_distr. cbn [rev app Index.drop_ended].
  destruct (fcursor_reach_end c); auto. cbn [rev]. rewrite rev_involutive. reflexivity.
Qed.
Lemma sorted_snoc {A} (Rl : A -> A -> Prop) l c : StronglySorted Rl (l ++ [c]) ->
  StronglySorted Rl l /\ Forall (fun x => Rl x c) l.
Proof.
  induction l as [|a l IH]; cbn [app]; intros H; [split; constructor|].
  apply StronglySorted_inv in H. destruct H as [Hs Hall]. destruct (IH Hs) as [H1 H2].
  rewrite Forall_forall in Hall. split; constructor; auto.
  - rewrite Forall_forall. intros x Hx. apply Hall. apply in_or_app. left. exact Hx.
  - apply Hall. apply in_or_app. right. left. reflexivity.
Qed.

Lemma trim_sim Yc : forall Y n, Forall2 Rel Yc Y -> StronglySorted cur_le Yc ->
  CInv (Index.trim_ended Yc) (Y ++ repeat [] n).
Proof.
  induction Yc as [|c l IH] using rev_ind; intros Y n HF Hs.
  - inversion HF; subst. exists [], n. repeat split; constructor.
  - apply Forall2_app_inv_l in HF. destruct HF as (Z1 & Z2 & HF1 & HF2 & ->).
    inversion HF2 as [|? z ? ? Hcz Hnil]; subst. inversion Hnil; subst.
    destruct (sorted_snoc _ _ _ Hs) as [Hsl Hall].
    rewrite trim_ended_snoc. unfold fcursor_reach_end. destruct (N.eqb_spec (fc_current c) NULLENTRY) as [E|E].
    + rewrite (Rel_ended _ _ Hcz E). rewrite <- app_assoc. apply (IH Z1 (S n)); auto.
    + exists (Z1 ++ [z]), n. split; auto. split; [apply Forall2_app; auto|].
      pose proof (Rel_le_null _ _ Hcz) as Hle.
      apply Forall_app. split; [|constructor; auto].
      rewrite Forall_forall in *. intros x Hx. specialize (Hall x Hx). unfold cur_le, live in *. lia.
Qed.

Lemma finish_sim Xc X n : Forall2 Rel Xc X ->
  CInv (Index.trim_ended (sort_fcursors Xc)) (isort hkey (X ++ repeat [] n)).
Proof. intros H. rewrite isort_app_empty. destruct (sort_sim _ _ H). apply trim_sim; auto. Qed.

Lemma round_hd needf ss res s0 e0 : hd_error ss = Some s0 -> head s0 = Some e0 ->
  Scan.round needf ss res =
  match nth_error ss (needf (fst e0) - 1) with
  | None => None
  | Some sEnd =>
    match head sEnd with
    | None => None
    | Some eEnd =>
      if fst e0 =? fst eEnd then
        if snd e0 then Some (isort hkey (map_first (needf (fst e0)) (drop_below (N.succ (fst e0))) ss), fst e0 :: res)
        else Some (isort hkey (map (drop_below (N.succ (fst e0))) ss), res)
      else Some (isort hkey (map_first (needf (fst e0)) (drop_below (fst eEnd)) ss), res)
    end
  end.
Proof.
  intros H1 H2. destruct ss as [|s ss]; [discriminate|]. cbn [hd_error] in H1. inversion H1; subst s.
  unfold Scan.round. rewrite H2. reflexivity.
Qed.

Lemma cp_round_sim cs ss res res' :
  CInv cs ss -> map snd res = rev res' -> hits_ok res ->
  match Scan.round cneed ss res' with
  | None => Index.cp_round cs res = Some None
  | Some (ss1, res1') => exists cs1 res1, Index.cp_round cs res = Some (Some (cs1, res1)) /\
                                         CInv cs1 ss1 /\ map snd res1 = rev res1' /\ hits_ok res1
  end.
Proof.
  intros (ss1 & n & -> & HF & Hlive) Hres Hok. unfold Index.cp_round.
  destruct cs as [|c0 cs0].
  - inversion HF; subst. destruct n; reflexivity.
  - destruct ss1 as [|s0 ss0]; [inversion HF|].
    assert (Hc0 : Rel c0 s0) by (inversion HF; auto).
    assert (Hl0 : live c0) by (inversion Hlive; auto).
    destruct (Rel_live _ _ Hc0 Hl0) as [W0 Hh0].
    rewrite (round_hd cneed ((s0 :: ss0) ++ repeat [] n) res' s0 _ eq_refl Hh0). cbv beta iota zeta.
    pose proof (wf_conj_lt _ W0) as Hlt.
    assert (Hneed : Z.to_nat (Z.max 1 (IdsGen.ConjID_Size (IdsGen.EntryID_GetConjID (fc_current c0)))) =
                    cneed (fst (dec (fc_current c0)))).
    { rewrite getconj_div. apply cneed_eq. exact Hlt. }
    rewrite Hneed. set (need := cneed (fst (dec (fc_current c0)))).
    assert (Hn1 : (1 <= need)%nat) by apply cneed_pos.
    pose proof (F2_length _ _ _ HF) as Hlen. unfold stream in *.
    destruct (Nat.ltb_spec (length (c0 :: cs0)) need) as [Hshort|Hlong].
    + assert (Hk : (length (s0 :: ss0) <= need - 1)%nat) by lia.
      destruct (nth_app_empty (s0 :: ss0) n (need - 1) Hk) as [E|E]; rewrite E; reflexivity.
    + destruct (nth_error (c0 :: cs0) (need - 1)) as [cend|] eqn:Ec; [|apply nth_error_None in Ec; lia].
      destruct (F2_nth _ _ _ _ _ HF Ec) as (sEnd & Es & Hend).
      rewrite nth_error_app1 by lia. rewrite Es.
      assert (Hle : live cend). { rewrite Forall_forall in Hlive. apply Hlive. eapply nth_error_In; eauto. }
      destruct (Rel_live _ _ Hend Hle) as [Wend HhE]. rewrite HhE.
      destruct (decide_sim need (c0 :: cs0) (s0 :: ss0) res res' _ _ HF W0 Wend Hres Hok)
        as (tl & hd & Ht & Hh & HF' & Hr & Ho).
      cbv zeta in Ht, Hh, HF', Hr, Ho. rewrite Ht, Hh.
      destruct (fst (dec (fc_current c0)) =? fst (dec (fc_current cend))); [destruct (snd (dec (fc_current c0)))|];
        cbn [fst snd] in HF', Hr;
        (eexists; eexists; split; [reflexivity|]; split; [|split; [exact Hr|exact Ho]]);
        rewrite ?map_app_empty, ?map_first_app_empty by lia; apply finish_sim; exact HF'.
Qed.

Lemma cp_loop_sim : forall f ss res' r,
  Scan.loop cneed f ss res' = Some r ->
  forall f' cs res, (f <= f')%nat -> CInv cs ss -> map snd res = rev res' -> hits_ok res ->
    exists resc, Index.cp_loop f' cs res = Some resc /\ map snd resc = rev r /\ hits_ok resc.
Proof.
  induction f as [|f IH]; intros ss res' r Hl f' cs res Hf HI Hres Hok; [discriminate|].
  destruct f' as [|f']; [lia|]. cbn [Scan.loop Index.cp_loop] in *.
  pose proof (cp_round_sim cs ss res res' HI Hres Hok) as Hsim.
  destruct (Scan.round cneed ss res') as [[ss1 res1']|].
  - destruct Hsim as (cs1 & res1 & E & HI1 & Hres1 & Hok1). rewrite E.
    apply (IH ss1 res1' r Hl); auto. lia.
  - rewrite Hsim. inversion Hl; subst r. exists res. auto.
Qed.

Theorem cp_loop_refines cs ss :
  Forall2 Rel cs ss -> Forall live cs -> (forall c, (cnt (c, true) ss <= cneed c)%nat) ->
  exists res r,
    Index.cp_loop (S (Index.fc_total cs)) (sort_fcursors cs) [] = Some res /\ scan cneed ss = Some r /\
    map snd res = rev r /\ (forall h, In h res -> fst h = IdsGen.ConjID_DocID (snd h)) /\
    (forall x, In x r <-> satf cneed ss x) /\ NoDup r.
Proof.
  intros HF Hlive H1.
  assert (Hso : Forall sorted ss).
  { clear -HF. induction HF; constructor; auto. eapply Rel_sorted; eauto. }
  destruct (scan_correct cneed ss cneed_pos cneed_mono Hso H1) as (r & Hscan & Hr & Hnd).
  destruct (sort_sim _ _ HF) as [HFs Hss].
  unfold scan in Hscan.
  destruct (cp_loop_sim _ _ _ _ Hscan (S (Index.fc_total cs)) (sort_fcursors cs) [])
    as (resc & Hk & Hm & Hok); auto.
  { pose proof (total_le _ _ HF). lia. }
  { exists (isort hkey ss), O. cbn [repeat]. rewrite app_nil_r. split; auto. split; auto.
    rewrite Forall_forall in *. intros x Hx. apply Hlive.
    apply (Permutation_in _ (proj1 (sort_fcursors_spec cs))). exact Hx. }
  { intros h []. }
  exists resc, r. unfold scan.
  split; [exact Hk|]. split; [exact Hscan|]. split; [exact Hm|]. split; [exact Hok|]. split; [exact Hr|exact Hnd].
Qed.

Corollary cp_loop_correct cs ss :
  Forall2 Rel cs ss -> Forall live cs -> (forall c, (cnt (c, true) ss <= cneed c)%nat) ->
  exists res, Index.cp_loop (S (Index.fc_total cs)) (sort_fcursors cs) [] = Some res /\
    (forall x, In x (map snd res) <-> satf cneed ss x) /\ NoDup (map snd res) /\
    (forall h, In h res -> fst h = IdsGen.ConjID_DocID (snd h)).
Proof.
  intros HF Hl H1. destruct (cp_loop_refines cs ss HF Hl H1) as (res & r & Hk & _ & Hm & Hok & Hr & Hnd).
  exists res. split; auto. rewrite Hm. split; [|split]; auto.
  - intros x. rewrite <- in_rev. apply Hr.
  - apply NoDup_rev. exact Hnd.
Qed.

(* ------------------------------------------------------------------------------------------ *)
(* non-vacuity: the cursors built by NewFieldCursor over sorted posting lists of well-formed
   entries are related to the sorted decoded union of the lists *)
Definition sort_stream (l : list entry) : stream := isort (fun e => Some (key e)) l.
Lemma sort_stream_perm l : Permutation (sort_stream l) l.
Proof. apply isort_perm. Qed.
Lemma sort_stream_sorted l : sorted (sort_stream l).
Proof.
  pose proof (isort_sorted (fun e => Some (key e)) l) as H. unfold sort_stream, sorted.
  induction H as [|a s Hs IH Hall]; constructor; auto.
  rewrite Forall_forall in *. intros x Hx. specialize (Hall x Hx).
  unfold kle, ole, lt_okey in Hall. apply N.ltb_ge in Hall. exact Hall.
Qed.

Lemma new_group_remaining ls : fc_remaining (map (fun l => (l, new_cursor l)) ls) = concat ls.
Proof. unfold fc_remaining. induction ls as [|l ls IH]; cbn [map concat]; auto. rewrite IH. reflexivity. Qed.

Theorem Rel_new ls : ls <> [] -> Forall sortedN ls -> Forall (fun l => forall x, In x l -> wf_entry x) ls ->
  Rel (new_fcursor ls) (sort_stream (map dec (concat ls))).
Proof.
  intros Hne Hs Hw. split; [|split].
  - unfold new_fcursor. cbn [fc_group]. rewrite Forall_forall in *. intros m Hm.
    apply in_map_iff in Hm. destruct Hm as (l & <- & Hl). split; [|split]; cbn [fst snd].
    + apply Hs; exact Hl.
    + apply Hw; exact Hl.
    + split; cbn [new_cursor c_pos c_eid]; [lia|reflexivity].
  - split; [apply sort_stream_sorted|]. unfold new_fcursor. cbn [fc_group].
    rewrite new_group_remaining. apply sort_stream_perm.
  - apply new_fcursor_min; auto. rewrite Forall_forall in *. intros l Hl.
    destruct l as [|x l']; [unfold ent; cbn [nth]; lia|].
    unfold ent. cbn [nth]. destruct (Hw _ Hl x (or_introl eq_refl)). lia.
Qed.

Theorem live_new ls : ls <> [] -> Forall sortedN ls -> Forall (fun l => forall x, In x l -> wf_entry x) ls ->
  Forall (fun l => l <> []) ls -> live (new_fcursor ls).
Proof.
  intros Hne Hs Hw Hnn E. pose proof (Rel_ended _ _ (Rel_new ls Hne Hs Hw) E) as Hnil.
  pose proof (sort_stream_perm (map dec (concat ls))) as Hp. rewrite Hnil in Hp.
  apply Permutation_nil in Hp. destruct ls as [|l ls']; [contradiction|].
  inversion Hnn; subst. destruct l as [|x l']; [contradiction|]. discriminate.
Qed.

(* ------------------------------------------------------------------------------------------ *)
Check kg_round_sim.
Check kg_loop_refines.
Check retrieve_k_correct.
Check cp_round_sim.
Check cp_loop_refines.
Check cp_loop_correct.
Print Assumptions kg_loop_refines.
Print Assumptions retrieve_k_correct.
Print Assumptions cp_loop_refines.
Print Assumptions cp_loop_correct.
Print Assumptions Rel_new.
Print Assumptions live_new.
