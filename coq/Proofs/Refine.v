From Coq Require Import List NArith ZArith Bool Lia Permutation Sorting.Sorted Arith.
From Coq Require Import ZifyN ZifyBool.
From BE Require Import Model.Scan Proofs.ScanProof Model.Cursor Proofs.CursorProof.
Import ListNotations.
Local Open Scope N_scope.
Ltac Zify.zify_post_hook ::= Z.div_mod_to_equations.

(* ---- real entry ids vs abstract entries ---- *)
Definition wf_entry (e : N) : Prop := e mod 16 <= 1 /\ e < NULLENTRY.
Definition dec (e : N) : entry := (e / 16, e mod 16 =? 1).
Definition excl_entry (c : N) : N := c * 16.
Definition incl_entry (c : N) : N := c * 16 + 1.

Lemma key_dec e : wf_entry e -> key (dec e) = 2 * (e / 16) + e mod 16.
Proof. intros [H _]. unfold key, dec. cbn [fst snd]. destruct (N.eqb_spec (e mod 16) 1); lia. Qed.
Lemma dec_mono e1 e2 : wf_entry e1 -> wf_entry e2 -> (e1 < e2 <-> key (dec e1) < key (dec e2)).
Proof. intros H1 H2. rewrite !key_dec by auto. destruct H1 as [H1 _], H2 as [H2 _]. lia. Qed.
Lemma dec_le e1 e2 : wf_entry e1 -> wf_entry e2 -> (e1 <= e2 <-> key (dec e1) <= key (dec e2)).
Proof. intros H1 H2. rewrite !key_dec by auto. destruct H1 as [H1 _], H2 as [H2 _]. lia. Qed.
Lemma lt_excl e d : wf_entry e -> (e < excl_entry d <-> fst (dec e) < d).
Proof. intros [H _]. unfold excl_entry, dec. cbn [fst]. lia. Qed.
Lemma lt_incl_succ e c : wf_entry e -> (e < incl_entry c + 1 <-> fst (dec e) < N.succ c).
Proof. intros [H _]. unfold incl_entry, dec. cbn [fst]. lia. Qed.

(* ---- a member cursor and what remains of its list ---- *)

Lemma skipn_cons_ent l p : (p < length l)%nat -> skipn p l = ent l p :: skipn (S p) l.
Proof.
  revert p. induction l as [|a l IH]; intros p Hp; simpl in Hp; [lia|].
  destruct p; simpl; auto. unfold ent in *. simpl. apply IH. lia.
Qed.

Lemma drop_lt_skipn l id k : forall p, (p + k <= length l)%nat ->
  (forall i, (p <= i < p + k)%nat -> ent l i < id) ->
  ((p + k < length l)%nat -> id <= ent l (p + k)) ->
  drop_lt id (skipn p l) = skipn (p + k) l.
Proof.
  induction k as [|k IH]; intros p Hle Hlow Hhigh.
  - rewrite Nat.add_0_r in *. destruct (Nat.eq_dec p (length l)) as [->|Hne].
    + rewrite skipn_all. reflexivity.
    + rewrite skipn_cons_ent by lia. cbn [drop_lt]. destruct (N.ltb_spec (ent l p) id); auto.
      assert (id <= ent l p) by (apply Hhigh; lia). lia.
  - rewrite skipn_cons_ent by lia. cbn [drop_lt]. destruct (N.ltb_spec (ent l p) id) as [_|Hge].
    + replace (p + S k)%nat with (S p + k)%nat by lia. apply IH; try lia.
      * intros i Hi. apply Hlow. lia.
      * intros Hlt. replace (S p + k)%nat with (p + S k)%nat by lia. apply Hhigh. lia.
    + assert (ent l p < id) by (apply Hlow; lia). lia.
Qed.

(* SkipTo on a member = drop_lt on what remains *)
Lemma skip_to_remaining l c id : sortedN l -> id <= NULLENTRY -> WF l c ->
  exists c', skip_to l c id = Some c' /\ WF l c' /\ remaining l c' = drop_lt id (remaining l c).
Proof.
  intros Hs Hid Hwf. destruct (skip_to_spec l id Hs Hid c Hwf) as [c' [Hsk [Hwf' [Hpos [Hlow [Hge Hsame]]]]]].
  exists c'. split; auto. split; auto. unfold remaining.
  destruct Hwf' as [Hp' He']. 
  replace (c_pos c') with (c_pos c + (c_pos c' - c_pos c))%nat by lia.
  symmetry. apply drop_lt_skipn; try lia.
  - intros i Hi. apply Hlow. lia.
  - intros Hlt. replace (c_pos c + (c_pos c' - c_pos c))%nat with (c_pos c') by lia. rewrite <- He'. auto.
Qed.

Lemma drop_lt_filter id r : (forall i j, (i <= j < length r)%nat -> ent r i <= ent r j) ->
  drop_lt id r = filter (fun x => id <=? x) r.
Proof.
  induction r as [|x r IH]; intros Hs; simpl; auto.
  assert (Hs' : forall i j, (i <= j < length r)%nat -> ent r i <= ent r j).
  { intros i j Hij. apply (Hs (S i) (S j)). simpl. lia. }
  destruct (N.ltb_spec x id) as [Hlt|Hge].
  - destruct (N.leb_spec id x); try lia. auto.
  - destruct (N.leb_spec id x); try lia. f_equal. symmetry. apply filter_id.
    intros y Hy. apply N.leb_le. apply (In_nth _ _ NULLENTRY) in Hy. destruct Hy as [i [Hi Hy]].
    assert (ent (x :: r) 0 <= ent (x :: r) (S i)) by (apply Hs; simpl; lia).
    unfold ent in H0. simpl in H0. lia.
Qed.

Lemma ent_skipn l p i : ent (skipn p l) i = ent l (p + i).
Proof. unfold ent. revert p. induction l as [|a l IH]; intros p; destruct p; simpl; auto. destruct i; auto. Qed.

Lemma skipn_all_ge l p id : sortedN l -> (p < length l)%nat -> id <= ent l p ->
  forall x, In x (skipn p l) -> id <= x.
Proof.
  intros Hs Hp Hid x Hx. apply (In_nth _ _ NULLENTRY) in Hx. destruct Hx as [i [Hi Hx]].
  rewrite skipn_length in Hi. fold (ent (skipn p l) i) in Hx. rewrite ent_skipn in Hx.
  subst x. assert (ent l p <= ent l (p + i)) by (apply Hs; lia). lia.
Qed.

(* ---- field cursors ---- *)
Definition WFm (m : member) : Prop :=
  sortedN (fst m) /\ (forall x, In x (fst m) -> wf_entry x) /\ WF (fst m) (snd m).
Definition m_remaining (m : member) : list N := remaining (fst m) (snd m).
Definition fc_remaining (fc : fcur) : list N := concat (map m_remaining fc).


Definition R (fc : fcur) (s : stream) : Prop := sorted s /\ Permutation s (map dec (fc_remaining fc)).

Lemma remaining_sorted m : WFm m -> forall i j, (i <= j < length (m_remaining m))%nat ->
  ent (m_remaining m) i <= ent (m_remaining m) j.
Proof.
  intros [Hs [_ [Hp _]]] i j Hij. unfold m_remaining, remaining in *. rewrite !ent_skipn.
  rewrite skipn_length in Hij. apply Hs. lia.
Qed.

Lemma filter_concat {A} (f : A -> bool) ls : filter f (concat ls) = concat (map (filter f) ls).
Proof. induction ls as [|l ls IH]; simpl; auto. rewrite filter_app, IH. reflexivity. Qed.

Lemma fc_skip_remaining id fc : id <= NULLENTRY -> Forall WFm fc ->
  exists fc', fc_skip id fc = Some fc' /\ Forall WFm fc' /\
              fc_remaining fc' = filter (fun x => id <=? x) (fc_remaining fc).
Proof.
  intros Hid. induction 1 as [|[l c] rest Hm Hrest IH].
  - exists []. repeat split; auto.
  - destruct IH as [rest' [Hsk [Hwf' Hrem]]]. destruct Hm as [Hs [Hwfe Hwf]]. simpl in *.
    destruct (skip_to_remaining l c id Hs Hid Hwf) as [c' [Hc' [Hwfc' Hr']]].
    exists ((l, c') :: rest'). cbn [fc_skip]. rewrite Hc', Hsk. split; auto. split.
    + constructor; auto. split; [|split]; auto.
    + unfold fc_remaining in *. cbn [map concat]. rewrite filter_app, <- Hrem. f_equal.
      unfold m_remaining. cbn [fst snd]. rewrite Hr'. apply drop_lt_filter.
      apply (remaining_sorted (l, c)). split; [|split]; auto.
Qed.

Lemma fc_remaining_wf fc x : Forall WFm fc -> In x (fc_remaining fc) -> wf_entry x.
Proof.
  intros Hf Hx. unfold fc_remaining in Hx. apply in_concat in Hx. destruct Hx as [r [Hr Hx]].
  apply in_map_iff in Hr. destruct Hr as [m [<- Hm]]. rewrite Forall_forall in Hf.
  destruct (Hf _ Hm) as [_ [Hw _]]. apply Hw. unfold m_remaining, remaining in Hx.
  rewrite <- (firstn_skipn (c_pos (snd m)) (fst m)). apply in_or_app. auto.
Qed.

(* skipping every member to a conjunction-boundary target is drop_below on the abstract stream *)
Theorem R_skip fc s t b : t <= NULLENTRY -> Forall WFm fc -> R fc s ->
  (forall e, wf_entry e -> (e < t <-> fst (dec e) < b)) ->
  exists fc', fc_skip t fc = Some fc' /\ Forall WFm fc' /\ R fc' (drop_below b s).
Proof.
  intros Ht Hf [Hs Hp] Hb. destruct (fc_skip_remaining t fc Ht Hf) as [fc' [Hsk [Hf' Hrem]]].
  exists fc'. split; auto. split; auto. split. { apply drop_below_sorted; auto. }
  rewrite drop_below_filter by auto. rewrite (filter_perm _ _ _ Hp). rewrite Hrem.
  clear -Hb Hf. assert (Hw := fun x => fc_remaining_wf fc x Hf). clear Hf.
  induction (fc_remaining fc) as [|x r IH]; cbn [filter map]; auto.
  assert (Hx : wf_entry x) by (apply Hw; left; auto).
  assert (E : (b <=? fst (dec x)) = (t <=? x)).
  { specialize (Hb x Hx). destruct (N.leb_spec b (fst (dec x))), (N.leb_spec t x); auto; lia. }
  rewrite E. destruct (t <=? x); cbn [filter map]; rewrite IH; auto; intros y Hy; apply Hw; right; auto.
Qed.

(* ---- the current entry of a field cursor is the head of the abstract stream ---- *)
Definition okey (e : N) : option N := if e =? NULLENTRY then None else Some (key (dec e)).

Lemma m_remaining_head m : WFm m ->
  (m_remaining m = [] /\ c_eid (snd m) = NULLENTRY) \/
  (exists r, m_remaining m = c_eid (snd m) :: r /\ forall x, In x (m_remaining m) -> c_eid (snd m) <= x).
Proof.
  intros [Hs [Hw [Hp He]]]. unfold m_remaining, remaining.
  destruct (Nat.eq_dec (c_pos (snd m)) (length (fst m))) as [Heq|Hne].
  - left. rewrite Heq, skipn_all. split; auto. rewrite He, Heq. apply ent_oob. lia.
  - right. exists (skipn (S (c_pos (snd m))) (fst m)). rewrite skipn_cons_ent by lia. rewrite He. split; auto.
    intros x Hx. rewrite <- skipn_cons_ent in Hx by lia.
    eapply skipn_all_ge; eauto; lia.
Qed.

Lemma fc_cur_spec fc : Forall WFm fc ->
  (fc_remaining fc = [] /\ fc_cur fc = NULLENTRY) \/
  (In (fc_cur fc) (fc_remaining fc) /\ forall x, In x (fc_remaining fc) -> fc_cur fc <= x).
Proof.
  induction 1 as [|m rest Hm Hrest IH]; simpl. { left; auto. }
  unfold fc_remaining in *. cbn [map concat].
  destruct (m_remaining_head m Hm) as [[Hr He]|[r [Hr Hmin]]]; destruct IH as [[Hr' He']|[Hin' Hmin']].
  - left. rewrite Hr, Hr'. simpl. rewrite He, He'. split; auto.
  - right. rewrite Hr. simpl. rewrite He. 
    assert (fc_cur rest <= NULLENTRY).
    { assert (W := fc_remaining_wf rest (fc_cur rest) Hrest Hin'). destruct W. lia. }
    rewrite N.min_r by lia. split; auto.
  - right. rewrite Hr' , app_nil_r. rewrite He'.
    assert (c_eid (snd m) <= NULLENTRY).
    { assert (In (c_eid (snd m)) (fc_remaining (m :: rest))).
      { unfold fc_remaining. cbn [map concat]. rewrite Hr. left; auto. }
      assert (W := fc_remaining_wf (m :: rest) _ (Forall_cons _ Hm Hrest) H). destruct W. lia. }
    rewrite N.min_l by lia. split. rewrite Hr; left; auto. auto.
  - right. split.
    + destruct (N.min_spec (c_eid (snd m)) (fc_cur rest)) as [[_ ->]|[_ ->]]; apply in_or_app; [left|right]; auto.
      rewrite Hr; left; auto.
    + intros x Hx. apply in_app_or in Hx. destruct Hx as [Hx|Hx]; [apply Hmin in Hx|apply Hmin' in Hx]; lia.
Qed.

Theorem R_hkey fc s : Forall WFm fc -> R fc s -> hkey s = okey (fc_cur fc).
Proof.
  intros Hf [Hs Hp]. unfold hkey, okey. destruct (fc_cur_spec fc Hf) as [[Hr He]|[Hin Hmin]].
  - rewrite Hr in Hp. simpl in Hp. apply Permutation_sym, Permutation_nil in Hp. subst s. rewrite He, N.eqb_refl. reflexivity.
  - assert (Hw := fc_remaining_wf fc _ Hf Hin).
    destruct (N.eqb_spec (fc_cur fc) NULLENTRY) as [E|_]; [destruct Hw; lia|].
    assert (Hd : In (dec (fc_cur fc)) s).
    { apply (Permutation_in _ (Permutation_sym Hp)). apply in_map. auto. }
    destruct s as [|h s']; [inversion Hd|]. simpl. f_equal.
    assert (Hh : In h (map dec (fc_remaining fc))) by (apply (Permutation_in _ Hp); left; auto).
    apply in_map_iff in Hh. destruct Hh as [e [<- He]].
    assert (key (dec e) <= key (dec (fc_cur fc))).
    { eapply sorted_head_min; eauto. }
    assert (key (dec (fc_cur fc)) <= key (dec e)).
    { assert (Hwe : wf_entry e) by (eapply fc_remaining_wf; eauto).
      apply (proj1 (dec_le _ _ Hw Hwe)). apply Hmin; auto. }
    lia.
Qed.
Print Assumptions R_hkey.
