(* C13, general case: the slots of a cached record are visited in ANY order (Go map iteration in
   tryUseIndexingTxCache).  The builder state is then no longer literally the state of the builder without
   cache -- fields, holders and posting-list keys may have been created in another order -- but it is
   equal on everything retrieval can observe (`seq`), the outcomes are the same, and every query gets the
   same answer. *)
From Coq Require Import List NArith ZArith Bool Lia Permutation.
From BE Require Import Model.GoTypes Model.GoVal Model.Parsers Model.Scan Model.Cursor Model.Index Model.Cache Model.CacheBuild.
From BE Require Import Proofs.CacheProof Proofs.IdsProof Proofs.CacheBuildProof.
From BE Require Proofs.RoaringProof Proofs.IndexBuildInv.
From BE Require Gen.IdsGen.
Import ListNotations.
Local Open Scope Z_scope.

Lemma Neqb_spec a b : reflect (a = b) (N.eqb a b).
Proof. apply N.eqb_spec. Qed.
Notation tk_spec := IndexBuildInv.term_key_eqb_spec.

(* ------------------------------------------------------------------------------------------ *)
(* observational equality of builder states: association lists are compared as lookup functions *)

Definition heq (h h' : holder) : Prop :=
  match h, h' with
  | HDefault pls, HDefault pls' => forall key, alookup term_key_eqb key pls = alookup term_key_eqb key pls'
  | _, _ => h = h'
  end.
Definition oheq (o o' : option holder) : Prop :=
  match o, o' with Some h, Some h' => heq h h' | None, None => True | _, _ => False end.
Definition ceq (ec ec' : econtainer) : Prop :=
  heq (ec_default ec) (ec_default ec') /\
  forall f, oheq (alookup N.eqb f (ec_fields ec)) (alookup N.eqb f (ec_fields ec')).
Definition feq (fs fs' : list fdesc) : Prop := forall f, find_field f fs = find_field f fs'.

Record seq (a b : bstate) : Prop := {
  sq_kind : b_kind a = b_kind b;
  sq_policy : b_policy a = b_policy b;
  sq_thr : b_thr a = b_thr b;
  sq_parsers : b_parsers a = b_parsers b;
  sq_z : b_z a = b_z b;
  sq_fields : feq (b_fields a) (b_fields b);
  sq_conts : Forall2 ceq (b_conts a) (b_conts b)
}.

Lemma heq_refl h : heq h h.
Proof. destruct h; cbn; auto. Qed.
Lemma heq_sym h h' : heq h h' -> heq h' h.
Proof. destruct h, h'; cbn; intros H; try (symmetry; exact H); try discriminate H. intros key. symmetry. apply H. Qed.
Lemma heq_trans a b c : heq a b -> heq b c -> heq a c.
Proof.
  destruct a, b, c; cbn; intros H1 H2; try discriminate; try congruence.
Qed.
Lemma oheq_refl o : oheq o o.
Proof. destruct o; cbn; auto using heq_refl. Qed.
Lemma oheq_sym o o' : oheq o o' -> oheq o' o.
Proof. destruct o, o'; cbn; auto using heq_sym. Qed.
Lemma oheq_trans a b c : oheq a b -> oheq b c -> oheq a c.
Proof. destruct a, b, c; cbn; try tauto. apply heq_trans. Qed.
Lemma ceq_refl ec : ceq ec ec.
Proof. split; [apply heq_refl | intros f; apply oheq_refl]. Qed.
Lemma ceq_sym a b : ceq a b -> ceq b a.
Proof. intros [H1 H2]. split; [apply heq_sym; exact H1 | intros f; apply oheq_sym; apply H2]. Qed.
Lemma ceq_trans a b c : ceq a b -> ceq b c -> ceq a c.
Proof. intros [A1 A2] [B1 B2]. split; [eapply heq_trans; eauto | intros f; eapply oheq_trans; eauto]. Qed.

Lemma Forall2_refl {A} (R : A -> A -> Prop) : (forall x, R x x) -> forall l, Forall2 R l l.
Proof. intros H. induction l; constructor; auto. Qed.
Lemma Forall2_sym {A} (R : A -> A -> Prop) : (forall x y, R x y -> R y x) -> forall l l', Forall2 R l l' -> Forall2 R l' l.
Proof. intros H l l' F. induction F; constructor; auto. Qed.
Lemma Forall2_trans {A} (R : A -> A -> Prop) : (forall x y z, R x y -> R y z -> R x z) ->
  forall l1 l2, Forall2 R l1 l2 -> forall l3, Forall2 R l2 l3 -> Forall2 R l1 l3.
Proof.
  intros H l1 l2 F. induction F; intros l3 G; inversion G; subst; constructor; eauto.
Qed.

Lemma seq_refl a : seq a a.
Proof. constructor; auto. - intros f; reflexivity. - apply Forall2_refl, ceq_refl. Qed.
Lemma seq_sym a b : seq a b -> seq b a.
Proof.
  intros [A1 A2 A3 A4 A5 A6 A7]. constructor; auto.
  - intros f. symmetry. apply A6.
  - apply Forall2_sym; [apply ceq_sym | exact A7].
Qed.
Lemma seq_trans a b c : seq a b -> seq b c -> seq a c.
Proof.
  intros [A1 A2 A3 A4 A5 A6 A7] [B1 B2 B3 B4 B5 B6 B7].
  constructor; [congruence|congruence|congruence|congruence|congruence| |].
  - intros f. rewrite A6. apply B6.
  - eapply Forall2_trans; [apply ceq_trans | exact A7 | exact B7].
Qed.

Lemma seq_cfg a b : seq a b -> cfg_eq a b.
Proof.
  intros S. constructor; try (symmetry; apply S). intros f. unfold desc_for.
  rewrite <- (sq_fields _ _ S f), <- (sq_parsers _ _ S). reflexivity.
Qed.
Lemma seq_desc a b f : seq a b -> desc_for a f = desc_for b f.
Proof. intros S. symmetry. apply (ce_desc _ _ (seq_cfg _ _ S)). Qed.
Lemma seq_cont_index a b k : seq a b -> cont_index a k = cont_index b k.
Proof. intros S. unfold cont_index. rewrite (sq_kind _ _ S). reflexivity. Qed.

(* ------------------------------------------------------------------------------------------ *)
(* list surgery *)

Lemma Forall2_update_nth {A} (R : A -> A -> Prop) (g g' : A -> A) :
  (forall x y, R x y -> R (g x) (g' y)) ->
  forall n l l', Forall2 R l l' -> Forall2 R (update_nth n g l) (update_nth n g' l').
Proof.
  intros H. induction n as [|n IH]; intros l l' F; inversion F; subst; cbn [update_nth]; constructor; auto.
Qed.
Lemma Forall2_grow {A} (R : A -> A -> Prop) d : R d d ->
  forall n l l', Forall2 R l l' -> Forall2 R (grow n d l) (grow n d l').
Proof.
  intros Hd. induction n as [|n IH]; intros l l' F; inversion F; subst; cbn [grow]; repeat constructor; auto.
Qed.
Lemma Forall2_nth {A} (R : A -> A -> Prop) d : R d d ->
  forall l l', Forall2 R l l' -> forall n, R (nth n l d) (nth n l' d).
Proof.
  intros Hd l l' F. induction F; intros [|n]; cbn [nth]; auto.
Qed.
Lemma update_nth_twice {A} (g h : A -> A) : forall n l, update_nth n g (update_nth n h l) = update_nth n (fun x => g (h x)) l.
Proof. induction n as [|n IH]; intros [|x l]; cbn [update_nth]; try reflexivity. rewrite IH. reflexivity. Qed.

Lemma alookup_app1 {V} f g (h : V) l :
  alookup N.eqb f (l ++ [(g, h)]) = match alookup N.eqb f l with Some x => Some x | None => if N.eqb f g then Some h else None end.
Proof.
  induction l as [|[k v] l IH]; cbn [app alookup]; [reflexivity|]. destruct (N.eqb f k); [reflexivity | exact IH].
Qed.

(* ------------------------------------------------------------------------------------------ *)
(* the builder's steps respect observational equality *)

Lemma find_field_app1 f fs d :
  find_field f (fs ++ [d]) = match find_field f fs with Some x => Some x | None => if N.eqb (fd_name d) f then Some d else None end.
Proof. apply find_field_app. Qed.

Lemma ensure_field_find st f x :
  find_field x (b_fields (fst (ensure_field st f))) =
  match find_field x (b_fields st) with Some d => Some d | None => if N.eqb f x then Some (desc_for st f) else None end.
Proof.
  unfold ensure_field, desc_for. destruct (find_field f (b_fields st)) as [d|] eqn:E; cbn [fst].
  - destruct (find_field x (b_fields st)) eqn:G; [reflexivity|]. destruct (N.eqb_spec f x); [congruence | reflexivity].
  - unfold with_fields. cbn [b_fields]. rewrite find_field_app1. cbn [fd_name]. reflexivity.
Qed.

Lemma ensure_field_seq a b f : seq a b ->
  seq (fst (ensure_field a f)) (fst (ensure_field b f)) /\ snd (ensure_field a f) = snd (ensure_field b f).
Proof.
  intros S. destruct (ensure_field_desc a f) as (A1 & A2 & A3 & A4). destruct (ensure_field_desc b f) as (B1 & B2 & B3 & B4).
  split; [|rewrite A1, B1; apply seq_desc; exact S].
  constructor.
  - rewrite (ce_kind _ _ A2), (ce_kind _ _ B2). apply S.
  - rewrite (ce_policy _ _ A2), (ce_policy _ _ B2). apply S.
  - rewrite (ce_thr _ _ A2), (ce_thr _ _ B2). apply S.
  - unfold ensure_field. destruct (find_field f (b_fields a)), (find_field f (b_fields b)); cbn [fst with_fields b_parsers]; apply S.
  - rewrite A4, B4. apply S.
  - intros x. rewrite !ensure_field_find. rewrite (sq_fields _ _ S x), (seq_desc _ _ f S). reflexivity.
  - rewrite A3, B3. apply S.
Qed.

Lemma get_holder_ceq ec ec' fd : ceq ec ec' -> oheq (get_holder ec fd) (get_holder ec' fd).
Proof. intros [H1 H2]. unfold get_holder. destruct (fd_cont fd); [exact H1 | apply H2 | apply H2]. Qed.

Lemma create_holder_ceq ec ec' fd : ceq ec ec' -> ceq (create_holder ec fd) (create_holder ec' fd).
Proof.
  intros C. pose proof (get_holder_ceq ec ec' fd C) as G. unfold create_holder.
  destruct (get_holder ec fd) eqn:E1, (get_holder ec' fd) eqn:E2; cbn in G; try contradiction; [exact C|].
  destruct C as [C1 C2]. split; [exact C1|]. intros f. cbn [ec_fields]. rewrite !alookup_app1.
  specialize (C2 f). destruct (alookup N.eqb f (ec_fields ec)), (alookup N.eqb f (ec_fields ec')); cbn in C2 |- *; try contradiction; auto.
  destruct (N.eqb f (fd_name fd)); cbn; auto using heq_refl.
Qed.

Lemma with_conts_seq a b cs cs' : seq a b -> Forall2 ceq cs cs' -> seq (with_conts a cs) (with_conts b cs').
Proof. intros S F. constructor; cbn; try apply S. exact F. Qed.

Lemma touch_seq a b ks f : seq a b -> seq (fst (touch a ks f)) (fst (touch b ks f)).
Proof.
  intros S. unfold touch. destruct (ensure_field_seq a b f S) as [S1 E].
  destruct (ensure_field a f) as [a1 fd], (ensure_field b f) as [b1 fd']. cbn [fst snd] in *. subst fd'.
  apply with_conts_seq; [exact S1|]. rewrite (seq_cont_index _ _ ks S1).
  apply Forall2_update_nth; [intros; apply create_holder_ceq; assumption | apply S1].
Qed.

Lemma ensure_cont_seq a b k : seq a b -> seq (ensure_cont a k) (ensure_cont b k).
Proof.
  intros S. unfold ensure_cont. apply with_conts_seq; [exact S|]. rewrite (seq_cont_index _ _ k S).
  apply Forall2_grow; [apply ceq_refl | apply S].
Qed.

Lemma with_z_seq a b z : seq a b -> seq (with_z a z) (with_z b z).
Proof. intros S. constructor; cbn; try apply S. reflexivity. Qed.

(* commit *)
Lemma fold_aupdate_leq {K V X} (eqb : K -> K -> bool) (eqb_spec : forall a b, reflect (a = b) (eqb a b))
  (g : X -> K) (F : option V -> V) : forall xs (m m' : list (K * V)),
  (forall k, alookup eqb k m = alookup eqb k m') ->
  forall k, alookup eqb k (fold_left (fun acc x => aupdate eqb (g x) F acc) xs m) =
            alookup eqb k (fold_left (fun acc x => aupdate eqb (g x) F acc) xs m').
Proof.
  induction xs as [|x xs IH]; intros m m' H; cbn [fold_left]; [exact H|].
  apply IH. intros k. rewrite !(RoaringProof.alookup_aupdate eqb eqb_spec). rewrite (H (g x)), (H k). reflexivity.
Qed.

Lemma commit_tx_heq fid eid d h h' : heq h h' -> heq (commit_tx fid eid d h) (commit_tx fid eid d h').
Proof.
  intros H. destruct h as [pls|vals|kv pcs].
  - destruct h' as [pls'| |]; try discriminate H. destruct d; cbn [commit_tx]; try exact H.
    cbn [heq] in *. apply (fold_aupdate_leq term_key_eqb tk_spec (fun id => (fid, id))). exact H.
  - cbn in H. subst h'. apply heq_refl.
  - cbn in H. subst h'. apply heq_refl.
Qed.

Lemma set_holder_ceq ec ec' fd h h' : ceq ec ec' -> heq h h' -> ceq (set_holder ec fd h) (set_holder ec' fd h').
Proof.
  intros [C1 C2] H. unfold set_holder.
  assert (forall f, oheq (alookup N.eqb f (aupdate N.eqb (fd_name fd) (fun _ => h) (ec_fields ec)))
                        (alookup N.eqb f (aupdate N.eqb (fd_name fd) (fun _ => h') (ec_fields ec')))) as U.
  { intros f. rewrite !(RoaringProof.alookup_aupdate N.eqb Neqb_spec). destruct (N.eqb f (fd_name fd)); [exact H | apply C2]. }
  destruct (fd_cont fd); split; cbn [ec_default ec_fields]; auto.
Qed.

Definition commit_ec (t : tx) (ec : econtainer) : econtainer :=
  match get_holder ec (tx_field t) with
  | Some h => set_holder ec (tx_field t) (commit_tx (fd_name (tx_field t)) (tx_eid t) (tx_data t) h)
  | None => ec
  end.
Lemma commit_one_ec k st t : commit_one k st t = with_conts st (update_nth (cont_index st k) (commit_ec t) (b_conts st)).
Proof. reflexivity. Qed.

Lemma commit_ec_ceq t ec ec' : ceq ec ec' -> ceq (commit_ec t ec) (commit_ec t ec').
Proof.
  intros C. pose proof (get_holder_ceq ec ec' (tx_field t) C) as G. unfold commit_ec.
  destruct (get_holder ec (tx_field t)), (get_holder ec' (tx_field t)); cbn in G; try contradiction; [|exact C].
  apply set_holder_ceq; [exact C | apply commit_tx_heq; exact G].
Qed.

Lemma commit_one_seq a b k t : seq a b -> seq (commit_one k a t) (commit_one k b t).
Proof.
  intros S. rewrite !commit_one_ec. apply with_conts_seq; [exact S|]. rewrite (seq_cont_index _ _ k S).
  apply Forall2_update_nth; [intros; apply commit_ec_ceq; assumption | apply S].
Qed.
Lemma commit_all_seq k txs : forall a b, seq a b -> seq (fold_left (commit_one k) txs a) (fold_left (commit_one k) txs b).
Proof. induction txs as [|t txs IH]; intros a b S; cbn [fold_left]; [exact S|]. apply IH, commit_one_seq, S. Qed.

(* parsing *)
Lemma index_exprs_step st k cid f e es acc :
  index_exprs st k cid f (e :: es) acc =
  let st2 := fst (touch st k f) in let fd := snd (touch st k f) in
  match indexing_tx (b_thr st2) fd e with
  | POk d => index_exprs st2 k cid f es (acc ++ [{| tx_field := fd; tx_eid := IdsGen.NewEntryID cid (e_incl e); tx_data := d |}])
  | PErr => (st2, PErr) | PPanic => (st2, PPanic) | PDiverge => (st2, PDiverge) | PUnmodelled => (st2, PUnmodelled)
  end.
Proof. cbn [index_exprs]. unfold touch. destruct (ensure_field st f) as [st1 fd]. reflexivity. Qed.

Lemma touch_snd_seq a b ks f : seq a b -> snd (touch a ks f) = snd (touch b ks f).
Proof.
  intros S. destruct (touch_spec a ks f) as (A & _). destruct (touch_spec b ks f) as (B & _).
  rewrite A, B. apply seq_desc, S.
Qed.

Lemma index_exprs_seq : forall es a b k cid f acc, seq a b ->
  seq (fst (index_exprs a k cid f es acc)) (fst (index_exprs b k cid f es acc)) /\
  snd (index_exprs a k cid f es acc) = snd (index_exprs b k cid f es acc).
Proof.
  induction es as [|e es IH]; intros a b k cid f acc S.
  - cbn [index_exprs fst snd]. auto.
  - rewrite !index_exprs_step. cbv zeta.
    pose proof (touch_seq a b k f S) as S2. rewrite (touch_snd_seq a b k f S), (sq_thr _ _ S2).
    destruct (indexing_tx (b_thr (fst (touch b k f))) (snd (touch b k f)) e); cbn [fst snd]; auto.
Qed.

Lemma index_conj_seq : forall c a b k cid acc, seq a b ->
  seq (fst (index_conj a k cid c acc)) (fst (index_conj b k cid c acc)) /\
  snd (index_conj a k cid c acc) = snd (index_conj b k cid c acc).
Proof.
  induction c as [|[f es] c IH]; intros a b k cid acc S; cbn [index_conj].
  - cbn [fst snd]. auto.
  - destruct (index_exprs_seq es a b k cid f acc S) as [S1 E1].
    destruct (index_exprs a k cid f es acc) as [a1 r1], (index_exprs b k cid f es acc) as [b1 r2]. cbn [fst snd] in *. subst r2.
    destruct r1; cbn [fst snd]; auto.
Qed.

Lemma add_conj_seq wf d a b ic : seq a b ->
  seq (fst (add_conj wf d a ic)) (fst (add_conj wf d b ic)) /\ snd (add_conj wf d a ic) = snd (add_conj wf d b ic).
Proof.
  intros S. destruct ic as [i c]. unfold add_conj.
  destruct (IdsGen.NewConjID d i (calc_size c)) as [cid|]; [|cbn [fst snd]; auto].
  set (a0 := if wf && (calc_size c =? 0) then _ else a). set (b0 := if wf && (calc_size c =? 0) then _ else b).
  assert (S0 : seq a0 b0).
  { unfold a0, b0. destruct (wf && _); [|exact S]. rewrite (sq_z _ _ S). apply with_z_seq, S. }
  destruct (index_conj_seq c _ _ (calc_size c) cid [] (ensure_cont_seq a0 b0 (calc_size c) S0)) as [S2 E2].
  destruct (index_conj (ensure_cont a0 (calc_size c)) (calc_size c) cid c []) as [a2 r],
           (index_conj (ensure_cont b0 (calc_size c)) (calc_size c) cid c []) as [b2 r']. cbn [fst snd] in *. subst r'.
  rewrite (sq_policy _ _ S).
  destruct r; cbn [fst snd]; auto. split; [|reflexivity].
  apply commit_all_seq. destruct (negb wf && _); [|exact S2]. rewrite (sq_z _ _ S2). apply with_z_seq, S2.
Qed.

Lemma add_conjs_seq wf d : forall ics a b, seq a b ->
  seq (fst (add_conjs wf d a ics)) (fst (add_conjs wf d b ics)) /\ snd (add_conjs wf d a ics) = snd (add_conjs wf d b ics).
Proof.
  induction ics as [|ic ics IH]; intros a b S; cbn [add_conjs]; [cbn; auto|].
  destruct (add_conj_seq wf d a b ic S) as [S1 E1].
  destruct (add_conj wf d a ic) as [a1 o1], (add_conj wf d b ic) as [b1 o2]. cbn [fst snd] in *. subst o2.
  destruct o1; cbn [fst snd]; auto.
Qed.

Lemma add_document_seq wf a b doc : seq a b ->
  seq (fst (add_document wf a doc)) (fst (add_document wf b doc)) /\ snd (add_document wf a doc) = snd (add_document wf b doc).
Proof.
  intros S. unfold add_document. destruct (d_conjs doc); [cbn; auto|]. destruct (255 <? _); [cbn; auto|].
  apply add_conjs_seq, S.
Qed.

(* ------------------------------------------------------------------------------------------ *)
(* createFieldData/CreateHolder for different fields commute *)

Lemma Forall2_update_nth_pt {A} (R : A -> A -> Prop) (g g' : A -> A) :
  (forall x, R x x) -> (forall x, R (g x) (g' x)) -> forall n l, Forall2 R (update_nth n g l) (update_nth n g' l).
Proof.
  intros Hr H. induction n as [|n IH]; intros [|x l]; cbn [update_nth]; constructor; auto. apply Forall2_refl, Hr.
Qed.

Definition nd (c : cont_kind) : bool := match c with CDefault => false | _ => true end.

Lemma create_holder_default_eq ec fd : ec_default (create_holder ec fd) = ec_default ec.
Proof. unfold create_holder. destruct (get_holder ec fd); reflexivity. Qed.

Lemma create_holder_lookup ec fd x :
  alookup N.eqb x (ec_fields (create_holder ec fd)) =
  match alookup N.eqb x (ec_fields ec) with
  | Some h => Some h
  | None => if nd (fd_cont fd) && N.eqb x (fd_name fd) then Some (new_holder (fd_cont fd)) else None
  end.
Proof.
  unfold create_holder, get_holder.
  destruct (fd_cont fd) eqn:EC; cbn [nd andb].
  - destruct (alookup N.eqb x (ec_fields ec)); reflexivity.
  - destruct (alookup N.eqb (fd_name fd) (ec_fields ec)) eqn:E; cbn [ec_fields].
    + destruct (alookup N.eqb x (ec_fields ec)) eqn:G; [reflexivity|]. destruct (N.eqb_spec x (fd_name fd)); [congruence | reflexivity].
    + apply alookup_app1.
  - destruct (alookup N.eqb (fd_name fd) (ec_fields ec)) eqn:E; cbn [ec_fields].
    + destruct (alookup N.eqb x (ec_fields ec)) eqn:G; [reflexivity|]. destruct (N.eqb_spec x (fd_name fd)); [congruence | reflexivity].
    + apply alookup_app1.
Qed.

Lemma create_holder_swap ec fd1 fd2 : (fd_name fd1 = fd_name fd2 -> fd1 = fd2) ->
  ceq (create_holder (create_holder ec fd1) fd2) (create_holder (create_holder ec fd2) fd1).
Proof.
  intros H. split; [rewrite !create_holder_default_eq; apply heq_refl|].
  intros x. rewrite !create_holder_lookup.
  destruct (alookup N.eqb x (ec_fields ec)); [apply oheq_refl|].
  destruct (nd (fd_cont fd1) && N.eqb x (fd_name fd1)) eqn:C1, (nd (fd_cont fd2) && N.eqb x (fd_name fd2)) eqn:C2; try apply oheq_refl.
  apply andb_true_iff in C1, C2. destruct C1 as [_ C1], C2 as [_ C2]. apply N.eqb_eq in C1, C2.
  rewrite (H (eq_trans (eq_sym C1) C2)). apply oheq_refl.
Qed.

Lemma touch_parsers a ks f : b_parsers (fst (touch a ks f)) = b_parsers a.
Proof. unfold touch, ensure_field. destruct (find_field f (b_fields a)); reflexivity. Qed.
Lemma touch_fields a ks f : b_fields (fst (touch a ks f)) = b_fields (fst (ensure_field a f)).
Proof. unfold touch. destruct (ensure_field a f); reflexivity. Qed.
Lemma touch_conts a ks f :
  b_conts (fst (touch a ks f)) = update_nth (cont_index a ks) (fun ec => create_holder ec (desc_for a f)) (b_conts a).
Proof.
  unfold touch. destruct (ensure_field_desc a f) as (A1 & A2 & A3 & A4).
  destruct (ensure_field a f) as [a1 fd]. cbn [fst snd] in *. subst fd. rewrite A3.
  unfold cont_index. rewrite (ce_kind _ _ A2). reflexivity.
Qed.
Lemma touch_find a ks f x :
  find_field x (b_fields (fst (touch a ks f))) =
  match find_field x (b_fields a) with Some d => Some d | None => if N.eqb f x then Some (desc_for a f) else None end.
Proof. rewrite touch_fields. apply ensure_field_find. Qed.

Lemma touch_swap a ks f g : seq (fst (touch (fst (touch a ks f)) ks g)) (fst (touch (fst (touch a ks g)) ks f)).
Proof.
  destruct (touch_spec a ks f) as (_ & F2 & F3). destruct (touch_spec a ks g) as (_ & G2 & G3).
  destruct (touch_spec (fst (touch a ks f)) ks g) as (_ & FG2 & FG3). destruct (touch_spec (fst (touch a ks g)) ks f) as (_ & GF2 & GF3).
  constructor.
  - rewrite (ce_kind _ _ FG2), (ce_kind _ _ GF2), (ce_kind _ _ F2), (ce_kind _ _ G2). reflexivity.
  - rewrite (ce_policy _ _ FG2), (ce_policy _ _ GF2), (ce_policy _ _ F2), (ce_policy _ _ G2). reflexivity.
  - rewrite (ce_thr _ _ FG2), (ce_thr _ _ GF2), (ce_thr _ _ F2), (ce_thr _ _ G2). reflexivity.
  - rewrite !touch_parsers. reflexivity.
  - congruence.
  - intros x. rewrite !touch_find. rewrite (ce_desc _ _ F2), (ce_desc _ _ G2).
    destruct (find_field x (b_fields a)); [reflexivity|].
    destruct (N.eqb_spec f x), (N.eqb_spec g x); try reflexivity. congruence.
  - rewrite !touch_conts. rewrite (ce_desc _ _ F2), (ce_desc _ _ G2).
    unfold cont_index. rewrite (ce_kind _ _ F2), (ce_kind _ _ G2). rewrite !update_nth_twice.
    apply Forall2_update_nth_pt; [apply ceq_refl|]. intros ec. apply create_holder_swap.
    rewrite !desc_for_name. intros ->. reflexivity.
Qed.

Lemma touches_seq ks fs : forall a b, seq a b -> seq (touches ks fs a) (touches ks fs b).
Proof. induction fs as [|f fs IH]; intros a b S; cbn [touches fold_left]; [exact S|]. apply IH, touch_seq, S. Qed.

Lemma touches_perm ks fs fs' : Permutation fs fs' -> forall a, seq (touches ks fs a) (touches ks fs' a).
Proof.
  induction 1; intros a.
  - apply seq_refl.
  - cbn [touches fold_left]. apply IHPermutation.
  - cbn [touches fold_left]. apply (touches_seq ks l). apply touch_swap.
  - eapply seq_trans; eauto.
Qed.

(* ------------------------------------------------------------------------------------------ *)
(* commits on different fields commute *)

Section CommFolds.
  Context {M X Y : Type} (R : M -> M -> Prop) (A : M -> X -> M) (B : M -> Y -> M).
  Hypothesis R_refl : forall m, R m m.
  Hypothesis R_trans : forall a b c, R a b -> R b c -> R a c.
  Hypothesis A_cong : forall x m m', R m m' -> R (A m x) (A m' x).
  Hypothesis B_cong : forall y m m', R m m' -> R (B m y) (B m' y).
  Hypothesis AB : forall x y m, R (A (B m y) x) (B (A m x) y).

  Lemma foldA_cong xs : forall m m', R m m' -> R (fold_left A xs m) (fold_left A xs m').
  Proof. induction xs; intros; cbn [fold_left]; auto. Qed.
  Lemma foldB_cong ys : forall m m', R m m' -> R (fold_left B ys m) (fold_left B ys m').
  Proof. induction ys; intros; cbn [fold_left]; auto. Qed.
  Lemma A_foldB x ys : forall m, R (A (fold_left B ys m) x) (fold_left B ys (A m x)).
  Proof.
    induction ys as [|y ys IH]; intros m; cbn [fold_left]; [apply R_refl|].
    eapply R_trans; [apply IH|]. apply foldB_cong. apply AB.
  Qed.
  Lemma folds_commute xs : forall ys m, R (fold_left A xs (fold_left B ys m)) (fold_left B ys (fold_left A xs m)).
  Proof.
    induction xs as [|x xs IH]; intros ys m; cbn [fold_left]; [apply R_refl|].
    eapply R_trans; [apply foldA_cong, A_foldB|]. apply IH.
  Qed.
End CommFolds.

Definition leq (m m' : list (term_key * list N)) : Prop := forall k, alookup term_key_eqb k m = alookup term_key_eqb k m'.

Lemma aupdate_leq k F m m' : leq m m' -> leq (aupdate term_key_eqb k F m) (aupdate term_key_eqb k F m').
Proof. intros H x. rewrite !(RoaringProof.alookup_aupdate term_key_eqb tk_spec). rewrite (H k), (H x). reflexivity. Qed.
Lemma aupdate_swap k1 k2 F1 F2 m : k1 <> k2 ->
  leq (aupdate term_key_eqb k1 F1 (aupdate term_key_eqb k2 F2 m)) (aupdate term_key_eqb k2 F2 (aupdate term_key_eqb k1 F1 m)).
Proof.
  intros Hne x. rewrite !(RoaringProof.alookup_aupdate term_key_eqb tk_spec).
  destruct (tk_spec k1 k2); [contradiction|]. destruct (tk_spec k2 k1); [congruence|].
  destruct (tk_spec x k1), (tk_spec x k2); try reflexivity. congruence.
Qed.

Lemma commit_tx_ids_swap f1 e1 ids1 f2 e2 ids2 h : f1 <> f2 ->
  heq (commit_tx f2 e2 (TxIds ids2) (commit_tx f1 e1 (TxIds ids1) h))
      (commit_tx f1 e1 (TxIds ids1) (commit_tx f2 e2 (TxIds ids2) h)).
Proof.
  intros Hne. destruct h as [pls| |]; cbn [commit_tx]; try apply heq_refl. cbn [heq].
  apply (folds_commute leq
           (fun acc id => aupdate term_key_eqb (f2, id) (append_entry e2) acc)
           (fun acc id => aupdate term_key_eqb (f1, id) (append_entry e1) acc)).
  - intros m k. reflexivity.
  - intros a b c H1 H2 k. rewrite H1. apply H2.
  - intros x m m' H. apply aupdate_leq, H.
  - intros x m m' H. apply aupdate_leq, H.
  - intros x y m. apply aupdate_swap. congruence.
Qed.

Definition kind_ok (t : tx) : Prop := tx_of_kind (fd_cont (tx_field t)) (tx_data t).

Lemma commit_ec_default t ec :
  ec_default (commit_ec t ec) =
  if nd (fd_cont (tx_field t)) then ec_default ec
  else commit_tx (tx_name t) (tx_eid t) (tx_data t) (ec_default ec).
Proof.
  unfold commit_ec, get_holder, set_holder, tx_name. destruct (fd_cont (tx_field t)); cbn [nd]; try reflexivity;
    destruct (alookup N.eqb (fd_name (tx_field t)) (ec_fields ec)); reflexivity.
Qed.
Lemma commit_ec_lookup t ec x :
  alookup N.eqb x (ec_fields (commit_ec t ec)) =
  if nd (fd_cont (tx_field t)) && N.eqb x (tx_name t)
  then option_map (commit_tx (tx_name t) (tx_eid t) (tx_data t)) (alookup N.eqb x (ec_fields ec))
  else alookup N.eqb x (ec_fields ec).
Proof.
  unfold commit_ec, get_holder, set_holder, tx_name. destruct (fd_cont (tx_field t)); cbn [nd andb]; try reflexivity.
  - destruct (alookup N.eqb (fd_name (tx_field t)) (ec_fields ec)) eqn:E; cbn [ec_fields].
    + rewrite (RoaringProof.alookup_aupdate N.eqb Neqb_spec). destruct (N.eqb_spec x (fd_name (tx_field t))); [subst; rewrite E|]; reflexivity.
    + destruct (N.eqb_spec x (fd_name (tx_field t))); [subst; rewrite E|]; reflexivity.
  - destruct (alookup N.eqb (fd_name (tx_field t)) (ec_fields ec)) eqn:E; cbn [ec_fields].
    + rewrite (RoaringProof.alookup_aupdate N.eqb Neqb_spec). destruct (N.eqb_spec x (fd_name (tx_field t))); [subst; rewrite E|]; reflexivity.
    + destruct (N.eqb_spec x (fd_name (tx_field t))); [subst; rewrite E|]; reflexivity.
Qed.

Lemma commit_ec_swap t u ec : tx_name t <> tx_name u -> kind_ok t -> kind_ok u ->
  ceq (commit_ec u (commit_ec t ec)) (commit_ec t (commit_ec u ec)).
Proof.
  intros Hne Kt Ku. split.
  - rewrite !commit_ec_default. unfold kind_ok in Kt, Ku.
    destruct (fd_cont (tx_field t)), (fd_cont (tx_field u)); cbn [nd]; try apply heq_refl.
    destruct (tx_data t), (tx_data u); cbn in Kt, Ku; try contradiction.
    apply commit_tx_ids_swap. exact Hne.
  - intros x. rewrite !commit_ec_lookup.
    destruct (nd (fd_cont (tx_field t)) && N.eqb x (tx_name t)) eqn:C1, (nd (fd_cont (tx_field u)) && N.eqb x (tx_name u)) eqn:C2;
      try apply oheq_refl.
    apply andb_true_iff in C1, C2. destruct C1 as [_ C1], C2 as [_ C2]. apply N.eqb_eq in C1, C2. congruence.
Qed.

Lemma commit_one_swap k s t u : tx_name t <> tx_name u -> kind_ok t -> kind_ok u ->
  seq (commit_one k (commit_one k s t) u) (commit_one k (commit_one k s u) t).
Proof.
  intros Hne Kt Ku. rewrite !commit_one_ec.
  constructor; cbn [with_conts b_kind b_policy b_thr b_parsers b_z b_fields b_conts]; try reflexivity.
  - intros f; reflexivity.
  - change (cont_index (with_conts s (update_nth (cont_index s k) (commit_ec t) (b_conts s))) k) with (cont_index s k).
    change (cont_index (with_conts s (update_nth (cont_index s k) (commit_ec u) (b_conts s))) k) with (cont_index s k).
    rewrite !update_nth_twice. apply Forall2_update_nth_pt; [apply ceq_refl|].
    intros ec. apply commit_ec_swap; assumption.
Qed.

Lemma commits_perm k txs txs' : Permutation txs txs' -> NoDup (map tx_name txs) -> Forall kind_ok txs ->
  forall s, seq (fold_left (commit_one k) txs s) (fold_left (commit_one k) txs' s).
Proof.
  induction 1; intros ND K s.
  - apply seq_refl.
  - cbn [fold_left]. cbn [map] in ND. inversion ND; inversion K; subst. apply IHPermutation; assumption.
  - cbn [fold_left]. apply commit_all_seq. cbn [map] in ND. inversion ND as [|? ? N1 N2]; inversion K as [|? ? K1 K2]; subst.
    inversion K2; subst. apply commit_one_swap; auto. intros E. apply N1. left. symmetry. exact E.
  - eapply seq_trans; [apply IHPermutation1; assumption|]. apply IHPermutation2.
    + eapply Permutation_NoDup; [apply Permutation_map; eassumption | exact ND].
    + eapply Permutation_Forall; eassumption.
Qed.

Lemma has_dup_field_NoDup txs : has_dup_field txs = false -> NoDup (map tx_name txs).
Proof.
  induction txs as [|t txs IH]; cbn [has_dup_field map]; [constructor|].
  intros H. apply orb_false_iff in H. destruct H as [H1 H2]. constructor; [|apply IH, H2].
  intros Hin. apply in_map_iff in Hin. destruct Hin as (u & Hu1 & Hu2).
  assert (existsb (fun u => N.eqb (fd_name (tx_field u)) (fd_name (tx_field t))) txs = true); [|congruence].
  apply existsb_exists. exists u. split; [exact Hu2|]. apply N.eqb_eq. exact Hu1.
Qed.

(* ------------------------------------------------------------------------------------------ *)
(* the hit path with the slots visited in any order *)

Definition perm_oracle (o : oracle) : Prop := forall n r, Permutation (o_shuffle (o n) r) r.

Lemma record_of_nodup cthr txs r : record_of cthr txs = Some r -> has_dup_field txs = false.
Proof. unfold record_of. destruct (negb _); [discriminate|]. destruct (has_dup_field txs); [discriminate | reflexivity]. Qed.

Lemma try_use_cache_perm o n st p ds cid c : perm_oracle o ->
  NoDup (map d_id ds) -> pstore_ok st ds p -> conj_at ds cid c ->
  exists st1 res, try_use_cache o n st p cid = (st1, evict (o_evict (o n)) p, S n, res) /\
    ((res = None /\ st1 = st) \/
     (exists txs txs', res = Some txs' /\ Permutation txs txs' /\ NoDup (map tx_name txs) /\ Forall kind_ok txs /\
        index_conj (ensure_cont st (IdsGen.ConjID_Size cid)) (IdsGen.ConjID_Size cid) cid c [] =
          (touches (IdsGen.ConjID_Size cid) (map tx_name txs) (ensure_cont st (IdsGen.ConjID_Size cid)), POk txs) /\
        st1 = touches (IdsGen.ConjID_Size cid) (map tx_name txs') (ensure_cont st (IdsGen.ConjID_Size cid)))).
Proof.
  intros Hperm ND OK HC. unfold try_use_cache, provider_get.
  set (p1 := evict (o_evict (o n)) p).
  destruct (o_works (o n)); [|exists st, None; split; [reflexivity|left; auto]].
  destruct (alookup N.eqb cid p1) as [r|] eqn:EL; [|exists st, None; split; [reflexivity|left; auto]].
  cbn [option_map].
  apply alookup_In in EL. apply evict_incl in EL. destruct (OK cid r EL) as (c0 & txs & cthr0 & A & B & D).
  assert (c0 = c) by (eapply conj_at_fun; eauto). subst c0.
  destruct (record_of_slots _ _ _ D) as [Er Hne]. pose proof (record_of_nodup _ _ _ D) as Hnd. subst r.
  destruct (Permutation_map_inv _ _ (Hperm n (map slot_of txs))) as (txs' & Esh & HP). rewrite Esh.
  set (ks := IdsGen.ConjID_Size cid). set (st1 := ensure_cont st ks).
  destruct (index_conj_spec c st1 ks cid []) as (I1 & I2 & I3 & I4).
  assert (Hp : snd (index_conj st1 ks cid c []) = POk txs).
  { pose proof (ensure_cont_cfg st ks) as CC. fold st1 in CC. rewrite I1. rewrite (ce_thr _ _ CC).
    rewrite (pure_conj_ext _ _ (desc_for st) cid (ce_desc _ _ CC)). exact B. }
  destruct (I4 txs Hp) as (new & E1 & E2 & E3). cbn [app] in E1. subst new.
  assert (E2' : Forall (tx_wf st1) txs') by (eapply Permutation_Forall; eassumption).
  rewrite (use_record_replays ks txs' st1 [] E2'). cbn [app].
  destruct txs' as [|t ts]; [apply Permutation_sym, Permutation_nil in HP; contradiction|].
  eexists _, _. split; [reflexivity|]. right. exists txs, (t :: ts). split; [reflexivity|]. split; [exact HP|].
  split; [apply has_dup_field_NoDup; exact Hnd|]. split; [eapply Forall_impl; [|exact E2]; intros u Hu; apply Hu|].
  split; [|reflexivity]. rewrite <- E3, <- Hp. destruct (index_conj st1 ks cid c []); reflexivity.
Qed.

Lemma add_conj_plain_ok d st i c cid st2 txs :
  IdsGen.NewConjID d i (calc_size c) = Some cid ->
  index_conj (ensure_cont st (calc_size c)) (calc_size c) cid c [] = (st2, POk txs) ->
  add_conj false d st (i, c) = (finish_conj (calc_size c) (calc_size c) cid st2 txs, AddOk).
Proof. intros E1 E2. unfold add_conj. rewrite E1. cbn [negb andb]. rewrite E2. reflexivity. Qed.

Lemma finish_conj_seq k ks cid a b txs : seq a b -> seq (finish_conj k ks cid a txs) (finish_conj k ks cid b txs).
Proof.
  intros S. unfold finish_conj. apply commit_all_seq. destruct (k =? 0); [|exact S]. rewrite (sq_z _ _ S). apply with_z_seq, S.
Qed.

Lemma add_conj_cached_obs o cthr d sp sc p n i c ds : perm_oracle o ->
  NoDup (map d_id ds) -> seq sp sc -> pstore_ok sp ds p ->
  (forall cid, IdsGen.NewConjID d i (calc_size c) = Some cid -> conj_at ds cid c) ->
  exists sc' p' n', add_conj_cached o cthr d (sc, p, n) (i, c) = ((sc', p', n'), snd (add_conj false d sp (i, c))) /\
                    seq (fst (add_conj false d sp (i, c))) sc' /\ pstore_ok sp ds p'.
Proof.
  intros Hperm ND Sq OK HC.
  destruct (add_conj_seq false d sp sc (i, c) Sq) as [Sadd Eout]. rewrite Eout.
  assert (OKc : pstore_ok sc ds p) by (eapply pstore_ok_cfg; [apply seq_cfg; exact Sq | exact OK]).
  assert (Back : forall q, pstore_ok sc ds q -> pstore_ok sp ds q).
  { intros q Hq. eapply pstore_ok_cfg; [apply cfg_eq_sym, seq_cfg; exact Sq | exact Hq]. }
  unfold add_conj_cached.
  destruct (IdsGen.NewConjID d i (calc_size c)) as [cid|] eqn:EC.
  2:{ exists sc, p, n. unfold add_conj in *. rewrite EC in *. cbn [fst snd] in *. auto. }
  specialize (HC cid eq_refl). rewrite (newconj_size _ _ _ _ EC).
  destruct (try_use_cache_perm o n sc p ds cid c Hperm ND OKc HC) as (st1 & res & ET & Hres).
  rewrite (newconj_size _ _ _ _ EC) in Hres. rewrite ET.
  assert (OK1 : pstore_ok sc ds (evict (o_evict (o n)) p)) by (eapply pstore_ok_incl; [apply evict_incl | exact OKc]).
  destruct Hres as [[-> ->] | (txs & txs' & -> & HP & HN & HK & EI & ->)].
  - (* miss: the cached builder does what the plain one does from its own state *)
    unfold add_conj in Sadd |- *. rewrite EC in *. cbn [negb andb] in *.
    destruct (index_conj (ensure_cont sc (calc_size c)) (calc_size c) cid c []) as [st2 r] eqn:EI.
    pose proof (index_conj_pure _ _ _ _ _ _ EI) as EP.
    destruct r as [txs| | | |]; cbn [fst snd] in *; try (eexists _, _, _; split; [reflexivity | split; [exact Sadd | apply Back, OK1]]).
    pose proof (try_cache_ok o (S n) cthr sc ds _ cid c txs OK1 HC EP) as OK2.
    destruct (try_cache o (S n) (evict (o_evict (o n)) p) cthr cid txs) as [p2 n2]. cbn [fst] in OK2.
    eexists _, _, _; split; [reflexivity | split; [exact Sadd | apply Back, OK2]].
  - (* hit *)
    rewrite (add_conj_plain_ok _ _ _ _ _ _ _ EC EI) in Sadd |- *. cbn [fst snd] in *.
    eexists _, _, _; split; [reflexivity | split; [|apply Back, OK1]].
    eapply seq_trans; [exact Sadd|].
    set (k := calc_size c) in *. set (s1 := ensure_cont sc k) in *.
    assert (St : seq (touches k (map tx_name txs) s1) (touches k (map tx_name txs') s1)).
    { apply touches_perm. apply Permutation_map. exact HP. }
    eapply seq_trans; [apply finish_conj_seq; exact St|].
    unfold finish_conj. apply commits_perm; assumption.
Qed.

Lemma add_conjs_cached_obs o cthr ds doc : perm_oracle o -> NoDup (map d_id ds) -> In doc ds ->
  forall ics sp sc p n, Forall (in_doc doc) ics -> seq sp sc -> pstore_ok sp ds p ->
  exists sc' p' n', add_conjs_cached o cthr (d_id doc) (sc, p, n) ics = ((sc', p', n'), snd (add_conjs false (d_id doc) sp ics)) /\
                    seq (fst (add_conjs false (d_id doc) sp ics)) sc' /\ pstore_ok sp ds p'.
Proof.
  intros Hperm ND Hdoc. induction ics as [|[i c] ics IH]; intros sp sc p n HF S OK; cbn [add_conjs_cached add_conjs].
  - exists sc, p, n. cbn [fst snd]. auto.
  - inversion HF as [|? ? (j & Hj1 & Hj2) HF']; subst. cbn [fst snd] in Hj1, Hj2.
    destruct (add_conj_cached_obs o cthr (d_id doc) sp sc p n i c ds Hperm ND S OK) as (sc1 & p1 & n1 & E1 & S1 & OK1).
    { intros cid Hc. exists doc, j. subst i. auto. }
    rewrite E1. pose proof (add_conj_cfg false (d_id doc) sp (i, c)) as C.
    destruct (add_conj false (d_id doc) sp (i, c)) as [sp1 out]. cbn [fst snd] in *.
    destruct out; try solve [exists sc1, p1, n1; auto].
    destruct (IH sp1 sc1 p1 n1 HF' S1 (pstore_ok_cfg _ _ _ _ C OK1)) as (sc2 & p2 & n2 & E2 & S2 & OK2).
    exists sc2, p2, n2. split; [exact E2|]. split; [exact S2|]. eapply pstore_ok_cfg; [apply cfg_eq_sym; exact C | exact OK2].
Qed.

Lemma add_document_cached_obs o cthr ds doc sp sc p n : perm_oracle o -> NoDup (map d_id ds) -> In doc ds ->
  seq sp sc -> pstore_ok sp ds p ->
  exists sc' p' n', add_document_cached o cthr (sc, p, n) doc = ((sc', p', n'), snd (add_document false sp doc)) /\
                    seq (fst (add_document false sp doc)) sc' /\ pstore_ok sp ds p'.
Proof.
  intros Hperm ND Hdoc S OK. unfold add_document_cached, add_document.
  destruct (d_conjs doc) as [|c0 cs] eqn:EC; [exists sc, p, n; cbn [fst snd]; auto|].
  destruct (255 <? _); [exists sc, p, n; cbn [fst snd]; auto|].
  apply add_conjs_cached_obs; auto. rewrite <- EC.
  pose proof (indexed_from_in_doc (d_conjs doc) []) as H. exact H.
Qed.

Lemma add_documents_cached_obs o cthr ds : perm_oracle o -> NoDup (map d_id ds) ->
  forall ds' sp sc p n, incl ds' ds -> seq sp sc -> pstore_ok sp ds p ->
  exists sc' p' n', add_documents_cached o cthr (sc, p, n) ds' = ((sc', p', n'), snd (add_documents false sp ds')) /\
                    seq (fst (add_documents false sp ds')) sc' /\ pstore_ok sp ds p'.
Proof.
  intros Hperm ND. induction ds' as [|doc ds' IH]; intros sp sc p n HI S OK; cbn [add_documents_cached add_documents].
  - exists sc, p, n. cbn [fst snd]. auto.
  - destruct (add_document_cached_obs o cthr ds doc sp sc p n Hperm ND (HI doc (or_introl eq_refl)) S OK) as (sc1 & p1 & n1 & E1 & S1 & OK1).
    rewrite E1. pose proof (add_document_cfg false sp doc) as C.
    destruct (add_document false sp doc) as [sp1 out]. cbn [fst snd] in *.
    destruct (IH sp1 sc1 p1 n1 (fun x Hx => HI x (or_intror Hx)) S1 (pstore_ok_cfg _ _ _ _ C OK1)) as (sc2 & p2 & n2 & E2 & S2 & OK2).
    rewrite E2. destruct (add_documents false sp1 ds') as [sp2 outs]. cbn [fst snd] in *.
    exists sc2, p2, n2. split; [reflexivity|]. split; [exact S2|]. eapply pstore_ok_cfg; [apply cfg_eq_sym; exact C | exact OK2].
Qed.

(* ------------------------------------------------------------------------------------------ *)
(* retrieval cannot tell observationally equal builder states apart *)

Record ixeq (x y : index) : Prop := {
  xq_kind : ix_kind x = ix_kind y;
  xq_fields : feq (ix_fields x) (ix_fields y);
  xq_conts : Forall2 ceq (ix_conts x) (ix_conts y);
  xq_z : ix_z x = ix_z y
}.

Lemma alookup_map_val {K V W} (eqb : K -> K -> bool) (F : V -> W) k (m : list (K * V)) :
  alookup eqb k (map (fun kv => (fst kv, F (snd kv))) m) = option_map F (alookup eqb k m).
Proof.
  induction m as [|[k0 v] m IH]; cbn [map alookup fst snd]; [reflexivity|]. destruct (eqb k k0); [reflexivity | exact IH].
Qed.

Lemma compile_holder_heq h h' : heq h h' -> heq (compile_holder h) (compile_holder h').
Proof.
  destruct h as [pls| |]; intros H.
  - destruct h' as [pls'| |]; try discriminate H. cbn [compile_holder heq] in *. intros key.
    rewrite !(alookup_map_val term_key_eqb sort_entries). rewrite H. reflexivity.
  - cbn in H. subst. apply heq_refl.
  - cbn in H. subst. apply heq_refl.
Qed.

Lemma compile_cont_ceq ec ec' : ceq ec ec' -> ceq (compile_cont ec) (compile_cont ec').
Proof.
  intros [C1 C2]. split; cbn [compile_cont ec_default ec_fields]; [apply compile_holder_heq, C1|].
  intros f. rewrite !(alookup_map_val N.eqb compile_holder). specialize (C2 f).
  destruct (alookup N.eqb f (ec_fields ec)), (alookup N.eqb f (ec_fields ec')); cbn in *; try contradiction; auto.
  apply compile_holder_heq, C2.
Qed.

Lemma Forall2_map {A} (R : A -> A -> Prop) (g : A -> A) : (forall x y, R x y -> R (g x) (g y)) ->
  forall l l', Forall2 R l l' -> Forall2 R (map g l) (map g l').
Proof. intros H l l' F. induction F; cbn [map]; constructor; auto. Qed.

Lemma build_index_ixeq a b : seq a b -> ixeq (build_index a) (build_index b).
Proof.
  intros S. constructor; cbn [build_index ix_kind ix_fields ix_conts ix_z].
  - apply S. - apply S.
  - apply Forall2_map; [apply compile_cont_ceq | apply S].
  - rewrite (sq_z _ _ S). reflexivity.
Qed.

Lemma get_entries_heq fd fid h h' v : heq h h' -> get_entries fd fid h v = get_entries fd fid h' v.
Proof.
  destruct h as [pls| |]; intros H.
  - destruct h' as [pls'| |]; try discriminate H. cbn [get_entries heq] in *.
    destruct (parse_assign (fd_parser fd) v); cbn [pbind]; try reflexivity.
    f_equal. f_equal. apply flat_map_ext. intros id. rewrite H. reflexivity.
  - cbn in H. subst. reflexivity.
  - cbn in H. subst. reflexivity.
Qed.

Lemma init_field_cursors_eq fs fs' ec ec' : feq fs fs' -> ceq ec ec' ->
  forall q, init_field_cursors fs ec q = init_field_cursors fs' ec' q.
Proof.
  intros F C. induction q as [|[f v] q IH]; cbn [init_field_cursors]; [reflexivity|].
  rewrite <- (F f). destruct (find_field f fs) as [fd|]; [|exact IH].
  pose proof (get_holder_ceq ec ec' fd C) as G.
  destruct (get_holder ec fd) as [h|], (get_holder ec' fd) as [h'|]; cbn in G; try contradiction; [|exact IH].
  rewrite (get_entries_heq fd (fd_name fd) h h' v G). rewrite IH. reflexivity.
Qed.

Lemma kgroups_from_eq x y q : ixeq x y -> forall k res, kgroups_from x q k res = kgroups_from y q k res.
Proof.
  intros E. induction k as [|k IH]; intros res; cbn [kgroups_from].
  - rewrite (init_field_cursors_eq _ _ _ _ (xq_fields _ _ E)
               (Forall2_nth ceq new_econtainer (ceq_refl _) _ _ (xq_conts _ _ E) O)), (xq_z _ _ E). reflexivity.
  - rewrite (init_field_cursors_eq _ _ _ _ (xq_fields _ _ E)
               (Forall2_nth ceq new_econtainer (ceq_refl _) _ _ (xq_conts _ _ E) (S k))).
    destruct (init_field_cursors (ix_fields y) (nth (S k) (ix_conts y) new_econtainer) q); cbn [pres_to_rres]; try reflexivity.
    destruct (retrieve_k _ _ _); [apply IH | reflexivity].
Qed.

Lemma Forall2_len {A} (R : A -> A -> Prop) l l' : Forall2 R l l' -> length l = length l'.
Proof. induction 1; cbn [length]; congruence. Qed.

Theorem retrieve_hits_ixeq x y q : ixeq x y -> retrieve_hits x q = retrieve_hits y q.
Proof.
  intros E. unfold retrieve_hits. rewrite (xq_kind _ _ E). destruct (ix_kind y).
  - unfold retrieve_kgroups_hits. rewrite (Forall2_len _ _ _ (xq_conts _ _ E)).
    destruct (assign_size q); cbn [pres_to_rres]; try reflexivity.
    destruct (Z.min a (Z.of_nat (length (ix_conts y)) - 1) <? 0); [reflexivity|]. apply kgroups_from_eq, E.
  - unfold retrieve_compact_hits.
    rewrite (init_field_cursors_eq _ _ _ _ (xq_fields _ _ E)
               (Forall2_nth ceq new_econtainer (ceq_refl _) _ _ (xq_conts _ _ E) O)), (xq_z _ _ E). reflexivity.
Qed.

Theorem seq_same_answers a b q : seq a b ->
  retrieve_hits (build_index a) q = retrieve_hits (build_index b) q /\ retrieve (build_index a) q = retrieve (build_index b) q.
Proof.
  intros S. pose proof (retrieve_hits_ixeq _ _ q (build_index_ixeq a b S)) as H. split; [exact H|].
  unfold retrieve. rewrite H. reflexivity.
Qed.

(* ------------------------------------------------------------------------------------------ *)
(* MAIN THEOREMS, general case *)

(* (a)+(b) for every oracle whose record iteration orders are permutations: same outcomes, observationally equal
   builder state (both may start from observationally equal states), invariant kept *)
Theorem cached_build_transparent_obs : forall o cthr ds sp sc p n, perm_oracle o ->
  NoDup (map d_id ds) -> seq sp sc -> pstore_ok sp ds p ->
  let '((sc', p', _), outs) := add_documents_cached o cthr (sc, p, n) ds in
  outs = snd (add_documents false sp ds) /\ seq (fst (add_documents false sp ds)) sc' /\ pstore_ok sc' ds p'.
Proof.
  intros o cthr ds sp sc p n Hperm ND Sq OK.
  destruct (add_documents_cached_obs o cthr ds Hperm ND ds sp sc p n (incl_refl _) Sq OK) as (sc' & p' & n' & E & S' & OK').
  rewrite E. split; [reflexivity|]. split; [exact S'|].
  eapply pstore_ok_cfg; [|exact OK']. eapply cfg_eq_trans; [apply add_documents_cfg | apply seq_cfg; exact S'].
Qed.

(* every query is answered exactly as by the index built without cache *)
Corollary cached_build_same_answers_obs : forall o cthr ds st p n q, perm_oracle o ->
  NoDup (map d_id ds) -> pstore_ok st ds p ->
  let st_c := fst (fst (fst (add_documents_cached o cthr (st, p, n) ds))) in
  let st_p := fst (add_documents false st ds) in
  snd (add_documents_cached o cthr (st, p, n) ds) = snd (add_documents false st ds) /\
  retrieve_hits (build_index st_c) q = retrieve_hits (build_index st_p) q /\
  retrieve (build_index st_c) q = retrieve (build_index st_p) q.
Proof.
  intros o cthr ds st p n q Hperm ND OK.
  pose proof (cached_build_transparent_obs o cthr ds st st p n Hperm ND (seq_refl st) OK) as H.
  destruct (add_documents_cached o cthr (st, p, n) ds) as [[[st' p'] n'] outs]. destruct H as (H1 & H2 & _).
  cbn [fst snd]. split; [exact H1|]. destruct (seq_same_answers _ _ q H2) as [A B]. split; symmetry; assumption.
Qed.

(* any sequence of builds on one builder sharing one provider, Reset in between *)
Lemma reset_seq a b : seq a b -> seq (reset_builder a) (reset_builder b).
Proof.
  intros S. constructor; cbn [reset_builder b_kind b_policy b_thr b_parsers b_z b_fields b_conts]; try apply S; try reflexivity.
  rewrite (sq_kind _ _ S). apply Forall2_refl, ceq_refl.
Qed.

Definition round_eq (x y : bstate * list add_out) : Prop := seq (fst x) (fst y) /\ snd x = snd y.

Theorem builds_transparent_obs : forall ds, NoDup (map d_id ds) ->
  forall rounds sp sc p, Forall (fun r => perm_oracle (r_oracle r)) rounds -> seq sp sc -> pstore_ok sp ds p ->
  Forall2 round_eq (plain_builds ds sp (length rounds)) (fst (builds ds sc p rounds)) /\
  pstore_ok sp ds (snd (builds ds sc p rounds)).
Proof.
  intros ds ND. induction rounds as [|[o forget cthr] rounds IH]; intros sp sc p HO Sq OK; cbn [builds plain_builds length].
  - split; [constructor | exact OK].
  - inversion HO as [|? ? Hperm HO']; subst. cbn [r_oracle r_forget r_cthr] in *.
    assert (OK0 : pstore_ok (reset_builder sp) ds (evict forget p)).
    { eapply pstore_ok_cfg; [apply reset_cfg|]. apply pstore_ok_forget. exact OK. }
    pose proof (cached_build_transparent_obs o cthr ds (reset_builder sp) (reset_builder sc) (evict forget p) O Hperm ND
                  (reset_seq _ _ Sq) OK0) as H.
    pose proof (add_documents_cfg false ds (reset_builder sp)) as C.
    destruct (add_documents_cached o cthr (reset_builder sc, evict forget p, O) ds) as [[[sc1 p1] n1] outs].
    destruct H as (H1 & H2 & OK1).
    set (sp1 := fst (add_documents false (reset_builder sp) ds)) in *.
    assert (OK1' : pstore_ok sp1 ds p1).
    { eapply pstore_ok_cfg; [apply cfg_eq_sym, seq_cfg; exact H2 | exact OK1]. }
    specialize (IH sp1 sc1 p1 HO' H2 OK1'). destruct (builds ds sc1 p1 rounds) as [res p2]. cbn [fst snd] in *.
    destruct IH as [IH1 IH2]. split.
    + constructor; [split; [exact H2 | symmetry; exact H1] | exact IH1].
    + eapply pstore_ok_cfg; [|exact IH2]. apply cfg_eq_sym. eapply cfg_eq_trans; [apply reset_cfg | exact C].
Qed.

Print Assumptions cached_build_transparent_obs.
Print Assumptions cached_build_same_answers_obs.
Print Assumptions builds_transparent_obs.
Print Assumptions seq_same_answers.

(* ------------------------------------------------------------------------------------------ *)
(* non-vacuity of the general case: every record is visited back to front *)
Module ObsExamples.
Import CacheBuildProof.Examples.

Definition rev_oracle : oracle := fun n =>
  {| o_works := o_works (x_warm_oracle n); o_evict := o_evict (x_warm_oracle n); o_shuffle := @rev _ |}.
Example rev_oracle_perm : perm_oracle rev_oracle.
Proof. intros n r. apply Permutation_sym, Permutation_rev. Qed.
Example all_works_perm : perm_oracle all_works.
Proof. intros n r. apply Permutation_refl. Qed.

(* one more document: two fields of the default container, both created on the fly *)
Definition y_docs : list doc :=
  x_docs ++ [ {| d_id := 16; d_conjs := [ [(4%N, [ein true [1;2;3;4;5]]); (5%N, [ein true [6;7]])] ] |} ].
Example y_ids_distinct : NoDup (map d_id y_docs).
Proof. repeat constructor; simpl; intuition discriminate. Qed.
Definition y_cold k := add_documents_cached all_works 3 (x_st0 k, [], O) y_docs.
Definition y_plain k := add_documents false (x_st0 k) y_docs.
Definition y_warm_rev k := add_documents_cached rev_oracle 3 (x_st0 k, ps_of (y_cold k), O) y_docs.

(* the builder state is NOT literally the plain one: document 16's record [field 4; field 5] was replayed as
   [field 5; field 4], so the fields were created, and the posting-list keys inserted, in another order ... *)
Example rev_state_differs : forall k, st_of (y_warm_rev k) <> fst (y_plain k).
Proof.
  intros k H. apply (f_equal (fun s => map fd_name (b_fields s))) in H. destruct k; vm_compute in H; discriminate H.
Qed.
Example rev_fields : forall k,
  map fd_name (b_fields (st_of (y_warm_rev k))) = [1; 2; 0; 3; 5; 4]%N /\ map fd_name (b_fields (fst (y_plain k))) = [1; 2; 0; 3; 4; 5]%N.
Proof. intros []; vm_compute; split; reflexivity. Qed.
(* ... but the outcomes are the same, four conjunctions were served from the cache, and the answers agree *)
Definition y_q : assignment := [(4%N, iv 3); (5%N, iv 7)].
Example rev_same_answers : forall k,
  calls_of (y_warm_rev k) = 10%nat /\ snd (y_warm_rev k) = snd (y_plain k) /\
  retrieve (build_index (st_of (y_warm_rev k))) x_q = ROk [10; 12] /\
  retrieve (build_index (fst (y_plain k))) x_q = ROk [10; 12] /\
  retrieve (build_index (st_of (y_warm_rev k))) y_q = ROk [13; 16] /\
  retrieve (build_index (fst (y_plain k))) y_q = ROk [13; 16].
Proof. intros []; vm_compute; repeat split; reflexivity. Qed.
(* the general theorem applies to it: all queries *)
Example rev_theorem_applies : forall k q,
  retrieve (build_index (st_of (y_warm_rev k))) q = retrieve (build_index (fst (y_plain k))) q.
Proof.
  intros k q.
  pose proof (cold_build_transparent all_works 3 y_docs (x_st0 k) O (fun n r => eq_refl) y_ids_distinct) as HC.
  unfold y_warm_rev, ps_of, y_cold, st_of, y_plain.
  destruct (add_documents_cached all_works 3 (x_st0 k, [], O) y_docs) as [[[st1 p1] n1] outs1]. destruct HC as [HC OK1].
  cbn [fst snd].
  assert (OK : pstore_ok (x_st0 k) y_docs p1).
  { eapply pstore_ok_cfg; [|exact OK1]. apply cfg_eq_sym.
    pose proof (add_documents_cfg false y_docs (x_st0 k)) as C. rewrite <- HC in C. exact C. }
  apply (cached_build_same_answers_obs rev_oracle 3 y_docs (x_st0 k) p1 O q rev_oracle_perm y_ids_distinct OK).
Qed.
End ObsExamples.
