//go:build !verif

package main

import (
	be "github.com/echoface/be_indexer"
)

// the hooks (-tags verif) did not build on this tree: internal interfaces are unavailable,
// every public interface still runs
const hooksAvailable = false

func indexEntries(index be.BEIndex) (entries, z []uint64, ok bool) { return nil, nil, false }

func fieldTablesShared(b *be.IndexerBuilder, index be.BEIndex) (shared, ok bool) { return false, false }

func retrieveK(cursors be.FieldCursors, need int, c be.ResultCollector) bool { return false }
