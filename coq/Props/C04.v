(* C04  Exactly the satisfied conjunctions are reported to collectors, once each.  Statements only.
   The scan theorems are at conjunction level: the list they return is the sequence of collector
   calls (Model/Index.v appends (ConjID.DocID, ConjID) per reported conjunction); NoDup = once each;
   C11 gives that (doc, position, size) decode from the reported id without loss. *)
From Coq Require Import List NArith ZArith Bool Permutation.
From BE Require Import Model.Scan Model.Build Model.Cursor Proofs.ScanProof Proofs.BuildProof Proofs.Glue Gen.IdsGen Proofs.IdsProof Proofs.Refine Proofs.ConcreteScan.
From BE Require Model.GoVal Model.Parsers Model.Index Model.Roaring Proofs.RoaringProof Proofs.IndexBuildInv Proofs.IndexCorrect Model.Spec Proofs.SpecBridge Proofs.HoldersBuildInv Proofs.IndexCorrectHolders Proofs.SpecBridgeHolders Proofs.IndexCorrectPolicy Proofs.SpecBridgeHoldersPolicy Proofs.RoaringHolders Proofs.RoaringSpec.
Import ListNotations.
Local Open Scope N_scope.

Theorem C04_reported_conjunctions_exact_once :
  forall (qval : Type) (qmatch : qval -> term -> bool) (cid_of : Z -> nat -> nat -> N)
         (ds : list doc) (q : assignment qval),
  NoDup (map fst q) ->
  (forall d i c d' i' c', has_conj ds d i c -> has_conj ds d' i' c' ->
     cid_of (d_id d) i (calc_size c) = cid_of (d_id d') i' (calc_size c') -> d = d' /\ i = i') ->
  exists r, retrieve qval qmatch (build cid_of ds) q = Some r /\ NoDup r /\
    forall x, In x r <-> exists d i c, has_conj ds d i c /\ sat_conj qval qmatch q c = true /\ x = the_cid cid_of d i c.
Proof. exact retrieve_correct. Qed.

(* what the collector decodes from a reported id is the document id, position and size it was built from *)
Theorem C04_collector_arguments : forall doc idx size,
  (Z.abs doc <= 8796093022207)%Z -> (0 <= idx < 256)%Z -> (0 <= size < 256)%Z ->
  exists c, NewConjID doc idx size = Some c /\ ConjID_DocID c = doc /\ ConjID_Index c = idx /\ ConjID_Size c = size.
Proof.
  intros doc idx size H1 H2 H3. destruct (conjid_roundtrip doc idx size H1 H2 H3) as (c & A & _ & B & C & D).
  exists c. auto.
Qed.

(* generic scan (covers the compact loop): exactly once, for any sorted streams *)
Theorem C04_generic_scan_once : forall (needf : N -> nat) (os : list stream),
  (forall c, (1 <= needf c)%nat) -> (forall c c', c <= c' -> (needf c <= needf c')%nat) ->
  Forall sorted os -> (forall c, (cnt (c, true) os <= needf c)%nat) ->
  exists r, scan needf os = Some r /\
            (forall x, In x r <-> cnt (x, false) os = O /\ (needf x <= cnt (x, true) os)%nat) /\ NoDup r.
Proof. exact scan_correct. Qed.

(* the concrete loops of the executable model call the collector once per reported conjunction, with the
   document id decoded from the conjunction id (both index types) *)
Theorem C04_concrete_kgroups_calls : forall need cs ss,
  (1 <= need)%nat -> Forall2 Rel cs ss -> (forall c, (cnt (c, true) ss <= need)%nat) ->
  exists res, Index.retrieve_k need cs [] = Some res /\
    (forall x, In x (map snd res) <-> sat need ss x) /\ NoDup (map snd res) /\
    (forall h, In h res -> fst h = IdsGen.ConjID_DocID (snd h)).
Proof. exact retrieve_k_correct. Qed.
Theorem C04_concrete_compact_calls : forall cs ss,
  Forall2 Rel cs ss -> Forall live cs -> (forall c, (cnt (c, true) ss <= cneed c)%nat) ->
  exists res, Index.cp_loop (S (Index.fc_total cs)) (sort_fcursors cs) [] = Some res /\
    (forall x, In x (map snd res) <-> satf cneed ss x) /\ NoDup (map snd res) /\
    (forall h, In h res -> fst h = IdsGen.ConjID_DocID (snd h)).
Proof. exact cp_loop_correct. Qed.

(* the roaring scanner's raw result is exactly the set of satisfied (document, position) pairs *)
Theorem C04_roaring_raw_result_exact : forall b0 ds b os q s d k cj x,
  RoaringProof.all_new (Roaring.rb_conts b0) -> Roaring.rb_conts b0 <> [] ->
  Roaring.radd_documents b0 ds = (b, os) -> Forall (eq Index.AddOk) os ->
  NoDup (map Index.d_id ds) -> In d ds -> nth_error (Index.d_conjs d) k = Some cj ->
  NewConjunctionID (Z.of_nat k) (Index.d_id d) = Some x ->
  Roaring.sc_retrieve (Roaring.rb_conts b) q Roaring.fresh_scanner = GoVal.POk s ->
  Roaring.bm_mem x (Roaring.sc_res s) = forallb (RoaringProof.conj_sat_field q cj) (Roaring.rb_conts b).
Proof. exact RoaringProof.roaring_index_correct. Qed.

(* END TO END over the executable model, both index types (`kind`), default-container fields, any parser
   configuration: the recorded collector calls `hits` are exactly, once each, the satisfied conjunctions
   of the accepted documents, each with the document id decoded from its conjunction id *)
Theorem C04_collector_calls_exact_once : forall kind pol thr parsers ds st os q,
  Index.add_documents false (Index.new_builder kind pol thr parsers) ds = (st, os) ->
  Forall (eq Index.AddOk) os -> NoDup (map Index.d_id ds) ->
  (forall d cj, In d ds -> In cj (Index.d_conjs d) -> NoDup (map fst cj)) ->
  (pol <> Index.PolSkip \/ forall d cj, In d ds -> In cj (Index.d_conjs d) -> IndexBuildInv.conj_ok parsers cj = true) ->
  NoDup (map fst q) ->
  (forall f v, In (f, v) q -> exists ids, Parsers.parse_assign (parsers f) v = GoVal.POk ids) ->
  exists hits,
    Index.retrieve_hits (Index.build_index st) q = Index.ROk hits /\
    NoDup (map snd hits) /\
    (forall d k cj cid, IndexCorrect.has_conj ds d k cj cid ->
       (In cid (map snd hits) <-> IndexCorrect.conj_sat parsers q cj = true)) /\
    (forall h, In h hits -> fst h = ConjID_DocID (snd h) /\
                            exists d k cj, IndexCorrect.has_conj ds d k cj (snd h)).
Proof. exact IndexCorrect.index_correct. Qed.

(* THE FULL STATEMENT for the posting-list indexes (see Props/C01.v for the reading of the hypotheses): the collector calls
   -- one hit record per reported conjunction -- are, as (document, position, size) triples, a permutation of the
   specification's sat_hits, and no conjunction is reported twice; any container mix, every policy, every outcome *)
Theorem C04_full_statement_posting_lists : forall kind pol thr parsers cfgl st0 ds st os q,
  HoldersBuildInv.config_fields (Index.new_builder kind pol thr parsers) cfgl = Some st0 ->
  Index.add_documents false st0 ds = (st, os) ->
  NoDup (map Index.d_id ds) ->
  (forall d cj, In d ds -> In cj (Index.d_conjs d) -> NoDup (map fst cj)) ->
  (forall d, In d ds -> SpecBridgeHoldersPolicy.doc_ok parsers cfgl d) ->
  IndexCorrectPolicy.sizes_ok ds ->
  SpecBridgeHoldersPolicy.skip_ok2 pol (SpecBridgeHolders.cfg_fields parsers cfgl) parsers ds ->
  ((- GoVal.two64 < thr)%Z \/
   forall d cj, In d ds -> In cj (Index.d_conjs d) ->
     Spec.conj_sem (SpecBridgeHolders.cfg_fields parsers cfgl) parsers cj <> None ->
     HoldersBuildInv.conj_rwf thr (HoldersBuildInv.cfg_of cfgl) cj) ->
  NoDup (map fst q) ->
  SpecBridgeHolders.asg_good' parsers cfgl q ->
  SpecBridgeHoldersPolicy.asg_dom_den parsers cfgl ds q ->
  (kind = Index.IKGroups -> forall f v, In (f, v) q -> HoldersBuildInv.cfg_of cfgl f = Index.CAc -> IndexCorrectHolders.nil_slice_wf v) ->
  exists hits spec_hits,
    Index.retrieve_hits (Index.build_index st) q = Index.ROk hits /\
    Spec.sat_hits (SpecBridgeHolders.cfg_fields parsers cfgl) parsers pol Spec.pl_docok ds q = Some spec_hits /\
    Permutation (map (fun h : Index.hitrec => SpecBridge.triple (snd h)) hits) spec_hits /\
    NoDup (map snd hits).
Proof. exact SpecBridgeHoldersPolicy.index_sat_hits_holders_policy. Qed.

(* ... and for the roaring scanner's raw result (default and pattern containers; see Props/C03.v) *)
Theorem C04_full_statement_roaring_raw_result : forall b0 b ds os parsers q pol,
  RoaringHolders.all_new_r (Roaring.rb_conts b0) -> Roaring.rb_conts b0 <> [] -> NoDup (map fst (Roaring.rb_conts b0)) ->
  Roaring.radd_documents b0 ds = (b, os) -> Forall (eq Index.AddOk) os -> NoDup (map Index.d_id ds) ->
  (forall d cj, In d ds -> In cj (Index.d_conjs d) -> NoDup (map fst cj)) ->
  (forall d, In d ds -> RoaringSpec.doc_good_r (RoaringSpec.conts_fields (Roaring.rb_conts b0)) d) ->
  RoaringSpec.asg_good_r (RoaringSpec.conts_fields (Roaring.rb_conts b0)) q ->
  (forall d cj, In d ds -> In cj (Index.d_conjs d) -> Spec.conj_sem (RoaringSpec.conts_fields (Roaring.rb_conts b0)) parsers cj <> None) ->
  exists s spec_hits, Roaring.sc_retrieve (Roaring.rb_conts b) q Roaring.fresh_scanner = GoVal.POk s /\
    Spec.sat_hits (RoaringSpec.conts_fields (Roaring.rb_conts b0)) parsers pol RoaringSpec.rr_docok ds q = Some spec_hits /\
    Permutation (map RoaringSpec.rr_pair (Roaring.sc_res s)) (map (fun t : Z * (Z * Z) => (fst t, fst (snd t))) spec_hits).
Proof. exact RoaringSpec.roaring_sat_hits. Qed.

Print Assumptions C04_reported_conjunctions_exact_once.
Print Assumptions C04_collector_calls_exact_once.
Print Assumptions C04_concrete_kgroups_calls.
Print Assumptions C04_concrete_compact_calls.
Print Assumptions C04_roaring_raw_result_exact.
Print Assumptions C04_collector_arguments.
Print Assumptions C04_generic_scan_once.
Print Assumptions C04_full_statement_posting_lists.
Print Assumptions C04_full_statement_roaring_raw_result.
