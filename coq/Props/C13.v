(* C13  Build cache is transparent.  Statements only.
   Model/Cache.v models the record format (one slot per field name), the three holders' codecs and
   the caching decision of the repaired tree; `_pinned` definitions model what the pinned tree did. *)
From Coq Require Import List NArith ZArith Bool.
From BE Require Import Model.GoTypes Model.GoVal Model.Parsers Model.Index Model.Cache Proofs.CacheProof.
Import ListNotations.

(* every holder decodes what it encoded, for every transaction its IndexingBETx can produce *)
Theorem C13_codec_roundtrip : forall thr fd e t,
  indexing_tx thr fd e = POk t -> decode (fd_cont fd) (encode t) = Some t.
Proof. intros thr fd e t H. apply decode_encode. eapply indexing_tx_kind; eauto. Qed.

(* any caching threshold, any conjunction: a record that was written reproduces exactly the
   transactions it was written from (so a build served from the cache commits what a cold build commits) *)
Theorem C13_record_reproduces_transactions : forall thr desc_of txs r,
  (forall t, In t txs -> desc_of (fd_name (tx_field t)) = tx_field t /\ tx_of_kind (fd_cont (tx_field t)) (tx_data t)) ->
  record_of thr txs = Some r -> txs_of_record desc_of r = Some txs.
Proof. exact record_roundtrip. Qed.

(* the record cannot represent several expressions on one field: such conjunctions are never cached *)
Theorem C13_repeated_field_not_cached : forall thr txs, has_dup_field txs = true -> record_of thr txs = None.
Proof. exact repeated_field_not_cached. Qed.

(* misses and dropped writes are harmless by construction: a miss or an undecodable record makes the
   builder parse (tryUseIndexingTxCache returns nil), a dropped write only causes a later miss *)

(* the pinned tree violated the property (repaired by three fix: commits) *)
Theorem C13_refuted_pinned_slot_collapse : length (record_of_pinned [tx_in; tx_gt100]) = 1%nat.
Proof. exact pinned_slot_collapse. Qed.
Theorem C13_refuted_pinned_range_lost : decode_pinned_range (encode (tx_data tx_gt100)) = Some (TxRange 0 0).
Proof. exact pinned_range_lost. Qed.

Print Assumptions C13_codec_roundtrip.
Print Assumptions C13_record_reproduces_transactions.
Print Assumptions C13_repeated_field_not_cached.
