(* C10: interleaved retrieval histories over several indexes sharing the process-wide pools.
   One case = the indexes (each an ecase whose query list is that index's part of the history, in
   order).  Each answer must be the fresh answer, i.e. the specification's / the pure model's. *)
From Coq Require Import List NArith ZArith Bool.
From BE Require Export Corr.SpecE2E.
From BE Require Import Corr.Common.
Import ListNotations.

Definition hist_case := list ecase.

Definition spec_verdict_h (h : hist_case) : bool * bool * N :=
  fold_right (fun c acc => let '(ok, dom, sig) := SpecE2E.spec_verdict c in
                           let '(ok', dom', sig') := acc in
                           if ok then (ok', dom && dom', sig') else (false, dom && dom', sig)) (true, true, 0%N) h.
Definition spec_only_h (h : hist_case) : verdict := let '(s, d, g) := spec_verdict_h h in mk_verdict true s d g.
Definition run (cs : list hist_case) := check_all spec_only_h cs.
