(* C18: triple cases. *)
From BE Require Export Corr.CheckTri.
