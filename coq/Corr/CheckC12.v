(* C12, model leg: Model/Cursor.v against the real cursors. *)
From Coq Require Import List NArith Bool.
From BE Require Import Model.Scan Model.Cursor Corr.Common.
From BE Require Export Corr.SpecC12.
Import ListNotations.
Local Open Scope N_scope.

Fixpoint model_cur (l : list N) (c : cursor) (ts : list N) : option (list (N * N)) :=
  match ts with
  | [] => Some []
  | t :: ts' => match skip_to l c t with
                | None => None
                | Some c' => option_map (cons (c_eid c', c_eid c')) (model_cur l c' ts')
                end
  end.
Fixpoint model_fc (f : fcursor) (ts : list N) : option (list (N * (N * bool))) :=
  match ts with
  | [] => Some []
  | t :: ts' => match fcursor_skip_to f t with
                | None => None
                | Some (f', m) => option_map (cons (m, (fc_current f', fcursor_reach_end f'))) (model_fc f' ts')
                end
  end.

Definition model_ok (c : case) : bool :=
  match c with
  | CCur l ts init outs =>
    (c_eid (new_cursor l) =? init) &&
    match model_cur l (new_cursor l) ts with Some o => eqb_list eqb_nn outs o | None => false end
  | CFc ls ts init outs =>
    (fc_current (new_fcursor ls) =? init) &&
    match model_fc (new_fcursor ls) ts with Some o => eqb_list eqb_nnb outs o | None => false end
  | CSort cs out =>
    let mk := fun c : list N * N =>
      let f := new_fcursor [fst c] in
      match fcursor_skip_to f (snd c) with Some (f', _) => f' | None => f end in
    eqb_list N.eqb out (map fc_current (sort_fcursors (map mk cs)))
  end.

Definition check (c : case) : verdict := let '(s, d, g) := spec_verdict c in mk_verdict (model_ok c) s d g.
Definition run (cs : list case) := check_all check cs.
