(* C18: the k-groups and the compact index models return the same documents on every input both accept. *)
From Coq Require Import List NArith ZArith Bool.
From BE Require Import Model.GoTypes Model.GoVal Model.Parsers Model.Index Proofs.IndexBuildInv Proofs.IndexCorrect.
Import ListNotations.

Theorem kgroups_compact_agree pol thr parsers ds stk osk stc osc q :
  add_documents false (new_builder IKGroups pol thr parsers) ds = (stk, osk) ->
  add_documents false (new_builder ICompact pol thr parsers) ds = (stc, osc) ->
  Forall (eq AddOk) osk -> Forall (eq AddOk) osc -> NoDup (map d_id ds) ->
  (forall d cj, In d ds -> In cj (d_conjs d) -> NoDup (map fst cj)) ->
  (pol <> PolSkip \/ forall d cj, In d ds -> In cj (d_conjs d) -> conj_ok parsers cj = true) ->
  NoDup (map fst q) ->
  (forall f v, In (f, v) q -> exists ids, parse_assign (parsers f) v = POk ids) ->
  exists dk dc, retrieve (build_index stk) q = ROk dk /\ retrieve (build_index stc) q = ROk dc /\
                forall z, In z dk <-> In z dc.
Proof.
  intros Hk Hc Hok Hoc Hnd Hcj Hpol Hq Hqp.
  destruct (retrieve_docs_correct IKGroups pol thr parsers ds stk osk q Hk Hok Hnd Hcj Hpol Hq Hqp) as (dk & Ek & Ak & Sk).
  destruct (retrieve_docs_correct ICompact pol thr parsers ds stc osc q Hc Hoc Hnd Hcj Hpol Hq Hqp) as (dc & Ec & Ac & Sc).
  exists dk, dc. split; [exact Ek|]. split; [exact Ec|].
  intros z. split; intros Hz.
  - destruct (Sk z Hz) as (d & Hd & ->). apply (Ac d Hd). apply (Ak d Hd). exact Hz.
  - destruct (Sc z Hz) as (d & Hd & ->). apply (Ak d Hd). apply (Ac d Hd). exact Hz.
Qed.
