(* Non-vacuity of the end-to-end theorems: a concrete document set and assignment meet every
   hypothesis of IndexCorrect.index_correct / retrieve_docs_correct, and the conclusion is not
   trivial (a non-empty proper subset of the documents is returned). *)
From Coq Require Import List NArith ZArith Bool.
From BE Require Import Model.GoTypes Model.GoVal Model.Parsers Model.Index Proofs.IndexBuildInv Proofs.IndexCorrect.
Import ListNotations.
Local Open Scope Z_scope.

Definition iv (z : Z) : gval := VInt KI z.
Definition ein (b : bool) (zs : list Z) : expr := {| e_incl := b; e_op := OpEQ; e_val := VSlice TSint false (map iv zs) |}.

(* doc 1: (f0 in {1,2} and f1 not in {3}) or (f1 in {9});  doc -2: f0 not in {1};  doc 3: f0 in {5} and f1 in {3} *)
Definition ex_docs : list doc :=
  [ {| d_id := 1;  d_conjs := [ [(0%N, [ein true [1;2]]); (1%N, [ein false [3]])]; [(1%N, [ein true [9]])] ] |};
    {| d_id := -2; d_conjs := [ [(0%N, [ein false [1]])] ] |};
    {| d_id := 3;  d_conjs := [ [(0%N, [ein true [5]]); (1%N, [ein true [3]])] ] |} ].
Definition ex_parsers : fname -> parser_kind := fun _ => PCommon.
Definition ex_q : assignment := [(0%N, iv 1); (1%N, iv 4)].

Definition ex_ok (k : index_kind) : bool :=
  let '(st, os) := add_documents false (new_builder k PolError 256 ex_parsers) ex_docs in
  forallb (fun o => match o with AddOk => true | _ => false end) os &&
  forallb (fun d => forallb (conj_ok ex_parsers) (d_conjs d)) ex_docs &&
  forallb (fun fv => match parse_assign (ex_parsers (fst fv)) (snd fv) with POk _ => true | _ => false end) ex_q &&
  match retrieve (build_index st) ex_q with
  | ROk docs => match docs with [1] => true | _ => false end
  | _ => false end.

Example hypotheses_met_kgroups : ex_ok IKGroups = true.
Proof. vm_compute. reflexivity. Qed.
Example hypotheses_met_compact : ex_ok ICompact = true.
Proof. vm_compute. reflexivity. Qed.
Example ex_ids_distinct : NoDup (map d_id ex_docs).
Proof. repeat constructor; simpl; intuition discriminate. Qed.
