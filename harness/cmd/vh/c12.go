package main

import (
	"encoding/json"
	"fmt"
	"sort"

	be "github.com/echoface/be_indexer"
)

type c12In struct {
	K     string     `json:"k"` // cur | fc | sort
	Lists [][]uint64 `json:"lists"`
	Ts    []uint64   `json:"ts"`
	Views []int      `json:"views,omitempty"` // fc: the members are the prefix views all[:Views[i]] of ONE array all = Lists[0] (cumulative lists sharing storage)
	Pre   []uint64   `json:"pre,omitempty"`   // fc: member i is skipped to Pre[i%len] BEFORE the members are grouped (to the model: a cursor over the rest of its list)
}

const nullEntry = ^uint64(0)

func sortedList(r *Rand, n int, span uint64, dupPct int) []uint64 {
	l := make([]uint64, 0, n)
	for i := 0; i < n; i++ {
		if len(l) > 0 && r.Chance(dupPct) {
			l = append(l, l[r.Intn(len(l))])
		} else {
			l = append(l, 1+r.U64()%span)
		}
	}
	sort.Slice(l, func(i, j int) bool { return l[i] < l[j] })
	return l
}

func targets(r *Rand, l []uint64, n int, span uint64) []uint64 {
	ts := make([]uint64, 0, n)
	mono := r.Chance(60)
	cur := uint64(0)
	for i := 0; i < n; i++ {
		var t uint64
		switch r.Intn(6) {
		case 0:
			t = r.U64() % (span + 3)
		case 1:
			if len(l) > 0 {
				t = l[r.Intn(len(l))]
			}
		case 2:
			if len(l) > 0 {
				t = l[r.Intn(len(l))] + 1
			}
		case 3:
			if len(l) > 0 {
				t = l[r.Intn(len(l))] - 1
			}
		case 4:
			t = cur + uint64(r.Intn(4))
		case 5:
			if r.Chance(20) {
				t = nullEntry
			} else {
				t = span + uint64(r.Intn(5))
			}
		}
		if mono && t < cur {
			t = cur + uint64(r.Intn(3))
		}
		cur = t
		ts = append(ts, t)
	}
	return ts
}

func toEntries(l []uint64) be.Entries {
	e := make(be.Entries, len(l))
	for i, v := range l {
		e[i] = be.EntryID(v)
	}
	return e
}

func nlistlist(ls [][]uint64) string {
	s := make([]string, len(ls))
	for i, l := range ls {
		s[i] = nlistCompact(l)
	}
	return listl(s)
}

func init() {
	props["C12"] = &propDef{
		header:    "From BE Require Import Corr.CheckC12.",
		rule:      "a 17 000-entry list with a single hop of 2^14+1 positions from an advanced cursor (thorough: a 40 000-entry list, hops of 2^k+-1 up to 2^15+1, also inside a field cursor); every ninth field-cursor case groups members that were skipped forward (some to their end) BEFORE NewFieldCursor, every ninth (and ten dedicated ones) members that are prefix views of ONE array; random sorted lists with duplicates (length 0..300, so every gallop/bisect boundary is hit) x target sequences (monotone and not, at/around members, beyond the end, the sentinel); groups of 1..5 lists; cursor sets of 0..48 for Sort (plus arrangements of 9..64 cursors: small heads at every position among equal ones, reversed, rotated, exhausted in front); thorough adds every sorted list over {1..5} of length <= 6 x every pair of targets 0..6. Non-trivial = the list(s) are non-empty and at least one call actually moves a cursor; distinct = distinct input",
		shardSize: 500,
		gen: func(tier string, r *Rand, add func(in interface{})) {
			// corpus: the list of the unit test and boundary shapes
			add(c12In{K: "cur", Lists: [][]uint64{{1, 3, 3, 7, 9, 12, 12, 40}}, Ts: []uint64{3, 2, 8, 12, 13, 100}})
			add(c12In{K: "cur", Lists: [][]uint64{{}}, Ts: []uint64{0, 5, nullEntry}})
			add(c12In{K: "cur", Lists: [][]uint64{{5}}, Ts: []uint64{5, 6}})
			add(c12In{K: "cur", Lists: [][]uint64{{5, 5, 5, 5, 5, 5, 5, 5, 5, 6}}, Ts: []uint64{6}})
			// long lists: single hops of 2^k +- 1 positions up to 2^15+1 (galloping doubles its stride that far), from the
			// start and from an advanced cursor, as a cursor and as a member of a field cursor
			{
				mkLong := func(L int) []uint64 {
					long := make([]uint64, L)
					for i := range long {
						long[i] = uint64(3*i + 1)
					}
					return long
				}
				long := mkLong(17000)
				add(c12In{K: "cur", Lists: [][]uint64{long}, Ts: []uint64{long[300] - 1, long[300+16385] - 1, long[16999] + 5}})
				if tier == "thorough" {
					long = mkLong(40000)
					var ts []uint64
					pos := 0
					for _, hop := range []int{1, 1023, 1025, 4096, 16383, 16385} {
						pos += hop
						ts = append(ts, long[pos]-1) // lands on position pos
					}
					add(c12In{K: "cur", Lists: [][]uint64{long}, Ts: ts})
					add(c12In{K: "cur", Lists: [][]uint64{long}, Ts: []uint64{long[16385], long[16385+16384], long[39999], long[39999] + 5}})
					add(c12In{K: "cur", Lists: [][]uint64{long}, Ts: []uint64{long[32769] - 2}})
					add(c12In{K: "fc", Lists: [][]uint64{long, {50000, 120000}}, Ts: []uint64{long[16390] - 1, long[33000]}})
				}
			}
			n := 700
			if tier == "thorough" {
				n = 60000
			}
			// members that are prefix views of one cumulative list, the shorter first and the shorter last
			for _, vs := range [][]int{{3, 6}, {6, 3}, {2, 2, 5}, {0, 4}, {1, 6, 3}} {
				one := []uint64{16, 32, 48, 64, 80, 96}
				add(c12In{K: "fc", Lists: [][]uint64{one}, Views: vs, Ts: []uint64{10, 49, 50, 81, 97}})
				add(c12In{K: "fc", Lists: [][]uint64{one}, Views: vs, Ts: []uint64{33, 65, 96, 200}})
			}
			// three and four lists with the minimum NOT in the first one: an earlier list stands on a larger entry X, a later one
			// on Y with min < Y < X; targets between Y and X (a remembered runner-up that is not the runner-up; seed C12-17,
			// which random lists stopped producing when the stream shifted) -- every order of the lists
			for _, ls := range [][][]uint64{
				{{50}, {10, 48}, {30, 44}}, {{10, 48}, {50}, {30, 44}}, {{30, 44}, {50}, {10, 48}}, {{50, 90}, {30, 44, 95}, {10, 48, 92}},
				{{80}, {50, 70}, {10, 66}, {30, 60}}, {{16, 160}, {32, 96}, {8, 128}, {24, 64, 200}},
			} {
				for _, ts := range [][]uint64{{5, 40, 45, 49, 51}, {40, 47, 100}, {11, 31, 45}, {9, 25, 61, 65, 67, 129, 161}} {
					add(c12In{K: "fc", Lists: ls, Ts: ts})
				}
			}
			for k := 0; k < n; k++ {
				span := uint64(pick(r, []int{6, 20, 100, 1000}))
				if r.Chance(10) {
					span = 1 << 62
				}
				ln := pick(r, []int{0, 1, 2, 3, 5, 8, 9, 16, 17, 33, 64, 100, 257, 300})
				switch k % 3 {
				case 0:
					l := sortedList(r, ln, span, 25)
					add(c12In{K: "cur", Lists: [][]uint64{l}, Ts: targets(r, l, 1+r.Intn(40), span)})
				case 1:
					g := 1 + r.Intn(5)
					if k%30 == 1 { // wide groups: more members than any machine-word bookkeeping holds
						g = pick(r, []int{63, 64, 65, 66, 70, 129, 200})
					}
					var ls [][]uint64
					var all []uint64
					for i := 0; i < g; i++ {
						m := r.Intn(ln + 1)
						if g > 60 { // short members that finish early next to long ones that stay alive
							m = pick(r, []int{1, 1, 2, 12})
						}
						l := sortedList(r, m, span, 25)
						ls = append(ls, l)
						all = append(all, l...)
					}
					if k%9 == 7 && ln > 0 { // members that are prefix views of one array (cumulative lists), in any order of lengths
						one := sortedList(r, ln, span, 10)
						var vs []int
						for i := 0; i < 2+r.Intn(3); i++ {
							vs = append(vs, r.Intn(len(one)+1))
						}
						add(c12In{K: "fc", Lists: [][]uint64{one}, Views: vs, Ts: targets(r, one, 1+r.Intn(20), span)})
						continue
					}
					in := c12In{K: "fc", Lists: ls, Ts: targets(r, all, 1+r.Intn(20), span)}
					if k%9 == 4 && len(all) > 0 { // members that were advanced (some of them to their end) before being grouped
						in.Pre = targets(r, all, 1+r.Intn(3), span)
					}
					add(in)
				case 2:
					g := r.Intn(9)
					if r.Bool() {
						g = 9 + r.Intn(40)
					}
					var ls [][]uint64
					var ts []uint64
					for i := 0; i < g; i++ {
						l := sortedList(r, r.Intn(12), 30, 25)
						ls = append(ls, l)
						ts = append(ts, uint64(r.Intn(34)))
					}
					add(c12In{K: "sort", Lists: ls, Ts: ts})
				}
			}
			// Sort over larger cursor sets: every position of one or two small heads among equal ones, reversed,
			// rotated, exhausted cursors in front (heads are list heads; target 0 leaves them in place)
			for _, n := range []int{9, 10, 12, 16, 17, 33, 64} {
				mk := func(heads []uint64) {
					var ls [][]uint64
					var ts []uint64
					for _, h := range heads {
						if h == 0 {
							ls = append(ls, []uint64{})
						} else {
							ls = append(ls, []uint64{h, h + 100})
						}
						ts = append(ts, 0)
					}
					add(c12In{K: "sort", Lists: ls, Ts: ts})
				}
				for pos := 0; pos < n; pos += 1 + n/12 {
					h := make([]uint64, n)
					for i := range h {
						h[i] = 5
					}
					h[pos] = 1
					h[(pos+6+n/3)%n] = 2
					mk(h)
					h2 := append([]uint64{}, h...)
					h2[0] = 0 // an exhausted cursor in front
					mk(h2)
				}
				rev := make([]uint64, n)
				rot := make([]uint64, n)
				for i := range rev {
					rev[i] = uint64(n - i)
					rot[i] = uint64((i+7)%n + 1)
				}
				mk(rev)
				mk(rot)
			}
			if tier == "thorough" { // exhaustive small scope
				var rec func(prefix []uint64, min uint64)
				rec = func(prefix []uint64, min uint64) {
					l := append([]uint64{}, prefix...)
					for t1 := uint64(0); t1 <= 6; t1++ {
						for t2 := uint64(0); t2 <= 6; t2++ {
							add(c12In{K: "cur", Lists: [][]uint64{l}, Ts: []uint64{t1, t2}})
						}
					}
					if len(prefix) == 6 {
						return
					}
					for v := min; v <= 5; v++ {
						rec(append(prefix, v), v)
					}
				}
				rec(nil, 1)
			}
		},
		extra: func(tier string, seed uint64, outdir string) (map[string]interface{}, []string) {
			v := extraViolations
			extraViolations = nil
			return map[string]interface{}{"sort_interface": "every sort case also sorted through sort.Sort (Len/Less/Swap) and compared with FieldCursors.Sort()"}, v
		},
		exec: func(raw json.RawMessage) (res execResult, err error) {
			var in c12In
			if err = json.Unmarshal(raw, &in); err != nil {
				return
			}
			res.Dist = in.K
			switch in.K {
			case "cur":
				l := in.Lists[0]
				c := be.NewEntriesCursor(be.NewQKey("f", 0), toEntries(l))
				init := uint64(c.GetCurEntryID())
				prev := init
				var outs []string
				var obs []uint64
				for _, t := range in.Ts {
					rv := uint64(c.SkipTo(be.EntryID(t)))
					cur := uint64(c.GetCurEntryID())
					if cur != prev {
						res.NonTrivial = len(l) > 0
					}
					prev = cur
					outs = append(outs, fmt.Sprintf("(%s, %s)", nl(rv), nl(cur)))
					obs = append(obs, rv)
				}
				res.Summary = obs
				res.Coq = fmt.Sprintf("CCur %s %s %s %s", nlistCompact(l), nlist(in.Ts), nl(init), listl(outs))
			case "fc":
				var cs []be.EntriesCursor
				nonEmpty := false
				if len(in.Views) > 0 {
					all := toEntries(in.Lists[0])
					var lists [][]uint64
					for i, n := range in.Views {
						cs = append(cs, be.NewEntriesCursor(be.NewQKey("f", i), all[:n]))
						lists = append(lists, in.Lists[0][:n])
						nonEmpty = nonEmpty || n > 0
					}
					in.Lists = lists
				}
				lists := in.Lists
				if len(in.Pre) > 0 {
					lists = nil
				}
				for i, l := range in.Lists {
					if len(in.Views) > 0 {
						break
					}
					c := be.NewEntriesCursor(be.NewQKey("f", i), toEntries(l))
					if len(in.Pre) > 0 {
						t := in.Pre[i%len(in.Pre)]
						c.SkipTo(be.EntryID(t))
						rest := []uint64{}
						for _, e := range l {
							if e >= t {
								rest = append(rest, e)
							}
						}
						lists = append(lists, rest)
					}
					cs = append(cs, c)
					nonEmpty = nonEmpty || len(l) > 0
				}
				fc := be.NewFieldCursor(cs...)
				init := uint64(fc.GetCurEntryID())
				prev := init
				var outs []string
				var obs []uint64
				for _, t := range in.Ts {
					rv := uint64(fc.SkipTo(be.EntryID(t)))
					if len(in.Ts)%2 == 0 { // on every other case: the (read-only) dump helpers are called between the steps
						_ = be.FieldCursors{fc}.DumpJustCursors()
					}
					cur := uint64(fc.GetCurEntryID())
					if cur != prev {
						res.NonTrivial = nonEmpty
					}
					prev = cur
					outs = append(outs, fmt.Sprintf("(%s, (%s, %s))", nl(rv), nl(cur), bl(fc.ReachEnd())))
					obs = append(obs, rv)
				}
				res.Summary = obs
				res.Coq = fmt.Sprintf("CFc %s %s %s %s", nlistlist(lists), nlist(in.Ts), nl(init), listl(outs))
			case "sort":
				var fcs be.FieldCursors
				var cs []string
				for i, l := range in.Lists {
					fc := be.NewFieldCursor(be.NewEntriesCursor(be.NewQKey("f", i), toEntries(l)))
					fc.SkipTo(be.EntryID(in.Ts[i]))
					fcs = append(fcs, fc)
					cs = append(cs, fmt.Sprintf("(%s, %s)", nlist(l), nl(in.Ts[i])))
				}
				before := make([]uint64, len(fcs))
				for i := range fcs {
					before[i] = uint64(fcs[i].GetCurEntryID())
				}
				// the same set sorted through the sort.Interface methods (Len / Less / Swap) must come out in the same
				// order of current entries as through Sort()
				_ = fcs.DumpJustCursors() // the dump helpers are read-only
				_ = fcs.Dump()
				viaIface := append(be.FieldCursors{}, fcs...)
				sort.Sort(viaIface)
				fcs.Sort()
				for i := range fcs {
					if viaIface[i].GetCurEntryID() != fcs[i].GetCurEntryID() && len(extraViolations) < 3 {
						extraViolations = append(extraViolations, fmt.Sprintf("sort.Sort(FieldCursors) and FieldCursors.Sort() disagree at position %d: entries before sorting %v", i, before))
						break
					}
				}
				out := make([]uint64, len(fcs))
				for i := range fcs {
					out[i] = uint64(fcs[i].GetCurEntryID())
					if out[i] != before[i] {
						res.NonTrivial = true
					}
				}
				res.Summary = out
				res.Coq = fmt.Sprintf("CSort %s %s", listl(cs), nlist(out))
			default:
				err = fmt.Errorf("bad kind %q", in.K)
			}
			return
		},
	}
}

// nlistCompact prints a long arithmetic progression as (arith_list n start step) and anything else in full
func nlistCompact(l []uint64) string {
	if len(l) > 2000 {
		step := l[1] - l[0]
		ok := true
		for i := 1; i < len(l); i++ {
			if l[i]-l[i-1] != step {
				ok = false
				break
			}
		}
		if ok {
			return fmt.Sprintf("(arith_list %d %s %s)", len(l), nl(l[0]), nl(step))
		}
	}
	return nlist(l)
}
