(* C06  Numeric range fields hit exactly per >, <, between [l,h) and in.  Statements only.
   Model/RangeIdx.v is a statement-by-statement model of RangeIdx.IndexingRange / Range.Explode
   (compared piece by piece with the real code through a hook on every run). *)
From Coq Require Import List NArith ZArith Bool.
From BE Require Import Model.GoTypes Model.GoVal Model.Parsers Model.Index Model.RangeIdx
                       Proofs.RangeIdxProof Proofs.RangeHolderProof.
From BE Require Gen.IdsGen Proofs.IndexCorrect Proofs.HoldersBuildInv Proofs.IndexCorrectHolders Proofs.NonVacuous Model.Spec Proofs.SpecBridge Proofs.SpecBridgeHolders.
Import ListNotations.
Local Open Scope Z_scope.

(* the interval index over ANY insert history (nested, adjacent, identical, overlapping ranges, in any
   order): the pieces stay a contiguous cover of [mn,mx) with non-empty pieces, and the piece holding x
   carries exactly the entries, in insertion order, of the ranges that contain x *)
Theorem C06_rangeidx_history : forall mn mx h, mn < mx ->
  Forall (fun y => let '(l, r, _) := y in mn <= l /\ l <= r) h ->
  chain mn mx (run mn mx h) /\ forall x, mn <= x < mx -> entries_at x (run mn mx h) = covering x h.
Proof. exact rangeidx_history. Qed.

(* operator -> interval, for every expansion threshold: the transaction produced for > / < / between
   selects exactly the integers of the parsed interval, whether it was expanded into discrete values
   or kept as an interval *)
Theorem C06_any_threshold_exact : forall thr op v incl l r, op = OpGT \/ op = OpLT \/ op = OpBetween ->
  parse_range op true v = POk (l, r) -> l <= r ->
  exists t, indexing_tx thr range_fd {| e_incl := incl; e_op := op; e_val := v |} = POk t /\
            forall x, tx_selects t x <-> l <= x < r.
Proof. exact range_tx_exact. Qed.

Theorem C06_gt_interval : forall a k, Z.abs a <= 4611686018427387904 -> ikind_signed k = true ->
  parse_range OpGT true (VInt k a) = POk (a + 1, max_i64).
Proof. exact gt_interval. Qed.
Theorem C06_lt_interval : forall b k, Z.abs b <= 4611686018427387904 -> ikind_signed k = true ->
  parse_range OpLT true (VInt k b) = POk (min_i64, b).
Proof. exact lt_interval. Qed.
Theorem C06_between_interval : forall l h n, l < h ->
  parse_range OpBetween true (VSlice TSint64 n [VInt KI64 l; VInt KI64 h]) = POk (l, h).
Proof. exact between_interval. Qed.

(* END TO END (see Props/C05.v for the reading of the hypotheses): documents -> concrete builder with fields in
   any container -> built index -> concrete retrieval reports exactly the satisfied conjunctions; for a
   range field the hit rule is C06_range_hit_rule_* below, whether the expression was expanded into
   discrete values (narrower than the threshold) or kept as an interval of the piece list. *)
Theorem C06_any_container_index_exact : forall kind pol thr parsers cfgl st0 ds st os q,
  HoldersBuildInv.config_fields (new_builder kind pol thr parsers) cfgl = Some st0 ->
  add_documents false st0 ds = (st, os) -> Forall (eq AddOk) os -> NoDup (map d_id ds) ->
  (forall d cj, In d ds -> In cj (d_conjs d) -> NoDup (map fst cj)) ->
  (pol <> PolSkip \/ forall d cj, In d ds -> In cj (d_conjs d) ->
       HoldersBuildInv.conj_ok' parsers (HoldersBuildInv.cfg_of cfgl) cj = true) ->
  (forall d cj, In d ds -> In cj (d_conjs d) -> HoldersBuildInv.conj_rwf thr (HoldersBuildInv.cfg_of cfgl) cj) ->
  NoDup (map fst q) ->
  (forall f v, In (f, v) q -> IndexCorrectHolders.qv_ok (HoldersBuildInv.cfg_of cfgl f) (parsers f) v = true) ->
  (kind = IKGroups -> forall f v, In (f, v) q -> HoldersBuildInv.cfg_of cfgl f = CAc -> IndexCorrectHolders.nil_slice_wf v) ->
  exists hits, retrieve_hits (build_index st) q = ROk hits /\ NoDup (map snd hits) /\
    (forall d k cj cid, IndexCorrect.has_conj ds d k cj cid ->
       (In cid (map snd hits) <-> IndexCorrectHolders.conj_sat' parsers (HoldersBuildInv.cfg_of cfgl) q cj = true)) /\
    (forall h, In h hits -> fst h = Gen.IdsGen.ConjID_DocID (snd h) /\ exists d k cj, IndexCorrect.has_conj ds d k cj (snd h)).
Proof. exact IndexCorrectHolders.index_correct_holders. Qed.

Theorem C06_range_hit_rule : forall p v e,
  IndexCorrectHolders.ehit CRange p v e = true <->
  exists xs x, parse_integers true v = POk xs /\ In x xs /\ IndexCorrectHolders.range_hit e x = true.
Proof. exact IndexCorrectHolders.ehit_range_iff. Qed.
Theorem C06_range_hit_rule_in : forall e x, e_op e = OpEQ ->
  (IndexCorrectHolders.range_hit e x = true <-> exists zs, parse_integers true (e_val e) = POk zs /\ In x zs).
Proof. exact IndexCorrectHolders.range_hit_in. Qed.
Theorem C06_range_hit_rule_op : forall e x, e_op e = OpGT \/ e_op e = OpLT \/ e_op e = OpBetween ->
  (IndexCorrectHolders.range_hit e x = true <->
   exists l r, parse_range (e_op e) true (e_val e) = POk (l, r) /\ l <= x < r).
Proof. exact IndexCorrectHolders.range_hit_op. Qed.

(* AGAINST THE SPECIFICATION (Model/Spec.v) for builders with any mix of containers (Proofs/SpecBridgeHolders.v): the
   reported (document, position, size) triples are a permutation of sat_hits over the configured field table.
   doc_good' = values are Go values the model represents exactly AND lie in the specification's domain
   (doc_dom, a boolean: keywords non-empty; a range expression's interval representable, i.e. not `> MaxInt64`,
   `< MinInt64`, between [MaxInt64, MaxInt64] -- in particular every bound of magnitude <= 2^62);
   asg_good' = assigned values are supported; asg_dom_for = no assigned integer is MaxInt64 on a field with a `>`. *)
Theorem C06_hits_are_the_specifications_any_container : forall kind pol thr parsers cfgl st0 ds st os q,
  HoldersBuildInv.config_fields (new_builder kind pol thr parsers) cfgl = Some st0 ->
  add_documents false st0 ds = (st, os) -> Forall (eq AddOk) os -> NoDup (map d_id ds) ->
  (forall d cj, In d ds -> In cj (d_conjs d) -> NoDup (map fst cj)) ->
  (forall d, In d ds -> SpecBridgeHolders.doc_good' parsers (HoldersBuildInv.cfg_of cfgl) d) ->
  (pol <> PolSkip \/ forall d cj, In d ds -> In cj (d_conjs d) ->
       Spec.conj_sem (SpecBridgeHolders.cfg_fields parsers cfgl) parsers cj <> None) ->
  ((- two64 < thr)%Z \/ forall d cj, In d ds -> In cj (d_conjs d) -> HoldersBuildInv.conj_rwf thr (HoldersBuildInv.cfg_of cfgl) cj) ->
  NoDup (map fst q) -> SpecBridgeHolders.asg_good' parsers cfgl q ->
  SpecBridgeHolders.asg_dom_for (HoldersBuildInv.cfg_of cfgl) ds q ->
  (kind = IKGroups -> forall f v, In (f, v) q -> HoldersBuildInv.cfg_of cfgl f = CAc -> IndexCorrectHolders.nil_slice_wf v) ->
  exists hits spec_hits,
    retrieve_hits (build_index st) q = ROk hits /\
    Spec.sat_hits (SpecBridgeHolders.cfg_fields parsers cfgl) parsers pol Spec.pl_docok ds q = Some spec_hits /\
    Permutation.Permutation (map (fun h : hitrec => SpecBridge.triple (snd h)) hits) spec_hits.
Proof. exact SpecBridgeHolders.index_sat_hits_holders. Qed.

(* the hypotheses of the end-to-end theorem are met by a concrete builder with a pattern and a range field,
   three documents (kept interval, expanded between, `in`, include and exclude keywords) and two assignments,
   for which the concrete retrievals return [12] and [10] *)
Example C06_end_to_end_nonvacuous :
  NonVacuous.ex2_ok IKGroups = true /\ NonVacuous.ex2_ok ICompact = true /\
  (forall d cj, In d NonVacuous.ex2_docs -> In cj (d_conjs d) -> HoldersBuildInv.conj_rwf 256 (HoldersBuildInv.cfg_of NonVacuous.ex2_cfg) cj).
Proof. split; [exact NonVacuous.holders_hypotheses_met_kgroups | split; [exact NonVacuous.holders_hypotheses_met_compact | exact NonVacuous.ex2_ranges_inside_int64]]. Qed.

Example C06_nonvacuous :
  map (fun p => (pl p, pr p, pe p)) (run (-1000) 1000 [(0, 10, 1%N); (5, 20, 2%N); (-1000, 7, 3%N)]) =
  [(-1000, 0, [3%N]); (0, 5, [1%N; 3%N]); (5, 7, [1%N; 2%N; 3%N]); (7, 10, [1%N; 2%N]); (10, 20, [2%N]); (20, 1000, [])].
Proof. vm_compute. reflexivity. Qed.

(* non-vacuity of the specification-level theorem: every hypothesis discharged on a concrete builder with pattern,
   range and default fields, both index kinds *)
Example C06_spec_nonvacuous : forall k st os,
  add_documents false (SpecBridgeHolders.BridgeWitnessH.st0 k) SpecBridgeHolders.BridgeWitnessH.ds = (st, os) ->
  exists hits spec_hits,
    retrieve_hits (build_index st) IndexCorrectHolders.WitnessH.q1 = ROk hits /\
    Spec.sat_hits SpecBridgeHolders.BridgeWitnessH.fields IndexCorrectHolders.WitnessH.ps PolError Spec.pl_docok
      SpecBridgeHolders.BridgeWitnessH.ds IndexCorrectHolders.WitnessH.q1 = Some spec_hits /\
    Permutation.Permutation (map (fun h : hitrec => SpecBridge.triple (snd h)) hits) spec_hits.
Proof. exact SpecBridgeHolders.BridgeWitnessH.sat_hits_instance. Qed.

Print Assumptions C06_rangeidx_history.
Print Assumptions C06_any_threshold_exact.
Print Assumptions C06_gt_interval.
Print Assumptions C06_lt_interval.
Print Assumptions C06_between_interval.
Print Assumptions C06_any_container_index_exact.
Print Assumptions C06_range_hit_rule.
Print Assumptions C06_range_hit_rule_in.
Print Assumptions C06_range_hit_rule_op.
Print Assumptions C06_hits_are_the_specifications_any_container.
