package main

import (
	"encoding/json"
	"fmt"
	"sort"
)

const c06Rule = "(half of the end-to-end cases over TWO range fields) range fields: expressions > a, < b, between [l,h) and in{..}, each as include or exclude, bounds from {small values, +-2^62 and +-2^62-+1, adjacent/identical/nested/overlapping intervals}, narrow ranges (< 256 wide: expanded to values) and wide ranges (interval index), multi-valued assignments (ints, numeric strings, floats) at every boundary +-1, on the k-groups and compact indexes; through the hook: RangeIdx insert histories of 0..8 ranges (piece list before Compile compared piece by piece with the model, Retrieve probed at every boundary +-1 after Compile); thorough adds every history of <= 3 ranges over bounds {-2..3}. cached builds of conjunctions with two range fields; RangeIdx histories over configured domains [min,max) with ranges ending at, starting at, straddling and outside the domain; in / not-in lists of 256..300 entries (contiguous, with a gap, with a repeat, with as many repeats as gaps); Non-trivial = some query returns a non-empty proper subset of the documents (end to end) / the history has at least two overlapping ranges (histories); distinct = distinct input"

type histIn struct {
	Hist   bool       `json:"hist"`
	Min    int64      `json:"min"`
	Max    int64      `json:"max"`
	Ranges [][3]int64 `json:"ranges"` // left, right, entry id
	Probes []int64    `json:"probes"`
}

func genBounds(r *Rand) []int64 {
	// 2^53+1 and 2^53+3: integers a float64 cannot hold (number texts must be read as integers, not through floats)
	base := []int64{-3, 0, 1, 5, 9, 10, 100, 255, 256, 300, 1000, 5000, 1 << 40, -(1 << 40), 1<<53 + 1, -(1<<53 + 1), 1<<53 + 3}
	if r.Chance(25) {
		base = append(base, 1<<62, 1<<62-1, -(1 << 62), -(1<<62 - 1), 1<<62-300, -(1<<62 - 300))
	}
	n := 3 + r.Intn(5)
	out := make([]int64, n)
	for i := range out {
		out[i] = pick(r, base) + int64(r.Intn(3)-1)
		if out[i] > 1<<62 {
			out[i] = 1 << 62
		}
		if out[i] < -(1 << 62) {
			out[i] = -(1 << 62)
		}
	}
	return out
}

func rangeExpr(r *Rand, bs []int64, inc bool) eExpr {
	a, b := pick(r, bs), pick(r, bs)
	if a > b {
		a, b = b, a
	}
	switch r.Intn(6) {
	case 0:
		vs := []TV{tvInt("int64", a), tvInt("int", a), tvStr(fmt.Sprint(a))}
		if a > -(1<<40) && a < 1<<40 { // the operand as a float, as in a document decoded from JSON (integral and fractional, both signs)
			vs = append(vs, tvFloat("float64", float64(a)), tvFloat("float64", float64(-a)), tvFloat("float64", float64(a)+0.5), tvFloat("float32", float64(a%1000)))
		}
		return eExpr{F: 2, Inc: inc, Op: 1, V: pick(r, vs)}
	case 1:
		vs := []TV{tvInt("int64", b), tvInt("int32", int64(int32(b))), tvJSON(fmt.Sprint(b))}
		if b > -(1<<40) && b < 1<<40 {
			vs = append(vs, tvFloat("float64", float64(b)), tvFloat("float64", float64(-b)), tvFloat("float64", float64(b)-0.5))
		}
		return eExpr{F: 2, Inc: inc, Op: 2, V: pick(r, vs)}
	case 2:
		return eExpr{F: 2, Inc: inc, V: tvSlice("[]int64", tvInt("int64", a), tvInt("int64", b), tvInt("int64", a))}
	case 3: // narrow between
		w := int64(1 + r.Intn(300))
		if a+w > 1<<62 {
			a -= w
		}
		return eExpr{F: 2, Inc: inc, Op: 3, V: tvSlice("[]int64", tvInt("int64", a), tvInt("int64", a+w))}
	default:
		if a == b {
			b = a + 1 + int64(r.Intn(2000))
			if b > 1<<62 {
				a, b = a-2000, a
			}
		}
		switch r.Intn(3) {
		case 0:
			return eExpr{F: 2, Inc: inc, Op: 3, V: TV{T: "[2]int64", L: []TV{tvInt("int64", a), tvInt("int64", b)}}}
		case 1:
			return eExpr{F: 2, Inc: inc, Op: 3, V: tvStr(fmt.Sprintf("%d:%d", a, b))}
		}
		return eExpr{F: 2, Inc: inc, Op: 3, V: tvSlice("[]int64", tvInt("int64", a), tvInt("int64", b))}
	}
}

// rangeDocset: documents over one or two range fields (field 2, 3) and a default field (0), with queries probing every
// bound +-1
// rangeSplitCases: many kept intervals over one field, added in an order that splits pieces already holding 1..9
// entries (posting lists with and without spare capacity behind them), every later interval landing on one side of an
// earlier split, so that sibling pieces are appended to independently; ids positive, negative in ascending order
// (entries order negatives by magnitude) and a later document entering through a lower conjunction position.
func rangeSplitCases(add func(in interface{})) {
	for _, kind := range []string{"kgroups", "compact"} {
		gt := func(id, a int64) eDoc {
			return eDoc{ID: id, Cons: []eConj{{{F: 0, Inc: true, V: tvStr("nowhere")}}, {{F: 2, Inc: true, Op: 1, V: tvInt("int64", a)}}}}
		}
		lt := func(id, b int64) eDoc {
			return eDoc{ID: id, Cons: []eConj{{{F: 2, Inc: true, Op: 2, V: tvInt("int64", b)}}}}
		}
		bt := func(id, a, b int64) eDoc {
			return eDoc{ID: id, Cons: []eConj{{{F: 2, Inc: true, Op: 3, V: tvSlice("[]int64", tvInt("int64", a), tvInt("int64", b))}}}}
		}
		probe := func(c *eCase, xs ...int64) {
			for _, x := range xs {
				c.Queries = append(c.Queries, eQuery{A: []eAssign{{F: 2, V: tvInt("int64", x)}}})
			}
		}
		for _, k := range []int{1, 2, 3, 4, 5, 6, 7, 9} {
			c := eCase{Kind: kind, Policy: "error", Configs: map[int]string{2: "ext_range"}}
			id := int64(1)
			for j := 0; j < k; j++ { // k documents covering (0, max): one piece with k entries
				c.Docs = append(c.Docs, gt(id, 0))
				id++
			}
			c.Docs = append(c.Docs, gt(id, 1000), lt(id+1, 500), gt(id+2, 2000), lt(id+3, 1500), lt(id+4, 5))
			probe(&c, -3, 0, 1, 4, 5, 6, 499, 500, 501, 1000, 1001, 1499, 1500, 1501, 2000, 2001, 9000)
			add(c)
			// the same shape with between: k wide intervals, then narrower ones strictly inside, left and right
			c2 := eCase{Kind: kind, Policy: "error", Configs: map[int]string{2: "ext_range"}}
			for j := 0; j < k; j++ {
				c2.Docs = append(c2.Docs, bt(int64(j+1), 0, 10000))
			}
			c2.Docs = append(c2.Docs, bt(int64(k+1), 2000, 3000), bt(int64(k+2), 5000, 6000), bt(int64(k+3), 2500, 5500), bt(int64(k+4), 100, 400))
			probe(&c2, -1, 0, 99, 100, 399, 400, 1999, 2000, 2499, 2500, 2999, 3000, 4999, 5000, 5499, 5500, 5999, 6000, 9999, 10000)
			add(c2)
		}
		// negative ids added in ascending order, and a later document using a LOWER conjunction position
		c3 := eCase{Kind: kind, Policy: "error", Configs: map[int]string{2: "ext_range"}}
		for _, id := range []int64{-40, -30, -20} {
			c3.Docs = append(c3.Docs, bt(id, 0, 10000))
		}
		c3.Docs = append(c3.Docs, bt(-15, 6000, 8000), bt(-10, 0, 5000), bt(-5, 6500, 7500))
		probe(&c3, 0, 4999, 5000, 5999, 6000, 6499, 6500, 7000, 7499, 7500, 7999, 8000, 9999)
		add(c3)
		c4 := eCase{Kind: kind, Policy: "error", Configs: map[int]string{2: "ext_range"}}
		two := func(id, a, b int64) eDoc { // the interval sits in conjunction position 1
			d := bt(id, a, b)
			d.Cons = append([]eConj{{{F: 0, Inc: true, V: tvStr("nowhere")}}}, d.Cons...)
			return d
		}
		c4.Docs = []eDoc{two(5, 0, 10000), two(6, 0, 10000), two(7, 0, 10000), bt(9, 6000, 8000), bt(8, 0, 5000), two(10, 6500, 7500)}
		probe(&c4, 0, 4999, 5000, 6000, 6500, 7000, 7500, 8000, 9999)
		add(c4)
	}
}

// rangeCachedCases: builders with a cache provider, conjunctions cached because of one long expression and carrying
// TWO range fields (between/between of equal width and spelling length, >/<, in/in) -- builds served from the cache
// must index each field with its own range
func rangeCachedCases(add func(in interface{})) {
	ints := func(k, off int) TV {
		l := make([]TV, k)
		for i := range l {
			l[i] = tvInt("int64", int64(off+i))
		}
		return tvSlice("[]int64", l...)
	}
	btw := func(f int, a, b int64) eExpr {
		return eExpr{F: f, Inc: true, Op: 3, V: tvSlice("[]int64", tvInt("int64", a), tvInt("int64", b))}
	}
	for _, kind := range []string{"kgroups", "compact"} {
		c := eCase{Kind: kind, Policy: "error", Configs: map[int]string{2: "ext_range", 3: "ext_range"}}
		c.Docs = []eDoc{
			{ID: 1, Cons: []eConj{{btw(2, 20, 30), btw(3, 60, 70), {F: 0, Inc: true, V: ints(5, 0)}}}},
			{ID: 2, Cons: []eConj{{{F: 2, Inc: true, Op: 1, V: tvInt("int64", 25)}, {F: 3, Inc: true, Op: 2, V: tvInt("int64", 65)}, {F: 0, Inc: true, V: ints(4, 2)}}}},
			{ID: 3, Cons: []eConj{{{F: 2, Inc: true, V: ints(3, 21)}, {F: 3, Inc: true, V: ints(3, 61)}}}},
			{ID: 4, Cons: []eConj{{btw(2, 10, 400), btw(3, 50, 440), {F: 0, Inc: false, V: ints(3, 7)}}}},
			{ID: -5, Cons: []eConj{{btw(3, 20, 30), btw(2, 60, 70), {F: 0, Inc: true, V: ints(6, 0)}}}},
		}
		for _, a := range []int64{22, 62, 26, 15, 300, 420} {
			for _, b := range []int64{62, 22, 64, 66, 300, 420} {
				c.Queries = append(c.Queries, eQuery{A: []eAssign{{F: 2, V: tvInt("int64", a)}, {F: 3, V: tvInt("int64", b)}, {F: 0, V: tvInt("int", 3)}}})
			}
		}
		add(cacheIn{Cache: true, Case: c, Thr: 2, Seed: 93, MissPct: 0, DropPct: 0})
		add(cacheIn{Cache: true, Case: c, Thr: 2, Seed: 193, MissPct: 0, DropPct: 0, Trunc: 60}) // some writes cut short: entries found with their payload lost
		add(cacheIn{Cache: true, Case: c, Thr: 2, Seed: 94, MissPct: 30, DropPct: 0, Retain: true})
	}
}

// rangeLongInLists: in / not-in lists of 256 and more entries on a range field -- contiguous, with one value missing,
// with one value repeated, with as many repeats as gaps (as long as its span, yet not a run)
func rangeLongInLists(add func(in interface{})) {
	list := func(from, n int64, skip, dup int64) TV {
		var l []TV
		for v := from; v < from+n; v++ {
			if v == skip {
				continue
			}
			l = append(l, tvInt("int64", v))
			if v == dup {
				l = append(l, tvInt("int64", v))
			}
		}
		return tvSlice("[]int64", l...)
	}
	for _, kind := range []string{"kgroups", "compact"} {
		c := eCase{Kind: kind, Policy: "error", Configs: map[int]string{2: "ext_range"}}
		c.Docs = []eDoc{
			{ID: 1, Cons: []eConj{{{F: 2, Inc: true, V: list(1000, 300, 1100, 1200)}}}},
			{ID: 2, Cons: []eConj{{{F: 0, Inc: true, V: tvSlice("[]int", tvInt("int", 1))}, {F: 2, Inc: false, V: list(1000, 300, 1100, 1200)}}}},
			{ID: 3, Cons: []eConj{{{F: 2, Inc: true, V: list(2000, 300, -1, -1)}}}},
			{ID: 4, Cons: []eConj{{{F: 2, Inc: true, V: list(3000, 300, 3100, -1)}}}},
			{ID: 5, Cons: []eConj{{{F: 2, Inc: true, V: list(4000, 256, -1, 4100)}}}},
		}
		for _, a := range []int64{1100, 1099, 1101, 1200, 1000, 1299, 1300, 999, 2000, 2150, 2299, 2300, 3100, 3099, 4100, 4255, 4256} {
			c.Queries = append(c.Queries, eQuery{A: []eAssign{{F: 2, V: tvInt("int64", a)}, {F: 0, V: tvInt("int", 1)}}})
		}
		add(c)
	}
}

// rangeFloatBoundCases: > and < whose operand is a float (integral and fractional, negative and positive), probed at
// the bound and next to it
func rangeFloatBoundCases(add func(in interface{})) {
	for _, kind := range []string{"kgroups", "compact"} {
		c := eCase{Kind: kind, Policy: "error", Configs: map[int]string{2: "ext_range"}}
		for i, f := range []float64{-18, -2.5, 0, 2.5, 18, -1} {
			c.Docs = append(c.Docs, eDoc{ID: int64(2*i + 1), Cons: []eConj{{{F: 2, Inc: true, Op: 1, V: tvFloat("float64", f)}}}},
				eDoc{ID: int64(2*i + 2), Cons: []eConj{{{F: 2, Inc: true, Op: 2, V: tvFloat("float64", f)}}}})
		}
		for _, x := range []int64{-20, -19, -18, -17, -3, -2, -1, 0, 1, 2, 3, 17, 18, 19} {
			c.Queries = append(c.Queries, eQuery{A: []eAssign{{F: 2, V: tvInt("int64", x)}}})
		}
		add(c)
	}
}

func rangeDocset(r *Rand, kind string, two bool) eCase {
	bs := genBounds(r)
	c := eCase{Kind: kind, Policy: "error", Configs: map[int]string{2: "ext_range", 3: "ext_range"}}
	nd := 1 + r.Intn(6)
	for d := 0; d < nd; d++ {
		doc := eDoc{ID: int64(d+1) * int64(1-2*r.Intn(2))}
		for k := 1 + r.Intn(2); k > 0; k-- {
			var cj eConj
			for e := 1 + r.Intn(3); e > 0; e-- {
				if r.Chance(80) {
					e := rangeExpr(r, bs, r.Chance(65))
					if two && r.Bool() {
						e.F = 3
					}
					cj = append(cj, e)
				} else {
					cj = append(cj, eExpr{F: 0, Inc: r.Chance(70), V: intsShape(r, randVals(r, 1, 3))})
				}
			}
			doc.Cons = append(doc.Cons, cj)
		}
		c.Docs = append(c.Docs, doc)
	}
	for q := 10 + r.Intn(8); q > 0; q-- {
		var a []eAssign
		if r.Chance(90) {
			m := 1 + r.Intn(3)
			l := make([]TV, m)
			for j := range l {
				l[j] = tvInt("int64", pick(r, bs)+int64(r.Intn(3)-1))
			}
			switch {
			case m == 1 && r.Chance(40):
				a = append(a, eAssign{F: 2, V: pick(r, []TV{l[0], tvStr(fmt.Sprint(*l[0].I)), tvInt("int", *l[0].I), tvJSON(fmt.Sprint(*l[0].I)),
					tvSlice("[]string", tvStr(fmt.Sprint(*l[0].I))), tvList(tvJSON(fmt.Sprint(*l[0].I)))})})
			case r.Chance(30):
				a = append(a, eAssign{F: 2, V: tvList(l...)})
			default:
				a = append(a, eAssign{F: 2, V: tvSlice("[]int64", l...)})
			}
		}
		if r.Chance(40) {
			a = append(a, eAssign{F: 0, V: tvInt("int", r.I64(1, 4))})
		}
		if two && r.Chance(70) {
			a = append(a, eAssign{F: 3, V: tvInt("int64", pick(r, bs)+int64(r.Intn(3)-1))})
		}
		c.Queries = append(c.Queries, eQuery{A: a})
	}
	c.Queries = append(c.Queries, eQuery{})
	if r.Chance(20) {
		c = withPre(c)
	}
	return c
}

func init() {
	props["C06"] = &propDef{
		header:    "From BE Require Import Corr.CheckC06.",
		headers:   map[string]string{"E": "From BE Require Import Corr.CheckE2E.", "H": "From BE Require Import Corr.CheckRange.", "C": "From BE Require Import Corr.CheckCache."},
		rule:      c06Rule,
		shardSize: 60,
		gen: func(tier string, r *Rand, add func(in interface{})) {
			n := 50
			if tier == "thorough" {
				n = 4000
			}
			rangeSplitCases(add)
			rangeFloatBoundCases(add)
			rangeCachedCases(add)
			rangeLongInLists(add)
			for i := 0; i < n; i++ {
				kind := "kgroups"
				if i%2 == 1 {
					kind = "compact"
				}
				add(rangeDocset(r, kind, i%4 >= 2)) // half of them over two range fields: each must keep its own values and intervals
			}
			// RangeIdx insert histories (hook)
			rangeDomainEdgeHists(add)
			nh := 150
			if tier == "thorough" {
				nh = 20000
			}
			mkHist := func(mn, mx int64, rs [][2]int64) histIn {
				h := histIn{Hist: true, Min: mn, Max: mx}
				pts := map[int64]bool{}
				for i, rg := range rs {
					h.Ranges = append(h.Ranges, [3]int64{rg[0], rg[1], int64(16*(100+i) + i%2)})
					for _, p := range []int64{rg[0] - 1, rg[0], rg[0] + 1, rg[1] - 1, rg[1], rg[1] + 1} {
						pts[p] = true
					}
				}
				pts[mn], pts[mx-1], pts[mx], pts[mn-1] = true, true, true, true
				for p := range pts {
					h.Probes = append(h.Probes, p)
				}
				sort.Slice(h.Probes, func(i, j int) bool { return h.Probes[i] < h.Probes[j] })
				return h
			}
			for i := 0; i < nh; i++ {
				mn, mx := int64(-1<<63), int64(1<<63-1)
				if r.Chance(30) {
					mn, mx = -1000, 1000
				}
				bs := genBounds(r)
				var rs [][2]int64
				for k := r.Intn(9); k > 0; k-- {
					a, b := pick(r, bs), pick(r, bs)
					if a > b {
						a, b = b, a
					}
					if mn > -1<<63 {
						a, b = a%900, b%900
						if a > b {
							a, b = b, a
						}
					}
					switch r.Intn(5) {
					case 0:
						a = mn // like "< b"
					case 1:
						b = mx // like "> a"
					}
					rs = append(rs, [2]int64{a, b})
				}
				add(mkHist(mn, mx, rs))
			}
			if tier == "thorough" { // every history of <= 3 ranges over {-2..3}
				var all [][2]int64
				for a := int64(-2); a <= 3; a++ {
					for b := a; b <= 3; b++ {
						all = append(all, [2]int64{a, b})
					}
				}
				for _, x := range all {
					add(mkHist(-5, 6, [][2]int64{x}))
					for _, y := range all {
						add(mkHist(-5, 6, [][2]int64{x, y}))
						for _, z := range all {
							add(mkHist(-5, 6, [][2]int64{x, y, z}))
						}
					}
				}
			}
		},
		exec: func(raw json.RawMessage) (execResult, error) {
			var probe struct {
				Hist  bool `json:"hist"`
				Cache bool `json:"cache"`
			}
			json.Unmarshal(raw, &probe)
			if probe.Cache {
				return execCache(raw)
			}
			if !probe.Hist {
				res, err := execE2E(raw)
				res.Family = "E"
				return res, err
			}
			return execRangeHist(raw)
		},
	}
}

// execRangeHist: one RangeIdx insert history through the hook (pieces before Compile, Retrieve probes after it)
func execRangeHist(raw json.RawMessage) (execResult, error) {
	var h histIn
	if err := json.Unmarshal(raw, &h); err != nil {
		return execResult{}, err
	}
	var res execResult
	res.Family = "H"
	res.Dist = "history"
	pieces, probes, ok := runRangeHistory(h.Min, h.Max, h.Ranges, h.Probes)
	var hl []string
	for _, x := range h.Ranges {
		hl = append(hl, fmt.Sprintf("(%s, %s, %s)", zl(x[0]), zl(x[1]), nl(uint64(x[2]))))
	}
	if !ok {
		res.Dist = "history/hook-unavailable"
		res.Coq = fmt.Sprintf("Build_hcase %s %s %s None", zl(h.Min), zl(h.Max), listl(hl))
		return res, nil
	}
	overlap := false
	for i := range h.Ranges {
		for j := i + 1; j < len(h.Ranges); j++ {
			if h.Ranges[i][0] < h.Ranges[j][1] && h.Ranges[j][0] < h.Ranges[i][1] {
				overlap = true
			}
		}
	}
	res.NonTrivial = overlap
	res.Summary = fmt.Sprintf("%d ranges", len(h.Ranges))
	res.Coq = fmt.Sprintf("Build_hcase %s %s %s (Some (%s, %s))", zl(h.Min), zl(h.Max), listl(hl), pieces, probes)
	return res, nil
}

// rangeDomainEdgeHists: a RangeIdx over a configured domain [min, max) (RangeHolderOption.RangeMin / RangeMax) and
// ranges that end exactly at min, start exactly at max, touch, straddle or lie outside the domain, alone and after
// ranges inside it: a range denoting no value of the domain must not come back as some value of it
func rangeDomainEdgeHists(add func(in interface{})) {
	for _, dom := range [][2]int64{{18, 100}, {-50, 50}, {0, 1 << 40}} {
		mn, mx := dom[0], dom[1]
		for _, rs := range [][][2]int64{
			{{mn - 8, mn}}, {{mn - 1, mn}}, {{mn, mn}}, {{mn - 300, mn}}, {{mx, mx + 5}}, {{mx, mx}}, {{mx - 1, mx}}, {{mx - 1, mx + 1}}, {{mn - 5, mn + 5}}, {{mn - 5, mx + 5}},
			{{mn, mn + 1}}, {{mn + 1, mn + 1}}, {{mn - 9, mn - 3}}, {{mx + 3, mx + 9}}, {{mn, mx}},
			{{mn + 2, mn + 9}, {mn - 8, mn}, {mn, mn + 3}}, {{mn, mx}, {mn - 4, mn}, {mx, mx + 4}}, {{mn + 1, mx - 1}, {mn - 1, mn}, {mn - 1, mn + 1}, {mx - 1, mx}},
		} {
			h := histIn{Hist: true, Min: mn, Max: mx}
			pts := map[int64]bool{mn: true, mn - 1: true, mn + 1: true, mx - 1: true, mx: true, mx + 1: true}
			for i, rg := range rs {
				h.Ranges = append(h.Ranges, [3]int64{rg[0], rg[1], int64(16*(100+i) + i%2)})
				for _, p := range []int64{rg[0] - 1, rg[0], rg[0] + 1, rg[1] - 1, rg[1], rg[1] + 1} {
					pts[p] = true
				}
			}
			for p := range pts {
				h.Probes = append(h.Probes, p)
			}
			sort.Slice(h.Probes, func(i, j int) bool { return h.Probes[i] < h.Probes[j] })
			add(h)
		}
	}
}
