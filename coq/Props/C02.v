(* C02  Compact index returns exactly the documents whose DNF is satisfied.  Statements only.
   The compact scan is the generic conjunction scan with needf c = max 1 (size c). *)
From Coq Require Import List NArith ZArith Bool Permutation.
From Coq Require Import ZArith.
From BE Require Proofs.CursorGenProof Proofs.RetrieveKGenProof Proofs.CompactGenProof.
From BE Require Import Model.Scan Model.Cursor Proofs.ScanProof Proofs.Refine Proofs.ConcreteScan.
From BE Require Model.GoVal Model.Parsers Model.Index Gen.IdsGen Proofs.RoaringProof Proofs.IndexBuildInv Proofs.IndexCorrect Proofs.NonVacuous Model.Spec Proofs.SpecBridge Proofs.HoldersBuildInv Proofs.IndexCorrectHolders Proofs.SpecBridgeHolders Proofs.IndexCorrectPolicy Proofs.SpecBridgeHoldersPolicy.
Import ListNotations.
Local Open Scope N_scope.

(* for ANY sorted streams, monotone need function >= 1 and "a conjunction's include entry sits in at
   most need streams": the scan terminates and returns exactly, once each, the conjunctions with no
   exclude entry and at least `need` include entries *)
Theorem C02_generic_scan_exact : forall (needf : N -> nat) (os : list stream),
  (forall c, (1 <= needf c)%nat) -> (forall c c', c <= c' -> (needf c <= needf c')%nat) ->
  Forall sorted os -> (forall c, (cnt (c, true) os <= needf c)%nat) ->
  exists r, scan needf os = Some r /\
            (forall x, In x r <-> cnt (x, false) os = O /\ (needf x <= cnt (x, true) os)%nat) /\ NoDup r.
Proof. exact scan_correct. Qed.

(* the CONCRETE compact loop of the executable model (Model/Index.v: cp_loop; need = max 1 (size of the
   smallest conjunction), exit when need exceeds the live cursors, exhausted cursors trimmed after every
   round): terminates within its fuel and reports, once each, exactly the conjunctions with no exclude
   entry and at least `cneed c` include entries; cneed c = max 1 (ConjID.Size c) for every real id *)
Theorem C02_concrete_compact_loop_exact : forall cs ss,
  Forall2 Rel cs ss -> Forall live cs -> (forall c, (cnt (c, true) ss <= cneed c)%nat) ->
  exists res, Index.cp_loop (S (Index.fc_total cs)) (sort_fcursors cs) [] = Some res /\
    (forall x, In x (map snd res) <-> satf cneed ss x) /\ NoDup (map snd res) /\
    (forall h, In h res -> fst h = IdsGen.ConjID_DocID (snd h)).
Proof. exact cp_loop_correct. Qed.

Theorem C02_need_is_the_codes : forall c, c < 2^60 -> Z.to_nat (Z.max 1 (IdsGen.ConjID_Size c)) = cneed c.
Proof. exact cneed_eq. Qed.

(* END TO END over the executable model (Model/Index.v), compact builder, default-container fields, any
   parser configuration: same statement as C01's, for the single-container index (see Props/C01.v for
   the reading of conj_sat) *)
Theorem C02_compact_index_exact : forall pol thr parsers ds st os q,
  Index.add_documents false (Index.new_builder Index.ICompact pol thr parsers) ds = (st, os) ->
  Forall (eq Index.AddOk) os -> NoDup (map Index.d_id ds) ->
  (forall d cj, In d ds -> In cj (Index.d_conjs d) -> NoDup (map fst cj)) ->
  (pol <> Index.PolSkip \/ forall d cj, In d ds -> In cj (Index.d_conjs d) -> IndexBuildInv.conj_ok parsers cj = true) ->
  NoDup (map fst q) ->
  (forall f v, In (f, v) q -> exists ids, Parsers.parse_assign (parsers f) v = GoVal.POk ids) ->
  exists hits,
    Index.retrieve_compact_hits (Index.build_index st) q = Index.ROk hits /\
    NoDup (map snd hits) /\
    (forall d k cj cid, IndexCorrect.has_conj ds d k cj cid ->
       (In cid (map snd hits) <-> IndexCorrect.conj_sat parsers q cj = true)) /\
    (forall h, In h hits -> fst h = IdsGen.ConjID_DocID (snd h) /\
                            exists d k cj, IndexCorrect.has_conj ds d k cj (snd h)).
Proof. exact IndexCorrect.compact_index_correct. Qed.

Theorem C02_compact_documents_exact : forall pol thr parsers ds st os q,
  Index.add_documents false (Index.new_builder Index.ICompact pol thr parsers) ds = (st, os) ->
  Forall (eq Index.AddOk) os -> NoDup (map Index.d_id ds) ->
  (forall d cj, In d ds -> In cj (Index.d_conjs d) -> NoDup (map fst cj)) ->
  (pol <> Index.PolSkip \/ forall d cj, In d ds -> In cj (Index.d_conjs d) -> IndexBuildInv.conj_ok parsers cj = true) ->
  NoDup (map fst q) ->
  (forall f v, In (f, v) q -> exists ids, Parsers.parse_assign (parsers f) v = GoVal.POk ids) ->
  exists docs,
    Index.retrieve (Index.build_index st) q = Index.ROk docs /\
    (forall d, In d ds ->
       (In (Index.d_id d) docs <-> exists cj, In cj (Index.d_conjs d) /\ IndexCorrect.conj_sat parsers q cj = true)) /\
    (forall z, In z docs -> exists d, In d ds /\ z = Index.d_id d).
Proof. intros pol thr parsers. exact (IndexCorrect.retrieve_docs_correct Index.ICompact pol thr parsers). Qed.

(* END TO END AGAINST THE SPECIFICATION (Model/Spec.v: what an expression and an assigned value DENOTE -- canonical
   texts / integers --, `hit`, `sat_conj`, `sat_hits`; no ids, no parsers' output, no posting lists), default-container
   fields under any parser configuration: for any document set accepted by the concrete compact builder and any
   assignment whose values are supported (doc_good / asg_good: values are Go values the model represents exactly,
   assigned values denote something), the concrete retrieval succeeds, reports no conjunction twice, every
   indexed conjunction denotes, and a conjunction is reported iff the specification says it is satisfied *)
Theorem C02_index_exact_against_spec : forall pol thr parsers ds st os q,
  Index.add_documents false (Index.new_builder Index.ICompact pol thr parsers) ds = (st, os) ->
  Forall (eq Index.AddOk) os -> NoDup (map Index.d_id ds) ->
  (forall d cj, In d ds -> In cj (Index.d_conjs d) -> NoDup (map fst cj)) ->
  (forall d, In d ds -> SpecBridge.doc_good parsers d) ->
  (pol <> Index.PolSkip \/ forall d cj, In d ds -> In cj (Index.d_conjs d) -> Spec.conj_sem [] parsers cj <> None) ->
  NoDup (map fst q) -> SpecBridge.asg_good parsers q ->
  exists hits,
    Index.retrieve_hits (Index.build_index st) q = Index.ROk hits /\ NoDup (map snd hits) /\
    (forall d k cj cid, IndexCorrect.has_conj ds d k cj cid ->
       Spec.conj_sem [] parsers cj <> None /\
       forall sc, Spec.conj_sem [] parsers cj = Some sc ->
         (In cid (map snd hits) <-> Spec.sat_conj [] parsers q sc = Some true)) /\
    (forall h, In h hits -> fst h = IdsGen.ConjID_DocID (snd h) /\ exists d k cj, IndexCorrect.has_conj ds d k cj (snd h)).
Proof. intros pol thr parsers. exact (SpecBridge.index_correct_spec Index.ICompact pol thr parsers). Qed.

(* ... the reported (document, position, size) triples are, as a multiset, exactly the specification's sat_hits *)
Theorem C02_hits_are_the_specifications : forall pol thr parsers ds st os q,
  Index.add_documents false (Index.new_builder Index.ICompact pol thr parsers) ds = (st, os) ->
  Forall (eq Index.AddOk) os -> NoDup (map Index.d_id ds) ->
  (forall d cj, In d ds -> In cj (Index.d_conjs d) -> NoDup (map fst cj)) ->
  (forall d, In d ds -> SpecBridge.doc_good parsers d) ->
  (pol <> Index.PolSkip \/ forall d cj, In d ds -> In cj (Index.d_conjs d) -> Spec.conj_sem [] parsers cj <> None) ->
  NoDup (map fst q) -> SpecBridge.asg_good parsers q ->
  exists hits spec_hits,
    Index.retrieve_hits (Index.build_index st) q = Index.ROk hits /\
    Spec.sat_hits [] parsers pol Spec.pl_docok ds q = Some spec_hits /\
    Permutation (map (fun h : Index.hitrec => SpecBridge.triple (snd h)) hits) spec_hits.
Proof. intros pol thr parsers. exact (SpecBridge.index_sat_hits Index.ICompact pol thr parsers). Qed.

(* ... and on documents *)
Theorem C02_documents_exact_against_spec : forall pol thr parsers ds st os q,
  Index.add_documents false (Index.new_builder Index.ICompact pol thr parsers) ds = (st, os) ->
  Forall (eq Index.AddOk) os -> NoDup (map Index.d_id ds) ->
  (forall d cj, In d ds -> In cj (Index.d_conjs d) -> NoDup (map fst cj)) ->
  (forall d, In d ds -> SpecBridge.doc_good parsers d) ->
  (pol <> Index.PolSkip \/ forall d cj, In d ds -> In cj (Index.d_conjs d) -> Spec.conj_sem [] parsers cj <> None) ->
  NoDup (map fst q) -> SpecBridge.asg_good parsers q ->
  exists docs,
    Index.retrieve (Index.build_index st) q = Index.ROk docs /\
    (forall d, In d ds ->
       (In (Index.d_id d) docs <-> exists cj sc, In cj (Index.d_conjs d) /\ Spec.conj_sem [] parsers cj = Some sc /\
                                                 Spec.sat_conj [] parsers q sc = Some true)) /\
    (forall z, In z docs -> exists d, In d ds /\ z = Index.d_id d).
Proof. intros pol thr parsers. exact (SpecBridge.retrieve_docs_correct_spec Index.ICompact pol thr parsers). Qed.

(* THE FULL STATEMENT over the executable model (Proofs/SpecBridgeHoldersPolicy.v): ANY builder configuration (every
   field in the default, pattern or range container, any parser), ANY document list with distinct ids -- documents
   may be rejected, conjunctions may fail to parse at any position --, EVERY bad-conjunction policy, ANY supported
   assignment: the concrete retrieval on the index built by the concrete builder succeeds, reports no conjunction
   twice, and reports, as (document, position, size) triples, exactly the specification's sat_hits (Model/Spec.v:
   what expressions and assigned values DENOTE; which conjunctions are indexed under the policy; `hit`; sat_conj).
   Hypotheses = the domain on which specification and model are both defined (each shown necessary by a vm_compute
   witness in the Proofs files): doc_ok -- values are Go values the model represents exactly, and expressions of
   conjunctions that denote lie in the specification's domain (keywords non-empty, range intervals representable:
   every bound of magnitude <= 2^62 is); sizes_ok -- < 256 include fields per conjunction; skip_ok2 -- under Skip
   no operator other than `in` on a default/pattern field (the holders PANIC on those under every policy);
   -2^64 < thr -- any sane expansion threshold; asg_good' / asg_dom_den -- assigned values are supported and no
   assigned integer is MaxInt64 on a field with a `>`; nil_slice_wf -- a nil slice has no elements. *)
Theorem C02_full_statement : forall pol thr parsers cfgl st0 ds st os q,
  HoldersBuildInv.config_fields (Index.new_builder Index.ICompact pol thr parsers) cfgl = Some st0 ->
  Index.add_documents false st0 ds = (st, os) ->
  NoDup (map Index.d_id ds) ->
  (forall d cj, In d ds -> In cj (Index.d_conjs d) -> NoDup (map fst cj)) ->
  (forall d, In d ds -> SpecBridgeHoldersPolicy.doc_ok parsers cfgl d) ->
  IndexCorrectPolicy.sizes_ok ds ->
  SpecBridgeHoldersPolicy.skip_ok2 pol (SpecBridgeHolders.cfg_fields parsers cfgl) parsers ds ->
  ((- GoVal.two64 < thr)%Z \/
   forall d cj, In d ds -> In cj (Index.d_conjs d) ->
     Spec.conj_sem (SpecBridgeHolders.cfg_fields parsers cfgl) parsers cj <> None ->
     HoldersBuildInv.conj_rwf thr (HoldersBuildInv.cfg_of cfgl) cj) ->
  NoDup (map fst q) ->
  SpecBridgeHolders.asg_good' parsers cfgl q ->
  SpecBridgeHoldersPolicy.asg_dom_den parsers cfgl ds q ->
  (Index.ICompact = Index.IKGroups -> forall f v, In (f, v) q -> HoldersBuildInv.cfg_of cfgl f = Index.CAc -> IndexCorrectHolders.nil_slice_wf v) ->
  exists hits spec_hits,
    Index.retrieve_hits (Index.build_index st) q = Index.ROk hits /\
    Spec.sat_hits (SpecBridgeHolders.cfg_fields parsers cfgl) parsers pol Spec.pl_docok ds q = Some spec_hits /\
    Permutation (map (fun h : Index.hitrec => SpecBridge.triple (snd h)) hits) spec_hits /\
    NoDup (map snd hits).
Proof. intros pol thr parsers cfgl. exact (SpecBridgeHoldersPolicy.index_sat_hits_holders_policy Index.ICompact pol thr parsers cfgl). Qed.

Example C02_full_statement_nonvacuous : forall pol st os,
  Index.add_documents false (SpecBridgeHoldersPolicy.HoldersSpecPolicyWitness.st0 Index.ICompact pol) SpecBridgeHoldersPolicy.HoldersSpecPolicyWitness.docs = (st, os) ->
  exists hits spec_hits,
    Index.retrieve_hits (Index.build_index st) SpecBridgeHoldersPolicy.HoldersSpecPolicyWitness.qq = Index.ROk hits /\
    Spec.sat_hits SpecBridgeHoldersPolicy.HoldersSpecPolicyWitness.fields SpecBridgeHoldersPolicy.HoldersSpecPolicyWitness.ps pol Spec.pl_docok
      SpecBridgeHoldersPolicy.HoldersSpecPolicyWitness.docs SpecBridgeHoldersPolicy.HoldersSpecPolicyWitness.qq = Some spec_hits /\
    Permutation (map (fun h : Index.hitrec => SpecBridge.triple (snd h)) hits) spec_hits /\ NoDup (map snd hits).
Proof. intros pol st os H. exact (proj1 (SpecBridgeHoldersPolicy.HoldersSpecPolicyWitness.applies Index.ICompact pol st os H)). Qed.

(* the hypotheses of the end-to-end theorems are met by a concrete document set (3 documents, include and
   exclude expressions, a negative id) and assignment, accepted by the builder, for which the concrete
   retrieval returns a non-empty proper subset of the documents *)
Example C02_nonvacuous : NonVacuous.ex_ok Index.ICompact = true /\ NoDup (map Index.d_id NonVacuous.ex_docs).
Proof. split; [exact NonVacuous.hypotheses_met_compact | exact NonVacuous.ex_ids_distinct]. Qed.

Example C02_spec_nonvacuous :
  (forall d, In d NonVacuous.ex_docs -> SpecBridge.doc_good NonVacuous.ex_parsers d) /\
  SpecBridge.asg_good NonVacuous.ex_parsers NonVacuous.ex_q /\
  Spec.sat_hits [] NonVacuous.ex_parsers Index.PolError Spec.pl_docok NonVacuous.ex_docs NonVacuous.ex_q = Some [(1, (0, 1))]%Z.
Proof. split; [exact NonVacuous.ex_docs_good | split; [exact NonVacuous.ex_q_good | exact NonVacuous.ex_spec_says]]. Qed.

(* the tie to the source, as a theorem: the scan loop of the compact index (the loop labelled RETRIEVE in
   CompactBEIndex.RetrieveWithCollector) TRANSLATED from be_indexer_compact.go on every run (Gen/CursorGen.v: one cursor
   set, the needed match count taken from the smallest current entry, the early exit, the two skipping passes,
   FieldCursors.Sort as translated, exhausted cursors dropped from the end of the slice; statements that only log are
   dropped).  Whenever the model's loop (Index.cp_loop, the loop the theorems above are about) finishes with the
   collector calls `out`, the translated loop returns exactly those calls on the same cursors: no index or slice bound
   violated, the stated fuel suffices. *)
Theorem C02_translated_compact_loop_is_model : forall f cs res out,
  (Z.of_nat (length cs) < 2^60)%Z ->
  BE.Model.Index.cp_loop f cs res = Some out ->
  exists cs', BE.Proofs.CursorGenProof.G.CompactBEIndex_RetrieveWithCollector_RETRIEVE
                BE.Model.Cursor.fcursor BE.Model.Cursor.fc_current BE.Model.Cursor.fcursor_reach_end BE.Proofs.RetrieveKGenProof.skipT
                (f + 2 * length cs) cs res =
              BE.Proofs.CursorGenProof.G.Ret (cs', out).
Proof. exact BE.Proofs.CompactGenProof.compact_loop_translated_is_model. Qed.

Print Assumptions C02_translated_compact_loop_is_model.
Print Assumptions C02_generic_scan_exact.
Print Assumptions C02_compact_index_exact.
Print Assumptions C02_compact_documents_exact.
Print Assumptions C02_concrete_compact_loop_exact.
Print Assumptions C02_index_exact_against_spec.
Print Assumptions C02_hits_are_the_specifications.
Print Assumptions C02_documents_exact_against_spec.
Print Assumptions C02_full_statement.
