(* C18: the same documents and queries given to the k-groups, the compact and the roaring index.
   Specification leg: whenever all three accept every document and answer a query, the three sets
   of document ids are equal. *)
From Coq Require Import List NArith ZArith Bool.
From BE Require Export Corr.SpecRr.
From BE Require Import Model.Spec Corr.Common.
Import ListNotations.
Local Open Scope Z_scope.

Definition tcase := (ecase * ecase * rcase)%type.

Definition rr_results (c : rcase) : list rimpl :=
  flat_map (fun o => match o with (_, RORetrieve _, r) | (_, RORetrieveDocs _, r) => [r] | _ => [] end) (rk_ops c).

Definition to_i64 (u : N) : Z := let z := Z.of_N u in if z <? 9223372036854775808 then z else z - 18446744073709551616.

(* signatures: 60 the three disagree, 61 they disagree and the roaring index has no configured field *)
Definition agree (e1 e2 : ires) (r : rimpl) : option bool :=
  match e1, e2, r with
  | IRes d1 _, IRes d2 _, RIDocs l => Some (eqb_list Z.eqb (setZ d1) (setZ d2) && eqb_list Z.eqb (setZ d1) (setZ (map to_i64 l)))
  | IRes d1 _, IRes d2 _, RIDocSet l => Some (eqb_list Z.eqb (setZ d1) (setZ d2) && eqb_list Z.eqb (setZ d1) (setZ l))
  | IPanic, _, _ | _, IPanic, _ | _, _, RIPanic => Some false
  | _, _, _ => None          (* someone did not answer: nothing is claimed *)
  end.

Fixpoint zip3 {A B C} (a : list A) (b : list B) (c : list C) : list (A * B * C) :=
  match a, b, c with x :: a', y :: b', z :: c' => (x, y, z) :: zip3 a' b' c' | _, _, _ => [] end.

Definition spec_verdict_t (t : tcase) : bool * bool * N :=
  let '(k, c, r) := t in
  let all_ok := forallb (fun da => is_add_ok (snd da)) (k_docs k) && forallb (fun da => is_add_ok (snd da)) (k_docs c) && all_accepted r in
  if negb all_ok then (true, false, 0%N) else
  let rs := zip3 (map snd (k_queries k)) (map snd (k_queries c)) (rr_results r) in
  let ok := forallb (fun x => match agree (fst (fst x)) (snd (fst x)) (snd x) with Some b => b | None => true end) rs in
  (ok, true, match rk_fields r with [] => 61%N | _ => 60%N end).

Definition spec_only_t (t : tcase) : verdict := let '(s, d, g) := spec_verdict_t t in mk_verdict true s d g.
Definition run (cs : list tcase) := check_all spec_only_t cs.
