package main

// Go-side probes with FAULTS coming out of what the caller plugs in (DESIGN §10: extension points are outside the Coq
// model): a hash function that panics at one call, a holder factory that returns nil at one call, a holder whose
// compile step fails once.  After the fault the library must still satisfy the property for everything that succeeded.

import (
	"fmt"
	"hash/fnv"
	"reflect"
	"sort"

	be "github.com/echoface/be_indexer"
	"github.com/echoface/be_indexer/parser"
)

func fnv64(s string) uint64 {
	h := fnv.New64()
	h.Write([]byte(s))
	return h.Sum64()
}

// faultyHashProbe (C17): the common parser over parser.NewHashAllocator(fn); fn panics at exactly one call, the caller
// recovers and offers the same value again.  Afterwards every accepted text must be indexed under the id the query
// side finds for it (and under no other text's id).
func faultyHashProbe() (calls int, viol []string) {
	texts := []string{"paris", "berlin", "rome", "berlin", "oslo", "paris", "rome"}
	for failAt := 1; failAt <= len(texts)+1; failAt++ {
		n := 0
		fn := func(s string) uint64 {
			n++
			if n == failAt {
				panic("hash backend down")
			}
			return fnv64(s)
		}
		p := parser.NewCommonParser()
		p.StrIDAllocator = parser.NewHashAllocator(fn)
		for _, form := range []int{0, 1} {
			for _, t := range texts {
				var v interface{} = t
				if form == 1 {
					v = []string{t, "x" + t}
				}
				var ids []uint64
				var err error
				if safeCall(func() { ids, err = p.ParseValue(v) }) {
					if safeCall(func() { ids, err = p.ParseValue(v) }) { // the retry: fn does not fail twice
						viol = append(viol, fmt.Sprintf("hash function that failed once: the retry of %q panicked too", t))
						continue
					}
				}
				calls++
				failAtSaved := failAt
				failAt = -1 // the query side must not trip the fault
				var q []uint64
				safeCall(func() { q, _ = p.ParseAssign(v) })
				failAt = failAtSaved
				want := []uint64{fnv64(t)}
				if form == 1 {
					want = append(want, fnv64("x"+t))
				}
				sort.Slice(ids, func(i, j int) bool { return ids[i] < ids[j] })
				sort.Slice(q, func(i, j int) bool { return q[i] < q[j] })
				sort.Slice(want, func(i, j int) bool { return want[i] < want[j] })
				if err != nil || !reflect.DeepEqual(ids, want) || !reflect.DeepEqual(q, want) {
					if len(viol) < 4 {
						viol = append(viol, fmt.Sprintf("common parser over a hash function that panicked at its call %d: %v is indexed under %v, assigned it is looked up under %v, its texts hash to %v (err %v)", failAtSaved, v, ids, q, want, err))
					}
				}
			}
		}
	}
	return
}

// nilHolderFactoryProbe (C14): a published index with a field on a caller-registered container; the builder is Reset
// and fed a document using that field while the registered factory returns nil at that one call.  Whatever AddDocument
// does with that (the stock code panics, the caller recovers), the published index answers as before.
func nilHolderFactoryProbe() (calls int, viol []string) {
	const name = "verif_flag_flaky"
	broken := false
	be.RegisterEntriesHolder(name, func() be.EntriesHolder {
		if broken {
			return nil
		}
		return &flagHolder{pl: map[bool]be.Entries{}}
	})
	flag, city := fieldName(5), fieldName(0)
	for _, kind := range []string{"kgroups", "compact"} {
		c := eCase{Kind: kind, Policy: "error"}
		b := newBuilder(&c)
		b.ConfigField(flag, be.FieldOption{Container: name})
		mk := func(id int64, cj *be.Conjunction) *be.Document {
			d := be.NewDocument(be.DocID(id))
			d.AddConjunction(cj)
			return d
		}
		feed := func() {
			b.AddDocument(mk(1, be.NewConjunction().In(flag, true)), mk(2, be.NewConjunction().In(flag, false).In(city, "sh")),
				mk(3, be.NewConjunction().NotIn(flag, true).In(city, "sh")), mk(4, be.NewConjunction().In(city, "bj")))
		}
		feed()
		pub := b.BuildIndex()
		qs := []be.Assignments{{flag: true}, {flag: false, city: "sh"}, {flag: true, city: "sh"}, {city: "bj"}, {city: "sh"}, {}}
		ans := func() []string {
			var out []string
			for _, q := range qs {
				var ids be.DocIDList
				var err error
				if safeCall(func() { ids, err = pub.Retrieve(q) }) {
					out = append(out, "panic")
					continue
				}
				calls++
				l := docIDs(ids)
				sort.Slice(l, func(i, j int) bool { return l[i] < l[j] })
				out = append(out, fmt.Sprint(l, err != nil))
			}
			return out
		}
		before := ans()
		b.Reset()
		broken = true
		safeCall(func() { b.AddDocument(mk(9, be.NewConjunction().In(flag, true))) })
		broken = false
		if now := ans(); !reflect.DeepEqual(now, before) {
			viol = append(viol, fmt.Sprintf("%s: the published index answers %v after its builder met a holder factory that returned nil, %v before", kind, now, before))
		}
		safeCall(func() { b.Reset(); feed(); b.BuildIndex() })
		if now := ans(); !reflect.DeepEqual(now, before) && len(viol) < 3 {
			viol = append(viol, fmt.Sprintf("%s: the published index answers %v after its builder recovered and built the next generation, %v before", kind, now, before))
		}
	}
	return
}

// failOnceHolder: a flag holder whose CompileEntries fails while `failCompile` is set
type failOnceHolder struct {
	flagHolder
	fail *bool
}

func (h *failOnceHolder) CompileEntries() error {
	if *h.fail {
		return fmt.Errorf("compile backend down")
	}
	return h.flagHolder.CompileEntries()
}

// compileFaultProbe (C16): a holder of a small size group fails to compile.  If BuildIndex hands out an index all the
// same, Retrieve on it must not panic (pattern field of a LARGER size group, text assigned).  The stock code panics in
// BuildIndex; the caller recovers, clears the fault and builds again.
func compileFaultProbe() (calls int, viol []string) {
	const name = "verif_flag_failcompile"
	fail := false
	be.RegisterEntriesHolder(name, func() be.EntriesHolder { return &failOnceHolder{flagHolder{pl: map[bool]be.Entries{}}, &fail} })
	flag, kw, tag := fieldName(5), fieldName(1), fieldName(0)
	c := eCase{Kind: "kgroups", Policy: "error", Configs: map[int]string{1: "ac_matcher"}}
	b := newBuilder(&c)
	b.ConfigField(flag, be.FieldOption{Container: name})
	mk := func(id int64, cj *be.Conjunction) *be.Document {
		d := be.NewDocument(be.DocID(id))
		d.AddConjunction(cj)
		return d
	}
	b.AddDocument(mk(1, be.NewConjunction().In(flag, true)), mk(2, be.NewConjunction().In(kw, []string{"abc"}).In(tag, 1)),
		mk(3, be.NewConjunction().In(kw, []string{"xyz"}).In(tag, 1).In(flag, false)))
	qs := []be.Assignments{{kw: "xx abc yy", tag: 1}, {kw: "xyz", tag: 1, flag: false}, {flag: true}, {kw: "none", tag: 2}}
	probe := func(idx be.BEIndex, when string) {
		for _, q := range qs {
			if safeCall(func() { idx.Retrieve(q) }) {
				viol = append(viol, fmt.Sprintf("Retrieve(%v) panicked on the index BuildIndex handed out %s", q, when))
			}
			calls++
		}
	}
	fail = true
	var idx be.BEIndex
	if !safeCall(func() { idx = b.BuildIndex() }) && idx != nil {
		probe(idx, "although a holder failed to compile")
	}
	fail = false
	if !safeCall(func() { idx = b.BuildIndex() }) && idx != nil {
		probe(idx, "after the compile fault was cleared")
	}
	return
}
