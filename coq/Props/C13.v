(* C13  Build cache is transparent.  Statements only.
   Model/Cache.v models the record format (one slot per field name), the three holders' codecs and
   the caching decision of the repaired tree; `_pinned` definitions model what the pinned tree did. *)
From Coq Require Import List NArith ZArith Bool.
From BE Require Import Model.GoTypes Model.GoVal Model.Parsers Model.Index Model.Cache Proofs.CacheProof.
From BE Require Model.CacheBuild Proofs.CacheBuildProof Proofs.CacheBuildObs.
Import ListNotations.

(* every holder decodes what it encoded, for every transaction its IndexingBETx can produce *)
Theorem C13_codec_roundtrip : forall thr fd e t,
  indexing_tx thr fd e = POk t -> decode (fd_cont fd) (encode t) = Some t.
Proof. intros thr fd e t H. apply decode_encode. eapply indexing_tx_kind; eauto. Qed.

(* any caching threshold, any conjunction: a record that was written reproduces exactly the
   transactions it was written from (so a build served from the cache commits what a cold build commits) *)
Theorem C13_record_reproduces_transactions : forall thr desc_of txs r,
  (forall t, In t txs -> desc_of (fd_name (tx_field t)) = tx_field t /\ tx_of_kind (fd_cont (tx_field t)) (tx_data t)) ->
  record_of thr txs = Some r -> txs_of_record desc_of r = Some txs.
Proof. exact record_roundtrip. Qed.

(* the record cannot represent several expressions on one field: such conjunctions are never cached *)
Theorem C13_repeated_field_not_cached : forall thr txs, has_dup_field txs = true -> record_of thr txs = None.
Proof. exact repeated_field_not_cached. Qed.

(* a transaction the codec refuses (a pattern keyword that is not valid UTF-8: proto.Marshal fails) keeps the
   whole conjunction out of the cache: nothing partial is written *)
Theorem C13_unencodable_not_cached : forall thr txs,
  forallb (fun t => encodable (tx_data t)) txs = false -> record_of thr txs = None.
Proof.
  intros thr txs H. unfold record_of. destruct (negb (existsb _ txs)); [reflexivity|].
  destruct (has_dup_field txs); [reflexivity|]. rewrite H. reflexivity.
Qed.
Example C13_unencodable_nonvacuous :
  let fd := {| fd_name := 3%N; fd_cont := CAc; fd_parser := PCommon |} in
  let t := {| tx_field := fd; tx_eid := 17%N; tx_data := TxKeywords [[97; 98]%N; [1114367]%N; [99]%N] |} in
  record_of 2 [t] = None /\
  record_of 2 [{| tx_field := fd; tx_eid := 17%N; tx_data := TxKeywords [[97; 98]%N; [120]%N; [99]%N] |}] <> None.
Proof. split; [reflexivity | discriminate]. Qed.

(* misses and dropped writes are harmless by construction: a miss or an undecodable record makes the
   builder parse (tryUseIndexingTxCache returns nil), a dropped write only causes a later miss *)

(* THE PROPERTY, over Model/CacheBuild.v: an executable model of buildDocEntries WITH a cache provider
   (tryUseIndexingTxCache / tryCacheIndexingTx statement by statement: Get by conjunction id, a record with no
   slot or an undecodable slot is a miss, transactions rebuilt from the record's slots with the stored entry
   ids, holders taken from the container of the conjunction id's size, one slot per field, Set after parsing).
   The provider is a state plus an ADVERSARIAL ORACLE: at every call it may evict any entries, answer or
   miss although the entry is stored, keep or drop a write, and hand the record's slots back in any order
   (Go map iteration) -- `perm_oracle` only says that a returned record is a permutation of the stored one.
   pstore_ok st ds p: every stored record was written for a conjunction of ds under st's configuration
   (any caching threshold) -- true of the empty provider (cold build) and preserved by every build.
   Then, for every oracle, caching threshold, policy, index kind, container mix and conjunction shape, the
   cached build produces the same outcomes and an index that answers EVERY query exactly as the plain build. *)
Theorem C13_cached_build_same_answers : forall o cthr ds st p n q,
  CacheBuildObs.perm_oracle o -> NoDup (map d_id ds) -> CacheBuildProof.pstore_ok st ds p ->
  let st_c := fst (fst (fst (CacheBuild.add_documents_cached o cthr (st, p, n) ds))) in
  let st_p := fst (add_documents false st ds) in
  snd (CacheBuild.add_documents_cached o cthr (st, p, n) ds) = snd (add_documents false st ds) /\
  retrieve_hits (build_index st_c) q = retrieve_hits (build_index st_p) q /\
  retrieve (build_index st_c) q = retrieve (build_index st_p) q.
Proof. exact CacheBuildObs.cached_build_same_answers_obs. Qed.

(* ... the builder states agree on everything retrieval can observe (`seq`), and the provider is again ok *)
Theorem C13_cached_build_transparent : forall o cthr ds sp sc p n,
  CacheBuildObs.perm_oracle o -> NoDup (map d_id ds) -> CacheBuildObs.seq sp sc -> CacheBuildProof.pstore_ok sp ds p ->
  let '(sc', p', _, outs) := CacheBuild.add_documents_cached o cthr (sc, p, n) ds in
  outs = snd (add_documents false sp ds) /\ CacheBuildObs.seq (fst (add_documents false sp ds)) sc' /\
  CacheBuildProof.pstore_ok sc' ds p'.
Proof. exact CacheBuildObs.cached_build_transparent_obs. Qed.

(* any SEQUENCE of builds sharing one provider (builder Reset, the provider forgetting any subset of its entries,
   a new oracle and a new caching threshold per round): every round yields the plain build *)
Theorem C13_any_sequence_of_builds : forall ds, NoDup (map d_id ds) ->
  forall (rounds : list CacheBuild.round) sp sc p,
  Forall (fun r => CacheBuildObs.perm_oracle (CacheBuild.r_oracle r)) rounds ->
  CacheBuildObs.seq sp sc -> CacheBuildProof.pstore_ok sp ds p ->
  Forall2 CacheBuildObs.round_eq (CacheBuildProof.plain_builds ds sp (length rounds)) (fst (CacheBuild.builds ds sc p rounds)) /\
  CacheBuildProof.pstore_ok sp ds (snd (CacheBuild.builds ds sc p rounds)).
Proof. exact CacheBuildObs.builds_transparent_obs. Qed.

Theorem C13_cold_provider_ok : forall st ds, CacheBuildProof.pstore_ok st ds [].
Proof. exact CacheBuildProof.cold_provider_ok. Qed.

(* when the slots come back in write order the builder states are LITERALLY equal *)
Theorem C13_cached_build_literally_equal : forall o cthr ds st p n,
  CacheBuildProof.ordered o -> NoDup (map d_id ds) -> CacheBuildProof.pstore_ok st ds p ->
  let '(st', p', _, outs) := CacheBuild.add_documents_cached o cthr (st, p, n) ds in
  (st', outs) = add_documents false st ds /\ CacheBuildProof.pstore_ok st' ds p'.
Proof. exact CacheBuildProof.cached_build_transparent. Qed.

(* non-vacuity: a warm build with three hits, an unanswered Get followed by a dropped Set and an eviction
   followed by a re-store equals the plain build (both index kinds);
   sensitivity: filing a hit under another size than the conjunction id's, or taking entry ids from elsewhere,
   changes the answers -- the theorem is about exactly these details *)
Example C13_nonvacuous : forall k,
  CacheBuildProof.Examples.calls_of (CacheBuildProof.Examples.x_warm k) = 9%nat /\
  (CacheBuildProof.Examples.st_of (CacheBuildProof.Examples.x_warm k), snd (CacheBuildProof.Examples.x_warm k)) = CacheBuildProof.Examples.x_plain k.
Proof. exact CacheBuildProof.Examples.warm_build_equals_plain. Qed.
Example C13_sensitive_to_the_size_used_on_a_hit :
  retrieve (build_index (CacheBuildProof.Examples.st_of (CacheBuildProof.Examples.x_warm_var CacheBuildProof.Examples.size_plus1 (fun e => e) IKGroups))) CacheBuildProof.Examples.x_q = ROk [12]%Z /\
  retrieve (build_index (fst (CacheBuildProof.Examples.x_plain IKGroups))) CacheBuildProof.Examples.x_q = ROk [10; 12]%Z.
Proof. exact CacheBuildProof.Examples.wrong_size_differs. Qed.

(* the pinned tree violated the property (repaired by three fix: commits) *)
Theorem C13_refuted_pinned_slot_collapse : length (record_of_pinned [tx_in; tx_gt100]) = 1%nat.
Proof. exact pinned_slot_collapse. Qed.
Theorem C13_refuted_pinned_range_lost : decode_pinned_range (encode (tx_data tx_gt100)) = Some (TxRange 0 0).
Proof. exact pinned_range_lost. Qed.

Print Assumptions C13_codec_roundtrip.
Print Assumptions C13_record_reproduces_transactions.
Print Assumptions C13_repeated_field_not_cached.
Print Assumptions C13_unencodable_not_cached.
Print Assumptions C13_cached_build_same_answers.
Print Assumptions C13_cached_build_transparent.
Print Assumptions C13_any_sequence_of_builds.
Print Assumptions C13_cold_provider_ok.
Print Assumptions C13_cached_build_literally_equal.
