(* C13: the cache codecs are transparent (repaired tree) and were not (pinned tree). *)
From Coq Require Import List NArith ZArith Bool Lia.
From BE Require Import Model.GoTypes Model.GoVal Model.Parsers Model.Index Model.Cache.
Import ListNotations.

(* which transaction data a holder of kind k produces *)
Definition tx_of_kind (k : cont_kind) (t : txdata) : Prop :=
  match k, t with
  | CDefault, TxIds _ | CAc, TxKeywords _ | CRange, TxEq _ | CRange, TxRange _ _ => True
  | _, _ => False
  end.

Lemma indexing_tx_kind thr fd e t : indexing_tx thr fd e = POk t -> tx_of_kind (fd_cont fd) t.
Proof.
  unfold indexing_tx. destruct (fd_cont fd), (e_op e); try discriminate.
  - destruct (parse_value _ _); cbn; try discriminate. intros H; inversion H; exact I.
  - destruct (ac_parse_dict _); cbn; try discriminate. intros H; inversion H; exact I.
  - destruct (parse_integers _ _); cbn; try discriminate. intros H; inversion H; exact I.
  - destruct (parse_range _ _ _) as [[l r]| | | |]; cbn; try discriminate. destruct (range_size_lt l r thr); intros H; inversion H; exact I.
  - destruct (parse_range _ _ _) as [[l r]| | | |]; cbn; try discriminate. destruct (range_size_lt l r thr); intros H; inversion H; exact I.
  - destruct (parse_range _ _ _) as [[l r]| | | |]; cbn; try discriminate. destruct (range_size_lt l r thr); intros H; inversion H; exact I.
Qed.

Theorem decode_encode k t : tx_of_kind k t -> decode k (encode t) = Some t.
Proof. destruct k, t; cbn; try contradiction; reflexivity. Qed.

(* a written record reproduces exactly the transactions it was written from *)
Theorem record_roundtrip thr desc_of txs r :
  (forall t, In t txs -> desc_of (fd_name (tx_field t)) = tx_field t /\ tx_of_kind (fd_cont (tx_field t)) (tx_data t)) ->
  record_of thr txs = Some r -> txs_of_record desc_of r = Some txs.
Proof.
  unfold record_of. destruct (negb _); [discriminate|]. destruct (has_dup_field txs); [discriminate|].
  destruct (negb _); [discriminate|].
  intros Hall H. inversion H; subst; clear H.
  induction txs as [|t txs IH]; [reflexivity|].
  cbn [map txs_of_record]. destruct (Hall t (or_introl eq_refl)) as [Hd Hk].
  rewrite Hd. rewrite (decode_encode _ _ Hk).
  change ((fix go (r : record) := match r with
     | [] => Some []
     | (f, (eid, e)) :: rest =>
       match decode (fd_cont (desc_of f)) e, go rest with
       | Some d, Some ts => Some ({| tx_field := desc_of f; tx_eid := eid; tx_data := d |} :: ts)
       | _, _ => None end end) (map (fun t0 => (fd_name (tx_field t0), (tx_eid t0, encode (tx_data t0)))) txs))
    with (txs_of_record desc_of (map (fun t0 => (fd_name (tx_field t0), (tx_eid t0, encode (tx_data t0)))) txs)).
  rewrite IH by (intros u Hu; apply Hall; right; exact Hu). destruct t; reflexivity.
Qed.

(* conjunctions with several expressions on one field are never written *)
Theorem repeated_field_not_cached thr txs : has_dup_field txs = true -> record_of thr txs = None.
Proof. intros H. unfold record_of. destruct (negb _); [reflexivity|]. rewrite H. reflexivity. Qed.

(* ---- the pinned tree ---- *)
Definition fdr : fdesc := {| fd_name := 2%N; fd_cont := CRange; fd_parser := PCommon |}.
Definition tx_gt100 : tx := {| tx_field := fdr; tx_eid := 17%N; tx_data := TxRange 101 9223372036854775807 |}.
Definition tx_in : tx := {| tx_field := fdr; tx_eid := 17%N; tx_data := TxEq [1; 2; 3]%Z |}.

(* (a) one slot per field name: the first of two expressions on a field is lost *)
Theorem pinned_slot_collapse : length (record_of_pinned [tx_in; tx_gt100]) = 1%nat.
Proof. reflexivity. Qed.
(* (b) a kept interval came back as [0,0) *)
Theorem pinned_range_lost : decode_pinned_range (encode (tx_data tx_gt100)) = Some (TxRange 0 0).
Proof. reflexivity. Qed.
