(* The enumeration loops of NumberRangeParser.ParseValue TRANSLATED from /repo's parser/range_parser.go on every run
   (Gen/RangeLoopGen.v: `for s := start; s <= end; s += step { res = append(res, uint64(s)); if s > MaxInt64-step
   { break } }`, int64 wrap at every arithmetic node, fuelled) append exactly the model's enumeration
   (Model/Parsers.enum_range, the unbounded one) for EVERY int64 start and end and every step >= 1, with the fuel the
   model uses; they never run out of it.  The theorem needs the `break` of repair b90faa2: on the pinned tree the
   translated loop has no guard and the lock-step fails at the wrap (Parsers.enum_range_pinned). *)
From Coq Require Import List NArith ZArith Bool Lia Arith.
From BE Require Import Model.GoVal Model.Parsers Proofs.ParsersProof.
From BE Require Gen.CursorGen Gen.RangeLoopGen.
Module G := BE.Gen.CursorGen.
Module R := BE.Gen.RangeLoopGen.
Import ListNotations.
Local Open Scope Z_scope.

Definition conv (z : Z) : N := G.u64 (Z.to_N (z mod 18446744073709551616)).

Lemma i64_wrap z : G.i64 z = wrap_i64 z.
Proof. reflexivity. Qed.
Lemma max_lit : 9223372036854775807 = two63 - 1.
Proof. reflexivity. Qed.
Lemma wrap_small z : - two63 <= z < two63 -> wrap_i64 z = z.
Proof.
  assert (T64 : two64 = 2 * two63) by reflexivity.
  intros H. unfold wrap_i64. rewrite Z.mod_small; lia.
Qed.

Section Lock.
Variables (st e sp : Z).

Lemma for1_lock : forall fuel acc s, - two63 <= s < two63 -> - two63 <= e < two63 -> 1 <= sp < two63 ->
  (e < s \/ e - s < Z.of_nat fuel * sp) ->
  exists s', R.NumberRangeParser_ParseValue_for1_loop1 fuel st e sp (acc, s) =
             G.Ret (acc ++ map conv (enum_range_i64 fuel s e sp), s').
Proof.
  induction fuel as [|f IH]; intros acc s Hs He Hsp Hf; cbn [R.NumberRangeParser_ParseValue_for1_loop1 enum_range_i64].
  - destruct (Z.leb_spec s e) as [Hle|Hgt]; [exfalso; cbn in Hf; lia|].
    eexists; rewrite app_nil_r; reflexivity.
  - destruct (Z.leb_spec s e) as [Hle|Hgt]; [|eexists; rewrite app_nil_r; reflexivity].
    cbn [G.bind]. fold (conv s). rewrite !i64_wrap, max_lit. rewrite (wrap_small (two63 - 1 - sp)) by lia.
    destruct (Z.ltb_spec (two63 - 1 - sp) s) as [Hov|Hok]; cbn [G.bind]; [eexists; reflexivity|].
    rewrite ?i64_wrap. rewrite !(wrap_small (s + sp)) by lia.
    assert (Hf' : e < s + sp \/ e - (s + sp) < Z.of_nat f * sp).
    { destruct (Z.lt_ge_cases e (s + sp)); [left; assumption|right; rewrite Nat2Z.inj_succ in Hf; nia]. }
    destruct (IH (acc ++ [conv s]) (s + sp) ltac:(lia) He Hsp Hf') as [s' E].
    exists s'. rewrite E. cbn [map]. rewrite <- app_assoc. reflexivity.
Qed.
Lemma for2_lock : forall fuel acc s, - two63 <= s < two63 -> - two63 <= e < two63 -> 1 <= sp < two63 ->
  (e < s \/ e - s < Z.of_nat fuel * sp) ->
  exists s', R.NumberRangeParser_ParseValue_for2_loop1 fuel st e sp (acc, s) =
             G.Ret (acc ++ map conv (enum_range_i64 fuel s e sp), s').
Proof.
  induction fuel as [|f IH]; intros acc s Hs He Hsp Hf; cbn [R.NumberRangeParser_ParseValue_for2_loop1 enum_range_i64].
  - destruct (Z.leb_spec s e) as [Hle|Hgt]; [exfalso; cbn in Hf; lia|].
    eexists; rewrite app_nil_r; reflexivity.
  - destruct (Z.leb_spec s e) as [Hle|Hgt]; [|eexists; rewrite app_nil_r; reflexivity].
    cbn [G.bind]. fold (conv s). rewrite !i64_wrap, max_lit. rewrite (wrap_small (two63 - 1 - sp)) by lia.
    destruct (Z.ltb_spec (two63 - 1 - sp) s) as [Hov|Hok]; cbn [G.bind]; [eexists; reflexivity|].
    rewrite ?i64_wrap. rewrite !(wrap_small (s + sp)) by lia.
    assert (Hf' : e < s + sp \/ e - (s + sp) < Z.of_nat f * sp).
    { destruct (Z.lt_ge_cases e (s + sp)); [left; assumption|right; rewrite Nat2Z.inj_succ in Hf; nia]. }
    destruct (IH (acc ++ [conv s]) (s + sp) ltac:(lia) He Hsp Hf') as [s' E].
    exists s'. rewrite E. cbn [map]. rewrite <- app_assoc. reflexivity.
Qed.
Lemma for3_lock : forall fuel acc s, - two63 <= s < two63 -> - two63 <= e < two63 -> 1 <= sp < two63 ->
  (e < s \/ e - s < Z.of_nat fuel * sp) ->
  exists s', R.NumberRangeParser_ParseValue_for3_loop1 fuel st e sp (acc, s) =
             G.Ret (acc ++ map conv (enum_range_i64 fuel s e sp), s').
Proof.
  induction fuel as [|f IH]; intros acc s Hs He Hsp Hf; cbn [R.NumberRangeParser_ParseValue_for3_loop1 enum_range_i64].
  - destruct (Z.leb_spec s e) as [Hle|Hgt]; [exfalso; cbn in Hf; lia|].
    eexists; rewrite app_nil_r; reflexivity.
  - destruct (Z.leb_spec s e) as [Hle|Hgt]; [|eexists; rewrite app_nil_r; reflexivity].
    cbn [G.bind]. fold (conv s). rewrite !i64_wrap, max_lit. rewrite (wrap_small (two63 - 1 - sp)) by lia.
    destruct (Z.ltb_spec (two63 - 1 - sp) s) as [Hov|Hok]; cbn [G.bind]; [eexists; reflexivity|].
    rewrite ?i64_wrap. rewrite !(wrap_small (s + sp)) by lia.
    assert (Hf' : e < s + sp \/ e - (s + sp) < Z.of_nat f * sp).
    { destruct (Z.lt_ge_cases e (s + sp)); [left; assumption|right; rewrite Nat2Z.inj_succ in Hf; nia]. }
    destruct (IH (acc ++ [conv s]) (s + sp) ltac:(lia) He Hsp Hf') as [s' E].
    exists s'. rewrite E. cbn [map]. rewrite <- app_assoc. reflexivity.
Qed.
End Lock.

(* the fuel Model/Parsers.expand_desc hands its enumeration is enough for the translated loop *)
Lemma desc_fuel_enough st e sp : 1 <= sp -> st <= e -> e - st < Z.of_nat (Z.to_nat ((e - st) / sp + 1)) * sp.
Proof.
  intros Hsp Hle. assert (0 <= (e - st) / sp) by (apply Z.div_pos; lia).
  rewrite Z2Nat.id by lia. pose proof (Z.mul_succ_div_gt (e - st) sp ltac:(lia)). lia.
Qed.

(* all three loops of ParseValue (string, []string, []interface{} clauses), as translated, append the model's
   enumeration of the description -- whatever int64 bounds and step >= 1 it has *)
Theorem range_loops_translated_are_model : forall st e sp acc,
  - two63 <= st < two63 -> - two63 <= e < two63 -> 1 <= sp < two63 ->
  let fuel := Z.to_nat ((e - st) / sp + 1) in
  let out := G.Ret (acc ++ map conv (if e <? st then [] else enum_range fuel st e sp)) in
  R.NumberRangeParser_ParseValue_for1 fuel st e sp acc = out /\
  R.NumberRangeParser_ParseValue_for2 fuel st e sp acc = out /\
  R.NumberRangeParser_ParseValue_for3 fuel st e sp acc = out.
Proof.
  intros st e sp acc Hst He Hsp fuel out.
  assert (Hf : e < st \/ e - st < Z.of_nat fuel * sp).
  { destruct (Z.lt_ge_cases e st); [left; assumption|right; apply desc_fuel_enough; lia]. }
  assert (Hm : enum_range_i64 fuel st e sp = if e <? st then [] else enum_range fuel st e sp).
  { rewrite enum_range_i64_exact by assumption. destruct (Z.ltb_spec e st); [apply enum_range_above; assumption|reflexivity]. }
  unfold out. rewrite <- Hm.
  unfold R.NumberRangeParser_ParseValue_for1, R.NumberRangeParser_ParseValue_for2, R.NumberRangeParser_ParseValue_for3.
  destruct (for1_lock st e sp fuel acc st Hst He Hsp Hf) as [s1 E1].
  destruct (for2_lock st e sp fuel acc st Hst He Hsp Hf) as [s2 E2].
  destruct (for3_lock st e sp fuel acc st Hst He Hsp Hf) as [s3 E3].
  rewrite E1, E2, E3. repeat split; reflexivity.
Qed.

(* the value the loop appends is the id the model gives the enumerated integer *)
Lemma conv_is_wrap_u64 z : Z.of_N (conv z) = wrap_u64 z.
Proof.
  unfold conv, G.u64, wrap_u64.
  assert (0 <= z mod 18446744073709551616 < 18446744073709551616) by (apply Z.mod_pos_bound; lia).
  rewrite N.mod_small by lia. rewrite Z2N.id by lia. reflexivity.
Qed.

Example range_loop_translated_runs :
  R.NumberRangeParser_ParseValue_for1 2 9223372036854775806 9223372036854775807 1 [] =
    G.Ret [9223372036854775806%N; 9223372036854775807%N] /\
  R.NumberRangeParser_ParseValue_for1 4 1 9 3 [7%N] = G.Ret [7; 1; 4; 7]%N.
Proof. vm_compute. split; reflexivity. Qed.
