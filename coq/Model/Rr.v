From Coq Require Import List NArith Bool Lia Permutation.
Import ListNotations.

(* bitmaps as predicates-by-list: membership is what matters *)
Definition bm := list N.
Definition mem (x : N) (b : bm) : bool := existsb (N.eqb x) b.
Definition bor (a b : bm) : bm := a ++ b.
Definition band (a b : bm) : bm := filter (fun x => mem x b) a.
Definition bandnot (a b : bm) : bm := filter (fun x => negb (mem x b)) a.
Definition is_empty (a : bm) : bool := match a with [] => true | _ => false end.

Record scanner := { inited : bool; ended : bool; res : bm }.
Definition fresh : scanner := {| inited := false; ended := false; res := [] |}.

(* mergeFieldResult *)
Definition merge (s : scanner) (pl : bm) : scanner :=
  let s' :=
    if inited s && is_empty (res s) then s                      (* Ended() *)
    else if negb (inited s) then {| inited := true; ended := ended s; res := bor (res s) pl |}
    else {| inited := true; ended := ended s; res := band (res s) pl |} in
  {| inited := inited s'; ended := is_empty (res s'); res := res s' |}.

(* retrieve: fold over field results in some order, with the early break *)
Fixpoint retrieve (s : scanner) (pls : list bm) : scanner :=
  match pls with
  | [] => s
  | pl :: rest => if ended s then s else retrieve (merge s pl) rest
  end.

Definition with_hint (s : scanner) (h : bm) : scanner := {| inited := true; ended := ended s; res := bor (res s) h |}.

Lemma mem_app x a b : mem x (a ++ b) = mem x a || mem x b.
Proof. unfold mem. apply existsb_app. Qed.
Lemma mem_band x a b : mem x (band a b) = mem x a && mem x b.
Proof.
  unfold band. induction a as [|y a IH]; simpl; auto.
  destruct (mem y b) eqn:E; simpl; rewrite IH.
  - destruct (N.eqb_spec x y); subst; simpl; auto.
  - destruct (N.eqb_spec x y); subst; simpl; auto. rewrite E. rewrite andb_false_r. reflexivity.
Qed.
Lemma is_empty_mem a : is_empty a = true -> forall x, mem x a = false.
Proof. destruct a; simpl; auto; discriminate. Qed.

Definition all_in (x : N) (pls : list bm) : bool := forallb (mem x) pls.

(* once primed, the scanner's result is the primed set intersected with every field result *)
Lemma retrieve_inited s pls x : inited s = true -> ended s = is_empty (res s) ->
  mem x (res (retrieve s pls)) = mem x (res s) && all_in x pls.
Proof.
  revert s. induction pls as [|pl rest IH]; intros s Hi He; simpl.
  - rewrite andb_true_r; auto.
  - destruct (ended s) eqn:E.
    + symmetry in He. rewrite (is_empty_mem _ He). reflexivity.
    + unfold merge at 1. rewrite Hi. rewrite <- He. simpl.
      rewrite IH; simpl; auto. rewrite mem_band. rewrite andb_assoc. reflexivity.
Qed.

Theorem retrieve_fresh pl pls x :
  mem x (res (retrieve fresh (pl :: pls))) = all_in x (pl :: pls).
Proof.
  simpl. unfold merge at 1. simpl. rewrite retrieve_inited; simpl; auto.
Qed.

Theorem retrieve_hint h pls x :
  mem x (res (retrieve (with_hint fresh h) pls)) = mem x h && all_in x pls.
Proof.
  (* note: ended is still false after WithHint even for an empty hint set; Ended() recomputes *)
  destruct pls as [|pl rest]; simpl.
  - rewrite andb_true_r. reflexivity.
  - unfold merge at 1. simpl. destruct (is_empty h) eqn:E; simpl.
    + rewrite E. destruct rest; simpl; rewrite (is_empty_mem _ E); reflexivity.
    + rewrite retrieve_inited; simpl; auto. rewrite mem_band, andb_assoc. reflexivity.
Qed.

(* order independence: all_in is permutation invariant *)
Lemma all_in_perm x l l' : Permutation l l' -> all_in x l = all_in x l'.
Proof. unfold all_in. induction 1; simpl; auto; try congruence. rewrite !andb_assoc, (andb_comm (mem x y)). reflexivity. Qed.
