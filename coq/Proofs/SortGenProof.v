(* FieldCursors.Sort TRANSLATED from /repo's index_scanner.go on every run (Gen/CursorGen.v: the nested insertion
   loops over a slice of opaque elements read through GetCurEntryID and reordered by swaps; Panic where an index
   would be out of range, OutOfFuel when a loop's fuel ends) computes exactly the model's insertion sort
   (Model/Scan.isort, the functional form used by every scan theorem) -- for any element type, any key function and
   any slice shorter than 2^60; 2 * length units of fuel suffice, no index is ever out of range. *)
From Coq Require Import List NArith ZArith Bool Lia Arith Sorting.Sorted.
From Coq Require Import Permutation.
From BE Require Import Model.Scan Model.Cursor Proofs.ScanProof Proofs.CursorHist Proofs.CursorGenProof.
Import ListNotations.

Section S.
Variable T : Type.
Variable key : T -> N.
Let k (x : T) : option N := Some (key x).

Lemma i64_small z : (- 2^63 <= z < 2^63)%Z -> G.i64 z = z.
Proof. intros H. unfold G.i64. rewrite Z.mod_small; lia. Qed.

Lemma nth_error_mid (a : list T) x b : nth_error (a ++ x :: b) (length a) = Some x.
Proof. induction a as [|y a IH]; cbn; auto. Qed.
Lemma keyAt_mid (a : list T) x b : G.keyAt key (a ++ x :: b) (Z.of_nat (length a)) = key x.
Proof. unfold G.keyAt. rewrite Nat2Z.id, nth_error_mid. reflexivity. Qed.
Lemma inbT_lt (l : list T) n : (n < length l)%nat -> G.inbT l (Z.of_nat n) = true.
Proof. intros H. unfold G.inbT. apply andb_true_intro. split; [apply Z.leb_le|apply Z.ltb_lt]; lia. Qed.

Lemma upd_swap_adj (a : list T) y x b :
  G.updT (G.updT (a ++ y :: x :: b) (S (length a)) y) (length a) x = a ++ x :: y :: b.
Proof. induction a as [|z a IH]; cbn [app length G.updT]; [reflexivity|]. f_equal. exact IH. Qed.
Lemma swap_adj (a : list T) y x b :
  G.swapT (a ++ y :: x :: b) (Z.of_nat (S (length a))) (Z.of_nat (length a)) = a ++ x :: y :: b.
Proof.
  unfold G.swapT. rewrite !Nat2Z.id.
  replace (nth_error (a ++ y :: x :: b) (S (length a))) with (Some x).
  2:{ change (a ++ y :: x :: b) with (a ++ [y] ++ x :: b). rewrite app_assoc.
      replace (S (length a)) with (length (a ++ [y])) by (rewrite app_length; cbn; lia).
      symmetry. apply nth_error_mid. }
  rewrite nth_error_mid. apply upd_swap_adj.
Qed.

(* the inner loop as a function on the REVERSED sorted prefix: x moves left while it is smaller *)
Fixpoint bins (rp : list T) (x : T) : list T :=
  match rp with
  | [] => [x]
  | y :: rp' => if (key x <? key y)%N then y :: bins rp' x else x :: y :: rp'
  end.

Lemma inner_lock : forall rp fuel x post xl i0,
  (length rp <= fuel)%nat -> (Z.of_nat (length rp + S (length post)) < 2^60)%Z ->
  exists j', G.FieldCursors_Sort_loop2 T key fuel xl i0 (rev rp ++ x :: post, Z.of_nat (length rp)) =
             G.Ret (rev (bins rp x) ++ post, j').
Proof.
  assert (P : (2^60 < 2^63)%Z) by (apply Z.pow_lt_mono_r; lia).
  induction rp as [|y rp IH]; intros fuel x post xl i0 Hf Hlen.
  - exists 0%Z. destruct fuel; cbn [G.FieldCursors_Sort_loop2 rev app length Z.of_nat bins]; reflexivity.
  - cbn [length] in *. cbn [rev bins]. rewrite <- app_assoc. cbn [app].
    set (a := rev rp). assert (La : length a = length rp) by (unfold a; apply rev_length).
    replace (Z.of_nat (S (length rp))) with (Z.of_nat (S (length a))) by (rewrite La; reflexivity).
    assert (Hj1 : G.i64 (Z.of_nat (S (length a)) - 1) = Z.of_nat (length a)).
    { rewrite i64_small by lia. lia. }
    assert (Hin1 : G.inbT (a ++ y :: x :: post) (Z.of_nat (S (length a))) = true).
    { apply inbT_lt. rewrite app_length. cbn [length]. lia. }
    assert (Hin0 : G.inbT (a ++ y :: x :: post) (Z.of_nat (length a)) = true).
    { apply inbT_lt. rewrite app_length. cbn [length]. lia. }
    assert (Kx : G.keyAt key (a ++ y :: x :: post) (Z.of_nat (S (length a))) = key x).
    { change (a ++ y :: x :: post) with (a ++ [y] ++ x :: post). rewrite app_assoc.
      replace (S (length a)) with (length (a ++ [y])) by (rewrite app_length; cbn; lia). apply keyAt_mid. }
    assert (Ky : G.keyAt key (a ++ y :: x :: post) (Z.of_nat (length a)) = key y) by apply keyAt_mid.
    destruct fuel as [|f]; [lia|].
    cbn [G.FieldCursors_Sort_loop2]. rewrite Hj1, Hin1, Hin0, Kx, Ky.
    replace (0 <? Z.of_nat (S (length a)))%Z with true by (symmetry; apply Z.ltb_lt; lia).
    cbn [negb orb andb].
    destruct (key x <? key y)%N.
    + cbn [G.bind]. rewrite swap_adj.
      destruct (IH f x (y :: post) xl i0) as [j' E]; [lia|cbn [length]; lia|].
      fold a in E. rewrite La. rewrite E. exists j'. cbn [rev]. rewrite <- app_assoc. reflexivity.
    + eexists. cbn [rev]. rewrite <- !app_assoc. reflexivity.
Qed.

(* on a sorted prefix, walking from the right (the code) and from the left (the model) insert at the same place *)
Lemma ins_app_lt x p y : lt_okey (k x) (k y) = true -> ins k x (p ++ [y]) = ins k x p ++ [y].
Proof.
  intros H. induction p as [|z p IH]; cbn [app ins]; [rewrite H; reflexivity|].
  destruct (lt_okey (k x) (k z)); [reflexivity|]. cbn [app]. f_equal. exact IH.
Qed.
Lemma ins_all_le x l : Forall (fun z => lt_okey (k x) (k z) = false) l -> ins k x l = l ++ [x].
Proof. induction 1 as [|z l Hz _ IH]; cbn [ins app]; [reflexivity|]. rewrite Hz. f_equal. exact IH. Qed.
Lemma sorted_app_last p y : StronglySorted (kle k) (p ++ [y]) ->
  StronglySorted (kle k) p /\ Forall (fun z => kle k z y) p.
Proof.
  induction p as [|z p IH]; cbn [app]; intros H; [split; constructor|].
  apply StronglySorted_inv in H. destruct H as [Hs Hall]. destruct (IH Hs) as [Hp Hle]. split.
  - constructor; [exact Hp|]. apply Forall_app in Hall. tauto.
  - constructor; [|exact Hle]. apply Forall_app in Hall. destruct Hall as [_ Hy]. inversion Hy; assumption.
Qed.
Lemma bins_ins x : forall done, StronglySorted (kle k) done -> rev (bins (rev done) x) = ins k x done.
Proof.
  induction done as [|y p IH] using rev_ind; intros Hs; [reflexivity|].
  rewrite rev_app_distr. cbn [rev app bins].
  destruct (sorted_app_last p y Hs) as [Hp Hle].
  destruct (N.ltb_spec (key x) (key y)) as [Hlt|Hge].
  - cbn [rev]. rewrite IH by exact Hp. symmetry. apply ins_app_lt. cbn. apply N.ltb_lt. exact Hlt.
  - cbn [rev]. rewrite rev_involutive. rewrite <- app_assoc. cbn [app]. symmetry.
    change (p ++ [y; x]) with (p ++ [y] ++ [x]). rewrite app_assoc. apply ins_all_le.
    apply Forall_app. split.
    + rewrite Forall_forall in *. intros z Hz. specialize (Hle z Hz). unfold kle, ole, k in *. cbn in *.
      apply N.ltb_ge. apply N.ltb_ge in Hle. lia.
    + constructor; [|constructor]. cbn. apply N.ltb_ge. exact Hge.
Qed.

Lemma outer_lock : forall rest fuel done,
  StronglySorted (kle k) done -> (length done + 2 * length rest <= fuel)%nat ->
  (Z.of_nat (length done + length rest) < 2^60)%Z ->
  exists i', G.FieldCursors_Sort_loop1 T key fuel (Z.of_nat (length done + length rest))
               (done ++ rest, Z.of_nat (length done)) =
             G.Ret (fold_left (fun acc x => ins k x acc) rest done, i').
Proof.
  assert (P : (2^60 < 2^63)%Z) by (apply Z.pow_lt_mono_r; lia).
  induction rest as [|x rest IH]; intros fuel done Hs Hf Hlen.
  - cbn [length] in *. rewrite Nat.add_0_r, app_nil_r. eexists.
    destruct fuel; cbn [G.FieldCursors_Sort_loop1 fold_left]; rewrite Z.ltb_irrefl; reflexivity.
  - cbn [length] in *. destruct fuel as [|f]; [lia|].
    cbn [G.FieldCursors_Sort_loop1].
    replace (Z.of_nat (length done) <? Z.of_nat (length done + S (length rest)))%Z with true
      by (symmetry; apply Z.ltb_lt; lia).
    cbn [G.bind].
    destruct (inner_lock (rev done) (S f) x rest (Z.of_nat (length done + S (length rest))) (Z.of_nat (length done)))
      as [j' E]; [rewrite rev_length; lia|rewrite rev_length; lia|].
    rewrite rev_involutive, rev_length in E. rewrite E. cbn [G.bind].
    rewrite bins_ins by exact Hs.
    replace (Z.of_nat (length done) + 1)%Z with (Z.of_nat (S (length done))) by lia. rewrite i64_small by lia.
    pose proof (Permutation.Permutation_length (ins_perm k x done)) as Li. cbn [length] in Li.
    destruct (IH f (ins k x done)) as [i' E2].
    + apply ins_sorted. exact Hs.
    + rewrite Li. lia.
    + rewrite Li. lia.
    + rewrite Li in E2. replace (length done + S (length rest))%nat with (S (length done) + length rest)%nat by lia.
      rewrite E2. exists i'. reflexivity.
Qed.

(* FieldCursors.Sort as translated = the model's isort *)
Theorem Sort_translated_is_model : forall l fuel, (2 * length l <= fuel)%nat -> (Z.of_nat (length l) < 2^60)%Z ->
  G.FieldCursors_Sort T key fuel l = G.Ret (isort k l).
Proof.
  intros l fuel Hf Hlen. unfold G.FieldCursors_Sort, isort.
  destruct l as [|a [|b rest]]; [reflexivity|reflexivity|].
  replace (Z.of_nat (length (a :: b :: rest)) <=? 1)%Z with false by (symmetry; apply Z.leb_gt; cbn [length]; lia).
  destruct (outer_lock (b :: rest) fuel [a]) as [i' E].
  - repeat constructor.
  - cbn [length] in *. lia.
  - cbn [length] in *. lia.
  - cbn [length app] in E. cbn [length].
    change (1 + S (length rest))%nat with (S (S (length rest))) in E. change (Z.of_nat 1) with 1%Z in E.
    rewrite E. reflexivity.
Qed.
End S.

(* hence the C12 statement for the translated code: a permutation ordered by current entry (the sentinel is the
   largest value, so exhausted cursors come last), no panic, 2 * length units of fuel suffice *)
Theorem Sort_translated_spec : forall fs fuel, (2 * length fs <= fuel)%nat -> (Z.of_nat (length fs) < 2^60)%Z ->
  G.FieldCursors_Sort fcursor fc_current fuel fs = G.Ret (sort_fcursors fs) /\
  Permutation (sort_fcursors fs) fs /\
  StronglySorted (fun a b => (fc_current a <= fc_current b)%N) (sort_fcursors fs).
Proof.
  intros fs fuel Hf Hlen. split; [|apply sort_fcursors_spec].
  rewrite Sort_translated_is_model by assumption. reflexivity.
Qed.

Example Sort_translated_runs :
  G.FieldCursors_Sort N (fun x => x) 10 [5; 3; 9; 3; 1]%N = G.Ret [1; 3; 3; 5; 9]%N /\
  G.FieldCursors_Sort N (fun x => x) 2 [5; 3; 9; 3; 1]%N = G.OutOfFuel.
Proof. vm_compute. split; reflexivity. Qed.
