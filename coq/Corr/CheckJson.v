(* JSON ingest: model leg (both indexes against Model/Index.v; the decoded values against the model of
   encoding/json, Model/Json.v json_roundtrip, expression by expression). *)
From Coq Require Import List NArith ZArith Bool.
From BE Require Import Model.Spec Corr.Common Corr.CheckE2E Corr.CheckJsonModel.
From BE Require Export Corr.SpecJson.
Import ListNotations.

Definition check_j (j : jcase) : verdict :=
  let '(s, d, g) := spec_verdict_j j in
  let '(m1, md1) := model_verdict (fst j) in
  let '(m2, md2) := model_verdict (snd j) in
  mk_verdict ((m1 || negb md1) && (m2 || negb md2) && json_model_ok j) s (d && md1 && md2) g.
Definition run (cs : list jcase) := check_all check_j cs.
