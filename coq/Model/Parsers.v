(* Statement-level models of parser/*.go, util.NilInterface, the range holder's value helpers and
   the pattern holder's helpers.  Dispatch over Go types goes through the case tables regenerated
   from the source (Gen/TypeSwitchGen.v): a value is handled by the clause that holds the
   distinguished type of that clause in the pinned tree. *)
From Coq Require Import List NArith ZArith Bool.
From BE Require Import Model.GoTypes Model.GoVal Gen.TypeSwitchGen.
Import ListNotations.
Local Open Scope Z_scope.

(* value ids: the hash allocator maps a text to FNV-64 of its bytes (modelled injectively as the
   text itself: premise "no hash collision"); number parsers yield the number itself *)
Inductive pid := PText (t : text) | PNum (n : Z).   (* PNum carries the uint64 value *)
Definition pid_eqb (a b : pid) : bool :=
  match a, b with
  | PText x, PText y => text_eqb x y
  | PNum x, PNum y => x =? y
  | _, _ => false
  end.

(* ---- util.NilInterface ---- *)
Definition nil_interface (v : gval) : pres bool :=
  match v with
  | VNil => POk true
  | _ => if kind_in sw_NilInterface KSlice (kind_of (type_of v))
         then match reflect_is_nil v with Some b => POk b | None => PPanic end
         else POk false
  end.

(* element text under %v for the integer/string/json.Number element types *)
Definition scalar_text (v : gval) : option text :=
  match v with
  | VInt _ z => Some (dec_text z)
  | VStr s => Some s
  | VJson s => Some s
  | _ => None
  end.
(* float2IntText: int64(f) for negative f, uint64(f) otherwise: the integer part's decimal text *)
Definition float_u64_text (v : gval) : pres text :=
  match v with
  | VFloat _ f => match float_to_i64 f with Some z => POk (dec_text z) | None => PUnmodelled end
  | _ => PUnmodelled
  end.

(* ---- CommonStrParser ---- *)
(* findInterfaceID: Some id / None = skipped (a message is printed) *)
Definition common_find_iface (iv : gval) : pres (option pid) :=
  let sw := sw_common_findInterfaceID in
  let t := type_of iv in
  if ty_in sw Tstring t then match iv with VStr s => POk (Some (PText s)) | _ => PUnmodelled end
  else if ty_in sw TjsonNumber t then match iv with VJson s => POk (Some (PText s)) | _ => PUnmodelled end
  else if ty_in sw Tint t then match scalar_text iv with Some s => POk (Some (PText s)) | None => PUnmodelled end
  else if ty_in sw Tfloat64 t then pbind (float_u64_text iv) (fun s => POk (Some (PText s)))
  else POk None.

Definition common_parse_assign (v : gval) : pres (list pid) :=
  pbind (nil_interface v) (fun isnil =>
  if isnil then POk [] else
  let sw := sw_common_ParseAssign in
  let t := type_of v in
  if ty_in sw Tstring t then match v with VStr s => POk [PText s] | _ => PUnmodelled end
  else if ty_in sw TjsonNumber t then match v with VJson s => POk [PText s] | _ => PUnmodelled end
  else if ty_in sw Tint t then match scalar_text v with Some s => POk [PText s] | None => PUnmodelled end
  else if ty_in sw Tfloat64 t then pbind (float_u64_text v) (fun s => POk [PText s])
  else if ty_in sw TSfloat64 t then
    match v with VSlice _ _ vs => pmap_list (fun e => pbind (float_u64_text e) (fun s => POk (PText s))) vs | _ => PUnmodelled end
  else if ty_in sw TSint t then
    match v with VSlice _ _ vs => pmap_list (fun e => match scalar_text e with Some s => POk (PText s) | None => PUnmodelled end) vs
               | _ => PUnmodelled end
  else if ty_in sw TSiface t then
    match v with
    | VList _ vs => pbind (pmap_list common_find_iface vs)
                      (fun os => POk (flat_map (fun o => match o with Some i => [i] | None => [] end) os))
    | _ => PUnmodelled end
  else PErr).

Definition common_alloc_iface (iv : gval) : pres pid :=
  let sw := sw_common_allocInterfaceID in
  let t := type_of iv in
  if ty_in sw Tstring t then match iv with VStr s => POk (PText s) | _ => PUnmodelled end
  else if ty_in sw TjsonNumber t then match iv with VJson s => POk (PText s) | _ => PUnmodelled end
  else if ty_in sw Tint t then match scalar_text iv with Some s => POk (PText s) | None => PUnmodelled end
  else if ty_in sw Tfloat64 t then pbind (float_u64_text iv) (fun s => POk (PText s))
  else PErr.

Definition common_parse_value (v : gval) : pres (list pid) :=
  let sw := sw_common_ParseValue in
  let t := type_of v in
  if ty_in sw Tstring t then match scalar_text v with Some s => POk [PText s] | None => PUnmodelled end
  else if ty_in sw Tfloat64 t then pbind (float_u64_text v) (fun s => POk [PText s])
  else if ty_in sw TSfloat64 t then
    match v with VSlice _ _ vs => pmap_list (fun e => pbind (float_u64_text e) (fun s => POk (PText s))) vs
               | _ => PUnmodelled end
  else if ty_in sw TSint t then
    match v with VSlice _ _ vs => pmap_list (fun e => match scalar_text e with Some s => POk (PText s) | None => PUnmodelled end) vs
               | _ => PUnmodelled end
  else if ty_in sw TSiface t then
    match v with VList _ vs => pmap_list common_alloc_iface vs | _ => PUnmodelled end
  else PErr.

(* ---- parser.ParseIntegerNumber ---- *)
Definition parse_integer_number (f2i : bool) (v : gval) : pres Z :=
  let sw := sw_ParseIntegerNumber in
  let k := kind_of (type_of v) in
  if kind_in sw KInt k then match v with VInt _ z => POk z | _ => PUnmodelled end
  else if kind_in sw KUint k then match v with VInt _ z => POk (wrap_i64 z) | _ => PUnmodelled end
  else if kind_in sw KString k then
    match v with
    | VStr s | VJson s =>
      match parse_int_text s with
      | Some z => POk z
      | None => if f2i then match parse_float_trunc s with
                            | Some (Some z) => POk z
                            | Some None => PErr
                            | None => PUnmodelled end
                else PErr
      end
    | _ => PUnmodelled end
  else if kind_in sw KFloat64 k then
    match v with
    | VFloat _ f => if f2i then match float_to_i64 f with Some z => POk z | None => PUnmodelled end else PErr
    | _ => PUnmodelled end
  else PErr.

(* ---- parser.ParseIntergers ---- *)
Definition parse_integers (f2i : bool) (v : gval) : pres (list Z) :=
  pbind (nil_interface v) (fun isnil =>
  if isnil then POk [] else
  let sw := sw_ParseIntergers in
  let t := type_of v in
  if ty_in sw Tint t then pbind (parse_integer_number f2i v) (fun z => POk [z])
  else if ty_in sw TSint t then
    match v with VSlice _ _ vs => pmap_list (parse_integer_number f2i) vs | _ => PUnmodelled end
  else if ty_in sw TSiface t then
    match v with VList _ vs => pmap_list (parse_integer_number f2i) vs | _ => PUnmodelled end
  else PErr).

(* ---- NumberParser ---- *)
Definition number_parse_value (v : gval) : pres (list pid) :=
  let sw := sw_number_ParseValue in
  let t := type_of v in
  let u := fun z => PNum (wrap_u64 z) in
  if ty_in sw Tint t then pbind (parse_integer_number true v) (fun z => POk [u z])
  else if ty_in sw TSint t then
    match v with VSlice _ _ vs => pbind (pmap_list (parse_integer_number true) vs) (fun zs => POk (map u zs)) | _ => PUnmodelled end
  else if ty_in sw TSiface t then
    match v with VList _ vs => pbind (pmap_list (parse_integer_number true) vs) (fun zs => POk (map u zs)) | _ => PUnmodelled end
  else PErr.
Definition number_parse_assign (v : gval) : pres (list pid) :=
  pbind (nil_interface v) (fun isnil => if isnil then POk [] else number_parse_value v).

(* ---- NumberRangeParser ---- *)
Fixpoint split_colon (s : text) : list text :=
  match s with
  | [] => [[]]
  | 58%N :: r => [] :: split_colon r
  | c :: r => match split_colon r with
              | [] => [[c]]
              | h :: t => (c :: h) :: t
              end
  end.
(* NewRangeDesc: (start, end, step) *)
Definition range_desc (s : text) : option (Z * Z * Z) :=
  match split_colon s with
  | a :: b :: rest =>
    match parse_int_text b with
    | None => None
    | Some e =>
      match parse_int_text a with
      | None => None
      | Some st =>
        match rest with
        | [] => Some (st, e, 1)
        | c :: _ => match parse_int_text c with
                    | Some sp => if sp <? 1 then None else Some (st, e, sp)
                    | None => None end
        end
      end
    end
  | _ => None
  end.
(* for s := start; s <= end; s += step  (int64 arithmetic; bounds of magnitude <= 2^62 so no wrap
   before the loop ends when step >= 1); step <= 0 with start <= end never terminates in practice *)
Fixpoint enum_range (fuel : nat) (s e step : Z) : list Z :=
  match fuel with
  | O => []
  | S f => if s <=? e then s :: enum_range f (s + step) e step else []
  end.
(* the same loop in the code's int64 arithmetic: as repaired (b90faa2: leaves before `s += step` would wrap) and as
   it was (F19: wraps to MinInt64 and goes on).  Proofs/ParsersProof: the repaired loop = enum_range on all of int64. *)
Fixpoint enum_range_i64 (fuel : nat) (s e step : Z) : list Z :=
  match fuel with
  | O => []
  | S f => if s <=? e then s :: (if (two63 - 1 - step) <? s then [] else enum_range_i64 f (wrap_i64 (s + step)) e step) else []
  end.
Fixpoint enum_range_pinned (fuel : nat) (s e step : Z) : list Z :=
  match fuel with
  | O => []
  | S f => if s <=? e then s :: enum_range_pinned f (wrap_i64 (s + step)) e step else []
  end.
Definition expand_desc (d : Z * Z * Z) : pres (list Z) :=
  let '(st, e, sp) := d in
  if e <? st then POk []
  else if sp <=? 0 then PDiverge
  else POk (enum_range (Z.to_nat ((e - st) / sp + 1)) st e sp).
Definition numrange_parse_value (v : gval) : pres (list pid) :=
  let sw := sw_numrange_ParseValue in
  let t := type_of v in
  let one := fun s => match range_desc s with
                      | None => PErr
                      | Some d => pbind (expand_desc d) (fun zs => POk (map (fun z => PNum (wrap_u64 z)) zs)) end in
  if ty_in sw Tstring t then match v with VStr s => one s | _ => PUnmodelled end
  else if ty_in sw TSstring t then
    match v with VSlice _ _ vs => pbind (pmap_list (fun e => match e with VStr s => one s | _ => PUnmodelled end) vs)
                                    (fun ls => POk (concat ls)) | _ => PUnmodelled end
  else if ty_in sw TSiface t then
    match v with VList _ vs => pbind (pmap_list (fun e => match e with VStr s => one s | _ => PErr end) vs)
                                 (fun ls => POk (concat ls)) | _ => PUnmodelled end
  else PErr.
Definition numrange_parse_assign (v : gval) : pres (list pid) :=
  pbind (nil_interface v) (fun isnil =>
  if isnil then POk [] else
  let sw := sw_numrange_ParseAssign in
  let t := type_of v in
  if ty_in sw Tint t then pbind (parse_integer_number true v) (fun z => POk [PNum (wrap_u64 z)])
  else (* slices are parsed element by element and then discarded: always an error; so is everything else *)
    match v with
    | VSlice _ _ vs | VList _ vs => pbind (pmap_list (parse_integer_number true) vs) (fun _ => PErr)
    | _ => PErr
    end).

(* ---- StrHashParser ---- *)
Definition strhash_parse_value (v : gval) : pres (list pid) :=
  let sw := sw_strhash_ParseValue in
  let t := type_of v in
  if ty_in sw Tstring t then match v with VStr s => POk [PText s] | _ => PUnmodelled end
  else if ty_in sw TSstring t then
    match v with VSlice _ _ vs => pmap_list (fun e => match e with VStr s => POk (PText s) | _ => PUnmodelled end) vs | _ => PUnmodelled end
  else if ty_in sw TSiface t then
    match v with VList _ vs => pmap_list (fun e => match e with VStr s => POk (PText s) | _ => PErr end) vs | _ => PUnmodelled end
  else PErr.
Definition strhash_parse_assign (v : gval) : pres (list pid) :=
  pbind (nil_interface v) (fun isnil => if isnil then POk [] else strhash_parse_value v).

(* the four value parsers behind one name *)
Inductive parser_kind := PCommon | PNumber | PStrHash | PNumRange.
Definition parse_value (p : parser_kind) : gval -> pres (list pid) :=
  match p with PCommon => common_parse_value | PNumber => number_parse_value
             | PStrHash => strhash_parse_value | PNumRange => numrange_parse_value end.
Definition parse_assign (p : parser_kind) : gval -> pres (list pid) :=
  match p with PCommon => common_parse_assign | PNumber => number_parse_assign
             | PStrHash => strhash_parse_assign | PNumRange => numrange_parse_assign end.

(* ---- range holder helpers ---- *)
Definition min_i64 : Z := - two63.
Definition max_i64 : Z := two63 - 1.
(* NewRange: l == r -> r++ *)
Definition new_range (l r : Z) : Z * Z := if l =? r then (l, wrap_i64 (r + 1)) else (l, r).
Definition parse_between (v : gval) : pres (Z * Z) :=
  let sw := sw_ParseBetween in
  let t := type_of v in
  let fin := fun l r : Z => if r <? l then PErr else POk (new_range l r) in
  if ty_in sw TA2int64 t then
    match v with VArr _ [VInt _ l; VInt _ r] => fin l r | _ => PUnmodelled end
  else if ty_in sw TSint64 t then
    match v with
    | VSlice _ _ [VInt _ l; VInt _ r] => fin l r
    | VSlice _ _ _ => PErr
    | _ => PUnmodelled end
  else if ty_in sw TSiface t then      (* a pair as decoded from JSON *)
    match v with
    | VList _ [a; b] => pbind (parse_integer_number true a) (fun l => pbind (parse_integer_number true b) (fun r => fin l r))
    | VList _ _ => PErr
    | _ => PUnmodelled end
  else if ty_in sw Tstring t then
    match v with
    | VStr s => match range_desc s with Some (st, e, _) => fin st e | None => PErr end
    | _ => PUnmodelled end
  else PErr.

Inductive vop := OpEQ | OpGT | OpLT | OpBetween | OpOther.
Definition parse_range (op : vop) (f2i : bool) (v : gval) : pres (Z * Z) :=
  match op with
  | OpBetween => parse_between v
  | OpGT => pbind (parse_integer_number f2i v) (fun n => POk (new_range (wrap_i64 (n + 1)) max_i64))
  | OpLT => pbind (parse_integer_number f2i v) (fun n => POk (new_range min_i64 n))
  | _ => PErr
  end.

(* ---- pattern (Aho-Corasick) holder helpers ---- *)
Definition ac_parse_dict (v : gval) : pres (list text) :=
  let sw := sw_ParseAcMatchDict in
  let t := type_of v in
  if ty_in sw Tstring t then match v with VStr s => POk [s] | _ => PUnmodelled end
  else if ty_in sw TSuint8 t then PUnmodelled    (* []byte -> string(bytes): byte strings are outside the text model *)
  else if ty_in sw TSstring t then
    match v with VSlice _ _ vs => pmap_list (fun e => match e with VStr s => POk s | _ => PUnmodelled end) vs | _ => PUnmodelled end
  else if ty_in sw TSiface t then
    match v with VList _ vs => pmap_list (fun e => match e with VStr s => POk s | _ => PErr end) vs | _ => PUnmodelled end
  else PErr.

Fixpoint join_sep (sep : text) (ss : list text) : text :=
  match ss with
  | [] => []
  | [s] => s
  | s :: rest => s ++ sep ++ join_sep sep rest
  end.
Definition ac_query_text (sep : text) (v : gval) : pres text :=
  let sw := sw_BuildAcMatchContent in
  let t := type_of v in
  if ty_in sw Tstring t then match v with VStr s => POk s | _ => PUnmodelled end
  else if ty_in sw TSstring t then
    match v with VSlice _ _ vs => pbind (pmap_list (fun e => match e with VStr s => POk s | _ => PUnmodelled end) vs)
                                    (fun ss => POk (join_sep sep ss)) | _ => PUnmodelled end
  else if ty_in sw TSiface t then
    match v with VList _ vs => pbind (pmap_list (fun e => match e with VStr s => POk s | _ => PErr end) vs)
                                 (fun ss => POk (join_sep sep ss)) | _ => PUnmodelled end
  else PErr.
