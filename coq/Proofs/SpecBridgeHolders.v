(* BRIDGE between the representation-free specification (Model/Spec.v) and the end-to-end theorems about
   the executable posting-list index with CONFIGURED fields (Proofs/IndexCorrectHolders.v): any mix of the
   default, pattern (CAc) and range (CRange) containers.  Extends Proofs/SpecBridge.v (fields = []).
   See the end of the file for the list of results and the witnesses for every hypothesis. *)
From Coq Require Import List NArith ZArith Bool Lia Permutation.
From BE Require Import Model.GoTypes Model.GoVal Model.Parsers Model.Index Model.Spec Gen.TypeSwitchGen.
From BE Require Import Proofs.ParsersProof Proofs.CanonProof Proofs.DenoteProof Proofs.IndexBuildInv Proofs.IndexCorrect.
From BE Require Import Proofs.HoldersBuildInv Proofs.IndexCorrectHolders Proofs.SpecBridge.
From BE Require Gen.IdsGen Proofs.IdsProof Proofs.RoaringProof Proofs.NoTrace Proofs.AcProof.
Import ListNotations.
Local Open Scope Z_scope.

(* ================================================================== *)
(* 0. the configured field table                                       *)
(* ================================================================== *)

(* Spec's `fields` for the ConfigField calls cfgl on a builder whose default-holder parsers are `parsers` *)
Definition cfg_fields (parsers : fname -> parser_kind) (cfgl : list (fname * cont_kind)) : list fdesc :=
  map (fun fc => {| fd_name := fst fc; fd_cont := snd fc; fd_parser := parsers (fst fc) |}) cfgl.

(* both sides read the FIRST entry of a field: no NoDup hypothesis is needed *)
Lemma field_desc_cfg parsers cfgl f :
  field_desc (cfg_fields parsers cfgl) parsers f = mkfd parsers (cfg_of cfgl) f.
Proof.
  unfold field_desc, find_field, cfg_of, mkfd, cfg_fields.
  induction cfgl as [|[g c] l IH]; cbn [map find alookup fst snd fd_name]; [reflexivity|].
  rewrite (N.eqb_sym g f). destruct (N.eqb_spec f g) as [->|Hne]; [reflexivity|]. exact IH.
Qed.

Lemma field_desc_cont parsers cfgl f : fd_cont (field_desc (cfg_fields parsers cfgl) parsers f) = cfg_of cfgl f.
Proof. rewrite field_desc_cfg. reflexivity. Qed.
Lemma field_desc_parser parsers cfgl f : fd_parser (field_desc (cfg_fields parsers cfgl) parsers f) = parsers f.
Proof. rewrite field_desc_cfg. reflexivity. Qed.

(* ... and it IS the builder's field table after the configuration phase *)
Lemma config_fields_b_fields : forall l st st0, config_fields st l = Some st0 ->
  b_fields st0 = b_fields st ++ cfg_fields (b_parsers st) l /\ b_parsers st0 = b_parsers st.
Proof.
  induction l as [|[g c] l IH]; intros st st0 H; cbn [config_fields] in H.
  - inversion H; subst. cbn [cfg_fields map]. rewrite app_nil_r. auto.
  - unfold config_field in H. destruct (find_field g (b_fields st)); [discriminate|].
    apply IH in H. cbn [b_fields b_parsers] in H. destruct H as [H1 H2]. split; [|exact H2].
    rewrite H1, <- app_assoc. reflexivity.
Qed.

Lemma configured_fields kind pol thr parsers cfgl st0 :
  config_fields (new_builder kind pol thr parsers) cfgl = Some st0 ->
  b_fields st0 = cfg_fields parsers cfgl /\ NoDup (map fst cfgl).
Proof.
  intros H. destruct (config_fields_b_fields _ _ _ H) as [E _]. cbn [new_builder b_fields b_parsers app] in E.
  split; [exact E|].
  destruct (config_fields_inv cfgl _ _ (new_builder_CfgInv kind pol thr parsers) H) as ([N0 _] & _).
  rewrite E in N0. unfold cfg_fields in N0. rewrite map_map in N0. exact N0.
Qed.

(* ================================================================== *)
(* 1a. the PATTERN container: ParseAcMatchDict / BuildAcMatchContent   *)
(* ================================================================== *)

Lemma option_map_id {A} (o : option (list A)) : option_map (map (fun x => x)) o = o.
Proof. destruct o; cbn [option_map]; [rewrite map_id|]; reflexivity. Qed.

Lemma ac_elem_list vs :
  pmap_list (fun e => match e with VStr s => POk s | _ => PErr end) vs = ans (all_some (map str_scalar vs)).
Proof.
  rewrite (pmap_exact _ str_scalar (fun s => s)); [rewrite option_map_id; reflexivity|].
  intros x _. destruct x; reflexivity.
Qed.
Lemma ac_elem_slice vs : (forall e, In e vs -> elem_shape TSstring e) ->
  pmap_list (fun e => match e with VStr s => POk s | _ => PUnmodelled end) vs = ans (all_some (map str_scalar vs)).
Proof.
  intros He. rewrite (pmap_exact _ str_scalar (fun s => s)); [rewrite option_map_id; reflexivity|].
  intros x Hin. destruct (He x Hin) as [k z E|w f E|s E|s E|b E]; try discriminate; try reflexivity.
  - destruct k; discriminate.
  - destruct w; discriminate.
Qed.

(* the keywords of an expression value: exactly Spec.strings_of, except that a []byte value (outside
   the text model) is answered PUnmodelled -- in either case it is not accepted *)
Theorem ac_dict_exact v : wf_val v ->
  match strings_of v with
  | Some ks => ac_parse_dict v = POk ks
  | None => is_ok (ac_parse_dict v) = false
  end.
Proof.
  intros Hwf.
  destruct v as [|k z|w f|s|s|b|t n vs|n vs|t vs|t n]; try reflexivity.
  - destruct k; reflexivity.
  - destruct w; reflexivity.
  - destruct (slice_elems _ _ _ Hwf) as [Ht He].
    destruct t; try discriminate Ht; try reflexivity.
    cbn [strings_of]. change (ac_parse_dict (VSlice TSstring n vs)) with
      (pmap_list (fun e => match e with VStr s => POk s | _ => PUnmodelled end) vs).
    rewrite (ac_elem_slice vs He). destruct (all_some (map str_scalar vs)); reflexivity.
  - cbn [strings_of]. change (ac_parse_dict (VList n vs)) with
      (pmap_list (fun e => match e with VStr s => POk s | _ => PErr end) vs).
    rewrite (ac_elem_list vs). destruct (all_some (map str_scalar vs)); reflexivity.
  - destruct Hwf as [Hw _]. cbn [wf_shape] in Hw. destruct t; try contradiction; reflexivity.
  - destruct Hwf as [Hw _]. cbn [wf_shape] in Hw. destruct t; try discriminate; reflexivity.
Qed.

Corollary ac_dict_ok_iff v : wf_val v -> (is_ok (ac_parse_dict v) = true <-> strings_of v <> None).
Proof.
  intros Hw. pose proof (ac_dict_exact v Hw) as H. destruct (strings_of v).
  - rewrite H. split; [discriminate|reflexivity].
  - rewrite H. split; [discriminate|congruence].
Qed.

(* the text of an assigned value: the strings joined by one space *)
Theorem ac_query_exact v : wf_val v ->
  ac_query_text [32%N] v = ans (option_map (join_sep [32%N]) (strings_of v)).
Proof.
  intros Hwf.
  destruct v as [|k z|w f|s|s|b|t n vs|n vs|t vs|t n]; try reflexivity.
  - destruct k; reflexivity.
  - destruct w; reflexivity.
  - destruct (slice_elems _ _ _ Hwf) as [Ht He].
    destruct t; try discriminate Ht; try reflexivity.
    cbn [strings_of]. change (ac_query_text [32%N] (VSlice TSstring n vs)) with
      (pbind (pmap_list (fun e => match e with VStr s => POk s | _ => PUnmodelled end) vs) (fun ss => POk (join_sep [32%N] ss))).
    rewrite (ac_elem_slice vs He). destruct (all_some (map str_scalar vs)); reflexivity.
  - cbn [strings_of]. change (ac_query_text [32%N] (VList n vs)) with
      (pbind (pmap_list (fun e => match e with VStr s => POk s | _ => PErr end) vs) (fun ss => POk (join_sep [32%N] ss))).
    rewrite (ac_elem_list vs). destruct (all_some (map str_scalar vs)); reflexivity.
  - destruct Hwf as [Hw _]. cbn [wf_shape] in Hw. destruct t; try contradiction; reflexivity.
  - destruct Hwf as [Hw _]. cbn [wf_shape] in Hw. destruct t; try discriminate; reflexivity.
Qed.

(* every keyword of the expression value is non-empty (boolean; true when the value has no keywords) *)
Definition kw_nonempty (v : gval) : bool :=
  match strings_of v with Some ks => forallb nonempty_t ks | None => true end.

Lemma substring_nil_r k : k <> [] -> kw_found k [] = false.
Proof. exact (AcProof.kw_found_nil_r k). Qed.

(* Spec.hit on keywords = the model's rule, when no keyword is empty *)
Lemma hit_keywords ks t : forallb nonempty_t ks = true ->
  Spec.hit (EKeywords ks) (QText t) = nonempty_t t && existsb (fun w => kw_found w t) ks.
Proof.
  intros Hne. cbn [Spec.hit].
  transitivity (existsb (fun w => kw_found w t) ks).
  - apply existsb_ext_in. intros k Hk. rewrite forallb_forall in Hne. specialize (Hne k Hk). destruct k; [discriminate|reflexivity].
  - destruct t as [|c t']; cbn [nonempty_t andb]; [|reflexivity].
    rewrite <- (existsb_false ks). apply existsb_ext_in. intros k Hk. rewrite forallb_forall in Hne. specialize (Hne k Hk).
    apply substring_nil_r. intros ->. discriminate.
Qed.

(* one expression against one assigned value, pattern container *)
Theorem ehit_ac_sem fd p e v s qs : fd_cont fd = CAc ->
  wf_val (e_val e) -> wf_val v -> kw_nonempty (e_val e) = true ->
  expr_sem fd e = Some s -> assign_sem fd v = Some qs ->
  ehit CAc p v e = Spec.hit s qs.
Proof.
  intros Hc Hwe Hwv Hne. unfold expr_sem, assign_sem. rewrite Hc.
  destruct (e_op e); try discriminate.
  pose proof (ac_dict_exact _ Hwe) as Hd. pose proof (ac_query_exact _ Hwv) as Hq. unfold kw_nonempty in Hne.
  destruct (strings_of (e_val e)) as [ks|]; [|discriminate]. destruct (strings_of v) as [ss|]; [|discriminate].
  cbn [option_map ans] in *. intros [= <-] [= <-]. cbn [ehit]. rewrite Hd, Hq. symmetry. apply hit_keywords. exact Hne.
Qed.

(* acceptance, pattern container: no hypothesis besides well-formedness *)
Theorem expr_ok_ac_sem fd parsers cfg f e : cfg f = CAc -> fd_cont fd = CAc -> wf_val (e_val e) ->
  (expr_ok' parsers cfg f e = true <-> expr_sem fd e <> None).
Proof.
  intros Hc Hc' Hw. unfold expr_ok', expr_sem. rewrite Hc, Hc'.
  destruct (e_op e); try (split; [discriminate|congruence]).
  rewrite (ac_dict_ok_iff _ Hw). destruct (strings_of (e_val e)); cbn [option_map]; split; congruence.
Qed.

Theorem qv_ok_ac_sem fd p v : fd_cont fd = CAc -> wf_val v ->
  (qv_ok CAc p v = true <-> assign_sem fd v <> None).
Proof.
  intros Hc Hw. unfold assign_sem. rewrite Hc. cbn [qv_ok]. rewrite (ac_query_exact v Hw).
  destruct (strings_of v); cbn [option_map ans is_ok]; split; congruence.
Qed.

(* ================================================================== *)
(* 1b. the RANGE container                                             *)
(* ================================================================== *)

(* ---- ParseRange WITHOUT a bound on the operands: what the model stores for the interval [l0, r0) the
   specification denotes (DenoteProof.parse_range_ans assumes |bound| <= 2^62, under which mrepr is
   range_repr) ---- *)
Definition mrepr (op : vop) (lr : Z * Z) : Z * Z :=
  match op with
  | OpGT => new_range (wrap_i64 (fst lr)) max_i64      (* l0 = a + 1 wraps at a = MaxInt64; right end MaxInt64 *)
  | OpLT => new_range min_i64 (snd lr)                 (* [MinInt64, MinInt64) becomes {MinInt64} *)
  | _ => (fst lr, wrap_i64 (snd lr))                   (* [MaxInt64, 2^63) becomes (MaxInt64, MinInt64) *)
  end.

Lemma fin_full l r : in_i64 r ->
  (if r <? l then PErr else POk (new_range l r)) = ans (option_map (mrepr OpBetween) (ord_pair l r)).
Proof.
  intros Hr. unfold ord_pair, new_range, mrepr.
  destruct (Z.ltb_spec r l), (Z.ltb_spec l r), (Z.eqb_spec l r); try lia; try reflexivity.
  cbn [option_map ans fst snd]. rewrite (wrap_i64_id r Hr). reflexivity.
Qed.

Lemma int_fits_i64 z : int_fits (VInt KI64 z) -> in_i64 z.
Proof. intros H. apply H. reflexivity. Qed.

Theorem parse_range_full op v : op <> OpEQ ->
  wf_val v -> modelled_num v -> ints_fit v ->
  parse_range op true v = ans (option_map (mrepr op) (range_spec op v)).
Proof.
  intros Ho [Hw Hwe] [[Hf Hfe] [Ht Hte]] [Hi Hie].
  destruct op; try congruence; try reflexivity.
  - (* > *)
    unfold parse_range, range_spec. rewrite (intnum_raw v Hw Hf Ht Hi).
    destruct (int_scalar v) as [a|] eqn:E; reflexivity.
  - (* < *)
    unfold parse_range, range_spec. rewrite (intnum_raw v Hw Hf Ht Hi).
    destruct (int_scalar v) as [a|] eqn:E; reflexivity.
  - (* between *)
    unfold parse_range, range_spec.
    destruct v as [|k z|w f|s|s|b|t n vs|n vs|t vs|t n]; try reflexivity.
    + destruct k; reflexivity.
    + destruct w; reflexivity.
    + (* "l:h" *)
      change (parse_between (VStr s)) with
        (match range_desc s with Some (st, e, _) => if e <? st then PErr else POk (new_range st e) | None => PErr end).
      cbn [between_spec]. destruct (range_desc s) as [[[l h] sp]|] eqn:Ed; [|reflexivity].
      apply fin_full. apply (range_desc_bounds _ _ _ _ Ed).
    + (* typed slice *)
      destruct Hw as [Hst Hty]. cbn [elems] in *.
      destruct t; try discriminate Hst; try reflexivity.
      destruct vs as [|a [|b' [|c vs]]]; try reflexivity.
      * destruct a; reflexivity.
      * pose proof (elem_cases a _ (Forall_In _ _ _ Hwe (or_introl eq_refl)) (Forall_In _ _ _ Hty (or_introl eq_refl))) as Ea.
        pose proof (elem_cases b' _ (Forall_In _ _ _ Hwe (or_intror (or_introl eq_refl))) (Forall_In _ _ _ Hty (or_intror (or_introl eq_refl)))) as Eb.
        destruct Ea as [ka za Eka|? ? Eka|? Eka|? Eka|? Eka]; try discriminate Eka; [|destruct w; discriminate Eka].
        destruct Eb as [kb zb Ekb|? ? Ekb|? Ekb|? Ekb|? Ekb]; try discriminate Ekb; [|destruct w; discriminate Ekb].
        destruct ka; try discriminate Eka. destruct kb; try discriminate Ekb.
        change (parse_between (VSlice TSint64 n [VInt KI64 za; VInt KI64 zb])) with
          (if zb <? za then PErr else POk (new_range za zb)).
        cbn [between_spec]. apply fin_full. apply int_fits_i64.
        exact (Forall_In _ _ _ Hie (or_intror (or_introl eq_refl))).
      * destruct a; try reflexivity; destruct b'; reflexivity.
    + (* []interface{} pair *)
      cbn [elems] in *.
      destruct vs as [|a [|b' [|c vs]]]; try reflexivity.
      change (parse_between (VList n [a; b'])) with
        (pbind (parse_integer_number true a) (fun l => pbind (parse_integer_number true b') (fun r =>
           if r <? l then PErr else POk (new_range l r)))).
      cbn [between_spec].
      rewrite (intnum_raw a) by (eapply Forall_In; eauto; left; reflexivity).
      rewrite (intnum_raw b') by (eapply Forall_In; eauto; right; left; reflexivity).
      destruct (int_scalar a) as [l|]; [|reflexivity].
      destruct (int_scalar b') as [h|] eqn:Eb; [|reflexivity]. cbn [ans pbind].
      apply fin_full. eapply int_scalar_range; exact Eb.
    + (* arrays *)
      cbn [wf_shape] in Hw. destruct t; try contradiction; [|reflexivity].
      destruct Hw as (l & r & ->). cbn [elems] in *.
      change (parse_between (VArr TA2int64 [VInt KI64 l; VInt KI64 r])) with
        (if r <? l then PErr else POk (new_range l r)).
      cbn [between_spec]. apply fin_full. apply int_fits_i64.
      exact (Forall_In _ _ _ Hie (or_intror (or_introl eq_refl))).
    + cbn [wf_shape] in Hw. destruct t; try discriminate; reflexivity.
Qed.

(* where the specification's interval [l0, r0) lies *)
Lemma ord_pair_shape l h l0 r0 : in_i64 l -> in_i64 h -> ord_pair l h = Some (l0, r0) ->
  in_i64 l0 /\ l0 < r0 /\ r0 <= two63.
Proof.
  unfold ord_pair, in_i64. intros Hl Hh. destruct (Z.ltb_spec l h); [intros [= <- <-]; lia|].
  destruct (Z.eqb_spec l h); [intros [= <- <-]; lia|discriminate].
Qed.

Lemma range_spec_shape op v l0 r0 : wf_val v -> ints_fit v -> range_spec op v = Some (l0, r0) ->
  match op with
  | OpGT => in_i64 (l0 - 1) /\ r0 = two63
  | OpLT => l0 = - two63 /\ in_i64 r0
  | OpBetween => in_i64 l0 /\ l0 < r0 /\ r0 <= two63
  | _ => False
  end.
Proof.
  intros [Hw Hwe] [Hi Hie]. destruct op; cbn [range_spec]; try discriminate.
  - destruct (int_scalar v) as [a|] eqn:E; [|discriminate]. cbn [option_map]. intros [= <- <-].
    apply int_scalar_range in E. replace (a + 1 - 1) with a by lia. auto.
  - destruct (int_scalar v) as [a|] eqn:E; [|discriminate]. cbn [option_map]. intros [= <- <-].
    apply int_scalar_range in E. auto.
  - unfold between_spec.
    destruct v as [|k z|w f|s|s|b|t n vs|n vs|t vs|t n]; try discriminate.
    + destruct (range_desc s) as [[[l h] sp]|] eqn:Ed; [|discriminate].
      destruct (range_desc_bounds _ _ _ _ Ed). apply ord_pair_shape; assumption.
    + destruct Hw as [Hst Hty]. cbn [elems] in *. destruct t; try discriminate.
      destruct vs as [|a [|b' [|c vs]]]; try discriminate; try (destruct a; discriminate).
      * pose proof (elem_cases a _ (Forall_In _ _ _ Hwe (or_introl eq_refl)) (Forall_In _ _ _ Hty (or_introl eq_refl))) as Ea.
        pose proof (elem_cases b' _ (Forall_In _ _ _ Hwe (or_intror (or_introl eq_refl))) (Forall_In _ _ _ Hty (or_intror (or_introl eq_refl)))) as Eb.
        destruct Ea as [ka za Eka|? ? Eka|? Eka|? Eka|? Eka]; try discriminate Eka; [|destruct w; discriminate Eka].
        destruct Eb as [kb zb Ekb|? ? Ekb|? Ekb|? Ekb|? Ekb]; try discriminate Ekb; [|destruct w; discriminate Ekb].
        destruct ka; try discriminate Eka. destruct kb; try discriminate Ekb.
        apply ord_pair_shape; apply int_fits_i64.
        -- exact (Forall_In _ _ _ Hie (or_introl eq_refl)).
        -- exact (Forall_In _ _ _ Hie (or_intror (or_introl eq_refl))).
      * destruct a; try discriminate; destruct b'; discriminate.
    + destruct vs as [|a [|b' [|c vs]]]; try discriminate.
      destruct (int_scalar a) as [l|] eqn:Ea; [|discriminate]. destruct (int_scalar b') as [h|] eqn:Eb; [|discriminate].
      apply ord_pair_shape; eapply int_scalar_range; eassumption.
    + cbn [wf_shape] in Hw. destruct t; try contradiction; try discriminate.
      destruct Hw as (l & r & ->). cbn [elems] in *. apply ord_pair_shape; apply int_fits_i64.
      * exact (Forall_In _ _ _ Hie (or_introl eq_refl)).
      * exact (Forall_In _ _ _ Hie (or_intror (or_introl eq_refl))).
Qed.

(* THE EXACT DOMAIN.  The interval [l0, r0) the specification assigns to an expression is REPRESENTABLE:
     x > a          a <> MaxInt64                (l0 = a + 1 < 2^63)
     x < b          b <> MinInt64                (r0 = b > -2^63)
     between l h    not (l = h = MaxInt64)       (r0 < 2^63)
   and, for `>` only, the assigned integer x is not MaxInt64 (ParseRange's right end MaxInt64 is exclusive). *)
Definition erange_ok (op : vop) (l0 r0 : Z) : bool :=
  match op with OpGT => l0 <? two63 | OpLT => - two63 <? r0 | OpBetween => r0 <? two63 | _ => true end.

Lemma mrepr_hit op v l0 r0 x : wf_val v -> ints_fit v -> range_spec op v = Some (l0, r0) ->
  erange_ok op l0 r0 = true -> (op = OpGT -> x <> max_i64) -> in_i64 x ->
  (let '(l, r) := mrepr op (l0, r0) in (l <=? x) && (x <? r)) = (l0 <=? x) && (x <? r0).
Proof.
  intros Hw Hi Hs Hok Hx Hxi. pose proof (range_spec_shape op v l0 r0 Hw Hi Hs) as Hsh.
  unfold in_i64, max_i64, min_i64 in *.
  destruct op; try contradiction; cbn [erange_ok mrepr fst snd] in *.
  - destruct Hsh as [Ha ->]. specialize (Hx eq_refl). apply Z.ltb_lt in Hok.
    rewrite (wrap_i64_id l0) by (unfold two63 in *; lia). unfold new_range, max_i64.
    destruct (Z.eqb_spec l0 (two63 - 1)); apply eq_iff_eq_true; rewrite !andb_true_iff, !Z.leb_le, !Z.ltb_lt.
    + assert (wrap_i64 (two63 - 1 + 1) = - two63) by reflexivity. unfold two63 in *. lia.
    + unfold two63 in *. lia.
  - destruct Hsh as [-> Hb]. apply Z.ltb_lt in Hok. unfold new_range, min_i64.
    destruct (Z.eqb_spec (- two63) r0); [lia|reflexivity].
  - destruct Hsh as (Hl & Hlr & Hr). apply Z.ltb_lt in Hok. rewrite (wrap_i64_id r0) by (unfold two63 in *; lia). reflexivity.
Qed.

(* the side condition of IndexCorrectHolders (kept intervals lie inside int64 and are not inverted) follows from the
   same representability condition; the inverted pair (MaxInt64, MinInt64) stored for `> MaxInt64 - 1` is not kept
   when the threshold is larger than -2^64 *)
Lemma f64_ends : f64_of_Z max_i64 = two63 /\ f64_of_Z min_i64 = - two63.
Proof. split; vm_compute; reflexivity. Qed.

Lemma mrepr_rwf op v l0 r0 thr : wf_val v -> ints_fit v -> range_spec op v = Some (l0, r0) ->
  erange_ok op l0 r0 = true -> - two64 < thr ->
  let '(l, r) := mrepr op (l0, r0) in range_size_lt l r thr = false -> min_i64 <= l /\ l <= r /\ r <= max_i64.
Proof.
  intros Hw Hi Hs Hok Hthr. pose proof (range_spec_shape op v l0 r0 Hw Hi Hs) as Hsh.
  unfold in_i64 in *.
  destruct op; try contradiction; cbn [erange_ok mrepr fst snd] in *.
  - destruct Hsh as [Ha ->]. apply Z.ltb_lt in Hok.
    rewrite (wrap_i64_id l0) by (unfold two63 in *; lia). unfold new_range.
    destruct (Z.eqb_spec l0 max_i64) as [->|Hne].
    + assert (E : wrap_i64 (max_i64 + 1) = min_i64) by reflexivity. rewrite E. unfold range_size_lt.
      destruct f64_ends as [-> ->]. intros H. apply Z.ltb_ge in H. unfold two63, two64 in *. lia.
    + intros _. unfold max_i64, min_i64, two63 in *. lia.
  - destruct Hsh as [-> Hb]. apply Z.ltb_lt in Hok. unfold new_range, min_i64, max_i64.
    destruct (Z.eqb_spec (- two63) r0); [lia|]. intros _. unfold two63 in *. lia.
  - destruct Hsh as (Hl & Hlr & Hr). apply Z.ltb_lt in Hok. rewrite (wrap_i64_id r0) by (unfold two63 in *; lia).
    intros _. unfold max_i64, min_i64, two63 in *. lia.
Qed.

(* ---- the checkable side conditions of a range-container expression / assigned value ---- *)
(* `in`: ParseIntergers reads a nil-like value as the empty list; the specification (ints_of) agrees only
   for nil slices of integers/strings/floats (DenoteProof.f_integers_nil) *)
Definition nil_in_ok (v : gval) : bool :=
  negb (nil_like v) || match ints_of v with Some [] => true | _ => false end.
Definition rng_expr_ok (e : expr) : bool :=
  match e_op e with
  | OpEQ => nil_in_ok (e_val e)
  | op => match range_spec op (e_val e) with Some (l0, r0) => erange_ok op l0 r0 | None => true end
  end.
Definition is_gt (e : expr) : bool := match e_op e with OpGT => true | _ => false end.
(* no assigned integer is MaxInt64 *)
Definition below_max (v : gval) : bool :=
  match ints_of v with Some xs => forallb (fun x => x <? max_i64) xs | None => true end.

Lemma range_in_exact v zs : wf_val v -> modelled_num v -> ints_fit v -> nil_in_ok v = true ->
  ints_of v = Some zs -> parse_integers true v = POk zs.
Proof.
  intros Hw Hm Hi Hn E. rewrite (parse_integers_ans v Hw Hm Hi). unfold nil_in_ok in Hn. rewrite E in *.
  destruct (nil_like v); [|reflexivity]. cbn [negb orb] in Hn. destruct zs; [reflexivity|discriminate].
Qed.

Lemma range_asg_cases fd v qs : fd_cont fd = CRange -> wf_val v -> modelled_num v -> ints_fit v ->
  assign_sem fd v = Some qs ->
  exists xs, qs = QNums xs /\ parse_integers true v = POk xs /\ Forall in_i64 xs /\
             (xs = [] \/ ints_of v = Some xs).
Proof.
  intros Hc Hw Hm Hi Hs. pose proof (range_assign_sem fd v Hc Hw Hm Hi) as H. rewrite Hs in H.
  destruct H as (xs & -> & Hp). exists xs. split; [reflexivity|]. split; [exact Hp|].
  unfold assign_sem in Hs. rewrite Hc in Hs. destruct (nil_like v).
  - inversion Hs; subst. split; [constructor|left; reflexivity].
  - destruct (ints_of v) as [ys|] eqn:E; [|discriminate]. inversion Hs; subst. split; [eapply ints_of_range; exact E|right; reflexivity].
Qed.

(* one expression against one assigned value, range container *)
Theorem ehit_range_sem fd p e v s qs : fd_cont fd = CRange ->
  wf_val (e_val e) -> modelled_num (e_val e) -> ints_fit (e_val e) -> rng_expr_ok e = true ->
  wf_val v -> modelled_num v -> ints_fit v -> (is_gt e = true -> below_max v = true) ->
  expr_sem fd e = Some s -> assign_sem fd v = Some qs ->
  ehit CRange p v e = Spec.hit s qs.
Proof.
  intros Hc Hwe Hme Hie Hde Hwv Hmv Hiv Hgt Hs Hq.
  destruct (range_asg_cases fd v qs Hc Hwv Hmv Hiv Hq) as (xs & -> & Hp & Hxs & Hxo).
  cbn [ehit]. rewrite Hp. unfold rng_expr_ok, is_gt in *.
  destruct (e_op e) eqn:Eo.
  - (* in *)
    unfold expr_sem in Hs. rewrite Hc, Eo in Hs. destruct (nil_like (e_val e)) eqn:En.
    { (* a nil-like value lists no values on both sides *)
      inversion Hs; subst s. cbn [Spec.hit existsb].
      assert (Hpz : parse_integers true (e_val e) = POk []) by (rewrite (parse_integers_ans _ Hwe Hme Hie), En; reflexivity).
      apply Bool.not_true_is_false. intro H. apply existsb_exists in H. destruct H as (x & _ & H).
      unfold range_hit in H. rewrite Eo, Hpz in H. discriminate H. }
    destruct (ints_of (e_val e)) as [zs|] eqn:Ez; [|discriminate].
    inversion Hs; subst s. cbn [Spec.hit].
    pose proof (range_in_exact _ zs Hwe Hme Hie Hde Ez) as Hpz.
    rewrite existsb_comm. apply existsb_ext_in. intros x _. unfold range_hit. rewrite Eo, Hpz.
    apply existsb_ext_in. intros z _. apply Z.eqb_sym.
  - (* > *)
    rewrite (expr_sem_range fd e Hc) in Hs by (rewrite Eo; discriminate). rewrite Eo in Hs.
    destruct (range_spec OpGT (e_val e)) as [[l0 r0]|] eqn:Er; [|discriminate]. inversion Hs; subst s. cbn [fst snd Spec.hit].
    pose proof (parse_range_full OpGT (e_val e) ltac:(discriminate) Hwe Hme Hie) as Hpr. rewrite Er in Hpr. cbn [option_map ans] in Hpr.
    apply existsb_ext_in. intros x Hx. unfold range_hit. rewrite Eo, Hpr.
    apply (mrepr_hit OpGT (e_val e) l0 r0 x Hwe Hie Er Hde).
    + intros _. specialize (Hgt eq_refl). unfold below_max in Hgt. destruct Hxo as [->|Hxo]; [destruct Hx|]. rewrite Hxo in Hgt.
      rewrite forallb_forall in Hgt. specialize (Hgt x Hx). apply Z.ltb_lt in Hgt. lia.
    + exact (Forall_In _ _ _ Hxs Hx).
  - (* < *)
    rewrite (expr_sem_range fd e Hc) in Hs by (rewrite Eo; discriminate). rewrite Eo in Hs.
    destruct (range_spec OpLT (e_val e)) as [[l0 r0]|] eqn:Er; [|discriminate]. inversion Hs; subst s. cbn [fst snd Spec.hit].
    pose proof (parse_range_full OpLT (e_val e) ltac:(discriminate) Hwe Hme Hie) as Hpr. rewrite Er in Hpr. cbn [option_map ans] in Hpr.
    apply existsb_ext_in. intros x Hx. unfold range_hit. rewrite Eo, Hpr.
    apply (mrepr_hit OpLT (e_val e) l0 r0 x Hwe Hie Er Hde); [discriminate|exact (Forall_In _ _ _ Hxs Hx)].
  - (* between *)
    rewrite (expr_sem_range fd e Hc) in Hs by (rewrite Eo; discriminate). rewrite Eo in Hs.
    destruct (range_spec OpBetween (e_val e)) as [[l0 r0]|] eqn:Er; [|discriminate]. inversion Hs; subst s. cbn [fst snd Spec.hit].
    pose proof (parse_range_full OpBetween (e_val e) ltac:(discriminate) Hwe Hme Hie) as Hpr. rewrite Er in Hpr. cbn [option_map ans] in Hpr.
    apply existsb_ext_in. intros x Hx. unfold range_hit. rewrite Eo, Hpr.
    apply (mrepr_hit OpBetween (e_val e) l0 r0 x Hwe Hie Er Hde); [discriminate|exact (Forall_In _ _ _ Hxs Hx)].
  - unfold expr_sem in Hs. rewrite Hc, Eo in Hs. discriminate.
Qed.

(* acceptance, range container: no bound on the operands is needed *)
Theorem expr_ok_range_sem fd parsers cfg f e : cfg f = CRange -> fd_cont fd = CRange ->
  wf_val (e_val e) -> modelled_num (e_val e) -> ints_fit (e_val e) ->
  (expr_sem fd e <> None -> expr_ok' parsers cfg f e = true) /\
  ((e_op e = OpEQ -> nil_in_ok (e_val e) = true) -> expr_ok' parsers cfg f e = true -> expr_sem fd e <> None).
Proof.
  intros Hc Hc' Hw Hm Hi. unfold expr_ok'. rewrite Hc.
  destruct (e_op e) eqn:Eo.
  - unfold expr_sem. rewrite Hc', Eo. rewrite (parse_integers_ans _ Hw Hm Hi). unfold nil_in_ok. split.
    + destruct (nil_like (e_val e)); [intros _; reflexivity|].
      destruct (ints_of (e_val e)); cbn [option_map]; [|congruence]. intros _. reflexivity.
    + intros _. destruct (nil_like (e_val e)); [intros _; discriminate|].
      destruct (ints_of (e_val e)); cbn [option_map ans is_ok]; [intros _; discriminate|discriminate].
  - rewrite (expr_sem_range fd e Hc') by (rewrite Eo; discriminate). rewrite Eo.
    rewrite (parse_range_full OpGT _ ltac:(discriminate) Hw Hm Hi).
    destruct (range_spec OpGT (e_val e)); cbn [option_map ans is_ok]; split; congruence.
  - rewrite (expr_sem_range fd e Hc') by (rewrite Eo; discriminate). rewrite Eo.
    rewrite (parse_range_full OpLT _ ltac:(discriminate) Hw Hm Hi).
    destruct (range_spec OpLT (e_val e)); cbn [option_map ans is_ok]; split; congruence.
  - rewrite (expr_sem_range fd e Hc') by (rewrite Eo; discriminate). rewrite Eo.
    rewrite (parse_range_full OpBetween _ ltac:(discriminate) Hw Hm Hi).
    destruct (range_spec OpBetween (e_val e)); cbn [option_map ans is_ok]; split; congruence.
  - unfold expr_sem. rewrite Hc', Eo. split; [congruence|discriminate].
Qed.

Theorem qv_ok_range_sem fd p v : fd_cont fd = CRange -> wf_val v -> modelled_num v -> ints_fit v ->
  (qv_ok CRange p v = true <-> assign_sem fd v <> None).
Proof.
  intros Hc Hw Hm Hi. pose proof (range_assign_sem fd v Hc Hw Hm Hi) as H. cbn [qv_ok].
  destruct (assign_sem fd v) as [qs|].
  - destruct H as (zs & _ & ->). split; [discriminate|reflexivity].
  - rewrite H. split; [discriminate|congruence].
Qed.

(* erwf (IndexCorrectHolders' side condition) from the representability condition *)
Lemma erwf_of_dom thr cfg f e : wf_val (e_val e) -> modelled_num (e_val e) -> ints_fit (e_val e) ->
  rng_expr_ok e = true -> - two64 < thr -> erwf thr cfg f e.
Proof.
  intros Hw Hm Hi Hd Hthr _ l r Hp. unfold rng_expr_ok in Hd.
  destruct (e_op e) eqn:Eo; try discriminate.
  - rewrite (parse_range_full OpGT _ ltac:(discriminate) Hw Hm Hi) in Hp.
    destruct (range_spec OpGT (e_val e)) as [[l0 r0]|] eqn:Er; [|discriminate]. cbn [option_map ans] in Hp.
    pose proof (mrepr_rwf OpGT _ l0 r0 thr Hw Hi Er Hd Hthr) as H.
    assert (E : mrepr OpGT (l0, r0) = (l, r)) by congruence. rewrite E in H. exact H.
  - rewrite (parse_range_full OpLT _ ltac:(discriminate) Hw Hm Hi) in Hp.
    destruct (range_spec OpLT (e_val e)) as [[l0 r0]|] eqn:Er; [|discriminate]. cbn [option_map ans] in Hp.
    pose proof (mrepr_rwf OpLT _ l0 r0 thr Hw Hi Er Hd Hthr) as H.
    assert (E : mrepr OpLT (l0, r0) = (l, r)) by congruence. rewrite E in H. exact H.
  - rewrite (parse_range_full OpBetween _ ltac:(discriminate) Hw Hm Hi) in Hp.
    destruct (range_spec OpBetween (e_val e)) as [[l0 r0]|] eqn:Er; [|discriminate]. cbn [option_map ans] in Hp.
    pose proof (mrepr_rwf OpBetween _ l0 r0 thr Hw Hi Er Hd Hthr) as H.
    assert (E : mrepr OpBetween (l0, r0) = (l, r)) by congruence. rewrite E in H. exact H.
Qed.

(* the bound of the specification's comment (|bound| <= 2^62, |x| <= 2^62) is inside the exact domain *)
Lemma small_rng_expr_ok e : e_op e <> OpEQ -> wf_val (e_val e) -> ints_fit (e_val e) -> small_bounds (e_val e) ->
  rng_expr_ok e = true.
Proof.
  intros Ho Hw Hi (Hs & Hse & Hsd). unfold rng_expr_ok.
  destruct (e_op e) eqn:Eo; try congruence; try reflexivity.
  - cbn [range_spec]. destruct (int_scalar (e_val e)) as [a|] eqn:E; [|reflexivity]. cbn [option_map erange_ok].
    pose proof (small_of_scalar _ _ Hs E) as Ha. unfold small, two62 in Ha. apply Z.ltb_lt. unfold two63. lia.
  - cbn [range_spec]. destruct (int_scalar (e_val e)) as [a|] eqn:E; [|reflexivity]. cbn [option_map erange_ok].
    pose proof (small_of_scalar _ _ Hs E) as Ha. unfold small, two62 in Ha. apply Z.ltb_lt. unfold two63. lia.
  - destruct (range_spec OpBetween (e_val e)) as [[l0 r0]|] eqn:Er; [|reflexivity]. cbn [erange_ok]. apply Z.ltb_lt.
    (* r0 is h or h + 1 for a small h *)
    assert (G : forall l h, small h -> ord_pair l h = Some (l0, r0) -> r0 < two63).
    { intros l h Hh. unfold ord_pair, small, two62 in *. destruct (l <? h); [intros [= <- <-]; unfold two63; lia|].
      destruct (l =? h); [intros [= <- <-]; unfold two63; lia|discriminate]. }
    cbn [range_spec] in Er. unfold between_spec in Er. destruct Hw as [Hw Hwe].
    destruct (e_val e) as [|k z|w f|s|s|b|t n vs|n vs|t vs|t n]; try discriminate.
    + destruct (range_desc s) as [[[l h] sp]|]; [|discriminate]. eapply G; [|exact Er]. tauto.
    + destruct t; try discriminate. destruct vs as [|a [|b' [|c vs]]]; try discriminate; try (destruct a; discriminate).
      * destruct a as [|ka za| | | | | | | |]; try discriminate. destruct b' as [|kb zb| | | | | | | |]; try discriminate.
        cbn [elems] in *. destruct Hw as [_ Hty].
        pose proof (elem_cases _ _ (Forall_In _ _ _ Hwe (or_intror (or_introl eq_refl))) (Forall_In _ _ _ Hty (or_intror (or_introl eq_refl)))) as Eb.
        inversion Eb as [kb' zb' Ekb| | | |]; subst. destruct kb; try discriminate Ekb.
        eapply G; [|exact Er]. apply (small_int64 KI64 zb eq_refl).
        -- exact (Forall_In _ _ _ (proj2 Hi) (or_intror (or_introl eq_refl))).
        -- exact (Forall_In _ _ _ Hse (or_intror (or_introl eq_refl))).
      * destruct a; try discriminate; destruct b'; discriminate.
    + destruct vs as [|a [|b' [|c vs]]]; try discriminate.
      destruct (int_scalar a) as [l|]; [|discriminate]. destruct (int_scalar b') as [h|] eqn:Eb; [|discriminate].
      eapply G; [|exact Er]. eapply small_of_scalar; [|exact Eb]. exact (Forall_In _ _ _ Hse (or_intror (or_introl eq_refl))).
    + cbn [wf_shape] in Hw. destruct t; try contradiction; try discriminate. destruct Hw as (l & r & ->).
      eapply G; [|exact Er]. apply (small_int64 KI64 r eq_refl).
      * exact (Forall_In _ _ _ (proj2 Hi) (or_intror (or_introl eq_refl))).
      * exact (Forall_In _ _ _ Hse (or_intror (or_introl eq_refl))).
Qed.

Lemma small_below_max v : (forall xs x, ints_of v = Some xs -> In x xs -> small x) -> below_max v = true.
Proof.
  intros H. unfold below_max. destruct (ints_of v) as [xs|]; [|reflexivity]. apply forallb_forall. intros x Hx.
  specialize (H xs x eq_refl Hx). unfold small, two62 in H. apply Z.ltb_lt. unfold max_i64, two63. lia.
Qed.

(* ================================================================== *)
(* 2. one conjunction: Spec.sat_conj = IndexCorrectHolders.conj_sat'   *)
(* ================================================================== *)

(* the modelled fragment as far as the field's container looks at a value (Prop, as in SpecBridge) *)
Definition val_mod' (c : cont_kind) (p : parser_kind) (v : gval) : Prop :=
  match c with CDefault => val_mod p v | CAc => True | CRange => modelled_num v /\ ints_fit v end.
Definition asg_mod' (c : cont_kind) (p : parser_kind) (v : gval) : Prop :=
  match c with CDefault => asg_mod p v | CAc => True | CRange => modelled_num v /\ ints_fit v end.

(* the domain on which specification and model agree (booleans):
     pattern field   no keyword of the expression is empty
     range field     `in`: nil_in_ok;  > < between: the denoted interval is representable (erange_ok)
                     assigned value: no integer is MaxInt64 if the field has a `>` expression *)
Definition expr_dom (c : cont_kind) (e : expr) : bool :=
  match c with CDefault => true | CAc => kw_nonempty (e_val e) | CRange => rng_expr_ok e end.
Definition asg_dom (c : cont_kind) (es : list expr) (v : gval) : bool :=
  match c with CRange => negb (existsb is_gt es) || below_max v | _ => true end.

Lemma mkfd_default parsers cfg f : cfg f = CDefault -> mkfd parsers cfg f = mk_fd parsers f.
Proof. unfold mkfd, mk_fd. intros ->. reflexivity. Qed.

(* one expression against one assigned value, any container *)
Theorem ehit_sem parsers cfg f e v s qs :
  wf_val (e_val e) -> val_mod' (cfg f) (parsers f) (e_val e) -> expr_dom (cfg f) e = true ->
  wf_val v -> asg_mod' (cfg f) (parsers f) v -> (is_gt e = true -> asg_dom (cfg f) [e] v = true) ->
  expr_sem (mkfd parsers cfg f) e = Some s -> assign_sem (mkfd parsers cfg f) v = Some qs ->
  ehit (cfg f) (parsers f) v e = Spec.hit s qs.
Proof.
  intros Hwe Hme Hde Hwv Hmv Hgt Hs Hq. destruct (cfg f) eqn:Ec; cbn [val_mod' asg_mod' expr_dom asg_dom] in *.
  - rewrite (mkfd_default parsers cfg f Ec) in *. cbn [ehit].
    rewrite (parse_assign_sem parsers f v qs Hwv Hmv Hq).
    apply val_hit_sem; try assumption. eapply assign_sem_def; [|exact Hq]. reflexivity.
  - apply (ehit_ac_sem (mkfd parsers cfg f)); assumption.
  - destruct Hme as [Hme Hie]. destruct Hmv as [Hmv Hiv].
    apply (ehit_range_sem (mkfd parsers cfg f)); try assumption.
    intros Hg. specialize (Hgt Hg). cbn [existsb] in Hgt. rewrite Hg in Hgt. cbn in Hgt. exact Hgt.
Qed.

(* the expressions of one field: Spec's two oexists and the flag test against field_sat''s three existsb *)
Section FieldG.
  Variables (fd : fdesc) (mh : expr -> bool) (eh : esem -> option bool) (hb : esem -> bool).
  Hypothesis Heh : forall s, eh s = Some (hb s).

  Lemma field_bridge' : forall es l,
    (forall e s, In e es -> expr_sem fd e = Some s -> mh e = hb s) ->
    all_some (map (fun e => option_map (fun s => (e_incl e, s)) (expr_sem fd e)) es) = Some l ->
    oexists (fun ie : bool * esem => if fst ie then Some false else eh (snd ie)) l
      = Some (existsb (fun e => negb (e_incl e) && mh e) es) /\
    oexists (fun ie : bool * esem => if fst ie then eh (snd ie) else Some false) l
      = Some (existsb (fun e => e_incl e && mh e) es) /\
    existsb (@fst bool esem) l = existsb e_incl es.
  Proof.
    induction es as [|e es IH]; intros l Hh; cbn [map all_some].
    - intros [= <-]. cbn. auto.
    - destruct (expr_sem fd e) as [s|] eqn:Es; cbn [option_map]; [|discriminate].
      destruct (all_some (map (fun e0 => option_map (fun s0 => (e_incl e0, s0)) (expr_sem fd e0)) es)) as [l'|] eqn:El;
        cbn [option_map]; [|discriminate].
      intros [= <-].
      destruct (IH l' (fun e0 s0 H => Hh e0 s0 (or_intror H)) eq_refl) as (I1 & I2 & I3).
      pose proof (Hh e s (or_introl eq_refl) Es) as He.
      cbn [oexists existsb fst snd]. rewrite I1, I2, I3, He, Heh.
      destruct (e_incl e); cbn [obind negb andb orb]; auto.
  Qed.
End FieldG.

Lemma field_bridge_sat' fd c p v eh hb es l : (forall s, eh s = Some (hb s)) ->
  (forall e s, In e es -> expr_sem fd e = Some s -> ehit c p v e = hb s) ->
  all_some (map (fun e => option_map (fun s => (e_incl e, s)) (expr_sem fd e)) es) = Some l ->
  obind (oexists (fun ie : bool * esem => if fst ie then Some false else eh (snd ie)) l) (fun excluded =>
  obind (oexists (fun ie : bool * esem => if fst ie then eh (snd ie) else Some false) l) (fun included =>
    Some (negb excluded && (negb (existsb (@fst bool esem) l) || included))))
  = Some (field_sat' c p v es).
Proof.
  intros Heh Hh Hl. destruct (field_bridge' fd (ehit c p v) eh hb Heh es l Hh Hl) as (I1 & I2 & I3). rewrite I1, I2, I3.
  cbn [obind]. unfold field_sat'. rewrite andb_comm. reflexivity.
Qed.

(* the assigned value of one field *)
Lemma assigned_cases' parsers cfg (fields : list fdesc) q f es :
  field_desc fields parsers f = mkfd parsers cfg f ->
  (forall v, In (f, v) q -> wf_val v /\ asg_mod' (cfg f) (parsers f) v /\ asg_dom (cfg f) es v = true /\
                            assign_sem (field_desc fields parsers f) v <> None) ->
  exists hb,
    (forall s, expr_hit fields parsers q f s = Some (hb s)) /\
    (forall e s, In e es -> wf_val (e_val e) -> val_mod' (cfg f) (parsers f) (e_val e) -> expr_dom (cfg f) e = true ->
       expr_sem (mkfd parsers cfg f) e = Some s -> ehit (cfg f) (parsers f) (field_val q f) e = hb s).
Proof.
  intros Hfd Hq. unfold expr_hit, field_val, RoaringProof.field_val. rewrite lookup_assign_alookup.
  destruct (alookup N.eqb f q) as [v|] eqn:E.
  - apply alookup_In in E. destruct (Hq v E) as (Hw & Hm & Hd & Hs). rewrite Hfd in *.
    destruct (assign_sem (mkfd parsers cfg f) v) as [qs|] eqn:Ea; [|congruence].
    exists (fun s => Spec.hit s qs). split; [reflexivity|]. intros e s Hin Hwe Hme Hde Hse.
    apply (ehit_sem parsers cfg f e v s qs); try assumption.
    intros Hg. unfold asg_dom in *. destruct (cfg f); try reflexivity. cbn [existsb]. rewrite Hg. cbn.
    assert (Hex : existsb is_gt es = true) by (apply existsb_exists; exists e; auto). rewrite Hex in Hd. exact Hd.
  - exists (fun _ => false). split; [reflexivity|]. intros e s _ _ _ _ _. apply ehit_VNil.
Qed.

(* MAIN (per conjunction).  fields = cfg_fields parsers cfgl, cfg = cfg_of cfgl.  No NoDup hypothesis. *)
Theorem sat_conj_conj_sat' parsers cfgl q : forall cj sc,
  (forall f es e, In (f, es) cj -> In e es ->
     wf_val (e_val e) /\ val_mod' (cfg_of cfgl f) (parsers f) (e_val e) /\ expr_dom (cfg_of cfgl f) e = true) ->
  (forall f es v, In (f, es) cj -> In (f, v) q ->
     wf_val v /\ asg_mod' (cfg_of cfgl f) (parsers f) v /\ asg_dom (cfg_of cfgl f) es v = true /\
     assign_sem (field_desc (cfg_fields parsers cfgl) parsers f) v <> None) ->
  conj_sem (cfg_fields parsers cfgl) parsers cj = Some sc ->
  sat_conj (cfg_fields parsers cfgl) parsers q sc = Some (conj_sat' parsers (cfg_of cfgl) q cj).
Proof.
  induction cj as [|[f es] cj IH]; intros sc He Hq Hs.
  - cbv in Hs. inversion Hs; subst. reflexivity.
  - apply conj_sem_cons in Hs. destruct Hs as (l & sc' & Hl & Hs' & ->).
    specialize (IH sc' (fun f' es' e H => He f' es' e (or_intror H)) (fun f' es' v H => Hq f' es' v (or_intror H)) Hs').
    destruct (assigned_cases' parsers (cfg_of cfgl) (cfg_fields parsers cfgl) q f es (field_desc_cfg parsers cfgl f)
                (fun v => Hq f es v (or_introl eq_refl))) as (hb & Hh & Hv).
    unfold sat_conj in *. cbn [oforall fst snd]. rewrite IH.
    unfold conj_sat'. cbn [forallb fst snd]. fold (conj_sat' parsers (cfg_of cfgl) q cj).
    rewrite (field_bridge_sat' (field_desc (cfg_fields parsers cfgl) parsers f) (cfg_of cfgl f) (parsers f) (field_val q f)
               (expr_hit (cfg_fields parsers cfgl) parsers q f) hb es l Hh); [reflexivity| |exact Hl].
    intros e s Hin Hse. destruct (He f es e (or_introl eq_refl) Hin) as (Hw & Hm & Hd).
    rewrite field_desc_cfg in Hse. apply Hv; assumption.
Qed.

(* ---- a conjunction is accepted iff it denotes ---- *)
(* the only side condition: an `in` expression of a range field whose value is nil-like must denote the empty list *)
Definition in_nil_ok (c : cont_kind) (e : expr) : bool :=
  match c, e_op e with CRange, OpEQ => nil_in_ok (e_val e) | _, _ => true end.

Lemma expr_dom_in_nil_ok c e : expr_dom c e = true -> in_nil_ok c e = true.
Proof. unfold expr_dom, in_nil_ok, rng_expr_ok. destruct c; try reflexivity. destruct (e_op e); auto. Qed.

Theorem expr_ok'_expr_sem parsers cfg f e :
  wf_val (e_val e) -> val_mod' (cfg f) (parsers f) (e_val e) ->
  (expr_sem (mkfd parsers cfg f) e <> None -> expr_ok' parsers cfg f e = true) /\
  (in_nil_ok (cfg f) e = true -> expr_ok' parsers cfg f e = true -> expr_sem (mkfd parsers cfg f) e <> None).
Proof.
  intros Hw Hm. destruct (cfg f) eqn:Ec; cbn [val_mod'] in Hm.
  - rewrite (mkfd_default parsers cfg f Ec). pose proof (expr_ok_expr_sem parsers f e Hw Hm) as H.
    unfold expr_ok'. rewrite Ec. split; [apply H|intros _; apply H].
  - pose proof (expr_ok_ac_sem (mkfd parsers cfg f) parsers cfg f e Ec Ec Hw) as H. split; [apply H|intros _; apply H].
  - destruct Hm as [Hm Hi]. destruct (expr_ok_range_sem (mkfd parsers cfg f) parsers cfg f e Ec Ec Hw Hm Hi) as [H1 H2].
    split; [exact H1|]. intros Hn. apply H2. intros Ho. unfold in_nil_ok in Hn. rewrite Ho in Hn. exact Hn.
Qed.

Theorem conj_ok'_conj_sem parsers cfgl cj :
  (forall f es e, In (f, es) cj -> In e es -> wf_val (e_val e) /\ val_mod' (cfg_of cfgl f) (parsers f) (e_val e)) ->
  (conj_sem (cfg_fields parsers cfgl) parsers cj <> None -> conj_ok' parsers (cfg_of cfgl) cj = true) /\
  ((forall f es e, In (f, es) cj -> In e es -> in_nil_ok (cfg_of cfgl f) e = true) ->
   conj_ok' parsers (cfg_of cfgl) cj = true -> conj_sem (cfg_fields parsers cfgl) parsers cj <> None).
Proof.
  intros He. rewrite conj_sem_not_none. unfold conj_ok'. rewrite forallb_forall. split.
  - intros H [f es] H1. cbn [fst snd]. apply forallb_forall. intros e H2.
    destruct (He f es e H1 H2) as [Hw Hm]. apply (expr_ok'_expr_sem parsers (cfg_of cfgl) f e Hw Hm).
    rewrite <- field_desc_cfg. apply (H f es e H1 H2).
  - intros Hn H f es e H1 H2. specialize (H (f, es) H1). cbn [fst snd] in H. rewrite forallb_forall in H.
    destruct (He f es e H1 H2) as [Hw Hm]. rewrite field_desc_cfg.
    apply (expr_ok'_expr_sem parsers (cfg_of cfgl) f e Hw Hm); [apply (Hn f es e H1 H2)|apply H; exact H2].
Qed.

Corollary conj_ok'_conj_sem_iff parsers cfgl cj :
  (forall f es e, In (f, es) cj -> In e es ->
     wf_val (e_val e) /\ val_mod' (cfg_of cfgl f) (parsers f) (e_val e) /\ in_nil_ok (cfg_of cfgl f) e = true) ->
  (conj_ok' parsers (cfg_of cfgl) cj = true <-> conj_sem (cfg_fields parsers cfgl) parsers cj <> None).
Proof.
  intros He. destruct (conj_ok'_conj_sem parsers cfgl cj) as [H1 H2].
  - intros f es e A B. destruct (He f es e A B) as (X & Y & _). auto.
  - split; [apply H2; intros f es e A B; apply (He f es e A B)|exact H1].
Qed.

(* the assigned value is accepted by its container iff it denotes *)
Theorem qv_ok_assign_sem parsers cfg f v : wf_val v -> asg_mod' (cfg f) (parsers f) v ->
  assign_sem (mkfd parsers cfg f) v <> None -> qv_ok (cfg f) (parsers f) v = true.
Proof.
  intros Hw Hm Hs. destruct (cfg f) eqn:Ec; cbn [asg_mod'] in Hm.
  - rewrite (mkfd_default parsers cfg f Ec) in Hs. destruct (assign_sem (mk_fd parsers f) v) as [qs|] eqn:E; [|congruence].
    cbn [qv_ok]. rewrite (parse_assign_sem parsers f v qs Hw Hm E). reflexivity.
  - apply (qv_ok_ac_sem (mkfd parsers cfg f) (parsers f) v Ec Hw). exact Hs.
  - destruct Hm as [Hm Hi]. apply (qv_ok_range_sem (mkfd parsers cfg f) (parsers f) v Ec Hw Hm Hi). exact Hs.
Qed.

(* ================================================================== *)
(* 3. END TO END against Model/Spec.v, configured fields               *)
(* ================================================================== *)

(* every expression value of the document is well formed, inside the modelled fragment of its field's container ... *)
Definition doc_wf' (parsers : fname -> parser_kind) (cfg : fname -> cont_kind) (d : doc) : Prop :=
  forall cj f es e, In cj (d_conjs d) -> In (f, es) cj -> In e es ->
    wf_val (e_val e) /\ val_mod' (cfg f) (parsers f) (e_val e).
(* ... and inside the domain of agreement (a boolean over the document) *)
Definition doc_dom (cfg : fname -> cont_kind) (d : doc) : bool :=
  forallb (fun cj : conj => forallb (fun fe => forallb (expr_dom (cfg (fst fe))) (snd fe)) cj) (d_conjs d).
Definition doc_good' (parsers : fname -> parser_kind) (cfg : fname -> cont_kind) (d : doc) : Prop :=
  doc_wf' parsers cfg d /\ doc_dom cfg d = true.

Lemma doc_dom_spec cfg d : doc_dom cfg d = true <->
  forall cj f es e, In cj (d_conjs d) -> In (f, es) cj -> In e es -> expr_dom (cfg f) e = true.
Proof.
  unfold doc_dom. rewrite forallb_forall. split.
  - intros H cj f es e H1 H2 H3. specialize (H cj H1). rewrite forallb_forall in H. specialize (H (f, es) H2).
    cbn [fst snd] in H. rewrite forallb_forall in H. apply H. exact H3.
  - intros H cj H1. apply forallb_forall. intros [f es] H2. cbn [fst snd]. apply forallb_forall. intros e H3.
    apply (H cj f es e H1 H2 H3).
Qed.

(* every assigned value is well formed, modelled and SUPPORTED (denotes something for its field) *)
Definition asg_good' (parsers : fname -> parser_kind) (cfgl : list (fname * cont_kind)) (q : assignment) : Prop :=
  forall f v, In (f, v) q ->
    wf_val v /\ asg_mod' (cfg_of cfgl f) (parsers f) v /\
    assign_sem (field_desc (cfg_fields parsers cfgl) parsers f) v <> None.
(* no assigned integer of a range field that carries a `>` expression in some document is MaxInt64 *)
Definition asg_dom_for (cfg : fname -> cont_kind) (ds : list doc) (q : assignment) : Prop :=
  forall d cj f es v, In d ds -> In cj (d_conjs d) -> In (f, es) cj -> In (f, v) q -> asg_dom (cfg f) es v = true.

Lemma below_max_asg_dom_for cfg ds (q : assignment) :
  (forall f v, In (f, v) q -> cfg f = CRange -> below_max v = true) -> asg_dom_for cfg ds q.
Proof.
  intros H d cj f es v _ _ _ Hq. unfold asg_dom. destruct (cfg f) eqn:Ec; try reflexivity.
  rewrite (H f v Hq Ec). apply orb_true_r.
Qed.

Lemma asg_good'_qv_ok parsers cfgl q : asg_good' parsers cfgl q ->
  forall f v, In (f, v) q -> qv_ok (cfg_of cfgl f) (parsers f) v = true.
Proof.
  intros H f v Hin. destruct (H f v Hin) as (Hw & Hm & Hs). rewrite field_desc_cfg in Hs.
  apply qv_ok_assign_sem; assumption.
Qed.

(* IndexCorrectHolders' side condition on kept intervals, from doc_good' *)
Lemma doc_good'_rwf parsers cfg thr d : - two64 < thr -> doc_good' parsers cfg d ->
  forall cj, In cj (d_conjs d) -> conj_rwf thr cfg cj.
Proof.
  intros Hthr [Hw Hd] cj Hcj f es e H1 H2. destruct (Hw cj f es e Hcj H1 H2) as [Hwe Hme].
  pose proof (proj1 (doc_dom_spec cfg d) Hd cj f es e Hcj H1 H2) as Hde.
  destruct (cfg f) eqn:Ec; try (apply erwf_not_range; rewrite Ec; discriminate).
  cbn [val_mod' expr_dom] in *. destruct Hme as [Hme Hie]. apply erwf_of_dom; assumption.
Qed.

(* accepted documents: every conjunction is accepted and denotes, ids are valid *)
Lemma accepted_denote' kind pol thr parsers cfgl st0 ds st os :
  config_fields (new_builder kind pol thr parsers) cfgl = Some st0 ->
  add_documents false st0 ds = (st, os) ->
  Forall (eq AddOk) os ->
  (forall d, In d ds -> doc_good' parsers (cfg_of cfgl) d) ->
  (pol <> PolSkip \/ forall d cj, In d ds -> In cj (d_conjs d) -> conj_sem (cfg_fields parsers cfgl) parsers cj <> None) ->
  (- two64 < thr \/ forall d cj, In d ds -> In cj (d_conjs d) -> conj_rwf thr (cfg_of cfgl) cj) ->
  (forall d cj, In d ds -> In cj (d_conjs d) ->
     conj_ok' parsers (cfg_of cfgl) cj = true /\ conj_sem (cfg_fields parsers cfgl) parsers cj <> None /\
     conj_rwf thr (cfg_of cfgl) cj) /\
  (forall d k cj, In d ds -> nth_error (d_conjs d) k = Some cj ->
     IdsGen.NewConjID (d_id d) (Z.of_nat k) (calc_size cj) <> None) /\
  (forall d, In d ds -> pl_docok d = true).
Proof.
  intros Hcfg Hadd Hok Hg Hpol Hthr.
  assert (Hrw : forall d cj, In d ds -> In cj (d_conjs d) -> conj_rwf thr (cfg_of cfgl) cj).
  { destruct Hthr as [Hthr|Hrw]; [|exact Hrw]. intros d cj Hd Hc. eapply doc_good'_rwf; eauto. }
  destruct (configured_GInv _ _ _ _ _ _ Hcfg) as (_ & _ & Hext).
  assert (Hrw' : forall d c, In d ds -> In c (d_conjs d) -> conj_rwf thr (fields_cfg st0) c).
  { intros d c Hd Hc. eapply conj_rwf_ext; [intros f; symmetry; apply Hext|]. eapply Hrw; eassumption. }
  destruct (add_documents_grepr kind pol thr parsers cfgl st0 ds st os Hcfg Hrw' Hadd Hok) as (_ & _ & Hall & Hids).
  assert (Hiff : forall d cj, In d ds -> In cj (d_conjs d) ->
            (conj_ok' parsers (cfg_of cfgl) cj = true <-> conj_sem (cfg_fields parsers cfgl) parsers cj <> None)).
  { intros d cj Hd Hc. apply conj_ok'_conj_sem_iff. intros f es e H1 H2. destruct (Hg d Hd) as [Hw Hdm].
    destruct (Hw cj f es e Hc H1 H2) as [A B]. split; [exact A|]. split; [exact B|].
    apply expr_dom_in_nil_ok. apply (proj1 (doc_dom_spec _ d) Hdm cj f es e Hc H1 H2). }
  split; [|split; [exact Hids|]].
  - intros d cj Hd Hc. destruct Hpol as [Hp|Hden].
    + pose proof (Hall Hp d cj Hd Hc) as Ho. rewrite (conj_ok'_ext parsers (fields_cfg st0) (cfg_of cfgl) cj Hext) in Ho.
      split; [exact Ho|]. split; [apply (Hiff d cj Hd Hc); exact Ho|apply (Hrw d cj Hd Hc)].
    + pose proof (Hden d cj Hd Hc) as Hs. split; [apply (Hiff d cj Hd Hc); exact Hs|]. split; [exact Hs|apply (Hrw d cj Hd Hc)].
  - intros d Hd. unfold pl_docok.
    pose proof (add_documents_valid _ _ _ _ _ Hadd Hok d Hd) as Hv. rewrite Hv. cbn [andb].
    unfold doc_valid in Hv. destruct (d_conjs d) as [|c cs] eqn:Ec; [discriminate|].
    specialize (Hids d O c Hd). rewrite Ec in Hids. specialize (Hids eq_refl).
    destruct (IdsGen.NewConjID (d_id d) (Z.of_nat 0) (calc_size c)) as [cid|] eqn:E; [|congruence].
    apply IdsProof.NewConjID_some_inrange in E. unfold valid_doc_id. apply Z.leb_le. apply E.
Qed.

(* sat_conj for the conjunctions of the documents *)
Lemma docs_sat_conj parsers cfgl ds q :
  (forall d, In d ds -> doc_good' parsers (cfg_of cfgl) d) ->
  asg_good' parsers cfgl q -> asg_dom_for (cfg_of cfgl) ds q ->
  forall d cj sc, In d ds -> In cj (d_conjs d) -> conj_sem (cfg_fields parsers cfgl) parsers cj = Some sc ->
    sat_conj (cfg_fields parsers cfgl) parsers q sc = Some (conj_sat' parsers (cfg_of cfgl) q cj).
Proof.
  intros Hg Hqg Hqd d cj sc Hd Hcj Hsc. apply sat_conj_conj_sat'; [| |exact Hsc].
  - intros f es e H1 H2. destruct (Hg d Hd) as [Hw Hdm]. destruct (Hw cj f es e Hcj H1 H2) as [A B].
    split; [exact A|]. split; [exact B|]. apply (proj1 (doc_dom_spec _ d) Hdm cj f es e Hcj H1 H2).
  - intros f es v H1 H2. destruct (Hqg f v H2) as (A & B & C). split; [exact A|]. split; [exact B|]. split; [|exact C].
    apply (Hqd d cj f es v Hd Hcj H1 H2).
Qed.

Theorem index_correct_spec_holders kind pol thr parsers cfgl st0 ds st os q :
  config_fields (new_builder kind pol thr parsers) cfgl = Some st0 ->
  add_documents false st0 ds = (st, os) ->
  Forall (eq AddOk) os ->
  NoDup (map d_id ds) ->
  (forall d cj, In d ds -> In cj (d_conjs d) -> NoDup (map fst cj)) ->
  (forall d, In d ds -> doc_good' parsers (cfg_of cfgl) d) ->
  (pol <> PolSkip \/ forall d cj, In d ds -> In cj (d_conjs d) -> conj_sem (cfg_fields parsers cfgl) parsers cj <> None) ->
  (- two64 < thr \/ forall d cj, In d ds -> In cj (d_conjs d) -> conj_rwf thr (cfg_of cfgl) cj) ->
  NoDup (map fst q) ->
  asg_good' parsers cfgl q ->
  asg_dom_for (cfg_of cfgl) ds q ->
  (kind = IKGroups -> forall f v, In (f, v) q -> cfg_of cfgl f = CAc -> nil_slice_wf v) ->
  exists hits,
    retrieve_hits (build_index st) q = ROk hits /\
    NoDup (map snd hits) /\
    (forall d k cj cid, has_conj ds d k cj cid ->
       conj_sem (cfg_fields parsers cfgl) parsers cj <> None /\
       forall sc, conj_sem (cfg_fields parsers cfgl) parsers cj = Some sc ->
         (In cid (map snd hits) <-> sat_conj (cfg_fields parsers cfgl) parsers q sc = Some true)) /\
    (forall h, In h hits -> fst h = IdsGen.ConjID_DocID (snd h) /\
                            exists d k cj, has_conj ds d k cj (snd h)).
Proof.
  intros Hcfg Hadd Hok Hnd Hcjs Hg Hpol Hthr Hq Hqg Hqd Hqnil.
  destruct (accepted_denote' kind pol thr parsers cfgl st0 ds st os Hcfg Hadd Hok Hg Hpol Hthr) as (Hden & _ & _).
  destruct (index_correct_holders kind pol thr parsers cfgl st0 ds st os q Hcfg Hadd Hok Hnd Hcjs
              (or_intror (fun d cj Hd Hc => proj1 (Hden d cj Hd Hc)))
              (fun d cj Hd Hc => proj2 (proj2 (Hden d cj Hd Hc))) Hq (asg_good'_qv_ok parsers cfgl q Hqg) Hqnil)
    as (hits & E & N1 & I1 & O1).
  exists hits. split; [exact E|]. split; [exact N1|]. split; [|exact O1].
  intros d k cj cid Hh.
  assert (Hcj : In cj (d_conjs d)) by (destruct Hh as (_ & Hn & _); eapply nth_error_In; exact Hn).
  assert (Hd : In d ds) by apply Hh.
  split; [apply (Hden d cj Hd Hcj)|].
  intros sc Hsc. rewrite (I1 d k cj cid Hh).
  rewrite (docs_sat_conj parsers cfgl ds q Hg Hqg Hqd d cj sc Hd Hcj Hsc). split; congruence.
Qed.

(* ------------------------------------------------------------------ *)
(* sat_hits                                                            *)
Definition satb' (fields : list fdesc) (parsers : fname -> parser_kind) (q : assignment) (sc : sconj) : bool :=
  match sat_conj fields parsers q sc with Some b => b | None => false end.

Definition hits_of' fields parsers pol docok (q : assignment) (ds : list doc) : list (Z * (Z * Z)) :=
  flat_map (fun d => flat_map (fun ic : Z * sconj =>
                        if satb' fields parsers q (snd ic) then [(d_id d, (fst ic, sconj_size (snd ic)))] else [])
                      (doc_sem fields parsers pol docok d)) ds.

Lemma sat_hits_total' fields parsers pol docok ds q :
  (forall d ic, In d ds -> In ic (doc_sem fields parsers pol docok d) -> sat_conj fields parsers q (snd ic) <> None) ->
  sat_hits fields parsers pol docok ds q = Some (hits_of' fields parsers pol docok q ds).
Proof.
  intros H. unfold sat_hits, hits_of'.
  rewrite (all_some_total _ (fun d => flat_map (fun ic : Z * sconj =>
                        if satb' fields parsers q (snd ic) then [(d_id d, (fst ic, sconj_size (snd ic)))] else [])
                      (doc_sem fields parsers pol docok d))).
  - cbn [option_map]. rewrite <- flat_map_concat_map. reflexivity.
  - intros d Hd.
    rewrite (all_some_total _ (fun ic : Z * sconj =>
                        if satb' fields parsers q (snd ic) then [(d_id d, (fst ic, sconj_size (snd ic)))] else [])).
    + cbn [option_map]. rewrite <- flat_map_concat_map. reflexivity.
    + intros ic Hic. specialize (H d ic Hd Hic). unfold satb'.
      destruct (sat_conj fields parsers q (snd ic)); [reflexivity|congruence].
Qed.

(* the satisfied conjunctions the index reports = the ones the specification lists *)
Theorem index_sat_hits_holders kind pol thr parsers cfgl st0 ds st os q :
  config_fields (new_builder kind pol thr parsers) cfgl = Some st0 ->
  add_documents false st0 ds = (st, os) ->
  Forall (eq AddOk) os ->
  NoDup (map d_id ds) ->
  (forall d cj, In d ds -> In cj (d_conjs d) -> NoDup (map fst cj)) ->
  (forall d, In d ds -> doc_good' parsers (cfg_of cfgl) d) ->
  (pol <> PolSkip \/ forall d cj, In d ds -> In cj (d_conjs d) -> conj_sem (cfg_fields parsers cfgl) parsers cj <> None) ->
  (- two64 < thr \/ forall d cj, In d ds -> In cj (d_conjs d) -> conj_rwf thr (cfg_of cfgl) cj) ->
  NoDup (map fst q) ->
  asg_good' parsers cfgl q ->
  asg_dom_for (cfg_of cfgl) ds q ->
  (kind = IKGroups -> forall f v, In (f, v) q -> cfg_of cfgl f = CAc -> nil_slice_wf v) ->
  exists hits spec_hits,
    retrieve_hits (build_index st) q = ROk hits /\
    sat_hits (cfg_fields parsers cfgl) parsers pol pl_docok ds q = Some spec_hits /\
    Permutation (map (fun h : hitrec => triple (snd h)) hits) spec_hits.
Proof.
  intros Hcfg Hadd Hok Hnd Hcjs Hg Hpol Hthr Hq Hqg Hqd Hqnil.
  destruct (index_correct_spec_holders kind pol thr parsers cfgl st0 ds st os q Hcfg Hadd Hok Hnd Hcjs Hg Hpol Hthr Hq Hqg Hqd Hqnil)
    as (hits & E & N1 & I1 & O1).
  destruct (accepted_denote' kind pol thr parsers cfgl st0 ds st os Hcfg Hadd Hok Hg Hpol Hthr) as (Hden & Hids & Hdok).
  set (fields := cfg_fields parsers cfgl) in *.
  (* doc_sem of an accepted document *)
  set (L := fun d : doc => map (fun ic : Z * conj => (fst ic, conj_sem fields parsers (snd ic))) (indexed_from 0 (d_conjs d))).
  assert (Hds : forall d, In d ds -> doc_sem fields parsers pol pl_docok d = indexed_conjs pol (L d)).
  { intros d Hd. unfold doc_sem. rewrite (Hdok d Hd). reflexivity. }
  assert (HL : forall d, In d ds -> forall x, In x (L d) -> snd x <> None).
  { intros d Hd x Hx. apply in_map_iff in Hx. destruct Hx as ([i cj] & <- & Hin). cbn [fst snd].
    apply NoTrace.indexed_from_in in Hin. destruct Hin as [_ Hn]. apply nth_error_In in Hn. apply (Hden d cj Hd Hn). }
  assert (HLin : forall d i sc, In d ds -> In (i, sc) (doc_sem fields parsers pol pl_docok d) ->
            exists cj, 0 <= i /\ nth_error (d_conjs d) (Z.to_nat i) = Some cj /\ conj_sem fields parsers cj = Some sc).
  { intros d i sc Hd Hin. rewrite (Hds d Hd) in Hin. apply indexed_conjs_In in Hin.
    apply in_map_iff in Hin. destruct Hin as ([j cj] & Ej & Hin). cbn [fst snd] in Ej. inversion Ej; subst j.
    apply NoTrace.indexed_from_in in Hin. destruct Hin as [Hge Hn]. rewrite Z.sub_0_r in Hn. exists cj. auto. }
  pose proof (docs_sat_conj parsers cfgl ds q Hg Hqg Hqd) as Hsat. fold fields in Hsat.
  exists hits, (hits_of' fields parsers pol pl_docok q ds). split; [exact E|]. split.
  { apply sat_hits_total'. intros d [i sc] Hd Hin. cbn [snd].
    destruct (HLin d i sc Hd Hin) as (cj & _ & Hn & Hsc). apply nth_error_In in Hn.
    rewrite (Hsat d cj sc Hd Hn Hsc). discriminate. }
  assert (Em : map (fun h : hitrec => triple (snd h)) hits = map triple (map snd hits)) by (rewrite map_map; reflexivity).
  rewrite Em. apply NoDup_Permutation.
  - (* reported triples are distinct *)
    apply NoDup_map_inj_in; [|exact N1]. intros x y Hx Hy Et.
    apply in_map_iff in Hx, Hy. destruct Hx as (hx & <- & Hx), Hy as (hy & <- & Hy).
    destruct (O1 hx Hx) as [_ (d1 & k1 & c1 & H1)]. destruct (O1 hy Hy) as [_ (d2 & k2 & c2 & H2)].
    rewrite (has_conj_triple _ _ _ _ _ H1), (has_conj_triple _ _ _ _ _ H2) in Et. inversion Et as [[Ed Ek Es]].
    destruct H1 as (_ & _ & E1), H2 as (_ & _ & E2). rewrite Ed, Ek, Es in E1. congruence.
  - (* specified triples are distinct *)
    unfold hits_of'. apply (NoDup_flat_map_keyed _ fst d_id); [| |exact Hnd].
    + intros d y Hd Hy. apply in_flat_map in Hy. destruct Hy as (ic & _ & Hy).
      destruct (satb' fields parsers q (snd ic)); [|destruct Hy]. destruct Hy as [<-|[]]. reflexivity.
    + intros d Hd. apply (NoDup_flat_map_keyed _ (fun y => fst (snd y)) fst).
      * intros ic y _ Hy. destruct (satb' fields parsers q (snd ic)); [|destruct Hy]. destruct Hy as [<-|[]]. reflexivity.
      * intros ic _. destruct (satb' fields parsers q (snd ic)); repeat constructor. intros [].
      * rewrite (Hds d Hd). destruct (indexed_conjs_all pol (L d) (HL d Hd)) as [_ ->].
        unfold L. rewrite map_map. cbn [fst]. apply indexed_from_fst_NoDup.
  - (* same members *)
    intros t. split.
    + intros Ht. apply in_map_iff in Ht. destruct Ht as (cid & <- & Hc).
      assert (Hc' := Hc). apply in_map_iff in Hc'. destruct Hc' as (h & <- & Hh).
      destruct (O1 h Hh) as [_ (d & k & cj & Hhc)]. rewrite (has_conj_triple _ _ _ _ _ Hhc).
      destruct (I1 d k cj (snd h) Hhc) as [Hs Hiff].
      destruct (conj_sem fields parsers cj) as [sc|] eqn:Esc; [|congruence].
      apply (Hiff sc eq_refl) in Hc. destruct Hhc as (Hd & Hn & _).
      unfold hits_of'. apply in_flat_map. exists d. split; [exact Hd|].
      apply in_flat_map. exists (Z.of_nat k, sc). split.
      * rewrite (Hds d Hd). apply (indexed_conjs_all pol (L d) (HL d Hd)).
        unfold L. apply in_map_iff. exists (Z.of_nat k, cj). cbn [fst snd]. rewrite Esc. split; [reflexivity|].
        apply (indexed_from_nth _ 0) in Hn. exact Hn.
      * cbn [fst snd]. unfold satb'. rewrite Hc. left. rewrite (sconj_size_calc _ _ _ _ Esc). reflexivity.
    + intros Ht. unfold hits_of' in Ht. apply in_flat_map in Ht. destruct Ht as (d & Hd & Ht).
      apply in_flat_map in Ht. destruct Ht as ([i sc] & Hin & Ht). cbn [fst snd] in Ht.
      destruct (satb' fields parsers q sc) eqn:Eb; [|destruct Ht]. destruct Ht as [<-|[]].
      destruct (HLin d i sc Hd Hin) as (cj & Hge & Hn & Hsc).
      pose proof (Hids d (Z.to_nat i) cj Hd Hn) as Hnc. rewrite Z2Nat.id in Hnc by exact Hge.
      destruct (IdsGen.NewConjID (d_id d) i (calc_size cj)) as [cid|] eqn:Ec; [|congruence].
      assert (Hhc : has_conj ds d (Z.to_nat i) cj cid).
      { split; [exact Hd|]. split; [exact Hn|]. rewrite Z2Nat.id by exact Hge. exact Ec. }
      apply in_map_iff. exists cid. split.
      * rewrite (has_conj_triple _ _ _ _ _ Hhc), Z2Nat.id by exact Hge. rewrite (sconj_size_calc _ _ _ _ Hsc). reflexivity.
      * apply (proj2 (I1 d (Z.to_nat i) cj cid Hhc) sc Hsc). unfold satb' in Eb.
        destruct (sat_conj fields parsers q sc) as [[|]|]; congruence.
Qed.

(* documents (DocIDCollector) against the specification *)
Theorem retrieve_docs_correct_spec_holders kind pol thr parsers cfgl st0 ds st os q :
  config_fields (new_builder kind pol thr parsers) cfgl = Some st0 ->
  add_documents false st0 ds = (st, os) ->
  Forall (eq AddOk) os ->
  NoDup (map d_id ds) ->
  (forall d cj, In d ds -> In cj (d_conjs d) -> NoDup (map fst cj)) ->
  (forall d, In d ds -> doc_good' parsers (cfg_of cfgl) d) ->
  (pol <> PolSkip \/ forall d cj, In d ds -> In cj (d_conjs d) -> conj_sem (cfg_fields parsers cfgl) parsers cj <> None) ->
  (- two64 < thr \/ forall d cj, In d ds -> In cj (d_conjs d) -> conj_rwf thr (cfg_of cfgl) cj) ->
  NoDup (map fst q) ->
  asg_good' parsers cfgl q ->
  asg_dom_for (cfg_of cfgl) ds q ->
  (kind = IKGroups -> forall f v, In (f, v) q -> cfg_of cfgl f = CAc -> nil_slice_wf v) ->
  exists docs,
    retrieve (build_index st) q = ROk docs /\
    (forall d, In d ds ->
       (In (d_id d) docs <-> exists cj sc, In cj (d_conjs d) /\ conj_sem (cfg_fields parsers cfgl) parsers cj = Some sc /\
                                           sat_conj (cfg_fields parsers cfgl) parsers q sc = Some true)) /\
    (forall z, In z docs -> exists d, In d ds /\ z = d_id d).
Proof.
  intros Hcfg Hadd Hok Hnd Hcjs Hg Hpol Hthr Hq Hqg Hqd Hqnil.
  destruct (accepted_denote' kind pol thr parsers cfgl st0 ds st os Hcfg Hadd Hok Hg Hpol Hthr) as (Hden & _ & _).
  destruct (retrieve_docs_correct_holders kind pol thr parsers cfgl st0 ds st os q Hcfg Hadd Hok Hnd Hcjs
              (or_intror (fun d cj Hd Hc => proj1 (Hden d cj Hd Hc)))
              (fun d cj Hd Hc => proj2 (proj2 (Hden d cj Hd Hc))) Hq (asg_good'_qv_ok parsers cfgl q Hqg) Hqnil)
    as (docs & E & I1 & O1).
  exists docs. split; [exact E|]. split; [|exact O1].
  pose proof (docs_sat_conj parsers cfgl ds q Hg Hqg Hqd) as Hsat.
  intros d Hd. rewrite (I1 d Hd). split.
  - intros (cj & Hcj & Hs). destruct (conj_sem (cfg_fields parsers cfgl) parsers cj) as [sc|] eqn:Esc;
      [|exfalso; apply (proj1 (proj2 (Hden d cj Hd Hcj))); exact Esc].
    exists cj, sc. split; [exact Hcj|]. split; [exact Esc|]. rewrite (Hsat d cj sc Hd Hcj Esc), Hs. reflexivity.
  - intros (cj & sc & Hcj & Esc & Hs). exists cj. split; [exact Hcj|]. rewrite (Hsat d cj sc Hd Hcj Esc) in Hs. congruence.
Qed.

(* ================================================================== *)
(* 4. witnesses (by computation): every hypothesis is needed, the hypotheses are satisfiable *)
(* ================================================================== *)
Module BridgeWitnessH.
  Import WitnessH.   (* ps = number parser; field 10: pattern, field 20: range, every other field: default *)
  Definition fields := cfg_fields ps cfgl.
  Definition cfg := cfg_of cfgl.
  Definition i64 := DenoteProof.i64.
  Definition gt64 b z := {| e_incl := b; e_op := OpGT; e_val := i64 z |}.
  Definition lt64 b z := {| e_incl := b; e_op := OpLT; e_val := i64 z |}.
  Definition inn b v := {| e_incl := b; e_op := OpEQ; e_val := v |}.
  (* one range expression e against the assigned int64 x:
     (specification, model, rng_expr_ok e, below_max x) *)
  Definition one (e : expr) (x : Z) :=
    (option_map (sat_conj fields ps [(20%N, i64 x)]) (conj_sem fields ps [(20%N, [e])]),
     conj_sat' ps cfg [(20%N, i64 x)] [(20%N, [e])], rng_expr_ok e, below_max (i64 x)).

  (* the lookup lemma on a concrete table *)
  Example fields_are : fields = [{| fd_name := 10%N; fd_cont := CAc; fd_parser := PNumber |};
                                 {| fd_name := 20%N; fd_cont := CRange; fd_parser := PNumber |}].
  Proof. reflexivity. Qed.

  (* (1) PATTERN: kw_nonempty is needed.  GENUINE DISAGREEMENT between Model/Spec.v and the model: the specification
     ignores the empty keyword, the library stores it and it is hit by every non-empty text. *)
  Example empty_keyword :
    option_map (sat_conj fields ps [(10%N, VStr [97%N])]) (conj_sem fields ps [(10%N, [kw true []])]) = Some (Some false) /\
    conj_sat' ps cfg [(10%N, VStr [97%N])] [(10%N, [kw true []])] = true /\
    kw_nonempty (e_val (kw true [])) = false /\
    (forall k, run k [dE] [(10%N, VStr [97%N])] = Some ([AddOk], ROk [5], [[true]])).
  Proof. split; [vm_compute; reflexivity|]. split; [vm_compute; reflexivity|]. split; [vm_compute; reflexivity|].
    intros []; vm_compute; reflexivity. Qed.

  (* (2) RANGE, the exact domain.  Outside erange_ok / below_max specification and model disagree: *)
  Example gt_max :            (* x > MaxInt64: specification nothing, model everything but MaxInt64 *)
    one (gt64 true (two63 - 1)) 0 = (Some (Some false), true, false, true).
  Proof. vm_compute. reflexivity. Qed.
  Example gt_x_max :          (* x > 5 at x = MaxInt64: specification yes, model no *)
    one (gt64 true 5) (two63 - 1) = (Some (Some true), false, true, false).
  Proof. vm_compute. reflexivity. Qed.
  Example lt_min :            (* x < MinInt64 at x = MinInt64: specification no, model yes *)
    one (lt64 true (- two63)) (- two63) = (Some (Some false), true, false, true).
  Proof. vm_compute. reflexivity. Qed.
  Example between_max :       (* between MaxInt64 MaxInt64 at x = MaxInt64: specification yes, model no *)
    one (btw true (two63 - 1) (two63 - 1)) (two63 - 1) = (Some (Some true), false, false, false).
  Proof. vm_compute. reflexivity. Qed.
  (* ... and inside it they agree well beyond |.| <= 2^62 (the bound of the specification's comment is sufficient, not necessary) *)
  Example beyond_small :
    one (gt64 true (two63 - 2)) (two63 - 2) = (Some (Some false), false, true, true) /\     (* > MaxInt64-1: nothing below MaxInt64 *)
    one (gt64 true (two63 - 3)) (two63 - 2) = (Some (Some true), true, true, true) /\
    one (btw true (two63 - 2) (two63 - 2)) (two63 - 2) = (Some (Some true), true, true, true) /\
    one (lt64 true (- two63 + 1)) (- two63) = (Some (Some true), true, true, true).
  Proof. vm_compute. repeat split; reflexivity. Qed.

  (* (3) RANGE `in` of a nil-like value: the model accepts it as the empty list (ParseIntergers / util.NilInterface), and so
     does the specification (Spec.expr_sem, CRange/OpEQ: a nil-like value lists no values) -- they agree *)
  Example in_nil :
    conj_sem fields ps [(20%N, [inn true VNil])] = Some [(20%N, [(true, ENums [])])] /\ conj_ok' ps cfg [(20%N, [inn true VNil])] = true.
  Proof. vm_compute. repeat split; reflexivity. Qed.
  (* a nil-flagged slice carrying elements (not a Go value) *)
  Example in_nil_slice :
    one (inn true (VSlice TSint true [VInt KI 5])) 5 = (Some (Some false), false, false, true) /\
    one (inn true (VSlice TSint true [])) 5 = (Some (Some false), false, true, true).
  Proof. vm_compute. split; reflexivity. Qed.

  (* (4) SUPPORTED is needed for configured fields too: a pattern field assigned a number *)
  Example unsupported_pattern :
    assign_sem (field_desc fields ps 10%N) (VInt KI 7) = None /\
    option_map (sat_conj fields ps [(10%N, VInt KI 7)]) (conj_sem fields ps [(10%N, [kw false [97%N]])]) = Some None /\
    conj_sat' ps cfg [(10%N, VInt KI 7)] [(10%N, [kw false [97%N]])] = true /\
    qv_ok CAc PNumber (VInt KI 7) = false.
  Proof. vm_compute. repeat split; reflexivity. Qed.

  (* (5) the threshold condition -2^64 < thr only serves to discharge IndexCorrectHolders.conj_rwf for the inverted pair
     (MaxInt64, MinInt64) stored for `> MaxInt64 - 1`; with thr = -2^64 that pair is kept and violates conj_rwf *)
  Example tiny_threshold :
    parse_range OpGT true (i64 (two63 - 2)) = POk (max_i64, min_i64) /\
    range_size_lt max_i64 min_i64 (- two64) = false /\ range_size_lt max_i64 min_i64 (- two64 + 1) = true.
  Proof. vm_compute. repeat split; reflexivity. Qed.

  (* (6) NON-VACUITY: every hypothesis of index_sat_hits_holders holds of the IndexCorrectHolders.WitnessH data
     (pattern field 10, range field 20 with `in`, >, <, between -- kept and expanded intervals --, default field 1),
     for both index kinds *)
  Definition ds := [d1; d2; d3; d4].
  Definition st0 (k : index_kind) : bstate :=
    match config_fields (new_builder k PolError 256 ps) cfgl with Some s => s | None => new_builder k PolError 256 ps end.

  Ltac enum :=
    repeat match goal with
           | H : In _ (_ :: _) |- _ => destruct H as [H|H]
           | H : In _ [] |- _ => destruct H
           | H : _ \/ _ |- _ => destruct H as [H|H]
           | H : False |- _ => destruct H
           | H : (_, _) = (_, _) |- _ => inversion H; subst; clear H
           | H : _ = _ |- _ => progress subst
           end.
  Ltac arith := intros; try discriminate; try (unfold two63, two64 in *; lia).
  Ltac good := cbn; repeat (first [split | constructor | exact I | reflexivity | arith]).

  Lemma docs_good : forall d, In d ds -> doc_good' ps cfg d.
  Proof.
    intros d Hd. split; [|unfold ds in Hd; enum; vm_compute; reflexivity].
    intros cj f es e H1 H2 H3. unfold ds in Hd. repeat (enum; cbn in * |-).
    all: split; [unfold wf_val; good|].
    all: try exact I.
    all: try (change (modelled_num (e_val (num true 7))); unfold modelled_num, modelled; good).
    all: cbn [val_mod' cfg cfg_of cfgl alookup N.eqb Pos.eqb]; unfold modelled_num, modelled, ints_fit; good.
  Qed.
  Lemma q1_good : asg_good' ps cfgl q1.
  Proof.
    intros f v H. unfold q1 in H. repeat (enum; cbn in * |-).
    all: split; [unfold wf_val; good|].
    all: split; [|vm_compute; discriminate].
    all: cbn [asg_mod' cfg_of cfgl alookup N.eqb Pos.eqb]; try exact I; unfold asg_mod', ps, modelled_num, modelled, ints_fit; good.
  Qed.
  Lemma h_cfg k : config_fields (new_builder k PolError 256 ps) cfgl = Some (st0 k).
  Proof. destruct k; vm_compute; reflexivity. Qed.
  Lemma h_ok k st os : add_documents false (st0 k) ds = (st, os) -> Forall (eq AddOk) os.
  Proof.
    intros H. assert (E : os = snd (add_documents false (st0 k) ds)) by (rewrite H; reflexivity).
    rewrite E. destruct k; vm_compute; repeat constructor.
  Qed.
  Lemma h_nd : NoDup (map d_id ds).
  Proof. cbn; repeat constructor; cbn; intuition discriminate. Qed.
  Lemma h_cj : forall d cj, In d ds -> In cj (d_conjs d) -> NoDup (map fst cj).
  Proof. intros d cj Hd Hc; unfold ds in Hd; repeat (enum; cbn in * |-); cbn; repeat constructor; cbn; intuition discriminate. Qed.
  Lemma h_q : NoDup (map fst q1).
  Proof. cbn; repeat constructor; cbn; intuition discriminate. Qed.
  Lemma h_dom : asg_dom_for cfg ds q1.
  Proof. apply below_max_asg_dom_for; intros f v H _; unfold q1 in H; repeat (enum; cbn in * |-); vm_compute; reflexivity. Qed.
  Lemma h_nil : forall f v, In (f, v) q1 -> cfg f = CAc -> nil_slice_wf v.
  Proof. intros f v H _; unfold q1 in H; repeat (enum; cbn in * |-); exact I. Qed.

  Example sat_hits_instance k st os : add_documents false (st0 k) ds = (st, os) ->
    exists hits spec_hits,
      retrieve_hits (build_index st) q1 = ROk hits /\
      sat_hits fields ps PolError pl_docok ds q1 = Some spec_hits /\
      Permutation (map (fun h : hitrec => triple (snd h)) hits) spec_hits.
  Proof.
    intros Ha.
    pose proof (index_sat_hits_holders k PolError 256 ps cfgl (st0 k) ds st os q1 (h_cfg k) Ha (h_ok k st os Ha) h_nd h_cj docs_good) as X.
    assert (P1 : PolError <> PolSkip) by discriminate.
    assert (P2 : - two64 < 256) by (unfold two64; lia).
    exact (X (or_introl P1) (or_introl P2) h_q q1_good h_dom (fun _ => h_nil)).
  Qed.

  (* the same run by computation: the reported triples are a permutation of sat_hits *)
  Definition reported (k : index_kind) (q : assignment) : option (list (Z * (Z * Z))) :=
    let '(st, os) := add_documents false (st0 k) ds in
    match retrieve_hits (build_index st) q with
    | ROk hits => Some (map (fun h : hitrec => triple (snd h)) hits)
    | _ => None end.
  Example run_sat_hits :
    sat_hits fields ps PolError pl_docok ds q1 = Some [(1, (0, 2)); (2, (0, 1)); (4, (0, 1))] /\
    reported IKGroups q1 = Some [(1, (0, 2)); (2, (0, 1)); (4, (0, 1))] /\
    reported ICompact q1 = Some [(2, (0, 1)); (4, (0, 1)); (1, (0, 2))] /\
    sat_hits fields ps PolError pl_docok ds q2 = Some [(-3, (0, 1))] /\
    reported IKGroups q2 = Some [(-3, (0, 1))] /\ reported ICompact q2 = Some [(-3, (0, 1))].
  Proof. vm_compute. repeat split; reflexivity. Qed.
End BridgeWitnessH.

(* RESULTS.  fields := cfg_fields parsers cfgl (Spec's field table for the ConfigField calls cfgl), cfg := cfg_of cfgl.
   0. field_desc_cfg          field_desc fields parsers f = mkfd parsers cfg f          (no NoDup needed: both read the first entry)
      configured_fields       config_fields (new_builder ..) cfgl = Some st0 -> b_fields st0 = fields /\ NoDup (map fst cfgl)
   1. pattern   ac_dict_exact / ac_query_exact   ParseAcMatchDict / BuildAcMatchContent against Spec.strings_of (wf_val only)
                ehit_ac_sem                      ehit CAc = Spec.hit when kw_nonempty (no empty keyword)
                expr_ok_ac_sem, qv_ok_ac_sem     acceptance <-> denotes, unconditionally
      range     parse_range_full                 ParseRange WITHOUT bound on the operands: ans (mrepr op (range_spec op v))
                ehit_range_sem                   ehit CRange = Spec.hit on the EXACT domain rng_expr_ok / below_max:
                                                   x > a: a <> MaxInt64 and x <> MaxInt64;  x < b: b <> MinInt64;
                                                   between l h: not (l = h = MaxInt64);  `in` v: nil_in_ok v
                small_rng_expr_ok, small_below_max   |bound| <= 2^62, |x| <= 2^62 (the specification's comment) lie inside
                expr_ok_range_sem, qv_ok_range_sem   acceptance <-> denotes; only `in` needs nil_in_ok, and only for
                                                   accepted -> denotes
                erwf_of_dom                      IndexCorrectHolders' conj_rwf from rng_expr_ok when -2^64 < thr
      any       ehit_sem                         one expression against one assigned value, by container
   2. sat_conj_conj_sat'      sat_conj fields parsers q sc = Some (conj_sat' parsers cfg q cj)
      conj_ok'_conj_sem       conj_sem <> None -> conj_ok' = true;  in_nil_ok -> conj_ok' = true -> conj_sem <> None
      conj_ok'_conj_sem_iff   the iff under in_nil_ok
   3. index_correct_spec_holders, index_sat_hits_holders, retrieve_docs_correct_spec_holders
      Hypotheses beyond IndexCorrectHolders.index_correct_holders: doc_good' (wf_val, val_mod', doc_dom = true),
      asg_good' (wf_val, asg_mod', assign_sem <> None), asg_dom_for, and  -2^64 < thr \/ conj_rwf.
   4. BridgeWitnessH: witnesses for kw_nonempty, erange_ok, below_max, nil_in_ok, supportedness; a full instance. *)
Check field_desc_cfg.
Check configured_fields.
Check ac_dict_exact.
Check ac_query_exact.
Check ehit_ac_sem.
Check parse_range_full.
Check ehit_range_sem.
Check ehit_sem.
Check sat_conj_conj_sat'.
Check conj_ok'_conj_sem.
Check conj_ok'_conj_sem_iff.
Check index_correct_spec_holders.
Check index_sat_hits_holders.
Check retrieve_docs_correct_spec_holders.
Print Assumptions field_desc_cfg.
Print Assumptions configured_fields.
Print Assumptions ehit_ac_sem.
Print Assumptions parse_range_full.
Print Assumptions ehit_range_sem.
Print Assumptions ehit_sem.
Print Assumptions sat_conj_conj_sat'.
Print Assumptions conj_ok'_conj_sem.
Print Assumptions conj_ok'_conj_sem_iff.
Print Assumptions index_correct_spec_holders.
Print Assumptions index_sat_hits_holders.
Print Assumptions retrieve_docs_correct_spec_holders.
Print Assumptions BridgeWitnessH.sat_hits_instance.
