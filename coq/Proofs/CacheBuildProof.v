(* C13: building with a build-cache provider attached is transparent.
   Model/CacheBuild.v is the builder with a provider (state + adversarial oracle); here it is proved equal,
   state for state and outcome for outcome, to the builder without cache of Model/Index.v. *)
From Coq Require Import List NArith ZArith Bool Lia.
From BE Require Import Model.GoTypes Model.GoVal Model.Parsers Model.Index Model.Cache Model.CacheBuild.
From BE Require Import Proofs.CacheProof Proofs.IdsProof.
From BE Require Gen.IdsGen.
Import ListNotations.
Local Open Scope Z_scope.

(* ------------------------------------------------------------------------------------------ *)
(* configuration: what the transactions of a conjunction depend on *)

Record cfg_eq (st st' : bstate) : Prop := {
  ce_thr : b_thr st' = b_thr st;
  ce_kind : b_kind st' = b_kind st;
  ce_policy : b_policy st' = b_policy st;
  ce_desc : forall f, desc_for st' f = desc_for st f
}.
Lemma cfg_eq_refl st : cfg_eq st st.
Proof. constructor; reflexivity. Qed.
Lemma cfg_eq_trans a b c : cfg_eq a b -> cfg_eq b c -> cfg_eq a c.
Proof.
  intros [A1 A2 A3 A4] [B1 B2 B3 B4]. constructor; [congruence|congruence|congruence|]. intros f. rewrite B4. apply A4.
Qed.
Lemma cfg_eq_sym a b : cfg_eq a b -> cfg_eq b a.
Proof. intros [A1 A2 A3 A4]. constructor; [congruence|congruence|congruence|]. intros f. symmetry. apply A4. Qed.

Lemma cfg_eq_fields st st' :
  b_thr st' = b_thr st -> b_kind st' = b_kind st -> b_policy st' = b_policy st ->
  b_fields st' = b_fields st -> b_parsers st' = b_parsers st -> cfg_eq st st'.
Proof. intros A B C D E. constructor; auto. intros f. unfold desc_for. rewrite D, E. reflexivity. Qed.

Lemma find_field_name f fs d : find_field f fs = Some d -> fd_name d = f.
Proof. unfold find_field. intros H. apply find_some in H. destruct H as [_ H]. apply N.eqb_eq in H. exact H. Qed.

Lemma desc_for_name st f : fd_name (desc_for st f) = f.
Proof. unfold desc_for. destruct (find_field f (b_fields st)) eqn:E; [eapply find_field_name; eauto | reflexivity]. Qed.

Lemma find_field_app f fs d :
  find_field f (fs ++ [d]) = match find_field f fs with Some x => Some x | None => if N.eqb (fd_name d) f then Some d else None end.
Proof.
  unfold find_field. induction fs as [|x fs IH]; cbn [app find].
  - reflexivity.
  - destruct (N.eqb (fd_name x) f); [reflexivity | exact IH].
Qed.

Lemma ensure_field_desc st f :
  snd (ensure_field st f) = desc_for st f /\ cfg_eq st (fst (ensure_field st f)) /\
  b_conts (fst (ensure_field st f)) = b_conts st /\ b_z (fst (ensure_field st f)) = b_z st.
Proof.
  unfold ensure_field, desc_for. destruct (find_field f (b_fields st)) eqn:E; cbn [fst snd].
  - repeat split; auto.
  - repeat split; auto. intros g. unfold desc_for, with_fields. cbn [b_fields b_parsers].
    rewrite find_field_app. cbn [fd_name]. destruct (find_field g (b_fields st)) eqn:G; [reflexivity|].
    destruct (N.eqb_spec f g); [subst; reflexivity | reflexivity].
Qed.

Lemma touch_spec st ks f :
  snd (touch st ks f) = desc_for st f /\ cfg_eq st (fst (touch st ks f)) /\ b_z (fst (touch st ks f)) = b_z st.
Proof.
  unfold touch. destruct (ensure_field_desc st f) as (A & B & C & D).
  destruct (ensure_field st f) as [st1 fd]; cbn [fst snd] in *. subst fd.
  repeat split; auto; apply B.
Qed.

(* ------------------------------------------------------------------------------------------ *)
(* index_conj = the pure transactions + one touch per transaction *)

Definition touches (ks : Z) (fs : list fname) (st : bstate) : bstate :=
  fold_left (fun s f => fst (touch s ks f)) fs st.
Definition tx_name (t : tx) : fname := fd_name (tx_field t).

Lemma tx_name_mk fd eid d : tx_name {| tx_field := fd; tx_eid := eid; tx_data := d |} = fd_name fd.
Proof. reflexivity. Qed.

Lemma touches_cfg ks fs : forall st, cfg_eq st (touches ks fs st).
Proof.
  induction fs as [|f fs IH]; intros st; cbn [touches fold_left].
  - apply cfg_eq_refl.
  - eapply cfg_eq_trans; [|apply IH]. apply touch_spec.
Qed.
Lemma touches_app ks a b st : touches ks (a ++ b) st = touches ks b (touches ks a st).
Proof. unfold touches. apply fold_left_app. Qed.

Definition tx_wf (st : bstate) (t : tx) : Prop :=
  tx_field t = desc_for st (tx_name t) /\ tx_of_kind (fd_cont (tx_field t)) (tx_data t).

Lemma tx_wf_cfg st st' t : cfg_eq st st' -> tx_wf st t -> tx_wf st' t.
Proof. intros C [A B]. split; [rewrite (ce_desc _ _ C); exact A | exact B]. Qed.

Lemma index_exprs_spec : forall es st k cid f acc,
  snd (index_exprs st k cid f es acc) = pure_exprs (b_thr st) (desc_for st f) cid es acc /\
  cfg_eq st (fst (index_exprs st k cid f es acc)) /\
  b_z (fst (index_exprs st k cid f es acc)) = b_z st /\
  forall txs, snd (index_exprs st k cid f es acc) = POk txs ->
    exists new, txs = acc ++ new /\ Forall (tx_wf st) new /\
                fst (index_exprs st k cid f es acc) = touches k (map tx_name new) st.
Proof.
  induction es as [|e es IH]; intros st k cid f acc; cbn [index_exprs pure_exprs].
  - cbn [fst snd]. repeat split; try apply cfg_eq_refl; auto.
    intros txs H. inversion H; subst. exists []. rewrite app_nil_r. repeat split; auto.
  - destruct (touch_spec st k f) as (T1 & T2 & T3). unfold touch in T1, T2, T3.
    destruct (ensure_field st f) as [st1 fd] eqn:EF. cbn [fst snd] in T1, T2, T3. subst fd.
    set (st2 := with_conts st1 _) in *.
    assert (Hthr : b_thr st2 = b_thr st) by apply T2. rewrite Hthr.
    destruct (indexing_tx (b_thr st) (desc_for st f) e) eqn:EI; cbn [fst snd];
      try (split; [reflexivity|split; [exact T2|split; [exact T3|intros txs H; discriminate H]]]).
    specialize (IH st2 k cid f (acc ++ [{| tx_field := desc_for st f; tx_eid := IdsGen.NewEntryID cid (e_incl e); tx_data := a |}])).
    destruct IH as (I1 & I2 & I3 & I4).
    rewrite Hthr, (ce_desc _ _ T2) in I1.
    repeat split.
    + exact I1.
    + apply (ce_thr _ _ (cfg_eq_trans _ _ _ T2 I2)).
    + apply (ce_kind _ _ (cfg_eq_trans _ _ _ T2 I2)).
    + apply (ce_policy _ _ (cfg_eq_trans _ _ _ T2 I2)).
    + apply (ce_desc _ _ (cfg_eq_trans _ _ _ T2 I2)).
    + rewrite I3. exact T3.
    + intros txs H. destruct (I4 txs H) as (new & E1 & E2 & E3).
      exists ({| tx_field := desc_for st f; tx_eid := IdsGen.NewEntryID cid (e_incl e); tx_data := a |} :: new).
      split; [rewrite E1, <- app_assoc; reflexivity|]. split.
      * constructor.
        -- split; unfold tx_name; cbn [tx_field tx_data]; [rewrite desc_for_name; reflexivity | eapply indexing_tx_kind; eauto].
        -- eapply Forall_impl; [|exact E2]. intros t Ht. eapply tx_wf_cfg; [apply cfg_eq_sym; exact T2 | exact Ht].
      * rewrite E3. cbn [map touches fold_left]. rewrite tx_name_mk, desc_for_name. fold (touches k (map tx_name new)).
        unfold touch. rewrite EF. cbn [fst]. reflexivity.
Qed.

Lemma pure_conj_ext thr d1 d2 cid : (forall f, d1 f = d2 f) ->
  forall c acc, pure_conj thr d1 cid c acc = pure_conj thr d2 cid c acc.
Proof.
  intros H. induction c as [|[f es] c IH]; intros acc; cbn [pure_conj]; [reflexivity|].
  rewrite H. destruct (pure_exprs thr (d2 f) cid es acc); auto.
Qed.

Lemma index_conj_spec : forall c st k cid acc,
  snd (index_conj st k cid c acc) = pure_conj (b_thr st) (desc_for st) cid c acc /\
  cfg_eq st (fst (index_conj st k cid c acc)) /\
  b_z (fst (index_conj st k cid c acc)) = b_z st /\
  forall txs, snd (index_conj st k cid c acc) = POk txs ->
    exists new, txs = acc ++ new /\ Forall (tx_wf st) new /\
                fst (index_conj st k cid c acc) = touches k (map tx_name new) st.
Proof.
  induction c as [|[f es] c IH]; intros st k cid acc; cbn [index_conj pure_conj].
  - cbn [fst snd]. split; [reflexivity|]. split; [apply cfg_eq_refl|]. split; [reflexivity|].
    intros txs H. inversion H; subst. exists []. rewrite app_nil_r. repeat split; auto.
  - destruct (index_exprs_spec es st k cid f acc) as (E1 & E2 & E3 & E4).
    destruct (index_exprs st k cid f es acc) as [st' r]. cbn [fst snd] in *. rewrite <- E1.
    destruct r as [acc'| | | |]; cbn [fst snd];
      try (split; [reflexivity|split; [exact E2|split; [exact E3|intros txs H; discriminate H]]]).
    destruct (IH st' k cid acc') as (I1 & I2 & I3 & I4).
    split. { rewrite I1. rewrite (ce_thr _ _ E2). apply pure_conj_ext. apply (ce_desc _ _ E2). }
    split. { eapply cfg_eq_trans; eauto. }
    split. { congruence. }
    intros txs H. destruct (E4 acc' eq_refl) as (new1 & A1 & A2 & A3).
    destruct (I4 txs H) as (new2 & B1 & B2 & B3).
    exists (new1 ++ new2). split; [rewrite B1, A1, app_assoc; reflexivity|]. split.
    + apply Forall_app. split; [exact A2|]. eapply Forall_impl; [|exact B2].
      intros t Ht. eapply tx_wf_cfg; [apply cfg_eq_sym; exact E2 | exact Ht].
    + rewrite B3, A3, map_app, touches_app. reflexivity.
Qed.

(* ------------------------------------------------------------------------------------------ *)
(* the hit path replays a written record: same transactions, same touches *)

Definition slot_of (t : tx) : fname * (N * Cache.enc) := (tx_name t, (tx_eid t, encode (tx_data t))).

Lemma use_record_replays ks : forall new st acc,
  Forall (tx_wf st) new ->
  use_record st ks (map slot_of new) acc = (touches ks (map tx_name new) st, Some (acc ++ new)).
Proof.
  induction new as [|t new IH]; intros st acc H; cbn [map use_record touches fold_left].
  - rewrite app_nil_r. reflexivity.
  - inversion H as [|? ? [Hf Hk] Hrest]; subst.
    destruct (touch_spec st ks (tx_name t)) as (T1 & T2 & T3).
    unfold slot_of at 1. destruct (touch st ks (tx_name t)) as [st2 fd] eqn:ET. cbn [fst snd] in *. subst fd.
    rewrite <- Hf. rewrite (decode_encode _ _ Hk).
    rewrite IH.
    + f_equal. f_equal. rewrite <- app_assoc. cbn [app]. destruct t as [tf te td]; reflexivity.
    + eapply Forall_impl; [|exact Hrest]. intros u Hu. eapply tx_wf_cfg; eauto.
Qed.

(* ------------------------------------------------------------------------------------------ *)
(* conjunction ids identify the conjunctions of a document set with distinct document ids *)

Definition conj_at (ds : list doc) (cid : N) (c : conj) : Prop :=
  exists d i, In d ds /\ nth_error (d_conjs d) i = Some c /\
              IdsGen.NewConjID (d_id d) (Z.of_nat i) (calc_size c) = Some cid.

Lemma NoDup_map_inj {A B} (f : A -> B) : forall l x y, NoDup (map f l) -> In x l -> In y l -> f x = f y -> x = y.
Proof.
  induction l as [|a l IH]; intros x y H Hx Hy E; [contradiction|].
  cbn [map] in H. inversion H as [|? ? Hn Hnd]; subst.
  destruct Hx as [Hx|Hx], Hy as [Hy|Hy]; subst.
  - reflexivity.
  - exfalso. apply Hn. rewrite E. apply in_map. exact Hy.
  - exfalso. apply Hn. rewrite <- E. apply in_map. exact Hx.
  - eapply IH; eauto.
Qed.

Lemma conj_at_fun ds cid c c' : NoDup (map d_id ds) -> conj_at ds cid c -> conj_at ds cid c' -> c = c'.
Proof.
  intros ND (d & i & Hd & Hi & Hc) (d' & i' & Hd' & Hi' & Hc').
  destruct (conjid_injective _ _ _ _ _ _ _ Hc Hc') as (E1 & E2 & _).
  assert (d = d') by (eapply NoDup_map_inj; eauto). subst d'.
  assert (i = i') by lia. subst i'. congruence.
Qed.

Lemma newconj_size d i k cid : IdsGen.NewConjID d i k = Some cid -> IdsGen.ConjID_Size cid = k.
Proof.
  intros H. destruct (NewConjID_some_inrange _ _ _ _ H) as (A & B & C).
  destruct (conjid_roundtrip d i k A B C) as (c & E & _ & _ & _ & S). congruence.
Qed.

(* ------------------------------------------------------------------------------------------ *)
(* the invariant of the provider state *)

Definition good_record (st : bstate) (ds : list doc) (cid : N) (r : record) : Prop :=
  exists c txs cthr, conj_at ds cid c /\ pure_conj (b_thr st) (desc_for st) cid c [] = POk txs /\ record_of cthr txs = Some r.
Definition pstore_ok (st : bstate) (ds : list doc) (p : pstore) : Prop :=
  forall cid r, In (cid, r) p -> good_record st ds cid r.

Lemma pstore_ok_nil st ds : pstore_ok st ds [].
Proof. intros cid r []. Qed.
Lemma pstore_ok_incl st ds p p' : incl p' p -> pstore_ok st ds p -> pstore_ok st ds p'.
Proof. intros I H cid r Hin. apply H. apply I. exact Hin. Qed.
Lemma evict_incl ev p : incl (evict ev p) p.
Proof. intros x H. unfold evict in H. apply filter_In in H. apply H. Qed.
Lemma pstore_ok_cfg st st' ds p : cfg_eq st st' -> pstore_ok st ds p -> pstore_ok st' ds p.
Proof.
  intros C H cid r Hin. destruct (H cid r Hin) as (c & txs & cthr & A & B & D). exists c, txs, cthr. split; [exact A|]. split; [|exact D].
  rewrite (ce_thr _ _ C). rewrite (pure_conj_ext _ _ (desc_for st) cid (ce_desc _ _ C)). exact B.
Qed.
Lemma alookup_In (p : pstore) cid r : alookup N.eqb cid p = Some r -> In (cid, r) p.
Proof.
  induction p as [|[k v] p IH]; cbn [alookup]; [discriminate|].
  destruct (N.eqb_spec cid k); intros H.
  - inversion H; subst. left. reflexivity.
  - right. apply IH. exact H.
Qed.

Lemma ensure_cont_cfg st k : cfg_eq st (ensure_cont st k).
Proof. apply cfg_eq_fields; reflexivity. Qed.

Lemma record_of_slots cthr txs r : record_of cthr txs = Some r -> r = map slot_of txs /\ txs <> [].
Proof.
  unfold record_of. destruct txs as [|t txs]; [cbn; discriminate|].
  destruct (negb _); [discriminate|]. destruct (has_dup_field _); [discriminate|].
  destruct (negb _); [discriminate|].
  intros H. inversion H. split; [reflexivity | discriminate].
Qed.

(* the slots of a record are visited in the order they were written (the general case -- any order -- is
   Proofs/CacheBuildObs.v) *)
Definition ordered (o : oracle) : Prop := forall n r, o_shuffle (o n) r = r.

(* tryUseIndexingTxCache under the invariant: nil without side effects, or exactly what parsing yields *)
Lemma try_use_cache_spec o n st p ds cid c : ordered o ->
  NoDup (map d_id ds) -> pstore_ok st ds p -> conj_at ds cid c ->
  exists st1 res, try_use_cache o n st p cid = (st1, evict (o_evict (o n)) p, S n, res) /\
    ((res = None /\ st1 = st) \/
     (exists txs, res = Some txs /\
        index_conj (ensure_cont st (IdsGen.ConjID_Size cid)) (IdsGen.ConjID_Size cid) cid c [] = (st1, POk txs))).
Proof.
  intros Hord ND OK HC. unfold try_use_cache, provider_get.
  set (p1 := evict (o_evict (o n)) p).
  destruct (o_works (o n)); [|exists st, None; split; [reflexivity|left; auto]].
  destruct (alookup N.eqb cid p1) as [r|] eqn:EL; [|exists st, None; split; [reflexivity|left; auto]].
  cbn [option_map]. rewrite Hord.
  apply alookup_In in EL. apply evict_incl in EL. destruct (OK cid r EL) as (c0 & txs & cthr0 & A & B & D).
  assert (c0 = c) by (eapply conj_at_fun; eauto). subst c0.
  destruct (record_of_slots _ _ _ D) as [Er Hne]. subst r.
  set (ks := IdsGen.ConjID_Size cid). set (st1 := ensure_cont st ks).
  destruct (index_conj_spec c st1 ks cid []) as (I1 & I2 & I3 & I4).
  assert (Hp : snd (index_conj st1 ks cid c []) = POk txs).
  { pose proof (ensure_cont_cfg st ks) as CC. fold st1 in CC. rewrite I1. rewrite (ce_thr _ _ CC).
    rewrite (pure_conj_ext _ _ (desc_for st) cid (ce_desc _ _ CC)). exact B. }
  destruct (I4 txs Hp) as (new & E1 & E2 & E3). cbn [app] in E1. subst new.
  rewrite (use_record_replays ks txs st1 [] E2). cbn [app].
  destruct txs as [|t ts]; [contradiction|].
  eexists _, _. split; [reflexivity|]. right. eexists. split; [reflexivity|].
  rewrite <- E3, <- Hp. destruct (index_conj st1 ks cid c []); reflexivity.
Qed.

Lemma index_conj_pure st ks cid c st2 r :
  index_conj (ensure_cont st ks) ks cid c [] = (st2, r) -> pure_conj (b_thr st) (desc_for st) cid c [] = r.
Proof.
  intros H. destruct (index_conj_spec c (ensure_cont st ks) ks cid []) as (I1 & _).
  rewrite H in I1. cbn [snd] in I1. rewrite I1.
  pose proof (ensure_cont_cfg st ks) as CC. rewrite (ce_thr _ _ CC). apply pure_conj_ext. apply (ce_desc _ _ CC).
Qed.

Lemma provider_set_ok o n st ds p cid r :
  pstore_ok st ds p -> good_record st ds cid r ->
  pstore_ok st ds (fst (provider_set o n p cid r)).
Proof.
  intros OK G. unfold provider_set. cbn [fst].
  assert (OK1 : pstore_ok st ds (evict (o_evict (o n)) p)) by (eapply pstore_ok_incl; [apply evict_incl | exact OK]).
  destruct (o_works (o n)); [|exact OK1].
  intros cid' r' [H|H].
  - inversion H; subst. exact G.
  - apply filter_In in H. apply OK1. apply H.
Qed.

Lemma try_cache_ok o n cthr st ds p cid c txs :
  pstore_ok st ds p -> conj_at ds cid c -> pure_conj (b_thr st) (desc_for st) cid c [] = POk txs ->
  pstore_ok st ds (fst (try_cache o n p cthr cid txs)).
Proof.
  intros OK HC HP. unfold try_cache. destruct (record_of cthr txs) as [r|] eqn:ER; [|exact OK].
  apply provider_set_ok; [exact OK|]. exists c, txs, cthr. auto.
Qed.

(* ------------------------------------------------------------------------------------------ *)
(* the plain builder keeps the configuration *)

Lemma with_z_cfg st z : cfg_eq st (with_z st z).
Proof. apply cfg_eq_fields; reflexivity. Qed.
Lemma commit_one_cfg k st t : cfg_eq st (commit_one k st t).
Proof. apply cfg_eq_fields; reflexivity. Qed.
Lemma commit_all_cfg k txs : forall st, cfg_eq st (fold_left (commit_one k) txs st).
Proof.
  induction txs as [|t txs IH]; intros st; cbn [fold_left]; [apply cfg_eq_refl|].
  eapply cfg_eq_trans; [apply commit_one_cfg | apply IH].
Qed.

Lemma add_conj_cfg wf d st ic : cfg_eq st (fst (add_conj wf d st ic)).
Proof.
  destruct ic as [i c]. unfold add_conj. destruct (IdsGen.NewConjID d i (calc_size c)) as [cid|]; [|apply cfg_eq_refl].
  set (st0 := if wf && (calc_size c =? 0) then _ else st).
  assert (C0 : cfg_eq st st0) by (unfold st0; destruct (wf && _); [apply with_z_cfg | apply cfg_eq_refl]).
  destruct (index_conj_spec c (ensure_cont st0 (calc_size c)) (calc_size c) cid []) as (_ & I2 & _).
  pose proof (cfg_eq_trans _ _ _ C0 (cfg_eq_trans _ _ _ (ensure_cont_cfg st0 (calc_size c)) I2)) as C2.
  destruct (index_conj (ensure_cont st0 (calc_size c)) (calc_size c) cid c []) as [st2 r]. cbn [fst] in C2.
  destruct r; cbn [fst]; try exact C2.
  eapply cfg_eq_trans; [exact C2|]. eapply cfg_eq_trans; [|apply commit_all_cfg].
  destruct (negb wf && _); [apply with_z_cfg | apply cfg_eq_refl].
Qed.

Lemma add_conjs_cfg wf d : forall ics st, cfg_eq st (fst (add_conjs wf d st ics)).
Proof.
  induction ics as [|ic ics IH]; intros st; cbn [add_conjs]; [apply cfg_eq_refl|].
  pose proof (add_conj_cfg wf d st ic) as C. destruct (add_conj wf d st ic) as [st' out]. cbn [fst] in C.
  destruct out; cbn [fst]; try exact C. eapply cfg_eq_trans; [exact C | apply IH].
Qed.

Lemma add_document_cfg wf st d : cfg_eq st (fst (add_document wf st d)).
Proof.
  unfold add_document. destruct (d_conjs d); [apply cfg_eq_refl|].
  destruct (255 <? _); [apply cfg_eq_refl | apply add_conjs_cfg].
Qed.

Lemma add_documents_cfg wf : forall ds st, cfg_eq st (fst (add_documents wf st ds)).
Proof.
  induction ds as [|d ds IH]; intros st; cbn [add_documents]; [apply cfg_eq_refl|].
  pose proof (add_document_cfg wf st d) as C. destruct (add_document wf st d) as [st1 out]. cbn [fst] in C.
  specialize (IH st1). destruct (add_documents wf st1 ds) as [st2 outs]. cbn [fst] in *.
  eapply cfg_eq_trans; eauto.
Qed.

(* ------------------------------------------------------------------------------------------ *)
(* one conjunction *)

Lemma add_conj_cached_spec o cthr d st p n i c ds : ordered o ->
  NoDup (map d_id ds) -> pstore_ok st ds p ->
  (forall cid, IdsGen.NewConjID d i (calc_size c) = Some cid -> conj_at ds cid c) ->
  exists p' n', add_conj_cached o cthr d (st, p, n) (i, c) =
                  ((fst (add_conj false d st (i, c)), p', n'), snd (add_conj false d st (i, c))) /\
                pstore_ok st ds p'.
Proof.
  intros Hord ND OK HC. unfold add_conj_cached, add_conj.
  destruct (IdsGen.NewConjID d i (calc_size c)) as [cid|] eqn:EC; [|exists p, n; split; [reflexivity | exact OK]].
  specialize (HC cid eq_refl). rewrite (newconj_size _ _ _ _ EC).
  cbn [negb andb].
  destruct (try_use_cache_spec o n st p ds cid c Hord ND OK HC) as (st1 & res & ET & Hres).
  rewrite (newconj_size _ _ _ _ EC) in Hres. rewrite ET.
  assert (OK1 : pstore_ok st ds (evict (o_evict (o n)) p)) by (eapply pstore_ok_incl; [apply evict_incl | exact OK]).
  destruct Hres as [[-> ->] | (txs & -> & EI)].
  - destruct (index_conj (ensure_cont st (calc_size c)) (calc_size c) cid c []) as [st2 r] eqn:EI.
    apply index_conj_pure in EI.
    destruct r as [txs| | | |]; cbn [fst snd]; try (eexists _, _; split; [reflexivity | exact OK1]).
    pose proof (try_cache_ok o (S n) cthr st ds _ cid c txs OK1 HC EI) as OK2.
    destruct (try_cache o (S n) (evict (o_evict (o n)) p) cthr cid txs) as [p2 n2]. cbn [fst] in OK2.
    eexists _, _; split; [reflexivity | exact OK2].
  - rewrite EI. cbn [fst snd]. eexists _, _; split; [reflexivity | exact OK1].
Qed.

(* ------------------------------------------------------------------------------------------ *)
(* documents *)

Definition in_doc (doc : doc) (ic : Z * conj) : Prop :=
  exists j, fst ic = Z.of_nat j /\ nth_error (d_conjs doc) j = Some (snd ic).

Lemma indexed_from_in_doc {A} : forall (l pre : list A),
  Forall (fun ic => exists j, fst ic = Z.of_nat j /\ nth_error (pre ++ l) j = Some (snd ic))
         (indexed_from (Z.of_nat (length pre)) l).
Proof.
  induction l as [|x l IH]; intros pre; cbn [indexed_from]; constructor.
  - exists (length pre). cbn [fst snd]. split; [reflexivity|].
    rewrite nth_error_app2 by lia. rewrite Nat.sub_diag. reflexivity.
  - specialize (IH (pre ++ [x])). rewrite <- app_assoc in IH. cbn [app] in IH.
    rewrite app_length in IH. cbn [length] in IH.
    replace (Z.of_nat (length pre) + 1) with (Z.of_nat (length pre + 1)) by lia. exact IH.
Qed.

Lemma add_conjs_cached_spec o cthr ds doc : ordered o -> NoDup (map d_id ds) -> In doc ds ->
  forall ics st p n, Forall (in_doc doc) ics -> pstore_ok st ds p ->
  exists p' n', add_conjs_cached o cthr (d_id doc) (st, p, n) ics =
                  ((fst (add_conjs false (d_id doc) st ics), p', n'), snd (add_conjs false (d_id doc) st ics)) /\
                pstore_ok st ds p'.
Proof.
  intros Hord ND Hdoc. induction ics as [|[i c] ics IH]; intros st p n HF OK; cbn [add_conjs_cached add_conjs].
  - exists p, n. split; [reflexivity | exact OK].
  - inversion HF as [|? ? (j & Hj1 & Hj2) HF']; subst. cbn [fst snd] in Hj1, Hj2.
    destruct (add_conj_cached_spec o cthr (d_id doc) st p n i c ds Hord ND OK) as (p1 & n1 & E1 & OK1).
    { intros cid Hc. exists doc, j. subst i. auto. }
    rewrite E1. pose proof (add_conj_cfg false (d_id doc) st (i, c)) as C.
    destruct (add_conj false (d_id doc) st (i, c)) as [st1 out]. cbn [fst snd] in *.
    destruct out; try (exists p1, n1; split; [reflexivity | exact OK1]).
    destruct (IH st1 p1 n1 HF' (pstore_ok_cfg _ _ _ _ C OK1)) as (p2 & n2 & E2 & OK2).
    exists p2, n2. split; [exact E2|]. eapply pstore_ok_cfg; [apply cfg_eq_sym; exact C | exact OK2].
Qed.

Lemma add_document_cached_spec o cthr ds doc st p n : ordered o -> NoDup (map d_id ds) -> In doc ds -> pstore_ok st ds p ->
  exists p' n', add_document_cached o cthr (st, p, n) doc =
                  ((fst (add_document false st doc), p', n'), snd (add_document false st doc)) /\
                pstore_ok st ds p'.
Proof.
  intros Hord ND Hdoc OK. unfold add_document_cached, add_document.
  destruct (d_conjs doc) as [|c0 cs] eqn:EC; [exists p, n; split; [reflexivity | exact OK]|].
  destruct (255 <? _); [exists p, n; split; [reflexivity | exact OK]|].
  apply add_conjs_cached_spec; auto. rewrite <- EC.
  pose proof (indexed_from_in_doc (d_conjs doc) []) as H. exact H.
Qed.

(* (a)+(b): one build.  The documents built (ds') may be any sub-collection of the reference set ds. *)
Lemma add_documents_cached_spec o cthr ds : ordered o -> NoDup (map d_id ds) ->
  forall ds' st p n, incl ds' ds -> pstore_ok st ds p ->
  exists p' n', add_documents_cached o cthr (st, p, n) ds' =
                  ((fst (add_documents false st ds'), p', n'), snd (add_documents false st ds')) /\
                pstore_ok st ds p'.
Proof.
  intros Hord ND. induction ds' as [|doc ds' IH]; intros st p n HI OK; cbn [add_documents_cached add_documents].
  - exists p, n. split; [reflexivity | exact OK].
  - destruct (add_document_cached_spec o cthr ds doc st p n Hord ND (HI doc (or_introl eq_refl)) OK) as (p1 & n1 & E1 & OK1).
    rewrite E1. pose proof (add_document_cfg false st doc) as C.
    destruct (add_document false st doc) as [st1 out]. cbn [fst snd] in *.
    destruct (IH st1 p1 n1 (fun x Hx => HI x (or_intror Hx)) (pstore_ok_cfg _ _ _ _ C OK1)) as (p2 & n2 & E2 & OK2).
    rewrite E2. destruct (add_documents false st1 ds') as [st2 outs]. cbn [fst snd].
    exists p2, n2. split; [reflexivity|]. eapply pstore_ok_cfg; [apply cfg_eq_sym; exact C | exact OK2].
Qed.

(* ------------------------------------------------------------------------------------------ *)
(* MAIN THEOREMS *)

(* (a) for every oracle, every caching threshold, every provider state satisfying the invariant: the builder
   with the cache ends in literally the state of the builder without cache, with the same outcomes;
   (b) and the provider state satisfies the invariant again. *)
Theorem cached_build_transparent : forall o cthr ds st p n, ordered o ->
  NoDup (map d_id ds) -> pstore_ok st ds p ->
  let '((st', p', _), outs) := add_documents_cached o cthr (st, p, n) ds in
  (st', outs) = add_documents false st ds /\ pstore_ok st' ds p'.
Proof.
  intros o cthr ds st p n Hord ND OK.
  destruct (add_documents_cached_spec o cthr ds Hord ND ds st p n (incl_refl _) OK) as (p' & n' & E & OK').
  rewrite E. split; [destruct (add_documents false st ds); reflexivity|].
  eapply pstore_ok_cfg; [apply add_documents_cfg | exact OK'].
Qed.

(* so every query is answered alike *)
Corollary cached_build_same_answers : forall o cthr ds st p n q, ordered o ->
  NoDup (map d_id ds) -> pstore_ok st ds p ->
  let st_c := fst (fst (fst (add_documents_cached o cthr (st, p, n) ds))) in
  let st_p := fst (add_documents false st ds) in
  build_index st_c = build_index st_p /\
  retrieve_hits (build_index st_c) q = retrieve_hits (build_index st_p) q /\
  retrieve (build_index st_c) q = retrieve (build_index st_p) q.
Proof.
  intros o cthr ds st p n q Hord ND OK. pose proof (cached_build_transparent o cthr ds st p n Hord ND OK) as H.
  destruct (add_documents_cached o cthr (st, p, n) ds) as [[[st' p'] n'] outs]. destruct H as [H _].
  cbn [fst]. rewrite <- H. cbn [fst]. auto.
Qed.

(* (c) cold build *)
Theorem cold_provider_ok : forall st ds, pstore_ok st ds [].
Proof. exact pstore_ok_nil. Qed.
Corollary cold_build_transparent : forall o cthr ds st n, ordered o ->
  NoDup (map d_id ds) ->
  let '((st', p', _), outs) := add_documents_cached o cthr (st, [], n) ds in
  (st', outs) = add_documents false st ds /\ pstore_ok st' ds p'.
Proof. intros. apply cached_build_transparent; [assumption | assumption | apply pstore_ok_nil]. Qed.

(* the provider may lose any entries at any time, and the invariant does not care which builder configuration
   equal to the original one it is read under *)
Theorem pstore_ok_forget : forall st ds p forget, pstore_ok st ds p -> pstore_ok st ds (evict forget p).
Proof. intros. eapply pstore_ok_incl; [apply evict_incl | eassumption]. Qed.

(* any sequence of builds on one builder sharing one provider, Reset in between *)
Fixpoint plain_builds (ds : list doc) (st : bstate) (rounds : nat) : list (bstate * list add_out) :=
  match rounds with
  | O => []
  | S r => let res := add_documents false (reset_builder st) ds in res :: plain_builds ds (fst res) r
  end.

Lemma reset_cfg st : cfg_eq st (reset_builder st).
Proof. apply cfg_eq_fields; reflexivity. Qed.

Theorem builds_transparent : forall ds, NoDup (map d_id ds) ->
  forall rounds st p, Forall (fun r => ordered (r_oracle r)) rounds -> pstore_ok st ds p ->
  fst (builds ds st p rounds) = plain_builds ds st (length rounds) /\
  pstore_ok st ds (snd (builds ds st p rounds)).
Proof.
  intros ds ND. induction rounds as [|[o forget cthr] rounds IH]; intros st p HO OK; cbn [builds plain_builds length].
  - split; [reflexivity | exact OK].
  - inversion HO as [|? ? Hord HO']; subst. cbn [r_oracle r_forget r_cthr] in *. assert (OK0 : pstore_ok (reset_builder st) ds (evict forget p)).
    { eapply pstore_ok_cfg; [apply reset_cfg|]. apply pstore_ok_forget. exact OK. }
    pose proof (cached_build_transparent o cthr ds (reset_builder st) (evict forget p) O Hord ND OK0) as H.
    pose proof (add_documents_cfg false ds (reset_builder st)) as C.
    destruct (add_documents_cached o cthr (reset_builder st, evict forget p, O) ds) as [[[st1 p1] n1] outs].
    destruct H as [H OK1]. rewrite <- H in *. cbn [fst] in *.
    specialize (IH st1 p1 HO' OK1). destruct (builds ds st1 p1 rounds) as [res p2]. cbn [fst snd] in *.
    destruct IH as [IH1 IH2]. split; [rewrite IH1; reflexivity|].
    eapply pstore_ok_cfg; [|exact IH2]. apply cfg_eq_sym. eapply cfg_eq_trans; [apply reset_cfg | exact C].
Qed.

Print Assumptions cached_build_transparent.
Print Assumptions cached_build_same_answers.
Print Assumptions cold_build_transparent.
Print Assumptions builds_transparent.

(* two builders with the same configuration sharing one provider (WithCacheProvider on a new builder) *)
Corollary second_builder_transparent : forall o cthr ds st st2 p n forget, ordered o ->
  NoDup (map d_id ds) -> cfg_eq st st2 -> pstore_ok st ds p ->
  let '((st', p', _), outs) := add_documents_cached o cthr (st2, evict forget p, n) ds in
  (st', outs) = add_documents false st2 ds /\ pstore_ok st ds p'.
Proof.
  intros o cthr ds st st2 p n forget Hord ND C OK.
  pose proof (cached_build_transparent o cthr ds st2 (evict forget p) n Hord ND
                (pstore_ok_cfg _ _ _ _ C (pstore_ok_forget _ _ _ forget OK))) as H.
  pose proof (add_documents_cfg false ds st2) as C2.
  destruct (add_documents_cached o cthr (st2, evict forget p, n) ds) as [[[st' p'] n'] outs].
  destruct H as [H OK']. split; [exact H|]. rewrite <- H in C2. cbn [fst] in C2.
  eapply pstore_ok_cfg; [|exact OK']. apply cfg_eq_sym. eapply cfg_eq_trans; eauto.
Qed.
Print Assumptions second_builder_transparent.

(* ------------------------------------------------------------------------------------------ *)
(* (d) NON-VACUITY: every container kind, conjunction shapes incl. size 0, several conjunctions per document,
   a repeated field, caching threshold 3 *)
Module Examples.
Definition iv (z : Z) : gval := VInt KI z.
Definition ein (b : bool) (zs : list Z) : expr := {| e_incl := b; e_op := OpEQ; e_val := VSlice TSint false (map iv zs) |}.
Definition sv (s : list N) : gval := VStr s.
Definition x_parsers : fname -> parser_kind := fun _ => PCommon.

(* field 0: default container, field 1: pattern (Aho-Corasick) container, field 2: range container, field 3: created on the fly *)
Definition x_docs : list doc :=
  [ {| d_id := 10;  d_conjs := [ [(0%N, [ein true [1;2;3;4;5]]);                         (* 5 values > 3: cached *)
                                   (2%N, [{| e_incl := true; e_op := OpGT; e_val := VInt KI64 100 |}])] ] |};
    {| d_id := -11; d_conjs := [ [(1%N, [{| e_incl := true; e_op := OpEQ; e_val := sv [98]%N |}])] ] |};   (* small: not cached *)
    {| d_id := 12;  d_conjs := [ [(0%N, [ein true [1;2;3;4]; ein false [9]])] ] |};      (* two expressions on a field: not cached *)
    {| d_id := 13;  d_conjs := [ [(0%N, [ein false [1;2;3;4;5]])];                        (* size 0 (wildcard entry), cached *)
                                  [(3%N, [ein true [6;7;8;9]])] ] |};
    {| d_id := 14;  d_conjs := [ [(2%N, [{| e_incl := true; e_op := OpBetween;            (* range expanded to 6 values: cached *)
                                            e_val := VSlice TSint64 false [VInt KI64 3; VInt KI64 9] |}])] ] |};
    {| d_id := 15;  d_conjs := [ [(1%N, [{| e_incl := true; e_op := OpEQ;                 (* 4 keywords: cached *)
                                            e_val := VSlice TSstring false [sv [97]; sv [98;99]; sv [100]; sv [101;102]]%N |}]);
                                   (0%N, [ein true [7]])] ] |} ].

Definition x_st0 (k : index_kind) : bstate :=
  match config_field (new_builder k PolError 256 x_parsers) 1%N CAc with
  | Some s => match config_field s 2%N CRange with Some s' => s' | None => s end
  | None => new_builder k PolError 256 x_parsers
  end.

Example x_ids_distinct : NoDup (map d_id x_docs).
Proof. repeat constructor; simpl; intuition discriminate. Qed.

Definition all_works : oracle := fun _ => {| o_works := true; o_evict := fun _ => false; o_shuffle := fun r => r |}.
Definition st_of (r : cstate * list add_out) : bstate := fst (fst (fst r)).
Definition ps_of (r : cstate * list add_out) : pstore := snd (fst (fst r)).
Definition calls_of (r : cstate * list add_out) : nat := snd (fst r).

(* cold build: 7 Get (all miss), 5 Set; five records stored; all documents accepted *)
Definition x_cold k := add_documents_cached all_works 3 (x_st0 k, [], O) x_docs.
Definition x_plain k := add_documents false (x_st0 k) x_docs.
Example cold_build_runs : forall k,
  length (ps_of (x_cold k)) = 5%nat /\ calls_of (x_cold k) = 12%nat /\
  snd (x_cold k) = [AddOk; AddOk; AddOk; AddOk; AddOk; AddOk] /\
  (st_of (x_cold k), snd (x_cold k)) = x_plain k.
Proof. intros []; vm_compute; repeat split; reflexivity. Qed.

(* warm build on the provider state the cold build left: hits for documents 10, 14, 15; document 13's first
   conjunction: the Get is not answered although the record is stored, then the Set is dropped; its second
   conjunction: the record is evicted just before the Get, re-parsed and stored again *)
Definition cid13_1 : N := 4521191813414925%N.
Definition x_warm_oracle : oracle := fun n =>
  match n with
  | 3%nat | 4%nat => {| o_works := false; o_evict := fun _ => false; o_shuffle := fun r => r |}
  | 5%nat => {| o_works := true; o_evict := N.eqb cid13_1; o_shuffle := fun r => r |}
  | _ => {| o_works := true; o_evict := fun _ => false; o_shuffle := fun r => r |}
  end.
Definition x_warm k := add_documents_cached x_warm_oracle 3 (x_st0 k, ps_of (x_cold k), O) x_docs.
Example warm_build_equals_plain : forall k,
  calls_of (x_warm k) = 9%nat /\                                  (* 7 Get + 2 Set: three conjunctions were served from the cache *)
  (st_of (x_warm k), snd (x_warm k)) = x_plain k.
Proof. intros []; vm_compute; split; reflexivity. Qed.
Example warm_hit_is_a_hit : forall k,
  match try_use_cache x_warm_oracle 0 (x_st0 k) (ps_of (x_cold k)) 9007199254741002%N with
  | (_, _, _, Some [t1; t2]) => tx_name t1 = 0%N /\ tx_name t2 = 2%N /\ tx_data t2 = TxRange 101 9223372036854775807
  | _ => False
  end.
Proof. intros []; vm_compute; repeat split; reflexivity. Qed.
Example x_cid13_1 : IdsGen.NewConjID 13 1 1 = Some cid13_1.
Proof. vm_compute. reflexivity. Qed.

(* the index answers: document 10 and 12 for f0 = 3, f2 = 500 *)
Definition x_q : assignment := [(0%N, iv 3); (2%N, iv 500)].
Example warm_answers : forall k, retrieve (build_index (st_of (x_warm k))) x_q = ROk [10; 12].
Proof. intros []; vm_compute; reflexivity. Qed.

(* the real threshold (BetterToCacheMaxItemsCount = 512) with a 600-value expression *)
Definition big_docs : list doc :=
  [ {| d_id := 1; d_conjs := [ [(0%N, [ein true (z_range 600 0)])] ] |};
    {| d_id := 2; d_conjs := [ [(0%N, [ein true (z_range 512 0)])] ] |} ].      (* exactly 512: not cached *)
Definition big_cold := add_documents_cached all_works 512 (x_st0 IKGroups, [], O) big_docs.
Definition big_warm := add_documents_cached all_works 512 (x_st0 IKGroups, ps_of big_cold, O) big_docs.
Example big_build :
  length (ps_of big_cold) = 1%nat /\ calls_of big_warm = 2%nat /\
  (st_of big_warm, snd big_warm) = add_documents false (x_st0 IKGroups) big_docs.
Proof. vm_compute. repeat split; reflexivity. Qed.

(* three builds on one builder with Reset in between; the provider ignores Reset in round 2 and obeys in round 3 *)
Example three_builds : forall k,
  fst (builds x_docs (x_st0 k) [] [ {| r_oracle := all_works; r_forget := fun _ => true; r_cthr := 3 |};
                                     {| r_oracle := x_warm_oracle; r_forget := fun _ => false; r_cthr := 3 |};
                                     {| r_oracle := all_works; r_forget := fun _ => true; r_cthr := 4 |} ])
  = plain_builds x_docs (x_st0 k) 3.
Proof. intros []; vm_compute; reflexivity. Qed.

(* ------------------------------------------------------------------------------------------ *)
(* (e) SENSITIVITY: the theorem depends on the details of the hit path *)
Definition size_plus1 (cid : N) : Z := IdsGen.ConjID_Size cid + 1.
Definition x_warm_var sz ei k := add_documents_cached_var sz ei x_warm_oracle 3 (x_st0 k, ps_of (x_cold k), O) x_docs.

(* the variant with the right size and the record's entry ids is the model *)
Example var_is_model : forall k, x_warm_var IdsGen.ConjID_Size (fun e => e) k = x_warm k.
Proof. intros []; vm_compute; reflexivity. Qed.
(* filing a cached conjunction under another size loses document 10 (k-groups index) *)
Example wrong_size_differs :
  retrieve (build_index (st_of (x_warm_var size_plus1 (fun e => e) IKGroups))) x_q = ROk [12] /\
  retrieve (build_index (fst (x_plain IKGroups))) x_q = ROk [10; 12].
Proof. vm_compute. split; reflexivity. Qed.
(* taking entry ids from elsewhere (here: the next conjunction id) reports a document that does not exist *)
Example wrong_eid_differs : forall k,
  retrieve (build_index (st_of (x_warm_var IdsGen.ConjID_Size (fun e => (e + 16)%N) k))) x_q = ROk [11; 12] /\
  retrieve (build_index (fst (x_plain k))) x_q = ROk [10; 12].
Proof. intros []; vm_compute; split; reflexivity. Qed.

(* the hypothesis NoDup (map d_id ds) is necessary: two documents with one id in a batch -- the second one is
   served the first one's record (same conjunction id), already in a cold build *)
Definition dup_docs : list doc :=
  [ {| d_id := 7; d_conjs := [ [(0%N, [ein true [1;2;3;4;5]])] ] |};
    {| d_id := 7; d_conjs := [ [(0%N, [ein true [6;7;8;9]])] ] |};
    {| d_id := 8; d_conjs := [ [(0%N, [ein true [6]])] ] |} ].
Example duplicate_ids_not_transparent : forall k,
  retrieve (build_index (st_of (add_documents_cached all_works 3 (x_st0 k, [], O) dup_docs))) [(0%N, iv 6)] = ROk [8] /\
  retrieve (build_index (fst (add_documents false (x_st0 k) dup_docs))) [(0%N, iv 6)] = ROk [7; 8].
Proof. intros []; vm_compute; split; reflexivity. Qed.

(* "documents unchanged between builds" is necessary: document 10 changes its values from {1..5} to {1,2,3,4,6};
   the provider still holds the record written for the old version (it does not satisfy pstore_ok for the new
   document set) and the warm build serves it: a query for 5 still finds document 10 *)
Definition x_docs' : list doc :=
  {| d_id := 10;  d_conjs := [ [(0%N, [ein true [1;2;3;4;6]]);
                                 (2%N, [{| e_incl := true; e_op := OpGT; e_val := VInt KI64 100 |}])] ] |} :: tl x_docs.
Example stale_record_not_transparent : forall k,
  retrieve (build_index (st_of (add_documents_cached all_works 3 (x_st0 k, ps_of (x_cold k), O) x_docs'))) [(0%N, iv 5); (2%N, iv 500)] = ROk [10] /\
  retrieve (build_index (fst (add_documents false (x_st0 k) x_docs'))) [(0%N, iv 5); (2%N, iv 500)] = ROk [].
Proof. intros []; vm_compute; split; reflexivity. Qed.

(* faithfulness details of tryUseIndexingTxCache: a record without slots is a miss (the nil slice is returned);
   an undecodable slot is a miss too, but the fields and holders created for the slots before it stay *)
Example empty_record_is_a_miss : forall k,
  snd (try_use_cache all_works 0 (x_st0 k) [(13%N, [])] 13%N) = None.
Proof. intros []; vm_compute; reflexivity. Qed.
Example undecodable_slot_is_a_miss_with_side_effects : forall k,
  let '(st1, _, _, res) := try_use_cache all_works 0 (x_st0 k) [(13%N, [(7%N, (208%N, EncIds [])); (0%N, (208%N, EncKw []))])] 13%N in
  res = None /\ find_field 7%N (b_fields st1) <> None /\ find_field 7%N (b_fields (x_st0 k)) = None.
Proof. intros []; vm_compute; repeat split; discriminate. Qed.
End Examples.
