(* C05  Pattern-matching (Aho-Corasick) fields hit exactly on keyword substrings.  Statements only.
   The third-party automaton (anknown/ahocorasick + darts) is not modelled: the holder model
   (Model/Index.v: get_entries on HAc) selects by the Coq function `substring`, i.e. the automaton is
   replaced by its specification; that the real automaton meets it is what the correspondence run
   validates on adversarial keyword sets on every run (one document per keyword). *)
From Coq Require Import List NArith ZArith Bool.
From BE Require Import Model.GoTypes Model.GoVal Model.Parsers Model.Index Proofs.AcProof.
Import ListNotations.

Theorem C05_substring_means_contiguous_occurrence : forall k t,
  substring k t = true <-> exists pre post, t = pre ++ k ++ post.
Proof. exact substring_spec. Qed.

(* the holder selects the posting list of a keyword exactly when the keyword occurs in the query text *)
Theorem C05_holder_selects_by_substring : forall fd fid vals v t,
  vals <> [] -> ac_query_text [32%N] v = POk t -> t <> [] ->
  exists ls, get_entries fd fid (HAc vals) v = POk ls /\
    forall l, In l ls <-> exists k, In (k, l) vals /\ substring k t = true /\ l <> [].
Proof. exact ac_get_entries_spec. Qed.

(* the query text of several assigned strings is their join with one space *)
Theorem C05_texts_joined_by_one_space : forall a b rest,
  join_sep [32%N] (a :: b :: rest) = a ++ [32%N] ++ join_sep [32%N] (b :: rest).
Proof. intros. apply join_sep_cons. Qed.

Example C05_nonvacuous :
  substring [98; 99]%N [97; 98; 99; 100]%N = true /\ substring [98; 100]%N [97; 98; 99; 100]%N = false /\
  ac_query_text [32%N] (VSlice TSstring false [VStr [97]%N; VStr [98]%N]) = POk [97; 32; 98]%N.
Proof. vm_compute. repeat split. Qed.

Print Assumptions C05_substring_means_contiguous_occurrence.
Print Assumptions C05_holder_selects_by_substring.
Print Assumptions C05_texts_joined_by_one_space.
