(* C08  A conjunction that fails to parse leaves no trace, under every policy.  Statements only.
   Model: Model/Index.v add_conj / add_document with wildcard_first = false (the repaired tree).
   The pinned tree registered the match-everything entry before parsing; see C08_refuted_on_pinned_tree. *)
From Coq Require Import List NArith ZArith Bool.
From BE Require Import Model.GoTypes Model.GoVal Model.Parsers Model.Index Proofs.BuilderProof.
From BE Require Gen.IdsGen.
Import ListNotations.
Local Open Scope Z_scope.

(* no match-everything entry for a conjunction that does not parse: all policies, both index types,
   any container mix, any position/kind of the unparseable expression *)
Theorem C08_bad_conj_no_wildcard : forall d st i c st' out,
  add_conj false d st (i, c) = (st', out) ->
  (forall cid, IdsGen.NewConjID d i (calc_size c) = Some cid ->
     forall txs, snd (index_conj (ensure_cont st (calc_size c)) (calc_size c) cid c []) <> POk txs) ->
  b_z st' = b_z st.
Proof. exact bad_conj_no_wildcard. Qed.

(* documents rejected outright (no conjunction, more than 255) leave the builder untouched *)
Theorem C08_rejected_unchanged : forall wf st d,
  d_conjs d = [] \/ 255 < Z.of_nat (length (d_conjs d)) -> add_document wf st d = (st, AddErr).
Proof. exact rejected_unchanged. Qed.

(* the pinned tree (wildcard registered first) violated the property: a size-0 conjunction whose only
   expression is an unparseable exclude leaves its match-everything entry under Skip *)
Definition bad_excl_doc : doc :=
  {| d_id := 5; d_conjs := [ [(0%N, [ {| e_incl := false; e_op := OpEQ; e_val := VBool true |} ])] ] |}.
Theorem C08_refuted_on_pinned_tree :
  let st0 := new_builder IKGroups PolSkip 256 (fun _ => PCommon) in
  b_z (fst (add_document true st0 bad_excl_doc)) <> [] /\ snd (add_document true st0 bad_excl_doc) = AddOk /\
  b_z (fst (add_document false st0 bad_excl_doc)) = [].
Proof. vm_compute. repeat split. discriminate. Qed.

Print Assumptions C08_bad_conj_no_wildcard.
Print Assumptions C08_rejected_unchanged.
Print Assumptions C08_refuted_on_pinned_tree.
