From Coq Require Import List NArith Bool Lia Arith Sorting.Sorted.
Import ListNotations.

Definition NULLENTRY : N := 18446744073709551615%N.
Definition ent (l : list N) (i : nat) : N := nth i l NULLENTRY.

Record cursor := { c_pos : nat; c_eid : N }.

(* exponential probe: returns Some (cursor, rightSideIndex), None = out of fuel *)
Fixpoint gallop (fuel : nat) (l : list N) (id : N) (oc cur bound : nat) : option (nat * nat) :=
  let right := (oc + bound)%nat in
  if (right <? length l)%nat && (ent l right <? id)%N then
    match fuel with
    | O => None
    | S f => gallop f l id oc right (2 * bound)
    end
  else Some (cur, right).

Fixpoint bsearch (fuel : nat) (l : list N) (id : N) (cur right : nat) : option nat :=
  if (cur <? right)%nat && (ent l cur <? id)%N then
    match fuel with
    | O => None
    | S f =>
      let mid := Nat.div2 (cur + right) in
      if (id <=? ent l mid)%N then bsearch f l id cur mid else bsearch f l id (S mid) right
    end
  else Some cur.

Definition skip_to (l : list N) (c : cursor) (id : N) : option cursor :=
  if (id <=? c_eid c)%N then Some c else
  match gallop (length l) l id (c_pos c) (c_pos c) 1 with
  | None => None
  | Some (cur, r0) =>
    let rr := if (length l <? r0)%nat then length l else r0 in
    match bsearch (length l) l id cur rr with
    | None => None
    | Some p => Some {| c_pos := p; c_eid := if (length l <=? p)%nat then NULLENTRY else ent l p |}
    end
  end.

Definition new_cursor (l : list N) : cursor := {| c_pos := 0; c_eid := ent l 0 |}.

Definition tl8 := [1;3;3;7;9;12;12;40]%N.
Eval vm_compute in
  (option_map c_pos (skip_to tl8 (new_cursor tl8) 12%N),
   option_map c_pos (skip_to tl8 (new_cursor tl8) 13%N),
   option_map c_pos (skip_to tl8 (new_cursor tl8) 100%N),
   option_map c_pos (skip_to tl8 {| c_pos := 3; c_eid := 7 |} 3%N)).
