//go:build verif

package main

import (
	be "github.com/echoface/be_indexer"
)

const hooksAvailable = true

// indexEntries all posting-list entries and the wildcard entries of a built index.
func indexEntries(index be.BEIndex) (entries, z []uint64, ok bool) {
	return be.VerifIndexEntries(index)
}

func fieldTablesShared(b *be.IndexerBuilder, index be.BEIndex) (shared, ok bool) {
	bt := be.VerifBuilderFieldTable(b)
	it := be.VerifFieldTablePtr(index)
	if bt == nil || it == nil {
		return false, false
	}
	// two maps are the same object iff a write through one is visible through the other
	const probe = be.BEField("\x00verif-probe")
	bt[probe] = nil
	_, seen := it[probe]
	delete(bt, probe)
	return seen, true
}

func retrieveK(cursors be.FieldCursors, need int, c be.ResultCollector) bool {
	be.VerifRetrieveK(cursors, need, c)
	return true
}
