(* C06  Numeric range fields hit exactly per >, <, between [l,h) and in.  Statements only.
   Model/RangeIdx.v is a statement-by-statement model of RangeIdx.IndexingRange / Range.Explode
   (compared piece by piece with the real code through a hook on every run). *)
From Coq Require Import List NArith ZArith Bool.
From BE Require Import Model.GoTypes Model.GoVal Model.Parsers Model.Index Model.RangeIdx
                       Proofs.RangeIdxProof Proofs.RangeHolderProof.
Import ListNotations.
Local Open Scope Z_scope.

(* the interval index over ANY insert history (nested, adjacent, identical, overlapping ranges, in any
   order): the pieces stay a contiguous cover of [mn,mx) with non-empty pieces, and the piece holding x
   carries exactly the entries, in insertion order, of the ranges that contain x *)
Theorem C06_rangeidx_history : forall mn mx h, mn < mx ->
  Forall (fun y => let '(l, r, _) := y in mn <= l /\ l <= r) h ->
  chain mn mx (run mn mx h) /\ forall x, mn <= x < mx -> entries_at x (run mn mx h) = covering x h.
Proof. exact rangeidx_history. Qed.

(* operator -> interval, for every expansion threshold: the transaction produced for > / < / between
   selects exactly the integers of the parsed interval, whether it was expanded into discrete values
   or kept as an interval *)
Theorem C06_any_threshold_exact : forall thr op v incl l r, op = OpGT \/ op = OpLT \/ op = OpBetween ->
  parse_range op true v = POk (l, r) -> l <= r ->
  exists t, indexing_tx thr range_fd {| e_incl := incl; e_op := op; e_val := v |} = POk t /\
            forall x, tx_selects t x <-> l <= x < r.
Proof. exact range_tx_exact. Qed.

Theorem C06_gt_interval : forall a k, Z.abs a <= 4611686018427387904 -> ikind_signed k = true ->
  parse_range OpGT true (VInt k a) = POk (a + 1, max_i64).
Proof. exact gt_interval. Qed.
Theorem C06_lt_interval : forall b k, Z.abs b <= 4611686018427387904 -> ikind_signed k = true ->
  parse_range OpLT true (VInt k b) = POk (min_i64, b).
Proof. exact lt_interval. Qed.
Theorem C06_between_interval : forall l h n, l < h ->
  parse_range OpBetween true (VSlice TSint64 n [VInt KI64 l; VInt KI64 h]) = POk (l, h).
Proof. exact between_interval. Qed.

Example C06_nonvacuous :
  map (fun p => (pl p, pr p, pe p)) (run (-1000) 1000 [(0, 10, 1%N); (5, 20, 2%N); (-1000, 7, 3%N)]) =
  [(-1000, 0, [3%N]); (0, 5, [1%N; 3%N]); (5, 7, [1%N; 2%N; 3%N]); (7, 10, [1%N; 2%N]); (10, 20, [2%N]); (20, 1000, [])].
Proof. vm_compute. reflexivity. Qed.

Print Assumptions C06_rangeidx_history.
Print Assumptions C06_any_threshold_exact.
Print Assumptions C06_gt_interval.
Print Assumptions C06_lt_interval.
Print Assumptions C06_between_interval.
