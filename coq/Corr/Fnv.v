(* FNV-1 64 of the UTF-8 bytes of a text: lets the correspondence check compare the real value
   ids exactly.  (The theorems treat hashing abstractly, with a no-collision premise.) *)
From Coq Require Import List NArith ZArith Bool.
From BE Require Import Model.GoVal Model.Parsers.
Import ListNotations.
Local Open Scope N_scope.

Definition utf8_of (c : N) : list N :=
  if 1114112 <=? c then [(c - 1114112) mod 256]          (* a byte of a string that is not valid UTF-8 *)
  else if c <? 128 then [c]
  else if c <? 2048 then [192 + c / 64; 128 + c mod 64]
  else if c <? 65536 then [224 + c / 4096; 128 + (c / 64) mod 64; 128 + c mod 64]
  else [240 + c / 262144; 128 + (c / 4096) mod 64; 128 + (c / 64) mod 64; 128 + c mod 64].
Definition utf8 (t : text) : list N := flat_map utf8_of t.

Definition fnv64 (bytes : list N) : N :=
  fold_left (fun h b => N.lxor ((h * 1099511628211) mod 18446744073709551616) b) bytes 14695981039346656037.

Definition id_of_pid (p : pid) : N :=
  match p with PText t => fnv64 (utf8 t) | PNum n => Z.to_N n end.
