(* The roaring scanner WITH the process-wide bitmap pool (roaringidx/rr_posting_list.go: bitmapPool,
   NewPostingList / ReleasePostingList; roaringidx/ivt_scanner.go: NewScanner, Reset, WithHint, retrieve,
   Retrieve, RetrieveDocs, GetRawResult).  Definitions only, all executable.

   The pool is Model/Pool.v's: a multiset of bitmap contents; Get hands out ANY pooled object (the
   choice is a parameter of every operation) or a new empty one, and does NOT clear what it hands out.
   The pure scanner functions are Model/Roaring.v's. *)
From Coq Require Import List NArith ZArith Bool.
From BE Require Import Model.GoTypes Model.GoVal Model.Parsers Model.Index Model.Roaring Model.Pool.
From BE Require Gen.IdsGen.
Import ListNotations.
Local Open Scope N_scope.

(* ---------- container Retrieve(values, inout *PostingList) ---------- *)
(* be_container.go:75-97, be_container_ac.go:102-129: the content of `inout` on EVERY exit.
   Both containers first OR the wildcard postings into inout and only then look at the values, so an
   error (or a panic of NilInterface / the parser) leaves  inout ∪ wc  behind. *)
Definition rc_wc (c : rcontainer) : bitmap :=
  match c with RCDefault _ wc _ _ | RCAc wc _ _ => wc end.

Definition pfail {A} (r : pres A) : pres unit := pbind r (fun _ => POk tt).

Definition rc_retrieve_into (c : rcontainer) (v : gval) (inout : bitmap) : pres unit * bitmap :=
  match c with
  | RCDefault p wc inc exc =>
    let t0 := bm_or inout wc in                                  (* inout.Or(c.wc.Bitmap) *)
    match nil_interface v with                                   (* util.NilInterface(values) *)
    | POk true => (POk tt, t0)
    | POk false =>
      match parse_assign p v with                                (* c.meta.Parser.ParseAssign(values) *)
      | POk ids =>
        let r1 := fold_left (fun acc id => match alookup pid_eqb id inc with Some b => bm_or acc b | None => acc end) ids t0 in
        (POk tt,
         fold_left (fun acc id => match alookup pid_eqb id exc with Some b => bm_andnot acc b | None => acc end) ids r1)
      | e => (pfail e, t0)                                       (* return err *)
      end
    | e => (pfail e, t0)
    end
  | RCAc wc inc exc =>
    let t0 := bm_or inout wc in
    match nil_interface v with
    | POk true => (POk tt, t0)
    | POk false =>
      match ac_query_text [32] v with                            (* ahoholder.BuildAcMatchContent *)
      | POk t =>
        let matched := fun m : list (text * bitmap) =>
          flat_map (fun kb => match fst kb with [] => [] | _ => if kw_found (fst kb) t then [snd kb] else [] end) m in
        let r1 := fold_left bm_or (matched inc) t0 in
        (POk tt, fold_left bm_andnot (matched exc) r1)
      | e => (pfail e, t0)
      end
    | e => (pfail e, t0)
    end
  end.

(* ---------- the loop of IvtScanner.retrieve (ivt_scanner.go:105-117) ---------- *)
(* result: outcome, scanner state on exit, content of tmpPl on exit.
   `conts` is scanner.indexer.data in the order Go's map iteration produced for this retrieval. *)
Fixpoint p_loop (conts : list (fname * rcontainer)) (q : assignment) (s : scanner) (tmp : bitmap)
  : pres unit * scanner * bitmap :=
  match conts with
  | [] => (POk tt, s, tmp)
  | (f, c) :: rest =>
    if sc_ended s then (POk tt, s, tmp)                          (* if scanner.ended { break } *)
    else
      let v := match alookup N.eqb f q with Some v => v | None => VNil end in   (* values := assigns[field] *)
      match rc_retrieve_into c v tmp with
      | (POk _, tmp1) => p_loop rest q (sc_merge s tmp1) []      (* mergeFieldResult(field, tmpPl); tmpPl.Clear() *)
      | (e, tmp1) => (e, s, tmp1)                                (* return err: tmpPl as the container left it *)
      end
  end.

(* what happens to tmpPl on a non-nil-error exit.
     put_on_error = false                      : the code as it is (ivt_scanner.go:111-113: plain `return err`,
                                                 tmpPl is dropped, the garbage collector takes it)
     put_on_error = true, clear_on_error = true : ReleasePostingList on the error path too
     put_on_error = true, clear_on_error = false: `defer bitmapPool.Put(tmpPl.Bitmap)` (the seeded mutation) *)
Definition p_retrieve (put_on_error clear_on_error : bool)
    (conts : list (fname * rcontainer)) (q : assignment) (s : scanner) (p : pool) (ch : nat)
  : pres unit * scanner * pool :=
  let '(tmp0, p1) := pool_get p ch in                            (* tmpPl := NewPostingList(): as pooled, not cleared *)
  match p_loop conts q s tmp0 with
  | (POk _, s', _) => (POk tt, s', pool_put p1 [])               (* ReleasePostingList(tmpPl): Clear if non-empty, Put *)
  | (e, s', tmp) =>
    (e, s', if put_on_error then pool_put p1 (if clear_on_error then [] else tmp) else p1)
  end.

(* docBits of Retrieve (ivt_scanner.go:148-155): a second pooled bitmap, released (cleared) afterwards *)
Definition docs_into (raw init : bitmap) : bitmap :=
  fold_left (fun acc id => bm_add (Z.to_N (wrap_u64 (IdsGen.ConjunctionID_DocID id))) acc) raw init.

(* ---------- scanners, operations, histories ---------- *)
Record pscanner := {
  ps_conts : list (fname * rcontainer);     (* scanner.indexer.data *)
  ps_maxconj : Z;                           (* scanner.indexer.docMaxConjSize *)
  ps_debug : bool;
  ps_sc : scanner                           (* inited, ended, content of conjIDResults *)
}.
Definition ps_set (ps : pscanner) (dbg : bool) (s : scanner) : pscanner :=
  {| ps_conts := ps_conts ps; ps_maxconj := ps_maxconj ps; ps_debug := dbg; ps_sc := s |}.

(* the fields in the order of one map iteration: positions into the index's table *)
Definition pick {A} (ord : list nat) (l : list A) : list A :=
  flat_map (fun i => match nth_error l i with Some x => [x] | None => [] end) ord.

Inductive rpop :=
| ONew (conts : list (fname * rcontainer)) (maxconj : Z)   (* NewScanner(indexer): conjIDResults from the pool *)
| OReset
| OSetDebug (b : bool)
| OHint (hs : list Z)
| ORetrieve (ord : list nat) (q : assignment) (ch2 : nat)  (* Retrieve: ch2 = Get choice for docBits *)
| ORetrieveDocs (ord : list nat) (q : assignment)          (* RetrieveDocs: map keys, no docBits *)
| ORaw                                                     (* GetRawResult().ToArray() *)
| OAlloc.      (* any other NewPostingList() of the process (index builders), never released; scanner number unused *)

Inductive answer :=
| AUnit | ADocs (l : bitmap) | ADocSet (l : list Z) | ARaw (l : bitmap)
| AFail (e : pres unit)          (* PErr: error returned; PPanic; PDiverge; PUnmodelled *)
| ANoScanner.                    (* operation on a scanner number that was never created *)

Definition docset_of (raw : bitmap) : list Z := map IdsGen.ConjunctionID_DocID raw.

(* one operation on one scanner, with the pool *)
Definition p_step (put_on_error clear_on_error : bool) (s : option pscanner) (op : rpop) (p : pool) (ch : nat)
  : answer * option pscanner * pool :=
  match op with
  | ONew conts mc =>
    let '(b, p1) := pool_get p ch in                             (* NewPostingList(): as pooled *)
    (AUnit, Some {| ps_conts := conts; ps_maxconj := mc; ps_debug := false;
                    ps_sc := {| sc_inited := false; sc_ended := false; sc_res := b |} |}, p1)
  | OAlloc => (AUnit, s, snd (pool_get p ch))
  | _ =>
    match s with
    | None => (ANoScanner, None, p)
    | Some ps =>
      match op with
      | OReset => (AUnit, Some (ps_set ps false fresh_scanner), p)      (* inited, ended, debug := false; Clear() *)
      | OSetDebug b => (AUnit, Some (ps_set ps b (ps_sc ps)), p)
      | OHint hs =>
        match sc_with_hint (ps_maxconj ps) (ps_sc ps) hs with
        | Some s' => (AUnit, Some (ps_set ps (ps_debug ps) s'), p)
        | None => (AFail PPanic, Some ps, p)                            (* util.PanicIf(scanner.inited, ...) *)
        end
      | ORetrieve ord q ch2 =>
        match p_retrieve put_on_error clear_on_error (pick ord (ps_conts ps)) q (ps_sc ps) p ch with
        | (POk _, s', p1) =>
          let '(db, p2) := pool_get p1 ch2 in                           (* docBits := NewPostingList() *)
          (ADocs (docs_into (sc_res s') db), Some (ps_set ps (ps_debug ps) s'), pool_put p2 [])
        | (e, s', p1) => (AFail e, Some (ps_set ps (ps_debug ps) s'), p1)
        end
      | ORetrieveDocs ord q =>
        match p_retrieve put_on_error clear_on_error (pick ord (ps_conts ps)) q (ps_sc ps) p ch with
        | (POk _, s', p1) => (ADocSet (docset_of (sc_res s')), Some (ps_set ps (ps_debug ps) s'), p1)
        | (e, s', p1) => (AFail e, Some (ps_set ps (ps_debug ps) s'), p1)
        end
      | ORaw => (ARaw (sc_res (ps_sc ps)), Some ps, p)
      | _ => (AUnit, Some ps, p)
      end
    end
  end.

(* several scanners, one pool *)
Record pstate := { st_scs : list (nat * pscanner); st_pool : pool }.
Definition st_init : pstate := {| st_scs := []; st_pool := [] |}.

Definition set_sc (i : nat) (s : option pscanner) (scs : list (nat * pscanner)) : list (nat * pscanner) :=
  match s with Some x => aupdate Nat.eqb i (fun _ => x) scs | None => scs end.

Definition pool_step (put_on_error clear_on_error : bool) (st : pstate) (e : nat * rpop * nat) : answer * pstate :=
  let '(i, op, ch) := e in
  let '(a, s', p') := p_step put_on_error clear_on_error (alookup Nat.eqb i (st_scs st)) op (st_pool st) ch in
  (a, {| st_scs := set_sc i s' (st_scs st); st_pool := p' |}).

(* a history: (scanner number, operation, Get choice) *)
Fixpoint pool_run (put_on_error clear_on_error : bool) (h : list (nat * rpop * nat)) (st : pstate)
  : list answer * pstate :=
  match h with
  | [] => ([], st)
  | e :: rest =>
    let '(a, st1) := pool_step put_on_error clear_on_error st e in
    let '(az, st2) := pool_run put_on_error clear_on_error rest st1 in (a :: az, st2)
  end.

(* ---------- the pure reference: no pool anywhere ---------- *)
(* sc_retrieve of Model/Roaring.v, keeping the scanner state of the failing exits as well *)
Fixpoint sc_retrieve_st (conts : list (fname * rcontainer)) (q : assignment) (s : scanner) : pres unit * scanner :=
  match conts with
  | [] => (POk tt, s)
  | (f, c) :: rest =>
    if sc_ended s then (POk tt, s) else
    let v := match alookup N.eqb f q with Some v => v | None => VNil end in
    match rc_retrieve c v with
    | POk pl => sc_retrieve_st rest q (sc_merge s pl)
    | e => (pfail e, s)
    end
  end.

Definition sc_step (s : option pscanner) (op : rpop) : answer * option pscanner :=
  match op with
  | ONew conts mc =>
    (AUnit, Some {| ps_conts := conts; ps_maxconj := mc; ps_debug := false; ps_sc := fresh_scanner |})
  | OAlloc => (AUnit, s)
  | _ =>
    match s with
    | None => (ANoScanner, None)
    | Some ps =>
      match op with
      | OReset => (AUnit, Some (ps_set ps false fresh_scanner))
      | OSetDebug b => (AUnit, Some (ps_set ps b (ps_sc ps)))
      | OHint hs =>
        match sc_with_hint (ps_maxconj ps) (ps_sc ps) hs with
        | Some s' => (AUnit, Some (ps_set ps (ps_debug ps) s'))
        | None => (AFail PPanic, Some ps)
        end
      | ORetrieve ord q _ =>
        match sc_retrieve_st (pick ord (ps_conts ps)) q (ps_sc ps) with
        | (POk _, s') => (ADocs (docs_of_raw (sc_res s')), Some (ps_set ps (ps_debug ps) s'))
        | (e, s') => (AFail e, Some (ps_set ps (ps_debug ps) s'))
        end
      | ORetrieveDocs ord q =>
        match sc_retrieve_st (pick ord (ps_conts ps)) q (ps_sc ps) with
        | (POk _, s') => (ADocSet (docset_of (sc_res s')), Some (ps_set ps (ps_debug ps) s'))
        | (e, s') => (AFail e, Some (ps_set ps (ps_debug ps) s'))
        end
      | ORaw => (ARaw (sc_res (ps_sc ps)), Some ps)
      | _ => (AUnit, Some ps)
      end
    end
  end.

(* one scanner alone: its own operations in order *)
Fixpoint sc_run (s : option pscanner) (ops : list rpop) : list answer * option pscanner :=
  match ops with
  | [] => ([], s)
  | op :: rest => let '(a, s1) := sc_step s op in
                  let '(az, s2) := sc_run s1 rest in (a :: az, s2)
  end.

(* the operations of scanner i in a history, and their positions' answers *)
Definition ops_of (i : nat) (h : list (nat * rpop * nat)) : list rpop :=
  map (fun e => snd (fst e)) (filter (fun e => Nat.eqb (fst (fst e)) i) h).
Definition answers_of (i : nat) (h : list (nat * rpop * nat)) (az : list answer) : list answer :=
  map snd (filter (fun ea => Nat.eqb (fst (fst (fst ea))) i) (combine h az)).

(* ====================================================================================== *)
(* Part B: the same with OBJECT IDENTITIES.                                                 *)
(* Above, a pooled object is its content, so an object handed out by Get is implicitly      *)
(* distinct from every object in use.  sync.Pool does not guarantee that: an object that    *)
(* was Put twice is handed out twice (the second seeded mutation: ReleasePostingList both   *)
(* in front of `return err` and deferred).  Here bitmaps live in a store at addresses, the  *)
(* pool holds addresses, scanners hold the address of conjIDResults, and tmpPl / docBits /  *)
(* conjIDResults may alias when the pool hands out an address that is still in use.         *)
(* ====================================================================================== *)
Definition mem := nat -> bitmap.
Definition m_set (m : mem) (a : nat) (v : bitmap) : mem := fun x => if Nat.eqb x a then v else m x.

(* sync.Pool.Get on addresses: a pooled one (any: `ch`), else New() = the next unused address
   (roaring64.NewBitmap(): empty; unused addresses hold []) *)
Definition apool_get (next : nat) (p : list nat) (ch : nat) : nat * nat * list nat :=
  match nth_error p ch with
  | Some a => (a, next, remove_nth ch p)
  | None => (next, S next, p)
  end.
(* ReleasePostingList: Clear if non-empty, Put *)
Definition release (m : mem) (p : list nat) (a : nat) : mem * list nat := (m_set m a [], a :: p).

Record hscanner := {
  hs_conts : list (fname * rcontainer); hs_maxconj : Z; hs_debug : bool;
  hs_inited : bool; hs_ended : bool;
  hs_res : nat                              (* address of conjIDResults *)
}.
Definition hs_with (x : hscanner) (dbg ini en : bool) : hscanner :=
  {| hs_conts := hs_conts x; hs_maxconj := hs_maxconj x; hs_debug := dbg;
     hs_inited := ini; hs_ended := en; hs_res := hs_res x |}.
(* the scanner as Model/Roaring.v sees it: flags and the current content of conjIDResults *)
Definition hs_view (m : mem) (x : hscanner) : scanner :=
  {| sc_inited := hs_inited x; sc_ended := hs_ended x; sc_res := m (hs_res x) |}.
Definition hs_abs (m : mem) (x : hscanner) : pscanner :=
  {| ps_conts := hs_conts x; ps_maxconj := hs_maxconj x; ps_debug := hs_debug x; ps_sc := hs_view m x |}.

(* the loop of retrieve on the store: flags (inited, ended), res = &conjIDResults, tmp = &tmpPl *)
Fixpoint h_loop (conts : list (fname * rcontainer)) (q : assignment) (fl : bool * bool) (res tmp : nat) (m : mem)
  : pres unit * (bool * bool) * mem :=
  match conts with
  | [] => (POk tt, fl, m)
  | (f, c) :: rest =>
    if snd fl then (POk tt, fl, m)
    else
      let v := match alookup N.eqb f q with Some v => v | None => VNil end in
      let '(r, t1) := rc_retrieve_into c v (m tmp) in
      let m1 := m_set m tmp t1 in                                  (* the container wrote into *inout *)
      match r with
      | POk _ =>
        let s' := sc_merge {| sc_inited := fst fl; sc_ended := snd fl; sc_res := m1 res |} (m1 tmp) in
        let m2 := m_set m1 res (sc_res s') in                      (* conjIDResults.Or / And (pl.Bitmap) *)
        let m3 := m_set m2 tmp [] in                               (* tmpPl.Clear() *)
        h_loop rest q (sc_inited s', sc_ended s') res tmp m3
      | e => (e, fl, m1)
      end
  end.

(* err_path: what the error exit does with tmpPl, in order; true = ReleasePostingList(tmpPl),
   false = bitmapPool.Put(tmpPl.Bitmap).
     []            the code as it is (dropped)
     [true]        released once
     [false]       first seeded mutation (put back uncleared)
     [true; true]  second seeded mutation (released in front of `return err` and again by the defer) *)
Definition h_retrieve (err_path : list bool) (conts : list (fname * rcontainer)) (q : assignment)
    (fl : bool * bool) (res : nat) (m : mem) (next : nat) (p : list nat) (ch : nat)
  : pres unit * (bool * bool) * mem * nat * list nat :=
  let '(tmp, next1, p1) := apool_get next p ch in
  match h_loop conts q fl res tmp m with
  | (POk _, fl', m1) => let '(m2, p2) := release m1 p1 tmp in (POk tt, fl', m2, next1, p2)
  | (e, fl', m1) =>
    let '(m2, p2) := fold_left (fun mp (clr : bool) => if clr then release (fst mp) (snd mp) tmp
                                                       else (fst mp, tmp :: snd mp)) err_path (m1, p1) in
    (e, fl', m2, next1, p2)
  end.

Definition h_step (err_path : list bool) (s : option hscanner) (op : rpop)
    (m : mem) (next : nat) (p : list nat) (ch : nat)
  : answer * option hscanner * mem * nat * list nat :=
  match op with
  | ONew conts mc =>
    let '(b, next1, p1) := apool_get next p ch in
    (AUnit, Some {| hs_conts := conts; hs_maxconj := mc; hs_debug := false;
                    hs_inited := false; hs_ended := false; hs_res := b |}, m, next1, p1)
  | OAlloc => let '(_, next1, p1) := apool_get next p ch in (AUnit, s, m, next1, p1)
  | _ =>
    match s with
    | None => (ANoScanner, None, m, next, p)
    | Some x =>
      match op with
      | OReset => (AUnit, Some (hs_with x false false false), m_set m (hs_res x) [], next, p)
      | OSetDebug b => (AUnit, Some (hs_with x b (hs_inited x) (hs_ended x)), m, next, p)
      | OHint hs =>
        match sc_with_hint (hs_maxconj x) (hs_view m x) hs with
        | Some s' => (AUnit, Some (hs_with x (hs_debug x) (sc_inited s') (sc_ended s')),
                      m_set m (hs_res x) (sc_res s'), next, p)
        | None => (AFail PPanic, Some x, m, next, p)
        end
      | ORetrieve ord q ch2 =>
        match h_retrieve err_path (pick ord (hs_conts x)) q (hs_inited x, hs_ended x) (hs_res x) m next p ch with
        | (POk _, fl, m1, next1, p1) =>
          let '(db, next2, p2) := apool_get next1 p1 ch2 in              (* docBits := NewPostingList() *)
          let m2 := m_set m1 db (docs_into (m1 (hs_res x)) (m1 db)) in   (* docBits.Add(...) per conjunction id *)
          let ans := m2 db in                                            (* docBits.ToArray() *)
          let '(m3, p3) := release m2 p2 db in
          (ADocs ans, Some (hs_with x (hs_debug x) (fst fl) (snd fl)), m3, next2, p3)
        | (e, fl, m1, next1, p1) => (AFail e, Some (hs_with x (hs_debug x) (fst fl) (snd fl)), m1, next1, p1)
        end
      | ORetrieveDocs ord q =>
        match h_retrieve err_path (pick ord (hs_conts x)) q (hs_inited x, hs_ended x) (hs_res x) m next p ch with
        | (POk _, fl, m1, next1, p1) =>
          (ADocSet (docset_of (m1 (hs_res x))), Some (hs_with x (hs_debug x) (fst fl) (snd fl)), m1, next1, p1)
        | (e, fl, m1, next1, p1) => (AFail e, Some (hs_with x (hs_debug x) (fst fl) (snd fl)), m1, next1, p1)
        end
      | ORaw => (ARaw (m (hs_res x)), Some x, m, next, p)
      | _ => (AUnit, Some x, m, next, p)
      end
    end
  end.

Record hstate := { hm : mem; hnext : nat; hpool : list nat; hscs : list (nat * hscanner) }.
Definition hst_init : hstate := {| hm := fun _ => []; hnext := 0; hpool := []; hscs := [] |}.

Definition set_hsc (i : nat) (s : option hscanner) (scs : list (nat * hscanner)) : list (nat * hscanner) :=
  match s with Some x => aupdate Nat.eqb i (fun _ => x) scs | None => scs end.

Definition heap_step (err_path : list bool) (st : hstate) (e : nat * rpop * nat) : answer * hstate :=
  let '(i, op, ch) := e in
  let '(a, s', m', next', p') := h_step err_path (alookup Nat.eqb i (hscs st)) op (hm st) (hnext st) (hpool st) ch in
  (a, {| hm := m'; hnext := next'; hpool := p'; hscs := set_hsc i s' (hscs st) |}).

Fixpoint heap_run (err_path : list bool) (h : list (nat * rpop * nat)) (st : hstate) : list answer * hstate :=
  match h with
  | [] => ([], st)
  | e :: rest =>
    let '(a, st1) := heap_step err_path st e in
    let '(az, st2) := heap_run err_path rest st1 in (a :: az, st2)
  end.
