(* End-to-end cases on the posting-list indexes: specification leg.
   One case = one builder configuration, a list of AddDocument calls with their outcomes, and a
   list of queries against the built index with what the real code returned. *)
From Coq Require Import List NArith ZArith Bool.
From BE Require Export Model.GoTypes Model.GoVal Model.Parsers Model.Index.
From BE Require Import Model.Spec Corr.Common.
Import ListNotations.
Local Open Scope Z_scope.

Inductive iadd := IAddOk | IAddErr | IAddPanic.
Inductive ires :=
| IRes (docs : list Z) (hits : list (Z * (Z * Z)))   (* Retrieve result; recording collector calls (doc, Index, Size) *)
| IErr | IPanic.

Record ecase := {
  k_kind : index_kind; k_pol : policy;
  k_configs : list (fname * cont_kind);
  k_parsers : list (fname * parser_kind);
  k_docs : list (doc * iadd);
  k_queries : list (assignment * ires);
  k_state : option (list N * list N)    (* via hook: every posting-list entry (any order), the wildcard entries *)
}.

Definition parsers_of (l : list (fname * parser_kind)) (f : fname) : parser_kind :=
  match alookup N.eqb f l with Some p => p | None => PCommon end.
Definition fields_of (c : ecase) : list fdesc :=
  map (fun fc => {| fd_name := fst fc; fd_cont := snd fc; fd_parser := parsers_of (k_parsers c) (fst fc) |}) (k_configs c).

Definition triple_eqb (a b : Z * (Z * Z)) : bool :=
  (fst a =? fst b) && (fst (snd a) =? fst (snd b)) && (snd (snd a) =? snd (snd b)).
Definition count_of {A} (eqb : A -> A -> bool) (x : A) (l : list A) : nat := length (filter (eqb x) l).
Definition multiset_eqb {A} (eqb : A -> A -> bool) (a b : list A) : bool :=
  Nat.eqb (length a) (length b) && forallb (fun x => Nat.eqb (count_of eqb x a) (count_of eqb x b)) a.
Fixpoint nodupZ (l : list Z) : bool :=
  match l with [] => true | x :: l' => negb (existsb (Z.eqb x) l') && nodupZ l' end.

(* a conjunction with more than 255 include fields has no id (size is an 8-bit field): the document
   is refused; the specification fixes the index contents only when that conjunction comes first
   (nothing of the document indexed), other placements are outside its domain *)
Definition oversize (d : doc) : bool := existsb (fun cj => 255 <? calc_size cj) (d_conjs d).
Definition oversize_first (d : doc) : bool :=
  match d_conjs d with cj :: _ => 255 <? calc_size cj | [] => false end.
Definition e2e_docok (d : doc) : bool := pl_docok d && negb (oversize d).
(* an operator the field's container does not support (`<`, `>`, between, or an unknown one on a default or pattern
   field): the holder PANICS (util.PanicIf), whatever the bad-conjunction policy -- a configuration error, not an
   unparseable value (DESIGN 7, observations).  Such a document is not indexed when the offending conjunction comes
   first; other placements leave the earlier conjunctions committed and are outside the specification's domain. *)
Definition cont_of_field (cfg : list (fname * cont_kind)) (f : fname) : cont_kind :=
  match alookup N.eqb f cfg with Some k => k | None => CDefault end.
Definition conj_unsupported (cfg : list (fname * cont_kind)) (cj : conj) : bool :=
  existsb (fun fe : fname * list expr =>
    existsb (fun e => match cont_of_field cfg (fst fe), e_op e with
                      | CRange, _ => false
                      | _, OpEQ => false
                      | _, _ => true end) (snd fe)) cj.
Definition op_unsupported (cfg : list (fname * cont_kind)) (d : doc) : bool := existsb (conj_unsupported cfg) (d_conjs d).
Definition unsupported_first (cfg : list (fname * cont_kind)) (d : doc) : bool :=
  match d_conjs d with cj :: _ => conj_unsupported cfg cj | [] => false end.

(* what AddDocument must return *)
Definition expected_add (c : ecase) (d : doc) : list iadd :=
  if negb (doc_valid d) then [IAddErr]
  else if negb (valid_doc_id (d_id d)) then [IAddErr; IAddPanic]
  else if oversize d then [IAddErr; IAddPanic]
  else if unsupported_first (k_configs c) d then [IAddPanic]
  else if op_unsupported (k_configs c) d then [IAddOk; IAddErr; IAddPanic]
  else
    let sems := map (conj_sem (fields_of c) (parsers_of (k_parsers c))) (d_conjs d) in
    if forallb (fun o => match o with Some _ => true | None => false end) sems then [IAddOk]
    else match k_pol c with PolSkip => [IAddOk] | PolError => [IAddErr] | PolPanic => [IAddPanic] end.

Definition iadd_eqb (a b : iadd) : bool :=
  match a, b with IAddOk, IAddOk | IAddErr, IAddErr | IAddPanic, IAddPanic => true | _, _ => false end.

(* fields the index may know: configured or mentioned by any expression of any document *)
Definition mentioned (c : ecase) : list fname :=
  map fst (k_configs c) ++ flat_map (fun da => flat_map (fun cj => map fst cj) (d_conjs (fst da))) (k_docs c).
Definition q_supported (c : ecase) (q : assignment) : bool :=
  forallb (fun fv => negb (existsb (N.eqb (fst fv)) (mentioned c)) ||
                     match assign_sem (field_desc (fields_of c) (parsers_of (k_parsers c)) (fst fv)) (snd fv) with
                     | Some _ => true | None => false end) q.

(* signatures: 10 add outcome, 11 answers, 12 collector calls, 13 panic in retrieval, 14 error on a supported query, 15 duplicates *)
Definition query_verdict (c : ecase) (qr : assignment * ires) : bool * N :=
  let '(q, r) := qr in
  match r with
  | IPanic => (false, 13%N)
  | IErr => if q_supported c q then (false, 14%N) else (true, 0%N)
  | IRes docs hits =>
    if negb (q_supported c q) then (true, 0%N) else
    match sat_hits (fields_of c) (parsers_of (k_parsers c)) (k_pol c) (fun d => e2e_docok d && negb (op_unsupported (k_configs c) d)) (map fst (k_docs c)) q with
    | None => (true, 0%N)
    | Some hs =>
      if negb (nodupZ docs) then (false, 15%N)
      else if negb (eqb_list Z.eqb (setZ docs) (setZ (map fst hs))) then (false, 11%N)
      else if negb (multiset_eqb triple_eqb hits hs) then (false, 12%N)
      else (true, 0%N)
    end
  end.

Fixpoint first_bad (l : list (bool * N)) : bool * N :=
  match l with [] => (true, 0%N) | (true, _) :: l' => first_bad l' | (false, s) :: _ => (false, s) end.

Definition distinct_ids (c : ecase) : bool :=
  nodupZ (map (fun da => d_id (fst da)) (k_docs c)) &&
  forallb (fun da => negb (oversize (fst da)) || oversize_first (fst da)) (k_docs c) &&
  forallb (fun da => negb (op_unsupported (k_configs c) (fst da)) || unsupported_first (k_configs c) (fst da)) (k_docs c).

Definition spec_verdict (c : ecase) : bool * bool * N :=
  let adds := map (fun da => (existsb (iadd_eqb (snd da)) (expected_add c (fst da)), 10%N)) (k_docs c) in
  let qs := map (query_verdict c) (k_queries c) in
  let '(ok, sig) := first_bad (adds ++ qs) in
  (negb (distinct_ids c) || ok, distinct_ids c, sig).

Definition spec_only (c : ecase) : verdict := let '(s, d, g) := spec_verdict c in mk_verdict true s d g.
Definition run (cs : list ecase) := check_all spec_only cs.
