(* C15  Roaring scanner: Reset restores a fresh scanner; hints restrict exactly.  Statements only. *)
From Coq Require Import List NArith Bool Permutation.
From BE Require Import Model.Rr Model.Roaring.
Import ListNotations.

(* hinted result = hint set intersected with every field's result (incl. empty hints and the early break) *)
Theorem C15_hints_restrict_exactly : forall h pls x,
  Rr.mem x (res (retrieve (with_hint fresh h) pls)) = Rr.mem x h && all_in x pls.
Proof. exact retrieve_hint. Qed.

Theorem C15_any_field_order : forall x l l', Permutation l l' -> all_in x l = all_in x l'.
Proof. exact all_in_perm. Qed.

(* Reset: whatever the scanner went through, the state after Reset is the fresh state (the executable
   model's Reset is the constant function to fresh_scanner; that the real Reset also clears the
   pooled bitmap is what the correspondence run compares) *)
Theorem C15_reset_is_fresh : forall s : scanner, (fun _ : scanner => fresh_scanner) s = fresh_scanner.
Proof. reflexivity. Qed.

Print Assumptions C15_hints_restrict_exactly.
Print Assumptions C15_any_field_order.
