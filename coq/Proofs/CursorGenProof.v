(* The cursor code TRANSLATED from /repo's index_scanner.go on every run (Gen/CursorGen.v: EntriesCursor.SkipTo with
   its galloping loop and its bisection loop, Go's 64-bit wrap at every arithmetic node, a Panic outcome wherever
   a slice read would be out of range, OutOfFuel when a loop's fuel ends) computes exactly what the hand-written
   model Model/Cursor.v computes -- for every list shorter than 2^60 entries (no sortedness needed), every
   well-formed cursor and every target.  With Proofs/CursorProof.skip_to_spec this carries the C12 statement
   over to the translated code: it never panics, `length l` units of fuel suffice, it lands on the least entry
   >= target at or after its position. *)
From Coq Require Import List NArith ZArith Bool Lia Arith.
From BE Require Import Model.Cursor Proofs.CursorProof.
From BE Require Gen.CursorGen.
Module G := BE.Gen.CursorGen.
Import ListNotations.

Lemma i64_id z : (- 2^63 <= z < 2^63)%Z -> G.i64 z = z.
Proof. intros H. unfold G.i64. rewrite Z.mod_small; lia. Qed.

Lemma nthN_ent l i : (i < length l)%nat -> G.nthN l (Z.of_nat i) = ent l i.
Proof. intros H. unfold G.nthN, ent. rewrite Nat2Z.id. apply nth_indep. exact H. Qed.

Lemma inb_true l i : (i < length l)%nat -> G.inb l (Z.of_nat i) = true.
Proof.
  intros H. unfold G.inb. apply andb_true_intro. split; [apply Z.leb_le|apply Z.ltb_lt]; lia.
Qed.

Lemma ltb_nat_Z a b : (Z.of_nat a <? Z.of_nat b)%Z = (a <? b)%nat.
Proof. destruct (Nat.ltb_spec a b); [apply Z.ltb_lt|apply Z.ltb_ge]; lia. Qed.
Lemma leb_nat_Z a b : (Z.of_nat a <=? Z.of_nat b)%Z = (a <=? b)%nat.
Proof. destruct (Nat.leb_spec a b); [apply Z.leb_le|apply Z.leb_gt]; lia. Qed.

Lemma shiftr1_div2 n : Z.shiftr (Z.of_nat n) 1 = Z.of_nat (Nat.div2 n).
Proof. rewrite Z.shiftr_div_pow2 by lia. rewrite Nat.div2_div, Nat2Z.inj_div. reflexivity. Qed.
Lemma shiftl1_double n : Z.shiftl (Z.of_nat n) 1 = Z.of_nat (2 * n).
Proof. rewrite Z.shiftl_mul_pow2 by lia. lia. Qed.

Section Lock.
Variables (l : list N) (id eid : N) (oc : nat).
Hypothesis Hlen : (Z.of_nat (length l) < 2^60)%Z.
Hypothesis Hoc : (oc <= length l)%nat.
Let len := Z.of_nat (length l).

Definition agrees1 (r : G.res (Z * Z * Z)) (m : option (nat * nat)) : Prop :=
  match m with
  | Some (c, rt) => exists b', r = G.Ret (Z.of_nat c, b', Z.of_nat rt)
  | None => r = G.OutOfFuel
  end.

(* the galloping loop, step for step *)
Lemma loop1_lock : forall fuel cur bound, (bound <= 2 * length l + 1)%nat ->
  agrees1 (G.EntriesCursor_SkipTo_loop1 fuel l len eid id (Z.of_nat oc)
             (Z.of_nat cur, Z.of_nat bound, Z.of_nat (oc + bound)))
          (gallop fuel l id oc cur bound).
Proof.
  assert (P : (2^60 < 2^63)%Z) by (apply Z.pow_lt_mono_r; lia).
  induction fuel as [|f IH]; intros cur bound Hb;
    cbn [G.EntriesCursor_SkipTo_loop1 gallop]; unfold len; rewrite ltb_nat_Z;
    destruct (Nat.ltb_spec (oc + bound) (length l)) as [Hlt|Hge]; cbn [negb orb andb].
  - rewrite inb_true, nthN_ent by exact Hlt. cbn [negb].
    destruct (ent l (oc + bound) <? id)%N; cbn [agrees1]; [reflexivity|eexists; reflexivity].
  - cbn [agrees1]. eexists; reflexivity.
  - rewrite inb_true, nthN_ent by exact Hlt. cbn [negb].
    destruct (ent l (oc + bound) <? id)%N; [|cbn [agrees1]; eexists; reflexivity].
    cbn [G.bind]. rewrite shiftl1_double. rewrite (i64_id (Z.of_nat (2 * bound))) by lia.
    rewrite <- Nat2Z.inj_add. rewrite i64_id by lia. apply IH. lia.
  - cbn [agrees1]. eexists; reflexivity.
Qed.

Definition agrees2 (r : G.res (Z * Z * Z)) (m : option nat) : Prop :=
  match m with
  | Some p => exists b' r', r = G.Ret (Z.of_nat p, b', r')
  | None => r = G.OutOfFuel
  end.

(* the bisection loop, step for step *)
Lemma loop2_lock : forall fuel cur right b0, (right <= length l)%nat ->
  agrees2 (G.EntriesCursor_SkipTo_loop2 fuel l len eid id (Z.of_nat oc) (Z.of_nat cur, b0, Z.of_nat right))
          (bsearch fuel l id cur right).
Proof.
  assert (P : (2^60 < 2^63)%Z) by (apply Z.pow_lt_mono_r; lia).
  induction fuel as [|f IH]; intros cur right b0 Hr;
    cbn [G.EntriesCursor_SkipTo_loop2 bsearch]; rewrite ltb_nat_Z;
    destruct (Nat.ltb_spec cur right) as [Hlt|Hge]; cbn [negb orb andb].
  - rewrite inb_true, nthN_ent by lia. cbn [negb].
    destruct (ent l cur <? id)%N; cbn [agrees2]; [reflexivity|do 2 eexists; reflexivity].
  - cbn [agrees2]. do 2 eexists; reflexivity.
  - rewrite inb_true, nthN_ent by lia. cbn [negb].
    destruct (ent l cur <? id)%N; [|cbn [agrees2]; do 2 eexists; reflexivity].
    pose proof (div2_bounds cur right Hlt) as Hm.
    rewrite <- Nat2Z.inj_add. rewrite i64_id by lia. rewrite shiftr1_div2.
    set (mid := Nat.div2 (cur + right)) in *.
    cbn [G.bind]. rewrite inb_true, nthN_ent by lia. cbn [negb].
    destruct (id <=? ent l mid)%N; cbn [G.bind].
    + apply IH. lia.
    + replace (Z.of_nat mid + 1)%Z with (Z.of_nat (S mid)) by lia. rewrite i64_id by lia. apply IH. exact Hr.
  - cbn [agrees2]. do 2 eexists; reflexivity.
Qed.
End Lock.

(* EntriesCursor.SkipTo as translated = Model/Cursor.skip_to, outcome for outcome *)
Theorem SkipTo_translated_is_model : forall l c id,
  (Z.of_nat (length l) < 2^60)%Z -> (c_pos c <= length l)%nat ->
  G.EntriesCursor_SkipTo (length l) (Z.of_nat (c_pos c)) l (Z.of_nat (length l)) (c_eid c) id =
  match skip_to l c id with
  | Some c' => G.Ret ((Z.of_nat (c_pos c'), c_eid c'), c_eid c')
  | None => G.OutOfFuel
  end.
Proof.
  intros l c id Hlen Hpos. unfold G.EntriesCursor_SkipTo, skip_to.
  destruct (id <=? c_eid c)%N; [reflexivity|].
  assert (P : (2^60 < 2^63)%Z) by (apply Z.pow_lt_mono_r; lia).
  replace (Z.of_nat (c_pos c) + 1)%Z with (Z.of_nat (c_pos c + 1)) by lia. rewrite i64_id by lia.
  pose proof (loop1_lock l id (c_eid c) (c_pos c) Hlen Hpos (length l) (c_pos c) 1 ltac:(lia)) as H1.
  change 1%Z with (Z.of_nat 1).
  destruct (gallop (length l) l id (c_pos c) (c_pos c) 1) as [[cur r0]|]; cbn [agrees1] in H1.
  2:{ rewrite H1. reflexivity. }
  destruct H1 as [b' H1]. rewrite H1. cbn [G.bind]. rewrite ltb_nat_Z.
  set (rr := if (length l <? r0)%nat then length l else r0).
  assert (Hrr : (rr <= length l)%nat) by (unfold rr; destruct (Nat.ltb_spec (length l) r0); lia).
  match goal with |- G.bind (if (length l <? r0)%nat then ?a else ?b) ?k = _ =>
    transitivity (G.bind (G.Ret (Z.of_nat rr)) k); [unfold rr; destruct (length l <? r0)%nat; reflexivity|] end.
  cbn [G.bind].
  pose proof (loop2_lock l id (c_eid c) (c_pos c) Hlen Hpos (length l) cur rr b' Hrr) as H2.
  destruct (bsearch (length l) l id cur rr) as [p|]; cbn [agrees2] in H2.
  2:{ rewrite H2. reflexivity. }
  destruct H2 as [b2 [r2 H2]]. rewrite H2. cbn [G.bind]. rewrite leb_nat_Z.
  destruct (Nat.leb_spec (length l) p) as [Hge|Hlt]; cbn [G.bind c_pos c_eid]; [reflexivity|].
  rewrite inb_true, nthN_ent by exact Hlt. cbn [negb G.bind]. reflexivity.
Qed.

(* hence the C12 statement for the translated code: on a sorted list the translated SkipTo does not panic, does not
   run out of fuel, never moves back, skips only entries below the target and lands on an entry >= target *)
Theorem SkipTo_translated_spec : forall l id, sortedN l -> (id <= NULLENTRY)%N ->
  (Z.of_nat (length l) < 2^60)%Z -> forall c, WF l c ->
  exists c', G.EntriesCursor_SkipTo (length l) (Z.of_nat (c_pos c)) l (Z.of_nat (length l)) (c_eid c) id =
               G.Ret ((Z.of_nat (c_pos c'), c_eid c'), c_eid c') /\
    WF l c' /\ (c_pos c <= c_pos c')%nat /\
    (forall i, (c_pos c <= i < c_pos c')%nat -> (ent l i < id)%N) /\ (id <= c_eid c')%N /\
    ((id <= c_eid c)%N -> c' = c).
Proof.
  intros l id Hs Hid Hlen c Hwf.
  destruct (skip_to_spec l id Hs Hid c Hwf) as [c' [E R]].
  exists c'. split; [|exact R].
  rewrite SkipTo_translated_is_model by (try exact Hlen; destruct Hwf; assumption). rewrite E. reflexivity.
Qed.

(* the sentinel of the translated code is the model's *)
Lemma nullentry_translated : G.NULLENTRY = NULLENTRY.
Proof. reflexivity. Qed.

(* non-vacuity: the translated code, run *)
Example SkipTo_translated_runs :
  let l := [1;3;3;7;9;12;12;40]%N in
  G.EntriesCursor_SkipTo (length l) 0 l (Z.of_nat (length l)) 1 8 = G.Ret ((4%Z, 9%N), 9%N) /\
  G.EntriesCursor_SkipTo (length l) 4 l (Z.of_nat (length l)) 9 100 = G.Ret ((8%Z, NULLENTRY), NULLENTRY) /\
  (* a cursor whose idSize lies about its slice: Go panics, the translation says so *)
  G.EntriesCursor_SkipTo 9 0 l 12 1 100 = G.Panic.
Proof. vm_compute. repeat split; reflexivity. Qed.
