(* Parser-level cases (C09, C16, C17): specification leg. *)
From Coq Require Import List NArith ZArith Bool.
From BE Require Export Model.GoTypes Model.GoVal Model.Parsers Model.Index.
From BE Require Import Model.Spec Corr.Common Corr.Fnv.
Import ListNotations.
Local Open Scope Z_scope.

Inductive pimpl (A : Type) := PIOk (a : A) | PIErr | PIPanic | PIDiverge.
Arguments PIOk {A} a. Arguments PIErr {A}. Arguments PIPanic {A}. Arguments PIDiverge {A}.

Inductive pcase :=
| PCParse (p : parser_kind) (assign : bool) (v : gval) (r : pimpl (list N))   (* ParseValue / ParseAssign *)
| PCInts (v : gval) (r : pimpl (list Z))                                       (* parser.ParseIntergers(v, true) *)
| PCNumber (v : gval) (r : pimpl Z)                                            (* parser.ParseIntegerNumber(v, true) *)
| PCRange (op : vop) (v : gval) (r : pimpl (Z * Z))                            (* rangeholder.ParseRange(op, v, true): left, right *)
| PCIntsNF (v : gval) (r : pimpl (list Z))                                     (* parser.ParseIntergers(v, false): the in / not-in lists of a range holder with EnableFloat2Int = false *)
| PCRangeNF (op : vop) (v : gval) (r : pimpl (Z * Z))                          (* rangeholder.ParseRange(op, v, false): a holder configured with EnableFloat2Int = false *)
| PCNil (v : gval) (r : pimpl bool)                                            (* util.NilInterface *)
| PCAcDict (v : gval) (r : pimpl (list text))                                  (* ahoholder.ParseAcMatchDict *)
| PCAcText (v : gval) (r : pimpl text)                                         (* ahoholder.BuildAcMatchContent(v, " ") *)
| PCMatch (v1 v2 : gval) (r1 r2 : pimpl (list N)).                             (* common.ParseValue(v1) vs common.ParseAssign(v2) *)

Definition text_id (t : text) : N := fnv64 (utf8 t).
Definition num_id (z : Z) : N := Z.to_N (z mod 18446744073709551616).

(* what ParseValue must produce: None = must be rejected *)
Definition denote_value (p : parser_kind) (v : gval) : option (list N) :=
  match p with
  | PCommon => option_map (map text_id) (canon_texts v)
  | PStrHash => option_map (map text_id) (strings_of v)
  | PNumber => option_map (map num_id) (ints_of v)
  | PNumRange => option_map (map num_id) (descs_of v)
  end.
(* what ParseAssign must produce when the value is supported; None = unspecified *)
Definition denote_assign (p : parser_kind) (v : gval) : option (list N) :=
  if nil_like v then Some [] else
  match p with
  | PCommon => option_map (map text_id) (canon_texts v)
  | PStrHash => option_map (map text_id) (strings_of v)
  | PNumber => option_map (map num_id) (ints_of v)
  | PNumRange => match v with VSlice _ _ _ | VList _ _ | VStr _ => None | _ => option_map (map num_id) (ints_of v) end
  end.

Definition range_fd : fdesc := {| fd_name := 0%N; fd_cont := CRange; fd_parser := PCommon |}.
Definition denote_range (op : vop) (v : gval) : option (Z * Z) :=
  match expr_sem range_fd {| e_incl := true; e_op := op; e_val := v |} with
  | Some (ERange l r) => Some (l, r)
  | _ => None
  end.

Definition pimpl_total {A} (r : pimpl A) : bool := match r with PIPanic | PIDiverge => false | _ => true end.

(* values whose float/decimal content lies outside the modelled fragment: nothing is claimed *)
Definition in_fragment (v : gval) : bool :=
  let okf := fun f => match f_cls f with FFinite => Z.abs (f_ip f) <? two63 | _ => false end in
  let oks := fun s => match parse_int_text s with Some _ => true | None =>
                        match parse_float_trunc s with Some _ => true | None => false end end in
  let ok1 := fun x => match x with VFloat _ f => okf f | _ => true end in
  match v with
  | VFloat _ f => okf f
  | VSlice _ _ vs | VList _ vs | VArr _ vs => forallb ok1 vs
  | _ => true
  end.
Definition in_fragment_num (v : gval) : bool :=
  let oks := fun s => match parse_int_text s with Some _ => true | None =>
                        match parse_float_trunc s with Some _ => true | None => false end end in
  let ok1 := fun x => match x with VStr s | VJson s => oks s | _ => true end in
  in_fragment v && match v with VStr s | VJson s => oks s | VSlice _ _ vs | VList _ vs => forallb ok1 vs | _ => true end.

(* signatures: 30 panic, 31 divergence, 32 ill-typed/malformed value accepted, 33 wrong values indexed,
   34 well-formed value rejected, 35 assign-side ids wrong, 36 range/between wrong, 40 match rule *)
Definition spec_verdict (c : pcase) : bool * bool * N :=
  match c with
  | PCParse p assign v r =>
    let dom := in_fragment v && match p with PNumber => in_fragment_num v | _ => true end in
    if negb dom then (true, false, 0%N) else
    match r with
    | PIPanic => (false, true, 30%N)
    | PIDiverge => (false, true, 31%N)
    | PIErr => if assign then (match denote_assign p v with Some _ => false | None => true end, true, 34%N)
               else (match denote_value p v with Some _ => false | None => true end, true, 34%N)
    | PIOk ids =>
      if assign then (match denote_assign p v with Some e => eqb_list N.eqb ids e | None => true end, true, 35%N)
      else match denote_value p v with
           | Some e => (eqb_list N.eqb ids e, true, 33%N)
           | None => (false, true, 32%N)
           end
    end
  | PCInts v r =>
    if negb (in_fragment_num v) then (true, false, 0%N) else
    match r with
    | PIPanic => (false, true, 30%N) | PIDiverge => (false, true, 31%N)
    | PIErr => (match (if nil_like v then Some [] else ints_of v) with Some _ => false | None => true end, true, 34%N)
    | PIOk zs => (match (if nil_like v then Some [] else ints_of v) with Some e => eqb_list Z.eqb zs e | None => false end, true, 33%N)
    end
  | PCNumber v r =>
    if negb (in_fragment_num v) then (true, false, 0%N) else
    match r with
    | PIPanic => (false, true, 30%N) | PIDiverge => (false, true, 31%N)
    | PIErr => (match int_scalar v with Some _ => false | None => true end, true, 34%N)
    | PIOk z => (match int_scalar v with Some e => z =? e | None => false end, true, 33%N)
    end
  | PCRange op v r =>
    (* the property speaks about bounds of magnitude up to 2^62 *)
    let small := fun z => Z.abs z <=? 4611686018427387904 in
    let bounds_ok := match denote_range op v with
                     | Some (l, h) => (small l || (l =? - two63)) && (small h || (h =? two63))
                     | None => true end in
    if negb (in_fragment_num v && bounds_ok) then (true, false, 0%N) else
    match r with
    | PIPanic => (false, true, 30%N) | PIDiverge => (false, true, 31%N)
    | PIErr => (match denote_range op v with Some _ => false | None => true end, true, 34%N)
    | PIOk (l, rr) => (match denote_range op v with
                       | Some (el, er) => (l =? el) && ((rr =? er) || ((er =? two63) && (rr =? two63 - 1)))
                       | None => false end, true, 36%N)
    end
  | PCIntsNF v r =>
    (* without float-to-integer conversion a float, alone or as an element of a typed or untyped list, is refused *)
    match v with
    | VFloat _ _ | VSlice _ _ (VFloat _ _ :: _) | VList _ (VFloat _ _ :: _) => (match r with PIErr => true | _ => false end, true, 38%N)
    | _ => (pimpl_total r, true, 30%N)
    end
  | PCRangeNF op v r =>
    (* without float-to-integer conversion a float operand of > or < is no integer: refused, not truncated *)
    match op, v with
    | OpGT, VFloat _ _ | OpLT, VFloat _ _ => (match r with PIErr => true | _ => false end, true, 37%N)
    | _, _ => (pimpl_total r, true, 30%N)
    end
  | PCNil v r => (pimpl_total r, true, 30%N)
  | PCAcDict v r =>
    match r with
    | PIPanic => (false, true, 30%N) | PIDiverge => (false, true, 31%N)
    | PIErr => (match strings_of v with Some _ => false | None => true end, true, 34%N)
    | PIOk ks => (match strings_of v with Some e => eqb_list text_eqb ks e | None =>
                    match v with VSlice TSuint8 _ _ => true | _ => false end end, true, 32%N)
    end
  | PCAcText v r =>
    match r with
    | PIPanic => (false, true, 30%N) | PIDiverge => (false, true, 31%N)
    | PIErr => (match strings_of v with Some _ => false | None => true end, true, 34%N)
    | PIOk t => (match strings_of v with Some ss => text_eqb t (join_sep [32%N] ss) | None => false end, true, 33%N)
    end
  | PCMatch v1 v2 r1 r2 =>
    (* both sides supported: a shared id exactly when a shared canonical text *)
    if negb (in_fragment v1 && in_fragment v2) then (true, false, 0%N) else
    match canon_texts v1, (if nil_like v2 then Some [] else canon_texts v2) with
    | Some t1, Some t2 =>
      match r1, r2 with
      | PIOk i1, PIOk i2 =>
        (Bool.eqb (existsb (fun a => existsb (N.eqb a) i2) i1) (existsb (fun a => existsb (text_eqb a) t2) t1), true, 40%N)
      | PIPanic, _ | _, PIPanic => (false, true, 30%N)
      | _, _ => (false, true, 34%N)
      end
    | _, _ => (pimpl_total r1 && pimpl_total r2, false, 30%N)
    end
  end.

Definition spec_only (c : pcase) : verdict := let '(s, d, g) := spec_verdict c in mk_verdict true s d g.
Definition run (cs : list pcase) := check_all spec_only cs.
