(* C09: parser-level cases (P), end-to-end cases (E), JSON ingest cases (J). *)
From BE Require Export Corr.CheckParse.
