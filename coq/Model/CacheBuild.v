(* The builder WITH a build-cache provider attached (index_builder.go buildDocEntries /
   tryUseIndexingTxCache / tryCacheIndexingTx), statement level, executable, reusing the functions of
   Model/Index.v (the builder without cache) and Model/Cache.v (record format, codecs).

   The provider (interface CacheProvider: Get / Set / Reset) is an external component: it is modelled as a
   state `pstore` (what it currently holds) driven by an adversarial `oracle`: for the n-th call the builder
   makes to the provider (Get or Set), the oracle says
     - which entries the provider silently loses just before the call (eviction, expiry), and
     - whether the call "works": a Get that does not work answers (nil,false) although the entry may be
       stored; a Set that does not work is dropped, and
     - in which order the slots of the record a Get returns are iterated (the record is a Go map,
       txCache.FieldData: `for field, fieldData := range` visits it in an unspecified order).
   Every definition here is a definition (no axioms); theorems quantify over all oracles. *)
From Coq Require Import List NArith ZArith Bool.
From BE Require Import Model.GoTypes Model.GoVal Model.Parsers Model.Index Model.Cache.
From BE Require Gen.IdsGen.
Import ListNotations.
Local Open Scope Z_scope.

(* ---------- the provider ---------- *)
Definition pstore := list (N * record).                (* key = uint64(conjID) *)
Record ostep := { o_works : bool; o_evict : N -> bool; o_shuffle : record -> record }.
Definition oracle := nat -> ostep.                     (* indexed by the number of provider calls made so far *)

Definition evict (ev : N -> bool) (p : pstore) : pstore := filter (fun kv => negb (ev (fst kv))) p.

(* Get(conjID) ([]byte, bool) *)
Definition provider_get (o : oracle) (n : nat) (p : pstore) (cid : N) : option record * pstore * nat :=
  let p1 := evict (o_evict (o n)) p in
  (if o_works (o n) then option_map (o_shuffle (o n)) (alookup N.eqb cid p1) else None, p1, S n).
(* Set(conjID, data): replaces what was stored under the key *)
Definition provider_set (o : oracle) (n : nat) (p : pstore) (cid : N) (r : record) : pstore * nat :=
  let p1 := evict (o_evict (o n)) p in
  (if o_works (o n) then (cid, r) :: filter (fun kv => negb (N.eqb (fst kv) cid)) p1 else p1, S n).

(* ---------- tryUseIndexingTxCache ---------- *)
(* createFieldData(field); container.CreateHolder(desc)   (index_builder.go:276-277; the same two statements
   as index_builder.go:242-243, which Index.index_exprs inlines) *)
Definition touch (st : bstate) (ks : Z) (f : fname) : bstate * fdesc :=
  let '(st1, fd) := ensure_field st f in
  (with_conts st1 (update_nth (cont_index st1 ks) (fun ec => create_holder ec fd) (b_conts st1)), fd).

(* the loop over txCache.FieldData (index_builder.go:275-289), in the order of the record's slots:
   an undecodable slot returns nil, the fields and holders created so far stay *)
Fixpoint use_record (st : bstate) (ks : Z) (r : record) (acc : list tx) : bstate * option (list tx) :=
  match r with
  | [] => (st, Some acc)
  | (f, (eid, e)) :: rest =>
    let '(st2, fd) := touch st ks f in
    match decode (fd_cont fd) e with
    | Some d => use_record st2 ks rest (acc ++ [{| tx_field := fd; tx_eid := eid; tx_data := d |}])
    | None => (st2, None)
    end
  end.

(* None = the Go function returns nil (no provider answer, undecodable slot, or a record without slots:
   the slice is never appended to and stays nil) *)
Definition try_use_cache (o : oracle) (n : nat) (st : bstate) (p : pstore) (cid : N)
  : bstate * pstore * nat * option (list tx) :=
  let '(ans, p1, n1) := provider_get o n p cid in
  match ans with
  | None => (st, p1, n1, None)
  | Some r =>
    let ks := IdsGen.ConjID_Size cid in
    let st1 := ensure_cont st ks in                      (* b.indexer.newContainer(conjID.Size()) *)
    match use_record st1 ks r [] with
    | (st2, Some (t :: ts)) => (st2, p1, n1, Some (t :: ts))
    | (st2, _) => (st2, p1, n1, None)
    end
  end.

(* ---------- tryCacheIndexingTx (called when needCache) ---------- *)
(* record_of = needCache (some transaction is BetterToCache) && no second transaction on a field *)
Definition try_cache (o : oracle) (n : nat) (p : pstore) (cthr : nat) (cid : N) (txs : list tx) : pstore * nat :=
  match record_of cthr txs with
  | None => (p, n)
  | Some r => provider_set o n p cid r
  end.

(* ---------- buildDocEntries, one conjunction ---------- *)
Definition cstate := (bstate * pstore * nat)%type.

Definition finish_conj (k ks : Z) (cid : N) (st : bstate) (txs : list tx) : bstate :=
  (* if incSize == 0 { addWildcardEID }  -- incSize is the local computed by CalcConjSize *)
  let st3 := if k =? 0 then with_z st (b_z st ++ [IdsGen.NewEntryID cid true]) else st in
  (* tx.holder.CommitIndexingBETx: the holder was taken from the container newContainer(conjID.Size()) *)
  fold_left (commit_one ks) txs st3.

Definition add_conj_cached (o : oracle) (cthr : nat) (d : Z) (s : cstate) (ic : Z * conj) : cstate * add_out :=
  let '(st, p, n) := s in
  let '(i, c) := ic in
  let k := calc_size c in
  match IdsGen.NewConjID d i k with
  | None => (s, AddPanic)
  | Some cid =>
    let ks := IdsGen.ConjID_Size cid in
    match try_use_cache o n st p cid with
    | (st1, p1, n1, Some txs) => ((finish_conj k ks cid st1 txs, p1, n1), AddOk)
    | (st1, p1, n1, None) =>
      (* indexingConjunction(conj, conjID): incSize := conjID.Size(); newContainer(incSize); parse *)
      match index_conj (ensure_cont st1 ks) ks cid c [] with
      | (st2, POk txs) =>
        let '(p2, n2) := try_cache o n1 p1 cthr cid txs in
        ((finish_conj k ks cid st2 txs, p2, n2), AddOk)
      | (st2, PErr) => ((st2, p1, n1), match b_policy st with PolSkip => AddOk | PolError => AddErr | PolPanic => AddPanic end)
      | (st2, PPanic) => ((st2, p1, n1), AddPanic)
      | (st2, PDiverge) => ((st2, p1, n1), AddDiverge)
      | (st2, PUnmodelled) => ((st2, p1, n1), AddUnmodelled)
      end
    end
  end.

Fixpoint add_conjs_cached (o : oracle) (cthr : nat) (d : Z) (s : cstate) (ics : list (Z * conj)) : cstate * add_out :=
  match ics with
  | [] => (s, AddOk)
  | ic :: rest =>
    match add_conj_cached o cthr d s ic with
    | (s', AddOk) => add_conjs_cached o cthr d s' rest
    | r => r
    end
  end.

Definition add_document_cached (o : oracle) (cthr : nat) (s : cstate) (d : doc) : cstate * add_out :=
  match d_conjs d with
  | [] => (s, AddErr)
  | _ => if (255 <? Z.of_nat (length (d_conjs d))) then (s, AddErr)
         else add_conjs_cached o cthr (d_id d) s (indexed_from 0 (d_conjs d))
  end.

Fixpoint add_documents_cached (o : oracle) (cthr : nat) (s : cstate) (ds : list doc) : cstate * list add_out :=
  match ds with
  | [] => (s, [])
  | d :: ds' => let '(s1, out) := add_document_cached o cthr s d in
                let '(s2, outs) := add_documents_cached o cthr s1 ds' in (s2, out :: outs)
  end.

(* ---------- IndexerBuilder.Reset ---------- *)
(* b.initIndexer(): a fresh index; b.fieldsData (including the fields created on the fly) stays *)
Definition reset_builder (st : bstate) : bstate :=
  {| b_kind := b_kind st; b_policy := b_policy st; b_thr := b_thr st; b_fields := b_fields st;
     b_conts := match b_kind st with IKGroups => [] | ICompact => [new_econtainer] end;
     b_z := []; b_parsers := b_parsers st |}.

(* a sequence of builds of the same documents on one builder sharing one provider: before every build
   builder.Reset() (which calls provider.Reset(): the provider forgets whatever it likes -- everything for a
   well-behaved one, nothing for one that ignores the call); every build has its own oracle and its own
   caching threshold (BetterToCacheMaxItemsCount is a package variable) *)
Record round := { r_oracle : oracle; r_forget : N -> bool; r_cthr : nat }.
Fixpoint builds (ds : list doc) (st : bstate) (p : pstore) (rounds : list round)
  : list (bstate * list add_out) * pstore :=
  match rounds with
  | [] => ([], p)
  | r :: rest =>
    let '((st1, p1, _), outs) := add_documents_cached (r_oracle r) (r_cthr r) (reset_builder st, evict (r_forget r) p, O) ds in
    let '(res, p2) := builds ds st1 p1 rest in
    ((st1, outs) :: res, p2)
  end.

(* ---------- what the transactions of a conjunction are, as a function of the configuration only ---------- *)
(* the descriptor createFieldData yields for a field name *)
Definition desc_for (st : bstate) (f : fname) : fdesc :=
  match find_field f (b_fields st) with
  | Some d => d
  | None => {| fd_name := f; fd_cont := CDefault; fd_parser := b_parsers st f |}
  end.

Fixpoint pure_exprs (thr : Z) (fd : fdesc) (cid : N) (es : list expr) (acc : list tx) : pres (list tx) :=
  match es with
  | [] => POk acc
  | e :: es' =>
    match indexing_tx thr fd e with
    | POk d => pure_exprs thr fd cid es' (acc ++ [{| tx_field := fd; tx_eid := IdsGen.NewEntryID cid (e_incl e); tx_data := d |}])
    | PErr => PErr | PPanic => PPanic | PDiverge => PDiverge | PUnmodelled => PUnmodelled
    end
  end.
Fixpoint pure_conj (thr : Z) (desc_of : fname -> fdesc) (cid : N) (c : conj) (acc : list tx) : pres (list tx) :=
  match c with
  | [] => POk acc
  | (f, es) :: c' =>
    match pure_exprs thr (desc_of f) cid es acc with
    | POk acc' => pure_conj thr desc_of cid c' acc'
    | r => r
    end
  end.

(* ---------- deliberately wrong variants, for the sensitivity witnesses ---------- *)
(* the hit path files the conjunction under the container of `size_of cid`, with entry ids `eid_of eid` *)
Definition try_use_cache_var (size_of : N -> Z) (eid_of : N -> N) (o : oracle) (n : nat) (st : bstate) (p : pstore) (cid : N)
  : bstate * pstore * nat * option (list tx) * Z :=
  let '(ans, p1, n1) := provider_get o n p cid in
  match ans with
  | None => (st, p1, n1, None, IdsGen.ConjID_Size cid)
  | Some r =>
    let ks := size_of cid in
    let st1 := ensure_cont st ks in
    match use_record st1 ks (map (fun s => (fst s, (eid_of (fst (snd s)), snd (snd s)))) r) [] with
    | (st2, Some (t :: ts)) => (st2, p1, n1, Some (t :: ts), ks)
    | (st2, _) => (st2, p1, n1, None, IdsGen.ConjID_Size cid)
    end
  end.
Definition add_conj_cached_var (size_of : N -> Z) (eid_of : N -> N) (o : oracle) (cthr : nat) (d : Z) (s : cstate) (ic : Z * conj)
  : cstate * add_out :=
  let '(st, p, n) := s in
  let '(i, c) := ic in
  let k := calc_size c in
  match IdsGen.NewConjID d i k with
  | None => (s, AddPanic)
  | Some cid =>
    let ks := IdsGen.ConjID_Size cid in
    match try_use_cache_var size_of eid_of o n st p cid with
    | (st1, p1, n1, Some txs, ks') => ((finish_conj k ks' cid st1 txs, p1, n1), AddOk)
    | (st1, p1, n1, None, _) =>
      match index_conj (ensure_cont st1 ks) ks cid c [] with
      | (st2, POk txs) =>
        let '(p2, n2) := try_cache o n1 p1 cthr cid txs in
        ((finish_conj k ks cid st2 txs, p2, n2), AddOk)
      | (st2, PErr) => ((st2, p1, n1), match b_policy st with PolSkip => AddOk | PolError => AddErr | PolPanic => AddPanic end)
      | (st2, PPanic) => ((st2, p1, n1), AddPanic)
      | (st2, PDiverge) => ((st2, p1, n1), AddDiverge)
      | (st2, PUnmodelled) => ((st2, p1, n1), AddUnmodelled)
      end
    end
  end.
Fixpoint add_conjs_cached_var sz ei (o : oracle) (cthr : nat) (d : Z) (s : cstate) (ics : list (Z * conj)) : cstate * add_out :=
  match ics with
  | [] => (s, AddOk)
  | ic :: rest =>
    match add_conj_cached_var sz ei o cthr d s ic with
    | (s', AddOk) => add_conjs_cached_var sz ei o cthr d s' rest
    | r => r
    end
  end.
Definition add_document_cached_var sz ei (o : oracle) (cthr : nat) (s : cstate) (d : doc) : cstate * add_out :=
  match d_conjs d with
  | [] => (s, AddErr)
  | _ => if (255 <? Z.of_nat (length (d_conjs d))) then (s, AddErr)
         else add_conjs_cached_var sz ei o cthr (d_id d) s (indexed_from 0 (d_conjs d))
  end.
Fixpoint add_documents_cached_var sz ei (o : oracle) (cthr : nat) (s : cstate) (ds : list doc) : cstate * list add_out :=
  match ds with
  | [] => (s, [])
  | d :: ds' => let '(s1, out) := add_document_cached_var sz ei o cthr s d in
                let '(s2, outs) := add_documents_cached_var sz ei o cthr s1 ds' in (s2, out :: outs)
  end.
