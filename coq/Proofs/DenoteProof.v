(* Denotational exactness of the value parsers: on every well-formed value inside the modelled
   fragment each parser of Model/Parsers.v either rejects (PErr) or yields exactly the ids the
   representation-free specification (Model/Spec.v) says the value denotes -- both directions. *)
From Coq Require Import List NArith ZArith Bool Lia.
From BE Require Import Model.GoTypes Model.GoVal Model.Parsers Model.Index Model.Spec Gen.TypeSwitchGen.
From BE Require Import Proofs.ParsersProof Proofs.CanonProof.
Import ListNotations.
Local Open Scope Z_scope.

(* ================================================================== *)
(* Assumptions: well-formedness and the modelled fragment              *)
(* ================================================================== *)

(* the immediate elements of a container value *)
Definition elems (v : gval) : list gval :=
  match v with VSlice _ _ vs | VList _ vs | VArr _ vs => vs | _ => [] end.

(* types a VSlice may carry: the 15 typed scalar slices (range of slice_of) and "any other slice" *)
Definition slice_ty (t : gty) : bool :=
  match t with
  | TSint | TSint8 | TSint16 | TSint32 | TSint64 | TSuint | TSuint8 | TSuint16 | TSuint32 | TSuint64
  | TSfloat32 | TSfloat64 | TSstring | TSjsonNumber | TSbool | TSother => true
  | _ => false
  end.
(* types a VOther may carry: map, pointer, chan, func, struct, complex, other slices / arrays *)
Definition other_ty (t : gty) : bool :=
  match t with Tmap | Tptr | Tchan | Tfunc | Tstruct | Tcomplex | TSother | TAother => true | _ => false end.

(* one level: the constructor agrees with the Go type it carries *)
Definition wf_shape (v : gval) : Prop :=
  match v with
  | VSlice t _ vs => slice_ty t = true /\ Forall (fun e => slice_of (type_of e) = Some t) vs
  | VArr t vs => match t with
                 | TA2int64 => exists l r, vs = [VInt KI64 l; VInt KI64 r]
                 | TAother => True
                 | _ => False end
  | VOther t _ => other_ty t = true
  | _ => True
  end.
(* the value and its immediate elements (the parsers never look deeper) *)
Definition wf_val (v : gval) : Prop := wf_shape v /\ Forall wf_shape (elems v).

Lemma wf_val_wf_gval v : wf_val v -> wf_gval v.
Proof. intros [H _]. destruct v; cbn in *; auto. tauto. Qed.

(* floats: finite, integer part inside int64 (otherwise float_u64_text / float_to_i64 are PUnmodelled) *)
Definition float_ok (v : gval) : Prop :=
  match v with VFloat _ f => f_cls f = FFinite /\ Z.abs (f_ip f) < two63 | _ => True end.
(* number texts: the strconv model answers *)
Definition text_ok (v : gval) : Prop :=
  match v with VStr s | VJson s => parse_int_text s <> None \/ parse_float_trunc s <> None | _ => True end.
(* signed integers fit int64 (true of every Go value; needed only where the result is a raw int64) *)
Definition int_fits (v : gval) : Prop :=
  match v with VInt k z => ikind_signed k = true -> - two63 <= z < two63 | _ => True end.

Definition modelled (v : gval) : Prop := float_ok v /\ Forall float_ok (elems v).
Definition modelled_num (v : gval) : Prop := modelled v /\ text_ok v /\ Forall text_ok (elems v).
Definition ints_fit (v : gval) : Prop := int_fits v /\ Forall int_fits (elems v).

(* ================================================================== *)
(* Generic list lemmas                                                 *)
(* ================================================================== *)

(* the parser answers exactly the option o: Some -> POk, None -> PErr *)
Definition ans {A} (o : option A) : pres A := match o with Some a => POk a | None => PErr end.

Lemma pmap_exact {A B C} (f : A -> pres B) (g : A -> option C) (h : C -> B) l :
  (forall x, In x l -> f x = ans (option_map h (g x))) ->
  pmap_list f l = ans (option_map (map h) (all_some (map g l))).
Proof.
  induction l as [|x l IH]; intros Hf; cbn [pmap_list map all_some]; [reflexivity|].
  rewrite (Hf x) by (left; reflexivity). destruct (g x) as [c|]; cbn [pbind option_map ans]; [|reflexivity].
  rewrite IH by (intros; apply Hf; right; assumption).
  destruct (all_some (map g l)); reflexivity.
Qed.

(* first failing element: the rejection direction on its own *)
Lemma pmap_first_fail {A B C} (f : A -> pres B) (g : A -> option C) (h : C -> B) l :
  all_some (map g l) = None ->
  (forall x, In x l -> g x = None -> f x = PErr) ->
  (forall x c, In x l -> g x = Some c -> f x = POk (h c)) ->
  pmap_list f l = PErr.
Proof.
  intros Hn H1 H2. rewrite (pmap_exact f g h).
  - rewrite Hn. reflexivity.
  - intros x Hin. destruct (g x) eqn:E; cbn; auto.
Qed.

Lemma pmap_ext {A B} (f f' : A -> pres B) l : (forall x, In x l -> f x = f' x) -> pmap_list f l = pmap_list f' l.
Proof.
  induction l as [|x l IH]; intros H; cbn [pmap_list]; [reflexivity|].
  rewrite H by (left; reflexivity). rewrite IH by (intros; apply H; right; assumption). reflexivity.
Qed.

Lemma pmap_fuse {A B C} (f : A -> pres B) (u : B -> C) l :
  pbind (pmap_list f l) (fun zs => POk (map u zs)) = pmap_list (fun x => pbind (f x) (fun z => POk (u z))) l.
Proof.
  induction l as [|x l IH]; cbn [pmap_list pbind map]; [reflexivity|].
  destruct (f x); cbn [pbind]; try reflexivity.
  rewrite <- IH. destruct (pmap_list f l); reflexivity.
Qed.

Lemma Forall_In {A} (P : A -> Prop) l x : Forall P l -> In x l -> P x.
Proof. intros H. rewrite Forall_forall in H. auto. Qed.

(* ================================================================== *)
(* Shapes of the elements of a typed slice                             *)
(* ================================================================== *)

Definition slice_of_ikind (k : ikind) : gty :=
  match k with KI => TSint | KI8 => TSint8 | KI16 => TSint16 | KI32 => TSint32 | KI64 => TSint64
             | KU => TSuint | KU8 => TSuint8 | KU16 => TSuint16 | KU32 => TSuint32 | KU64 => TSuint64 end.

Inductive elem_shape (t : gty) : gval -> Prop :=
| ES_int (k : ikind) (z : Z) : t = slice_of_ikind k -> elem_shape t (VInt k z)
| ES_float (w : bool) (f : fl) : t = (if w then TSfloat32 else TSfloat64) -> elem_shape t (VFloat w f)
| ES_str (s : text) : t = TSstring -> elem_shape t (VStr s)
| ES_json (s : text) : t = TSjsonNumber -> elem_shape t (VJson s)
| ES_bool (b : bool) : t = TSbool -> elem_shape t (VBool b).

Lemma elem_cases e t : wf_shape e -> slice_of (type_of e) = Some t -> elem_shape t e.
Proof.
  destruct e as [|k z|w f|s|s|b|ty n vs|n vs|ty vs|ty n]; cbn [wf_shape type_of]; intros Hw Hs.
  - discriminate.
  - apply ES_int. destruct k; inversion Hs; reflexivity.
  - apply ES_float. destruct w; inversion Hs; reflexivity.
  - apply ES_str. inversion Hs; reflexivity.
  - apply ES_json. inversion Hs; reflexivity.
  - apply ES_bool. inversion Hs; reflexivity.
  - destruct Hw as [Hw _]. destruct ty; discriminate.
  - discriminate.
  - destruct ty; try contradiction; discriminate.
  - destruct ty; discriminate.
Qed.

(* ================================================================== *)
(* 1. CommonStrParser.ParseValue                                       *)
(* ================================================================== *)

Lemma float_text_exact w f : float_ok (VFloat w f) -> float_u64_text (VFloat w f) = POk (dec_text (f_ip f)) /\
  canon_scalar (VFloat w f) = Some (dec_text (f_ip f)) /\ float_to_i64 f = Some (f_ip f).
Proof.
  cbn [float_ok]. intros [Ec Hb]. apply Z.ltb_lt in Hb.
  unfold float_u64_text, canon_scalar, float_to_i64. rewrite Ec, Hb. auto.
Qed.

Lemma alloc_exact e : wf_shape e -> float_ok e ->
  common_alloc_iface e = ans (option_map PText (canon_scalar e)).
Proof.
  destruct e as [|k z|w f|s|s|b|ty n vs|n vs|ty vs|ty n]; cbn [wf_shape]; intros Hw Hf; try reflexivity.
  - destruct k; reflexivity.
  - destruct (float_text_exact w f Hf) as (H1 & H2 & _). rewrite H2.
    destruct w; unfold common_alloc_iface; cbn -[float_u64_text]; rewrite H1; reflexivity.
  - destruct Hw as [Hw _]. destruct ty; try discriminate; reflexivity.
  - destruct ty; try contradiction; reflexivity.
  - destruct ty; try discriminate; reflexivity.
Qed.

Definition int_like_slice (t : gty) : bool :=
  match t with
  | TSint | TSint8 | TSint16 | TSint32 | TSint64 | TSuint | TSuint8 | TSuint16 | TSuint32 | TSuint64
  | TSstring | TSjsonNumber => true | _ => false end.
Definition float_slice (t : gty) : bool := match t with TSfloat32 | TSfloat64 => true | _ => false end.

Lemma text_elem_exact t e : int_like_slice t = true -> elem_shape t e ->
  (match scalar_text e with Some s => POk (PText s) | None => PUnmodelled end) = ans (option_map PText (canon_scalar e)).
Proof.
  intros Ht Hs. destruct Hs as [k z E|w f E|s E|s E|b E]; subst; try reflexivity.
  - destruct w; discriminate.
  - discriminate.
Qed.
Lemma float_elem_exact t e : float_slice t = true -> elem_shape t e -> float_ok e ->
  pbind (float_u64_text e) (fun s => POk (PText s)) = ans (option_map PText (canon_scalar e)).
Proof.
  intros Ht Hs Hf. destruct Hs as [k z E|w f E|s E|s E|b E]; subst; try discriminate.
  - destruct k; discriminate.
  - destruct (float_text_exact w f Hf) as (H1 & H2 & _). rewrite H1, H2. reflexivity.
Qed.

Lemma slice_elems t n vs : wf_val (VSlice t n vs) ->
  slice_ty t = true /\ forall e, In e vs -> elem_shape t e.
Proof.
  intros [[Ht Hty] Hw]. cbn [elems] in Hw. split; [exact Ht|].
  intros e Hin. apply elem_cases.
  - exact (Forall_In _ _ _ Hw Hin).
  - exact (Forall_In _ _ _ Hty Hin).
Qed.

Theorem common_value_ans v : wf_val v -> modelled v ->
  common_parse_value v = ans (option_map (map PText) (canon_texts v)).
Proof.
  intros Hwf Hm.
  destruct v as [|k z|w f|s|s|b|t n vs|n vs|t vs|t n]; try reflexivity.
  - destruct k; reflexivity.
  - destruct Hm as [Hf _]. destruct (float_text_exact w f Hf) as (H1 & H2 & _).
    unfold canon_texts. cbn [scalars_of map all_some]. rewrite H2.
    destruct w; unfold common_parse_value; cbn -[float_u64_text]; rewrite H1; reflexivity.
  - destruct (slice_elems _ _ _ Hwf) as [Ht He]. destruct Hm as [_ Hm]. cbn [elems] in Hm.
    assert (Hint : int_like_slice t = true ->
              pmap_list (fun e => match scalar_text e with Some s => POk (PText s) | None => PUnmodelled end) vs
              = ans (option_map (map PText) (all_some (map canon_scalar vs)))).
    { intros Hi. apply pmap_exact. intros x Hin. eapply text_elem_exact; eauto. }
    assert (Hfl : float_slice t = true ->
              pmap_list (fun e => pbind (float_u64_text e) (fun s => POk (PText s))) vs
              = ans (option_map (map PText) (all_some (map canon_scalar vs)))).
    { intros Hi. apply pmap_exact. intros x Hin. eapply float_elem_exact; eauto. eapply Forall_In; eauto. }
    destruct t; try discriminate Ht; try (exact (Hint eq_refl)); try (exact (Hfl eq_refl)); reflexivity.
  - destruct Hwf as [_ Hw]. destruct Hm as [_ Hm]. cbn [elems] in *.
    change (common_parse_value (VList n vs)) with (pmap_list common_alloc_iface vs).
    unfold canon_texts. cbn [scalars_of]. apply pmap_exact. intros x Hin.
    apply alloc_exact; eapply Forall_In; eauto.
  - destruct Hwf as [Hw _]. cbn [wf_shape] in Hw. destruct t; try contradiction; reflexivity.
  - destruct Hwf as [Hw _]. cbn [wf_shape] in Hw. destruct t; try discriminate; reflexivity.
Qed.

Theorem common_value_exact v : wf_val v -> modelled v ->
  match canon_texts v with
  | Some ts => common_parse_value v = POk (map PText ts)
  | None => common_parse_value v = PErr
  end.
Proof. intros Hw Hm. rewrite (common_value_ans v Hw Hm). destruct (canon_texts v); reflexivity. Qed.

(* ================================================================== *)
(* parser.ParseIntegerNumber (f2i = true) on one scalar                *)
(* ================================================================== *)

Definition u64id (z : Z) : pid := PNum (wrap_u64 z).

Lemma wrap_u64_i64 z : wrap_u64 (wrap_i64 z) = wrap_u64 z.
Proof.
  unfold wrap_u64, wrap_i64. rewrite Zminus_mod_idemp_l. f_equal. lia.
Qed.
Lemma wrap_i64_id z : - two63 <= z < two63 -> wrap_i64 z = z.
Proof.
  intros H. unfold wrap_i64. rewrite Z.mod_small; [lia|]. unfold two63, two64 in *. lia.
Qed.

(* up to the final uint64 conversion the parser yields the denoted integer *)
Lemma intnum_mod e : wf_shape e -> float_ok e -> text_ok e ->
  match int_scalar e with
  | Some z => exists z', parse_integer_number true e = POk z' /\ wrap_u64 z' = wrap_u64 z
  | None => parse_integer_number true e = PErr
  end.
Proof.
  destruct e as [|k z|w f|s|s|b|ty n vs|n vs|ty vs|ty n]; cbn [wf_shape int_scalar]; intros Hw Hf Ht; try reflexivity.
  - destruct k; eexists; (split; [reflexivity|]); rewrite ?wrap_u64_i64; reflexivity.
  - destruct (float_text_exact w f Hf) as (_ & _ & H3). rewrite H3. exists (f_ip f). split; [|reflexivity].
    destruct w; unfold parse_integer_number; cbn -[float_to_i64]; rewrite H3; reflexivity.
  - cbn [text_ok] in Ht. unfold parse_integer_number; cbn -[parse_int_text parse_float_trunc].
    destruct (parse_int_text s) as [z|]; [eexists; split; reflexivity|].
    destruct (parse_float_trunc s) as [[z|]|]; [eexists; split; reflexivity|reflexivity|].
    destruct Ht as [Ht|Ht]; contradiction Ht; reflexivity.
  - cbn [text_ok] in Ht. unfold parse_integer_number; cbn -[parse_int_text parse_float_trunc].
    destruct (parse_int_text s) as [z|]; [eexists; split; reflexivity|].
    destruct (parse_float_trunc s) as [[z|]|]; [eexists; split; reflexivity|reflexivity|].
    destruct Ht as [Ht|Ht]; contradiction Ht; reflexivity.
  - destruct Hw as [Hw _]. destruct ty; try discriminate; reflexivity.
  - destruct ty; try contradiction; reflexivity.
  - destruct ty; try discriminate; reflexivity.
Qed.

(* with signed integers inside int64: exactly the denoted integer *)
Lemma intnum_raw e : wf_shape e -> float_ok e -> text_ok e -> int_fits e ->
  parse_integer_number true e = ans (int_scalar e).
Proof.
  intros Hw Hf Ht Hi. pose proof (intnum_mod e Hw Hf Ht) as H.
  destruct e as [|k z|w f|s|s|b|ty n vs|n vs|ty vs|ty n]; cbn [int_scalar] in *;
    try (rewrite H; reflexivity).
  - cbn [int_fits] in Hi. destruct k; try reflexivity; cbn [ikind_signed] in Hi;
      rewrite (wrap_i64_id z (Hi eq_refl)); reflexivity.
  - destruct (float_text_exact w f Hf) as (_ & _ & H3). rewrite H3.
    destruct w; unfold parse_integer_number; cbn -[float_to_i64]; rewrite H3; reflexivity.
  - destruct (parse_int_text s) eqn:E1.
    + unfold parse_integer_number; cbn -[parse_int_text parse_float_trunc]; rewrite E1; reflexivity.
    + destruct (parse_float_trunc s) as [[z|]|] eqn:E2; try (rewrite H; reflexivity).
      unfold parse_integer_number; cbn -[parse_int_text parse_float_trunc]; rewrite E1, E2; reflexivity.
  - destruct (parse_int_text s) eqn:E1.
    + unfold parse_integer_number; cbn -[parse_int_text parse_float_trunc]; rewrite E1; reflexivity.
    + destruct (parse_float_trunc s) as [[z|]|] eqn:E2; try (rewrite H; reflexivity).
      unfold parse_integer_number; cbn -[parse_int_text parse_float_trunc]; rewrite E1, E2; reflexivity.
Qed.

Lemma intnum_u e : wf_shape e -> float_ok e -> text_ok e ->
  pbind (parse_integer_number true e) (fun z => POk (u64id z)) = ans (option_map u64id (int_scalar e)).
Proof.
  intros Hw Hf Ht. pose proof (intnum_mod e Hw Hf Ht) as H.
  destruct (int_scalar e) as [z|].
  - destruct H as (z' & -> & E). cbn. unfold u64id. rewrite E. reflexivity.
  - rewrite H. reflexivity.
Qed.
Lemma intnum_u1 e : wf_shape e -> float_ok e -> text_ok e ->
  pbind (parse_integer_number true e) (fun z => POk [u64id z]) = ans (option_map (map u64id) (all_some [int_scalar e])).
Proof.
  intros Hw Hf Ht. pose proof (intnum_mod e Hw Hf Ht) as H. cbn [all_some].
  destruct (int_scalar e) as [z|].
  - destruct H as (z' & -> & E). cbn. unfold u64id. rewrite E. reflexivity.
  - rewrite H. reflexivity.
Qed.
Lemma intnum_list vs : Forall wf_shape vs -> Forall float_ok vs -> Forall text_ok vs ->
  pbind (pmap_list (parse_integer_number true) vs) (fun zs => POk (map u64id zs))
  = ans (option_map (map u64id) (all_some (map int_scalar vs))).
Proof.
  intros Hw Hf Ht. rewrite pmap_fuse. apply pmap_exact. intros x Hin.
  apply intnum_u; eapply Forall_In; eauto.
Qed.

(* ================================================================== *)
(* 2. NumberParser.ParseValue                                          *)
(* ================================================================== *)

Theorem number_value_ans v : wf_val v -> modelled_num v ->
  number_parse_value v = ans (option_map (map u64id) (ints_of v)).
Proof.
  intros [Hw Hwe] [[Hf Hfe] [Ht Hte]].
  destruct v as [|k z|w f|s|s|b|t n vs|n vs|t vs|t n]; try reflexivity.
  - etransitivity; [|exact (intnum_u1 _ Hw Hf Ht)]. destruct k; reflexivity.
  - etransitivity; [|exact (intnum_u1 _ Hw Hf Ht)]. destruct w; reflexivity.
  - exact (intnum_u1 _ Hw Hf Ht).
  - exact (intnum_u1 _ Hw Hf Ht).
  - cbn [elems] in *. pose proof (intnum_list vs Hwe Hfe Hte) as H.
    destruct Hw as [Hs _]. destruct t; try discriminate Hs; try exact H; reflexivity.
  - cbn [elems] in *. exact (intnum_list vs Hwe Hfe Hte).
  - cbn [wf_shape] in Hw. destruct t; try contradiction; reflexivity.
  - cbn [wf_shape] in Hw. destruct t; try discriminate; reflexivity.
Qed.

Theorem number_value_exact v : wf_val v -> modelled_num v ->
  match ints_of v with
  | Some zs => number_parse_value v = POk (map (fun z => PNum (wrap_u64 z)) zs)
  | None => number_parse_value v = PErr
  end.
Proof. intros Hw Hm. rewrite (number_value_ans v Hw Hm). destruct (ints_of v); reflexivity. Qed.

(* ================================================================== *)
(* 3. StrHashParser.ParseValue                                         *)
(* ================================================================== *)

Lemma str_elem_list vs :
  pmap_list (fun e => match e with VStr s => POk (PText s) | _ => PErr end) vs
  = ans (option_map (map PText) (all_some (map str_scalar vs))).
Proof. apply pmap_exact. intros x _. destruct x; reflexivity. Qed.
Lemma str_elem_slice vs : (forall e, In e vs -> elem_shape TSstring e) ->
  pmap_list (fun e => match e with VStr s => POk (PText s) | _ => PUnmodelled end) vs
  = ans (option_map (map PText) (all_some (map str_scalar vs))).
Proof.
  intros He. apply pmap_exact. intros x Hin. destruct (He x Hin) as [k z E|w f E|s E|s E|b E]; try discriminate; try reflexivity.
  - destruct k; discriminate.
  - destruct w; discriminate.
Qed.

Theorem strhash_value_ans v : wf_val v ->
  strhash_parse_value v = ans (option_map (map PText) (strings_of v)).
Proof.
  intros Hwf.
  destruct v as [|k z|w f|s|s|b|t n vs|n vs|t vs|t n]; try reflexivity.
  - destruct k; reflexivity.
  - destruct w; reflexivity.
  - destruct (slice_elems _ _ _ Hwf) as [Ht He].
    destruct t; try discriminate Ht; try reflexivity. exact (str_elem_slice vs He).
  - exact (str_elem_list vs).
  - destruct Hwf as [Hw _]. cbn [wf_shape] in Hw. destruct t; try contradiction; reflexivity.
  - destruct Hwf as [Hw _]. cbn [wf_shape] in Hw. destruct t; try discriminate; reflexivity.
Qed.

Theorem strhash_value_exact v : wf_val v ->
  match strings_of v with
  | Some ss => strhash_parse_value v = POk (map PText ss)
  | None => strhash_parse_value v = PErr
  end.
Proof. intros Hw. rewrite (strhash_value_ans v Hw). destruct (strings_of v); reflexivity. Qed.

(* ================================================================== *)
(* 4. NumberRangeParser.ParseValue                                     *)
(* ================================================================== *)

Definition nr_one (s : text) : pres (list pid) :=
  match range_desc s with
  | None => PErr
  | Some d => pbind (expand_desc d) (fun zs => POk (map (fun z => PNum (wrap_u64 z)) zs))
  end.

Lemma nr_one_exact s : nr_one s = ans (option_map (map u64id) (desc_values s)).
Proof.
  unfold nr_one, desc_values. destruct (range_desc s) as [[[st e] sp]|] eqn:E; [|reflexivity].
  apply range_desc_step_pos in E. destruct (Z.ltb_spec sp 1); [lia|].
  unfold expand_desc. destruct (e <? st); [reflexivity|].
  destruct (Z.leb_spec sp 0); [lia|reflexivity].
Qed.

Definition obind' {A B} (o : option A) (f : A -> option B) : option B := match o with Some a => f a | None => None end.

Lemma all_some_bind {A B C} (g1 : A -> option B) (g2 : B -> option C) l :
  obind' (all_some (map g1 l)) (fun ss => all_some (map g2 ss)) = all_some (map (fun x => obind' (g1 x) g2) l).
Proof.
  induction l as [|x l IH]; cbn [map all_some obind']; [reflexivity|].
  destruct (g1 x) as [b|]; cbn [obind']; [|reflexivity].
  rewrite <- IH. destruct (all_some (map g1 l)) as [ss|]; cbn [option_map obind' map all_some]; [reflexivity|].
  destruct (g2 b); reflexivity.
Qed.

Lemma descs_of_list (vs : list gval) :
  option_map (map u64id) (obind' (all_some (map str_scalar vs)) (fun ss => option_map (@concat Z) (all_some (map desc_values ss))))
  = option_map (fun ls => concat (map (map u64id) ls)) (all_some (map (fun x => obind' (str_scalar x) desc_values) vs)).
Proof.
  rewrite <- all_some_bind. destruct (all_some (map str_scalar vs)) as [ss|]; cbn [obind' option_map]; [|reflexivity].
  destruct (all_some (map desc_values ss)) as [zss|]; cbn [option_map]; [|reflexivity].
  rewrite concat_map. reflexivity.
Qed.

Lemma nr_list (f : gval -> pres (list pid)) vs :
  (forall x, In x vs -> f x = ans (option_map (map u64id) (obind' (str_scalar x) desc_values))) ->
  pbind (pmap_list f vs) (fun ls => POk (concat ls))
  = ans (option_map (map u64id) (obind' (all_some (map str_scalar vs)) (fun ss => option_map (@concat Z) (all_some (map desc_values ss))))).
Proof.
  intros Hf. rewrite descs_of_list.
  rewrite (pmap_exact f (fun x => obind' (str_scalar x) desc_values) (map u64id) vs Hf).
  destruct (all_some (map (fun x => obind' (str_scalar x) desc_values) vs)); reflexivity.
Qed.

Theorem numrange_value_ans v : wf_val v ->
  numrange_parse_value v = ans (option_map (map u64id) (descs_of v)).
Proof.
  intros Hwf.
  destruct v as [|k z|w f|s|s|b|t n vs|n vs|t vs|t n]; try reflexivity.
  - destruct k; reflexivity.
  - destruct w; reflexivity.
  - change (numrange_parse_value (VStr s)) with (nr_one s). rewrite nr_one_exact.
    unfold descs_of. cbn [strings_of map all_some]. destruct (desc_values s) as [zs|]; cbn; [|reflexivity].
    rewrite app_nil_r. reflexivity.
  - destruct (slice_elems _ _ _ Hwf) as [Ht He].
    destruct t; try discriminate Ht; try reflexivity.
    change (numrange_parse_value (VSlice TSstring n vs)) with
      (pbind (pmap_list (fun e => match e with VStr s => nr_one s | _ => PUnmodelled end) vs) (fun ls => POk (concat ls))).
    apply nr_list. intros x Hin.
    destruct (He x Hin) as [k z E|w f E|s E|s E|b E]; try discriminate.
    + destruct k; discriminate.
    + destruct w; discriminate.
    + apply nr_one_exact.
  - change (numrange_parse_value (VList n vs)) with
      (pbind (pmap_list (fun e => match e with VStr s => nr_one s | _ => PErr end) vs) (fun ls => POk (concat ls))).
    apply nr_list. intros x _. destruct x; try reflexivity. apply nr_one_exact.
  - destruct Hwf as [Hw _]. cbn [wf_shape] in Hw. destruct t; try contradiction; reflexivity.
  - destruct Hwf as [Hw _]. cbn [wf_shape] in Hw. destruct t; try discriminate; reflexivity.
Qed.

Theorem numrange_value_exact v : wf_val v ->
  match descs_of v with
  | Some zs => numrange_parse_value v = POk (map (fun z => PNum (wrap_u64 z)) zs)
  | None => numrange_parse_value v = PErr
  end.
Proof. intros Hw. rewrite (numrange_value_ans v Hw). destruct (descs_of v); reflexivity. Qed.

(* ================================================================== *)
(* 5. ParseAssign (query side)                                         *)
(* ================================================================== *)

(* util.NilInterface decides exactly the nil-like shapes: the nil interface, typed nil slices / lists,
   nil maps / pointers / channels / other slices.  A nil func is not nil-like. *)
Theorem nil_interface_exact v : wf_shape v -> nil_interface v = POk (nil_like v).
Proof.
  destruct v as [|k z|w f|s|s|b|t n vs|n vs|t vs|t n]; cbn [wf_shape]; intros Hw; try reflexivity.
  - destruct k; reflexivity.
  - destruct w; reflexivity.
  - destruct Hw as [Hw _]. destruct t; try discriminate; destruct n; reflexivity.
  - destruct n; reflexivity.
  - destruct t; try contradiction; reflexivity.
  - destruct t; try discriminate; destruct n; reflexivity.
Qed.

Lemma nil_func_not_nil_like : nil_like (VOther Tfunc true) = false /\ nil_interface (VOther Tfunc true) = POk false.
Proof. split; reflexivity. Qed.

(* -- number / string-hash: nil check, then the value-side parser -- *)
Theorem number_assign_ans v : wf_val v -> modelled_num v ->
  number_parse_assign v = ans (if nil_like v then Some [] else option_map (map u64id) (ints_of v)).
Proof.
  intros Hw Hm. unfold number_parse_assign. rewrite (nil_interface_exact v (proj1 Hw)). cbn [pbind].
  destruct (nil_like v); [reflexivity|]. apply number_value_ans; assumption.
Qed.
Theorem strhash_assign_ans v : wf_val v ->
  strhash_parse_assign v = ans (if nil_like v then Some [] else option_map (map PText) (strings_of v)).
Proof.
  intros Hw. unfold strhash_parse_assign. rewrite (nil_interface_exact v (proj1 Hw)). cbn [pbind].
  destruct (nil_like v); [reflexivity|]. apply strhash_value_ans; assumption.
Qed.

(* -- common: a []interface{} SKIPS unsupported elements instead of rejecting -- *)
Definition somes {A} (l : list (option A)) : list A :=
  flat_map (fun o => match o with Some i => [i] | None => [] end) l.
Lemma somes_all_some {A} (l : list (option A)) xs : all_some l = Some xs -> somes l = xs.
Proof.
  revert xs. induction l as [|[a|] l IH]; cbn [all_some somes flat_map]; intros xs H.
  - inversion H; reflexivity.
  - destruct (all_some l) as [ys|]; [|discriminate]. inversion H; subst. cbn. f_equal. apply IH. reflexivity.
  - discriminate.
Qed.

Definition common_assign_spec (v : gval) : option (list text) :=
  if nil_like v then Some [] else
  match v with
  | VList _ vs => Some (somes (map canon_scalar vs))     (* supported elements only *)
  | _ => canon_texts v
  end.

Lemma find_exact e : wf_shape e -> float_ok e ->
  common_find_iface e = POk (option_map PText (canon_scalar e)).
Proof.
  destruct e as [|k z|w f|s|s|b|ty n vs|n vs|ty vs|ty n]; cbn [wf_shape]; intros Hw Hf; try reflexivity.
  - destruct k; reflexivity.
  - destruct (float_text_exact w f Hf) as (H1 & H2 & _). rewrite H2.
    destruct w; unfold common_find_iface; cbn -[float_u64_text]; rewrite H1; reflexivity.
  - destruct Hw as [Hw _]. destruct ty; try discriminate; reflexivity.
  - destruct ty; try contradiction; reflexivity.
  - destruct ty; try discriminate; reflexivity.
Qed.
Lemma pmap_total {A B} (f : A -> pres B) (g : A -> B) l :
  (forall x, In x l -> f x = POk (g x)) -> pmap_list f l = POk (map g l).
Proof.
  induction l as [|x l IH]; intros H; cbn [pmap_list map]; [reflexivity|].
  rewrite H by (left; reflexivity). cbn [pbind]. rewrite IH by (intros; apply H; right; assumption). reflexivity.
Qed.
Lemma somes_map_text (os : list (option text)) :
  somes (map (option_map PText) os) = map PText (somes os).
Proof. unfold somes. induction os as [|[t|] os IH]; cbn; [reflexivity| |]; rewrite IH; reflexivity. Qed.

Theorem common_assign_ans v : wf_val v -> modelled v ->
  common_parse_assign v = ans (option_map (map PText) (common_assign_spec v)).
Proof.
  intros Hwf Hm. unfold common_parse_assign, common_assign_spec.
  rewrite (nil_interface_exact v (proj1 Hwf)). cbn [pbind].
  destruct (nil_like v) eqn:En; [reflexivity|].
  destruct v as [|k z|w f|s|s|b|t n vs|n vs|t vs|t n]; try reflexivity.
  - destruct k; reflexivity.
  - destruct Hm as [Hf _]. destruct (float_text_exact w f Hf) as (H1 & H2 & _).
    unfold canon_texts. cbn [scalars_of map all_some]. rewrite H2.
    destruct w; cbn -[float_u64_text]; rewrite H1; reflexivity.
  - destruct (slice_elems _ _ _ Hwf) as [Ht He]. destruct Hm as [_ Hm]. cbn [elems] in Hm.
    assert (Hint : int_like_slice t = true ->
              pmap_list (fun e => match scalar_text e with Some s => POk (PText s) | None => PUnmodelled end) vs
              = ans (option_map (map PText) (all_some (map canon_scalar vs)))).
    { intros Hi. apply pmap_exact. intros x Hin. eapply text_elem_exact; eauto. }
    assert (Hfl : float_slice t = true ->
              pmap_list (fun e => pbind (float_u64_text e) (fun s => POk (PText s))) vs
              = ans (option_map (map PText) (all_some (map canon_scalar vs)))).
    { intros Hi. apply pmap_exact. intros x Hin. eapply float_elem_exact; eauto. eapply Forall_In; eauto. }
    destruct t; try discriminate Ht; try (exact (Hint eq_refl)); try (exact (Hfl eq_refl)); reflexivity.
  - destruct Hwf as [_ Hw]. destruct Hm as [_ Hm]. cbn [elems] in *.
    change (pbind (pmap_list common_find_iface vs) (fun os => POk (somes os))
            = POk (map PText (somes (map canon_scalar vs)))).
    rewrite (pmap_total common_find_iface (fun e => option_map PText (canon_scalar e))).
    + cbn [pbind]. rewrite <- somes_map_text, map_map. reflexivity.
    + intros x Hin. apply find_exact; eapply Forall_In; eauto.
  - destruct Hwf as [Hw _]. cbn [wf_shape] in Hw. destruct t; try contradiction; reflexivity.
  - destruct Hwf as [Hw _]. cbn [wf_shape] in Hw. destruct t; try discriminate; destruct n; try discriminate; reflexivity.
Qed.

(* -- number range: only scalars are accepted -- *)
Definition numrange_assign_spec (v : gval) : option (list Z) :=
  if nil_like v then Some [] else
  match v with VSlice _ _ _ | VList _ _ | VStr _ => None | _ => ints_of v end.

Lemma intnum_list_ok_err vs : Forall wf_shape vs -> Forall float_ok vs -> Forall text_ok vs ->
  pbind (pmap_list (parse_integer_number true) vs) (fun _ => @PErr (list pid)) = PErr.
Proof.
  intros Hw Hf Ht. pose proof (intnum_list vs Hw Hf Ht) as H.
  destruct (pmap_list (parse_integer_number true) vs); cbn [pbind] in *; try reflexivity;
    destruct (all_some (map int_scalar vs)); discriminate H.
Qed.

Theorem numrange_assign_ans v : wf_val v -> modelled_num v ->
  numrange_parse_assign v = ans (option_map (map u64id) (numrange_assign_spec v)).
Proof.
  intros [Hw Hwe] [[Hf Hfe] [Ht Hte]]. unfold numrange_parse_assign, numrange_assign_spec.
  rewrite (nil_interface_exact v Hw). cbn [pbind].
  destruct (nil_like v) eqn:En; [reflexivity|].
  destruct v as [|k z|w f|s|s|b|t n vs|n vs|t vs|t n]; try reflexivity.
  - etransitivity; [|exact (intnum_u1 _ Hw Hf Ht)]. destruct k; reflexivity.
  - etransitivity; [|exact (intnum_u1 _ Hw Hf Ht)]. destruct w; reflexivity.
  - exact (intnum_u1 _ Hw Hf Ht).
  - cbn [elems] in *. pose proof (intnum_list_ok_err vs Hwe Hfe Hte) as H.
    destruct Hw as [Hs _]. destruct t; try discriminate Hs; exact H.
  - cbn [elems] in *. exact (intnum_list_ok_err vs Hwe Hfe Hte).
  - cbn [wf_shape] in Hw. destruct t; try contradiction; reflexivity.
  - cbn [wf_shape] in Hw. destruct t; try discriminate; destruct n; try discriminate; reflexivity.
Qed.

(* -- the query side in the requested form -- *)
Theorem assign_nil_like p v : wf_val v -> nil_like v = true -> parse_assign p v = POk [].
Proof.
  intros Hw Hn. pose proof (nil_interface_exact v (proj1 Hw)) as H. rewrite Hn in H.
  destruct p; cbn [parse_assign];
    unfold common_parse_assign, number_parse_assign, strhash_parse_assign, numrange_parse_assign; rewrite H; reflexivity.
Qed.

Theorem common_assign_exact v : wf_val v -> modelled v -> nil_like v = false ->
  (forall ts, canon_texts v = Some ts -> common_parse_assign v = POk (map PText ts)) /\
  (canon_texts v = None -> (forall n vs, v <> VList n vs) -> common_parse_assign v = PErr) /\
  (forall n vs, v = VList n vs -> common_parse_assign v = POk (map PText (somes (map canon_scalar vs)))).
Proof.
  intros Hw Hm Hn. pose proof (common_assign_ans v Hw Hm) as H. unfold common_assign_spec in H. rewrite Hn in H.
  split; [|split].
  - intros ts Hc. rewrite H. destruct v; try (rewrite Hc; reflexivity).
    unfold canon_texts in Hc. cbn [scalars_of] in Hc. rewrite (somes_all_some _ _ Hc). reflexivity.
  - intros Hc Hl. rewrite H. destruct v; try (rewrite Hc; reflexivity). exfalso. eapply Hl; reflexivity.
  - intros n vs ->. rewrite H. reflexivity.
Qed.

Theorem number_assign_exact v : wf_val v -> modelled_num v -> nil_like v = false ->
  match ints_of v with
  | Some zs => number_parse_assign v = POk (map (fun z => PNum (wrap_u64 z)) zs)
  | None => number_parse_assign v = PErr
  end.
Proof. intros Hw Hm Hn. rewrite (number_assign_ans v Hw Hm), Hn. destruct (ints_of v); reflexivity. Qed.

Theorem strhash_assign_exact v : wf_val v -> nil_like v = false ->
  match strings_of v with
  | Some ss => strhash_parse_assign v = POk (map PText ss)
  | None => strhash_parse_assign v = PErr
  end.
Proof. intros Hw Hn. rewrite (strhash_assign_ans v Hw), Hn. destruct (strings_of v); reflexivity. Qed.

Theorem numrange_assign_exact v : wf_val v -> modelled_num v -> nil_like v = false ->
  match (match v with VSlice _ _ _ | VList _ _ | VStr _ => None | _ => ints_of v end) with
  | Some zs => numrange_parse_assign v = POk (map (fun z => PNum (wrap_u64 z)) zs)
  | None => numrange_parse_assign v = PErr
  end.
Proof.
  intros Hw Hm Hn. rewrite (numrange_assign_ans v Hw Hm). unfold numrange_assign_spec. rewrite Hn.
  destruct (match v with VSlice _ _ _ | VList _ _ | VStr _ => None | _ => ints_of v end); reflexivity.
Qed.

(* ================================================================== *)
(* The four parsers behind Spec.expr_sem / Spec.assign_sem (default container) *)
(* ================================================================== *)

Definition esem_ids (s : esem) : list pid :=
  match s with ETexts ts => map PText ts | ENums zs => map u64id zs | _ => [] end.
Definition qsem_ids (q : qsem) : list pid :=
  match q with QTexts ts => map PText ts | QNums zs => map u64id zs | QText _ => [] end.

Theorem parse_value_expr_sem fd e : fd_cont fd = CDefault -> e_op e = OpEQ ->
  wf_val (e_val e) -> modelled_num (e_val e) ->
  parse_value (fd_parser fd) (e_val e) = ans (option_map esem_ids (expr_sem fd e)).
Proof.
  intros Hc Ho Hw Hm. unfold expr_sem. rewrite Hc, Ho.
  destruct (fd_parser fd); cbn [parse_value].
  - rewrite (common_value_ans _ Hw (proj1 Hm)). destruct (canon_texts (e_val e)); reflexivity.
  - rewrite (number_value_ans _ Hw Hm). destruct (ints_of (e_val e)); reflexivity.
  - rewrite (strhash_value_ans _ Hw). destruct (strings_of (e_val e)); reflexivity.
  - rewrite (numrange_value_ans _ Hw). destruct (descs_of (e_val e)); reflexivity.
Qed.

(* sound for every parser; complete (None -> PErr) for every parser except the common parser on a
   non-nil []interface{} (which skips unsupported elements, see common_assign_exact) *)
Theorem parse_assign_assign_sem fd v : fd_cont fd = CDefault -> wf_val v -> modelled_num v ->
  match assign_sem fd v with
  | Some q => parse_assign (fd_parser fd) v = POk (qsem_ids q)
  | None => (fd_parser fd = PCommon -> forall n vs, v <> VList n vs) -> parse_assign (fd_parser fd) v = PErr
  end.
Proof.
  intros Hc Hw Hm. unfold assign_sem. rewrite Hc.
  destruct (nil_like v) eqn:En.
  - rewrite (assign_nil_like _ v Hw En). destruct (fd_parser fd); reflexivity.
  - destruct (fd_parser fd); cbn [parse_assign].
    + destruct (common_assign_exact v Hw (proj1 Hm) En) as (H1 & H2 & _).
      destruct (canon_texts v) as [ts|]; cbn [option_map].
      * apply H1; reflexivity.
      * intros Hl. apply H2; auto.
    + pose proof (number_assign_exact v Hw Hm En) as H. destruct (ints_of v); cbn [option_map]; auto.
    + pose proof (strhash_assign_exact v Hw En) as H. destruct (strings_of v); cbn [option_map]; auto.
    + pose proof (numrange_assign_exact v Hw Hm En) as H.
      destruct v; cbn [option_map] in *; auto; destruct (ints_of _); cbn [option_map]; auto.
Qed.

(* ================================================================== *)
(* 6. Range container helpers: ParseIntergers / ParseIntegerNumber     *)
(* ================================================================== *)

Theorem parse_integer_number_exact v : wf_shape v -> float_ok v -> text_ok v -> int_fits v ->
  match int_scalar v with
  | Some z => parse_integer_number true v = POk z
  | None => parse_integer_number true v = PErr
  end.
Proof. intros Hw Hf Ht Hi. rewrite (intnum_raw v Hw Hf Ht Hi). destruct (int_scalar v); reflexivity. Qed.

Lemma intnum_raw_list vs : Forall wf_shape vs -> Forall float_ok vs -> Forall text_ok vs -> Forall int_fits vs ->
  pmap_list (parse_integer_number true) vs = ans (all_some (map int_scalar vs)).
Proof.
  intros Hw Hf Ht Hi.
  rewrite (pmap_exact (parse_integer_number true) int_scalar (fun z => z) vs).
  - destruct (all_some (map int_scalar vs)); cbn; [rewrite map_id|]; reflexivity.
  - intros x Hin. rewrite intnum_raw by (eapply Forall_In; eauto). destruct (int_scalar x); reflexivity.
Qed.

Theorem parse_integers_ans v : wf_val v -> modelled_num v -> ints_fit v ->
  parse_integers true v = ans (if nil_like v then Some [] else ints_of v).
Proof.
  intros [Hw Hwe] [[Hf Hfe] [Ht Hte]] [Hi Hie]. unfold parse_integers.
  rewrite (nil_interface_exact v Hw). cbn [pbind].
  destruct (nil_like v) eqn:En; [reflexivity|].
  assert (H1 : pbind (parse_integer_number true v) (fun z => POk [z]) = ans (all_some [int_scalar v])).
  { rewrite (intnum_raw v Hw Hf Ht Hi). cbn [all_some]. destruct (int_scalar v); reflexivity. }
  destruct v as [|k z|w f|s|s|b|t n vs|n vs|t vs|t n]; try reflexivity.
  - etransitivity; [|exact H1]. destruct k; reflexivity.
  - etransitivity; [|exact H1]. destruct w; reflexivity.
  - exact H1.
  - exact H1.
  - cbn [elems] in *. pose proof (intnum_raw_list vs Hwe Hfe Hte Hie) as H.
    destruct Hw as [Hs _]. destruct t; try discriminate Hs; try exact H; reflexivity.
  - cbn [elems] in *. exact (intnum_raw_list vs Hwe Hfe Hte Hie).
  - cbn [wf_shape] in Hw. destruct t; try contradiction; reflexivity.
  - cbn [wf_shape] in Hw. destruct t; try discriminate; destruct n; try discriminate; reflexivity.
Qed.

Theorem parse_integers_exact v : wf_val v -> modelled_num v -> ints_fit v ->
  match (if nil_like v then Some [] else ints_of v) with
  | Some zs => parse_integers true v = POk zs
  | None => parse_integers true v = PErr
  end.
Proof.
  intros Hw Hm Hi. rewrite (parse_integers_ans v Hw Hm Hi).
  destruct (if nil_like v then Some [] else ints_of v); reflexivity.
Qed.

(* ================================================================== *)
(* 7. Range container: ParseRange against Spec.expr_sem                *)
(* ================================================================== *)

Definition two62 : Z := 4611686018427387904.
Definition small (z : Z) : Prop := Z.abs z <= two62.
Definition small_scalar (e : gval) : Prop := match int_scalar e with Some z => small z | None => True end.
(* every bound the expression mentions has magnitude <= 2^62 (no int64 wrap in n+1 / r+1) *)
Definition small_bounds (v : gval) : Prop :=
  small_scalar v /\ Forall small_scalar (elems v) /\
  match v with
  | VStr s => match range_desc s with Some (l, h, _) => small l /\ small h | None => True end
  | _ => True
  end.

(* the half-open interval [l, r) an operator denotes, read off Spec.expr_sem *)
Definition ord_pair (l h : Z) : option (Z * Z) :=
  if l <? h then Some (l, h) else if l =? h then Some (l, h + 1) else None.
Definition between_spec (v : gval) : option (Z * Z) :=
  match v with
  | VArr TA2int64 [VInt _ l; VInt _ h] | VSlice TSint64 _ [VInt _ l; VInt _ h] => ord_pair l h
  | VStr s => match range_desc s with Some (l, h, _) => ord_pair l h | None => None end
  | VList _ [a; b] => match int_scalar a, int_scalar b with
                      | Some l, Some h => ord_pair l h
                      | _, _ => None end
  | _ => None
  end.
Definition range_spec (op : vop) (v : gval) : option (Z * Z) :=
  match op with
  | OpGT => option_map (fun a => (a + 1, two63)) (int_scalar v)
  | OpLT => option_map (fun b => (- two63, b)) (int_scalar v)
  | OpBetween => between_spec v
  | _ => None
  end.

Lemma ord_pair_sem l h :
  (if l <? h then Some (ERange l h) else if l =? h then Some (ERange l (h + 1)) else None)
  = option_map (fun lr => ERange (fst lr) (snd lr)) (ord_pair l h).
Proof. unfold ord_pair. destruct (l <? h); [reflexivity|]. destruct (l =? h); reflexivity. Qed.

(* range_spec is exactly Spec.expr_sem on a range-container field *)
Lemma expr_sem_range fd e : fd_cont fd = CRange -> e_op e <> OpEQ ->
  expr_sem fd e = option_map (fun lr => ERange (fst lr) (snd lr)) (range_spec (e_op e) (e_val e)).
Proof.
  intros Hc Ho. unfold expr_sem, range_spec. rewrite Hc.
  destruct e as [incl op v]. cbn [e_op e_val] in *.
  destruct op; try congruence; try reflexivity.
  - (* > *)
    destruct v as [|k z|w f|s|s|b|t n vs|n vs|t vs|t n]; cbn [scalars_of]; try reflexivity;
      try (match goal with |- context [int_scalar ?x] => destruct (int_scalar x) end; reflexivity).
    + destruct t; try reflexivity; destruct vs as [|a [|b' vs]]; reflexivity.
    + destruct vs as [|a [|b' vs]]; reflexivity.
  - (* < *)
    destruct v as [|k z|w f|s|s|b|t n vs|n vs|t vs|t n]; cbn [scalars_of]; try reflexivity;
      try (match goal with |- context [int_scalar ?x] => destruct (int_scalar x) end; reflexivity).
    + destruct t; try reflexivity; destruct vs as [|a [|b' vs]]; reflexivity.
    + destruct vs as [|a [|b' vs]]; reflexivity.
  - (* between *)
    unfold between_spec.
    destruct v as [|k z|w f|s|s|b|t n vs|n vs|t vs|t n]; try reflexivity.
    + destruct (range_desc s) as [[[l h] sp]|]; [apply ord_pair_sem|reflexivity].
    + destruct t; try reflexivity.
      destruct vs as [|a [|b' [|c vs]]]; try reflexivity; destruct a; try reflexivity; destruct b'; try reflexivity.
      apply ord_pair_sem.
    + destruct vs as [|a [|b' [|c vs]]]; try reflexivity.
      destruct (int_scalar a); [|reflexivity]. destruct (int_scalar b'); [|reflexivity]. apply ord_pair_sem.
    + destruct t; try reflexivity.
      destruct vs as [|a [|b' [|c vs]]]; try reflexivity; destruct a; try reflexivity; destruct b'; try reflexivity.
      apply ord_pair_sem.
Qed.

(* what ParseRange returns for [l, r): for `>` the right end is MaxInt64 where the specification says 2^63 *)
Definition range_repr (op : vop) (lr : Z * Z) : Z * Z :=
  match op with OpGT => (fst lr, snd lr - 1) | _ => lr end.

Lemma small_range z : small z -> - two63 <= z - 1 /\ z + 1 < two63 - 1.
Proof. unfold small, two62, two63. lia. Qed.

Lemma fin_exact l r : small r ->
  (if r <? l then PErr else POk (new_range l r)) = ans (ord_pair l r).
Proof.
  intros Hs. apply small_range in Hs. unfold ord_pair, new_range.
  destruct (Z.ltb_spec r l), (Z.ltb_spec l r), (Z.eqb_spec l r); try lia; try reflexivity.
  cbn [ans]. rewrite wrap_i64_id by lia. reflexivity.
Qed.

Lemma small_of_scalar e z : small_scalar e -> int_scalar e = Some z -> small z.
Proof. unfold small_scalar. intros H E. rewrite E in H. exact H. Qed.
Lemma small_int64 k z : ikind_signed k = true -> int_fits (VInt k z) -> small_scalar (VInt k z) -> small z.
Proof.
  intros Hk Hi Hs. cbn [int_fits] in Hi. unfold small_scalar in Hs. cbn [int_scalar] in Hs.
  rewrite wrap_i64_id in Hs by auto. exact Hs.
Qed.

Theorem parse_range_ans op v : op <> OpEQ ->
  wf_val v -> modelled_num v -> ints_fit v -> small_bounds v ->
  parse_range op true v = ans (option_map (range_repr op) (range_spec op v)).
Proof.
  intros Ho [Hw Hwe] [[Hf Hfe] [Ht Hte]] [Hi Hie] (Hs & Hse & Hsd).
  destruct op; try congruence; try reflexivity.
  - (* > *)
    unfold parse_range, range_spec. rewrite (intnum_raw v Hw Hf Ht Hi).
    destruct (int_scalar v) as [a|] eqn:E; [|reflexivity]. cbn [ans pbind option_map range_repr fst snd].
    pose proof (small_range a (small_of_scalar v a Hs E)) as Ha.
    unfold new_range, max_i64. rewrite wrap_i64_id by lia.
    destruct (Z.eqb_spec (a + 1) (two63 - 1)); [lia|reflexivity].
  - (* < *)
    unfold parse_range, range_spec. rewrite (intnum_raw v Hw Hf Ht Hi).
    destruct (int_scalar v) as [a|] eqn:E; [|reflexivity]. cbn [ans pbind option_map range_repr].
    pose proof (small_range a (small_of_scalar v a Hs E)) as Ha.
    unfold new_range, min_i64. destruct (Z.eqb_spec (- two63) a); [lia|reflexivity].
  - (* between *)
    unfold parse_range, range_spec.
    replace (option_map (range_repr OpBetween) (between_spec v)) with (between_spec v)
      by (destruct (between_spec v) as [[? ?]|]; reflexivity).
    destruct v as [|k z|w f|s|s|b|t n vs|n vs|t vs|t n]; try reflexivity.
    + destruct k; reflexivity.
    + destruct w; reflexivity.
    + (* "l:h" *)
      change (parse_between (VStr s)) with
        (match range_desc s with Some (st, e, _) => if e <? st then PErr else POk (new_range st e) | None => PErr end).
      cbn [between_spec]. destruct (range_desc s) as [[[l h] sp]|]; [|reflexivity].
      apply fin_exact. tauto.
    + (* typed slice *)
      destruct Hw as [Hst Hty]. cbn [elems] in *.
      destruct t; try discriminate Hst; try reflexivity.
      destruct vs as [|a [|b' [|c vs]]]; try reflexivity.
      * destruct a; reflexivity.
      * pose proof (elem_cases a _ (Forall_In _ _ _ Hwe (or_introl eq_refl)) (Forall_In _ _ _ Hty (or_introl eq_refl))) as Ea.
        pose proof (elem_cases b' _ (Forall_In _ _ _ Hwe (or_intror (or_introl eq_refl))) (Forall_In _ _ _ Hty (or_intror (or_introl eq_refl)))) as Eb.
        destruct Ea as [ka za Eka|? ? Eka|? Eka|? Eka|? Eka]; try discriminate Eka; [|destruct w; discriminate Eka].
        destruct Eb as [kb zb Ekb|? ? Ekb|? Ekb|? Ekb|? Ekb]; try discriminate Ekb; [|destruct w; discriminate Ekb].
        destruct ka; try discriminate Eka. destruct kb; try discriminate Ekb.
        change (parse_between (VSlice TSint64 n [VInt KI64 za; VInt KI64 zb])) with
          (if zb <? za then PErr else POk (new_range za zb)).
        cbn [between_spec]. apply fin_exact.
        apply (small_int64 KI64 zb eq_refl).
        -- exact (Forall_In _ _ _ Hie (or_intror (or_introl eq_refl))).
        -- exact (Forall_In _ _ _ Hse (or_intror (or_introl eq_refl))).
      * destruct a; try reflexivity; destruct b'; reflexivity.
    + (* []interface{} pair *)
      cbn [elems] in *.
      destruct vs as [|a [|b' [|c vs]]]; try reflexivity.
      change (parse_between (VList n [a; b'])) with
        (pbind (parse_integer_number true a) (fun l => pbind (parse_integer_number true b') (fun r =>
           if r <? l then PErr else POk (new_range l r)))).
      cbn [between_spec].
      rewrite (intnum_raw a) by (eapply Forall_In; eauto; left; reflexivity).
      rewrite (intnum_raw b') by (eapply Forall_In; eauto; right; left; reflexivity).
      destruct (int_scalar a) as [l|]; [|reflexivity].
      destruct (int_scalar b') as [h|] eqn:Eb; [|reflexivity]. cbn [ans pbind].
      apply fin_exact. eapply small_of_scalar; [|exact Eb].
      exact (Forall_In _ _ _ Hse (or_intror (or_introl eq_refl))).
    + (* arrays *)
      cbn [wf_shape] in Hw. destruct t; try contradiction; [|reflexivity].
      destruct Hw as (l & r & ->). cbn [elems] in *.
      change (parse_between (VArr TA2int64 [VInt KI64 l; VInt KI64 r])) with
        (if r <? l then PErr else POk (new_range l r)).
      cbn [between_spec]. apply fin_exact.
      apply (small_int64 KI64 r eq_refl).
      * exact (Forall_In _ _ _ Hie (or_intror (or_introl eq_refl))).
      * exact (Forall_In _ _ _ Hse (or_intror (or_introl eq_refl))).
    + cbn [wf_shape] in Hw. destruct t; try discriminate; reflexivity.
Qed.

(* the requested iff forms.  For `>` ParseRange's right end r is MaxInt64 where the specification's
   exclusive right end is 2^63 = r + 1; for `<` and `between` the ends coincide. *)
Theorem parse_range_ok_iff fd e l r : fd_cont fd = CRange -> e_op e <> OpEQ ->
  wf_val (e_val e) -> modelled_num (e_val e) -> ints_fit (e_val e) -> small_bounds (e_val e) ->
  (parse_range (e_op e) true (e_val e) = POk (l, r) <->
   expr_sem fd e = Some (ERange l (match e_op e with OpGT => r + 1 | _ => r end))).
Proof.
  intros Hc Ho Hw Hm Hi Hs. rewrite (parse_range_ans _ _ Ho Hw Hm Hi Hs), (expr_sem_range fd e Hc Ho).
  destruct (range_spec (e_op e) (e_val e)) as [[l0 r0]|]; cbn [option_map ans fst snd].
  - destruct (e_op e); cbn [range_repr fst snd]; split; intros H; inversion H; subst; try reflexivity;
      repeat f_equal; lia.
  - split; discriminate.
Qed.
Theorem parse_range_err_iff fd e : fd_cont fd = CRange -> e_op e <> OpEQ ->
  wf_val (e_val e) -> modelled_num (e_val e) -> ints_fit (e_val e) -> small_bounds (e_val e) ->
  (parse_range (e_op e) true (e_val e) = PErr <-> expr_sem fd e = None).
Proof.
  intros Hc Ho Hw Hm Hi Hs. rewrite (parse_range_ans _ _ Ho Hw Hm Hi Hs), (expr_sem_range fd e Hc Ho).
  destruct (range_spec (e_op e) (e_val e)) as [[l0 r0]|]; cbn [option_map ans]; split; try discriminate; reflexivity.
Qed.
(* so ParseRange never answers anything but POk / PErr here *)
Corollary parse_range_ok_or_err op v : op <> OpEQ ->
  wf_val v -> modelled_num v -> ints_fit v -> small_bounds v ->
  (exists lr, parse_range op true v = POk lr) \/ parse_range op true v = PErr.
Proof.
  intros Ho Hw Hm Hi Hs. rewrite (parse_range_ans _ _ Ho Hw Hm Hi Hs).
  destruct (option_map (range_repr op) (range_spec op v)); [left; eexists; reflexivity|right; reflexivity].
Qed.

(* `in` on a range container / the assigned value of a range container field *)
Theorem range_eq_expr_sem fd e : fd_cont fd = CRange -> e_op e = OpEQ ->
  wf_val (e_val e) -> modelled_num (e_val e) -> ints_fit (e_val e) ->
  match expr_sem fd e with
  | Some s => exists zs, s = ENums zs /\ parse_integers true (e_val e) = POk zs
  | None => parse_integers true (e_val e) = PErr
  end.
Proof.
  intros Hc Ho Hw Hm Hi. rewrite (parse_integers_ans _ Hw Hm Hi). unfold expr_sem. rewrite Hc, Ho.
  destruct (nil_like (e_val e)); [exists []; auto|].
  destruct (ints_of (e_val e)) as [zs|]; cbn [option_map ans]; [exists zs; auto|reflexivity].
Qed.
Theorem range_assign_sem fd v : fd_cont fd = CRange -> wf_val v -> modelled_num v -> ints_fit v ->
  match assign_sem fd v with
  | Some q => exists zs, q = QNums zs /\ parse_integers true v = POk zs
  | None => parse_integers true v = PErr
  end.
Proof.
  intros Hc Hw Hm Hi. rewrite (parse_integers_ans _ Hw Hm Hi). unfold assign_sem. rewrite Hc.
  destruct (nil_like v); [exists []; auto|].
  destruct (ints_of v) as [zs|]; cbn [option_map ans]; [exists zs; auto|reflexivity].
Qed.

(* ================================================================== *)
(* A fully recursive well-formedness implies the two-level one used above *)
(* ================================================================== *)

Fixpoint wf_deep (v : gval) : Prop :=
  wf_shape v /\
  match v with
  | VSlice _ _ vs | VList _ vs | VArr _ vs =>
    (fix all (l : list gval) : Prop := match l with [] => True | e :: l' => wf_deep e /\ all l' end) vs
  | _ => True
  end.
Lemma wf_deep_shape v : wf_deep v -> wf_shape v.
Proof. destruct v; cbn [wf_deep]; tauto. Qed.
Lemma wf_deep_val v : wf_deep v -> wf_val v.
Proof.
  intros H. split; [apply wf_deep_shape; exact H|].
  destruct v as [|k z|w f|s|s|b|t n vs|n vs|t vs|t n]; cbn [elems]; try constructor;
    cbn [wf_deep] in H; destruct H as [_ H]; induction vs as [|e vs IH]; constructor;
    try (apply wf_deep_shape; tauto); apply IH; tauto.
Qed.

(* ================================================================== *)
(* Witnesses: why each assumption is there, and where model and specification differ *)
(* ================================================================== *)

(* ill-formed shapes (constructor and carried type disagree) are excluded by wf_shape: *)
Example w_slice_iface : canon_texts (VSlice TSiface false []) = Some [] /\ common_parse_value (VSlice TSiface false []) = PUnmodelled.
Proof. split; reflexivity. Qed.
Example w_slice_nonslice : canon_texts (VSlice Tbool false []) = Some [] /\ common_parse_value (VSlice Tbool false []) = PErr.
Proof. split; reflexivity. Qed.
Example w_other_string : canon_texts (VOther Tstring false) = None /\ common_parse_value (VOther Tstring false) = PUnmodelled.
Proof. split; reflexivity. Qed.
(* ... and CanonProof.wf_gval alone does not exclude them: *)
Example w_wf_gval_weak : wf_gval (VSlice TSiface false []) /\ wf_gval (VOther Tstring false) /\ wf_gval (VArr Tint []).
Proof. repeat split; constructor. Qed.
(* the assumptions are satisfiable by a heterogeneous value: *)
Definition v_sample : gval :=
  VList false [VInt KI 1; VStr [49;50]%N; VJson [45;55]%N;
               VFloat false {| f_ip := 3; f_frac := true; f_cls := FFinite; f_text := [] |}].
Example sample_ok : wf_val v_sample /\ modelled_num v_sample /\ ints_fit v_sample /\ small_bounds v_sample.
Proof.
  unfold wf_val, modelled_num, modelled, ints_fit, small_bounds, v_sample. cbn [elems wf_shape float_ok text_ok int_fits].
  repeat split; repeat constructor; cbn; try discriminate; try (left; discriminate); try (vm_compute; discriminate).
Qed.
Example sample_number : number_parse_value v_sample = POk [PNum 1; PNum 12; PNum (two64 - 7); PNum 3].
Proof. reflexivity. Qed.

(* outside the modelled fragment the model answers PUnmodelled: *)
Example w_nan : common_parse_value (VFloat false {| f_ip := 0; f_frac := false; f_cls := FNaN; f_text := [] |}) = PUnmodelled.
Proof. reflexivity. Qed.
Example w_exponent : number_parse_value (VStr [49;101;52;48;48]%N) = PUnmodelled.   (* "1e400"; "1e3" is modelled: *)
Proof. reflexivity. Qed.
Example w_exponent_modelled : number_parse_value (VStr [49;46;53;69;51]%N) = POk [PNum 1500].   (* "1.5E3" *)
Proof. reflexivity. Qed.

(* FINDING 1: CommonStrParser.ParseAssign on []interface{} skips unsupported elements (ParseValue rejects) *)
Example f_common_assign_skips :
  canon_texts (VList false [VBool true; VStr [97%N]]) = None /\
  common_parse_value (VList false [VBool true; VStr [97%N]]) = PErr /\
  common_parse_assign (VList false [VBool true; VStr [97%N]]) = POk [PText [97%N]].
Proof. repeat split; reflexivity. Qed.

(* FINDING 2: ParseIntergers (range container `in`, index time) accepts nil-like values as the empty
   list, where expr_sem (ints_of) gives None *)
Example f_integers_nil : ints_of VNil = None /\ parse_integers true VNil = POk [] /\
  ints_of (VOther Tmap true) = None /\ parse_integers true (VOther Tmap true) = POk [] /\
  ints_of (VSlice TSbool true []) = None /\ parse_integers true (VSlice TSbool true []) = POk [].
Proof. repeat split; reflexivity. Qed.

(* FINDING 3: int64 wrap at the ends (why small_bounds is assumed) *)
Definition i64 (z : Z) := VInt KI64 z.
Example f_gt_max : parse_range OpGT true (i64 (two63 - 1)) = POk (- two63, two63 - 1) /\       (* x > MaxInt64: everything *)
                   range_spec OpGT (i64 (two63 - 1)) = Some (two63, two63).                       (* specification: nothing *)
Proof. split; reflexivity. Qed.
Example f_gt_max1 : parse_range OpGT true (i64 (two63 - 2)) = POk (two63 - 1, - two63) /\       (* x > MaxInt64-1: empty *)
                    range_spec OpGT (i64 (two63 - 2)) = Some (two63 - 1, two63).                  (* specification: {MaxInt64} *)
Proof. split; reflexivity. Qed.
Example f_lt_min : parse_range OpLT true (i64 (- two63)) = POk (- two63, - two63 + 1) /\        (* x < MinInt64: {MinInt64} *)
                   range_spec OpLT (i64 (- two63)) = Some (- two63, - two63).                     (* specification: nothing *)
Proof. split; reflexivity. Qed.
Example f_between_max : parse_range OpBetween true (VSlice TSint64 false [i64 (two63 - 1); i64 (two63 - 1)]) = POk (two63 - 1, - two63) /\
                        range_spec OpBetween (VSlice TSint64 false [i64 (two63 - 1); i64 (two63 - 1)]) = Some (two63 - 1, two63).
Proof. split; reflexivity. Qed.
(* and the `>` convention: ParseRange's right end MaxInt64 is exclusive, so MaxInt64 itself never matches x > n *)
Example f_gt_convention : parse_range OpGT true (i64 5) = POk (6, two63 - 1) /\ range_spec OpGT (i64 5) = Some (6, two63).
Proof. split; reflexivity. Qed.

(* int_fits: a signed integer outside int64 (not a Go value) *)
Example w_int_fits : parse_integer_number true (VInt KI64 two63) = POk two63 /\ int_scalar (VInt KI64 two63) = Some (- two63).
Proof. split; reflexivity. Qed.

(* number range ParseAssign: scalars only *)
Example w_numrange_assign : numrange_parse_assign (VStr [49;58;51]%N) = PErr /\                  (* "1:3" *)
  numrange_parse_assign (VSlice TSint false [VInt KI 1]) = PErr /\ numrange_parse_assign (VInt KI 1) = POk [PNum 1] /\
  numrange_parse_assign (VJson [49;50]%N) = POk [PNum 12].
Proof. repeat split; reflexivity. Qed.

Print Assumptions common_value_exact.
Print Assumptions number_value_exact.
Print Assumptions strhash_value_exact.
Print Assumptions numrange_value_exact.
Print Assumptions nil_interface_exact.
Print Assumptions assign_nil_like.
Print Assumptions common_assign_exact.
Print Assumptions number_assign_exact.
Print Assumptions strhash_assign_exact.
Print Assumptions numrange_assign_exact.
Print Assumptions parse_value_expr_sem.
Print Assumptions parse_assign_assign_sem.
Print Assumptions parse_integer_number_exact.
Print Assumptions parse_integers_exact.
Print Assumptions parse_range_ans.
Print Assumptions parse_range_ok_iff.
Print Assumptions parse_range_err_iff.
Print Assumptions range_eq_expr_sem.
Print Assumptions range_assign_sem.
Print Assumptions wf_deep_val.

(* ---- the range container's operand decoding for a holder configured with EnableFloat2Int = false ---- *)
(* a float operand of > or < is refused (not truncated) ... *)
Lemma parse_range_nf_float_refused : forall op b f, op = OpGT \/ op = OpLT -> parse_range op false (VFloat b f) = PErr.
Proof. intros op b f [H|H]; subst op; destruct b; reflexivity. Qed.
(* ... integer operands are read as with the conversion on, and between pairs do not depend on the option *)
Lemma parse_range_nf_int_same : forall op k z, parse_range op false (VInt k z) = parse_range op true (VInt k z).
Proof. intros op k z; destruct op; try reflexivity; destruct k; reflexivity. Qed.
Lemma parse_range_nf_between_same : forall v, parse_range OpBetween false v = parse_range OpBetween true v.
Proof. reflexivity. Qed.
Lemma parse_range_nf_spec :
  (forall op b f, op = OpGT \/ op = OpLT -> parse_range op false (VFloat b f) = PErr) /\
  (forall op k z, parse_range op false (VInt k z) = parse_range op true (VInt k z)) /\
  (forall v, parse_range OpBetween false v = parse_range OpBetween true v).
Proof.
  split; [exact parse_range_nf_float_refused | split; [exact parse_range_nf_int_same | exact parse_range_nf_between_same]].
Qed.
