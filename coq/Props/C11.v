(* C11  Doc/conjunction ids round-trip over the documented range; overflow is refused.
   Every statement is about Gen/IdsGen.v, i.e. about the Gallina translation of the *current*
   id_types.go and roaringidx/conjunction_types.go.  This file contains statements only. *)
From Coq Require Import NArith ZArith Bool.
From BE Require Import Gen.IdsGen Proofs.IdsProof.
Local Open Scope N_scope.

Theorem C11_conj_roundtrip : forall doc idx size,
  (Z.abs doc <= 8796093022207)%Z -> (0 <= idx < 256)%Z -> (0 <= size < 256)%Z ->
  exists c, NewConjID doc idx size = Some c /\ c < 2^60 /\
            ConjID_DocID c = doc /\ ConjID_Index c = idx /\ ConjID_Size c = size.
Proof. exact conjid_roundtrip. Qed.

Theorem C11_conj_injective : forall d1 i1 s1 d2 i2 s2 c,
  NewConjID d1 i1 s1 = Some c -> NewConjID d2 i2 s2 = Some c -> d1 = d2 /\ i1 = i2 /\ s1 = s2.
Proof. exact conjid_injective. Qed.

(* None = the Go function panics *)
Theorem C11_conj_refuses : forall doc idx size,
  ~ ((Z.abs doc <= 8796093022207)%Z /\ (0 <= idx < 256)%Z /\ (0 <= size < 256)%Z) ->
  NewConjID doc idx size = None.
Proof. exact NewConjID_refuses. Qed.

Theorem C11_entry_order : forall c1 i1 c2 i2, c1 < 2^60 -> c2 < 2^60 ->
  (NewEntryID c1 i1 < NewEntryID c2 i2 <-> (c1 < c2 \/ (c1 = c2 /\ i1 = false /\ i2 = true))).
Proof. exact entry_order. Qed.

Theorem C11_entry_excl_directly_below_incl : forall c, c < 2^60 -> NewEntryID c false + 1 = NewEntryID c true.
Proof. exact entry_excl_succ. Qed.

Theorem C11_entry_below_sentinel : forall c i, c < 2^60 -> NewEntryID c i < NULLENTRY.
Proof. exact entry_lt_null. Qed.

Theorem C11_entry_decode : forall c i, c < 2^60 ->
  EntryID_GetConjID (NewEntryID c i) = c /\ EntryID_IsInclude (NewEntryID c i) = i /\
  EntryID_IsExclude (NewEntryID c i) = negb i /\ EntryID_IsNULLEntry (NewEntryID c i) = false.
Proof. exact entry_decode. Qed.

(* encoded conjunction ids order by size, then position, then sign, then |doc| *)
Theorem C11_conj_order : forall d1 i1 s1 d2 i2 s2 c1 c2,
  NewConjID d1 i1 s1 = Some c1 -> NewConjID d2 i2 s2 = Some c2 ->
  (c1 < c2 <->
   (s1 < s2)%Z \/ (s1 = s2 /\ ((i1 < i2)%Z \/ (i1 = i2 /\
      (((d1 <? 0)%Z = false /\ (d2 <? 0)%Z = true) \/
       ((d1 <? 0)%Z = (d2 <? 0)%Z /\ (Z.abs d1 < Z.abs d2)%Z)))))).
Proof.
  intros d1 i1 s1 d2 i2 s2 c1 c2 H1 H2.
  destruct (NewConjID_some_inrange _ _ _ _ H1) as (A1 & B1 & C1).
  destruct (NewConjID_some_inrange _ _ _ _ H2) as (A2 & B2 & C2).
  rewrite NewConjID_arith in H1, H2 by assumption. inversion H1; inversion H2; subst.
  apply conj_order; assumption.
Qed.

Theorem C11_rr_roundtrip : forall idx doc,
  (Z.abs doc <= 36028797018963967)%Z -> (0 <= idx < 256)%Z ->
  exists c, NewConjunctionID idx doc = Some c /\ c < 2^64 /\
            ConjunctionID_DocID c = doc /\ ConjunctionID_Idx c = Z.to_N idx.
Proof. exact rr_roundtrip. Qed.

Theorem C11_rr_injective : forall i1 d1 i2 d2 c,
  NewConjunctionID i1 d1 = Some c -> NewConjunctionID i2 d2 = Some c -> i1 = i2 /\ d1 = d2.
Proof. exact rr_injective. Qed.

(* None = the Go function returns an error *)
Theorem C11_rr_refuses : forall idx doc,
  ~ ((Z.abs doc <= 36028797018963967)%Z /\ (0 <= idx < 256)%Z) -> NewConjunctionID idx doc = None.
Proof. exact NewConjunctionID_refuses. Qed.

(* DocID -> uint64 (collector bitmap, roaring Retrieve) -> DocID is the identity *)
Theorem C11_result_casts : forall d, (- 9223372036854775808 <= d < 9223372036854775808)%Z ->
  i64 (Z.of_N (u64 (Z.to_N (d mod 18446744073709551616)))) = d.
Proof. exact result_cast_roundtrip. Qed.

(* non-vacuity: the extreme ids of the documented range meet the premises *)
Example C11_nonvacuous :
  NewConjID (-8796093022207) 255 255 = Some 1152921504606846975 /\
  ConjID_DocID 1152921504606846975 = (-8796093022207)%Z /\
  NewConjunctionID 255 (-36028797018963967) = Some 9223372036854776319 /\
  ConjunctionID_DocID 9223372036854776319 = (-36028797018963967)%Z.
Proof. vm_compute. repeat split. Qed.

Print Assumptions C11_conj_roundtrip.
Print Assumptions C11_conj_injective.
Print Assumptions C11_conj_refuses.
Print Assumptions C11_entry_order.
Print Assumptions C11_entry_excl_directly_below_incl.
Print Assumptions C11_entry_below_sentinel.
Print Assumptions C11_entry_decode.
Print Assumptions C11_conj_order.
Print Assumptions C11_rr_roundtrip.
Print Assumptions C11_rr_injective.
Print Assumptions C11_rr_refuses.
Print Assumptions C11_result_casts.
