(* C18  The three index implementations agree on every input they all accept.  Statements only.
   The point of the property is that agreement must not depend on a written specification of the value
   shapes: the theorems below are stated for an ARBITRARY term matcher `qmatch` (whatever the configured
   parser pair does), and each implementation is shown equal to the same satisfaction predicate.
   k-groups: end to end at stream level.  compact: the generic scan theorem (need = max 1 size).
   roaring: the scanner fold is the intersection of the per-field results for every field order. *)
From Coq Require Import List NArith ZArith Bool Permutation.
From BE Require Model.Rr.
From BE Require Import Model.Scan Model.Build Proofs.ScanProof Proofs.BuildProof Proofs.Glue.
From BE Require Model.GoVal Model.Parsers Model.Index Model.Roaring Proofs.IndexBuildInv Proofs.IndexCorrect Proofs.AgreeProof Proofs.RoaringProof Gen.IdsGen Model.Spec Proofs.SpecBridge Proofs.HoldersBuildInv Proofs.IndexCorrectHolders Proofs.SpecBridgeHolders Proofs.IndexCorrectPolicy Proofs.SpecBridgeHoldersPolicy Proofs.AgreeFull.
Import ListNotations.
Local Open Scope N_scope.

Theorem C18_kgroups_any_matcher :
  forall (qval : Type) (qmatch : qval -> term -> bool) (cid_of : Z -> nat -> nat -> N)
         (ds : list doc) (q : assignment qval),
  NoDup (map fst q) ->
  (forall d i c d' i' c', has_conj ds d i c -> has_conj ds d' i' c' ->
     cid_of (d_id d) i (calc_size c) = cid_of (d_id d') i' (calc_size c') -> d = d' /\ i = i') ->
  exists r, retrieve qval qmatch (build cid_of ds) q = Some r /\ NoDup r /\
    forall x, In x r <-> exists d i c, has_conj ds d i c /\ sat_conj qval qmatch q c = true /\ x = the_cid cid_of d i c.
Proof. exact retrieve_correct. Qed.

Theorem C18_compact_scan_any_streams : forall (needf : N -> nat) (os : list stream),
  (forall c, (1 <= needf c)%nat) -> (forall c c', c <= c' -> (needf c <= needf c')%nat) ->
  Forall sorted os -> (forall c, (cnt (c, true) os <= needf c)%nat) ->
  exists r, scan needf os = Some r /\
            (forall x, In x r <-> cnt (x, false) os = O /\ (needf x <= cnt (x, true) os)%nat) /\ NoDup r.
Proof. exact scan_correct. Qed.

Theorem C18_roaring_fold_any_order : forall pl pls pls' x, Permutation (pl :: pls) pls' ->
  Rr.mem x (Rr.res (Rr.retrieve Rr.fresh (pl :: pls))) = Rr.all_in x pls'.
Proof. intros pl pls pls' x HP. rewrite Rr.retrieve_fresh. apply Rr.all_in_perm. exact HP. Qed.

(* same refutation witness as C03: with no configured field the roaring fold is empty *)
Theorem C18_refuted_nofields : forall x, Rr.mem x (Rr.res (Rr.retrieve Rr.fresh [])) = false /\ Rr.all_in x [] = true.
Proof. intros x. split; reflexivity. Qed.

(* over the EXECUTABLE models, for WHATEVER parser each field is configured with (the theorem quantifies
   over `parsers`; no specification of value shapes enters): the k-groups and the compact index built
   from the same accepted documents return the same documents for every assignment whose values parse *)
Theorem C18_kgroups_and_compact_agree : forall pol thr parsers ds stk osk stc osc q,
  Index.add_documents false (Index.new_builder Index.IKGroups pol thr parsers) ds = (stk, osk) ->
  Index.add_documents false (Index.new_builder Index.ICompact pol thr parsers) ds = (stc, osc) ->
  Forall (eq Index.AddOk) osk -> Forall (eq Index.AddOk) osc -> NoDup (map Index.d_id ds) ->
  (forall d cj, In d ds -> In cj (Index.d_conjs d) -> NoDup (map fst cj)) ->
  (pol <> Index.PolSkip \/ forall d cj, In d ds -> In cj (Index.d_conjs d) -> IndexBuildInv.conj_ok parsers cj = true) ->
  NoDup (map fst q) ->
  (forall f v, In (f, v) q -> exists ids, Parsers.parse_assign (parsers f) v = GoVal.POk ids) ->
  exists dk dc, Index.retrieve (Index.build_index stk) q = Index.ROk dk /\
                Index.retrieve (Index.build_index stc) q = Index.ROk dc /\ forall z, In z dk <-> In z dc.
Proof. exact AgreeProof.kgroups_compact_agree. Qed.

(* the roaring model is exact for the same per-field rule (RoaringProof.field_sat is the very function
   IndexCorrect.conj_sat uses), for any parser per field *)
Theorem C18_roaring_exact_for_the_same_rule : forall b0 ds b os q s d k cj x,
  RoaringProof.all_new (Roaring.rb_conts b0) -> Roaring.rb_conts b0 <> [] ->
  Roaring.radd_documents b0 ds = (b, os) -> Forall (eq Index.AddOk) os ->
  NoDup (map Index.d_id ds) -> In d ds -> nth_error (Index.d_conjs d) k = Some cj ->
  IdsGen.NewConjunctionID (Z.of_nat k) (Index.d_id d) = Some x ->
  Roaring.sc_retrieve (Roaring.rb_conts b) q Roaring.fresh_scanner = GoVal.POk s ->
  Roaring.bm_mem x (Roaring.sc_res s) = forallb (RoaringProof.conj_sat_field q cj) (Roaring.rb_conts b).
Proof. exact RoaringProof.roaring_index_correct. Qed.

(* AGREEMENT IN FULL for the two posting-list implementations: the same configuration (any container mix), the same
   document list (rejected documents, unparseable conjunctions allowed), the same policy, the same assignment: the
   same AddDocument outcomes and the same reported (document, position, size) triples (each is proved equal to the
   specification; see Props/C01.v for the hypotheses).  The roaring implementation is proved equal to the same
   specification in Props/C03.v (default and pattern containers). *)
Theorem C18_kgroups_and_compact_agree_in_full : forall pol thr parsers cfgl sk sc ds stk osk stc osc q,
  HoldersBuildInv.config_fields (Index.new_builder Index.IKGroups pol thr parsers) cfgl = Some sk ->
  HoldersBuildInv.config_fields (Index.new_builder Index.ICompact pol thr parsers) cfgl = Some sc ->
  Index.add_documents false sk ds = (stk, osk) ->
  Index.add_documents false sc ds = (stc, osc) ->
  NoDup (map Index.d_id ds) ->
  (forall d cj, In d ds -> In cj (Index.d_conjs d) -> NoDup (map fst cj)) ->
  (forall d, In d ds -> SpecBridgeHoldersPolicy.doc_ok parsers cfgl d) ->
  IndexCorrectPolicy.sizes_ok ds ->
  SpecBridgeHoldersPolicy.skip_ok2 pol (SpecBridgeHolders.cfg_fields parsers cfgl) parsers ds ->
  ((- GoVal.two64 < thr)%Z \/
   forall d cj, In d ds -> In cj (Index.d_conjs d) ->
     Spec.conj_sem (SpecBridgeHolders.cfg_fields parsers cfgl) parsers cj <> None ->
     HoldersBuildInv.conj_rwf thr (HoldersBuildInv.cfg_of cfgl) cj) ->
  NoDup (map fst q) ->
  SpecBridgeHolders.asg_good' parsers cfgl q ->
  SpecBridgeHoldersPolicy.asg_dom_den parsers cfgl ds q ->
  (forall f v, In (f, v) q -> HoldersBuildInv.cfg_of cfgl f = Index.CAc -> IndexCorrectHolders.nil_slice_wf v) ->
  exists hk hc,
    Index.retrieve_hits (Index.build_index stk) q = Index.ROk hk /\
    Index.retrieve_hits (Index.build_index stc) q = Index.ROk hc /\
    Permutation (map (fun h : Index.hitrec => SpecBridge.triple (snd h)) hk) (map (fun h : Index.hitrec => SpecBridge.triple (snd h)) hc) /\
    osk = osc.
Proof. exact AgreeFull.kgroups_compact_same_hits. Qed.

Print Assumptions C18_kgroups_any_matcher.
Print Assumptions C18_kgroups_and_compact_agree.
Print Assumptions C18_roaring_exact_for_the_same_rule.
Print Assumptions C18_compact_scan_any_streams.
Print Assumptions C18_roaring_fold_any_order.
Print Assumptions C18_kgroups_and_compact_agree_in_full.
