(* C17: parser-level cases (family P) and end-to-end cases (family E). *)
From BE Require Export Corr.CheckParse.
