package xlate

// Statement-level translation of the loop-carrying integer code of /repo (the posting-list cursor of
// index_scanner.go) into Gallina: Gen/CursorGen.v.
//
// Subset: functions and methods whose state is a fixed set of integer / unsigned / bool variables (locals,
// parameters, integer fields of the receiver) plus read-only slices of unsigned integers;
// statements `x := e`, `x = e`, `x op= e`, `x++`, `recv.f = e`, `if c { … return }`, `if c { assignments } [else
// { assignments }]`, `for [init]; c; [post] { assignments and non-terminal ifs }`, `return e`.
//
// Shape of the output.  Everything lives in the three-outcome type `res` (Ret / Panic / OutOfFuel).  A slice read
// `a[i]` contributes the bounds test `inb a i` to the guard of its statement (honouring the short circuit of && and
// ||): where Go would panic, the translation says Panic.  Every arithmetic node carries Go's width wrap (i64 / u64),
// as in IdsGen.v.  A `for` becomes a `Fixpoint … (fuel : nat)` over the tuple of the variables its body assigns,
// taking every other variable in scope as a parameter; running out of fuel is OutOfFuel, never a normal-looking
// value.  A method with a pointer receiver returns the tuple of the receiver fields it assigns next to its result.
// Anything outside the subset makes the whole function `Definition <name>_untranslatable := tt`, which breaks the
// proofs that mention it (Proofs/CursorGenProof.v).

import (
	"fmt"
	"go/ast"
	"go/token"
	"go/types"
	"sort"
	"strings"

	"golang.org/x/tools/go/packages"
)

type lvar struct {
	name string
	cls  string // Z, N, N8, B, L
}

type ltr struct {
	*tr
	p            *packages.Package
	fname        string
	recv         string       // receiver identifier ("" = none)
	recvObj      types.Object // its object
	mutRecv      []lvar       // receiver fields assigned by the function (returned next to the result)
	scope        []lvar       // variables in scope, in order of appearance
	aux          []string     // loop fixpoints, emitted before the function
	nloop        int
	g            []string // bounds guards of the expression being translated
	inFunc       bool     // a `return` is allowed here (not inside a loop body / join)
	retCls       string
	flat         map[string]bool      // x_f for fields of local struct variables read inside an extracted loop
	inLoop       int                  // > 0: `break` allowed (leaves the innermost loop)
	brk          bool                 // the loop being translated contains a break: its body yields (continue?, state)
	brkRet       string               // what `break` evaluates to in that body
	elemMethods  []string             // methods called on the elements of an LT slice (parameters of the generated section)
	sliceRecv    string               // the receiver when it is an LT slice: the function returns it
	elemMutators []string             // pointer-receiver methods called as statements on elements: M : T -> N -> T
	outVars      []lvar               // a function without result returns these (LT slices it reorders, the collector calls it makes)
	elemPreds    []string             // bool methods called on elements: M : T -> bool
	label        string               // the label of the loop being extracted: `break <label>` directly in its body leaves it
	alias        map[string][2]string // x := &a[i] : x -> (a, translated i)
	elemMutRets  []string             // M_ret : T -> N -> N, what a pointer-receiver method called for its result returns
	named        string               // a named result (zero-initialised, returned by a bare return)
}

func (t *ltr) clsL(ty types.Type) string {
	if ty == nil {
		return "?"
	}
	if s, ok := ty.Underlying().(*types.Slice); ok {
		if c := t.cls(s.Elem()); c == "N" {
			return "L"
		}
		if _, ok := s.Elem().Underlying().(*types.Struct); ok {
			return "LT" // a slice of opaque elements: read through their methods, reordered by swaps
		}
		return "?"
	}
	if pt, ok := ty.(*types.Pointer); ok {
		if _, ok := pt.Elem().Underlying().(*types.Struct); ok {
			return "PT" // a pointer to an element of an LT slice: modelled as the element's index
		}
	}
	return t.cls(ty)
}

// Go identifiers that would capture a name the generated text uses
var reserved = map[string]bool{"res": true, "bind": true, "inb": true, "nthN": true, "u64": true, "i64": true, "fuel": true, "st": true,
	"Ret": true, "Panic": true, "OutOfFuel": true, "cont": true, "length": true, "nth": true, "negb": true, "NULLENTRY": true}

func mangle(n string) string {
	if reserved[n] {
		return n + "_"
	}
	return n
}

var idCodec = map[string]bool{"NewEntryID": true, "EntryID_GetConjID": true, "EntryID_IsInclude": true, "EntryID_IsExclude": true,
	"EntryID_IsNULLEntry": true, "ConjID_DocID": true, "ConjID_Size": true, "ConjID_Index": true}

// statements that only log (Logger.X(...), LogInfoIf / LogDebugIf / LogErrIf(...), and an `if` over a debug flag of the
// retrieve context whose body only logs) are dropped: the translation assumes logging does not touch the scan state
func onlyLogs(s ast.Stmt) bool {
	switch x := s.(type) {
	case *ast.ExprStmt:
		c, ok := x.X.(*ast.CallExpr)
		if !ok {
			return false
		}
		switch f := c.Fun.(type) {
		case *ast.Ident:
			return f.Name == "LogInfoIf" || f.Name == "LogDebugIf" || f.Name == "LogErrIf" || f.Name == "LogInfo" || f.Name == "LogDebug"
		case *ast.SelectorExpr:
			if id, ok := f.X.(*ast.Ident); ok && id.Name == "Logger" {
				return true
			}
		}
	case *ast.IfStmt:
		if x.Init != nil || x.Else != nil {
			return false
		}
		sel, ok := x.Cond.(*ast.SelectorExpr)
		if !ok || !strings.HasPrefix(sel.Sel.Name, "dump") {
			return false
		}
		for _, b := range x.Body.List {
			if !onlyLogs(b) {
				return false
			}
		}
		return true
	}
	return false
}

func dropLogs(list []ast.Stmt) []ast.Stmt {
	var r []ast.Stmt
	for _, s := range list {
		if !onlyLogs(s) {
			r = append(r, s)
		}
	}
	return r
}

// the three statement-level calls with an effect on the translated state:
//
//	a[i].M(args)             element i of an LT slice replaced by what its pointer-receiver method M leaves ("mut")
//	a.Sort()                 an LT slice sorted by the translated FieldCursors.Sort                          ("sort")
//	ctx.collector.Add(d, c)  one collector call, appended to the list ctx_collector                         ("add")
func (t *ltr) effectCall(s ast.Stmt) (kind, target string, call *ast.CallExpr) {
	es, ok := s.(*ast.ExprStmt)
	if !ok {
		return
	}
	c, ok := es.X.(*ast.CallExpr)
	if !ok {
		return
	}
	sel, ok := c.Fun.(*ast.SelectorExpr)
	if !ok {
		return
	}
	if ix, ok := sel.X.(*ast.IndexExpr); ok && t.clsL(t.info.Types[ix.X].Type) == "LT" {
		if id, ok := ix.X.(*ast.Ident); ok {
			return "mut", mangle(id.Name), c
		}
	}
	if id, ok := sel.X.(*ast.Ident); ok && sel.Sel.Name == "Sort" && len(c.Args) == 0 && t.clsL(t.info.Types[sel.X].Type) == "LT" {
		return "sort", mangle(id.Name), c
	}
	if in, ok := sel.X.(*ast.SelectorExpr); ok && sel.Sel.Name == "Add" && in.Sel.Name == "collector" && len(c.Args) == 2 {
		if id, ok := in.X.(*ast.Ident); ok {
			return "add", id.Name + "_collector", c
		}
	}
	return
}

func coqTy(c string) string {
	switch c {
	case "Z":
		return "Z"
	case "N", "N8":
		return "N"
	case "B":
		return "bool"
	case "L":
		return "list N"
	case "LT":
		return "list T"
	case "LH":
		return "list (Z * N)"
	case "PT":
		return "Z"
	}
	return "UNTRANSLATABLE_type"
}

func (t *ltr) inScope(n string) bool {
	for _, v := range t.scope {
		if v.name == n {
			return true
		}
	}
	return false
}

func (t *ltr) declare(n, c string) {
	if !t.inScope(n) {
		t.scope = append(t.scope, lvar{n, c})
	}
}

// name of an lvalue / variable expression: identifier or receiver field
func (t *ltr) varName(e ast.Expr) (string, bool) {
	switch x := e.(type) {
	case *ast.ParenExpr:
		return t.varName(x.X)
	case *ast.Ident:
		return mangle(x.Name), true
	case *ast.SelectorExpr:
		if id, ok := x.X.(*ast.Ident); ok && t.recv != "" && id.Name == t.recv && t.info.Uses[id] == t.recvObj {
			return t.recv + "_" + x.Sel.Name, true
		}
		if id, ok := x.X.(*ast.Ident); ok && t.flat[id.Name+"_"+x.Sel.Name] {
			return id.Name + "_" + x.Sel.Name, true
		}
	}
	return "", false
}

// expression with guards; mirrors tr.expr for the arithmetic and adds variables, receiver fields, a[i], len(a)
func (t *ltr) lexpr(e ast.Expr) string {
	tv := t.info.Types[e]
	c := t.clsL(tv.Type)
	if tv.Value != nil && (c == "Z" || c == "N" || c == "N8") {
		return lit(tv.Value, c)
	}
	switch x := e.(type) {
	case *ast.ParenExpr:
		return t.lexpr(x.X)
	case *ast.Ident:
		if x.Name == "true" || x.Name == "false" {
			return x.Name
		}
		if !t.inScope(mangle(x.Name)) {
			return t.fail(e, "variable "+x.Name+" not in scope")
		}
		return mangle(x.Name)
	case *ast.SelectorExpr:
		if n, ok := t.varName(x); ok {
			t.declare(n, c)
			return n
		}
	case *ast.SliceExpr:
		if x.Low == nil && x.High != nil && !x.Slice3 && c == "LT" {
			a, n := t.lexpr(x.X), t.lexpr(x.High)
			t.g = append(t.g, "(inbS "+a+" "+n+")")
			return "(firstnT " + a + " " + n + ")"
		}
	case *ast.IndexExpr:
		a, i := t.lexpr(x.X), t.lexpr(x.Index)
		if t.clsL(t.info.Types[x.X].Type) != "L" || t.clsL(t.info.Types[x.Index].Type) != "Z" {
			return t.fail(e, "index expression outside the subset")
		}
		t.g = append(t.g, "(inb "+a+" "+i+")")
		return "(nthN " + a + " " + i + ")"
	case *ast.UnaryExpr:
		switch x.Op {
		case token.NOT:
			return "(negb " + t.lexpr(x.X) + ")"
		case token.SUB:
			if c == "Z" {
				return wrap(c, "(- "+t.lexpr(x.X)+")%Z")
			}
		}
	case *ast.BinaryExpr:
		lc := t.clsL(t.info.Types[x.X].Type)
		sc := "%Z"
		if lc != "Z" {
			sc = "%N"
		}
		if x.Op == token.LAND || x.Op == token.LOR {
			l := t.lexpr(x.X)
			saved := t.g
			t.g = nil
			r := t.lexpr(x.Y)
			rg := t.g
			t.g = saved
			if len(rg) > 0 {
				if x.Op == token.LAND {
					t.g = append(t.g, "(negb "+l+" || "+strings.Join(rg, " && ")+")")
				} else {
					t.g = append(t.g, "("+l+" || "+strings.Join(rg, " && ")+")")
				}
			}
			if x.Op == token.LAND {
				return "(" + l + " && " + r + ")"
			}
			return "(" + l + " || " + r + ")"
		}
		l, r := t.lexpr(x.X), t.lexpr(x.Y)
		switch x.Op {
		case token.LSS:
			return "(" + l + " <? " + r + ")" + sc
		case token.LEQ:
			return "(" + l + " <=? " + r + ")" + sc
		case token.GTR:
			return "(" + r + " <? " + l + ")" + sc
		case token.GEQ:
			return "(" + r + " <=? " + l + ")" + sc
		case token.EQL:
			if lc == "B" {
				return "(Bool.eqb " + l + " " + r + ")"
			}
			return "(" + l + " =? " + r + ")" + sc
		case token.NEQ:
			if lc == "B" {
				return "(negb (Bool.eqb " + l + " " + r + "))"
			}
			return "(negb (" + l + " =? " + r + ")" + sc + ")"
		case token.ADD:
			if c == "Z" {
				return wrap(c, "("+l+" + "+r+")%Z")
			}
			if c == "N" || c == "N8" {
				return wrap(c, "("+l+" + "+r+")%N")
			}
		case token.SUB:
			if c == "Z" {
				return wrap(c, "("+l+" - "+r+")%Z")
			}
			if c == "N" || c == "N8" {
				return wrap(c, "(Z.to_N ((Z.of_N "+l+" - Z.of_N "+r+") mod 18446744073709551616))")
			}
		case token.SHL:
			amt := t.shiftAmt(x.Y)
			if c == "Z" {
				return wrap(c, "(Z.shiftl "+l+" "+amt+"%Z)")
			}
			if c == "N" {
				return wrap(c, "(N.shiftl "+l+" "+amt+"%N)")
			}
		case token.SHR:
			amt := t.shiftAmt(x.Y)
			if c == "Z" {
				return "(Z.shiftr " + l + " " + amt + "%Z)"
			}
			if c == "N" {
				return "(N.shiftr " + l + " " + amt + "%N)"
			}
		}
	case *ast.CallExpr:
		if id, ok := x.Fun.(*ast.Ident); ok && id.Name == "append" && len(x.Args) == 2 && c == "L" && t.clsL(t.info.Types[x.Args[1]].Type) == "N" {
			return "(" + t.lexpr(x.Args[0]) + " ++ [" + t.lexpr(x.Args[1]) + "])"
		}
		if sel, ok := x.Fun.(*ast.SelectorExpr); ok && len(x.Args) == 2 && c == "Z" {
			if id, ok := sel.X.(*ast.Ident); ok && id.Name == "util" && (sel.Sel.Name == "MaxInt" || sel.Sel.Name == "MinInt") {
				f := map[string]string{"MaxInt": "Z.max", "MinInt": "Z.min"}[sel.Sel.Name]
				return "(" + f + " " + t.lexpr(x.Args[0]) + " " + t.lexpr(x.Args[1]) + ")"
			}
		}
		if sel, ok := x.Fun.(*ast.SelectorExpr); ok && len(x.Args) == 0 && c == "B" {
			if ix, ok := sel.X.(*ast.IndexExpr); ok && t.clsL(t.info.Types[ix.X].Type) == "LT" && t.clsL(t.info.Types[ix.Index].Type) == "Z" {
				a, i := t.lexpr(ix.X), t.lexpr(ix.Index)
				m := sel.Sel.Name
				seen := false
				for _, e := range t.elemPreds {
					seen = seen || e == m
				}
				if !seen {
					t.elemPreds = append(t.elemPreds, m)
				}
				t.g = append(t.g, "(inbT "+a+" "+i+")")
				return "(boolAt " + m + " " + a + " " + i + ")"
			}
		}
		// the id codecs (translated in IdsGen.v): functions and methods on integer-class values
		if id, ok := x.Fun.(*ast.Ident); ok && idCodec[id.Name] {
			var args []string
			for _, a := range x.Args {
				args = append(args, t.lexpr(a))
			}
			return "(IdsGen." + id.Name + " " + strings.Join(args, " ") + ")"
		}
		if sel, ok := x.Fun.(*ast.SelectorExpr); ok && len(x.Args) == 0 {
			if selInfo, ok := t.info.Selections[sel]; ok {
				if n := recvName(selInfo.Recv()) + "_" + sel.Sel.Name; idCodec[n] {
					if rc := t.clsL(t.info.Types[sel.X].Type); rc == "N" || rc == "Z" {
						return "(IdsGen." + n + " " + t.lexpr(sel.X) + ")"
					}
				}
			}
		}
		if sel, ok := x.Fun.(*ast.SelectorExpr); ok && len(x.Args) == 0 && c == "N" {
			if ix, ok := sel.X.(*ast.IndexExpr); ok && t.clsL(t.info.Types[ix.X].Type) == "LT" && t.clsL(t.info.Types[ix.Index].Type) == "Z" {
				a, i := t.lexpr(ix.X), t.lexpr(ix.Index)
				m := sel.Sel.Name
				seen := false
				for _, e := range t.elemMethods {
					seen = seen || e == m
				}
				if !seen {
					t.elemMethods = append(t.elemMethods, m)
				}
				t.g = append(t.g, "(inbT "+a+" "+i+")")
				return "(keyAt " + m + " " + a + " " + i + ")"
			}
		}
		if id, ok := x.Fun.(*ast.Ident); ok && id.Name == "len" && len(x.Args) == 1 && t.clsL(t.info.Types[x.Args[0]].Type) == "LT" {
			return "(Z.of_nat (length " + t.lexpr(x.Args[0]) + "))"
		}
		if id, ok := x.Fun.(*ast.Ident); ok && id.Name == "len" && len(x.Args) == 1 && t.clsL(t.info.Types[x.Args[0]].Type) == "L" {
			return "(Z.of_nat (length " + t.lexpr(x.Args[0]) + "))"
		}
		if ftv, ok := t.info.Types[x.Fun]; ok && ftv.IsType() && len(x.Args) == 1 {
			ac := t.clsL(t.info.Types[x.Args[0]].Type)
			a := t.lexpr(x.Args[0])
			switch {
			case ac == c:
				return a
			case ac == "Z" && c == "N":
				return wrap(c, "(Z.to_N ("+a+" mod 18446744073709551616))")
			case ac == "N" && c == "Z":
				return wrap(c, "(Z.of_N "+a+")")
			}
		}
	}
	return t.fail(e, fmt.Sprintf("expr %T outside the subset", e))
}

// translate an expression and wrap `body` (which may mention the value through the returned string) in its guard
func (t *ltr) guarded(val func() string, body func(v string) string) string {
	t.g = nil
	v := val()
	g := t.g
	t.g = nil
	b := body(v)
	if len(g) == 0 {
		return b
	}
	return "if negb (" + strings.Join(g, " && ") + ") then Panic else\n" + b
}

// variables assigned (not declared) in a statement list, recursively; declared ones are body-local
func (t *ltr) assignedIn(list []ast.Stmt, out map[string]bool, local map[string]bool) bool {
	for _, s := range dropLogs(list) {
		if kind, target, _ := t.effectCall(s); kind != "" {
			if !local[target] {
				out[target] = true
			}
			continue
		}
		switch x := s.(type) {
		case *ast.RangeStmt:
			if id, ok := x.Key.(*ast.Ident); ok && x.Value == nil && x.Tok == token.DEFINE {
				local[id.Name] = true
				if !t.assignedIn(x.Body.List, out, local) {
					return false
				}
				continue
			}
			return false
		case *ast.AssignStmt:
			if a, _, _, ok := t.swapOf(x); ok {
				if !local[a] {
					out[a] = true
				}
				continue
			}
			if len(x.Rhs) == 1 {
				if a, _, _, _, ok := t.aliasCall(x.Rhs[0]); ok && !local[a] {
					out[a] = true
				}
				if u, ok := x.Rhs[0].(*ast.UnaryExpr); ok && u.Op == token.AND && x.Tok == token.DEFINE {
					if id, ok := x.Lhs[0].(*ast.Ident); ok {
						local[id.Name] = true
						continue
					}
				}
				if _, _, ok := t.aliasOf(x.Rhs[0]); ok { // recv.f = x : the pointer field takes the element's index
					if n, ok := t.varName(x.Lhs[0]); ok && !local[n] {
						out[n] = true
						continue
					}
				}
			}
			if len(x.Lhs) != 1 || len(x.Rhs) != 1 {
				return false
			}
			n, ok := t.varName(x.Lhs[0])
			if !ok {
				return false
			}
			if x.Tok == token.DEFINE {
				local[n] = true
			} else if !local[n] {
				out[n] = true
			}
		case *ast.IncDecStmt:
			n, ok := t.varName(x.X)
			if !ok {
				return false
			}
			if !local[n] {
				out[n] = true
			}
		case *ast.IfStmt:
			if x.Init != nil {
				if !t.assignedIn([]ast.Stmt{x.Init}, out, local) {
					return false
				}
			}
			if !t.assignedIn(x.Body.List, out, local) {
				return false
			}
			if x.Else != nil {
				eb, ok := x.Else.(*ast.BlockStmt)
				if !ok || !t.assignedIn(eb.List, out, local) {
					return false
				}
			}
		case *ast.ForStmt:
			var l []ast.Stmt
			if x.Init != nil {
				l = append(l, x.Init)
			}
			l = append(l, x.Body.List...)
			if x.Post != nil {
				l = append(l, x.Post)
			}
			if !t.assignedIn(l, out, local) {
				return false
			}
		case *ast.ReturnStmt, *ast.ExprStmt, *ast.BranchStmt:
		default:
			return false
		}
	}
	return true
}

// the assigned variables of a block, in scope order (they must all be in scope already)
func (t *ltr) stateVars(n ast.Node, list []ast.Stmt) ([]lvar, bool) {
	out, local := map[string]bool{}, map[string]bool{}
	if !t.assignedIn(list, out, local) {
		t.fail(n, "block outside the subset")
		return nil, false
	}
	var vs []lvar
	for _, v := range t.scope {
		if out[v.name] {
			vs = append(vs, v)
			delete(out, v.name)
		}
	}
	if len(out) > 0 {
		var miss []string
		for k := range out {
			miss = append(miss, k)
		}
		sort.Strings(miss)
		t.fail(n, "assigned before declared: "+strings.Join(miss, ","))
		return nil, false
	}
	return vs, true
}

func names(vs []lvar) []string {
	var r []string
	for _, v := range vs {
		r = append(r, v.name)
	}
	return r
}

func tupleTy(vs []lvar) string {
	if len(vs) == 0 {
		return "unit"
	}
	var r []string
	for _, v := range vs {
		r = append(r, coqTy(v.cls))
	}
	return strings.Join(r, " * ")
}

func tupleV(vs []lvar) string {
	if len(vs) == 0 {
		return "tt"
	}
	return tuple(names(vs))
}

func pat(vs []lvar) string {
	if len(vs) == 0 {
		return "_"
	}
	if len(vs) == 1 {
		return vs[0].name
	}
	return "'" + tuple(names(vs))
}

func terminal(list []ast.Stmt) bool {
	list = dropLogs(list)
	if len(list) == 0 {
		return false
	}
	last := list[len(list)-1]
	_, isRet := last.(*ast.ReturnStmt)
	if b, ok := last.(*ast.BranchStmt); ok && b.Tok == token.BREAK {
		return true
	}
	return isRet || isPanic(last)
}

// k = what falling off the end of the list evaluates to
func (t *ltr) lstmts(list []ast.Stmt, k string, ind string) string {
	list = dropLogs(list)
	if len(list) == 0 {
		return k
	}
	s, rest := list[0], list[1:]
	if kind, target, call := t.effectCall(s); kind != "" && t.inScope(target) {
		switch kind {
		case "sort":
			return "bind (FieldCursors_Sort T GetCurEntryID fuel " + target + ")\n" + ind + "(fun " + target + " =>\n" + ind + t.lstmts(rest, k, ind) + ")"
		case "add":
			return t.guarded(func() string { return "(" + t.lexpr(call.Args[0]) + ", " + t.lexpr(call.Args[1]) + ")" }, func(v string) string {
				return "let " + target + " := " + target + " ++ [" + v + "] in\n" + ind + t.lstmts(rest, k, ind)
			})
		case "mut":
			sel := call.Fun.(*ast.SelectorExpr)
			ix := sel.X.(*ast.IndexExpr)
			m := sel.Sel.Name
			if len(call.Args) == 1 && t.clsL(t.info.Types[call.Args[0]].Type) == "N" && t.clsL(t.info.Types[ix.Index].Type) == "Z" {
				seen := false
				for _, e := range t.elemMutators {
					seen = seen || e == m
				}
				if !seen {
					t.elemMutators = append(t.elemMutators, m)
				}
				t.g = nil
				vi, va := t.lexpr(ix.Index), t.lexpr(call.Args[0])
				g := append(t.g, "(inbT "+target+" "+vi+")")
				t.g = nil
				return "if negb (" + strings.Join(g, " && ") + ") then Panic else\n" + ind + "let " + target + " := updWith (fun e => " + m + " e " + va + ") " + target + " " + vi + " in\n" + ind + t.lstmts(rest, k, ind)
			}
		}
	}
	switch x := s.(type) {
	case *ast.ReturnStmt:
		if !t.inFunc {
			return t.fail(s, "return inside a loop body or a joining branch")
		}
		if len(x.Results) == 0 && t.named != "" {
			if len(t.mutRecv) > 0 {
				return "Ret (" + tupleV(t.mutRecv) + ", " + t.named + ")"
			}
			return "Ret " + t.named
		}
		if len(x.Results) == 0 && t.sliceRecv != "" {
			return "Ret " + t.sliceRecv
		}
		if len(x.Results) == 0 && len(t.outVars) > 0 {
			return "Ret " + tupleV(t.outVars)
		}
		if len(x.Results) == 1 {
			return t.guarded(func() string { return t.lexpr(x.Results[0]) }, func(v string) string {
				if len(t.mutRecv) > 0 {
					return "Ret (" + tupleV(t.mutRecv) + ", " + v + ")"
				}
				return "Ret " + v
			})
		}
	case *ast.ExprStmt:
		if isPanic(s) {
			return "Panic"
		}
	case *ast.BranchStmt:
		if x.Tok == token.BREAK && (x.Label == nil || (x.Label.Name == t.label && t.inLoop == 1)) && t.inLoop > 0 && t.brk {
			return t.brkRet
		}
	case *ast.IncDecStmt:
		if n, ok := t.varName(x.X); ok && t.inScope(n) {
			c := t.clsL(t.info.Types[x.X].Type)
			op, one := " + ", "1%Z"
			if x.Tok == token.DEC {
				op = " - "
			}
			if c == "Z" {
				return "let " + n + " := " + wrap(c, "("+n+op+one+")%Z") + " in\n" + ind + t.lstmts(rest, k, ind)
			}
		}
	case *ast.RangeStmt:
		if id, ok := x.Key.(*ast.Ident); ok && x.Value == nil && x.Tok == token.DEFINE && t.clsL(t.info.Types[x.X].Type) == "LT" {
			a := t.lexpr(x.X)
			idx := mangle(id.Name)
			t.declare(idx, "Z")
			vs0, ok := t.stateVars(s, x.Body.List)
			if !ok {
				break
			}
			vs := append(append([]lvar{}, vs0...), lvar{idx, "Z"})
			t.nloop++
			lname := fmt.Sprintf("%s_loop%d", t.fname, t.nloop)
			inState := map[string]bool{}
			for _, v := range vs {
				inState[v.name] = true
			}
			var params []lvar
			for _, v := range t.scope {
				if !inState[v.name] {
					params = append(params, v)
				}
			}
			var pdecl []string
			for _, v := range params {
				pdecl = append(pdecl, fmt.Sprintf("(%s : %s)", v.name, coqTy(v.cls)))
			}
			saved, sc := t.inFunc, len(t.scope)
			t.inFunc = false
			t.inLoop++
			b := t.lstmts(x.Body.List, "let "+idx+" := (i64 ("+idx+" + 1%Z)%Z) in\n        Ret "+tupleV(vs), "        ")
			t.inLoop--
			t.scope = t.scope[:sc]
			t.inFunc = saved
			t.aux = append(t.aux, fmt.Sprintf("Fixpoint %s (fuel : nat) %s (st : %s) {struct fuel} : res (%s) :=\n  let %s := st in\n  if (%s <? (Z.of_nat (length %s)))%%Z then\n    match fuel with\n    | O => OutOfFuel\n    | S fuel' =>\n      bind (%s)\n        (fun st' => %s fuel' %s st')\n    end\n  else Ret %s.\n",
				lname, strings.Join(pdecl, " "), tupleTy(vs), tupleTy(vs), pat(vs), idx, a, b, lname, strings.Join(names(params), " "), tupleV(vs)))
			return "let " + idx + " := 0%Z in\n" + ind + "bind (" + lname + " fuel " + strings.Join(names(params), " ") + " " + tupleV(vs) + ")\n" + ind + "(fun " + pat(vs) + " =>\n" + ind + t.lstmts(rest, k, ind) + ")"
		}
	case *ast.AssignStmt:
		if len(x.Lhs) == 1 && len(x.Rhs) == 1 {
			// x := &a[i]
			if u, ok := x.Rhs[0].(*ast.UnaryExpr); ok && u.Op == token.AND && x.Tok == token.DEFINE {
				if ix, ok := u.X.(*ast.IndexExpr); ok && t.clsL(t.info.Types[ix.X].Type) == "LT" {
					if id, ok := x.Lhs[0].(*ast.Ident); ok {
						a := t.lexpr(ix.X)
						t.alias[id.Name] = [2]string{a, t.lexpr(ix.Index)}
						return t.lstmts(rest, k, ind)
					}
				}
			}
			// v := x.M(arg) with x an alias of a[i]: the result M_ret of the old element, then the element M leaves
			if a, i, m, arg, ok := t.aliasCall(x.Rhs[0]); ok && i != "" {
				if id, ok := x.Lhs[0].(*ast.Ident); ok && t.clsL(t.info.TypeOf(x.Lhs[0])) == "N" {
					t.elemMutators = addOnce(t.elemMutators, m)
					t.elemMutRets = addOnce(t.elemMutRets, m+"_ret")
					t.g = nil
					va := t.lexpr(arg)
					t.g = nil
					v := mangle(id.Name)
					t.declare(v, "N")
					return "if negb (inbT " + a + " " + i + ") then Panic else\n" + ind + "let " + v + " := keyAt (fun e => " + m + "_ret e " + va + ") " + a + " " + i + " in\n" + ind +
						"let " + a + " := updWith (fun e => " + m + " e " + va + ") " + a + " " + i + " in\n" + ind + t.lstmts(rest, k, ind)
				}
			}
			// recv.f = x with x an alias of a[i]: the pointer field takes the index
			if _, i, ok := t.aliasOf(x.Rhs[0]); ok && i != "" && x.Tok == token.ASSIGN {
				if n, ok := t.varName(x.Lhs[0]); ok && t.clsL(t.info.Types[x.Lhs[0]].Type) == "PT" {
					t.declare(n, "PT")
					return "let " + n + " := " + i + " in\n" + ind + t.lstmts(rest, k, ind)
				}
			}
		}
		if a, i, j, ok := t.swapOf(x); ok && t.inScope(a) {
			t.g = nil
			vi, vj := t.lexpr(i), t.lexpr(j)
			g := append(t.g, "(inbT "+a+" "+vi+")", "(inbT "+a+" "+vj+")")
			t.g = nil
			return "if negb (" + strings.Join(g, " && ") + ") then Panic else\n" + ind + "let " + a + " := swapT " + a + " " + vi + " " + vj + " in\n" + ind + t.lstmts(rest, k, ind)
		}
		if len(x.Lhs) == 1 && len(x.Rhs) == 1 {
			n, ok := t.varName(x.Lhs[0])
			if !ok {
				break
			}
			c := t.clsL(t.info.Types[x.Lhs[0]].Type)
			if x.Tok == token.DEFINE {
				c = t.clsL(t.info.TypeOf(x.Lhs[0]))
			}
			if c == "?" {
				break
			}
			rhs := x.Rhs[0]
			if (x.Tok == token.ADD_ASSIGN || x.Tok == token.SUB_ASSIGN) && c == "Z" && t.inScope(n) {
				op := " + "
				if x.Tok == token.SUB_ASSIGN {
					op = " - "
				}
				return t.guarded(func() string { return t.lexpr(rhs) }, func(v string) string {
					return "let " + n + " := " + wrap(c, "("+n+op+v+")%Z") + " in\n" + ind + t.lstmts(rest, k, ind)
				})
			}
			if x.Tok != token.ASSIGN && x.Tok != token.DEFINE {
				break
			}
			if x.Tok == token.ASSIGN && !t.inScope(n) {
				if _, isSel := x.Lhs[0].(*ast.SelectorExpr); !isSel {
					return t.fail(s, "assignment to "+n+" before its declaration")
				}
			}
			return t.guarded(func() string { return t.lexpr(rhs) }, func(v string) string {
				t.declare(n, c)
				return "let " + n + " := " + v + " in\n" + ind + t.lstmts(rest, k, ind)
			})
		}
	case *ast.IfStmt:
		if x.Init != nil { // if v := e; c { ... }  ==  v := e; if c { ... }   (v stays visible: harmless)
			return t.lstmts(append([]ast.Stmt{x.Init, &ast.IfStmt{If: x.If, Cond: x.Cond, Body: x.Body, Else: x.Else}}, rest...), k, ind)
		}
		if terminal(x.Body.List) && x.Else == nil {
			return t.guarded(func() string { return t.lexpr(x.Cond) }, func(c string) string {
				return "if " + c + " then " + t.lstmts(x.Body.List, "UNTRANSLATABLE_fallthrough", ind+"  ") + "\n" + ind + "else " + t.lstmts(rest, k, ind)
			})
		}
		all := append([]ast.Stmt{}, x.Body.List...)
		var els []ast.Stmt
		if x.Else != nil {
			eb, ok := x.Else.(*ast.BlockStmt)
			if !ok {
				break
			}
			els = eb.List
			all = append(all, els...)
		}
		vs, ok := t.stateVars(s, all)
		if !ok {
			break
		}
		return t.guarded(func() string { return t.lexpr(x.Cond) }, func(c string) string {
			saved, sc := t.inFunc, len(t.scope)
			t.inFunc = false
			a := t.lstmts(x.Body.List, "Ret "+tupleV(vs), ind+"    ")
			t.scope = t.scope[:sc]
			b := t.lstmts(els, "Ret "+tupleV(vs), ind+"    ")
			t.scope = t.scope[:sc]
			t.inFunc = saved
			return "bind (if " + c + "\n" + ind + "  then " + a + "\n" + ind + "  else " + b + ")\n" + ind + "(fun " + pat(vs) + " =>\n" + ind + t.lstmts(rest, k, ind) + ")"
		})
	case *ast.ForStmt:
		if x.Cond == nil {
			break
		}
		pre := ""
		if x.Init != nil {
			// `for i := a; …`: the init statement runs once, then the loop; its variable stays visible (harmless)
			return t.lstmts(append([]ast.Stmt{x.Init, &ast.ForStmt{For: x.For, Cond: x.Cond, Post: x.Post, Body: x.Body}}, rest...), k, ind)
		}
		body := append([]ast.Stmt{}, x.Body.List...)
		if x.Post != nil {
			body = append(body, x.Post)
		}
		vs, ok := t.stateVars(s, body)
		if !ok {
			break
		}
		t.nloop++
		lname := fmt.Sprintf("%s_loop%d", t.fname, t.nloop)
		inState := map[string]bool{}
		for _, v := range vs {
			inState[v.name] = true
		}
		var params []lvar
		for _, v := range t.scope {
			if !inState[v.name] {
				params = append(params, v)
			}
		}
		var pdecl []string
		for _, v := range params {
			pdecl = append(pdecl, fmt.Sprintf("(%s : %s)", v.name, coqTy(v.cls)))
		}
		saved, sc := t.inFunc, len(t.scope)
		t.inFunc = false
		cond := ""
		savedBrk, savedRet := t.brk, t.brkRet
		t.brk = hasBreak(x.Body.List)
		t.brkRet = "Ret (false, " + tupleV(vs) + ")"
		t.inLoop++
		loopBody := t.guarded(func() string { cond = t.lexpr(x.Cond); return cond }, func(c string) string {
			if t.brk {
				b := t.lstmts(body, "Ret (true, "+tupleV(vs)+")", "        ")
				return "  if " + c + " then\n    match fuel with\n    | O => OutOfFuel\n    | S fuel' =>\n      bind (" + b + ")\n        (fun '(cont, st') => if (cont : bool) then " + lname + " fuel' " + strings.Join(names(params), " ") + " st' else Ret st')\n    end\n  else Ret " + tupleV(vs)
			}
			b := t.lstmts(body, "Ret "+tupleV(vs), "        ")
			return "  if " + c + " then\n    match fuel with\n    | O => OutOfFuel\n    | S fuel' =>\n      bind (" + b + ")\n        (fun st' => " + lname + " fuel' " + strings.Join(names(params), " ") + " st')\n    end\n  else Ret " + tupleV(vs)
		})
		t.inLoop--
		t.brk, t.brkRet = savedBrk, savedRet
		t.scope = t.scope[:sc]
		t.inFunc = saved
		t.aux = append(t.aux, fmt.Sprintf("Fixpoint %s (fuel : nat) %s (st : %s) {struct fuel} : res (%s) :=\n  let %s := st in\n%s.\n",
			lname, strings.Join(pdecl, " "), tupleTy(vs), tupleTy(vs), pat(vs), loopBody))
		return pre + "bind (" + lname + " fuel " + strings.Join(names(params), " ") + " " + tupleV(vs) + ")\n" + ind + "(fun " + pat(vs) + " =>\n" + ind + t.lstmts(rest, k, ind) + ")"
	}
	return t.fail(s, fmt.Sprintf("stmt %T outside the subset", s))
}

// receiver fields assigned anywhere in the function
func (t *ltr) recvAssigned(fd *ast.FuncDecl) []string {
	m := map[string]bool{}
	var order []string
	ast.Inspect(fd.Body, func(n ast.Node) bool {
		var lhs ast.Expr
		switch x := n.(type) {
		case *ast.AssignStmt:
			if len(x.Lhs) == 1 {
				lhs = x.Lhs[0]
			}
		case *ast.IncDecStmt:
			lhs = x.X
		}
		if sel, ok := lhs.(*ast.SelectorExpr); ok {
			if n, ok := t.varName(sel); ok && !m[n] {
				m[n] = true
				order = append(order, n)
			}
		}
		return true
	})
	for _, a := range t.alias { // an LT field of the receiver written through x := &recv.f[i]; x.M(..)
		if strings.HasPrefix(a[0], t.recv+"_") && t.recv != "" && !m[a[0]] {
			m[a[0]] = true
			order = append([]string{a[0]}, order...)
		}
	}
	return order
}

var cursorFuncs = []string{"EntriesCursor_linearSkipTo", "EntriesCursor_SkipTo", "FieldCursors_Sort", "KGroupsBEIndex_retrieveK", "FieldCursor_SkipTo"}

// the receiver's integer / slice fields, in declaration order, as variables recv_<field>
func (t *ltr) recvFields(rt types.Type) []lvar {
	if p, ok := rt.(*types.Pointer); ok {
		rt = p.Elem()
	}
	st, ok := rt.Underlying().(*types.Struct)
	if !ok {
		return nil
	}
	var r []lvar
	for i := 0; i < st.NumFields(); i++ {
		f := st.Field(i)
		if c := t.clsL(f.Type()); c != "?" {
			r = append(r, lvar{t.recv + "_" + f.Name(), c})
		}
	}
	return r
}

func translateLoopFuncs(p *packages.Package, want []string) (defs []string, errs []string) {
	wantSet := map[string]int{}
	for i, w := range want {
		wantSet[w] = i
	}
	out := make([]string, len(want))
	for _, f := range p.Syntax {
		for _, d := range f.Decls {
			fd, ok := d.(*ast.FuncDecl)
			if !ok || fd.Body == nil {
				continue
			}
			name := fd.Name.Name
			base := &tr{info: p.TypesInfo, fset: p.Fset}
			t := &ltr{tr: base, p: p, inFunc: true}
			if fd.Recv != nil && len(fd.Recv.List) == 1 {
				rt := p.TypesInfo.TypeOf(fd.Recv.List[0].Type)
				name = recvName(rt) + "_" + name
				if len(fd.Recv.List[0].Names) == 1 {
					t.recv = fd.Recv.List[0].Names[0].Name
					t.recvObj = p.TypesInfo.Defs[fd.Recv.List[0].Names[0]]
				}
				if _, ok := wantSet[name]; ok {
					if t.clsL(rt) == "LT" && t.recv != "" {
						t.sliceRecv = mangle(t.recv)
						t.declare(t.sliceRecv, "LT")
						t.recv, t.recvObj = "", nil
					}
					for _, v := range t.recvFields(rt) {
						t.declare(v.name, v.cls)
					}
				}
			}
			idx, ok := wantSet[name]
			if !ok {
				continue
			}
			t.fname = name
			for _, fl := range fd.Type.Params.List {
				for _, n := range fl.Names {
					c := t.clsL(p.TypesInfo.TypeOf(fl.Type))
					if c == "?" || c == "PT" {
						// a parameter outside the subset (the retrieve context): only its collector is modelled, as the list of calls made
						if pt, ok := p.TypesInfo.TypeOf(fl.Type).(*types.Pointer); ok {
							if st, ok := pt.Elem().Underlying().(*types.Struct); ok {
								for i := 0; i < st.NumFields(); i++ {
									if st.Field(i).Name() == "collector" {
										t.declare(n.Name+"_collector", "LH")
										t.outVars = append(t.outVars, lvar{n.Name + "_collector", "LH"})
									}
								}
							}
						}
						continue
					}
					t.declare(mangle(n.Name), c)
					if c == "LT" {
						t.outVars = append([]lvar{{mangle(n.Name), "LT"}}, t.outVars...)
					}
				}
			}
			nparams := len(t.scope)
			t.collectAliases(fd.Body)
			for _, n := range t.recvAssigned(fd) {
				for _, v := range t.scope {
					if v.name == n {
						t.mutRecv = append(t.mutRecv, v)
					}
				}
			}
			text := ""
			if t.sliceRecv != "" && (fd.Type.Results == nil || len(fd.Type.Results.List) == 0) {
				var pdecl []string
				for _, v := range t.scope[:nparams] {
					pdecl = append(pdecl, fmt.Sprintf("(%s : %s)", v.name, coqTy(v.cls)))
				}
				body := t.lstmts(fd.Body.List, "Ret "+t.sliceRecv, "  ")
				text = fmt.Sprintf("Section %s_S.\nVariable T : Type.\n", name)
				for _, m := range t.elemMethods {
					text += fmt.Sprintf("Variable %s : T -> N.\n", m)
				}
				text += strings.Join(t.aux, "\n")
				if len(t.aux) > 0 {
					text += "\n"
				}
				text += fmt.Sprintf("Definition %s (fuel : nat) %s : res (list T) :=\n  %s.\nEnd %s_S.\n", name, strings.Join(pdecl, " "), body, name)
			} else if len(t.outVars) > 0 && (fd.Type.Results == nil || len(fd.Type.Results.List) == 0) {
				var pdecl []string
				for _, v := range t.scope[:nparams] {
					pdecl = append(pdecl, fmt.Sprintf("(%s : %s)", v.name, coqTy(v.cls)))
				}
				body := t.lstmts(fd.Body.List, "Ret "+tupleV(t.outVars), "  ")
				text = fmt.Sprintf("Section %s_S.\nVariable T : Type.\n", name)
				for _, m := range t.elemMethods {
					text += fmt.Sprintf("Variable %s : T -> N.\n", m)
				}
				for _, m := range t.elemMutators {
					text += fmt.Sprintf("Variable %s : T -> N -> T.\n", m)
				}
				text += strings.Join(t.aux, "\n")
				if len(t.aux) > 0 {
					text += "\n"
				}
				text += fmt.Sprintf("Definition %s (fuel : nat) %s : res (%s) :=\n  %s.\nEnd %s_S.\n", name, strings.Join(pdecl, " "), tupleTy(t.outVars), body, name)
			} else if fd.Type.Results == nil || len(fd.Type.Results.List) != 1 {
				t.fail(fd, "exactly one result expected")
			} else {
				t.retCls = t.clsL(p.TypesInfo.TypeOf(fd.Type.Results.List[0].Type))
				rty := coqTy(t.retCls)
				if len(t.mutRecv) > 0 {
					rty = "(" + tupleTy(t.mutRecv) + ") * " + rty
				}
				var pdecl []string
				for _, v := range t.scope[:nparams] {
					pdecl = append(pdecl, fmt.Sprintf("(%s : %s)", v.name, coqTy(v.cls)))
				}
				fall := "UNTRANSLATABLE_fallthrough"
				pre := ""
				if rn := fd.Type.Results.List[0].Names; len(rn) == 1 && (t.retCls == "N" || t.retCls == "Z") {
					// a named result: zero-initialised, returned by a bare return and by falling off the end
					t.named = mangle(rn[0].Name)
					t.declare(t.named, t.retCls)
					pre = "let " + t.named + " := 0%" + t.retCls + " in\n  "
					fall = "Ret " + t.named
					if len(t.mutRecv) > 0 {
						fall = "Ret (" + tupleV(t.mutRecv) + ", " + t.named + ")"
					}
				}
				body := pre + t.lstmts(fd.Body.List, fall, "  ")
				needSection := len(t.elemMethods)+len(t.elemMutators)+len(t.elemPreds)+len(t.elemMutRets) > 0
				if needSection {
					text = fmt.Sprintf("Section %s_S.\nVariable T : Type.\n", name)
					for _, m := range t.elemMethods {
						text += fmt.Sprintf("Variable %s : T -> N.\n", m)
					}
					for _, m := range t.elemPreds {
						text += fmt.Sprintf("Variable %s : T -> bool.\n", m)
					}
					for _, m := range t.elemMutators {
						text += fmt.Sprintf("Variable %s : T -> N -> T.\n", m)
					}
					for _, m := range t.elemMutRets {
						text += fmt.Sprintf("Variable %s : T -> N -> N.\n", m)
					}
				}
				text += strings.Join(t.aux, "\n")
				if len(t.aux) > 0 {
					text += "\n"
				}
				text += fmt.Sprintf("Definition %s (fuel : nat) %s : res (%s) :=\n  %s.\n", name, strings.Join(pdecl, " "), rty, body)
				if needSection {
					text += fmt.Sprintf("End %s_S.\n", name)
				}
			}
			if len(t.errs) > 0 || strings.Contains(text, "UNTRANSLATABLE") {
				text = fmt.Sprintf("Definition %s_untranslatable := tt.\n", name)
				errs = append(errs, t.errs...)
				if len(t.errs) == 0 {
					errs = append(errs, name+": outside the translated subset")
				}
			}
			out[idx] = text
		}
	}
	for i, w := range want {
		if out[i] == "" {
			out[i] = fmt.Sprintf("Definition %s_untranslatable := tt. (* function not found *)\n", w)
			errs = append(errs, "function not found: "+w)
		}
	}
	return out, errs
}

const loopHeader = `From Coq Require Import NArith ZArith Bool List.
From BE Require Gen.IdsGen.
Module IdsGen := BE.Gen.IdsGen.
Import ListNotations.
Local Open Scope bool_scope.
Definition u64 (n : N) : N := (n mod 18446744073709551616)%N.
Definition i64 (z : Z) : Z := ((z + 9223372036854775808) mod 18446744073709551616 - 9223372036854775808)%Z.
(* outcome of a translated function: a value, a Go run-time panic (index out of range), or the fuel of a loop ran out *)
Inductive res (A : Type) : Type := Ret (a : A) | Panic | OutOfFuel.
Arguments Ret {A} a.
Arguments Panic {A}.
Arguments OutOfFuel {A}.
Definition bind {A B : Type} (r : res A) (f : A -> res B) : res B :=
  match r with Ret a => f a | Panic => Panic | OutOfFuel => OutOfFuel end.
(* a[i] on a slice: the bounds test Go performs, and the element *)
Definition inb (l : list N) (i : Z) : bool := ((0 <=? i)%Z && (i <? Z.of_nat (length l))%Z).
Definition nthN (l : list N) (i : Z) : N := nth (Z.to_nat i) l 0%N.
(* a slice of opaque elements: bounds test, a method's value at an index, the swap a[i], a[j] = a[j], a[i] *)
Definition inbT {T : Type} (l : list T) (i : Z) : bool := ((0 <=? i)%Z && (i <? Z.of_nat (length l))%Z).
Definition keyAt {T : Type} (k : T -> N) (l : list T) (i : Z) : N :=
  match nth_error l (Z.to_nat i) with Some x => k x | None => 0%N end.
Fixpoint updT {T : Type} (l : list T) (i : nat) (x : T) : list T :=
  match l, i with
  | [], _ => []
  | _ :: r, O => x :: r
  | y :: r, S i' => y :: updT r i' x
  end.
Fixpoint updNth {T : Type} (f : T -> T) (l : list T) (i : nat) : list T :=
  match l, i with
  | [], _ => []
  | x :: r, O => f x :: r
  | y :: r, S i' => y :: updNth f r i'
  end.
Definition updWith {T : Type} (f : T -> T) (l : list T) (i : Z) : list T := updNth f l (Z.to_nat i).
Definition boolAt {T : Type} (p : T -> bool) (l : list T) (i : Z) : bool :=
  match nth_error l (Z.to_nat i) with Some x => p x | None => false end.
(* a[:n] : the bounds test of the slice expression, and the prefix *)
Definition inbS {T : Type} (l : list T) (n : Z) : bool := ((0 <=? n)%Z && (n <=? Z.of_nat (length l))%Z).
Definition firstnT {T : Type} (l : list T) (n : Z) : list T := firstn (Z.to_nat n) l.
Definition swapT {T : Type} (l : list T) (i j : Z) : list T :=
  match nth_error l (Z.to_nat i), nth_error l (Z.to_nat j) with
  | Some a, Some b => updT (updT l (Z.to_nat i) b) (Z.to_nat j) a
  | _, _ => l
  end.
`

func cursorGen(pkgs map[string]*packages.Package) (string, []string) {
	var sb strings.Builder
	sb.WriteString("(* generated from /repo (index_scanner.go) by /verif/harness (vh xlate) -- do not edit; regenerated on every run *)\n")
	sb.WriteString(loopHeader)
	p := pkgs[mod]
	for _, c := range constDefs(p, "") {
		if strings.HasPrefix(c, "Definition NULLENTRY ") {
			sb.WriteString(c + "\n")
		}
	}
	sb.WriteString("\n")
	defs, errs := translateLoopFuncs(p, cursorFuncs)
	for _, d := range defs {
		sb.WriteString(d + "\n")
	}
	cl, cerrs := translateLabeledLoop(p, "CompactBEIndex_RetrieveWithCollector", "RETRIEVE")
	sb.WriteString(cl + "\n")
	errs = append(errs, cerrs...)
	return sb.String(), errs
}

// a `break` that leaves THIS loop (not one of a nested for / switch / select)
func hasBreak(list []ast.Stmt) bool {
	found := false
	var walk func(n ast.Node) bool
	walk = func(n ast.Node) bool {
		switch x := n.(type) {
		case *ast.ForStmt, *ast.RangeStmt, *ast.SwitchStmt, *ast.TypeSwitchStmt, *ast.SelectStmt, *ast.FuncLit:
			return false
		case *ast.BranchStmt:
			if x.Tok == token.BREAK {
				found = true
			}
		}
		return true
	}
	for _, s := range list {
		ast.Inspect(s, walk)
	}
	return found
}

// translateLoopsIn extracts every three-clause `for` statement found anywhere inside function `fn` (in case clauses,
// range bodies, ...) and translates each as a definition of its own: parameters = the variables (and integer fields
// x.f of local struct variables) the loop reads from outside, result = the tuple of outer variables it assigns.
func translateLoopsIn(p *packages.Package, fn string) (defs []string, errs []string) {
	for _, f := range p.Syntax {
		for _, d := range f.Decls {
			fd, ok := d.(*ast.FuncDecl)
			if !ok || fd.Body == nil {
				continue
			}
			name := fd.Name.Name
			if fd.Recv != nil && len(fd.Recv.List) == 1 {
				name = recvName(p.TypesInfo.TypeOf(fd.Recv.List[0].Type)) + "_" + name
			}
			if name != fn {
				continue
			}
			k := 0
			ast.Inspect(fd.Body, func(n ast.Node) bool {
				fs, ok := n.(*ast.ForStmt)
				if !ok || fs.Init == nil || fs.Cond == nil {
					return true
				}
				k++
				dn := fmt.Sprintf("%s_for%d", fn, k)
				base := &tr{info: p.TypesInfo, fset: p.Fset}
				t := &ltr{tr: base, p: p, fname: dn, flat: map[string]bool{}}
				// free variables, in order of first occurrence
				ast.Inspect(fs, func(m ast.Node) bool {
					switch x := m.(type) {
					case *ast.SelectorExpr:
						if id, ok := x.X.(*ast.Ident); ok {
							if v, ok := p.TypesInfo.Uses[id].(*types.Var); ok && (v.Pos() < fs.Pos() || v.Pos() > fs.End()) {
								if c := t.clsL(p.TypesInfo.TypeOf(x)); c != "?" {
									t.flat[id.Name+"_"+x.Sel.Name] = true
									t.declare(id.Name+"_"+x.Sel.Name, c)
								}
								return false
							}
						}
					case *ast.Ident:
						if v, ok := p.TypesInfo.Uses[x].(*types.Var); ok && !v.IsField() && (v.Pos() < fs.Pos() || v.Pos() > fs.End()) {
							if c := t.clsL(v.Type()); c != "?" {
								t.declare(mangle(x.Name), c)
							}
						}
					}
					return true
				})
				nparams := len(t.scope)
				vs, ok := t.stateVars(fs, []ast.Stmt{fs})
				text := ""
				if ok {
					var pdecl []string
					for _, v := range t.scope[:nparams] {
						pdecl = append(pdecl, fmt.Sprintf("(%s : %s)", v.name, coqTy(v.cls)))
					}
					body := t.lstmts([]ast.Stmt{fs}, "Ret "+tupleV(vs), "  ")
					text = strings.Join(t.aux, "\n")
					if len(t.aux) > 0 {
						text += "\n"
					}
					text += fmt.Sprintf("Definition %s (fuel : nat) %s : res (%s) :=\n  %s.\n", dn, strings.Join(pdecl, " "), tupleTy(vs), body)
				}
				if len(t.errs) > 0 || strings.Contains(text, "UNTRANSLATABLE") || text == "" {
					text = fmt.Sprintf("Definition %s_untranslatable := tt.\n", dn)
					errs = append(errs, t.errs...)
					if len(t.errs) == 0 {
						errs = append(errs, dn+": outside the translated subset")
					}
				}
				defs = append(defs, text)
				return false
			})
		}
	}
	if len(defs) == 0 {
		defs = append(defs, fmt.Sprintf("Definition %s_for1_untranslatable := tt. (* no loop found *)\n", fn))
		errs = append(errs, "no loop found in "+fn)
	}
	return defs, errs
}

func rangeLoopGen(pkgs map[string]*packages.Package) (string, []string) {
	var sb strings.Builder
	sb.WriteString("(* generated from /repo (parser/range_parser.go: the enumeration loops of NumberRangeParser.ParseValue) by /verif/harness (vh xlate) -- do not edit; regenerated on every run *)\n")
	sb.WriteString("From BE Require Export Gen.CursorGen.\nFrom Coq Require Import NArith ZArith Bool List.\nImport ListNotations.\nLocal Open Scope bool_scope.\n\n")
	defs, errs := translateLoopsIn(pkgs[mod+"/parser"], "NumberRangeParser_ParseValue")
	for _, d := range defs {
		sb.WriteString(d + "\n")
	}
	return sb.String(), errs
}

// a[i], a[j] = a[j], a[i] on an LT slice variable: (a, i, j)
func (t *ltr) swapOf(x *ast.AssignStmt) (string, ast.Expr, ast.Expr, bool) {
	if x.Tok != token.ASSIGN || len(x.Lhs) != 2 || len(x.Rhs) != 2 {
		return "", nil, nil, false
	}
	var ix [4]*ast.IndexExpr
	for k, e := range []ast.Expr{x.Lhs[0], x.Lhs[1], x.Rhs[0], x.Rhs[1]} {
		i, ok := e.(*ast.IndexExpr)
		if !ok {
			return "", nil, nil, false
		}
		ix[k] = i
	}
	name := func(e *ast.IndexExpr) string {
		if id, ok := e.X.(*ast.Ident); ok && t.clsL(t.info.Types[e.X].Type) == "LT" {
			return mangle(id.Name)
		}
		return ""
	}
	a := name(ix[0])
	if a == "" || name(ix[1]) != a || name(ix[2]) != a || name(ix[3]) != a {
		return "", nil, nil, false
	}
	same := func(p, q ast.Expr) bool { return types.ExprString(p) == types.ExprString(q) }
	if !same(ix[0].Index, ix[3].Index) || !same(ix[1].Index, ix[2].Index) {
		return "", nil, nil, false
	}
	return a, ix[0].Index, ix[1].Index, true
}

// translateLabeledLoop extracts the `for` statement labelled `label` inside function fn and translates it as a
// definition of its own over an opaque element type: parameters = the LT slices and integer variables it reads from
// outside (and the collector of a retrieve context, as the list of calls made), result = the outer variables it assigns.
func translateLabeledLoop(p *packages.Package, fn, label string) (text string, errs []string) {
	dn := fn + "_" + label
	for _, f := range p.Syntax {
		for _, d := range f.Decls {
			fd, ok := d.(*ast.FuncDecl)
			if !ok || fd.Body == nil {
				continue
			}
			name := fd.Name.Name
			if fd.Recv != nil && len(fd.Recv.List) == 1 {
				name = recvName(p.TypesInfo.TypeOf(fd.Recv.List[0].Type)) + "_" + name
			}
			if name != fn {
				continue
			}
			ast.Inspect(fd.Body, func(n ast.Node) bool {
				ls, ok := n.(*ast.LabeledStmt)
				if !ok || ls.Label.Name != label {
					return true
				}
				fs, ok := ls.Stmt.(*ast.ForStmt)
				if !ok || fs.Cond == nil {
					return false
				}
				base := &tr{info: p.TypesInfo, fset: p.Fset}
				t := &ltr{tr: base, p: p, fname: dn, flat: map[string]bool{}, label: label}
				// free variables of the statements that are not dropped, in order of first occurrence
				var scan func(list []ast.Stmt)
				visit := func(m ast.Node) bool {
					switch x := m.(type) {
					case *ast.SelectorExpr:
						if in, ok := x.X.(*ast.SelectorExpr); ok && in.Sel.Name == "collector" && x.Sel.Name == "Add" {
							if id, ok := in.X.(*ast.Ident); ok && !t.inScope(id.Name+"_collector") {
								t.declare(id.Name+"_collector", "LH")
								t.outVars = append(t.outVars, lvar{id.Name + "_collector", "LH"})
							}
							return false
						}
					case *ast.Ident:
						if v, ok := p.TypesInfo.Uses[x].(*types.Var); ok && !v.IsField() && (v.Pos() < fs.Pos() || v.Pos() > fs.End()) {
							if c := t.clsL(v.Type()); c != "?" {
								t.declare(mangle(x.Name), c)
							}
						}
					}
					return true
				}
				scan = func(list []ast.Stmt) {
					for _, st := range dropLogs(list) {
						switch x := st.(type) {
						case *ast.IfStmt:
							ast.Inspect(x.Cond, visit)
							scan(x.Body.List)
							if eb, ok := x.Else.(*ast.BlockStmt); ok {
								scan(eb.List)
							}
						case *ast.ForStmt:
							if x.Init != nil {
								ast.Inspect(x.Init, visit)
							}
							ast.Inspect(x.Cond, visit)
							if x.Post != nil {
								ast.Inspect(x.Post, visit)
							}
							scan(x.Body.List)
						default:
							ast.Inspect(st, visit)
						}
					}
				}
				ast.Inspect(fs.Cond, visit)
				scan(fs.Body.List)
				nparams := len(t.scope)
				vs, ok := t.stateVars(fs, []ast.Stmt{fs})
				if ok {
					var pdecl []string
					for _, v := range t.scope[:nparams] {
						pdecl = append(pdecl, fmt.Sprintf("(%s : %s)", v.name, coqTy(v.cls)))
					}
					body := t.lstmts([]ast.Stmt{fs}, "Ret "+tupleV(vs), "  ")
					text = fmt.Sprintf("Section %s_S.\nVariable T : Type.\n", dn)
					for _, m := range t.elemMethods {
						text += fmt.Sprintf("Variable %s : T -> N.\n", m)
					}
					for _, m := range t.elemPreds {
						text += fmt.Sprintf("Variable %s : T -> bool.\n", m)
					}
					for _, m := range t.elemMutators {
						text += fmt.Sprintf("Variable %s : T -> N -> T.\n", m)
					}
					text += strings.Join(t.aux, "\n")
					if len(t.aux) > 0 {
						text += "\n"
					}
					text += fmt.Sprintf("Definition %s (fuel : nat) %s : res (%s) :=\n  %s.\nEnd %s_S.\n", dn, strings.Join(pdecl, " "), tupleTy(vs), body, dn)
				}
				errs = append(errs, t.errs...)
				return false
			})
		}
	}
	if text == "" || len(errs) > 0 || strings.Contains(text, "UNTRANSLATABLE") {
		text = fmt.Sprintf("Definition %s_untranslatable := tt.\n", dn)
		if len(errs) == 0 {
			errs = append(errs, dn+": labelled loop not found or outside the translated subset")
		}
	}
	return
}

// aliasOf: x where x := &a[i] was seen
func (t *ltr) aliasOf(e ast.Expr) (slice, idx string, ok bool) {
	id, isId := e.(*ast.Ident)
	if !isId || t.alias == nil {
		return
	}
	a, found := t.alias[id.Name]
	return a[0], a[1], found
}

// aliasCall: x.M(arg) with x an alias of a[i], M a pointer-receiver method with one unsigned argument
func (t *ltr) aliasCall(e ast.Expr) (slice, idx, m string, arg ast.Expr, ok bool) {
	c, isCall := e.(*ast.CallExpr)
	if !isCall || len(c.Args) != 1 {
		return
	}
	sel, isSel := c.Fun.(*ast.SelectorExpr)
	if !isSel {
		return
	}
	a, i, found := t.aliasOf(sel.X)
	if !found || t.clsL(t.info.Types[c.Args[0]].Type) != "N" {
		return
	}
	return a, i, sel.Sel.Name, c.Args[0], true
}

func addOnce(l []string, x string) []string {
	for _, e := range l {
		if e == x {
			return l
		}
	}
	return append(l, x)
}

// collectAliases: every `x := &a[i]` of a function body, so that the assigned-variable analysis knows which slice a
// method call through x writes
func (t *ltr) collectAliases(body *ast.BlockStmt) {
	t.alias = map[string][2]string{}
	ast.Inspect(body, func(n ast.Node) bool {
		as, ok := n.(*ast.AssignStmt)
		if !ok || as.Tok != token.DEFINE || len(as.Lhs) != 1 || len(as.Rhs) != 1 {
			return true
		}
		u, ok := as.Rhs[0].(*ast.UnaryExpr)
		if !ok || u.Op != token.AND {
			return true
		}
		ix, ok := u.X.(*ast.IndexExpr)
		if !ok || t.clsL(t.info.Types[ix.X].Type) != "LT" {
			return true
		}
		if name, ok := t.varName(ix.X); ok {
			if id, ok := as.Lhs[0].(*ast.Ident); ok {
				t.alias[id.Name] = [2]string{name, ""}
			}
		}
		return true
	})
}
