(* C09, second half: a document decoded from its own JSON encoding means the same as the original.
   Model/Json.v models Unmarshal(Marshal(v)) for an interface{} value; here:
     (1) on the SAFE DOMAIN (json_safe) every expression denotes the same thing before and after, for every
         container kind, parser and operator; hence conj_sem, doc_sem, sat_conj, sat_hits are unchanged;
     (2) the decoded values are well formed and modelled, so the theorem that relates a BUILT index to
         sat_hits (SpecBridgeHoldersPolicy.index_sat_hits_holders_policy) applies to both indexes: the index
         built from the decoded documents reports exactly the conjunctions the original index reports;
     (3) outside the safe domain the meaning changes: refutations by computation. *)
From Coq Require Import List NArith ZArith Bool Lia Permutation.
From BE Require Import Model.GoTypes Model.GoVal Model.Parsers Model.Index Model.Spec Model.Json.
Import ListNotations.
Local Open Scope Z_scope.

(* ================================================================== *)
(* 0. generic                                                          *)
(* ================================================================== *)
Lemma all_some_map_ext {A B} (f g : A -> option B) l :
  (forall x, In x l -> f x = g x) -> all_some (map f l) = all_some (map g l).
Proof.
  induction l as [|x l IH]; intros H; cbn [map all_some]; [reflexivity|].
  rewrite (H x (or_introl eq_refl)), IH; [reflexivity|]. intros y Hy. apply H. right. exact Hy.
Qed.

(* a list decoded element-wise: every view that is preserved element-wise is preserved *)
Lemma all_some_rt {A B} (rt : A -> option A) (view : A -> option B) l :
  (forall x, In x l -> exists x', rt x = Some x' /\ view x' = view x) ->
  exists l', all_some (map rt l) = Some l' /\ all_some (map view l') = all_some (map view l) /\ length l' = length l.
Proof.
  induction l as [|x l IH]; intros H; cbn [map all_some].
  - exists []. repeat split.
  - destruct (H x (or_introl eq_refl)) as (x' & E & V).
    destruct IH as (l' & El & Vl & Ll). { intros y Hy. apply H. right. exact Hy. }
    exists (x' :: l'). rewrite E, El. cbn [option_map map all_some length]. rewrite V, Vl, Ll. repeat split.
Qed.

Lemma all_some_In_none {A} (l : list (option A)) : In None l -> all_some l = None.
Proof.
  induction l as [|[x|] l IH]; intros H; cbn [all_some]; [destruct H| |reflexivity].
  destruct H as [H|H]; [discriminate|]. rewrite (IH H). reflexivity.
Qed.

Lemma all_some_Some_In {A B} (f : A -> option B) l l' x :
  all_some (map f l) = Some l' -> In x l -> exists y, f x = Some y.
Proof.
  revert l'. induction l as [|a l IH]; intros l' E H; [destruct H|]. cbn [map all_some] in E.
  destruct (f a) as [b|] eqn:Ea; [|discriminate]. destruct (all_some (map f l)) as [r|] eqn:Er; [|discriminate].
  destruct H as [<-|H]; [eauto|]. apply (IH r eq_refl H).
Qed.

Lemma text_eqb_eq a b : text_eqb a b = true -> a = b.
Proof.
  revert b. induction a as [|x a IH]; intros [|y b]; cbn; try discriminate; [reflexivity|].
  intros H. apply andb_true_iff in H. destruct H as [H1 H2]. apply N.eqb_eq in H1. subst y.
  f_equal. apply IH. exact H2.
Qed.

(* ================================================================== *)
(* 1. numbers                                                          *)
(* ================================================================== *)
Lemma f64_of_Z_small z : Z.abs z <= two53 -> f64_of_Z z = z.
Proof.
  intros H. unfold f64_of_Z. destruct (Z.ltb_spec (Z.abs z) 9007199254740992) as [|Hge]; [reflexivity|].
  unfold two53 in H. assert (E : Z.abs z = 9007199254740992) by lia.
  destruct (Z.abs_spec z) as [[_ E']|[_ E']]; rewrite E' in E.
  - subst z. vm_compute. reflexivity.
  - assert (z = -9007199254740992) by lia. subst z. vm_compute. reflexivity.
Qed.

Lemma fl_of_int_ip z : f_ip (fl_of_int z) = z. Proof. reflexivity. Qed.
Lemma fl_of_int_cls z : f_cls (fl_of_int z) = FFinite. Proof. reflexivity. Qed.
Lemma fl_of_int_frac z : f_frac (fl_of_int z) = false. Proof. reflexivity. Qed.

Lemma wrap_i64_small z : - two63 <= z < two63 -> wrap_i64 z = z.
Proof.
  intros H. unfold wrap_i64. rewrite Z.mod_small; [lia|]. unfold two63, two64 in *. lia.
Qed.

(* the three element views of the specification on the float64 of a small integer *)
Lemma views_int z : Z.abs z <= two53 ->
  canon_scalar (VFloat false (fl_of_int z)) = Some (dec_text z) /\
  int_scalar (VFloat false (fl_of_int z)) = Some z /\
  str_scalar (VFloat false (fl_of_int z)) = None.
Proof.
  intros H. assert (Hlt : Z.abs z <? two63 = true) by (apply Z.ltb_lt; unfold two53, two63 in *; lia).
  cbn [canon_scalar int_scalar str_scalar float_to_i64]. rewrite fl_of_int_cls, fl_of_int_ip, Hlt.
  split; [reflexivity|]. split; [|reflexivity]. unfold float_to_i64. rewrite fl_of_int_cls, fl_of_int_ip, Hlt. reflexivity.
Qed.

Lemma canonical_int_text_spec s z : canonical_int_text s = Some z -> parse_int_text s = Some z /\ s = dec_text z.
Proof.
  unfold canonical_int_text. destruct (parse_int_text s) as [z'|]; [|discriminate].
  destruct (text_eqb s (dec_text z')) eqn:E; [|discriminate]. intros [= <-]. split; [reflexivity|apply text_eqb_eq; exact E].
Qed.

(* ================================================================== *)
(* 2. one element: the views of the specification are preserved        *)
(* ================================================================== *)
Definition views_eq (e' e : gval) : Prop :=
  canon_scalar e' = canon_scalar e /\ int_scalar e' = int_scalar e /\ str_scalar e' = str_scalar e /\
  is_scalar e' = is_scalar e /\ is_str e' = is_str e.

(* what a value that is not a scalar can come back as: nil, a bool, a list, a map *)
Definition plain_out (v' : gval) : Prop :=
  match v' with VNil | VBool _ | VList false _ | VOther Tmap false => True | _ => False end.

Lemma rt_slice_shape t n vs v' : json_roundtrip (VSlice t n vs) = Some v' ->
  (n = true /\ v' = VNil) \/ (n = false /\ exists l, all_some (map json_roundtrip vs) = Some l /\ v' = VList false l).
Proof.
  cbn [json_roundtrip]. destruct n; [intros [= <-]; left; auto|]. intros H. right. split; [reflexivity|].
  destruct (all_some (map json_roundtrip vs)) as [l|]; [exists l; split; [reflexivity|]|]; destruct t; cbn [option_map] in H; congruence.
Qed.
Lemma rt_list_shape n vs v' : json_roundtrip (VList n vs) = Some v' ->
  (n = true /\ v' = VNil) \/ (n = false /\ exists l, all_some (map json_roundtrip vs) = Some l /\ v' = VList false l).
Proof.
  cbn [json_roundtrip]. destruct n; [intros [= <-]; left; auto|]. intros H. right. split; [reflexivity|].
  destruct (all_some (map json_roundtrip vs)) as [l|]; [exists l; split; [reflexivity|]|]; cbn [option_map] in H; congruence.
Qed.
Lemma rt_arr_shape t vs v' : json_roundtrip (VArr t vs) = Some v' ->
  exists l, all_some (map json_roundtrip vs) = Some l /\ v' = VList false l.
Proof.
  cbn [json_roundtrip]. intros H.
  destruct (all_some (map json_roundtrip vs)) as [l|]; [exists l; split; [reflexivity|]|]; destruct t; cbn [option_map] in H; congruence.
Qed.
Lemma rt_other_shape t n v' : json_roundtrip (VOther t n) = Some v' -> v' = VNil \/ v' = VOther Tmap false.
Proof. cbn [json_roundtrip]. destruct t, n; intros H; try discriminate; injection H as <-; auto. Qed.

Lemma rt_nonscalar_plain v v' : is_scalar v = false -> json_roundtrip v = Some v' -> plain_out v'.
Proof.
  destruct v as [|k z|w f|s|s|b|t n vs|n vs|t vs|t n]; cbn [is_scalar]; try discriminate; intros _ H.
  - injection H as <-. exact I.
  - injection H as <-. exact I.
  - destruct (rt_slice_shape _ _ _ _ H) as [[_ ->]|[_ (l & _ & ->)]]; exact I.
  - destruct (rt_list_shape _ _ _ H) as [[_ ->]|[_ (l & _ & ->)]]; exact I.
  - destruct (rt_arr_shape _ _ _ H) as (l & _ & ->); exact I.
  - destruct (rt_other_shape _ _ _ H) as [->| ->]; exact I.
Qed.

Lemma plain_views v v' : is_scalar v = false -> plain_out v' -> views_eq v' v.
Proof.
  intros Hs Hp. unfold views_eq.
  destruct v' as [|? ?|? ?|?|?|?|? ? ?|[|] ?|? ?|[] [|]]; try contradiction;
    destruct v; try discriminate; repeat split.
Qed.

Lemma rt_ok_some v : rt_ok v = true -> exists v', json_roundtrip v = Some v'.
Proof. unfold rt_ok. destruct (json_roundtrip v) as [v'|]; [eauto|discriminate]. Qed.

Lemma elem_views e : elem_safe e = true -> exists e', json_roundtrip e = Some e' /\ views_eq e' e.
Proof.
  destruct (is_scalar e) eqn:Hs.
  - destruct e as [|k z|w f|s|s|b|t n vs|n vs|t vs|t n]; try discriminate; cbn [elem_safe]; intros H.
    + apply Z.leb_le in H. exists (VFloat false (fl_of_int z)). cbn [json_roundtrip]. rewrite (f64_of_Z_small z H).
      split; [reflexivity|]. destruct (views_int z H) as (A & B & C). unfold views_eq. rewrite A, B, C.
      cbn [canon_scalar int_scalar str_scalar is_scalar is_str]. rewrite wrap_i64_small; [repeat split|].
      unfold two53, two63 in *. lia.
    + destruct (f_cls f) eqn:Ec; try discriminate. exists (VFloat false f). cbn [json_roundtrip]. rewrite Ec. split.
      * destruct w; [|reflexivity]. cbn [negb orb] in H. unfold widen32. rewrite H. reflexivity.
      * unfold views_eq. cbn. repeat split.
    + exists (VStr s). split; [reflexivity|]. unfold views_eq. repeat split.
    + destruct (canonical_int_text s) as [z|] eqn:Ez; [|discriminate]. apply Z.leb_le in H.
      destruct (canonical_int_text_spec s z Ez) as [Ep Es].
      exists (VFloat false (fl_of_int z)). cbn [json_roundtrip]. unfold json_of_number. rewrite Ez, (f64_of_Z_small z H).
      split; [reflexivity|]. destruct (views_int z H) as (A & B & C). unfold views_eq. rewrite A, B, C.
      cbn [canon_scalar int_scalar str_scalar is_scalar is_str]. rewrite Ep, <- Es. repeat split.
  - intros H. assert (Hr : rt_ok e = true) by (destruct e; try discriminate; exact H).
    destruct (rt_ok_some e Hr) as (e' & E). exists e'. split; [exact E|].
    apply plain_views; [exact Hs|]. apply (rt_nonscalar_plain e e' Hs E).
Qed.

(* ================================================================== *)
(* 3. lists of elements                                                *)
(* ================================================================== *)
Lemma rt_elems vs : forallb elem_safe vs = true ->
  exists l, all_some (map json_roundtrip vs) = Some l /\ Forall2 views_eq l vs.
Proof.
  induction vs as [|e vs IH]; cbn [forallb map all_some]; intros H.
  - exists []. split; [reflexivity|constructor].
  - apply andb_true_iff in H. destruct H as [He Hr]. destruct (elem_views e He) as (e' & E & V).
    destruct (IH Hr) as (l & El & Vl). exists (e' :: l). rewrite E, El. split; [reflexivity|constructor; assumption].
Qed.

Lemma views_all_some {B} (f : gval -> option B) l vs :
  (forall e' e, views_eq e' e -> f e' = f e) -> Forall2 views_eq l vs -> all_some (map f l) = all_some (map f vs).
Proof.
  intros Hf H. induction H as [|e' e l vs V _ IH]; cbn [map all_some]; [reflexivity|]. rewrite (Hf e' e V), IH. reflexivity.
Qed.

Lemma views_exists_none {B} (f : gval -> option B) (p : gval -> bool) l vs :
  (forall e' e, views_eq e' e -> p e' = p e) -> (forall e, p e = true -> f e = None) ->
  Forall2 views_eq l vs -> existsb p vs = true -> all_some (map f l) = None.
Proof.
  intros Hp Hf H Hx. apply all_some_In_none. induction H as [|e' e l vs V _ IH]; cbn [existsb] in Hx; [discriminate|].
  cbn [map]. apply orb_true_iff in Hx. destruct Hx as [Hx|Hx].
  - left. apply Hf. rewrite (Hp e' e V). exact Hx.
  - right. apply IH. exact Hx.
Qed.

Lemma views_length l vs : Forall2 views_eq l vs -> length l = length vs.
Proof. induction 1; cbn; congruence. Qed.

(* the view functions respect views_eq, and are None off their domain *)
Lemma v_canon e' e : views_eq e' e -> canon_scalar e' = canon_scalar e. Proof. intros H; apply H. Qed.
Lemma v_int e' e : views_eq e' e -> int_scalar e' = int_scalar e. Proof. intros H; apply H. Qed.
Lemma v_str e' e : views_eq e' e -> str_scalar e' = str_scalar e. Proof. intros H; apply H. Qed.
Lemma v_nsc e' e : views_eq e' e -> negb (is_scalar e') = negb (is_scalar e).
Proof. intros (_ & _ & _ & H & _). rewrite H. reflexivity. Qed.
Lemma v_nstr e' e : views_eq e' e -> negb (is_str e') = negb (is_str e).
Proof. intros (_ & _ & _ & _ & H). rewrite H. reflexivity. Qed.
Lemma nsc_canon e : negb (is_scalar e) = true -> canon_scalar e = None. Proof. destruct e; cbn; try discriminate; reflexivity. Qed.
Lemma nsc_int e : negb (is_scalar e) = true -> int_scalar e = None. Proof. destruct e; cbn; try discriminate; reflexivity. Qed.
Lemma nstr_str e : negb (is_str e) = true -> str_scalar e = None. Proof. destruct e; cbn; try discriminate; reflexivity. Qed.

Lemma scalars_of_slice t n vs : scalars_of (VSlice t n vs) = if bool_or_other t then None else Some vs.
Proof. destruct t; reflexivity. Qed.
Lemma scalars_of_scalar v : is_scalar v = true -> scalars_of v = Some [v].
Proof. destruct v; cbn; try discriminate; reflexivity. Qed.

(* a value seen as a list of scalars, through any element view f that is preserved and is None on non-scalars *)
Definition via {B} (f : gval -> option B) (v : gval) : option (list B) :=
  match scalars_of v with Some vs => all_some (map f vs) | None => None end.

Lemma lv_via {B} (f : gval -> option B) v :
  (forall e' e, views_eq e' e -> f e' = f e) -> (forall e, negb (is_scalar e) = true -> f e = None) ->
  rt_ok v = true -> lv_safe v = true ->
  exists v', json_roundtrip v = Some v' /\ via f v' = via f v.
Proof.
  intros Hf Hn Hr Hs. destruct (rt_ok_some v Hr) as (v' & E). exists v'. split; [exact E|]. unfold via.
  destruct v as [|k z|w fl|s|s|b|t n vs|n vs|t vs|t n].
  - injection E as <-. reflexivity.
  - destruct (elem_views _ Hs) as (e' & E' & V). rewrite E in E'. injection E' as <-.
    rewrite (scalars_of_scalar v'), (scalars_of_scalar (VInt k z)); [|reflexivity|]. { cbn [map all_some]. rewrite (Hf _ _ V). reflexivity. }
    destruct V as (_ & _ & _ & -> & _). reflexivity.
  - destruct (elem_views _ Hs) as (e' & E' & V). rewrite E in E'. injection E' as <-.
    rewrite (scalars_of_scalar v'), (scalars_of_scalar (VFloat w fl)); [|reflexivity|]. { cbn [map all_some]. rewrite (Hf _ _ V). reflexivity. }
    destruct V as (_ & _ & _ & -> & _). reflexivity.
  - injection E as <-. reflexivity.
  - destruct (elem_views _ Hs) as (e' & E' & V). rewrite E in E'. injection E' as <-.
    rewrite (scalars_of_scalar v'), (scalars_of_scalar (VJson s)); [|reflexivity|]. { cbn [map all_some]. rewrite (Hf _ _ V). reflexivity. }
    destruct V as (_ & _ & _ & -> & _). reflexivity.
  - injection E as <-. reflexivity.
  - cbn [lv_safe] in Hs. apply andb_true_iff in Hs. destruct Hs as [He Hc]. rewrite scalars_of_slice.
    destruct (rt_slice_shape _ _ _ _ E) as [[-> ->]|[-> (l & El & ->)]].
    + destruct (bool_or_other t); [reflexivity|discriminate].
    + destruct (rt_elems vs He) as (l' & El' & V). rewrite El in El'. injection El' as <-.
      cbn [scalars_of]. destruct (bool_or_other t).
      * cbn [orb] in Hc. apply (views_exists_none f (fun e => negb (is_scalar e)) l vs v_nsc Hn V Hc).
      * apply views_all_some; assumption.
  - cbn [lv_safe] in Hs. apply andb_true_iff in Hs. destruct Hs as [Hnn He]. destruct n; [discriminate|].
    destruct (rt_list_shape _ _ _ E) as [[? _]|[_ (l & El & ->)]]; [discriminate|].
    destruct (rt_elems vs He) as (l' & El' & V). rewrite El in El'. injection El' as <-.
    cbn [scalars_of]. apply views_all_some; assumption.
  - cbn [lv_safe] in Hs. apply andb_true_iff in Hs. destruct Hs as [He Hc].
    destruct (rt_arr_shape _ _ _ E) as (l & El & ->).
    destruct (rt_elems vs He) as (l' & El' & V). rewrite El in El'. injection El' as <-.
    cbn [scalars_of]. apply (views_exists_none f (fun e => negb (is_scalar e)) l vs v_nsc Hn V Hc).
  - destruct (rt_other_shape _ _ _ E) as [->| ->]; reflexivity.
Qed.

Lemma canon_texts_via v : canon_texts v = via canon_scalar v. Proof. reflexivity. Qed.
Lemma ints_of_via v : ints_of v = via int_scalar v. Proof. reflexivity. Qed.

Lemma lv_canon v : rt_ok v = true -> lv_safe v = true ->
  exists v', json_roundtrip v = Some v' /\ canon_texts v' = canon_texts v /\ ints_of v' = ints_of v.
Proof.
  intros Hr Hs. destruct (lv_via canon_scalar v v_canon nsc_canon Hr Hs) as (v' & E & A).
  destruct (lv_via int_scalar v v_int nsc_int Hr Hs) as (v'' & E' & B). rewrite E in E'. injection E' as <-.
  exists v'. repeat split; assumption.
Qed.

(* the value seen as a list of strings *)
Lemma strings_of_slice t n vs :
  strings_of (VSlice t n vs) = match t with TSstring => all_some (map str_scalar vs) | _ => None end.
Proof. destruct t; reflexivity. Qed.
Lemma strings_of_nonstr_scalar v : is_scalar v = true -> is_str v = false -> strings_of v = None.
Proof. destruct v; cbn; try discriminate; reflexivity. Qed.

Lemma sv_strings v : rt_ok v = true -> sv_safe v = true ->
  exists v', json_roundtrip v = Some v' /\ strings_of v' = strings_of v.
Proof.
  intros Hr Hs. destruct (rt_ok_some v Hr) as (v' & E). exists v'. split; [exact E|].
  destruct v as [|k z|w fl|s|s|b|t n vs|n vs|t vs|t n].
  - injection E as <-. reflexivity.
  - destruct (elem_views _ Hs) as (e' & E' & V). rewrite E in E'. injection E' as <-.
    destruct V as (_ & _ & _ & A & B). rewrite (strings_of_nonstr_scalar v' A B). reflexivity.
  - destruct (elem_views _ Hs) as (e' & E' & V). rewrite E in E'. injection E' as <-.
    destruct V as (_ & _ & _ & A & B). rewrite (strings_of_nonstr_scalar v' A B). reflexivity.
  - injection E as <-. reflexivity.
  - destruct (elem_views _ Hs) as (e' & E' & V). rewrite E in E'. injection E' as <-.
    destruct V as (_ & _ & _ & A & B). rewrite (strings_of_nonstr_scalar v' A B). reflexivity.
  - injection E as <-. reflexivity.
  - cbn [sv_safe] in Hs. apply andb_true_iff in Hs. destruct Hs as [He Hc]. rewrite strings_of_slice.
    destruct (rt_slice_shape _ _ _ _ E) as [[-> ->]|[-> (l & El & ->)]].
    + destruct t; try reflexivity. discriminate.
    + destruct (rt_elems vs He) as (l' & El' & V). rewrite El in El'. injection El' as <-. cbn [strings_of].
      assert (Hnone : existsb (fun e => negb (is_str e)) vs = true -> all_some (map str_scalar l) = None)
        by (apply (views_exists_none str_scalar (fun e => negb (is_str e)) l vs v_nstr nstr_str V)).
      destruct t; cbn [orb] in Hc; try (apply Hnone; exact Hc). apply views_all_some; [exact v_str|exact V].
  - cbn [sv_safe] in Hs. apply andb_true_iff in Hs. destruct Hs as [Hnn He]. destruct n; [discriminate|].
    destruct (rt_list_shape _ _ _ E) as [[? _]|[_ (l & El & ->)]]; [discriminate|].
    destruct (rt_elems vs He) as (l' & El' & V). rewrite El in El'. injection El' as <-.
    cbn [strings_of]. apply views_all_some; [exact v_str|exact V].
  - cbn [sv_safe] in Hs. apply andb_true_iff in Hs. destruct Hs as [He Hc].
    destruct (rt_arr_shape _ _ _ E) as (l & El & ->).
    destruct (rt_elems vs He) as (l' & El' & V). rewrite El in El'. injection El' as <-.
    cbn [strings_of]. apply (views_exists_none str_scalar (fun e => negb (is_str e)) l vs v_nstr nstr_str V Hc).
  - destruct (rt_other_shape _ _ _ E) as [->| ->]; reflexivity.
Qed.

Lemma sv_descs v v' : strings_of v' = strings_of v -> descs_of v' = descs_of v.
Proof. unfold descs_of. intros ->. reflexivity. Qed.

(* nil-like values stay nil-like, others stay not nil-like *)
Lemma rt_nil_like v v' : json_roundtrip v = Some v' -> nil_like v' = nil_like v.
Proof.
  intros E. destruct v as [|k z|w fl|s|s|b|t n vs|n vs|t vs|t n].
  - injection E as <-. reflexivity.
  - injection E as <-. reflexivity.
  - cbn [json_roundtrip] in E. destruct (f_cls fl); try discriminate. destruct w.
    + destruct (widen32 fl); [injection E as <-; reflexivity|discriminate].
    + injection E as <-. reflexivity.
  - injection E as <-. reflexivity.
  - cbn [json_roundtrip] in E. destruct (json_of_number s); [injection E as <-; reflexivity|discriminate].
  - injection E as <-. reflexivity.
  - destruct (rt_slice_shape _ _ _ _ E) as [[-> ->]|[-> (l & _ & ->)]]; reflexivity.
  - destruct (rt_list_shape _ _ _ E) as [[-> ->]|[-> (l & _ & ->)]]; reflexivity.
  - destruct (rt_arr_shape _ _ _ E) as (l & _ & ->). reflexivity.
  - cbn [json_roundtrip] in E. destruct t, n; try discriminate; injection E as <-; reflexivity.
Qed.

(* ================================================================== *)
(* 4. one expression                                                   *)
(* ================================================================== *)
Definition mk (incl : bool) (op : vop) (v : gval) : expr := {| e_incl := incl; e_op := op; e_val := v |}.

(* > and <: the bound *)
Definition bound_of (v : gval) : option Z := if is_scalar v then int_scalar v else None.
Lemma expr_sem_gt fd incl v : fd_cont fd = CRange ->
  expr_sem fd (mk incl OpGT v) = option_map (fun a => ERange (a + 1) two63) (bound_of v).
Proof.
  intros Hc. unfold expr_sem, bound_of. rewrite Hc. cbn [mk e_op e_val].
  destruct v as [|k z|w fl|s|s|b|t n vs|n vs|t vs|t n]; try reflexivity.
  - destruct (scalars_of (VSlice t n vs)) as [[|? [|]]|]; reflexivity.
  - destruct (scalars_of (VList n vs)) as [[|? [|]]|]; reflexivity.
Qed.
Lemma expr_sem_lt fd incl v : fd_cont fd = CRange ->
  expr_sem fd (mk incl OpLT v) = option_map (fun b => ERange (- two63) b) (bound_of v).
Proof.
  intros Hc. unfold expr_sem, bound_of. rewrite Hc. cbn [mk e_op e_val].
  destruct v as [|k z|w fl|s|s|b|t n vs|n vs|t vs|t n]; try reflexivity.
  - destruct (scalars_of (VSlice t n vs)) as [[|? [|]]|]; reflexivity.
  - destruct (scalars_of (VList n vs)) as [[|? [|]]|]; reflexivity.
Qed.

Lemma bound_rt v : rt_ok v = true -> (if is_scalar v then elem_safe v else true) = true ->
  exists v', json_roundtrip v = Some v' /\ bound_of v' = bound_of v.
Proof.
  intros Hr Hs. unfold bound_of. destruct (is_scalar v) eqn:Hsc.
  - destruct (elem_views v Hs) as (v' & E & (_ & B & _ & C & _)). exists v'. rewrite C, Hsc. auto.
  - destruct (rt_ok_some v Hr) as (v' & E). exists v'. split; [exact E|].
    pose proof (rt_nonscalar_plain v v' Hsc E) as P.
    destruct v' as [|? ?|? ?|?|?|?|? ? ?|[|] ?|? ?|[] [|]]; try contradiction; reflexivity.
Qed.

(* between *)
Lemma all_some_length {A B} (f : A -> option B) l l' : all_some (map f l) = Some l' -> length l' = length l.
Proof.
  revert l'. induction l as [|a l IH]; intros l' E; cbn [map all_some] in E.
  - injection E as <-. reflexivity.
  - destruct (f a); [|discriminate]. destruct (all_some (map f l)) as [r|]; [|discriminate].
    injection E as <-. cbn [length]. rewrite (IH r eq_refl). reflexivity.
Qed.
Lemma is_pair_length {A B} (l : list A) (l' : list B) : length l' = length l -> is_pair l' = is_pair l.
Proof. destruct l as [|? [|? [|]]], l' as [|? [|? [|]]]; cbn; try discriminate; reflexivity. Qed.

Definition between_of fd incl v := expr_sem fd (mk incl OpBetween v).
Lemma between_list_nonpair fd incl n l : fd_cont fd = CRange -> is_pair l = false -> between_of fd incl (VList n l) = None.
Proof.
  intros Hc Hp. unfold between_of, expr_sem. rewrite Hc. cbn [mk e_op e_val].
  destruct l as [|? [|? [|]]]; try discriminate; reflexivity.
Qed.
Lemma between_arr_nonpair fd incl t l : fd_cont fd = CRange -> is_pair l = false -> between_of fd incl (VArr t l) = None.
Proof.
  intros Hc Hp. unfold between_of, expr_sem. rewrite Hc. cbn [mk e_op e_val].
  destruct l as [|a [|b [|c r]]]; try discriminate; destruct t; try reflexivity; destruct a; try reflexivity; destruct b; reflexivity.
Qed.
Lemma between_slice_nonpair fd incl t n l : fd_cont fd = CRange -> is_pair l = false -> between_of fd incl (VSlice t n l) = None.
Proof.
  intros Hc Hp. unfold between_of, expr_sem. rewrite Hc. cbn [mk e_op e_val].
  destruct l as [|a [|b [|c r]]]; try discriminate; destruct t; try reflexivity; destruct a; try reflexivity; destruct b; reflexivity.
Qed.
Lemma between_arr_other fd incl t l : fd_cont fd = CRange -> t <> TA2int64 -> between_of fd incl (VArr t l) = None.
Proof.
  intros Hc Ht. unfold between_of, expr_sem. rewrite Hc. cbn [mk e_op e_val]. destruct t; try reflexivity. contradiction.
Qed.
Lemma between_slice_other fd incl t n l : fd_cont fd = CRange -> t <> TSint64 -> between_of fd incl (VSlice t n l) = None.
Proof.
  intros Hc Ht. unfold between_of, expr_sem. rewrite Hc. cbn [mk e_op e_val]. destruct t; try reflexivity. contradiction.
Qed.
Lemma between_nil fd incl : between_of fd incl VNil = None.
Proof. unfold between_of, expr_sem. destruct (fd_cont fd); reflexivity. Qed.

Definition ord (l h : Z) : option esem :=
  if l <? h then Some (ERange l h) else if l =? h then Some (ERange l (h + 1)) else None.
Lemma between_list_pair fd incl n a b : fd_cont fd = CRange ->
  between_of fd incl (VList n [a; b]) =
  match int_scalar a, int_scalar b with Some l, Some h => ord l h | _, _ => None end.
Proof. intros Hc. unfold between_of, expr_sem. rewrite Hc. reflexivity. Qed.

Lemma small53_int v : small53 v = true -> exists k z, v = VInt k z /\ Z.abs z <= two53.
Proof. destruct v; cbn; try discriminate. intros H. apply Z.leb_le in H. eauto. Qed.

Lemma rt_int_pair k1 l k2 h : Z.abs l <= two53 -> Z.abs h <= two53 ->
  all_some (map json_roundtrip [VInt k1 l; VInt k2 h]) = Some [VFloat false (fl_of_int l); VFloat false (fl_of_int h)].
Proof. intros Hl Hh. cbn [map all_some json_roundtrip option_map]. rewrite (f64_of_Z_small l Hl), (f64_of_Z_small h Hh). reflexivity. Qed.

Lemma between_floats fd incl l h : fd_cont fd = CRange -> Z.abs l <= two53 -> Z.abs h <= two53 ->
  between_of fd incl (VList false [VFloat false (fl_of_int l); VFloat false (fl_of_int h)]) = ord l h.
Proof.
  intros Hc Hl Hh. rewrite (between_list_pair fd incl _ _ _ Hc).
  destruct (views_int l Hl) as (_ & -> & _). destruct (views_int h Hh) as (_ & -> & _). reflexivity.
Qed.

Lemma between_rt fd incl v : fd_cont fd = CRange -> rt_ok v = true -> bt_safe v = true ->
  exists v', json_roundtrip v = Some v' /\ between_of fd incl v' = between_of fd incl v.
Proof.
  intros Hc Hr Hs. destruct (rt_ok_some v Hr) as (v' & E). exists v'. split; [exact E|].
  destruct v as [|k z|w fl|s|s|b|t n vs|n vs|t vs|t n].
  - injection E as <-. reflexivity.
  - injection E as <-. unfold between_of, expr_sem. rewrite Hc. reflexivity.
  - pose proof (rt_nil_like _ _ E) as _. cbn [json_roundtrip] in E. destruct (f_cls fl); try discriminate.
    assert (exists f', v' = VFloat false f') as (f' & ->).
    { destruct w; [destruct (widen32 fl); [injection E as <-; eauto|discriminate]|injection E as <-; eauto]. }
    unfold between_of, expr_sem. rewrite Hc. reflexivity.
  - injection E as <-. reflexivity.
  - cbn [json_roundtrip] in E. destruct (json_of_number s); [injection E as <-|discriminate].
    unfold between_of, expr_sem. rewrite Hc. reflexivity.
  - injection E as <-. unfold between_of, expr_sem. rewrite Hc. reflexivity.
  - (* typed slice *)
    cbn [bt_safe] in Hs. destruct (is_pair vs) eqn:Hp.
    + destruct (rt_slice_shape _ _ _ _ E) as [[-> ->]|[-> (l & El & ->)]].
      * destruct (gty_eq_dec t TSint64) as [->|Ht]; [cbn in Hs; discriminate|].
        rewrite between_nil, (between_slice_other fd incl t true vs Hc Ht). reflexivity.
      * destruct (gty_eq_dec t TSint64) as [->|Ht]; [|destruct t; try discriminate; contradiction].
        cbn [negb andb] in Hs. destruct vs as [|a [|b [|c r]]]; try discriminate.
        cbn [forallb] in Hs. apply andb_true_iff in Hs. destruct Hs as [Ha Hb]. apply andb_true_iff in Hb. destruct Hb as [Hb _].
        destruct (small53_int a Ha) as (k1 & lo & -> & Hl). destruct (small53_int b Hb) as (k2 & hi & -> & Hh).
        rewrite (rt_int_pair k1 lo k2 hi Hl Hh) in El. injection El as <-.
        rewrite (between_floats fd incl lo hi Hc Hl Hh). unfold between_of, expr_sem. rewrite Hc. reflexivity.
    + rewrite (between_slice_nonpair fd incl t n vs Hc Hp).
      destruct (rt_slice_shape _ _ _ _ E) as [[-> ->]|[-> (l & El & ->)]]; [apply between_nil|].
      apply between_list_nonpair; [exact Hc|]. rewrite (is_pair_length vs l (all_some_length _ _ _ El)). exact Hp.
  - (* []interface{} *)
    cbn [bt_safe] in Hs. destruct (is_pair vs) eqn:Hp.
    + apply andb_true_iff in Hs. destruct Hs as [Hn He]. destruct n; [discriminate|].
      destruct (rt_list_shape _ _ _ E) as [[? _]|[_ (l & El & ->)]]; [discriminate|].
      destruct (rt_elems vs He) as (l' & El' & V). rewrite El in El'. injection El' as <-.
      destruct vs as [|a [|b [|c r]]]; try discriminate.
      inversion V as [|a' ? l1 ? Va V1]; subst. inversion V1 as [|b' ? l2 ? Vb V2]; subst. inversion V2; subst.
      rewrite !(between_list_pair fd incl _ _ _ Hc). rewrite (v_int _ _ Va), (v_int _ _ Vb). reflexivity.
    + rewrite (between_list_nonpair fd incl n vs Hc Hp).
      destruct (rt_list_shape _ _ _ E) as [[-> ->]|[-> (l & El & ->)]]; [apply between_nil|].
      apply between_list_nonpair; [exact Hc|]. rewrite (is_pair_length vs l (all_some_length _ _ _ El)). exact Hp.
  - (* array *)
    cbn [bt_safe] in Hs. destruct (rt_arr_shape _ _ _ E) as (l & El & ->). destruct (is_pair vs) eqn:Hp.
    + destruct (gty_eq_dec t TA2int64) as [->|Ht]; [|destruct t; try discriminate; contradiction].
      destruct vs as [|a [|b [|c r]]]; try discriminate.
      cbn [forallb] in Hs. apply andb_true_iff in Hs. destruct Hs as [Ha Hb]. apply andb_true_iff in Hb. destruct Hb as [Hb _].
      destruct (small53_int a Ha) as (k1 & lo & -> & Hl). destruct (small53_int b Hb) as (k2 & hi & -> & Hh).
      rewrite (rt_int_pair k1 lo k2 hi Hl Hh) in El. injection El as <-.
      rewrite (between_floats fd incl lo hi Hc Hl Hh). unfold between_of, expr_sem. rewrite Hc. reflexivity.
    + rewrite (between_arr_nonpair fd incl t vs Hc Hp).
      apply between_list_nonpair; [exact Hc|]. rewrite (is_pair_length vs l (all_some_length _ _ _ El)). exact Hp.
  - destruct (rt_other_shape _ _ _ E) as [->| ->]; unfold between_of, expr_sem; rewrite Hc; reflexivity.
Qed.

(* THE EXPRESSION THEOREM: every container kind, every parser, every operator *)
Theorem value_sem_roundtrip fd incl op v : json_safe fd op v = true ->
  exists v', json_roundtrip v = Some v' /\ expr_sem fd (mk incl op v') = expr_sem fd (mk incl op v).
Proof.
  unfold json_safe. intros H. apply andb_true_iff in H. destruct H as [Hr Hs].
  assert (Hany : exists v', json_roundtrip v = Some v') by (apply rt_ok_some; exact Hr).
  destruct (fd_cont fd) eqn:Hc.
  - (* default container *)
    destruct op; try (destruct Hany as (v' & E); exists v'; split; [exact E|]; unfold expr_sem; rewrite Hc; reflexivity).
    unfold expr_sem. rewrite Hc. cbn [mk e_op e_val]. destruct (fd_parser fd).
    + destruct (lv_canon v Hr Hs) as (v' & E & A & _). exists v'. rewrite A. auto.
    + destruct (lv_canon v Hr Hs) as (v' & E & _ & B). exists v'. rewrite B. auto.
    + destruct (sv_strings v Hr Hs) as (v' & E & A). exists v'. rewrite A. auto.
    + destruct (sv_strings v Hr Hs) as (v' & E & A). exists v'. rewrite (sv_descs _ _ A). auto.
  - (* pattern container *)
    destruct op; try (destruct Hany as (v' & E); exists v'; split; [exact E|]; unfold expr_sem; rewrite Hc; reflexivity).
    unfold expr_sem. rewrite Hc. cbn [mk e_op e_val].
    destruct (sv_strings v Hr Hs) as (v' & E & A). exists v'. rewrite A. auto.
  - (* range container *)
    destruct op.
    + destruct (nil_like v) eqn:Hn.
      * destruct Hany as (v' & E). exists v'. split; [exact E|]. unfold expr_sem. rewrite Hc. cbn [mk e_op e_val].
        rewrite (rt_nil_like v v' E), Hn. reflexivity.
      * cbn [orb] in Hs. destruct (lv_canon v Hr Hs) as (v' & E & _ & B). exists v'. split; [exact E|].
        unfold expr_sem. rewrite Hc. cbn [mk e_op e_val]. rewrite (rt_nil_like v v' E), Hn, B. reflexivity.
    + destruct (bound_rt v Hr Hs) as (v' & E & B). exists v'. split; [exact E|]. rewrite !(expr_sem_gt fd incl _ Hc), B. reflexivity.
    + destruct (bound_rt v Hr Hs) as (v' & E & B). exists v'. split; [exact E|]. rewrite !(expr_sem_lt fd incl _ Hc), B. reflexivity.
    + apply (between_rt fd incl v Hc Hr Hs).
    + destruct Hany as (v' & E). exists v'. split; [exact E|]. unfold expr_sem. rewrite Hc. reflexivity.
Qed.

Theorem expr_sem_roundtrip fd e : json_safe fd (e_op e) (e_val e) = true ->
  exists e', expr_roundtrip e = Some e' /\ expr_sem fd e' = expr_sem fd e /\ e_incl e' = e_incl e /\ e_op e' = e_op e.
Proof.
  intros H. destruct (value_sem_roundtrip fd (e_incl e) (e_op e) (e_val e) H) as (v' & E & S).
  exists (mk (e_incl e) (e_op e) v'). unfold expr_roundtrip. rewrite E. split; [reflexivity|]. split; [|split; reflexivity].
  rewrite S. destruct e; reflexivity.
Qed.

(* ================================================================== *)
(* 5. conjunctions, documents, answers                                 *)
(* ================================================================== *)
Lemma all_some_Forall2 {A B} (f : A -> option B) (R : B -> A -> Prop) l :
  (forall x, In x l -> exists y, f x = Some y /\ R y x) ->
  exists l', all_some (map f l) = Some l' /\ Forall2 R l' l.
Proof.
  induction l as [|x l IH]; intros H; cbn [map all_some].
  - exists []. split; [reflexivity|constructor].
  - destruct (H x (or_introl eq_refl)) as (y & E & r).
    destruct IH as (l' & El & Rl). { intros z Hz. apply H. right. exact Hz. }
    exists (y :: l'). rewrite E, El. split; [reflexivity|constructor; assumption].
Qed.

(* e' is e decoded from its JSON encoding, and means the same on a field described by fd *)
Definition expr_rel (fd : fdesc) (e' e : expr) : Prop :=
  expr_roundtrip e = Some e' /\ expr_sem fd e' = expr_sem fd e /\ e_incl e' = e_incl e /\ e_op e' = e_op e.

Section Lift.
  Variables (fields : list fdesc) (parsers : fname -> parser_kind).

  Definition field_rel (fe' fe : fname * list expr) : Prop :=
    fst fe' = fst fe /\ Forall2 (expr_rel (field_desc fields parsers (fst fe))) (snd fe') (snd fe).
  Definition conj_rel (c' c : conj) : Prop := Forall2 field_rel c' c.

  Lemma conj_roundtrip_rel c : conj_safe fields parsers c = true ->
    exists c', conj_roundtrip c = Some c' /\ conj_rel c' c.
  Proof.
    intros H. unfold conj_safe in H. rewrite forallb_forall in H. unfold conj_roundtrip.
    apply all_some_Forall2. intros [f es] Hin. specialize (H _ Hin). cbn [fst snd] in H. rewrite forallb_forall in H.
    destruct (all_some_Forall2 expr_roundtrip (expr_rel (field_desc fields parsers f)) es) as (es' & E & R).
    { intros e He. destruct (expr_sem_roundtrip (field_desc fields parsers f) e (H e He)) as (e' & A & B & C & D).
      exists e'. split; [exact A|]. split; [exact A|]. auto. }
    exists (f, es'). unfold field_roundtrip. cbn [fst snd]. rewrite E. split; [reflexivity|]. split; [reflexivity|exact R].
  Qed.

  Lemma exprs_sem_rel fd es' es : Forall2 (expr_rel fd) es' es ->
    all_some (map (fun e => option_map (fun s => (e_incl e, s)) (expr_sem fd e)) es') =
    all_some (map (fun e => option_map (fun s => (e_incl e, s)) (expr_sem fd e)) es).
  Proof.
    induction 1 as [|e' e es' es (_ & S & I & _) _ IH]; cbn [map all_some]; [reflexivity|]. rewrite S, I, IH. reflexivity.
  Qed.

  Theorem conj_sem_rel c' c : conj_rel c' c -> conj_sem fields parsers c' = conj_sem fields parsers c.
  Proof.
    unfold conj_sem. induction 1 as [|[f' es'] [f es] c' c [Hf Hes] _ IH]; cbn [map all_some]; [reflexivity|].
    cbn [fst snd] in *. subst f'. rewrite (exprs_sem_rel _ _ _ Hes), IH. reflexivity.
  Qed.

  Lemma conj_rel_fields c' c : conj_rel c' c -> map fst c' = map fst c.
  Proof. induction 1 as [|fe' fe c' c [Hf _] _ IH]; cbn [map]; [reflexivity|]. rewrite Hf, IH. reflexivity. Qed.

  (* documents *)
  Definition doc_rel (d' d : doc) : Prop := d_id d' = d_id d /\ Forall2 conj_rel (d_conjs d') (d_conjs d).

  Lemma doc_roundtrip_rel d : doc_safe fields parsers d = true -> exists d', doc_roundtrip d = Some d' /\ doc_rel d' d.
  Proof.
    intros H. unfold doc_safe in H. rewrite forallb_forall in H.
    destruct (all_some_Forall2 conj_roundtrip conj_rel (d_conjs d)) as (cs' & E & R).
    { intros c Hc. apply conj_roundtrip_rel. apply H. exact Hc. }
    exists {| d_id := d_id d; d_conjs := cs' |}. unfold doc_roundtrip. rewrite E. split; [reflexivity|]. split; [reflexivity|exact R].
  Qed.

  Lemma Forall2_length {A B} (R : A -> B -> Prop) l l' : Forall2 R l l' -> length l = length l'.
  Proof. induction 1; cbn; congruence. Qed.

  Lemma indexed_sem_rel cs' cs : Forall2 conj_rel cs' cs -> forall n,
    map (fun ic : Z * conj => (fst ic, conj_sem fields parsers (snd ic))) (indexed_from n cs') =
    map (fun ic : Z * conj => (fst ic, conj_sem fields parsers (snd ic))) (indexed_from n cs).
  Proof.
    induction 1 as [|c' c cs' cs Hc _ IH]; intros n; cbn [indexed_from map fst snd]; [reflexivity|].
    rewrite (conj_sem_rel _ _ Hc), IH. reflexivity.
  Qed.

  (* admission looks at the id and at the number of conjunctions only (true of Spec.pl_docok) *)
  Definition docok_shallow (docok : doc -> bool) : Prop :=
    forall d' d, d_id d' = d_id d -> length (d_conjs d') = length (d_conjs d) -> docok d' = docok d.
  Lemma pl_docok_shallow : docok_shallow pl_docok.
  Proof. intros d' d Hi Hl. unfold pl_docok, doc_valid. rewrite Hi, Hl. destruct (d_conjs d'), (d_conjs d); try discriminate; reflexivity. Qed.

  Theorem doc_sem_rel pol docok d' d : docok_shallow docok -> doc_rel d' d ->
    doc_sem fields parsers pol docok d' = doc_sem fields parsers pol docok d.
  Proof.
    intros Hok [Hi Hc]. unfold doc_sem. rewrite (Hok d' d Hi (Forall2_length _ _ _ Hc)), (indexed_sem_rel _ _ Hc). reflexivity.
  Qed.

  Lemma docs_roundtrip_rel ds : forallb (doc_safe fields parsers) ds = true ->
    exists ds', docs_roundtrip ds = Some ds' /\ Forall2 doc_rel ds' ds.
  Proof.
    intros H. rewrite forallb_forall in H. apply all_some_Forall2. intros d Hd. apply doc_roundtrip_rel. apply H. exact Hd.
  Qed.

  Theorem sat_hits_rel pol docok ds' ds q : docok_shallow docok -> Forall2 doc_rel ds' ds ->
    sat_hits fields parsers pol docok ds' q = sat_hits fields parsers pol docok ds q.
  Proof.
    intros Hok H. unfold sat_hits. f_equal. f_equal.
    induction H as [|d' d ds' ds Hd _ IH]; cbn [map]; [reflexivity|].
    rewrite (doc_sem_rel pol docok d' d Hok Hd), IH. destruct Hd as [-> _]. reflexivity.
  Qed.
End Lift.

(* TRANSPARENCY, at the level of the specification: documents of the safe domain can be encoded and
   decoded, and the decoded documents select exactly the same conjunctions for EVERY assignment *)
Theorem json_transparent fields parsers pol ds :
  forallb (doc_safe fields parsers) ds = true ->
  exists ds', docs_roundtrip ds = Some ds' /\
    map d_id ds' = map d_id ds /\
    (forall q, sat_hits fields parsers pol pl_docok ds' q = sat_hits fields parsers pol pl_docok ds q) /\
    map (doc_sem fields parsers pol pl_docok) ds' = map (doc_sem fields parsers pol pl_docok) ds.
Proof.
  intros H. destruct (docs_roundtrip_rel fields parsers ds H) as (ds' & E & R). exists ds'. split; [exact E|]. split; [|split].
  - clear H E. induction R as [|d' d ds' ds [Hi _] _ IH]; cbn [map]; [reflexivity|]. rewrite Hi, IH. reflexivity.
  - intros q. apply sat_hits_rel; [apply pl_docok_shallow|exact R].
  - clear H E. induction R as [|d' d ds' ds Hd _ IH]; cbn [map]; [reflexivity|].
    rewrite (doc_sem_rel fields parsers pol pl_docok d' d (pl_docok_shallow) Hd), IH. reflexivity.
Qed.

(* the same, for one conjunction and any assignment: satisfaction is decided on the meaning *)
Corollary sat_conj_roundtrip fields parsers q c : conj_safe fields parsers c = true ->
  exists c', conj_roundtrip c = Some c' /\ map fst c' = map fst c /\
    conj_sem fields parsers c' = conj_sem fields parsers c /\
    match conj_sem fields parsers c', conj_sem fields parsers c with
    | Some s', Some s => sat_conj fields parsers q s' = sat_conj fields parsers q s
    | None, None => True
    | _, _ => False
    end.
Proof.
  intros H. destruct (conj_roundtrip_rel fields parsers c H) as (c' & E & R). exists c'. split; [exact E|].
  split; [apply (conj_rel_fields fields parsers _ _ R)|]. pose proof (conj_sem_rel fields parsers c' c R) as S. split; [exact S|].
  rewrite S. destruct (conj_sem fields parsers c); auto.
Qed.

(* ================================================================== *)
(* 6. the model's two routes for a canonical json.Number agree         *)
(* ================================================================== *)
Fixpoint zs_from (n : nat) (z : Z) : list Z := match n with O => [] | S k => z :: zs_from k (z + 1) end.
Definition fl_eqb (a b : fl) : bool :=
  (f_ip a =? f_ip b) && Bool.eqb (f_frac a) (f_frac b) &&
  match f_cls a, f_cls b with FFinite, FFinite | FNaN, FNaN | FPosInf, FPosInf | FNegInf, FNegInf => true | _, _ => false end &&
  text_eqb (f_text a) (f_text b).
Definition ofl_eqb (a b : option fl) : bool :=
  match a, b with Some x, Some y => fl_eqb x y | None, None => true | _, _ => false end.
(* json_of_number answers a canonical integer text without reading it as a JSON number; the general
   reader (json_number_float) gives the same float on every integer tried *)
Example canonical_agrees :
  forallb (fun z => ofl_eqb (json_number_float (dec_text z)) (Some (fl_of_int (f64_of_Z z))) &&
                    match canonical_int_text (dec_text z) with Some z' => z' =? z | None => false end)
          (zs_from 2001 (-1000) ++ zs_from 200 (two53 - 100) ++ zs_from 200 (- two53 - 100) ++
           zs_from 100 (two63 - 100) ++ zs_from 100 (- two63) ++
           map (fun k => 10 ^ Z.of_nat k) (seq 0 19) ++ map (fun k => - 10 ^ Z.of_nat k - 1) (seq 0 19) ++
           map (fun k => 2 ^ Z.of_nat k + 1) (seq 0 63)) = true.
Proof. vm_compute. reflexivity. Qed.

(* ================================================================== *)
(* 7. non-vacuity: the safe domain holds the usual documents           *)
(* ================================================================== *)
Definition T (s : list N) : text := s.
Definition fd_common : fdesc := {| fd_name := 0%N; fd_cont := CDefault; fd_parser := PCommon |}.
Definition fd_number : fdesc := {| fd_name := 1%N; fd_cont := CDefault; fd_parser := PNumber |}.
Definition fd_strhash : fdesc := {| fd_name := 2%N; fd_cont := CDefault; fd_parser := PStrHash |}.
Definition fd_numrange : fdesc := {| fd_name := 3%N; fd_cont := CDefault; fd_parser := PNumRange |}.
Definition fd_ac : fdesc := {| fd_name := 4%N; fd_cont := CAc; fd_parser := PCommon |}.
Definition fd_range : fdesc := {| fd_name := 5%N; fd_cont := CRange; fd_parser := PCommon |}.
Definition fl37 : fl := Build_fl 3 true FFinite [51; 46; 55]%N.           (* 3.7 *)

Example safe_examples :
  forallb (fun x : fdesc * vop * gval => let '(fd, op, v) := x in json_safe fd op v)
    [ (fd_common, OpEQ, VInt KI 7); (fd_common, OpEQ, VInt KU64 two53); (fd_common, OpEQ, VInt KI64 (- two53));
      (fd_common, OpEQ, VSlice TSint32 false [VInt KI32 1; VInt KI32 (-2)]);
      (fd_common, OpEQ, VSlice TSfloat64 false [VFloat false fl37]);
      (fd_common, OpEQ, VFloat true (Build_fl 2 true FFinite [50; 46; 53]%N));
      (fd_common, OpEQ, VSlice TSstring false [VStr [114; 101; 100]%N]);
      (fd_common, OpEQ, VJson [45; 51]%N); (fd_common, OpEQ, VSlice TSjsonNumber false [VJson [55]%N]);
      (fd_common, OpEQ, VList false [VInt KI8 1; VStr [97]%N; VJson [49; 48]%N; VFloat false fl37]);
      (fd_common, OpEQ, VList false []); (fd_common, OpEQ, VNil); (fd_common, OpEQ, VBool true);
      (fd_number, OpEQ, VSlice TSuint16 false [VInt KU16 65535]); (fd_number, OpEQ, VStr [49; 50]%N);
      (fd_strhash, OpEQ, VSlice TSstring false [VStr [97]%N; VStr [98]%N]); (fd_strhash, OpEQ, VStr []);
      (fd_numrange, OpEQ, VStr [49; 58; 53]%N); (fd_numrange, OpEQ, VList false [VStr [49; 58; 53; 58; 50]%N]);
      (fd_ac, OpEQ, VSlice TSstring false [VStr [114; 101; 100]%N]); (fd_ac, OpEQ, VStr [114; 101]%N);
      (fd_range, OpEQ, VSlice TSint64 false [VInt KI64 5; VInt KI64 (-9)]); (fd_range, OpEQ, VSlice TSint64 true []);
      (fd_range, OpEQ, VNil);
      (fd_range, OpGT, VInt KI64 100); (fd_range, OpLT, VFloat false fl37); (fd_range, OpGT, VStr [49; 50]%N);
      (fd_range, OpBetween, VArr TA2int64 [VInt KI64 5; VInt KI64 9]);
      (fd_range, OpBetween, VSlice TSint64 false [VInt KI64 (-5); VInt KI64 9]);
      (fd_range, OpBetween, VStr [53; 58; 57]%N);
      (fd_range, OpBetween, VList false [VInt KI 5; VFloat false fl37]) ] = true.
Proof. vm_compute. reflexivity. Qed.

(* the decoded [2]int64 pair is a list of two float64, and denotes the same interval *)
Example between_pair_decoded :
  json_roundtrip (VArr TA2int64 [VInt KI64 5; VInt KI64 9]) =
    Some (VList false [VFloat false (Build_fl 5 false FFinite [53]%N); VFloat false (Build_fl 9 false FFinite [57]%N)]) /\
  expr_sem fd_range (mk true OpBetween (VArr TA2int64 [VInt KI64 5; VInt KI64 9])) = Some (ERange 5 9) /\
  expr_sem fd_range (mk true OpBetween (VList false [VFloat false (fl_of_int 5); VFloat false (fl_of_int 9)])) = Some (ERange 5 9).
Proof. vm_compute. repeat split. Qed.

(* ================================================================== *)
(* 8. REFUTATIONS: values outside the safe domain whose meaning changes *)
(* ================================================================== *)
Definition rt_sem (fd : fdesc) (op : vop) (v : gval) : option (option esem) :=
  option_map (fun v' => expr_sem fd (mk true op v')) (json_roundtrip v).
Definition esem_eqb (a b : esem) : bool :=
  match a, b with
  | ETexts x, ETexts y | EKeywords x, EKeywords y => (fix go (x y : list text) := match x, y with [] , [] => true | s :: x', t :: y' => text_eqb s t && go x' y' | _, _ => false end) x y
  | ENums x, ENums y => (fix go (x y : list Z) := match x, y with [], [] => true | s :: x', t :: y' => (s =? t) && go x' y' | _, _ => false end) x y
  | ERange l r, ERange l' r' => (l =? l') && (r =? r')
  | _, _ => false
  end.
(* the meaning changes: the value can be encoded and decoded, and denotes something else (or starts / stops denoting) *)
Definition changes (fd : fdesc) (op : vop) (v : gval) : bool :=
  match rt_sem fd op v with
  | Some s' => match s', expr_sem fd (mk true op v) with
               | Some a, Some b => negb (esem_eqb a b)
               | None, None => false
               | _, _ => true end
  | None => false
  end.
Lemma changes_sound fd op v : changes fd op v = true ->
  exists v', json_roundtrip v = Some v' /\ expr_sem fd (mk true op v') <> expr_sem fd (mk true op v).
Proof.
  unfold changes, rt_sem. destruct (json_roundtrip v) as [v'|]; [|discriminate]. cbn [option_map]. intros H.
  exists v'. split; [reflexivity|]. intros E. rewrite E in H.
  destruct (expr_sem fd (mk true op v)) as [s|]; [|discriminate].
  assert (R : esem_eqb s s = true).
  { clear. assert (Ht : forall t, text_eqb t t = true) by (induction t; cbn; [reflexivity|rewrite N.eqb_refl; exact IHt]).
    destruct s; cbn.
    - induction ts; [reflexivity|]. rewrite Ht. exact IHts.
    - induction zs; [reflexivity|]. rewrite Z.eqb_refl. exact IHzs.
    - rewrite !Z.eqb_refl. reflexivity.
    - induction ks; [reflexivity|]. rewrite Ht. exact IHks. }
  rewrite R in H. discriminate.
Qed.

(* F13: an integer beyond 2^53 comes back as the nearest float64 *)
Definition big : Z := 9007199254740993.
Example F13_value :
  json_roundtrip (VInt KI64 big) = Some (VFloat false (fl_of_int 9007199254740992)) /\
  json_safe fd_common OpEQ (VInt KI64 big) = false /\
  expr_sem fd_common (mk true OpEQ (VInt KI64 big)) = Some (ETexts [dec_text 9007199254740993]) /\
  rt_sem fd_common OpEQ (VInt KI64 big) = Some (Some (ETexts [dec_text 9007199254740992])).
Proof. vm_compute. repeat split. Qed.
Example F13_changes :
  forallb (fun x : fdesc * vop * gval => let '(fd, op, v) := x in changes fd op v && negb (json_safe fd op v))
    [ (fd_common, OpEQ, VInt KI64 big); (fd_common, OpEQ, VInt KI64 (- big)); (fd_number, OpEQ, VInt KU64 big);
      (fd_common, OpEQ, VSlice TSint64 false [VInt KI64 1; VInt KI64 big]); (fd_common, OpEQ, VList false [VInt KI big]);
      (fd_range, OpEQ, VSlice TSint64 false [VInt KI64 big]); (fd_range, OpGT, VInt KI64 big); (fd_range, OpLT, VInt KI64 big);
      (fd_range, OpBetween, VArr TA2int64 [VInt KI64 0; VInt KI64 big]);
      (fd_range, OpBetween, VSlice TSint64 false [VInt KI64 (- big); VInt KI64 5]);
      (fd_common, OpEQ, VJson (dec_text big));                          (* a canonical json.Number beyond 2^53 as well *)
      (fd_number, OpEQ, VInt KU64 18446744073709551615) ] = true.       (* uint64 max: -1 before, nothing after *)
Proof. vm_compute. reflexivity. Qed.

(* F15: a json.Number whose text is not the canonical decimal text of an integer is indexed under its literal
   text by the default parser, and comes back as a float64, indexed under its integer part *)
Definition jn10 : gval := VJson [49; 46; 48]%N.       (* "1.0" *)
Definition jn27 : gval := VJson [50; 46; 55]%N.       (* "2.7" *)
Definition jn1e3 : gval := VJson [49; 101; 51]%N.     (* "1e3" *)
Definition jnm0 : gval := VJson [45; 48]%N.           (* "-0"  *)
Example F15_values :
  expr_sem fd_common (mk true OpEQ jn10) = Some (ETexts [[49; 46; 48]%N]) /\ rt_sem fd_common OpEQ jn10 = Some (Some (ETexts [[49]%N])) /\
  expr_sem fd_common (mk true OpEQ jn27) = Some (ETexts [[50; 46; 55]%N]) /\ rt_sem fd_common OpEQ jn27 = Some (Some (ETexts [[50]%N])) /\
  expr_sem fd_common (mk true OpEQ jn1e3) = Some (ETexts [[49; 101; 51]%N]) /\ rt_sem fd_common OpEQ jn1e3 = Some (Some (ETexts [[49; 48; 48; 48]%N])) /\
  expr_sem fd_common (mk true OpEQ jnm0) = Some (ETexts [[45; 48]%N]) /\ rt_sem fd_common OpEQ jnm0 = Some (Some (ETexts [[48]%N])).
Proof. vm_compute. repeat split. Qed.
Example F15_changes :
  forallb (fun v => changes fd_common OpEQ v && negb (json_safe fd_common OpEQ v))
    [ jn10; jn27; jn1e3; jnm0; VJson [];                                 (* "" is written 0 *)
      VSlice TSjsonNumber false [jn1e3; VJson [55]%N]; VList false [jn10; VStr [114; 101; 100]%N];
      VJson [49; 48; 48; 46; 53]%N ] = true.
Proof. vm_compute. reflexivity. Qed.
(* ... while the number parser and the range container read the same integer before and after (the literal is
   parsed at indexing time there): F15 is a defect of the default parser only *)
Example F15_number_parser_unaffected :
  forallb (fun v => negb (changes fd_number OpEQ v) && negb (changes fd_range OpEQ v) && negb (changes fd_range OpGT v))
    [ jn10; jn27; jnm0; VJson [49; 48; 48; 46; 53]%N ] = true.
Proof. vm_compute. reflexivity. Qed.

(* OTHER value classes whose meaning changes (potential findings) *)
(* N1: a float32 of magnitude >= 2^24 is written with the shortest digits that identify it AS A FLOAT32 and read
   back as a float64: float32(2^30) = 1073741824 is written 1073741800 *)
Definition f32_2p30 : gval := VFloat true (Build_fl 1073741824 false FFinite [49; 46; 48; 55; 51; 55; 52; 49; 56; 101; 43; 48; 57]%N).
Example N1_float32 :
  rt_sem fd_common OpEQ f32_2p30 = Some (Some (ETexts [dec_text 1073741800])) /\
  expr_sem fd_common (mk true OpEQ f32_2p30) = Some (ETexts [dec_text 1073741824]) /\
  forallb (fun x : fdesc * vop => changes (fst x) (snd x) f32_2p30)
    [(fd_common, OpEQ); (fd_number, OpEQ); (fd_range, OpEQ); (fd_range, OpGT); (fd_range, OpLT)] = true /\
  changes fd_common OpEQ (VSlice TSfloat32 false [f32_2p30]) = true.
Proof. vm_compute. repeat split. Qed.

(* N2: a NIL slice is written null and comes back as the nil interface: an expression that listed no values
   (accepted, selects nothing) is refused after decoding -- the conjunction, or under the Error policy the
   whole document, is lost.  Default and pattern containers; the range container treats both as "no values". *)
Example N2_nil_slice :
  expr_sem fd_common (mk false OpEQ (VSlice TSint true [])) = Some (ETexts []) /\
  rt_sem fd_common OpEQ (VSlice TSint true []) = Some None /\
  forallb (fun x : fdesc * gval => changes (fst x) OpEQ (snd x))
    [(fd_common, VSlice TSint true []); (fd_number, VSlice TSint64 true []); (fd_strhash, VSlice TSstring true []);
     (fd_numrange, VSlice TSstring true []); (fd_ac, VSlice TSstring true []); (fd_common, VList true [])] = true /\
  changes fd_range OpEQ (VSlice TSint64 true []) = false.
Proof. vm_compute. repeat split. Qed.

(* N3: the Go type is lost.  A value the library REFUSES because of its type (an array, an empty slice of an
   unsupported element type, a typed pair that `between` does not take) comes back as []interface{} and is ACCEPTED *)
Example N3_type_lost :
  forallb (fun x : fdesc * vop * gval => let '(fd, op, v) := x in
             changes fd op v && match expr_sem fd (mk true op v) with None => true | Some _ => false end)
    [ (fd_common, OpEQ, VArr TA2int64 [VInt KI64 5; VInt KI64 9]);            (* [2]int64{5,9} on a default field *)
      (fd_range, OpEQ, VArr TA2int64 [VInt KI64 5; VInt KI64 9]);
      (fd_common, OpEQ, VSlice TSbool false []);                              (* []bool{} *)
      (fd_strhash, OpEQ, VSlice TSint false []);                              (* []int{} under the string parser *)
      (fd_ac, OpEQ, VSlice TSint false []);
      (fd_range, OpBetween, VSlice TSint false [VInt KI 5; VInt KI 9]);       (* []int{5,9}: not a between value; decoded: [5,9) *)
      (fd_range, OpBetween, VSlice TSfloat64 false [VFloat false (fl_of_int 5); VFloat false (fl_of_int 9)]) ] = true.
Proof. vm_compute. reflexivity. Qed.

(* the same at the level of answers: one document, one query that is answered differently after decoding *)
Definition one_doc (v : gval) : doc := {| d_id := 1; d_conjs := [[(0%N, [mk true OpEQ v])]] |}.
Definition answers (ds : option (list doc)) (q : assignment) : option (list (Z * (Z * Z))) :=
  match ds with Some l => sat_hits [] (fun _ => PCommon) PolError pl_docok l q | None => None end.
Example F13_answers :
  let q := [(0%N, VInt KI64 big)] in
  answers (Some [one_doc (VInt KI64 big)]) q = Some [(1, (0, 1))] /\
  answers (docs_roundtrip [one_doc (VInt KI64 big)]) q = Some [] /\
  answers (Some [one_doc (VInt KI64 big)]) [(0%N, VInt KI64 (big - 1))] = Some [] /\
  answers (docs_roundtrip [one_doc (VInt KI64 big)]) [(0%N, VInt KI64 (big - 1))] = Some [(1, (0, 1))].
Proof. vm_compute. repeat split. Qed.
Example F15_answers :
  answers (Some [one_doc jn10]) [(0%N, VStr [49; 46; 48]%N)] = Some [(1, (0, 1))] /\
  answers (docs_roundtrip [one_doc jn10]) [(0%N, VStr [49; 46; 48]%N)] = Some [] /\
  answers (Some [one_doc jn10]) [(0%N, VInt KI 1)] = Some [] /\
  answers (docs_roundtrip [one_doc jn10]) [(0%N, VInt KI 1)] = Some [(1, (0, 1))] /\
  answers (Some [one_doc jn1e3]) [(0%N, VInt KI 1000)] = Some [] /\
  answers (docs_roundtrip [one_doc jn1e3]) [(0%N, VInt KI 1000)] = Some [(1, (0, 1))] /\
  answers (Some [one_doc jnm0]) [(0%N, VInt KI 0)] = Some [] /\
  answers (docs_roundtrip [one_doc jnm0]) [(0%N, VInt KI 0)] = Some [(1, (0, 1))] /\
  answers (Some [one_doc jn27]) [(0%N, VFloat false (Build_fl 2 true FFinite [50; 46; 55]%N))] = Some [] /\
  answers (docs_roundtrip [one_doc jn27]) [(0%N, VFloat false (Build_fl 2 true FFinite [50; 46; 55]%N))] = Some [(1, (0, 1))].
Proof. vm_compute. repeat split. Qed.
Example N1_answers :
  answers (Some [one_doc f32_2p30]) [(0%N, VInt KI 1073741824)] = Some [(1, (0, 1))] /\
  answers (docs_roundtrip [one_doc f32_2p30]) [(0%N, VInt KI 1073741824)] = Some [].
Proof. vm_compute. repeat split. Qed.
(* N2 at the level of answers: `f0 in [7] and f1 not in []string(nil)` is lost *)
Definition d_nil : doc :=
  {| d_id := 1; d_conjs := [[(0%N, [mk true OpEQ (VInt KI 7)]); (1%N, [mk false OpEQ (VSlice TSstring true [])])]] |}.
Example N2_answers :
  answers (Some [d_nil]) [(0%N, VInt KI 7)] = Some [(1, (0, 1))] /\
  answers (docs_roundtrip [d_nil]) [(0%N, VInt KI 7)] = Some [].
Proof. vm_compute. repeat split. Qed.

(* a safe document, end to end by computation (the theorem says so for every query) *)
Definition d_safe : doc :=
  {| d_id := -3; d_conjs := [[(0%N, [mk true OpEQ (VSlice TSint false [VInt KI 7; VInt KI (-2)])]);
                              (1%N, [mk false OpEQ (VList false [VStr [114; 101; 100]%N; VJson [53]%N; VFloat false fl37])])];
                             [(0%N, [mk true OpEQ (VInt KU64 two53)])]] |}.
Example safe_doc_ok :
  doc_safe [] (fun _ => PCommon) d_safe = true /\
  answers (docs_roundtrip [d_safe]) [(0%N, VStr [55]%N); (1%N, VInt KI 4)] = Some [(-3, (0, 1))] /\
  answers (Some [d_safe]) [(0%N, VStr [55]%N); (1%N, VInt KI 4)] = Some [(-3, (0, 1))] /\
  answers (docs_roundtrip [d_safe]) [(0%N, VStr [55]%N); (1%N, VInt KI 3)] = Some [].
Proof. vm_compute. repeat split. Qed.

Print Assumptions value_sem_roundtrip.
Print Assumptions expr_sem_roundtrip.
Print Assumptions conj_sem_rel.
Print Assumptions doc_sem_rel.
Print Assumptions sat_hits_rel.
Print Assumptions sat_conj_roundtrip.
Print Assumptions json_transparent.
Print Assumptions changes_sound.
Print Assumptions F13_changes.
Print Assumptions F15_changes.
