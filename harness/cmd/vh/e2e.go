package main

import (
	"encoding/json"
	"fmt"
	"reflect"
	"sort"
	"strings"

	be "github.com/echoface/be_indexer"
	_ "github.com/echoface/be_indexer/holder/ahoholder"
	_ "github.com/echoface/be_indexer/holder/rangeholder"
	"github.com/echoface/be_indexer/parser"
)

// ---- case description (inputs only) ----

type eExpr struct {
	F   int  `json:"f"` // field number; the Go field name is "f<F>"
	Inc bool `json:"inc"`
	Op  int  `json:"op"` // be.ValueOpt
	V   TV   `json:"v"`
}
type eConj []eExpr
type eDoc struct {
	ID   int64   `json:"id"`
	Cons []eConj `json:"cons"`
}
type eAssign struct {
	F int `json:"f"`
	V TV  `json:"v"`
}
type eQuery struct {
	A     []eAssign `json:"a"`
	Debug bool      `json:"dbg,omitempty"` // run the collector pass with WithStepDetail/WithDumpEntries
}
type eCase struct {
	Kind       string         `json:"kind"`   // kgroups | compact
	Policy     string         `json:"policy"` // error | skip | panic
	Configs    map[int]string `json:"configs,omitempty"`
	Parsers    map[int]string `json:"parsers,omitempty"` // number | strhash | numrange (default holder FieldParser)
	Docs       []eDoc         `json:"docs"`
	Queries    []eQuery       `json:"queries"`
	Batch      int            `json:"batch,omitempty"`        // > 1: documents are handed to AddDocument in groups of up to Batch
	Pre        []eDoc         `json:"pre,omitempty"`          // an earlier generation of the same builder: these documents are added, the index is built and dropped, the builder is Reset
	LateConfig []int          `json:"late_config,omitempty"`  // default-container fields declared with ConfigField AFTER the documents of the earlier generation went in (they introduced their fields on the fly) and before its Reset
	PreNoBuild bool           `json:"pre_no_build,omitempty"` // ... an ABANDONED one: its feed failed, the caller Resets without ever building
	Rebuild    int            `json:"rebuild,omitempty"`      // > 0: BuildIndex is also called after the first Rebuild documents (no Reset); the final build is the one queried
	Dump       bool           `json:"dump,omitempty"`         // the debug dumps of the built index (DumpEntries, DumpIndexInfo: what PrintIndexEntries / PrintIndexInfo print) are called before the queries; they are also called when some query carries the debug options
	Warm       int            `json:"warm,omitempty"`         // > 0: the builder has a cache provider (threshold = Warm values) that an EARLIER builder filled with the same documents: the queried index is built from the cache
}

func fieldName(f int) be.BEField { return be.BEField(fmt.Sprintf("f%d", f)) }

// silent logger: debug options log through be.Logger
type nullLogger struct{}

func (l *nullLogger) Debugf(string, ...interface{}) {}
func (l *nullLogger) Infof(string, ...interface{})  {}
func (l *nullLogger) Errorf(string, ...interface{}) {}

func init() { be.Logger = &nullLogger{} }

type recCollector struct{ hits [][3]int64 }

func (c *recCollector) Add(id be.DocID, conj be.ConjID) {
	c.hits = append(c.hits, [3]int64{int64(id), int64(conj.Index()), int64(conj.Size())})
}
func (c *recCollector) GetDocIDs() be.DocIDList     { return nil }
func (c *recCollector) GetDocIDsInto(*be.DocIDList) {}

func mkParser(name string) parser.FieldValueParser {
	switch name {
	case "number":
		return parser.NewNumberParser()
	case "strhash":
		return parser.NewStrHashParser()
	case "numrange":
		return parser.NewNumRangeParser()
	case "dense": // the common parser with the library's dense allocator (ids 0, 1, 2, ... in order of first appearance)
		// set through the exported field; to the model it is the common parser: ids are an injective naming of texts
		p := parser.NewCommonParser()
		p.StrIDAllocator = parser.NewIDAllocatorImpl()
		return p
	case "customhash": // the common parser over a hash allocator with a hash function of the caller's (NewHashAllocator(fn)); used for
		// generations that are never queried (C14)
		p := parser.NewCommonParser()
		p.StrIDAllocator = parser.NewHashAllocator(func(s string) uint64 {
			h := uint64(1469598103934665603)
			for i := 0; i < len(s); i++ {
				h = (h ^ uint64(s[i])) * 1099511628211 // FNV-1a: another function than the stock FNV-1
			}
			return h ^ 0x5bd1e995
		})
		return p
	// the geohash parser is not in the Coq model: used by C16's panic-freedom probe only
	case "geohash":
		return parser.NewGeoHashParser(nil)
	case "geohash7":
		return parser.NewGeoHashParser(&parser.GeoOption{Precision: 7})
	case "geohash8":
		return parser.NewGeoHashParser(&parser.GeoOption{Precision: 8, CompressPrecisionCutoff: 6})
	}
	return nil
}

// the default holder factory is a process-wide registry: install per case, restore afterwards
func installParsers(ps map[int]string) func() {
	if len(ps) == 0 {
		return func() {}
	}
	be.RegisterEntriesHolder(be.HolderNameDefault, func() be.EntriesHolder {
		h := be.NewDefaultEntriesHolder()
		for f, p := range ps {
			h.FieldParser[fieldName(f)] = mkParser(p)
		}
		return h
	})
	return func() {
		be.RegisterEntriesHolder(be.HolderNameDefault, func() be.EntriesHolder { return be.NewDefaultEntriesHolder() })
	}
}

// withPre: the same case on a REUSED builder -- an earlier generation (the same documents under other ids) was
// added and built, then the builder was Reset; field configuration must survive, nothing else may
func withPre(c eCase) eCase {
	c.Pre = nil
	for _, d := range c.Docs {
		c.Pre = append(c.Pre, eDoc{ID: d.ID/2 + 100000, Cons: d.Cons})
	}
	return c
}

func newBuilder(c *eCase, extra ...be.BuilderOpt) *be.IndexerBuilder {
	opts := []be.BuilderOpt{}
	switch c.Policy {
	case "skip":
		opts = append(opts, be.WithBadConjBehavior(be.SkipBadConj))
	case "panic":
		opts = append(opts, be.WithBadConjBehavior(be.PanicBadConj))
	default:
		opts = append(opts, be.WithBadConjBehavior(be.ErrorBadConj))
	}
	opts = append(opts, extra...)
	var b *be.IndexerBuilder
	if c.Kind == "compact" {
		b = be.NewCompactIndexerBuilder(opts...)
	} else {
		b = be.NewIndexerBuilder(opts...)
	}
	for _, f := range sortedKeys(c.Configs) {
		b.ConfigField(fieldName(f), be.FieldOption{Container: c.Configs[f]})
	}
	return b
}

func sortedKeys(m map[int]string) []int {
	ks := make([]int, 0, len(m))
	for k := range m {
		ks = append(ks, k)
	}
	sort.Ints(ks)
	return ks
}

func (d *eDoc) build() *be.Document {
	newCallerObject()
	doc := be.NewDocument(be.DocID(d.ID))
	// a caller may hand the library SUB-SLICES of one table: a typed list that is a proper prefix of an earlier list
	// of the same document is materialised as that list's prefix (same backing array)
	var tables []reflect.Value
	share := func(v interface{}) interface{} {
		rv := reflect.ValueOf(v)
		if v == nil || rv.Kind() != reflect.Slice || rv.Len() == 0 || rv.Type().Elem().Kind() == reflect.Interface {
			return v
		}
		for _, t := range tables {
			if t.Type() == rv.Type() && rv.Len() < t.Len() && reflect.DeepEqual(t.Slice(0, rv.Len()).Interface(), v) {
				return t.Slice(0, rv.Len()).Interface()
			}
		}
		tables = append(tables, rv)
		return v
	}
	for _, cj := range d.Cons {
		conj := be.NewConjunction()
		if callerReusesBuffers && len(cj) == 0 {
			// an expression-less conjunction written as a struct literal or decoded from {"cons":[{}]}: its Expressions map is nil
			conj = &be.Conjunction{}
		}
		for _, e := range cj {
			conj.AddBoolExprs(&be.BooleanExpr{Field: fieldName(e.F),
				BoolValues: be.BoolValues{Incl: e.Inc, Value: share(e.V.Value()), Operator: be.ValueOpt(e.Op)}})
		}
		doc.AddConjunction(conj)
	}
	return doc
}

func (q *eQuery) build() be.Assignments {
	newCallerObject()
	a := be.Assignments{}
	for _, x := range q.A {
		a[fieldName(x.F)] = x.V.Value()
	}
	return a
}

// ---- Gallina printers ----

func opCoq(op int) string {
	switch op {
	case 0:
		return "OpEQ"
	case 1:
		return "OpGT"
	case 2:
		return "OpLT"
	case 3:
		return "OpBetween"
	}
	return "OpOther"
}

func (cj eConj) coq() string {
	// group by field, keeping first-occurrence order (a Go map field -> []expr)
	var order []int
	groups := map[int][]string{}
	for _, e := range cj {
		if _, ok := groups[e.F]; !ok {
			order = append(order, e.F)
		}
		groups[e.F] = append(groups[e.F], fmt.Sprintf("Build_expr %s %s %s", bl(e.Inc), opCoq(e.Op), e.V.Coq()))
	}
	var fs []string
	for _, f := range order {
		fs = append(fs, fmt.Sprintf("(%d%%N, %s)", f, listl(groups[f])))
	}
	return listl(fs)
}

func (d *eDoc) coq() string {
	cs := make([]string, len(d.Cons))
	for i, c := range d.Cons {
		cs[i] = c.coq()
	}
	return fmt.Sprintf("Build_doc %s %s", zl(d.ID), listl(cs))
}

func (q *eQuery) coq() string {
	as := make([]string, len(q.A))
	for i, x := range q.A {
		as[i] = fmt.Sprintf("(%d%%N, %s)", x.F, x.V.Coq())
	}
	return listl(as)
}

func contCoq(s string) string {
	switch s {
	case be.HolderNameACMatcher:
		return "CAc"
	case be.HolderNameExtendRange:
		return "CRange"
	}
	return "CDefault"
}
func parserCoq(s string) string {
	switch s {
	case "number":
		return "PNumber"
	case "strhash":
		return "PStrHash"
	case "numrange":
		return "PNumRange"
	}
	return "PCommon"
}

func safeCall(f func()) (panicked bool) {
	defer func() {
		if r := recover(); r != nil {
			panicked = true
		}
	}()
	f()
	return false
}

// hitsCoq: the collector calls as a multiset (sorted: their order follows the scan, which the checks do not fix)
func hitsCoq(h [][3]int64) string {
	h = append([][3]int64{}, h...)
	sort.Slice(h, func(i, j int) bool {
		for k := 0; k < 3; k++ {
			if h[i][k] != h[j][k] {
				return h[i][k] < h[j][k]
			}
		}
		return false
	})
	s := make([]string, len(h))
	for i, x := range h {
		s[i] = fmt.Sprintf("(%s, (%s, %s))", zl(x[0]), zl(x[1]), zl(x[2]))
	}
	return listl(s)
}

type e2eObs struct {
	Adds    []string
	Results []string // per query: "docs=[..]" | "err" | "panic"
	AnyHit  bool
	AnyExcl bool // a query where some document matched and some document was indexed but did not match
	NDocsOK int
}

func docIDs(l be.DocIDList) []int64 {
	r := make([]int64, len(l))
	for i, d := range l {
		r[i] = int64(d)
	}
	return r
}

var retrievedLists int // successful Retrieve calls so far: alternates between keeping the returned list and overwriting it

// runIndexQueries runs the queries of a case against a built index; returns the ires literals.
func runIndexQueries(index be.BEIndex, qs []eQuery, obs *e2eObs) []string {
	var out []string
	type heldList struct {
		at   int
		q    *eQuery
		docs be.DocIDList
		hits string
	}
	var held []heldList // the lists Retrieve handed out, kept by the caller and read again after all later retrievals
	defer func() {
		for _, h := range held {
			out[h.at] = fmt.Sprintf("(%s, IRes %s %s)", h.q.coq(), zlist(docIDs(h.docs)), h.hits)
		}
	}()
	for i := range qs {
		q := &qs[i]
		var docs be.DocIDList
		var err error
		lit := ""
		p := safeCall(func() { docs, err = index.Retrieve(q.build()) })
		switch {
		case p:
			lit = "IPanic"
			obs.Results = append(obs.Results, "panic")
		case err != nil:
			lit = "IErr"
			obs.Results = append(obs.Results, "err")
		default:
			rec := &recCollector{}
			var err2 error
			var opts []be.IndexOpt
			if q.Debug {
				opts = []be.IndexOpt{be.WithStepDetail(), be.WithDumpEntries()}
			}
			p2 := safeCall(func() { err2 = index.RetrieveWithCollector(q.build(), rec, opts...) })
			if p2 {
				lit = "IPanic"
				obs.Results = append(obs.Results, "panic(collector)")
			} else if err2 != nil {
				lit = "IErr"
				obs.Results = append(obs.Results, "err(collector)")
			} else {
				lit = fmt.Sprintf("IRes %s %s", zlist(docIDs(docs)), hitsCoq(rec.hits))
				if retrievedLists++; retrievedLists%2 == 0 {
					// the list Retrieve returns is the caller's: every other one is consumed in place (the `ids[:0]`
					// filter idiom overwrites its elements), which no later answer of any index may show
					for k := range docs {
						docs[k] = be.DocID(-90001 - int64(k))
					}
				} else {
					held = append(held, heldList{at: len(out), q: q, docs: docs, hits: hitsCoq(rec.hits)})
				}
				obs.Results = append(obs.Results, fmt.Sprintf("docs=%v", docIDs(docs)))
				if len(docs) > 0 {
					obs.AnyHit = true
					if len(docs) < obs.NDocsOK {
						obs.AnyExcl = true
					}
				}
			}
		}
		out = append(out, fmt.Sprintf("(%s, %s)", q.coq(), lit))
	}
	return out
}

func (c *eCase) header() string {
	var cfgs, prs []string
	for _, f := range sortedKeys(c.Configs) {
		cfgs = append(cfgs, fmt.Sprintf("(%d%%N, %s)", f, contCoq(c.Configs[f])))
	}
	for _, f := range sortedKeys(c.Parsers) {
		prs = append(prs, fmt.Sprintf("(%d%%N, %s)", f, parserCoq(c.Parsers[f])))
	}
	kind := "IKGroups"
	if c.Kind == "compact" {
		kind = "ICompact"
	}
	pol := map[string]string{"error": "PolError", "skip": "PolSkip", "panic": "PolPanic"}[c.Policy]
	if pol == "" {
		pol = "PolError"
	}
	return fmt.Sprintf("%s %s %s %s", kind, pol, listl(cfgs), listl(prs))
}

// execE2E builds the index of the case with the real code, runs the queries and prints the ecase literal.
func execE2E(raw json.RawMessage) (res execResult, err error) {
	var c eCase
	if err = json.Unmarshal(raw, &c); err != nil {
		return
	}
	restore := installParsers(c.Parsers)
	defer restore()
	obs := &e2eObs{}
	b := newBuilder(&c)
	if c.Warm > 0 {
		defer func(v int) { be.BetterToCacheMaxItemsCount = v }(be.BetterToCacheMaxItemsCount)
		be.BetterToCacheMaxItemsCount = c.Warm
		cache := &lossyCache{r: &Rand{s: 1}, data: map[be.ConjID][]byte{}}
		cold := newBuilder(&c, be.WithCacheProvider(cache))
		for i := range c.Docs {
			safeCall(func() { cold.AddDocument(c.Docs[i].build()) })
		}
		safeCall(func() { cold.BuildIndex() })
		b = newBuilder(&c, be.WithCacheProvider(cache))
	}
	var docLits []string
	addOne := func(bb *be.IndexerBuilder, docs ...*be.Document) string {
		var aerr error
		p := safeCall(func() { aerr = bb.AddDocument(docs...) })
		switch {
		case p:
			return "IAddPanic"
		case aerr != nil:
			return "IAddErr"
		}
		return "IAddOk"
	}
	// the index of the earlier generation is KEPT: what it answers right after its build it must still answer when the
	// builder has been Reset, fed and built again (compared Go-side at the end of the case)
	var preIdx be.BEIndex
	var preAns []string
	defer func() {
		if preIdx != nil {
			if now := answersOf(preIdx, c.Queries); !reflect.DeepEqual(now, preAns) {
				e2eViolations = append(e2eViolations, fmt.Sprintf("the index of an earlier generation (%s, ids %v) answers differently after its builder was Reset and built the next one: before %v, after %v", c.Kind, preIDs(c.Pre), preAns, now))
			}
		}
	}()
	var preObjs []*be.Document // the objects of the earlier generation, which the caller edits into the documents of this one
	if len(c.Pre) > 0 {
		for i := range c.Pre {
			o := c.Pre[i].build()
			preObjs = append(preObjs, o)
			addOne(b, o)
		}
		for _, f := range c.LateConfig {
			b.ConfigField(fieldName(f), be.FieldOption{Container: be.HolderNameDefault})
		}
		if !c.PreNoBuild {
			safeCall(func() { preIdx = b.BuildIndex() })
			if preIdx != nil {
				preAns = answersOf(preIdx, c.Queries)
			}
		}
		b.Reset()
	}
	// buildDoc: document i of this generation.  On the re-executions with an earlier generation, the caller does not
	// make new objects but EDITS the objects it added before, through their exported fields (id, conjunction list, the
	// expression map of each conjunction), and adds them again.
	buildDoc := func(i int) *be.Document {
		fresh := c.Docs[i].build()
		if !callerReusesBuffers || i >= len(preObjs) {
			return fresh
		}
		o := preObjs[i]
		o.ID = fresh.ID
		for j, cj := range fresh.Cons {
			if j < len(o.Cons) {
				o.Cons[j].Expressions = cj.Expressions
			} else {
				o.Cons = append(o.Cons, cj)
			}
		}
		o.Cons = o.Cons[:len(fresh.Cons)]
		return o
	}
	outs := make([]string, len(c.Docs))
	if c.Batch > 1 {
		defer func(v bool) { callerReusesBuffers = v }(callerReusesBuffers)
		callerReusesBuffers = false // the documents of one group are alive together
		// AddDocument(docs...) stops at the first document it refuses: classify every document on a scratch builder
		// first, then hand the real builder groups that end at (and include) the first refused document
		scratch := newBuilder(&c)
		for i := range c.Docs {
			outs[i] = addOne(scratch, c.Docs[i].build())
		}
		for i := 0; i < len(c.Docs); {
			j := i
			var group []*be.Document
			for j < len(c.Docs) && len(group) < c.Batch {
				group = append(group, c.Docs[j].build())
				j++
				if outs[j-1] != "IAddOk" {
					break
				}
			}
			outs[j-1] = addOne(b, group...) // the group's answer is the answer for its last document
			i = j
		}
	} else {
		for i := range c.Docs {
			outs[i] = addOne(b, buildDoc(i))
			if c.Rebuild > 0 && i+1 == c.Rebuild {
				safeCall(func() { b.BuildIndex() }) // an intermediate build; more documents (and fields) follow
			}
		}
	}
	for i := range c.Docs {
		if outs[i] == "IAddOk" {
			obs.NDocsOK++
		}
		obs.Adds = append(obs.Adds, strings.TrimPrefix(outs[i], "IAdd"))
		docLits = append(docLits, fmt.Sprintf("(%s, %s)", c.Docs[i].coq(), outs[i]))
	}
	index := b.BuildIndex()
	anyDebug := c.Dump
	for i := range c.Queries {
		anyDebug = anyDebug || c.Queries[i].Debug
	}
	if anyDebug { // the (read-only) debug dumps of a built index, before it is queried and before its entries are read
		var sb strings.Builder
		safeCall(func() { index.DumpEntries(&sb) })
		safeCall(func() { index.DumpIndexInfo(&sb) })
	}
	state := "None"
	if es, z, ok := indexEntries(index); ok {
		state = fmt.Sprintf("(Some (%s, %s))", nlist(es), nlist(z))
	}
	qLits := runIndexQueries(index, c.Queries, obs)
	res.Coq = fmt.Sprintf("Build_ecase %s\n    %s\n    %s\n    %s", c.header(), listl(docLits), listl(qLits), state)
	res.NonTrivial = obs.AnyHit && obs.AnyExcl
	res.Dist = c.Kind + "/" + c.Policy
	res.Summary = map[string]interface{}{"adds": obs.Adds, "results": obs.Results}
	return
}

// lateConfigCases: a builder reused across generations.  The first generation's documents introduce fields on the fly,
// then a further default-container field is DECLARED (ConfigField), then Reset; the next generation introduces other
// on-the-fly fields, more of them than the first had, and uses the declared field next to them with EQUAL values in
// conjunctions of one size: every field must keep posting lists of its own, whatever ids a Reset hands out
func lateConfigCases(add func(in interface{})) {
	iv := func(f int, n int64) eExpr { return eExpr{F: f, Inc: true, V: tvSlice("[]int", tvInt("int", n))} }
	for _, kind := range []string{"kgroups", "compact"} {
		for _, late := range [][]int{{2}, {2, 3}} {
			c := eCase{Kind: kind, Policy: "error", LateConfig: late}
			c.Pre = []eDoc{{ID: 100, Cons: []eConj{{iv(0, 3), iv(1, 3)}}}, {ID: 101, Cons: []eConj{{iv(1, 4)}}}}
			// fields 4, 5, 6, 7 are new in this generation; 2 (and 3) were declared before the Reset
			c.Docs = []eDoc{
				{ID: 1, Cons: []eConj{{iv(4, 3)}}}, {ID: 2, Cons: []eConj{{iv(5, 3)}}}, {ID: 3, Cons: []eConj{{iv(6, 3)}}}, {ID: 4, Cons: []eConj{{iv(7, 3)}}},
				{ID: 5, Cons: []eConj{{iv(2, 3)}}}, {ID: 6, Cons: []eConj{{iv(3, 3)}, {iv(2, 9), iv(4, 9)}}}, {ID: 7, Cons: []eConj{{iv(0, 3)}}},
			}
			for f := 0; f <= 7; f++ {
				c.Queries = append(c.Queries, eQuery{A: []eAssign{{F: f, V: tvInt("int", 3)}}})
			}
			c.Queries = append(c.Queries, eQuery{A: []eAssign{{F: 2, V: tvInt("int", 9)}, {F: 4, V: tvInt("int", 9)}}}, eQuery{A: []eAssign{{F: 5, V: tvInt("int", 9)}, {F: 6, V: tvInt("int", 9)}}}, eQuery{})
			add(c)
		}
	}
}

var e2eViolations []string // Go-side findings of the posting-list executor, reported with the check's extra violations

func preIDs(ds []eDoc) []int64 {
	var r []int64
	for _, d := range ds {
		r = append(r, d.ID)
	}
	return r
}

// answersOf: the sorted id list (or err / panic) and the sorted collector calls for every query
func answersOf(index be.BEIndex, qs []eQuery) []string {
	var out []string
	for i := range qs {
		var docs be.DocIDList
		var err error
		if safeCall(func() { docs, err = index.Retrieve(qs[i].build()) }) {
			out = append(out, "panic")
			continue
		}
		if err != nil {
			out = append(out, "err")
			continue
		}
		ids := docIDs(docs)
		sort.Slice(ids, func(a, b int) bool { return ids[a] < ids[b] })
		rec := &recCollector{}
		safeCall(func() { index.RetrieveWithCollector(qs[i].build(), rec) })
		sort.Slice(rec.hits, func(a, b int) bool {
			for k := 0; k < 3; k++ {
				if rec.hits[a][k] != rec.hits[b][k] {
					return rec.hits[a][k] < rec.hits[b][k]
				}
			}
			return false
		})
		out = append(out, fmt.Sprint(ids, rec.hits))
	}
	return out
}
