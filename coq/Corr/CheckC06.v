(* C06: end-to-end cases (E) and RangeIdx histories (H). *)
From BE Require Export Corr.CheckE2E.
