(* Facts about Model/Roaring.v itself (not the abstract Model/Rr.v):
   1. bitmap algebra (membership, sortedness, extensionality);
   2. the scanner fold: from the fresh scanner the result is the intersection of the per-field
      results for every field order; hints restrict exactly; the no-field degenerate case;
   3. container retrieval: (wildcard OR includes) AND-NOT excludes, exclusion dominates;
   4. builder invariant per field and the end-to-end statement for default containers. *)
From Coq Require Import List NArith ZArith Bool Lia Permutation Sorted.
From BE Require Import Model.GoTypes Model.GoVal Model.Parsers Model.Index Model.Roaring.
From BE Require Gen.IdsGen Proofs.IdsProof.
Import ListNotations.
Local Open Scope N_scope.

(* ================================================================== *)
(* 1. bitmap algebra                                                   *)
(* ================================================================== *)

Lemma bm_mem_nil x : bm_mem x [] = false.
Proof. reflexivity. Qed.

Lemma bm_mem_cons x y b : bm_mem x (y :: b) = (x =? y) || bm_mem x b.
Proof. reflexivity. Qed.

Lemma bm_mem_In x b : bm_mem x b = true <-> In x b.
Proof.
  unfold bm_mem. rewrite existsb_exists. split.
  - intros [y [Hy E]]. apply N.eqb_eq in E. subst. exact Hy.
  - intros H. exists x. split; [exact H | apply N.eqb_refl].
Qed.

Theorem bm_mem_add x y b : bm_mem x (bm_add y b) = (x =? y) || bm_mem x b.
Proof.
  unfold bm_mem. induction b as [|z b IH]; cbn [bm_add existsb].
  - reflexivity.
  - destruct (y <? z) eqn:L; cbn [existsb]; [reflexivity|].
    destruct (N.eqb_spec y z) as [->|Hne]; cbn [existsb].
    + destruct (x =? z); reflexivity.
    + rewrite IH. destruct (x =? y), (x =? z); reflexivity.
Qed.

Lemma bm_mem_fold_add x l a :
  bm_mem x (fold_left (fun acc y => bm_add y acc) l a) = bm_mem x a || existsb (N.eqb x) l.
Proof.
  revert a. induction l as [|y l IH]; intros a; cbn [fold_left existsb].
  - rewrite orb_false_r. reflexivity.
  - rewrite IH, bm_mem_add. destruct (x =? y), (bm_mem x a); reflexivity.
Qed.

Theorem bm_mem_or x a b : bm_mem x (bm_or a b) = bm_mem x a || bm_mem x b.
Proof. unfold bm_or. apply bm_mem_fold_add. Qed.

Lemma bm_mem_filter x p a : bm_mem x (filter p a) = bm_mem x a && p x.
Proof.
  unfold bm_mem. induction a as [|y a IH]; cbn [filter existsb]; [reflexivity|].
  destruct (p y) eqn:E; cbn [existsb]; rewrite IH.
  - destruct (N.eqb_spec x y) as [->|]; cbn [orb]; [rewrite E|]; reflexivity.
  - destruct (N.eqb_spec x y) as [->|]; cbn [orb]; [|reflexivity].
    rewrite E, andb_false_r. reflexivity.
Qed.

Theorem bm_mem_and x a b : bm_mem x (bm_and a b) = bm_mem x a && bm_mem x b.
Proof. unfold bm_and. apply bm_mem_filter. Qed.

Theorem bm_mem_andnot x a b : bm_mem x (bm_andnot a b) = bm_mem x a && negb (bm_mem x b).
Proof. unfold bm_andnot. apply (bm_mem_filter x (fun x => negb (bm_mem x b))). Qed.

Theorem bm_empty_mem b : bm_empty b = true -> forall x, bm_mem x b = false.
Proof. destruct b; cbn; [reflexivity | discriminate]. Qed.

Lemma bm_empty_iff b : bm_empty b = true <-> forall x, bm_mem x b = false.
Proof.
  split; [apply bm_empty_mem|]. destruct b as [|y b]; [reflexivity|].
  intros H. specialize (H y). rewrite bm_mem_cons, N.eqb_refl in H. discriminate.
Qed.

(* ---- representation invariant: strictly increasing ---- *)
Definition bm_wf (b : bitmap) : Prop := StronglySorted N.lt b.

Lemma bm_wf_nil : bm_wf [].
Proof. constructor. Qed.

Lemma Forall_bm_add (P : N -> Prop) y b : P y -> Forall P b -> Forall P (bm_add y b).
Proof.
  intros Hy. induction 1 as [|z b Hz Hb IH]; cbn [bm_add].
  - constructor; [exact Hy | constructor].
  - destruct (y <? z).
    + constructor; [exact Hy|]. constructor; assumption.
    + destruct (y =? z); constructor; assumption.
Qed.

Theorem bm_add_wf y b : bm_wf b -> bm_wf (bm_add y b).
Proof.
  unfold bm_wf. induction 1 as [|z b Hs IH Hf]; cbn [bm_add].
  - constructor; constructor.
  - destruct (N.ltb_spec y z) as [L|L].
    + constructor; [constructor; assumption|].
      constructor; [exact L|]. eapply Forall_impl; [|exact Hf]. intros a Ha. cbn beta in *. lia.
    + destruct (N.eqb_spec y z) as [E|E]; [constructor; assumption|].
      constructor; [exact IH|]. apply Forall_bm_add; [lia | exact Hf].
Qed.

Theorem bm_or_wf a b : bm_wf a -> bm_wf (bm_or a b).
Proof.
  unfold bm_or. revert a. induction b as [|y b IH]; intros a Ha; cbn [fold_left]; [exact Ha|].
  apply IH. apply bm_add_wf. exact Ha.
Qed.

Lemma filter_wf p a : bm_wf a -> bm_wf (filter p a).
Proof.
  unfold bm_wf. induction 1 as [|z a Hs IH Hf]; cbn [filter]; [constructor|].
  destruct (p z); [|exact IH]. constructor; [exact IH|].
  apply Forall_forall. intros y Hy. apply filter_In in Hy. destruct Hy as [Hy _].
  rewrite Forall_forall in Hf. apply Hf. exact Hy.
Qed.

Theorem bm_and_wf a b : bm_wf a -> bm_wf (bm_and a b).
Proof. apply filter_wf. Qed.

Theorem bm_andnot_wf a b : bm_wf a -> bm_wf (bm_andnot a b).
Proof. apply filter_wf. Qed.

Lemma bm_wf_NoDup b : bm_wf b -> NoDup b.
Proof.
  induction 1 as [|z b Hs IH Hf]; constructor; [|exact IH].
  intros Hin. rewrite Forall_forall in Hf. specialize (Hf _ Hin). lia.
Qed.

Lemma bm_mem_above x b : Forall (N.lt x) b -> bm_mem x b = false.
Proof.
  intros Hf. destruct (bm_mem x b) eqn:E; [|reflexivity].
  apply bm_mem_In in E. rewrite Forall_forall in Hf. specialize (Hf _ E). lia.
Qed.

(* a well-formed bitmap is determined by its members *)
Theorem bm_ext a b : bm_wf a -> bm_wf b -> (forall x, bm_mem x a = bm_mem x b) -> a = b.
Proof.
  intros Ha. revert b. induction Ha as [|x a Hs IH Hf]; intros b Hb H.
  - destruct b as [|y b]; [reflexivity|]. specialize (H y).
    rewrite bm_mem_cons, N.eqb_refl in H. discriminate.
  - destruct b as [|y b].
    + specialize (H x). rewrite bm_mem_cons, N.eqb_refl in H. discriminate.
    + apply StronglySorted_inv in Hb. destruct Hb as [Hsb Hfb].
      assert (x = y) as ->.
      { pose proof (H x) as Hx. pose proof (H y) as Hy.
        rewrite !bm_mem_cons, N.eqb_refl in Hx, Hy. cbn [orb] in Hx, Hy.
        destruct (N.eqb_spec x y) as [|Hne]; [assumption|].
        destruct (N.eqb_spec y x) as [|_]; [congruence|]. cbn [orb] in Hx, Hy.
        symmetry in Hx. apply bm_mem_In in Hx, Hy.
        rewrite Forall_forall in Hf, Hfb. specialize (Hf _ Hy). specialize (Hfb _ Hx). lia. }
      f_equal. apply IH; [exact Hsb|]. intros z. specialize (H z). rewrite !bm_mem_cons in H.
      destruct (N.eqb_spec z y) as [E|]; [|exact H]. rewrite E.
      rewrite (bm_mem_above _ _ Hf), (bm_mem_above _ _ Hfb). reflexivity.
Qed.

(* ================================================================== *)
(* 2. the scanner fold                                                 *)
(* ================================================================== *)

(* the value the scanner hands to a field's container *)
Definition field_val (q : assignment) (f : fname) : gval :=
  match alookup N.eqb f q with Some v => v | None => VNil end.

(* x is in the result of field fc (false when the field's retrieval fails) *)
Definition field_mem (q : assignment) (x : N) (fc : fname * rcontainer) : bool :=
  match rc_retrieve (snd fc) (field_val q (fst fc)) with POk b => bm_mem x b | _ => false end.

Definition all_in (q : assignment) (x : N) (conts : list (fname * rcontainer)) : bool :=
  forallb (field_mem q x) conts.

Definition fields_ok (q : assignment) (conts : list (fname * rcontainer)) : Prop :=
  Forall (fun fc => exists b, rc_retrieve (snd fc) (field_val q (fst fc)) = POk b) conts.

(* the weak invariant: the cached flag never claims "ended" on a non-empty result.
   (It is an implication, not an equation, because WithHint leaves sc_ended = false even for an
   empty hint set.) *)
Definition sc_inv (s : scanner) : Prop := sc_ended s = true -> bm_empty (sc_res s) = true.

Lemma sc_merge_inited s pl : sc_inited s = true -> sc_inited (sc_merge s pl) = true.
Proof.
  intros Hi. unfold sc_merge, sc_is_ended. rewrite Hi. cbn [andb negb].
  destruct (bm_empty (sc_res s)); [exact Hi | reflexivity].
Qed.

Lemma sc_merge_ended s pl : sc_ended (sc_merge s pl) = bm_empty (sc_res (sc_merge s pl)).
Proof. reflexivity. Qed.

Lemma sc_merge_inv s pl : sc_inv (sc_merge s pl).
Proof. unfold sc_inv. rewrite sc_merge_ended. auto. Qed.

Lemma sc_merge_res_inited s pl x : sc_inited s = true ->
  bm_mem x (sc_res (sc_merge s pl)) = bm_mem x (sc_res s) && bm_mem x pl.
Proof.
  intros Hi. unfold sc_merge, sc_is_ended. rewrite Hi. cbn [andb negb].
  destruct (bm_empty (sc_res s)) eqn:E; cbn [sc_res].
  - rewrite (bm_empty_mem _ E). reflexivity.
  - apply bm_mem_and.
Qed.

Lemma sc_merge_fresh pl :
  sc_merge fresh_scanner pl = {| sc_inited := true; sc_ended := bm_empty (bm_or [] pl); sc_res := bm_or [] pl |}.
Proof. reflexivity. Qed.

Lemma sc_retrieve_ended conts q s : sc_ended s = true -> sc_retrieve conts q s = POk s.
Proof. intros E. destruct conts as [|[f c] rest]; cbn [sc_retrieve]; [|rewrite E]; reflexivity. Qed.

(* once primed, the result is the primed set intersected with every field result *)
Lemma sc_retrieve_inited conts q : forall s0 s x,
  sc_inited s0 = true -> sc_inv s0 -> sc_retrieve conts q s0 = POk s ->
  bm_mem x (sc_res s) = bm_mem x (sc_res s0) && all_in q x conts.
Proof.
  unfold all_in. induction conts as [|[f c] rest IH]; intros s0 s x Hi Hv H; cbn [sc_retrieve forallb] in *.
  - inversion H; subst. rewrite andb_true_r. reflexivity.
  - destruct (sc_ended s0) eqn:E.
    + inversion H; subst. rewrite (bm_empty_mem _ (Hv E)). reflexivity.
    + unfold field_mem at 1. cbn [fst snd]. change (match alookup N.eqb f q with Some v => v | None => VNil end)
        with (field_val q f) in H.
      destruct (rc_retrieve c (field_val q f)) as [pl| | | |]; cbn [pbind] in H; try discriminate.
      rewrite (IH _ _ x (sc_merge_inited _ pl Hi) (sc_merge_inv _ _) H).
      rewrite sc_merge_res_inited by exact Hi. rewrite andb_assoc. reflexivity.
Qed.

(* flags of the outcome *)
Lemma sc_retrieve_inited_flag conts q : forall s0 s,
  sc_inited s0 = true -> sc_retrieve conts q s0 = POk s -> sc_inited s = true.
Proof.
  induction conts as [|[f c] rest IH]; intros s0 s Hi H; cbn [sc_retrieve] in H.
  - inversion H; subst. exact Hi.
  - destruct (sc_ended s0); [inversion H; subst; exact Hi|].
    destruct (rc_retrieve c _) as [pl| | | |]; cbn [pbind] in H; try discriminate.
    eapply IH; [|exact H]. apply sc_merge_inited. exact Hi.
Qed.

(* MAIN: from the fresh scanner, at least one field: the intersection.  No side condition on
   the fields is needed: if the call returns POk then every field that was consulted succeeded,
   and a field that was skipped by the early break was skipped because the result is already
   empty (the right-hand side counts a failing field as "contains nothing"). *)
Theorem sc_retrieve_fresh conts q s :
  conts <> [] -> sc_retrieve conts q fresh_scanner = POk s ->
  forall x, bm_mem x (sc_res s) = all_in q x conts.
Proof.
  intros Hne H x. destruct conts as [|[f c] rest]; [congruence|]. clear Hne.
  cbn [sc_retrieve fresh_scanner sc_ended] in H.
  change (match alookup N.eqb f q with Some v => v | None => VNil end) with (field_val q f) in H.
  unfold all_in. cbn [forallb]. unfold field_mem at 1. cbn [fst snd].
  destruct (rc_retrieve c (field_val q f)) as [pl| | | |]; cbn [pbind] in H; try discriminate.
  change ({| sc_inited := false; sc_ended := false; sc_res := [] |}) with fresh_scanner in H.
  rewrite (sc_retrieve_inited rest q (sc_merge fresh_scanner pl) s x eq_refl (sc_merge_inv _ _) H).
  change (sc_res (sc_merge fresh_scanner pl)) with (bm_or [] pl).
  rewrite bm_mem_or, bm_mem_nil. reflexivity.
Qed.

(* the same, spelled with forallb exactly as in the task statement *)
Corollary sc_retrieve_fresh' conts q s :
  conts <> [] -> sc_retrieve conts q fresh_scanner = POk s ->
  forall x, bm_mem x (sc_res s) =
    forallb (fun fc => match rc_retrieve (snd fc)
                               (match alookup N.eqb (fst fc) q with Some v => v | None => VNil end) with
                       | POk b => bm_mem x b | _ => false end) conts.
Proof. exact (sc_retrieve_fresh conts q s). Qed.

(* the known degenerate case: no configured field, the scanner stays un-primed and empty *)
Theorem sc_retrieve_nofields q : sc_retrieve [] q fresh_scanner = POk fresh_scanner.
Proof. reflexivity. Qed.

Corollary sc_retrieve_nofields_empty q s x :
  sc_retrieve [] q fresh_scanner = POk s -> bm_mem x (sc_res s) = false.
Proof. cbn. intros H. inversion H; subst. reflexivity. Qed.

(* totality when every field succeeds *)
Lemma sc_retrieve_total conts q : forall s0, fields_ok q conts -> exists s, sc_retrieve conts q s0 = POk s.
Proof.
  induction conts as [|[f c] rest IH]; intros s0 Hok; cbn [sc_retrieve].
  - eexists; reflexivity.
  - destruct (sc_ended s0); [eexists; reflexivity|].
    inversion Hok as [|? ? Hb Hrest]; subst. destruct Hb as [b Hb]. cbn [fst snd] in Hb. unfold field_val in Hb. rewrite Hb.
    cbn [pbind]. apply IH. exact Hrest.
Qed.

Lemma fields_ok_perm q l l' : Permutation l l' -> fields_ok q l -> fields_ok q l'.
Proof. unfold fields_ok. intros P H. eapply Permutation_Forall; eassumption. Qed.

Lemma all_in_perm q x l l' : Permutation l l' -> all_in q x l = all_in q x l'.
Proof.
  unfold all_in. induction 1; cbn [forallb]; try congruence.
  rewrite !andb_assoc, (andb_comm (field_mem q x y)). reflexivity.
Qed.

(* order independence (Go map iteration order) *)
Theorem sc_retrieve_perm conts conts' q s s' :
  Permutation conts conts' ->
  sc_retrieve conts q fresh_scanner = POk s -> sc_retrieve conts' q fresh_scanner = POk s' ->
  forall x, bm_mem x (sc_res s) = bm_mem x (sc_res s').
Proof.
  intros P H H' x. destruct conts as [|fc rest].
  - apply Permutation_nil in P. subst. cbn in H, H'. congruence.
  - assert (conts' <> []) by (intros ->; apply Permutation_sym, Permutation_nil in P; discriminate).
    assert (fc :: rest <> []) as H1 by discriminate.
    rewrite (sc_retrieve_fresh _ _ _ H1 H), (sc_retrieve_fresh _ _ _ H0 H').
    apply all_in_perm. exact P.
Qed.

(* when all fields succeed both orders do return, so the statement is not vacuous *)
Corollary sc_retrieve_perm_total conts conts' q :
  Permutation conts conts' -> fields_ok q conts ->
  exists s s', sc_retrieve conts q fresh_scanner = POk s /\ sc_retrieve conts' q fresh_scanner = POk s' /\
               forall x, bm_mem x (sc_res s) = bm_mem x (sc_res s').
Proof.
  intros P Hok. destruct (sc_retrieve_total conts q fresh_scanner Hok) as [s Hs].
  destruct (sc_retrieve_total conts' q fresh_scanner (fields_ok_perm _ _ _ P Hok)) as [s' Hs'].
  exists s, s'. repeat split; try assumption. eapply sc_retrieve_perm; eassumption.
Qed.

(* ---- the result bitmaps are well formed, hence equal, not just equivalent ---- *)
Lemma sc_merge_wf s pl : bm_wf (sc_res s) -> bm_wf (sc_res (sc_merge s pl)).
Proof.
  intros Hw. unfold sc_merge. destruct (sc_is_ended s); [exact Hw|].
  destruct (negb (sc_inited s)); cbn [sc_res]; [apply bm_or_wf | apply bm_and_wf]; exact Hw.
Qed.

Lemma sc_retrieve_wf conts q : forall s0 s,
  bm_wf (sc_res s0) -> sc_retrieve conts q s0 = POk s -> bm_wf (sc_res s).
Proof.
  induction conts as [|[f c] rest IH]; intros s0 s Hw H; cbn [sc_retrieve] in H.
  - inversion H; subst. exact Hw.
  - destruct (sc_ended s0); [inversion H; subst; exact Hw|].
    destruct (rc_retrieve c _) as [pl| | | |]; cbn [pbind] in H; try discriminate.
    eapply IH; [|exact H]. apply sc_merge_wf. exact Hw.
Qed.

Theorem sc_retrieve_perm_eq conts conts' q s s' :
  Permutation conts conts' ->
  sc_retrieve conts q fresh_scanner = POk s -> sc_retrieve conts' q fresh_scanner = POk s' ->
  sc_res s = sc_res s'.
Proof.
  intros P H H'. apply bm_ext.
  - eapply sc_retrieve_wf; [|exact H]. apply bm_wf_nil.
  - eapply sc_retrieve_wf; [|exact H']. apply bm_wf_nil.
  - eapply sc_retrieve_perm; eassumption.
Qed.

(* ---- hints ---- *)
Definition hint_ids (maxconj : Z) (hs : list Z) : list N :=
  flat_map (fun h =>
    flat_map (fun i => match IdsGen.NewConjunctionID (Z.of_nat i) h with Some id => [id] | None => [] end)
             (seq 0 (Z.to_nat maxconj))) hs.

Lemma hint_ids_In maxconj hs x :
  In x (hint_ids maxconj hs) <->
  exists h i, In h hs /\ (i < Z.to_nat maxconj)%nat /\ IdsGen.NewConjunctionID (Z.of_nat i) h = Some x.
Proof.
  unfold hint_ids. rewrite in_flat_map. split.
  - intros [h [Hh Hx]]. apply in_flat_map in Hx. destruct Hx as [i [Hi Hx]].
    apply in_seq in Hi. exists h, i. split; [exact Hh|]. split; [lia|].
    destruct (IdsGen.NewConjunctionID (Z.of_nat i) h); cbn in Hx; [|contradiction].
    destruct Hx as [->|[]]. reflexivity.
  - intros [h [i [Hh [Hi Hx]]]]. exists h. split; [exact Hh|]. apply in_flat_map. exists i. split.
    + apply in_seq. lia.
    + rewrite Hx. left. reflexivity.
Qed.

Lemma sc_with_hint_fresh maxconj hs s0 :
  sc_with_hint maxconj fresh_scanner hs = Some s0 ->
  s0 = {| sc_inited := true; sc_ended := false; sc_res := bm_or [] (hint_ids maxconj hs) |}.
Proof. cbn. intros H. inversion H. reflexivity. Qed.

(* WithHint on an already primed scanner is the panic *)
Lemma sc_with_hint_primed maxconj s hs : sc_inited s = true -> sc_with_hint maxconj s hs = None.
Proof. intros Hi. unfold sc_with_hint. rewrite Hi. reflexivity. Qed.

(* hints restrict exactly: the members are the valid hinted ids lying in every field's result.
   Covers conts = [] (the hint set itself), an empty/invalid hint set (nothing, and no field is
   consulted after the first one), and the early break. *)
Theorem sc_retrieve_hinted maxconj hs conts q s0 s :
  sc_with_hint maxconj fresh_scanner hs = Some s0 -> sc_retrieve conts q s0 = POk s ->
  forall x, bm_mem x (sc_res s) = bm_mem x (hint_ids maxconj hs) && all_in q x conts.
Proof.
  intros Hh H x. apply sc_with_hint_fresh in Hh. subst s0.
  match type of H with sc_retrieve _ _ ?s0 = _ =>
    rewrite (sc_retrieve_inited conts q s0 s x eq_refl ltac:(unfold sc_inv; cbn; discriminate) H) end.
  cbn [sc_res]. rewrite bm_mem_or, bm_mem_nil. reflexivity.
Qed.

Corollary sc_retrieve_hinted_none maxconj hs conts q s0 s :
  sc_with_hint maxconj fresh_scanner hs = Some s0 -> hint_ids maxconj hs = [] ->
  sc_retrieve conts q s0 = POk s -> sc_res s = [].
Proof.
  intros Hh He H. assert (forall x, bm_mem x (sc_res s) = false) as Hm.
  { intros x. rewrite (sc_retrieve_hinted _ _ _ _ _ _ Hh H), He. reflexivity. }
  apply bm_empty_iff in Hm. destruct (sc_res s); [reflexivity | discriminate].
Qed.

Corollary sc_retrieve_hinted_subset maxconj hs conts q s0 s x :
  sc_with_hint maxconj fresh_scanner hs = Some s0 -> sc_retrieve conts q s0 = POk s ->
  bm_mem x (sc_res s) = true ->
  exists h i, In h hs /\ (i < Z.to_nat maxconj)%nat /\ IdsGen.NewConjunctionID (Z.of_nat i) h = Some x.
Proof.
  intros Hh H Hx. rewrite (sc_retrieve_hinted _ _ _ _ _ _ Hh H) in Hx.
  apply andb_prop in Hx. destruct Hx as [Hx _]. apply bm_mem_In in Hx. apply hint_ids_In. exact Hx.
Qed.

(* hinted retrieval is order independent as well *)
Theorem sc_retrieve_hinted_perm maxconj hs conts conts' q s0 s s' :
  Permutation conts conts' ->
  sc_with_hint maxconj fresh_scanner hs = Some s0 ->
  sc_retrieve conts q s0 = POk s -> sc_retrieve conts' q s0 = POk s' ->
  sc_res s = sc_res s'.
Proof.
  intros P Hh H H'.
  assert (bm_wf (sc_res s0)) as Hw.
  { apply sc_with_hint_fresh in Hh. subst s0. cbn [sc_res]. apply bm_or_wf, bm_wf_nil. }
  apply bm_ext; try (eapply sc_retrieve_wf; eassumption).
  intros x. rewrite (sc_retrieve_hinted _ _ _ _ _ _ Hh H), (sc_retrieve_hinted _ _ _ _ _ _ Hh H').
  f_equal. apply all_in_perm. exact P.
Qed.

(* ================================================================== *)
(* 3. container retrieval                                              *)
(* ================================================================== *)

(* x is in the bitmap stored under key k (false when there is none) *)
Definition look_mem {K} (eqb : K -> K -> bool) (m : list (K * bitmap)) (x : N) (k : K) : bool :=
  match alookup eqb k m with Some b => bm_mem x b | None => false end.

Lemma fold_or_lookup {K} (eqb : K -> K -> bool) m x ids : forall a,
  bm_mem x (fold_left (fun acc id => match alookup eqb id m with Some b => bm_or acc b | None => acc end) ids a)
  = bm_mem x a || existsb (look_mem eqb m x) ids.
Proof.
  induction ids as [|id ids IH]; intros a; cbn [fold_left existsb].
  - rewrite orb_false_r. reflexivity.
  - rewrite IH. unfold look_mem at 2. destruct (alookup eqb id m) as [b|].
    + rewrite bm_mem_or, orb_assoc. reflexivity.
    + reflexivity.
Qed.

Lemma fold_andnot_lookup {K} (eqb : K -> K -> bool) m x ids : forall a,
  bm_mem x (fold_left (fun acc id => match alookup eqb id m with Some b => bm_andnot acc b | None => acc end) ids a)
  = bm_mem x a && negb (existsb (look_mem eqb m x) ids).
Proof.
  induction ids as [|id ids IH]; intros a; cbn [fold_left existsb].
  - rewrite andb_true_r. reflexivity.
  - rewrite IH. unfold look_mem at 2. destruct (alookup eqb id m) as [b|].
    + rewrite bm_mem_andnot, negb_orb, andb_assoc. reflexivity.
    + reflexivity.
Qed.

(* the ids a default container looks up for a query value: none for a nil value *)
Definition rc_query_ids (p : parser_kind) (v : gval) : pres (list pid) :=
  pbind (nil_interface v) (fun isnil => if isnil then POk [] else parse_assign p v).

Definition rc_default_result (wc : bitmap) (inc exc : list (pid * bitmap)) (ids : list pid) : bitmap :=
  let r1 := fold_left (fun acc id => match alookup pid_eqb id inc with Some b => bm_or acc b | None => acc end) ids wc in
  fold_left (fun acc id => match alookup pid_eqb id exc with Some b => bm_andnot acc b | None => acc end) ids r1.

Lemma rc_retrieve_default_eq p wc inc exc v :
  rc_retrieve (RCDefault p wc inc exc) v =
  pbind (rc_query_ids p v) (fun ids => POk (rc_default_result wc inc exc ids)).
Proof.
  unfold rc_retrieve, rc_query_ids. destruct (nil_interface v) as [[|]| | | |]; cbn [pbind]; reflexivity.
Qed.

(* all includes are OR-ed first, then all excludes are removed: exclusion dominates *)
Theorem rc_default_result_mem wc inc exc ids x :
  bm_mem x (rc_default_result wc inc exc ids) =
  (bm_mem x wc || existsb (look_mem pid_eqb inc x) ids) && negb (existsb (look_mem pid_eqb exc x) ids).
Proof. unfold rc_default_result. rewrite fold_andnot_lookup, fold_or_lookup. reflexivity. Qed.

Theorem rc_retrieve_default p wc inc exc v b :
  rc_retrieve (RCDefault p wc inc exc) v = POk b ->
  exists ids, rc_query_ids p v = POk ids /\
    forall x, bm_mem x b =
      (bm_mem x wc || existsb (look_mem pid_eqb inc x) ids) && negb (existsb (look_mem pid_eqb exc x) ids).
Proof.
  rewrite rc_retrieve_default_eq. destruct (rc_query_ids p v) as [ids| | | |]; cbn [pbind]; try discriminate.
  intros H. inversion H; subst. exists ids. split; [reflexivity|]. intros x. apply rc_default_result_mem.
Qed.

Lemma rc_retrieve_default_nil p wc inc exc v :
  nil_interface v = POk true -> rc_retrieve (RCDefault p wc inc exc) v = POk wc.
Proof. intros H. cbn [rc_retrieve]. rewrite H. reflexivity. Qed.

Lemma rc_retrieve_default_total p wc inc exc v ids :
  rc_query_ids p v = POk ids -> exists b, rc_retrieve (RCDefault p wc inc exc) v = POk b.
Proof. intros H. rewrite rc_retrieve_default_eq, H. eexists; reflexivity. Qed.

(* the same in propositional form *)
Corollary rc_retrieve_default_iff p wc inc exc v b x :
  rc_retrieve (RCDefault p wc inc exc) v = POk b ->
  exists ids, rc_query_ids p v = POk ids /\
   (bm_mem x b = true <->
     (bm_mem x wc = true \/ exists id bi, In id ids /\ alookup pid_eqb id inc = Some bi /\ bm_mem x bi = true) /\
     (forall id be, In id ids -> alookup pid_eqb id exc = Some be -> bm_mem x be = false)).
Proof.
  intros H. destruct (rc_retrieve_default _ _ _ _ _ _ H) as [ids [Hq Hm]]. exists ids. split; [exact Hq|].
  rewrite Hm, andb_true_iff, orb_true_iff, negb_true_iff. split.
  - intros [Hi He]. split.
    + destruct Hi as [Hi|Hi]; [left; exact Hi|right].
      apply existsb_exists in Hi. destruct Hi as [id [Hin Hl]]. unfold look_mem in Hl.
      destruct (alookup pid_eqb id inc) as [bi|] eqn:E; [|discriminate]. exists id, bi. auto.
    + intros id be Hin Hl. destruct (bm_mem x be) eqn:Eb; [|reflexivity].
      assert (existsb (look_mem pid_eqb exc x) ids = true); [|congruence].
      apply existsb_exists. exists id. split; [exact Hin|]. unfold look_mem. rewrite Hl. exact Eb.
  - intros [Hi He]. split.
    + destruct Hi as [Hi|[id [bi [Hin [Hl Hb]]]]]; [left; exact Hi|right].
      apply existsb_exists. exists id. split; [exact Hin|]. unfold look_mem. rewrite Hl. exact Hb.
    + destruct (existsb (look_mem pid_eqb exc x) ids) eqn:E; [|reflexivity].
      apply existsb_exists in E. destruct E as [id [Hin Hl]]. unfold look_mem in Hl.
      destruct (alookup pid_eqb id exc) as [be|] eqn:El; [|discriminate].
      rewrite (He _ _ Hin El) in Hl. discriminate.
Qed.

(* ---- the Aho-Corasick container ---- *)
Definition ac_matched (t : text) (m : list (text * bitmap)) : list bitmap :=
  flat_map (fun kb => match fst kb with [] => [] | _ => if kw_found (fst kb) t then [snd kb] else [] end) m.

Lemma fold_bm_or_mem x l : forall a, bm_mem x (fold_left bm_or l a) = bm_mem x a || existsb (bm_mem x) l.
Proof.
  induction l as [|b l IH]; intros a; cbn [fold_left existsb].
  - rewrite orb_false_r. reflexivity.
  - rewrite IH, bm_mem_or, orb_assoc. reflexivity.
Qed.

Lemma fold_bm_andnot_mem x l : forall a, bm_mem x (fold_left bm_andnot l a) = bm_mem x a && negb (existsb (bm_mem x) l).
Proof.
  induction l as [|b l IH]; intros a; cbn [fold_left existsb].
  - rewrite andb_true_r. reflexivity.
  - rewrite IH, bm_mem_andnot, negb_orb, andb_assoc. reflexivity.
Qed.

Theorem rc_retrieve_ac wc inc exc v b :
  rc_retrieve (RCAc wc inc exc) v = POk b ->
  (nil_interface v = POk true /\ b = wc) \/
  exists t, nil_interface v = POk false /\ ac_query_text [32] v = POk t /\
    forall x, bm_mem x b =
      (bm_mem x wc || existsb (bm_mem x) (ac_matched t inc)) && negb (existsb (bm_mem x) (ac_matched t exc)).
Proof.
  cbn [rc_retrieve]. destruct (nil_interface v) as [[|]| | | |]; cbn [pbind]; try discriminate.
  - intros H. inversion H. left. auto.
  - destruct (ac_query_text [32] v) as [t| | | |]; cbn [pbind]; try discriminate.
    intros H. inversion H; subst. right. exists t. repeat split.
    intros x. fold (ac_matched t inc). fold (ac_matched t exc).
    rewrite fold_bm_andnot_mem, fold_bm_or_mem. reflexivity.
Qed.

(* every retrieval result is well formed when the wildcard bitmap is *)
Lemma rc_retrieve_wf c v b :
  match c with RCDefault _ wc _ _ | RCAc wc _ _ => bm_wf wc end -> rc_retrieve c v = POk b -> bm_wf b.
Proof.
  assert (Hor : forall K (eqb : K -> K -> bool) m ids a, bm_wf a ->
    bm_wf (fold_left (fun acc id => match alookup eqb id m with Some b => bm_or acc b | None => acc end) ids a)).
  { intros K eqb m ids. induction ids as [|i ids IH]; intros a Ha; cbn [fold_left]; [exact Ha|].
    apply IH. destruct (alookup eqb i m); [apply bm_or_wf|]; exact Ha. }
  assert (Han : forall K (eqb : K -> K -> bool) m ids a, bm_wf a ->
    bm_wf (fold_left (fun acc id => match alookup eqb id m with Some b => bm_andnot acc b | None => acc end) ids a)).
  { intros K eqb m ids. induction ids as [|i ids IH]; intros a Ha; cbn [fold_left]; [exact Ha|].
    apply IH. destruct (alookup eqb i m); [apply bm_andnot_wf|]; exact Ha. }
  assert (Hor' : forall l a, bm_wf a -> bm_wf (fold_left bm_or l a)).
  { induction l as [|y l IH]; intros a Ha; cbn [fold_left]; [exact Ha|]. apply IH, bm_or_wf, Ha. }
  assert (Han' : forall l a, bm_wf a -> bm_wf (fold_left bm_andnot l a)).
  { induction l as [|y l IH]; intros a Ha; cbn [fold_left]; [exact Ha|]. apply IH, bm_andnot_wf, Ha. }
  destruct c as [p wc inc exc|wc inc exc]; intros Hw; cbn [rc_retrieve];
    (destruct (nil_interface v) as [[|]| | | |]; cbn [pbind]; try discriminate; [intros H; inversion H; subst; exact Hw|]).
  - destruct (parse_assign p v); cbn [pbind]; try discriminate. intros H; inversion H; subst. apply Han, Hor, Hw.
  - destruct (ac_query_text [32] v); cbn [pbind]; try discriminate. intros H; inversion H; subst. apply Han', Hor', Hw.
Qed.

(* ================================================================== *)
(* 4. builder invariant (default containers) and end to end            *)
(* ================================================================== *)

Lemma text_eqb_spec a b : reflect (a = b) (text_eqb a b).
Proof.
  unfold text_eqb. revert b. induction a as [|x a IH]; destruct b as [|y b]; try (constructor; congruence).
  destruct (N.eqb_spec x y) as [->|Hne]; cbn [andb].
  - destruct (IH b) as [->|Hne]; constructor; congruence.
  - constructor. congruence.
Qed.

Lemma pid_eqb_spec a b : reflect (a = b) (pid_eqb a b).
Proof.
  destruct a as [s|n], b as [t|m]; cbn [pid_eqb]; try (constructor; congruence).
  - destruct (text_eqb_spec s t); constructor; congruence.
  - destruct (Z.eqb_spec n m); constructor; congruence.
Qed.

Section AssocFacts.
  Context {K V : Type} (eqb : K -> K -> bool) (eqb_spec : forall a b, reflect (a = b) (eqb a b)).

  Lemma alookup_aupdate k f (m : list (K * V)) k' :
    alookup eqb k' (aupdate eqb k f m) =
    if eqb k' k then Some (f (alookup eqb k m)) else alookup eqb k' m.
  Proof.
    induction m as [|[k0 v] m IH]; cbn [aupdate alookup].
    - reflexivity.
    - destruct (eqb_spec k k0) as [->|Hne]; cbn [alookup].
      + destruct (eqb k' k0); reflexivity.
      + rewrite IH. destruct (eqb_spec k' k0) as [->|]; [|reflexivity].
        destruct (eqb_spec k0 k); [congruence | reflexivity].
  Qed.
End AssocFacts.

Section AddTo.
  Context {K : Type} (eqb : K -> K -> bool) (eqb_spec : forall a b, reflect (a = b) (eqb a b)).

  Lemma look_mem_add_to k id m x k' :
    look_mem eqb (add_to eqb k id m) x k' = look_mem eqb m x k' || ((x =? id) && eqb k' k).
  Proof.
    unfold look_mem, add_to. rewrite (alookup_aupdate eqb eqb_spec).
    destruct (eqb_spec k' k) as [->|]; [|rewrite andb_false_r, orb_false_r; reflexivity].
    rewrite andb_true_r. destruct (alookup eqb k m) as [b|].
    - rewrite bm_mem_add. apply orb_comm.
    - rewrite bm_mem_cons, bm_mem_nil, orb_false_r. reflexivity.
  Qed.

  Lemma look_mem_fold_add_to id x k' ks : forall m,
    look_mem eqb (fold_left (fun m k => add_to eqb k id m) ks m) x k' =
    look_mem eqb m x k' || ((x =? id) && existsb (eqb k') ks).
  Proof.
    induction ks as [|k ks IH]; intros m; cbn [fold_left existsb].
    - rewrite andb_false_r, orb_false_r. reflexivity.
    - rewrite IH, look_mem_add_to. rewrite <- orb_assoc. f_equal.
      destruct (x =? id); reflexivity.
  Qed.
End AddTo.

(* value v is among the parsed values of expression e *)
Definition val_hit (p : parser_kind) (v : pid) (e : expr) : bool :=
  match parse_value p (e_val e) with POk ids => existsb (pid_eqb v) ids | _ => false end.

Definition inc_hit (p : parser_kind) (v : pid) (e : expr) : bool := e_incl e && val_hit p v e.
Definition exc_hit (p : parser_kind) (v : pid) (e : expr) : bool := negb (e_incl e) && val_hit p v e.

(* the expressions of a conjunction on field f *)
Definition field_exprs (f : fname) (cj : conj) : list expr :=
  match alookup N.eqb f cj with Some es => es | None => [] end.

(* what encoding the expressions es of conjunction id does to one container *)
Definition cont_step (id : N) (es : list expr) (addwc : bool) (c c' : rcontainer) : Prop :=
  match c with
  | RCDefault p wc inc exc =>
    exists wc' inc' exc', c' = RCDefault p wc' inc' exc' /\
      (forall x, bm_mem x wc' = bm_mem x wc || ((x =? id) && addwc)) /\
      (forall x v, look_mem pid_eqb inc' x v = look_mem pid_eqb inc x v || ((x =? id) && existsb (inc_hit p v) es)) /\
      (forall x v, look_mem pid_eqb exc' x v = look_mem pid_eqb exc x v || ((x =? id) && existsb (exc_hit p v) es))
  | RCAc _ _ _ => True
  end.

Lemma rc_encode_default p wc inc exc id e c' :
  rc_encode (RCDefault p wc inc exc) id e = POk c' ->
  cont_step id [e] false (RCDefault p wc inc exc) c'.
Proof.
  cbn [rc_encode cont_step]. destruct (e_op e); try discriminate.
  destruct (parse_value p (e_val e)) as [ids| | | |] eqn:Ep; cbn [pbind]; try discriminate.
  destruct (e_incl e) eqn:Ei; intros H; inversion H; subst; clear H;
    do 3 eexists; (split; [reflexivity|]); (split; [intros x; rewrite andb_false_r, orb_false_r; reflexivity|]);
    split; intros x v; cbn [existsb]; unfold inc_hit, exc_hit, val_hit; rewrite Ei, Ep; cbn [negb andb];
    rewrite ?orb_false_r, ?andb_false_r, ?orb_false_r; try reflexivity;
    apply (look_mem_fold_add_to pid_eqb pid_eqb_spec).
Qed.

Lemma cont_step_trans id es1 es2 w1 w2 c1 c2 c3 :
  cont_step id es1 w1 c1 c2 -> cont_step id es2 w2 c2 c3 -> cont_step id (es1 ++ es2) (w1 || w2) c1 c3.
Proof.
  destruct c1 as [p wc inc exc|]; cbn [cont_step]; [|auto].
  intros (wc' & inc' & exc' & -> & Hw & Hi & He). cbn [cont_step].
  intros (wc'' & inc'' & exc'' & -> & Hw' & Hi' & He').
  do 3 eexists. split; [reflexivity|]. split; [|split]; intros x.
  - rewrite Hw', Hw. rewrite <- orb_assoc. f_equal. destruct (x =? id); reflexivity.
  - intros v. rewrite Hi', Hi, existsb_app. rewrite <- orb_assoc. f_equal. destruct (x =? id); reflexivity.
  - intros v. rewrite He', He, existsb_app. rewrite <- orb_assoc. f_equal. destruct (x =? id); reflexivity.
Qed.

Lemma cont_step_refl id c : cont_step id [] false c c.
Proof.
  destruct c as [p wc inc exc|]; cbn [cont_step]; [|exact I]. do 3 eexists. split; [reflexivity|].
  repeat split; intros; cbn [existsb]; rewrite andb_false_r, orb_false_r; reflexivity.
Qed.

Lemma rc_add_wildcard_step id c : cont_step id [] true c (rc_add_wildcard c id).
Proof.
  destruct c as [p wc inc exc|]; cbn [cont_step rc_add_wildcard]; [|exact I]. do 3 eexists. split; [reflexivity|].
  split; [|split]; intros x.
  - rewrite bm_mem_add, andb_true_r. apply orb_comm.
  - intros v. cbn [existsb]. rewrite andb_false_r, orb_false_r. reflexivity.
  - intros v. cbn [existsb]. rewrite andb_false_r, orb_false_r. reflexivity.
Qed.

Lemma rc_encode_kind c id e c' : rc_encode c id e = POk c' ->
  match c, c' with RCDefault _ _ _ _, RCDefault _ _ _ _ | RCAc _ _ _, RCAc _ _ _ => True | _, _ => False end.
Proof.
  destruct c as [p wc inc exc|wc inc exc]; cbn [rc_encode].
  - destruct (e_op e); try discriminate. destruct (parse_value p (e_val e)); cbn [pbind]; try discriminate.
    destruct (e_incl e); intros H; inversion H; exact I.
  - destruct (nil_interface (e_val e)) as [[|]| | | |]; cbn [pbind]; try discriminate.
    + intros H; inversion H; exact I.
    + destruct (e_op e); try discriminate. destruct (ac_parse_dict (e_val e)); cbn [pbind]; try discriminate.
      destruct (e_incl e); intros H; inversion H; exact I.
Qed.

(* one field of one conjunction: includes/excludes land under exactly the parsed values, and the
   returned flag says "no include expression seen" *)
Lemma encode_exprs_step es : forall c id w c' w',
  encode_exprs c id es w = POk (c', w') ->
  w' = w && negb (existsb e_incl es) /\ cont_step id es false c c'.
Proof.
  induction es as [|e es IH]; intros c id w c' w' H; cbn [encode_exprs] in H.
  - inversion H; subst. rewrite andb_true_r. split; [reflexivity | apply cont_step_refl].
  - destruct (rc_encode c id e) as [c1| | | |] eqn:E1; cbn [pbind] in H; try discriminate.
    apply IH in H. destruct H as [-> Hs]. split.
    + cbn [existsb]. rewrite negb_orb, andb_assoc. reflexivity.
    + destruct c as [p wc inc exc|]; [|exact I].
      apply rc_encode_default in E1.
      exact (cont_step_trans id [e] es false false _ _ _ E1 Hs).
Qed.

Lemma encode_exprs_field_step es c id c' w' :
  encode_exprs c id es true = POk (c', w') ->
  cont_step id es (negb (existsb e_incl es)) c (if w' then rc_add_wildcard c' id else c').
Proof.
  intros H. apply encode_exprs_step in H. destruct H as [-> Hs]. cbn [andb].
  destruct (negb (existsb e_incl es)).
  - pose proof (cont_step_trans id es [] false true _ _ _ Hs (rc_add_wildcard_step id c')) as Ht.
    rewrite app_nil_r in Ht. exact Ht.
  - exact Hs.
Qed.

(* BUILDER INVARIANT, all fields at once: an accepted conjunction changes each configured field's
   container exactly by cont_step: id enters the wildcard bitmap iff the conjunction has no
   include expression on the field; id enters inc[v] (exc[v]) iff some include (exclude)
   expression on the field has v among its parsed values; all other ids are untouched. *)
Theorem encode_fields_step conts : forall id cj conts',
  encode_fields conts id cj = (conts', POk tt) ->
  Forall2 (fun fc fc' => fst fc' = fst fc /\
             cont_step id (field_exprs (fst fc) cj) (negb (existsb e_incl (field_exprs (fst fc) cj)))
                       (snd fc) (snd fc')) conts conts'.
Proof.
  induction conts as [|[f c] rest IH]; intros id cj conts' H; cbn [encode_fields] in H.
  - inversion H. constructor.
  - assert (Hwc : alookup N.eqb f cj = None \/ alookup N.eqb f cj = Some [] ->
                  (let '(rest', r) := encode_fields rest id cj in ((f, rc_add_wildcard c id) :: rest', r)) = (conts', POk tt) ->
                  Forall2 (fun fc fc' => fst fc' = fst fc /\
                     cont_step id (field_exprs (fst fc) cj) (negb (existsb e_incl (field_exprs (fst fc) cj)))
                       (snd fc) (snd fc')) ((f, c) :: rest) conts').
    { intros Hl H'. destruct (encode_fields rest id cj) as [rest' r] eqn:Er. inversion H'; subst.
      constructor; [|apply IH; exact Er]. cbn [fst snd]. split; [reflexivity|].
      unfold field_exprs. destruct Hl as [-> | ->]; apply rc_add_wildcard_step. }
    destruct (alookup N.eqb f cj) as [[|e es]|] eqn:El; [apply Hwc; auto; exact H| |apply Hwc; auto; exact H].
    clear Hwc. destruct (encode_exprs c id (e :: es) true) as [[c' w]| | | |] eqn:Ee; try (inversion H; fail).
    destruct (encode_fields rest id cj) as [rest' r] eqn:Er. inversion H; subst.
    constructor; [|apply IH; exact Er]. cbn [fst snd]. split; [reflexivity|].
    unfold field_exprs. rewrite El. apply encode_exprs_field_step. exact Ee.
Qed.

(* the same for ONE field, by name *)
Theorem encode_fields_field conts id cj conts' f c :
  encode_fields conts id cj = (conts', POk tt) -> alookup N.eqb f conts = Some c ->
  exists c', alookup N.eqb f conts' = Some c' /\
             cont_step id (field_exprs f cj) (negb (existsb e_incl (field_exprs f cj))) c c'.
Proof.
  intros H. apply encode_fields_step in H. induction H as [|[f0 c0] [f0' c0'] l l' [Hf Hs] _ IH]; cbn [alookup].
  - discriminate.
  - cbn [fst snd] in Hf, Hs. subst f0'. destruct (N.eqb_spec f f0) as [->|]; [|exact IH].
    intros E. inversion E; subst. exists c0'. split; [reflexivity | exact Hs].
Qed.

(* ---- the database represented by a builder ---- *)
Definition db := list (N * conj).

(* some conjunction stored under id x satisfies P *)
Definition db_any (d : db) (x : N) (P : conj -> bool) : bool :=
  existsb (fun ic => (x =? fst ic) && P (snd ic)) d.

Definition cont_repr (f : fname) (c : rcontainer) (d : db) : Prop :=
  match c with
  | RCDefault p wc inc exc =>
    (forall x, bm_mem x wc = db_any d x (fun cj => negb (existsb e_incl (field_exprs f cj)))) /\
    (forall x v, look_mem pid_eqb inc x v = db_any d x (fun cj => existsb (inc_hit p v) (field_exprs f cj))) /\
    (forall x v, look_mem pid_eqb exc x v = db_any d x (fun cj => existsb (exc_hit p v) (field_exprs f cj)))
  | RCAc _ _ _ => False        (* only default containers are covered *)
  end.

Definition conts_repr (conts : list (fname * rcontainer)) (d : db) : Prop :=
  Forall (fun fc => cont_repr (fst fc) (snd fc) d) conts.

Lemma cont_repr_step f c c' d id cj :
  cont_repr f c d ->
  cont_step id (field_exprs f cj) (negb (existsb e_incl (field_exprs f cj))) c c' ->
  cont_repr f c' ((id, cj) :: d).
Proof.
  destruct c as [p wc inc exc|]; cbn [cont_repr cont_step]; [|contradiction].
  intros (Rw & Ri & Re) (wc' & inc' & exc' & -> & Hw & Hi & He). cbn [cont_repr].
  unfold db_any in *. cbn [existsb fst snd]. split; [|split]; intros x.
  - rewrite Hw, Rw. apply orb_comm.
  - intros v. rewrite Hi, Ri. apply orb_comm.
  - intros v. rewrite He, Re. apply orb_comm.
Qed.

Theorem encode_fields_repr conts id cj conts' d :
  conts_repr conts d -> encode_fields conts id cj = (conts', POk tt) -> conts_repr conts' ((id, cj) :: d).
Proof.
  intros R H. apply encode_fields_step in H. unfold conts_repr in *.
  induction H as [|[f c] [f' c'] l l' [Hf Hs] _ IH]; [constructor|].
  cbn [fst snd] in Hf, Hs. subst f'. inversion R; subst. constructor; [|apply IH; assumption].
  cbn [fst snd] in *. eapply cont_repr_step; eassumption.
Qed.

(* freshly configured default containers represent the empty database *)
Definition all_new (conts : list (fname * rcontainer)) : Prop :=
  Forall (fun fc => exists p, snd fc = new_rcontainer RDefault p) conts.

Lemma all_new_repr conts : all_new conts -> conts_repr conts [].
Proof.
  unfold all_new, conts_repr. apply Forall_impl. intros [f c] [p ->]. cbn. repeat split.
Qed.

Lemma rb_configure_new b f p : all_new (rb_conts b) -> all_new (rb_conts (rb_configure b f RDefault p)).
Proof.
  unfold all_new. cbn [rb_configure rb_conts]. induction 1 as [|[f0 c0] l H0 Hl IH]; cbn [aupdate].
  - constructor; [|constructor]. exists p. reflexivity.
  - destruct (f =? f0); constructor; auto. exists p. reflexivity.
Qed.

Lemma new_rbuilder_new : all_new (rb_conts new_rbuilder).
Proof. constructor. Qed.

(* ---- AddDocument(s) ---- *)
Fixpoint conj_entries (d : Z) (ics : list (Z * conj)) : db :=
  match ics with
  | [] => []
  | (i, cj) :: rest =>
    match IdsGen.NewConjunctionID i d with
    | Some id => (id, cj) :: conj_entries d rest
    | None => []
    end
  end.

Lemma radd_conjs_repr ics : forall b d b' dbs,
  radd_conjs b d ics = (b', AddOk) -> conts_repr (rb_conts b) dbs ->
  conts_repr (rb_conts b') (rev (conj_entries d ics) ++ dbs).
Proof.
  induction ics as [|[i cj] rest IH]; intros b d b' dbs H R; cbn [radd_conjs conj_entries] in *.
  - inversion H; subst. exact R.
  - destruct (IdsGen.NewConjunctionID i d) as [id|]; [|inversion H].
    match type of H with (if ?g then _ else _) = _ => destruct g end; [inversion H|].
    destruct (encode_fields (rb_conts b) id cj) as [conts' r] eqn:Ee.
    destruct r as [[]| | | |]; try (inversion H; fail).
    apply IH with (dbs := (id, cj) :: dbs) in H.
    + cbn [rev]. rewrite <- app_assoc. exact H.
    + cbn [rb_conts]. eapply encode_fields_repr; eassumption.
Qed.

Definition doc_entries (d : doc) : db := conj_entries (d_id d) (indexed_from 0%Z (d_conjs d)).

Lemma radd_document_repr b d b' dbs :
  radd_document b d = (b', AddOk) -> conts_repr (rb_conts b) dbs ->
  conts_repr (rb_conts b') (rev (doc_entries d) ++ dbs).
Proof.
  unfold radd_document, doc_entries. intros H R. destruct (d_conjs d) as [|cj0 cjs] eqn:Ed; [inversion H|].
  rewrite <- Ed in *. clear Ed.
  destruct (radd_conjs b (d_id d) (indexed_from 0%Z (d_conjs d))) as [b1 o] eqn:Ea.
  destruct o; inversion H; subst. cbn [rb_conts]. eapply radd_conjs_repr; eassumption.
Qed.

Definition docs_db (ds : list doc) (dbs : db) : db :=
  fold_left (fun acc d => rev (doc_entries d) ++ acc) ds dbs.

Theorem radd_documents_repr ds : forall b b' os dbs,
  radd_documents b ds = (b', os) -> Forall (eq AddOk) os -> conts_repr (rb_conts b) dbs ->
  conts_repr (rb_conts b') (docs_db ds dbs).
Proof.
  induction ds as [|d ds IH]; intros b b' os dbs H Hok R; cbn [radd_documents docs_db fold_left] in *.
  - inversion H; subst. exact R.
  - destruct (radd_document b d) as [b1 o] eqn:E1. destruct (radd_documents b1 ds) as [b2 os'] eqn:E2.
    inversion H; subst. inversion Hok; subst. eapply IH; [exact E2 | assumption |].
    eapply radd_document_repr; eassumption.
Qed.

(* ---- retrieval against a represented database ---- *)

(* id x stands for exactly one conjunction *)
Definition db_unique (d : db) (x : N) (cj : conj) : Prop :=
  exists l1 l2, d = l1 ++ (x, cj) :: l2 /\ ~ In x (map fst l1) /\ ~ In x (map fst l2).

Lemma db_any_absent d x P : ~ In x (map fst d) -> db_any d x P = false.
Proof.
  unfold db_any. induction d as [|[y cj] d IH]; cbn [existsb map fst snd In]; [reflexivity|].
  intros H. rewrite IH by tauto. destruct (N.eqb_spec x y) as [->|]; [tauto | reflexivity].
Qed.

Lemma db_any_unique d x cj P : db_unique d x cj -> db_any d x P = P cj.
Proof.
  intros (l1 & l2 & -> & H1 & H2). unfold db_any. rewrite existsb_app. cbn [existsb fst snd].
  fold (db_any l1 x P). fold (db_any l2 x P). rewrite !db_any_absent by assumption.
  rewrite N.eqb_refl, orb_false_r. reflexivity.
Qed.

Lemma existsb_pointwise {A} (f g : A -> bool) l : (forall a, f a = g a) -> existsb f l = existsb g l.
Proof. intros H. induction l as [|a l IH]; cbn [existsb]; [reflexivity|]. rewrite H, IH. reflexivity. Qed.

Lemma existsb_swap {A B} (g : B -> bool) (h : A -> B -> bool) la lb :
  existsb (fun a => existsb (fun b => g b && h a b) lb) la =
  existsb (fun b => g b && existsb (fun a => h a b) la) lb.
Proof.
  apply eq_iff_eq_true. rewrite !existsb_exists. split.
  - intros [a [Ha H]]. apply existsb_exists in H. destruct H as [b [Hb H]]. apply andb_prop in H. destruct H as [Hg Hh].
    exists b. split; [exact Hb|]. rewrite Hg. cbn [andb]. apply existsb_exists. exists a. auto.
  - intros [b [Hb H]]. apply andb_prop in H. destruct H as [Hg H]. apply existsb_exists in H. destruct H as [a [Ha Hh]].
    exists a. split; [exact Ha|]. apply existsb_exists. exists b. rewrite Hg, Hh. auto.
Qed.

(* the expressions es of one field are satisfied by the query ids: some include expression is hit
   unless there is none, and no exclude expression is hit *)
Definition field_sat (p : parser_kind) (ids : list pid) (es : list expr) : bool :=
  (negb (existsb e_incl es) || existsb (fun e => e_incl e && existsb (fun v => val_hit p v e) ids) es)
  && negb (existsb (fun e => negb (e_incl e) && existsb (fun v => val_hit p v e) ids) es).

Definition conj_sat_field (q : assignment) (cj : conj) (fc : fname * rcontainer) : bool :=
  match snd fc with
  | RCDefault p _ _ _ =>
    match rc_query_ids p (field_val q (fst fc)) with
    | POk ids => field_sat p ids (field_exprs (fst fc) cj)
    | _ => false
    end
  | RCAc _ _ _ => false
  end.

Lemma field_mem_repr q x f c d cj :
  cont_repr f c d -> db_unique d x cj -> field_mem q x (f, c) = conj_sat_field q cj (f, c).
Proof.
  destruct c as [p wc inc exc|]; cbn [cont_repr]; [|contradiction].
  intros (Rw & Ri & Re) U. unfold field_mem, conj_sat_field. cbn [fst snd].
  rewrite rc_retrieve_default_eq. destruct (rc_query_ids p (field_val q f)) as [ids| | | |]; cbn [pbind]; try reflexivity.
  rewrite rc_default_result_mem. unfold field_sat. rewrite Rw, (db_any_unique _ _ _ _ U).
  f_equal; [f_equal|f_equal].
  - rewrite <- (existsb_swap e_incl (fun v e => val_hit p v e)).
    apply existsb_pointwise. intros v. rewrite Ri, (db_any_unique _ _ _ _ U). reflexivity.
  - rewrite <- (existsb_swap (fun e => negb (e_incl e)) (fun v e => val_hit p v e)).
    apply existsb_pointwise. intros v. rewrite Re, (db_any_unique _ _ _ _ U). reflexivity.
Qed.

Lemma field_mem_absent q x f c d :
  cont_repr f c d -> ~ In x (map fst d) -> field_mem q x (f, c) = false.
Proof.
  destruct c as [p wc inc exc|]; cbn [cont_repr]; [|contradiction].
  intros (Rw & Ri & Re) U. unfold field_mem. cbn [fst snd].
  rewrite rc_retrieve_default_eq. destruct (rc_query_ids p (field_val q f)) as [ids| | | |]; cbn [pbind]; try reflexivity.
  rewrite rc_default_result_mem, Rw, db_any_absent by exact U.
  replace (existsb (look_mem pid_eqb inc x) ids) with false; [reflexivity|].
  symmetry. induction ids as [|v ids IH]; cbn [existsb]; [reflexivity|].
  rewrite Ri, db_any_absent by exact U. exact IH.
Qed.

(* END TO END: conjunction id x is in the fresh scanner's result iff on every configured field
   the conjunction's expressions are satisfied by the assignment. *)
Theorem roaring_end_to_end conts d q s x cj :
  conts <> [] -> conts_repr conts d -> db_unique d x cj ->
  sc_retrieve conts q fresh_scanner = POk s ->
  bm_mem x (sc_res s) = forallb (conj_sat_field q cj) conts.
Proof.
  intros Hne R U H. rewrite (sc_retrieve_fresh _ _ _ Hne H). unfold all_in. clear H Hne.
  induction R as [|[f c] l Rc Rl IH]; cbn [forallb]; [reflexivity|].
  cbn [fst snd] in Rc. rewrite (field_mem_repr _ _ _ _ _ _ Rc U), IH. reflexivity.
Qed.

Theorem roaring_unknown_id conts d q s x :
  conts_repr conts d -> ~ In x (map fst d) ->
  sc_retrieve conts q fresh_scanner = POk s -> bm_mem x (sc_res s) = false.
Proof.
  intros R U H. destruct conts as [|[f c] rest].
  - cbn in H. inversion H. reflexivity.
  - assert ((f, c) :: rest <> []) as Hne by discriminate.
    rewrite (sc_retrieve_fresh _ _ _ Hne H). unfold all_in. cbn [forallb].
    inversion R as [|? ? Rc Rl]; subst. cbn [fst snd] in Rc. rewrite (field_mem_absent _ _ _ _ _ Rc U). reflexivity.
Qed.

(* from an empty builder with default fields, through AddDocument on accepted documents *)
Corollary roaring_build_retrieve b0 ds b os q s x cj :
  all_new (rb_conts b0) -> rb_conts b <> [] ->
  radd_documents b0 ds = (b, os) -> Forall (eq AddOk) os ->
  db_unique (docs_db ds []) x cj ->
  sc_retrieve (rb_conts b) q fresh_scanner = POk s ->
  bm_mem x (sc_res s) = forallb (conj_sat_field q cj) (rb_conts b).
Proof.
  intros Hn Hne Ha Hok U H.
  pose proof (radd_documents_repr ds _ _ _ _ Ha Hok (all_new_repr _ Hn)) as R.
  eapply roaring_end_to_end; eassumption.
Qed.

(* ---- readable form of the per-field builder invariant for the conjunction's own id ---- *)
Corollary encode_fields_field_default conts id cj conts' f p wc inc exc :
  encode_fields conts id cj = (conts', POk tt) ->
  alookup N.eqb f conts = Some (RCDefault p wc inc exc) ->
  exists wc' inc' exc', alookup N.eqb f conts' = Some (RCDefault p wc' inc' exc') /\
    (* the conjunction's own id (assuming it was not used before) *)
    (bm_mem id wc = false -> bm_mem id wc' = negb (existsb e_incl (field_exprs f cj))) /\
    (forall v, look_mem pid_eqb inc id v = false ->
               look_mem pid_eqb inc' id v = existsb (inc_hit p v) (field_exprs f cj)) /\
    (forall v, look_mem pid_eqb exc id v = false ->
               look_mem pid_eqb exc' id v = existsb (exc_hit p v) (field_exprs f cj)) /\
    (* every other id is unaffected *)
    (forall x, x <> id -> bm_mem x wc' = bm_mem x wc /\
       forall v, look_mem pid_eqb inc' x v = look_mem pid_eqb inc x v /\
                 look_mem pid_eqb exc' x v = look_mem pid_eqb exc x v).
Proof.
  intros H L. destruct (encode_fields_field _ _ _ _ _ _ H L) as (c' & L' & S). cbn [cont_step] in S.
  destruct S as (wc' & inc' & exc' & -> & Hw & Hi & He). exists wc', inc', exc'. split; [exact L'|].
  split; [|split; [|split]].
  - intros E. rewrite Hw, E, N.eqb_refl. reflexivity.
  - intros v E. rewrite Hi, E, N.eqb_refl. reflexivity.
  - intros v E. rewrite He, E, N.eqb_refl. reflexivity.
  - intros x Hx. apply N.eqb_neq in Hx. split; [|intros v; split].
    + rewrite Hw, Hx. apply orb_false_r.
    + rewrite Hi, Hx. apply orb_false_r.
    + rewrite He, Hx. apply orb_false_r.
Qed.

(* ---- the builder never drops, adds or reorders a field, whatever the outcome ---- *)
Lemma encode_fields_keys conts id cj : map fst (fst (encode_fields conts id cj)) = map fst conts.
Proof.
  induction conts as [|[f c] rest IH]; cbn [encode_fields]; [reflexivity|].
  destruct (encode_fields rest id cj) as [rest' r]. cbn [fst] in IH.
  destruct (alookup N.eqb f cj) as [[|e es]|]; cbn [fst map]; try (rewrite IH; reflexivity).
  destruct (encode_exprs c id (e :: es) true) as [[c' w]| | | |]; cbn [fst map]; try reflexivity.
  rewrite IH. reflexivity.
Qed.

Lemma radd_conjs_keys ics : forall b d, map fst (rb_conts (fst (radd_conjs b d ics))) = map fst (rb_conts b).
Proof.
  induction ics as [|[i cj] rest IH]; intros b d; cbn [radd_conjs]; [reflexivity|].
  destruct (IdsGen.NewConjunctionID i d) as [id|]; [|reflexivity].
  match goal with |- context [if ?g then _ else _] => destruct g end; [reflexivity|].
  pose proof (encode_fields_keys (rb_conts b) id cj) as Hk.
  destruct (encode_fields (rb_conts b) id cj) as [conts' r]. cbn [fst] in Hk.
  destruct r as [[]| | | |]; cbn [fst rb_conts]; try exact Hk. rewrite IH. exact Hk.
Qed.

Lemma radd_document_keys b d : map fst (rb_conts (fst (radd_document b d))) = map fst (rb_conts b).
Proof.
  unfold radd_document. destruct (d_conjs d) as [|cj0 cjs] eqn:Ed; [reflexivity|]. rewrite <- Ed.
  pose proof (radd_conjs_keys (indexed_from 0%Z (d_conjs d)) b (d_id d)) as Hk.
  destruct (radd_conjs b (d_id d) (indexed_from 0%Z (d_conjs d))) as [b1 o]. cbn [fst] in Hk.
  destruct o; cbn [fst rb_conts]; exact Hk.
Qed.

Lemma radd_documents_keys ds : forall b, map fst (rb_conts (fst (radd_documents b ds))) = map fst (rb_conts b).
Proof.
  induction ds as [|d ds IH]; intros b; cbn [radd_documents]; [reflexivity|].
  pose proof (radd_document_keys b d) as H1. destruct (radd_document b d) as [b1 o]. cbn [fst] in H1.
  pose proof (IH b1) as H2. destruct (radd_documents b1 ds) as [b2 os]. cbn [fst] in *. congruence.
Qed.

(* ---- distinct document ids give distinct conjunction ids ---- *)
Lemma NoDup_app' {A} (l1 l2 : list A) :
  NoDup l1 -> NoDup l2 -> (forall x, In x l1 -> ~ In x l2) -> NoDup (l1 ++ l2).
Proof.
  induction 1 as [|a l1 Ha H1 IH]; intros H2 Hd; cbn [app]; [exact H2|].
  constructor.
  - rewrite in_app_iff. intros [H|H]; [contradiction|]. exact (Hd a (or_introl eq_refl) H).
  - apply IH; [exact H2|]. intros x Hx. apply Hd. right. exact Hx.
Qed.

Lemma conj_entries_In d ics id cj :
  In (id, cj) (conj_entries d ics) -> exists i, In (i, cj) ics /\ IdsGen.NewConjunctionID i d = Some id.
Proof.
  induction ics as [|[i cj0] rest IH]; cbn [conj_entries]; [contradiction|].
  destruct (IdsGen.NewConjunctionID i d) as [id0|] eqn:E; [|contradiction].
  intros [H|H].
  - inversion H; subst. exists i. split; [left; reflexivity | exact E].
  - destruct (IH H) as [i' [Hi' E']]. exists i'. split; [right; exact Hi' | exact E'].
Qed.

Lemma conj_entries_NoDup d ics : NoDup (map fst ics) -> NoDup (map fst (conj_entries d ics)).
Proof.
  induction ics as [|[i cj] rest IH]; cbn [conj_entries map fst]; intros H; [constructor|].
  inversion H as [|? ? Hni Hnd]; subst.
  destruct (IdsGen.NewConjunctionID i d) as [id|] eqn:E; [|constructor]. cbn [map fst].
  constructor; [|apply IH; exact Hnd].
  intros Hin. apply in_map_iff in Hin. destruct Hin as [[id' cj'] [Hf Hin]]. cbn [fst] in Hf. subst id'.
  apply conj_entries_In in Hin. destruct Hin as [i' [Hi' E']].
  destruct (IdsProof.rr_injective _ _ _ _ _ E E') as [-> _].
  apply Hni. apply in_map_iff. exists (i', cj'). split; [reflexivity | exact Hi'].
Qed.

Lemma indexed_from_ge {A} (l : list A) : forall n i x, In (i, x) (indexed_from n l) -> (n <= i)%Z.
Proof.
  induction l as [|y l IH]; intros n i x; cbn [indexed_from]; [contradiction|].
  intros [H|H]; [inversion H; lia|]. apply IH in H. lia.
Qed.

Lemma indexed_from_NoDup {A} (l : list A) : forall n, NoDup (map fst (indexed_from n l)).
Proof.
  induction l as [|y l IH]; intros n; cbn [indexed_from map fst]; constructor; [|apply IH].
  intros Hin. apply in_map_iff in Hin. destruct Hin as [[i x] [Hf Hin]]. cbn [fst] in Hf. subst i.
  apply indexed_from_ge in Hin. lia.
Qed.

Lemma doc_entries_NoDup d : NoDup (map fst (doc_entries d)).
Proof. apply conj_entries_NoDup, indexed_from_NoDup. Qed.

Lemma doc_entries_In d id cj :
  In (id, cj) (doc_entries d) -> exists i, IdsGen.NewConjunctionID i (d_id d) = Some id.
Proof. intros H. apply conj_entries_In in H. destruct H as [i [_ E]]. exists i. exact E. Qed.

Lemma flat_entries_NoDup ds : NoDup (map d_id ds) -> NoDup (map fst (flat_map doc_entries ds)).
Proof.
  induction ds as [|d ds IH]; cbn [flat_map map]; intros H; [constructor|].
  inversion H as [|? ? Hni Hnd]; subst. rewrite map_app. apply NoDup_app'; [apply doc_entries_NoDup | apply IH; exact Hnd|].
  intros x H1 H2. apply in_map_iff in H1, H2.
  destruct H1 as [[x1 cj1] [Hf1 H1]], H2 as [[x2 cj2] [Hf2 H2]]. cbn [fst] in Hf1, Hf2. subst x1 x2.
  apply doc_entries_In in H1. destruct H1 as [i1 E1].
  apply in_flat_map in H2. destruct H2 as [d' [Hd' H2]]. apply doc_entries_In in H2. destruct H2 as [i2 E2].
  destruct (IdsProof.rr_injective _ _ _ _ _ E1 E2) as [_ Hd]. apply Hni. rewrite Hd. apply in_map. exact Hd'.
Qed.

Lemma docs_db_flat ds : forall acc, docs_db ds acc = rev (flat_map doc_entries ds) ++ acc.
Proof.
  unfold docs_db. induction ds as [|d ds IH]; intros acc; cbn [fold_left flat_map]; [reflexivity|].
  rewrite IH, rev_app_distr, <- app_assoc. reflexivity.
Qed.

Lemma db_unique_of_NoDup (d : db) x cj : NoDup (map fst d) -> In (x, cj) d -> db_unique d x cj.
Proof.
  intros Hnd Hin. apply in_split in Hin. destruct Hin as (l1 & l2 & ->). exists l1, l2. split; [reflexivity|].
  rewrite map_app in Hnd. cbn [map fst] in Hnd. apply NoDup_remove_2 in Hnd. rewrite in_app_iff in Hnd. tauto.
Qed.

(* the k-th conjunction of a document is recorded under its id (no earlier index can be refused
   when index k is accepted) *)
Lemma conj_entries_nth d (l : list conj) : forall n k cj x, (0 <= n)%Z ->
  nth_error l k = Some cj -> IdsGen.NewConjunctionID (n + Z.of_nat k) d = Some x ->
  In (x, cj) (conj_entries d (indexed_from n l)).
Proof.
  induction l as [|c0 l IH]; intros n k cj x Hn Hk Hx; [destruct k; discriminate|].
  cbn [indexed_from conj_entries]. destruct k as [|k]; cbn [nth_error] in Hk.
  - inversion Hk; subst. replace (n + Z.of_nat 0)%Z with n in Hx by lia. rewrite Hx. left. reflexivity.
  - destruct (IdsProof.NewConjunctionID_some_inrange _ _ _ Hx) as [Hd Hi].
    rewrite (IdsProof.NewConjunctionID_arith n d Hd) by lia. right.
    apply (IH (n + 1)%Z k); [lia | exact Hk|]. replace (n + 1 + Z.of_nat k)%Z with (n + Z.of_nat (S k))%Z by lia. exact Hx.
Qed.

Theorem docs_db_unique ds d k cj x :
  NoDup (map d_id ds) -> In d ds -> nth_error (d_conjs d) k = Some cj ->
  IdsGen.NewConjunctionID (Z.of_nat k) (d_id d) = Some x ->
  db_unique (docs_db ds []) x cj.
Proof.
  intros Hnd Hd Hk Hx. rewrite docs_db_flat, app_nil_r. apply db_unique_of_NoDup.
  - rewrite map_rev. apply NoDup_rev, flat_entries_NoDup, Hnd.
  - apply in_rev. rewrite rev_involutive. apply in_flat_map. exists d. split; [exact Hd|].
    apply (conj_entries_nth (d_id d) (d_conjs d) 0%Z k); [lia | exact Hk | exact Hx].
Qed.

(* FULL END TO END.  Default-parser fields only, at least one field, documents with distinct ids,
   all accepted.  The id of the k-th conjunction of document d is in the raw result of a fresh
   scanner iff the assignment satisfies that conjunction on every configured field. *)
Theorem roaring_index_correct b0 ds b os q s d k cj x :
  all_new (rb_conts b0) -> rb_conts b0 <> [] ->
  radd_documents b0 ds = (b, os) -> Forall (eq AddOk) os ->
  NoDup (map d_id ds) -> In d ds -> nth_error (d_conjs d) k = Some cj ->
  IdsGen.NewConjunctionID (Z.of_nat k) (d_id d) = Some x ->
  sc_retrieve (rb_conts b) q fresh_scanner = POk s ->
  bm_mem x (sc_res s) = forallb (conj_sat_field q cj) (rb_conts b).
Proof.
  intros Hn Hne Ha Hok Hnd Hd Hk Hx H.
  eapply roaring_build_retrieve; try eassumption.
  - pose proof (radd_documents_keys ds b0) as Hkeys. rewrite Ha in Hkeys. cbn [fst] in Hkeys.
    intros E. rewrite E in Hkeys. destruct (rb_conts b0); [congruence | discriminate].
  - eapply docs_db_unique; eassumption.
Qed.

(* and nothing else: an id that no accepted document produced is never returned *)
Theorem roaring_index_sound b0 ds b os q s x :
  all_new (rb_conts b0) -> radd_documents b0 ds = (b, os) -> Forall (eq AddOk) os ->
  sc_retrieve (rb_conts b) q fresh_scanner = POk s -> bm_mem x (sc_res s) = true ->
  exists d cj i, In d ds /\ In (i, cj) (indexed_from 0%Z (d_conjs d)) /\ IdsGen.NewConjunctionID i (d_id d) = Some x.
Proof.
  intros Hn Ha Hok H Hx.
  pose proof (radd_documents_repr ds _ _ _ _ Ha Hok (all_new_repr _ Hn)) as R.
  destruct (in_dec N.eq_dec x (map fst (docs_db ds []))) as [Hin|Hnin].
  - rewrite docs_db_flat, app_nil_r in Hin. apply in_map_iff in Hin. destruct Hin as [[x' cj] [Hf Hin]].
    cbn [fst] in Hf. subst x'. apply in_rev in Hin. apply in_flat_map in Hin. destruct Hin as [d [Hd Hin]].
    apply conj_entries_In in Hin. destruct Hin as [i [Hi E]]. exists d, cj, i. auto.
  - rewrite (roaring_unknown_id _ _ _ _ _ R Hnin H) in Hx. discriminate.
Qed.

(* a Prop-level reading of field_sat *)
Lemma field_sat_iff p ids es :
  field_sat p ids es = true <->
  ((forall e, In e es -> e_incl e = false) \/
   exists e v, In e es /\ e_incl e = true /\ In v ids /\ val_hit p v e = true) /\
  (forall e v, In e es -> e_incl e = false -> In v ids -> val_hit p v e = false).
Proof.
  unfold field_sat. rewrite andb_true_iff, orb_true_iff, !negb_true_iff. split.
  - intros [Hi He]. split.
    + destruct Hi as [Hi|Hi]; [left|right].
      * intros e Hin. destruct (e_incl e) eqn:E; [|reflexivity].
        assert (existsb e_incl es = true) by (apply existsb_exists; eauto). congruence.
      * apply existsb_exists in Hi. destruct Hi as [e [Hin Hh]]. apply andb_prop in Hh. destruct Hh as [Hi Hh].
        apply existsb_exists in Hh. destruct Hh as [v [Hv Hh]]. exists e, v. auto.
    + intros e v Hin Hie Hv. destruct (val_hit p v e) eqn:E; [|reflexivity].
      assert (existsb (fun e => negb (e_incl e) && existsb (fun v => val_hit p v e) ids) es = true); [|congruence].
      apply existsb_exists. exists e. split; [exact Hin|]. rewrite Hie. cbn [negb andb].
      apply existsb_exists. exists v. auto.
  - intros [Hi He]. split.
    + destruct Hi as [Hi|(e & v & Hin & Hie & Hv & Hh)]; [left|right].
      * destruct (existsb e_incl es) eqn:E; [|reflexivity]. apply existsb_exists in E. destruct E as [e [Hin E]].
        rewrite (Hi _ Hin) in E. discriminate.
      * apply existsb_exists. exists e. split; [exact Hin|]. rewrite Hie. cbn [andb]. apply existsb_exists. exists v. auto.
    + match goal with |- ?t = false => destruct t eqn:E end; [|reflexivity].
      apply existsb_exists in E. destruct E as [e [Hin E]]. apply andb_prop in E. destruct E as [Hi' Hh].
      apply negb_true_iff in Hi'. apply existsb_exists in Hh. destruct Hh as [v [Hv Hh]].
      rewrite (He _ _ Hin Hi' Hv) in Hh. discriminate.
Qed.

(* ---- audit ---- *)
Print Assumptions bm_mem_add.
Print Assumptions bm_mem_or.
Print Assumptions bm_mem_and.
Print Assumptions bm_mem_andnot.
Print Assumptions bm_empty_mem.
Print Assumptions bm_ext.
Print Assumptions sc_retrieve_fresh.
Print Assumptions sc_retrieve_fresh'.
Print Assumptions sc_retrieve_perm.
Print Assumptions sc_retrieve_perm_eq.
Print Assumptions sc_retrieve_perm_total.
Print Assumptions sc_retrieve_hinted.
Print Assumptions sc_retrieve_hinted_perm.
Print Assumptions sc_retrieve_nofields.
Print Assumptions rc_retrieve_default.
Print Assumptions rc_retrieve_default_iff.
Print Assumptions rc_retrieve_ac.
Print Assumptions encode_fields_step.
Print Assumptions encode_fields_field_default.
Print Assumptions roaring_end_to_end.
Print Assumptions roaring_index_correct.
Print Assumptions roaring_index_sound.
