(* C17  Value parsers are total and never silently index a different predicate.  Statements only.
   Model: Model/Parsers.v (dispatch through the case tables regenerated from the source).
   Specification: Model/Spec.v (canon_texts / ints_of / strings_of / descs_of / expr_sem). *)
From Coq Require Import List NArith ZArith Bool.
From BE Require Import Model.GoTypes Model.GoVal Model.Parsers Model.Index Model.Spec Gen.TypeSwitchGen Proofs.ParsersProof Proofs.DenoteProof Proofs.RangeLoopProof.
Import ListNotations.

(* generated-table obligations: no type outside the modelled universe appears in any case list *)
Theorem C17_tables_within_universe :
  sw_common_ParseAssign_extra = [] /\ sw_common_ParseValue_extra = [] /\ sw_common_allocInterfaceID_extra = [] /\
  sw_common_findInterfaceID_extra = [] /\ sw_ParseIntergers_extra = [] /\ sw_ParseIntegerNumber_extra = [] /\
  sw_number_ParseValue_extra = [] /\ sw_numrange_ParseAssign_extra = [] /\ sw_numrange_ParseValue_extra = [] /\
  sw_strhash_ParseValue_extra = [] /\ sw_NilInterface_extra = [] /\ sw_ParseAcMatchDict_extra = [] /\
  sw_BuildAcMatchContent_extra = [] /\ sw_ParseBetween_extra = [].
Proof. exact tables_within_universe. Qed.

(* no parser entry point panics or diverges, for every Go value whatsoever *)
Theorem C17_total : forall (p : parser_kind) (v : gval),
  parse_value p v <> PPanic /\ parse_value p v <> PDiverge /\
  parse_assign p v <> PPanic /\ parse_assign p v <> PDiverge.
Proof. exact parsers_total. Qed.

Theorem C17_range_helpers_total : forall (op : vop) (v : gval),
  parse_range op true v <> PPanic /\ parse_range op true v <> PDiverge /\
  parse_integers true v <> PPanic /\ parse_integers true v <> PDiverge /\
  nil_interface v <> PPanic.
Proof. exact range_helpers_total. Qed.

(* a range description denotes start, start+step, ... <= end for step >= 1 and is refused otherwise *)
Theorem C17_range_desc_refuses_bad_step : forall s st e sp, range_desc s = Some (st, e, sp) -> (1 <= sp)%Z.
Proof. exact range_desc_step_pos. Qed.
Theorem C17_enum_range_exact : forall st e sp, (1 <= sp)%Z -> (st <= e)%Z ->
  forall x, In x (enum_range (Z.to_nat ((e - st) / sp + 1)) st e sp) <->
            exists k, (0 <= k)%Z /\ x = (st + k * sp)%Z /\ (x <= e)%Z.
Proof. exact enum_range_exact. Qed.
(* the enumeration loop in the code's int64 arithmetic (it leaves before `s += step` would wrap, repair b90faa2)
   produces exactly that enumeration for EVERY int64 start and end and every step >= 1; the loop as it was (F19)
   is still running after a thousand rounds on a description that denotes two values *)
Theorem C17_enum_loop_never_wraps : forall fuel st e sp,
  (- two63 <= st < two63)%Z -> (- two63 <= e < two63)%Z -> (1 <= sp < two63)%Z ->
  enum_range_i64 fuel st e sp = enum_range fuel st e sp.
Proof. exact enum_range_i64_exact. Qed.
(* the tie to the source, as a theorem: the three enumeration loops of NumberRangeParser.ParseValue TRANSLATED from
   parser/range_parser.go on every run (Gen/RangeLoopGen.v; int64 wrap at every node, fuelled, `break` as written)
   append exactly the enumeration above, converted as uint64(s), with the fuel the model uses -- for EVERY int64
   start and end and every step >= 1; they never run out of fuel and never wrap *)
Theorem C17_translated_enum_loops_are_model : forall st e sp acc,
  (- two63 <= st < two63)%Z -> (- two63 <= e < two63)%Z -> (1 <= sp < two63)%Z ->
  let fuel := Z.to_nat ((e - st) / sp + 1) in
  let out := G.Ret (acc ++ map conv (if (e <? st)%Z then [] else enum_range fuel st e sp)) in
  R.NumberRangeParser_ParseValue_for1 fuel st e sp acc = out /\
  R.NumberRangeParser_ParseValue_for2 fuel st e sp acc = out /\
  R.NumberRangeParser_ParseValue_for3 fuel st e sp acc = out.
Proof. exact range_loops_translated_are_model. Qed.
Theorem C17_translated_conversion_is_model : forall z, Z.of_N (conv z) = wrap_u64 z.
Proof. exact conv_is_wrap_u64. Qed.
Theorem C17_enum_loop_pinned_refuted :
  let st := (two63 - 2)%Z in let e := (two63 - 1)%Z in
  length (enum_range (Z.to_nat ((e - st) / 1 + 1)) st e 1) = 2%nat /\
  length (enum_range_pinned 1000 st e 1) = 1000%nat /\
  enum_range_i64 1000 st e 1 = [st; e].
Proof. exact enum_range_pinned_refuted. Qed.

(* EXACTNESS, both directions, every well-formed value inside the modelled fragment (wf_val: elements of a
   typed slice have the slice's element type; modelled / modelled_num: finite floats below 2^63 and decimal
   texts the model of strconv covers -- see Proofs/DenoteProof.v for the exact predicates):
   each parser either REJECTS (PErr) or yields EXACTLY the ids of what the representation-free
   specification (Model/Spec.v) says the value denotes *)
Theorem C17_common_value_exact : forall v, wf_val v -> modelled v ->
  match canon_texts v with Some ts => common_parse_value v = POk (map PText ts) | None => common_parse_value v = PErr end.
Proof. exact common_value_exact. Qed.
Theorem C17_number_value_exact : forall v, wf_val v -> modelled_num v ->
  match ints_of v with Some zs => number_parse_value v = POk (map (fun z => PNum (wrap_u64 z)) zs) | None => number_parse_value v = PErr end.
Proof. exact number_value_exact. Qed.
Theorem C17_strhash_value_exact : forall v, wf_val v ->
  match strings_of v with Some ss => strhash_parse_value v = POk (map PText ss) | None => strhash_parse_value v = PErr end.
Proof. exact strhash_value_exact. Qed.
Theorem C17_numrange_value_exact : forall v, wf_val v ->
  match descs_of v with Some zs => numrange_parse_value v = POk (map (fun z => PNum (wrap_u64 z)) zs) | None => numrange_parse_value v = PErr end.
Proof. exact numrange_value_exact. Qed.

(* accepted => matchable: on a default-container field the query side yields the same ids for the same
   denotation (assign_sem), so assigning a denoted value hits what was indexed *)
Theorem C17_value_side_is_spec : forall fd e, fd_cont fd = CDefault -> e_op e = OpEQ -> wf_val (e_val e) -> modelled_num (e_val e) ->
  parse_value (fd_parser fd) (e_val e) = ans (option_map esem_ids (expr_sem fd e)).
Proof. exact parse_value_expr_sem. Qed.
Theorem C17_query_side_is_spec : forall fd v, fd_cont fd = CDefault -> wf_val v -> modelled_num v ->
  match assign_sem fd v with
  | Some q => parse_assign (fd_parser fd) v = POk (qsem_ids q)
  | None => (fd_parser fd = PCommon -> forall n vs, v <> VList n vs) -> parse_assign (fd_parser fd) v = PErr end.
Proof. exact parse_assign_assign_sem. Qed.

(* the range container: >, <, between parse to exactly the operator's interval, or are rejected
   (bounds of magnitude up to 2^62: small_bounds) *)
Theorem C17_range_container_exact : forall fd e l r, fd_cont fd = CRange -> e_op e <> OpEQ ->
  wf_val (e_val e) -> modelled_num (e_val e) -> ints_fit (e_val e) -> small_bounds (e_val e) ->
  (parse_range (e_op e) true (e_val e) = POk (l, r) <->
   expr_sem fd e = Some (ERange l (match e_op e with OpGT => r + 1 | _ => r end)))%Z.
Proof. exact parse_range_ok_iff. Qed.
Theorem C17_range_container_rejects : forall fd e, fd_cont fd = CRange -> e_op e <> OpEQ ->
  wf_val (e_val e) -> modelled_num (e_val e) -> ints_fit (e_val e) -> small_bounds (e_val e) ->
  (parse_range (e_op e) true (e_val e) = PErr <-> expr_sem fd e = None).
Proof. exact parse_range_err_iff. Qed.

(* a range holder configured with EnableFloat2Int = false (RangeHolderOption): a float operand of > or < is an
   error rather than the truncated bound; integer operands and between pairs are read as in the stock configuration
   (tied to the code by the parser-level cases PCRangeNF, Corr/CheckParse.v) *)
Theorem C17_range_container_without_float_conversion :
  (forall op b f, op = OpGT \/ op = OpLT -> parse_range op false (VFloat b f) = PErr) /\
  (forall op k z, parse_range op false (VInt k z) = parse_range op true (VInt k z)) /\
  (forall v, parse_range OpBetween false v = parse_range OpBetween true v).
Proof. exact parse_range_nf_spec. Qed.
Example C17_without_float_conversion_nonvacuous :
  parse_range OpGT true (VFloat false (Build_fl 18%Z true FFinite [49;56]%N)) <> PErr /\
  parse_range OpGT false (VFloat false (Build_fl 18%Z true FFinite [49;56]%N)) = PErr.
Proof. split; [vm_compute; discriminate | reflexivity]. Qed.

Print Assumptions C17_tables_within_universe.
Print Assumptions C17_common_value_exact.
Print Assumptions C17_number_value_exact.
Print Assumptions C17_strhash_value_exact.
Print Assumptions C17_numrange_value_exact.
Print Assumptions C17_value_side_is_spec.
Print Assumptions C17_query_side_is_spec.
Print Assumptions C17_range_container_exact.
Print Assumptions C17_range_container_rejects.
Print Assumptions C17_total.
Print Assumptions C17_range_helpers_total.
Print Assumptions C17_range_desc_refuses_bad_step.
Print Assumptions C17_enum_range_exact.
Print Assumptions C17_enum_loop_never_wraps.
Print Assumptions C17_translated_enum_loops_are_model.
Print Assumptions C17_translated_conversion_is_model.
Print Assumptions C17_enum_loop_pinned_refuted.
Print Assumptions C17_range_container_without_float_conversion.
