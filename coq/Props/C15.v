(* C15  Roaring scanner: Reset restores a fresh scanner; hints restrict exactly.  Statements only.
   About Model/Roaring.v (sc_with_hint, sc_retrieve, fresh_scanner). *)
From Coq Require Import List NArith ZArith Bool Permutation.
From BE Require Import Model.GoTypes Model.GoVal Model.Parsers Model.Index Model.Roaring Proofs.RoaringProof.
From BE Require Gen.IdsGen Model.Spec Proofs.RoaringHolders Proofs.RoaringSpec.
Import ListNotations.

(* a scanner primed with hint documents returns exactly the hinted conjunction ids that are in every
   field's result -- i.e. the unhinted result intersected with the hints; any field list (also the
   empty one), any hint set (empty, unknown ids, ids outside the codec's range), incl. the early break *)
Theorem C15_hints_restrict_exactly : forall maxconj hs conts q s0 s,
  sc_with_hint maxconj fresh_scanner hs = Some s0 -> sc_retrieve conts q s0 = POk s ->
  forall x, bm_mem x (sc_res s) = bm_mem x (hint_ids maxconj hs) && all_in q x conts.
Proof. exact sc_retrieve_hinted. Qed.

(* the unhinted result, for comparison *)
Theorem C15_unhinted : forall conts q s, conts <> [] -> sc_retrieve conts q fresh_scanner = POk s ->
  forall x, bm_mem x (sc_res s) = all_in q x conts.
Proof. exact sc_retrieve_fresh. Qed.

(* the hinted result does not depend on the field order either *)
Theorem C15_hinted_any_field_order : forall maxconj hs conts conts' q s0 s s',
  Permutation conts conts' -> sc_with_hint maxconj fresh_scanner hs = Some s0 ->
  sc_retrieve conts q s0 = POk s -> sc_retrieve conts' q s0 = POk s' ->
  sc_res s = sc_res s'.
Proof. exact sc_retrieve_hinted_perm. Qed.

(* WithHint on a primed scanner is refused (the Go code panics) *)
Theorem C15_hint_on_primed_scanner_refused : forall maxconj s hs, sc_inited s = true -> sc_with_hint maxconj s hs = None.
Proof. exact sc_with_hint_primed. Qed.

(* Reset: in the model Reset is the constant function to fresh_scanner, so "whatever it was used for
   before" is immediate; that the real Reset clears the pooled bitmap and all three flags is what the
   operation-sequence correspondence compares on every run. *)

(* END TO END AGAINST THE SPECIFICATION, default and pattern containers: a scanner primed with the hint documents hs
   returns a conjunction id iff its document is among hs AND the specification says the conjunction is satisfied --
   i.e. exactly the unhinted answer (Props/C03.v) restricted to the hinted documents *)
Theorem C15_hinted_exact_against_spec : forall b0 b ds os parsers q,
  RoaringHolders.all_new_r (rb_conts b0) -> rb_conts b0 <> [] -> NoDup (map fst (rb_conts b0)) ->
  radd_documents b0 ds = (b, os) -> Forall (eq AddOk) os -> NoDup (map d_id ds) ->
  (forall d cj, In d ds -> In cj (d_conjs d) -> NoDup (map fst cj)) ->
  (forall d, In d ds -> RoaringSpec.doc_good_r (RoaringSpec.conts_fields (rb_conts b0)) d) ->
  RoaringSpec.asg_good_r (RoaringSpec.conts_fields (rb_conts b0)) q ->
  forall hs s0, sc_with_hint (rb_maxconj b) fresh_scanner hs = Some s0 ->
  exists s, sc_retrieve (rb_conts b) q s0 = POk s /\
    (forall d k cj x sc, In d ds -> nth_error (d_conjs d) k = Some cj ->
       IdsGen.NewConjunctionID (Z.of_nat k) (d_id d) = Some x ->
       Spec.conj_sem (RoaringSpec.conts_fields (rb_conts b0)) parsers cj = Some sc ->
       (bm_mem x (sc_res s) = true <->
        In (d_id d) hs /\ Spec.sat_conj (RoaringSpec.conts_fields (rb_conts b0)) parsers q sc = Some true)) /\
    (forall x, bm_mem x (sc_res s) = true ->
       exists d k cj, In d ds /\ In (d_id d) hs /\ nth_error (d_conjs d) k = Some cj /\
                      IdsGen.NewConjunctionID (Z.of_nat k) (d_id d) = Some x).
Proof. exact RoaringSpec.roaring_index_hinted_spec. Qed.

Print Assumptions C15_hints_restrict_exactly.
Print Assumptions C15_unhinted.
Print Assumptions C15_hinted_any_field_order.
Print Assumptions C15_hint_on_primed_scanner_refused.
Print Assumptions C15_hinted_exact_against_spec.
