From Coq Require Import List NArith Bool Lia Permutation Sorting.Sorted Arith.
From BE Require Import Model.Scan.
Import ListNotations.
Local Open Scope N_scope.

Definition le_entry (a b : entry) : Prop := key a <= key b.
Definition sorted (s : stream) : Prop := StronglySorted le_entry s.

Lemma key_inj a b : key a = key b -> a = b.
Proof. destruct a as [c i], b as [d j]; unfold key; cbn [fst snd]; destruct i, j; intros H; try (exfalso; lia); f_equal; lia. Qed.
Lemma key_conj_le a b : key a <= key b -> fst a <= fst b.
Proof. destruct a as [c i], b as [d j]; unfold key; cbn [fst snd]; destruct i, j; lia. Qed.

Lemma filter_id {A} (p : A -> bool) l : (forall x, In x l -> p x = true) -> filter p l = l.
Proof. induction l as [|a l IH]; simpl; intros H; auto. rewrite (H a) by auto. f_equal. apply IH. auto. Qed.

(* ---------- drop_below ---------- *)
Lemma drop_below_filter b s : sorted s ->
  drop_below b s = filter (fun e => b <=? fst e) s.
Proof.
  induction 1 as [|e s Hs IH Hall]; simpl; auto.
  destruct (N.ltb_spec (fst e) b) as [Hlt|Hge].
  - destruct (N.leb_spec b (fst e)); try lia. auto.
  - destruct (N.leb_spec b (fst e)); try lia. f_equal.
    symmetry. apply filter_id. intros x Hx.
    rewrite Forall_forall in Hall. apply Hall in Hx. apply key_conj_le in Hx. apply N.leb_le. lia.
Qed.

Lemma drop_below_comp b b' s : b <= b' -> drop_below b' (drop_below b s) = drop_below b' s.
Proof.
  intros Hb. induction s as [|e s IH]; simpl; auto.
  destruct (N.ltb_spec (fst e) b).
  - destruct (N.ltb_spec (fst e) b'); try lia. auto.
  - simpl. reflexivity.
Qed.

Lemma drop_below_sorted b s : sorted s -> sorted (drop_below b s).
Proof.
  induction 1 as [|e s Hs IH Hall]; simpl; [constructor|].
  destruct (fst e <? b); auto. constructor; auto.
Qed.

Lemma drop_below_length b s : (length (drop_below b s) <= length s)%nat.
Proof. induction s as [|e s IH]; simpl; auto. destruct (fst e <? b); simpl; lia. Qed.

Lemma drop_below_head_ge b s e : head s = Some e -> b <= fst e -> drop_below b s = s.
Proof. destruct s; simpl; intros H Hb; inversion H; subst. destruct (N.ltb_spec (fst e) b); auto; lia. Qed.

Lemma drop_below_head_lt b s e : head s = Some e -> fst e < b ->
  (length (drop_below b s) < length s)%nat.
Proof.
  destruct s; simpl; intros H Hb; inversion H; subst.
  destruct (N.ltb_spec (fst e) b); try lia. pose proof (drop_below_length b s). lia.
Qed.

Lemma sorted_head_min s e x : sorted s -> head s = Some e -> In x s -> key e <= key x.
Proof.
  intros Hs Hh Hx. destruct s; simpl in *; inversion Hh; subst.
  inversion Hs; subst. destruct Hx as [->|Hx]; [lia|].
  rewrite Forall_forall in H2. apply H2; auto.
Qed.


(* ---------- order on optional keys, insertion sort ---------- *)
Definition ole (a b : option N) : Prop := lt_okey b a = false.
Definition hle (a b : stream) : Prop := ole (hkey a) (hkey b).
Lemma ole_total a b : ole a b \/ ole b a.
Proof. unfold ole. destruct a, b; simpl; auto. destruct (N.ltb_spec n0 n); auto. right. apply N.ltb_ge. lia. Qed.
Lemma ole_trans a b c : ole a b -> ole b c -> ole a c.
Proof. unfold ole. destruct a, b, c; simpl; auto; try discriminate. rewrite !N.ltb_ge. lia. Qed.
Lemma lt_not_ole a b : lt_okey a b = true -> ole a b.
Proof. unfold ole. destruct a, b; simpl; auto; try discriminate. rewrite N.ltb_lt, N.ltb_ge. lia. Qed.

Section ISortFacts.
  Context {A : Type} (k : A -> option N).
  Definition kle (x y : A) : Prop := ole (k x) (k y).
  Lemma ins_perm x l : Permutation (ins k x l) (x :: l).
  Proof.
    induction l as [|y l IH]; simpl; auto. destruct (lt_okey (k x) (k y)); auto.
    rewrite IH. apply perm_swap.
  Qed.
  Lemma ins_sorted x l : StronglySorted kle l -> StronglySorted kle (ins k x l).
  Proof.
    induction 1 as [|y l Hs IH Hall]; simpl.
    - repeat constructor.
    - destruct (lt_okey (k x) (k y)) eqn:E.
      + constructor. constructor; auto. constructor. apply lt_not_ole; auto.
        rewrite Forall_forall in *. intros z Hz. unfold kle in *. eapply ole_trans; [apply lt_not_ole; eauto|auto].
      + constructor; auto. rewrite Forall_forall in *. intros z Hz.
        apply (Permutation_in _ (ins_perm x l)) in Hz. destruct Hz as [<-|Hz]; auto.
  Qed.
  Lemma isort_aux_perm l acc : Permutation (fold_left (fun a x => ins k x a) l acc) (acc ++ l).
  Proof.
    revert acc. induction l as [|x l IH]; intros acc; simpl. rewrite app_nil_r; auto.
    rewrite IH. rewrite ins_perm. change (x :: acc ++ l) with ((x :: acc) ++ l).
    rewrite (Permutation_middle acc l x). reflexivity.
  Qed.
  Lemma isort_perm l : Permutation (isort k l) l.
  Proof. unfold isort. rewrite isort_aux_perm. reflexivity. Qed.
  Lemma isort_aux_sorted l acc : StronglySorted kle acc -> StronglySorted kle (fold_left (fun a x => ins k x a) l acc).
  Proof. revert acc. induction l as [|x l IH]; intros acc H; simpl; auto. apply IH. apply ins_sorted; auto. Qed.
  Lemma isort_sorted l : StronglySorted kle (isort k l).
  Proof. apply isort_aux_sorted. constructor. Qed.
  (* sorting commutes with a key-preserving map: the lock-step lemma used by the refinement *)
  Lemma ins_map {B} (f : A -> B) (kb : B -> option N) x l : (forall a, kb (f a) = k a) ->
    map f (ins k x l) = ins kb (f x) (map f l).
  Proof. intros H. induction l as [|y l IH]; simpl; auto. rewrite !H. destruct (lt_okey (k x) (k y)); simpl; auto. f_equal; auto. Qed.
  Lemma isort_map {B} (f : A -> B) (kb : B -> option N) l : (forall a, kb (f a) = k a) ->
    map f (isort k l) = isort kb (map f l).
  Proof.
    intros H. unfold isort.
    assert (G : forall acc, map f (fold_left (fun a x => ins k x a) l acc) =
                            fold_left (fun a x => ins kb x a) (map f l) (map f acc)).
    { induction l as [|x l IH]; intros acc; simpl; auto. rewrite IH. f_equal. apply ins_map; auto. }
    apply (G []).
  Qed.
End ISortFacts.

Lemma sort_streams_perm l : Permutation (isort hkey l) l.
Proof. apply isort_perm. Qed.
Lemma sort_streams_sorted l : StronglySorted hle (isort hkey l).
Proof. apply (isort_sorted hkey). Qed.

Lemma hle_heads a b x y : hle a b -> head a = Some x -> head b = Some y -> key x <= key y.
Proof. unfold hle, ole, hkey. intros H Ha Hb. rewrite Ha, Hb in H. simpl in H. apply N.ltb_ge in H. lia. Qed.
Lemma hle_none a b : hle a b -> head a = None -> head b = None.
Proof. unfold hle, ole, hkey. intros H Ha. rewrite Ha in H. destruct (head b); simpl in *; auto. discriminate. Qed.

(* ---------- specification ---------- *)
Definition mem (e : entry) (s : stream) : bool := existsb (fun x => key x =? key e) s.
Lemma mem_In e s : mem e s = true <-> In e s.
Proof.
  unfold mem. rewrite existsb_exists. split.
  - intros [x [Hx Hk]]. apply N.eqb_eq, key_inj in Hk. subst; auto.
  - intros H. exists e. split; auto. apply N.eqb_refl.
Qed.
Definition cnt (e : entry) (ss : list stream) : nat := length (filter (mem e) ss).
Definition sat (need : nat) (os : list stream) (c : N) : Prop :=
  cnt (c, false) os = O /\ (need <= cnt (c, true) os)%nat.

Lemma filter_perm {A} (f : A -> bool) l l' : Permutation l l' -> Permutation (filter f l) (filter f l').
Proof.
  induction 1; simpl; auto.
  - destruct (f x); auto.
  - destruct (f x), (f y); auto. apply perm_swap.
  - etransitivity; eauto.
Qed.
Lemma cnt_perm e l l' : Permutation l l' -> cnt e l = cnt e l'.
Proof. intros H. unfold cnt. apply Permutation_length, filter_perm, H. Qed.

Lemma In_drop_below b s e : sorted s -> (In e (drop_below b s) <-> In e s /\ b <= fst e).
Proof. intros Hs. rewrite drop_below_filter by auto. rewrite filter_In, N.leb_le. tauto. Qed.

Lemma cnt_drop_below b os c i : Forall sorted os -> b <= c ->
  cnt (c, i) (map (drop_below b) os) = cnt (c, i) os.
Proof.
  intros Hs Hb. unfold cnt. induction os as [|s os IH]; simpl; auto.
  inversion Hs; subst.
  assert (E : mem (c, i) (drop_below b s) = mem (c, i) s).
  { apply eq_true_iff_eq. rewrite !mem_In, In_drop_below by auto. simpl. tauto. }
  rewrite E. destruct (mem (c, i) s); simpl; rewrite IH; auto.
Qed.

(* ---------- counting on head-sorted lists ---------- *)
Lemma cnt_app e l1 l2 : cnt e (l1 ++ l2) = (cnt e l1 + cnt e l2)%nat.
Proof. unfold cnt. rewrite filter_app, app_length. auto. Qed.
Lemma cnt_le_length e l : (cnt e l <= length l)%nat.
Proof. unfold cnt. induction l; simpl; auto. destruct (mem e a); simpl; lia. Qed.
Lemma cnt_zero e l : (forall s, In s l -> mem e s = false) -> cnt e l = O.
Proof. unfold cnt. induction l as [|a l IH]; simpl; intros H; auto. rewrite (H a) by auto. apply IH. auto. Qed.
Lemma cnt_pos e l : (0 < cnt e l)%nat -> exists s, In s l /\ In e s.
Proof.
  unfold cnt. induction l as [|a l IH]; simpl; intros H; [lia|].
  destruct (mem e a) eqn:E. exists a. split; auto. apply mem_In; auto.
  destruct (IH H) as [s [? ?]]. exists s; auto.
Qed.
Lemma cnt_bound e k l : (forall s, In s (skipn k l) -> mem e s = false) -> (cnt e l <= k)%nat.
Proof.
  intros H. rewrite <- (firstn_skipn k l), cnt_app, (cnt_zero e (skipn k l)) by auto.
  pose proof (cnt_le_length e (firstn k l)). pose proof (firstn_le_length k l). lia.
Qed.

Lemma sorted_mem_head s e : sorted s -> In e s -> exists h, head s = Some h /\ key h <= key e.
Proof.
  intros Hs Hin. destruct s as [|h s]; [inversion Hin|]. exists h. split; auto.
  eapply sorted_head_min; eauto.
Qed.

Lemma hle_skipn k ss sEnd : StronglySorted hle ss -> nth_error ss k = Some sEnd ->
  forall s, In s (skipn k ss) -> s = sEnd \/ hle sEnd s.
Proof.
  intros Hs. revert k. induction Hs as [|a l Hl IH Hall]; intros k Hn s Hin.
  - destruct k; discriminate.
  - destruct k; simpl in *.
    + inversion Hn; subst. destruct Hin as [->|Hin]; auto. right. rewrite Forall_forall in Hall. auto.
    + eapply IH; eauto.
Qed.
Lemma hle_firstn k ss sEnd : StronglySorted hle ss -> nth_error ss k = Some sEnd ->
  forall s, In s (firstn k ss) -> hle s sEnd.
Proof.
  intros Hs. revert k. induction Hs as [|a l Hl IH Hall]; intros k Hn s Hin.
  - destruct k; discriminate.
  - destruct k; simpl in *; [contradiction|].
    destruct Hin as [->|Hin]. rewrite Forall_forall in Hall. apply Hall. eapply nth_error_In; eauto.
    eapply IH; eauto.
Qed.

(* ---------- misc list lemmas ---------- *)
Lemma map_first_all n (f : stream -> stream) ss :
  (forall s, In s (skipn n ss) -> f s = s) -> map_first n f ss = map f ss.
Proof.
  intros H. unfold map_first. rewrite <- (firstn_skipn n ss) at 3. rewrite map_app. f_equal.
  symmetry. rewrite <- (map_id (skipn n ss)) at 2. apply map_ext_in. auto.
Qed.
Lemma drop_below_all_ge b s : (forall e, In e s -> b <= fst e) -> drop_below b s = s.
Proof. destruct s as [|e s]; simpl; auto. intros H. destruct (N.ltb_spec (fst e) b); auto. specialize (H e (or_introl eq_refl)). lia. Qed.

Lemma in_skipn_le {A} (k k' : nat) (l : list A) x : (k <= k')%nat -> In x (skipn k' l) -> In x (skipn k l).
Proof.
  revert k k'. induction l as [|a l IH]; intros k k' Hk Hin.
  - destruct k'; simpl in Hin; contradiction.
  - destruct k.
    + change (In x (a :: l)). rewrite <- (firstn_skipn k' (a :: l)). apply in_or_app. right. exact Hin.
    + destruct k'; [lia|]. simpl in Hin. simpl. eapply IH; [|exact Hin]. lia.
Qed.

Definition total (ss : list stream) : nat := length (concat ss).
Lemma total_perm l l' : Permutation l l' -> total l = total l'.
Proof.
  unfold total. induction 1; simpl; auto; rewrite ?app_length in *; try lia.
Qed.
Lemma total_map_le b ss : (total (map (drop_below b) ss) <= total ss)%nat.
Proof. unfold total. induction ss as [|s ss IH]; simpl; auto. rewrite !app_length. pose proof (drop_below_length b s). lia. Qed.
Lemma total_map_lt b s0 ss e : head s0 = Some e -> fst e < b ->
  (total (map (drop_below b) (s0 :: ss)) < total (s0 :: ss))%nat.
Proof.
  intros Hh Hlt. unfold total. simpl. rewrite !app_length.
  pose proof (drop_below_head_lt b s0 e Hh Hlt). pose proof (total_map_le b ss). unfold total in *. lia.
Qed.


Lemma firstn_snoc {A} (l : list A) k x : nth_error l k = Some x -> firstn (S k) l = firstn k l ++ [x].
Proof.
  revert k. induction l as [|a l IH]; intros k Hn; destruct k; simpl in *; try discriminate.
  - inversion Hn; auto.
  - f_equal. auto.
Qed.
Lemma nth_error_length_gt {A} (l : list A) k x : nth_error l k = Some x -> (k < length l)%nat.
Proof. intros H. apply nth_error_Some. congruence. Qed.
Lemma cnt_all e l : (forall s, In s l -> mem e s = true) -> cnt e l = length l.
Proof. unfold cnt. induction l as [|a l IH]; simpl; intros H; auto. rewrite (H a) by auto. simpl. f_equal. apply IH; auto. Qed.

Section Main.
Variables (needf : N -> nat) (os : list stream).
Hypothesis Hneed : forall c, (1 <= needf c)%nat.
Hypothesis Hmono : forall c c', c <= c' -> (needf c <= needf c')%nat.
Hypothesis Hos : Forall sorted os.
Hypothesis S1 : forall c, (cnt (c, true) os <= needf c)%nat.

Definition satf (c : N) : Prop := cnt (c, false) os = O /\ (needf c <= cnt (c, true) os)%nat.

Definition Inv (b : N) (ss : list stream) (res : list N) : Prop :=
  Permutation ss (map (drop_below b) os) /\ StronglySorted hle ss /\
  (forall x, In x res <-> x < b /\ satf x) /\ NoDup res.

Lemma inv_sorted b ss res : Inv b ss res -> Forall sorted ss.
Proof.
  intros [Hp _]. rewrite Forall_forall in *. intros s Hs.
  apply (Permutation_in _ Hp) in Hs. apply in_map_iff in Hs. destruct Hs as [o [<- Ho]].
  apply drop_below_sorted. auto.
Qed.
Lemma inv_cnt b ss res c i : Inv b ss res -> b <= c -> cnt (c, i) ss = cnt (c, i) os.
Proof. intros [Hp _] Hb. rewrite (cnt_perm _ _ _ Hp). apply cnt_drop_below; auto. Qed.
Lemma inv_ge b ss res s e : Inv b ss res -> In s ss -> In e s -> b <= fst e.
Proof.
  intros [Hp _] Hs He. apply (Permutation_in _ Hp) in Hs. apply in_map_iff in Hs.
  destruct Hs as [o [<- Ho]]. rewrite Forall_forall in Hos. apply In_drop_below in He; auto. tauto.
Qed.

Lemma advance b b' ss res res' :
  Inv b ss res -> b <= b' ->
  (forall x, In x res' <-> In x res \/ (b <= x < b' /\ satf x)) -> NoDup res' ->
  Inv b' (isort hkey (map (drop_below b') ss)) res'.
Proof.
  intros HI Hb Hres Hnd. destruct HI as [Hp [Hs [Hr Hn]]]. split; [|split; [|split]]; auto.
  - rewrite sort_streams_perm. rewrite (Permutation_map (drop_below b') Hp), map_map.
    erewrite map_ext; [reflexivity|]. intros s. apply drop_below_comp; auto.
  - apply sort_streams_sorted.
  - intros x. rewrite Hres, Hr. split.
    + intros [[H1 H2]|[H1 H2]]; split; auto; lia.
    + intros [H1 H2]. destruct (N.lt_ge_cases x b); [left; auto|right; split; auto; lia].
Qed.

(* facts about a live configuration *)
Lemma live_min b ss res s0 rest e0 : Inv b ss res -> ss = s0 :: rest -> head s0 = Some e0 ->
  forall s e, In s ss -> In e s -> key e0 <= key e.
Proof.
  intros HI Hss Hh0 s e Hs He. pose proof (inv_sorted _ _ _ HI) as Hso. rewrite Forall_forall in Hso.
  destruct HI as [_ [Hsd _]]. subst ss. destruct Hs as [<-|Hs].
  - eapply sorted_head_min; eauto. apply Hso. left; auto.
  - inversion Hsd; subst. rewrite Forall_forall in H2. specialize (H2 _ Hs).
    destruct (sorted_mem_head s e (Hso _ (or_intror Hs)) He) as [h [Hh Hk]].
    pose proof (hle_heads _ _ _ _ H2 Hh0 Hh). lia.
Qed.
Lemma live_tail b ss res k sEnd eEnd : Inv b ss res -> nth_error ss k = Some sEnd -> head sEnd = Some eEnd ->
  forall s e, In s (skipn k ss) -> In e s -> key eEnd <= key e.
Proof.
  intros HI Hnth HhEnd s e Hs He. pose proof (inv_sorted _ _ _ HI) as Hso. rewrite Forall_forall in Hso.
  destruct HI as [_ [Hsd _]].
  assert (Hin : In s ss). { rewrite <- (firstn_skipn k ss). apply in_or_app; auto. }
  destruct (hle_skipn _ _ _ Hsd Hnth s Hs) as [->|Hle].
  - eapply sorted_head_min; eauto.
  - destruct (sorted_mem_head s e (Hso _ Hin) He) as [h [Hh Hk]].
    pose proof (hle_heads _ _ _ _ Hle HhEnd Hh). lia.
Qed.

Lemma round_ok b ss res ss' res' :
  Inv b ss res -> round needf ss res = Some (ss', res') ->
  exists b', Inv b' ss' res' /\ (total ss' < total ss)%nat.
Proof.
  intros HI Hr. unfold round in Hr.
  destruct ss as [|s0 rest] eqn:Hss; [discriminate|]. rewrite <- Hss in *.
  destruct (head s0) as [e0|] eqn:Hh0; [|discriminate].
  set (need := needf (fst e0)) in *. pose proof (Hneed (fst e0)) as Hn1. fold need in Hn1.
  destruct (nth_error ss (need - 1)) as [sEnd|] eqn:Hnth; [|discriminate].
  destruct (head sEnd) as [eEnd|] eqn:HhEnd; [|discriminate].
  pose proof (live_min _ _ _ _ _ _ HI Hss Hh0) as Hmin.
  assert (Hle : key e0 <= key eEnd).
  { apply (Hmin sEnd eEnd). eapply nth_error_In; eauto. destruct sEnd; inversion HhEnd; subst; left; auto. }
  assert (Hb0 : b <= fst e0).
  { eapply (inv_ge _ _ _ s0 e0 HI). rewrite Hss; left; auto. destruct s0; inversion Hh0; subst; left; auto. }
  pose proof (live_tail _ _ _ _ _ _ HI Hnth HhEnd) as Htail.
  assert (Htail' : forall s e, In s (skipn need ss) -> In e s -> key eEnd <= key e).
  { intros s e Hs. apply Htail. eapply in_skipn_le; [|exact Hs]. lia. }
  assert (Hlow : forall x, b <= x < fst e0 -> ~ satf x).
  { intros x Hx [_ Hc]. rewrite <- (inv_cnt _ _ _ _ _ HI) in Hc by lia. pose proof (Hneed x).
    assert (H0 : (0 < cnt (x, true) ss)%nat) by lia. apply cnt_pos in H0. destruct H0 as [s [Hs He]].
    specialize (Hmin _ _ Hs He). destruct e0 as [c0 i0]. unfold key in Hmin. cbn [fst snd] in *. destruct i0; lia. }
  assert (Hmeasure : forall b', fst e0 < b' -> (total (isort hkey (map (drop_below b') ss)) < total ss)%nat).
  { intros b' Hb'. rewrite (total_perm _ _ (sort_streams_perm _)). rewrite Hss. eapply total_map_lt; eauto. }
  destruct (N.eqb_spec (fst e0) (fst eEnd)) as [Heq|Hne].
  - destruct e0 as [c i0]. cbn [fst snd] in *. destruct i0.
    + (* include: collect c *)
      inversion Hr; subst ss' res'. clear Hr.
      assert (HeEnd : eEnd = (c, true)).
      { apply key_inj. destruct eEnd as [d j]. cbn [fst] in Heq. subst d. unfold key in *. cbn [fst snd] in *. destruct j; lia. }
      assert (Hsd : StronglySorted hle ss) by (destruct HI as [_ [? _]]; auto).
      assert (Hfull : forall s, In s (firstn need ss) -> mem (c, true) s = true).
      { intros s Hs. replace need with (S (need - 1)) in Hs by lia. rewrite (firstn_snoc _ _ _ Hnth) in Hs.
        apply in_app_or in Hs. apply mem_In. destruct Hs as [Hs|[<-|[]]].
        - pose proof (hle_firstn _ _ _ Hsd Hnth s Hs) as Hh.
          destruct (head s) as [h|] eqn:Ehs.
          + pose proof (hle_heads _ _ _ _ Hh Ehs HhEnd) as Hk. rewrite HeEnd in Hk.
            assert (Hin : In s ss). { rewrite <- (firstn_skipn (need-1) ss). apply in_or_app; auto. }
            assert (Hm : key (c, true) <= key h).
            { apply (Hmin s h Hin). destruct s; inversion Ehs; subst; left; auto. }
            assert (h = (c, true)) by (apply key_inj; lia). subst h. destruct s; inversion Ehs; subst; left; auto.
          + pose proof (hle_none _ _ Hh Ehs). congruence.
        - rewrite HeEnd in HhEnd. destruct sEnd as [|h s']; inversion HhEnd; subst. left; auto. }
      assert (Hlen : length (firstn need ss) = need).
      { apply firstn_length_le. apply nth_error_length_gt in Hnth. lia. }
      assert (Hcnt : (need <= cnt (c, true) ss)%nat).
      { rewrite <- (firstn_skipn need ss), cnt_app, (cnt_all _ _ Hfull), Hlen. lia. }
      assert (Hrest : forall s, In s (skipn need ss) -> mem (c, true) s = false).
      { intros s Hs. destruct (mem (c, true) s) eqn:E; auto. exfalso.
        assert (H : (need + 1 <= cnt (c, true) ss)%nat).
        { rewrite <- (firstn_skipn need ss), cnt_app, (cnt_all _ _ Hfull), Hlen.
          assert (0 < cnt (c, true) (skipn need ss))%nat; [|lia].
          unfold cnt. apply in_split in Hs. destruct Hs as [l1 [l2 ->]]. rewrite filter_app, app_length. simpl. rewrite E. simpl. lia. }
        rewrite (inv_cnt _ _ _ _ _ HI) in H by lia. specialize (S1 c). unfold need in H. cbn [fst] in H. lia. }
      rewrite map_first_all.
      2:{ intros s Hs. apply drop_below_all_ge. intros e He.
          pose proof (Htail' _ _ Hs He) as Hk. rewrite HeEnd in Hk.
          assert (e <> (c, true)). { intros ->. apply mem_In in He. rewrite (Hrest _ Hs) in He. discriminate. }
          destruct e as [d j]. unfold key in Hk. cbn [fst snd] in *. destruct j; try lia.
          destruct (N.eq_dec d c); [subst; congruence|lia]. }
      exists (N.succ c). split; [|apply Hmeasure; lia].
      apply (advance b _ _ res); auto; try lia.
      * intros x. simpl. split.
        -- intros [<-|Hx]; auto. right. split; [lia|]. split.
           ++ rewrite <- (inv_cnt _ _ _ _ _ HI) by lia. apply cnt_zero. intros s Hs.
              destruct (mem (c, false) s) eqn:E; auto. apply mem_In in E. specialize (Hmin _ _ Hs E).
              unfold key in Hmin. cbn [fst snd] in Hmin. lia.
           ++ rewrite <- (inv_cnt _ _ _ _ _ HI) by lia. auto.
        -- intros [Hx|[Hx Hs]]; auto. destruct (N.eq_dec x c); [left; auto|]. exfalso. apply (Hlow x); auto. lia.
      * destruct HI as [_ [_ [Hres Hnd]]]. constructor; auto. rewrite Hres. lia.
    + (* exclude: reject c *)
      inversion Hr; subst ss' res'. clear Hr.
      exists (N.succ c). split; [|apply Hmeasure; lia].
      apply (advance b _ _ res); auto; try lia.
      * intros x. split; auto. intros [Hx|[Hx Hs]]; auto. exfalso.
        destruct (N.eq_dec x c) as [->|Hn]; [|apply (Hlow x); auto; lia].
        destruct Hs as [Hz _]. rewrite <- (inv_cnt _ _ _ _ _ HI) in Hz by lia.
        assert (Hpos : (0 < cnt (c, false) ss)%nat); [|lia].
        rewrite Hss. unfold cnt. simpl. replace (mem (c, false) s0) with true. simpl; lia.
        symmetry. apply mem_In. destruct s0; inversion Hh0; subst. left; auto.
      * destruct HI as [_ [_ [_ Hnd]]]. auto.
  - (* different conjunctions *)
    inversion Hr; subst ss' res'. clear Hr.
    assert (Hlt : fst e0 < fst eEnd).
    { destruct e0 as [c i0], eEnd as [d j]. unfold key in Hle. cbn [fst snd] in *. destruct i0, j; lia. }
    rewrite map_first_all.
    2:{ intros s Hs. apply drop_below_all_ge. intros e He. pose proof (Htail' _ _ Hs He) as Hk.
        apply key_conj_le in Hk. auto. }
    exists (fst eEnd). split; [|apply Hmeasure; lia].
    apply (advance b _ _ res); auto; try lia.
    * intros x. split; auto. intros [Hx|[Hx Hsat]]; auto. exfalso.
      destruct (N.lt_ge_cases x (fst e0)) as [Hxl|Hxg]; [apply (Hlow x); [lia|exact Hsat]|].
      destruct Hsat as [_ Hc]. rewrite <- (inv_cnt _ _ _ _ _ HI) in Hc by lia.
      assert (Hbd : (cnt (x, true) ss <= need - 1)%nat).
      { apply cnt_bound. intros s Hs. destruct (mem (x, true) s) eqn:E; auto. exfalso.
        apply mem_In in E. pose proof (Htail _ _ Hs E) as Hk. apply key_conj_le in Hk. cbn [fst] in Hk. lia. }
      pose proof (Hmono (fst e0) x Hxg) as Hm. fold need in Hm. lia.
    * destruct HI as [_ [_ [_ Hnd]]]. auto.
Qed.

Lemma all_empty_after ss s : StronglySorted hle ss -> forall k sK, nth_error ss k = Some sK -> head sK = None ->
  In s (skipn k ss) -> head s = None.
Proof.
  intros Hsd k sK Hn Hh Hs. destruct (hle_skipn _ _ _ Hsd Hn s Hs) as [->|Hle]; auto. eapply hle_none; eauto.
Qed.

Lemma round_end b ss res : Inv b ss res -> round needf ss res = None ->
  forall x, b <= x -> ~ satf x.
Proof.
  intros HI Hr x Hx [_ Hc]. rewrite <- (inv_cnt _ _ _ _ _ HI) in Hc by lia. pose proof (Hneed x) as Hnx.
  assert (Hsd : StronglySorted hle ss) by (destruct HI as [_ [? _]]; auto).
  unfold round in Hr.
  destruct ss as [|s0 rest] eqn:Hss; [unfold cnt in Hc; simpl in Hc; lia|]. rewrite <- Hss in *.
  destruct (head s0) as [e0|] eqn:Hh0.
  - set (need := needf (fst e0)) in *.
    pose proof (live_min _ _ _ _ _ _ HI Hss Hh0) as Hmin.
    (* if x has any include entry then x >= fst e0, hence needf x >= need *)
    assert (Hbd : (cnt (x, true) ss <= need - 1)%nat).
    { destruct (nth_error ss (need - 1)) as [sEnd|] eqn:Hnth.
      - destruct (head sEnd) as [eEnd|] eqn:HhEnd.
        + destruct (fst e0 =? fst eEnd); [destruct (snd e0)|]; discriminate.
        + apply cnt_bound. intros s Hs. pose proof (all_empty_after _ _ Hsd _ _ Hnth HhEnd Hs) as He.
          destruct s; [reflexivity|discriminate].
      - apply nth_error_None in Hnth. pose proof (cnt_le_length (x, true) ss). lia. }
    assert (H0 : (0 < cnt (x, true) ss)%nat) by lia. apply cnt_pos in H0. destruct H0 as [s [Hs He]].
    specialize (Hmin _ _ Hs He). apply key_conj_le in Hmin. cbn [fst] in Hmin.
    pose proof (Hmono _ _ Hmin) as Hm. fold need in Hm. pose proof (Hneed (fst e0)). fold need in H. lia.
  - (* first stream exhausted: all are *)
    assert (Hz : cnt (x, true) ss = O).
    { apply cnt_zero. intros s Hs.
      assert (Hn0 : nth_error ss 0 = Some s0) by (rewrite Hss; reflexivity).
      pose proof (all_empty_after _ s Hsd 0%nat s0 Hn0 Hh0 Hs) as He. destruct s; [reflexivity|discriminate]. }
    lia.
Qed.

Lemma loop_ok fuel : forall b ss res, Inv b ss res -> (total ss < fuel)%nat ->
  exists r, loop needf fuel ss res = Some r /\ (forall x, In x r <-> satf x) /\ NoDup r.
Proof.
  induction fuel as [|f IH]; intros b ss res HI Hf; [lia|]. simpl.
  destruct (round needf ss res) as [[ss' res']|] eqn:Hr.
  - destruct (round_ok _ _ _ _ _ HI Hr) as [b' [HI' Hm]]. apply (IH b'); auto. lia.
  - exists res. split; auto. destruct HI as [Hp [Hs [Hres Hnd]]]. split; auto.
    intros x. rewrite Hres. split; [tauto|]. intros Hsat. split; auto.
    destruct (N.lt_ge_cases x b); auto. exfalso. eapply round_end; eauto. split; auto.
Qed.

Theorem scan_correct :
  exists r, scan needf os = Some r /\ (forall x, In x r <-> satf x) /\ NoDup r.
Proof.
  unfold scan. apply (loop_ok _ 0).
  - split; [|split; [apply sort_streams_sorted|split; [|constructor]]].
    + rewrite sort_streams_perm. erewrite map_ext_in; [rewrite map_id; reflexivity|].
      intros s Hs. simpl. apply drop_below_all_ge. intros; lia.
    + intros x. split; [contradiction|]. intros [? _]. lia.
  - rewrite (total_perm _ _ (sort_streams_perm _)). unfold total. lia.
Qed.
End Main.
Print Assumptions scan_correct.
Check scan_correct.
