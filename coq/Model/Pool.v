(* sync.Pool discipline of the result collectors (be_indexer.go: collectorPool, PickCollector /
   PutCollector) and of the roaring bitmaps (roaringidx/rr_posting_list.go: bitmapPool,
   NewPostingList / ReleasePostingList).  A pool is a multiset of objects; Get returns ANY pooled
   object or a new one (the choice is a parameter); objects are bitmaps (their contents). *)
From Coq Require Import List NArith ZArith Bool.
From BE Require Import Model.GoTypes Model.GoVal Model.Parsers Model.Index.
Import ListNotations.

Definition obj := list N.                 (* contents of a bitmap *)
Definition pool := list obj.

Fixpoint remove_nth {A} (n : nat) (l : list A) : list A :=
  match n, l with
  | _, [] => []
  | O, _ :: l' => l'
  | S n', x :: l' => x :: remove_nth n' l'
  end.

(* sync.Pool.Get: `choice` selects a pooled object; anything else means New() *)
Definition pool_get (p : pool) (choice : nat) : obj * pool :=
  match nth_error p choice with
  | Some o => (o, remove_nth choice p)
  | None => ([], p)
  end.
Definition pool_put (p : pool) (o : obj) : pool := o :: p.

(* KGroupsBEIndex.Retrieve / CompactBEIndex.Retrieve:
     collector := PickCollector(); defer PutCollector(collector)   (Reset, then Put -- also on error)
     RetrieveWithCollector(...); result = collector.GetDocIDs() *)
Definition docs_of_bits (bits : obj) : list Z :=
  map (fun u => wrap_i64 (Z.of_N u)) (dedup_sorted (sort_entries bits)).

Definition retrieve_pooled (reset_on_put : bool) (ix : index) (q : assignment) (p : pool) (choice : nat)
  : rres (list Z) * pool :=
  let '(c, p1) := pool_get p choice in
  match retrieve_hits ix q with
  | ROk hits =>
    let bits := c ++ map (fun h => Z.to_N (wrap_u64 (fst h))) hits in
    (ROk (docs_of_bits bits), pool_put p1 (if reset_on_put then [] else bits))
  | RErr => (RErr, pool_put p1 (if reset_on_put then [] else c))
  | RPanic => (RPanic, pool_put p1 (if reset_on_put then [] else c))
  | ROutOfFuel => (ROutOfFuel, pool_put p1 (if reset_on_put then [] else c))
  | RUnmodelled => (RUnmodelled, pool_put p1 (if reset_on_put then [] else c))
  end.

(* a history: (index, assignment, Get choice) *)
Fixpoint run_history (reset_on_put : bool) (h : list (index * assignment * nat)) (p : pool) : list (rres (list Z)) :=
  match h with
  | [] => []
  | (ix, q, ch) :: rest =>
    let '(r, p') := retrieve_pooled reset_on_put ix q p ch in r :: run_history reset_on_put rest p'
  end.
