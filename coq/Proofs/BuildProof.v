From Coq Require Import List NArith ZArith Bool Lia Permutation Sorting.Sorted Arith.
From BE Require Import Model.Scan Proofs.ScanProof Model.Build.
Import ListNotations.
Local Open Scope N_scope.

Section P.
Variable qval : Type.
Variable qmatch : qval -> term -> bool.
Variable cid_of : Z -> nat -> nat -> N.

Notation build := (build cid_of).
Notation add_doc := (add_doc cid_of).
Notation add_conj := (add_conj cid_of).

(* "conjunction i of document d is c" *)
Definition has_conj (ds : list doc) (d : doc) (i : nat) (c : conj) : Prop :=
  In d ds /\ nth_error (d_conjs d) i = Some c.

Definition mkfact (d : doc) (i : nat) (c : conj) (e : expr) (t : term) : fact :=
  {| f_k := calc_size c; f_field := e_field e; f_term := t;
     f_cid := cid_of (d_id d) i (calc_size c); f_incl := e_incl e |}.

Lemma indexed_In {A} (l : list A) n i x : In (i, x) (indexed n l) <-> (n <= i)%nat /\ nth_error l (i - n) = Some x.
Proof.
  revert n. induction l as [|a l IH]; intros n; simpl.
  - split; [tauto|]. intros [_ H]. destruct (i - n)%nat; discriminate.
  - rewrite IH. split.
    + intros [H|[H1 H2]].
      * inversion H; subst. rewrite Nat.sub_diag. simpl. split; auto.
      * split; [lia|]. replace (i - n)%nat with (S (i - S n)) by lia. simpl. auto.
    + intros [H1 H2]. destruct (Nat.eq_dec i n) as [->|Hne].
      * rewrite Nat.sub_diag in H2. simpl in H2. inversion H2. left; auto.
      * right. split; [lia|]. replace (i - n)%nat with (S (i - S n)) in H2 by lia. simpl in H2. auto.
Qed.

Lemma conj_facts_In cid k c x : In x (conj_facts cid k c) <->
  exists e t, In e c /\ In t (e_terms e) /\
    x = {| f_k := k; f_field := e_field e; f_term := t; f_cid := cid; f_incl := e_incl e |}.
Proof.
  unfold conj_facts. rewrite in_flat_map. split.
  - intros [e [He Hx]]. apply in_map_iff in Hx. destruct Hx as [t [<- Ht]]. apply nodup_In in Ht. eauto.
  - intros [e [t [He [Ht ->]]]]. exists e. split; auto. apply in_map_iff. exists t. split; auto. apply nodup_In; auto.
Qed.

(* facts / Z / maxk of a fold of add_conj *)
Lemma add_conjs_facts d ics ix x :
  In x (ix_facts (fold_left (add_conj d) ics ix)) <->
  In x (ix_facts ix) \/ exists i c, In (i, c) ics /\ In x (conj_facts (cid_of d i (calc_size c)) (calc_size c) c).
Proof.
  revert ix. induction ics as [|[i c] ics IH]; intros ix; simpl.
  - split; [auto|]. intros [H|[i [c [[] _]]]]; auto.
  - rewrite IH. simpl. rewrite in_app_iff. split.
    + intros [[H|H]|[i' [c' [H1 H2]]]]; auto; right; [exists i, c|exists i', c']; auto.
    + intros [H|[i' [c' [[H1|H1] H2]]]]; auto.
      * inversion H1; subst. auto.
      * right. exists i', c'. auto.
Qed.
Lemma add_conjs_z d ics ix x :
  In x (ix_z (fold_left (add_conj d) ics ix)) <->
  In x (ix_z ix) \/ exists i c, In (i, c) ics /\ calc_size c = O /\ x = cid_of d i O.
Proof.
  revert ix. induction ics as [|[i c] ics IH]; intros ix; simpl.
  - split; [auto|]. intros [H|[i [c [[] _]]]]; auto.
  - rewrite IH. simpl. split.
    + intros [H|[i' [c' [H1 H2]]]].
      * destruct (Nat.eqb_spec (calc_size c) 0) as [E|E]; auto.
        apply in_app_iff in H. destruct H as [H|[<-|[]]]; auto. right. exists i, c. rewrite E. auto.
      * right. exists i', c'. auto.
    + intros [H|[i' [c' [[H1|H1] [H2 H3]]]]].
      * left. destruct (Nat.eqb (calc_size c) 0); auto. apply in_app_iff; auto.
      * inversion H1; subst. left. rewrite H2. simpl. apply in_app_iff. right. left. reflexivity.
      * right. exists i', c'. auto.
Qed.
Lemma add_conjs_maxk d ics ix :
  (ix_maxk ix <= ix_maxk (fold_left (add_conj d) ics ix))%nat /\
  forall i c, In (i, c) ics -> (calc_size c < ix_maxk (fold_left (add_conj d) ics ix))%nat.
Proof.
  revert ix. induction ics as [|[i c] ics IH]; intros ix; cbn [fold_left]; [split; [lia|simpl; tauto]|].
  destruct (IH (add_conj d ix (i, c))) as [H1 H2].
  assert (E : ix_maxk (add_conj d ix (i, c)) = Nat.max (ix_maxk ix) (S (calc_size c))) by reflexivity.
  split; [lia|].
  intros i' c' [H|H]; [inversion H; subst; lia|apply (H2 i' c'); auto].
Qed.

Theorem build_facts ds x : In x (ix_facts (build ds)) <->
  exists d i c e t, has_conj ds d i c /\ In e c /\ In t (e_terms e) /\ x = mkfact d i c e t.
Proof.
  unfold Build.build.
  assert (G : forall ix, In x (ix_facts (fold_left add_doc ds ix)) <->
     In x (ix_facts ix) \/ exists d i c e t, has_conj ds d i c /\ In e c /\ In t (e_terms e) /\ x = mkfact d i c e t).
  { induction ds as [|d ds IH]; intros ix; simpl.
    - split; auto. intros [H|[d [i [c [e [t [[[] _] _]]]]]]]; auto.
    - rewrite IH. change (add_doc ix d) with (fold_left (add_conj (d_id d)) (indexed 0 (d_conjs d)) ix). rewrite add_conjs_facts. split.
      + intros [[H|[i [c [Hic Hx]]]]|[d' [i [c [e [t [[H1 H2] H3]]]]]]]; auto.
        * right. apply conj_facts_In in Hx. destruct Hx as [e [t [He [Ht ->]]]].
          apply indexed_In in Hic. destruct Hic as [_ Hn]. rewrite Nat.sub_0_r in Hn.
          exists d, i, c, e, t. unfold has_conj. simpl. auto.
        * right. exists d', i, c, e, t. unfold has_conj. simpl. auto.
      + intros [H|[d' [i [c [e [t [[[->|H1] H2] [H3 [H4 ->]]]]]]]]]; auto.
        * left. right. exists i, c. split. apply indexed_In. rewrite Nat.sub_0_r. split; [lia|auto].
          apply conj_facts_In. exists e, t. auto.
        * right. exists d', i, c, e, t. unfold has_conj. auto. }
  rewrite G. simpl. tauto.
Qed.

Theorem build_z ds x : In x (ix_z (build ds)) <->
  exists d i c, has_conj ds d i c /\ calc_size c = O /\ x = cid_of (d_id d) i O.
Proof.
  unfold Build.build.
  assert (G : forall ix, In x (ix_z (fold_left add_doc ds ix)) <->
     In x (ix_z ix) \/ exists d i c, has_conj ds d i c /\ calc_size c = O /\ x = cid_of (d_id d) i O).
  { induction ds as [|d ds IH]; intros ix; simpl.
    - split; auto. intros [H|[d [i [c [[[] _] _]]]]]; auto.
    - rewrite IH. change (add_doc ix d) with (fold_left (add_conj (d_id d)) (indexed 0 (d_conjs d)) ix). rewrite add_conjs_z. split.
      + intros [[H|[i [c [Hic [H1 H2]]]]]|[d' [i [c [[H1 H2] H3]]]]]; auto.
        * right. apply indexed_In in Hic. destruct Hic as [_ Hn]. rewrite Nat.sub_0_r in Hn.
          exists d, i, c. unfold has_conj. simpl. auto.
        * right. exists d', i, c. unfold has_conj. simpl. auto.
      + intros [H|[d' [i [c [[[->|H1] H2] H3]]]]]; auto.
        * left. right. exists i, c. split; auto. apply indexed_In. rewrite Nat.sub_0_r. split; [lia|auto].
        * right. exists d', i, c. unfold has_conj. auto. }
  rewrite G. simpl. tauto.
Qed.

Theorem build_maxk ds d i c : has_conj ds d i c -> (calc_size c < ix_maxk (build ds))%nat.
Proof.
  unfold Build.build. intros [Hd Hn].
  assert (G : forall ix, (ix_maxk ix <= ix_maxk (fold_left add_doc ds ix))%nat /\
              (In d ds -> (calc_size c < ix_maxk (fold_left add_doc ds ix))%nat)).
  { clear Hd. induction ds as [|d' ds IH]; intros ix; simpl; [split; [lia|tauto]|].
    destruct (IH (add_doc ix d')) as [H1 H2].
    destruct (add_conjs_maxk (d_id d') (indexed 0 (d_conjs d')) ix) as [H3 H4].
    change (fold_left (add_conj (d_id d')) (indexed 0 (d_conjs d')) ix) with (add_doc ix d') in H3, H4.
    split; [lia|]. intros [->|H]; auto.
    assert (calc_size c < ix_maxk (add_doc ix d))%nat.
    { apply (H4 i c). apply indexed_In. rewrite Nat.sub_0_r. split; [lia|auto]. }
    lia. }
  apply G; auto.
Qed.
End P.
