(* C08: facts about the builder model (Model/Index.v), repaired tree (wildcard registered after a
   successful parse). *)
From Coq Require Import List NArith ZArith Bool Lia.
From BE Require Import Model.GoTypes Model.GoVal Model.Parsers Model.Index.
Import ListNotations.
Local Open Scope Z_scope.

(* documents rejected outright leave the builder untouched *)
Lemma rejected_unchanged wf st d :
  d_conjs d = [] \/ 255 < Z.of_nat (length (d_conjs d)) -> add_document wf st d = (st, AddErr).
Proof.
  unfold add_document. intros [H|H].
  - rewrite H. reflexivity.
  - destruct (d_conjs d) as [|c cs]; [reflexivity|].
    destruct (Z.ltb_spec 255 (Z.of_nat (length (c :: cs)))); [reflexivity|lia].
Qed.

(* parsing (indexingConjunction) never touches the wildcard list *)
Lemma ensure_field_z st f : b_z (fst (ensure_field st f)) = b_z st.
Proof. unfold ensure_field. destruct (find_field f (b_fields st)); reflexivity. Qed.

Lemma index_exprs_z : forall es st k cid f acc, b_z (fst (index_exprs st k cid f es acc)) = b_z st.
Proof.
  induction es as [|e es IH]; intros st k cid f acc; cbn [index_exprs]; [reflexivity|].
  pose proof (ensure_field_z st f) as Hz. destruct (ensure_field st f) as [st1 fd]. cbn [fst] in Hz.
  destruct (indexing_tx _ fd e); cbn [fst]; try (cbn; exact Hz).
  rewrite IH. cbn. exact Hz.
Qed.

Lemma index_conj_z : forall c st k cid acc, b_z (fst (index_conj st k cid c acc)) = b_z st.
Proof.
  induction c as [|[f es] c IH]; intros st k cid acc; cbn [index_conj]; [reflexivity|].
  pose proof (index_exprs_z es st k cid f acc) as Hz.
  destruct (index_exprs st k cid f es acc) as [st' r]. cbn [fst] in Hz.
  destruct r; cbn [fst]; try exact Hz. rewrite IH. exact Hz.
Qed.

Lemma ensure_cont_z st k : b_z (ensure_cont st k) = b_z st.
Proof. reflexivity. Qed.

(* a conjunction that does not parse registers no match-everything entry, under every policy *)
Theorem bad_conj_no_wildcard d st i c st' out :
  add_conj false d st (i, c) = (st', out) ->
  (forall cid, IdsGen.NewConjID d i (calc_size c) = Some cid ->
     forall txs, snd (index_conj (ensure_cont st (calc_size c)) (calc_size c) cid c []) <> POk txs) ->
  b_z st' = b_z st.
Proof.
  unfold add_conj. intros H Hbad.
  destruct (IdsGen.NewConjID d i (calc_size c)) as [cid|] eqn:Ec; [|inversion H; reflexivity].
  cbn [andb] in H. specialize (Hbad cid eq_refl).
  pose proof (index_conj_z c (ensure_cont st (calc_size c)) (calc_size c) cid []) as Hz.
  destruct (index_conj (ensure_cont st (calc_size c)) (calc_size c) cid c []) as [st2 r]. cbn [fst snd] in *.
  destruct r as [txs| | | |]; try (inversion H; subst; exact Hz).
  exfalso. apply (Hbad txs). reflexivity.
Qed.

