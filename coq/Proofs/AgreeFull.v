(* C18: the two posting-list models agree, as a corollary of "each equals the specification"
   (SpecBridgeHoldersPolicy.index_sat_hits_holders_policy): any container mix, every policy, every outcome. *)
From Coq Require Import List NArith ZArith Bool Permutation.
From BE Require Import Model.GoVal Model.Parsers Model.Index Model.Spec Proofs.SpecBridge Proofs.HoldersBuildInv
  Proofs.IndexCorrectHolders Proofs.SpecBridgeHolders Proofs.IndexCorrectPolicy Proofs.SpecBridgeHoldersPolicy.
Import ListNotations.

Theorem kgroups_compact_same_hits pol thr parsers cfgl sk sc ds stk osk stc osc q :
  config_fields (new_builder IKGroups pol thr parsers) cfgl = Some sk ->
  config_fields (new_builder ICompact pol thr parsers) cfgl = Some sc ->
  add_documents false sk ds = (stk, osk) ->
  add_documents false sc ds = (stc, osc) ->
  NoDup (map d_id ds) ->
  (forall d cj, In d ds -> In cj (d_conjs d) -> NoDup (map fst cj)) ->
  (forall d, In d ds -> doc_ok parsers cfgl d) ->
  sizes_ok ds ->
  skip_ok2 pol (cfg_fields parsers cfgl) parsers ds ->
  ((- two64 < thr)%Z \/
   forall d cj, In d ds -> In cj (d_conjs d) -> conj_sem (cfg_fields parsers cfgl) parsers cj <> None ->
     conj_rwf thr (cfg_of cfgl) cj) ->
  NoDup (map fst q) ->
  asg_good' parsers cfgl q ->
  asg_dom_den parsers cfgl ds q ->
  (forall f v, In (f, v) q -> cfg_of cfgl f = CAc -> nil_slice_wf v) ->
  exists hk hc,
    retrieve_hits (build_index stk) q = ROk hk /\
    retrieve_hits (build_index stc) q = ROk hc /\
    Permutation (map (fun h : hitrec => triple (snd h)) hk) (map (fun h : hitrec => triple (snd h)) hc) /\
    osk = osc.
Proof.
  intros Hk Hc Ak Ac Hnd Hcj Hdoc Hsz Hsk Hthr Hq Hag Had Hnil.
  destruct (index_sat_hits_holders_policy IKGroups pol thr parsers cfgl sk ds stk osk q Hk Ak Hnd Hcj Hdoc Hsz Hsk Hthr Hq Hag Had
              (fun _ => Hnil)) as (hk & sk' & Ek & Sk & Pk & _).
  assert (Hno : ICompact = IKGroups -> forall f v, In (f, v) q -> cfg_of cfgl f = CAc -> nil_slice_wf v) by (intro E; discriminate E).
  destruct (index_sat_hits_holders_policy ICompact pol thr parsers cfgl sc ds stc osc q Hc Ac Hnd Hcj Hdoc Hsz Hsk Hthr Hq Hag Had Hno)
    as (hc & sc' & Ec & Sc & Pc & _).
  exists hk, hc. split; [exact Ek|]. split; [exact Ec|]. split.
  - rewrite Sk in Sc. inversion Sc; subst sc'. eapply perm_trans; [exact Pk|apply Permutation_sym; exact Pc].
  - rewrite (outcomes_holders_policy_exact IKGroups pol thr parsers cfgl sk ds stk osk Hk Ak Hdoc Hsz Hthr).
    rewrite (outcomes_holders_policy_exact ICompact pol thr parsers cfgl sc ds stc osc Hc Ac Hdoc Hsz Hthr). reflexivity.
Qed.
