(* The fixed universe of Go type shapes and reflect kinds the model distinguishes.
   Hand written; Gen/TypeSwitchGen.v (regenerated from /repo) speaks about these names. *)
From Coq Require Import List Bool.
Import ListNotations.

Inductive gty :=
| Tint | Tint8 | Tint16 | Tint32 | Tint64 | Tuint | Tuint8 | Tuint16 | Tuint32 | Tuint64
| Tfloat32 | Tfloat64 | Tstring | TjsonNumber | Tbool
| TSint | TSint8 | TSint16 | TSint32 | TSint64 | TSuint | TSuint8 | TSuint16 | TSuint32 | TSuint64
| TSfloat32 | TSfloat64 | TSstring | TSjsonNumber | TSbool
| TSiface | TA2int64
| TSother      (* any other slice type, e.g. [][]int *)
| TAother      (* any other array type, e.g. [2]int *)
| Tmap | Tptr | Tchan | Tfunc | Tstruct | Tcomplex
| Tnil.        (* the untyped nil interface value: no dynamic type *)

Inductive gkind :=
| KInvalid | KBool | KInt | KInt8 | KInt16 | KInt32 | KInt64 | KUint | KUint8 | KUint16 | KUint32 | KUint64 | KUintptr
| KFloat32 | KFloat64 | KComplex64 | KComplex128 | KArray | KChan | KFunc | KInterface | KMap | KPtr | KSlice | KString
| KStruct | KUnsafePointer.

Scheme Equality for gty.
Scheme Equality for gkind.

Definition all_gty : list gty :=
  [Tint; Tint8; Tint16; Tint32; Tint64; Tuint; Tuint8; Tuint16; Tuint32; Tuint64;
   Tfloat32; Tfloat64; Tstring; TjsonNumber; Tbool;
   TSint; TSint8; TSint16; TSint32; TSint64; TSuint; TSuint8; TSuint16; TSuint32; TSuint64;
   TSfloat32; TSfloat64; TSstring; TSjsonNumber; TSbool; TSiface; TA2int64; TSother; TAother;
   Tmap; Tptr; Tchan; Tfunc; Tstruct; Tcomplex; Tnil].

(* reflect.TypeOf(v).Kind() *)
Definition kind_of (t : gty) : gkind :=
  match t with
  | Tint => KInt | Tint8 => KInt8 | Tint16 => KInt16 | Tint32 => KInt32 | Tint64 => KInt64
  | Tuint => KUint | Tuint8 => KUint8 | Tuint16 => KUint16 | Tuint32 => KUint32 | Tuint64 => KUint64
  | Tfloat32 => KFloat32 | Tfloat64 => KFloat64 | Tstring => KString | TjsonNumber => KString | Tbool => KBool
  | TSint | TSint8 | TSint16 | TSint32 | TSint64 | TSuint | TSuint8 | TSuint16 | TSuint32 | TSuint64
  | TSfloat32 | TSfloat64 | TSstring | TSjsonNumber | TSbool | TSiface | TSother => KSlice
  | TA2int64 | TAother => KArray
  | Tmap => KMap | Tptr => KPtr | Tchan => KChan | Tfunc => KFunc | Tstruct => KStruct | Tcomplex => KComplex128
  | Tnil => KInvalid
  end.

(* clause tables: which clause (by position) holds a type; None = default *)
Section Clauses.
  Context {A : Type} (eqb : A -> A -> bool).
  Fixpoint clause_of (n : nat) (sw : list (list A)) (t : A) : option nat :=
    match sw with
    | [] => None
    | cl :: sw' => if existsb (eqb t) cl then Some n else clause_of (S n) sw' t
    end.
  (* t is handled by the clause that handles the distinguished type d *)
  Definition same_clause (sw : list (list A)) (d t : A) : bool :=
    match clause_of 0 sw d, clause_of 0 sw t with
    | Some i, Some j => Nat.eqb i j
    | _, _ => false
    end.
End Clauses.
Definition ty_in (sw : list (list gty)) (d t : gty) : bool := same_clause gty_beq sw d t.
Definition kind_in (sw : list (list gkind)) (d k : gkind) : bool := same_clause gkind_beq sw d k.
