(* END-TO-END exactness of the executable posting-list index model (Model/Index.v) for fields in
   the DEFAULT container (no ConfigField), repaired builder (wildcard_first = false), for BOTH the
   k-groups index and the compact index.  Everything is Qed and closed under the global context.

   Built on: Proofs/IndexBuildInv.v (builder invariant Repr: the posting lists / wildcard list hold
   exactly the entry ids of the database docs_db ds of (conjunction id, conjunction) pairs) and
   Proofs/ConcreteScan.v (the concrete cursor loops report exactly {c | cnt (c,false) ss = 0 /\
   need <= cnt (c,true) ss}).

   SPECIFICATION
     field_val q f           value assigned to f in q, VNil when absent (= RoaringProof.field_val)
     field_sat p ids es      = RoaringProof.field_sat: (no include expression in es, or some include
                             expression has a parsed value among ids) and no exclude expression has
     conj_sat parsers q cj   for every (f, es) of cj: parse_assign (parsers f) (field_val q f) = POk ids
                             and field_sat (parsers f) ids es
     has_conj ds d k cj cid  d in ds, cj = k-th conjunction of d, NewConjID (d_id d) k (calc_size cj) = Some cid
     conj_ok parsers cj      every expression of cj has operator EQ and a value that parses (conj_ok_iff)

   MAIN THEOREMS (hypotheses H: add_documents false (new_builder kind pol thr parsers) ds = (st, os),
   all outcomes AddOk, NoDup (map d_id ds), every conjunction has distinct fields, NoDup (map fst q),
   every assigned value parses with its field's parser, and
        pol <> PolSkip  \/  every conjunction of every document is conj_ok )
     index_correct (any kind), kgroups_index_correct, compact_index_correct:
       exists hits, retrieve_hits (build_index st) q = ROk hits                      (a) no error / fuel
         /\ NoDup (map snd hits)                                                     (b) reported once
         /\ (has_conj ds d k cj cid -> (In cid (map snd hits) <-> conj_sat parsers q cj = true))   (c)
         /\ (In h hits -> fst h = ConjID_DocID (snd h) /\ exists d k cj, has_conj ds d k cj (snd h))  (d)
     retrieve_docs_correct:
       exists docs, retrieve (build_index st) q = ROk docs
         /\ (In d ds -> (In (d_id d) docs <-> exists cj, In cj (d_conjs d) /\ conj_sat parsers q cj = true))
         /\ (In z docs -> exists d, In d ds /\ z = d_id d)
   Intermediate, relative to ANY builder state representing a database (Section Query):
     init_cursors (cursors of one container vs. the streams, Forall2 Rel), fstream_mem / zstream_mem
     (what a stream contains), conj_sat_cnt (conj_sat <-> the two cnt conditions), kss_bound / kss_sat,
     css_bound / css_sat (the premises of ConcreteScan), kgroups_hits_correct, compact_hits_correct.

   REMARKS
   - "only OpEQ expressions" need not be assumed: a non-EQ operator on a default field makes
     AddDocument panic, which contradicts Forall (eq AddOk) os.
   - The hypothesis  pol <> PolSkip \/ all conj_ok  IS needed: under PolSkip a conjunction whose value
     fails to parse is silently skipped with outcome AddOk, so it is not in the index although
     conj_sat may hold (an unparsable EXCLUDE expression never hits): Witness.polskip_counterexample.
   - The assigned values of ALL assigned fields are assumed to parse (not only of fields known to the
     index): Assignments.Size() calls NilInterface on every assigned value. *)
From Coq Require Import List NArith ZArith Bool Lia Permutation Sorting.Sorted Arith.
From Coq Require Import ZifyN ZifyBool.
From BE Require Import Model.GoTypes Model.GoVal Model.Parsers Model.Scan Model.Cursor Model.Index.
From BE Require Import Proofs.ScanProof Proofs.CursorProof Proofs.Refine Proofs.ConcreteScan Proofs.IndexBuildInv.
From BE Require Gen.IdsGen Proofs.IdsProof Proofs.RoaringProof.
Import ListNotations.
Ltac Zify.zify_post_hook ::= Z.div_mod_to_equations.

(* ------------------------------------------------------------------------------------------ *)
(* sort_entries: insertion sort on N *)

Lemma insN_perm x l : Permutation (insN x l) (x :: l).
Proof.
  induction l as [|y l IH]; cbn [insN]; [reflexivity|]. destruct (x <=? y)%N; [reflexivity|].
  rewrite IH. apply perm_swap.
Qed.
Lemma sort_entries_perm l : Permutation (sort_entries l) l.
Proof. unfold sort_entries. induction l as [|x l IH]; cbn [fold_right]; [reflexivity|]. rewrite insN_perm, IH. reflexivity. Qed.
Lemma sort_entries_In x l : In x (sort_entries l) <-> In x l.
Proof. split; apply Permutation_in; [|symmetry]; apply sort_entries_perm. Qed.
Lemma insN_sorted x l : StronglySorted N.le l -> StronglySorted N.le (insN x l).
Proof.
  induction 1 as [|y l Hs IH Hall]; cbn [insN]; [repeat constructor|].
  destruct (N.leb_spec x y) as [Hle|Hgt].
  - constructor; [constructor; assumption|]. constructor; [exact Hle|].
    rewrite Forall_forall in *. intros z Hz. specialize (Hall z Hz). lia.
  - constructor; [exact IH|]. rewrite Forall_forall in *. intros z Hz.
    apply (Permutation_in _ (insN_perm x l)) in Hz. destruct Hz as [<-|Hz]; [lia|auto].
Qed.
Lemma sort_entries_ss l : StronglySorted N.le (sort_entries l).
Proof. unfold sort_entries. induction l as [|x l IH]; cbn [fold_right]; [constructor|apply insN_sorted, IH]. Qed.
Lemma ss_sortedN l : StronglySorted N.le l -> sortedN l.
Proof.
  induction 1 as [|a l Hs IH Hall]; intros i j Hij; cbn [length] in Hij; [lia|].
  destruct i as [|i], j as [|j]; unfold ent; cbn [nth]; try lia.
  - rewrite Forall_forall in Hall. apply Hall. apply nth_In. lia.
  - apply IH. lia.
Qed.
Lemma sort_entries_sortedN l : sortedN (sort_entries l).
Proof. apply ss_sortedN, sort_entries_ss. Qed.

(* ------------------------------------------------------------------------------------------ *)
(* entry ids *)
Lemma new_entry_wf cid b : (cid < 2^60)%N ->
  wf_entry (IdsGen.NewEntryID cid b) /\ dec (IdsGen.NewEntryID cid b) = (cid, b).
Proof.
  intros H. rewrite IdsProof.NewEntryID_arith by exact H. change (2^60)%N with 1152921504606846976%N in H.
  unfold wf_entry, dec, NULLENTRY. destruct b; (split; [lia|f_equal; lia]).
Qed.

(* ------------------------------------------------------------------------------------------ *)
(* counting through map / filter (cf. Glue.cnt_map, Glue.cnt_filter_nonempty) *)
Definition nonempty_s (s : stream) : bool := match s with [] => false | _ => true end.

Lemma cnt_map {A} (F : A -> stream) e (l : list A) : cnt e (map F l) = length (filter (fun a => mem e (F a)) l).
Proof. unfold cnt. induction l as [|a l IH]; cbn [map filter]; [reflexivity|]. destruct (mem e (F a)); cbn [length]; rewrite IH; reflexivity. Qed.
Lemma cnt_filter_nonempty e (l : list stream) : cnt e (filter nonempty_s l) = cnt e l.
Proof.
  unfold cnt. induction l as [|s l IH]; cbn [filter]; [reflexivity|]. destruct s as [|x s]; cbn [nonempty_s filter].
  - exact IH.
  - destruct (mem e (x :: s)); cbn [length]; rewrite IH; reflexivity.
Qed.

Lemma NoDup_map_filter {A B} (g : A -> B) (p : A -> bool) l : NoDup (map g l) -> NoDup (map g (filter p l)).
Proof.
  induction l as [|a l IH]; cbn [map filter]; [auto|]. intros H. inversion H as [|? ? Hn Hd]; subst.
  destruct (p a); cbn [map]; [|auto]. constructor; [|auto]. intros Hin. apply Hn.
  apply in_map_iff in Hin. destruct Hin as (x & Hx & Hin). apply filter_In in Hin. apply in_map_iff. exists x. tauto.
Qed.

Lemma sort_stream_mem e l : mem e (sort_stream l) = true <-> In e l.
Proof. rewrite mem_In. split; apply Permutation_in; [|symmetry]; apply sort_stream_perm. Qed.
Lemma sort_stream_nil l : sort_stream l = [] <-> l = [].
Proof.
  split; [|intros ->; reflexivity]. intros H. pose proof (sort_stream_perm l) as P. rewrite H in P.
  apply Permutation_nil in P. exact P.
Qed.

(* ------------------------------------------------------------------------------------------ *)
(* the posting lists selected by GetEntries of the default holder *)
Definition sel (pls : list (term_key * list N)) (f : N) (ids : list pid) : list (list N) :=
  nonempty_lists (flat_map (fun id => match alookup term_key_eqb (f, id) pls with Some l => [l] | None => [] end) ids).

Lemma sel_In pls f ids l : In l (sel pls f ids) <-> l <> [] /\ exists id, In id ids /\ alookup term_key_eqb (f, id) pls = Some l.
Proof.
  unfold sel, nonempty_lists. rewrite filter_In, in_flat_map. split.
  - intros [(id & Hid & Hl) Hne]. split; [destruct l; [discriminate|discriminate]|].
    exists id. split; [exact Hid|]. destruct (alookup term_key_eqb (f, id) pls); [destruct Hl as [->|[]]; reflexivity|destruct Hl].
  - intros [Hne (id & Hid & Hl)]. split; [|destruct l; [contradiction|reflexivity]].
    exists id. split; [exact Hid|]. rewrite Hl. left. reflexivity.
Qed.

Lemma sel_concat_In pls f ids x :
  In x (concat (sel pls f ids)) <-> exists id, In id ids /\ In x (lk term_key_eqb (f, id) pls).
Proof.
  rewrite in_concat. split.
  - intros (l & Hl & Hx). apply sel_In in Hl. destruct Hl as [_ (id & Hid & E)].
    exists id. split; [exact Hid|]. unfold lk. rewrite E. exact Hx.
  - intros (id & Hid & Hx). unfold lk in Hx. destruct (alookup term_key_eqb (f, id) pls) as [l|] eqn:E; [|destruct Hx].
    exists l. split; [|exact Hx]. apply sel_In. split; [intros ->; destruct Hx|]. exists id. auto.
Qed.

Lemma sel_nonempty pls f ids : Forall (fun l => l <> []) (sel pls f ids).
Proof. apply Forall_forall. intros l Hl. apply sel_In in Hl. tauto. Qed.

Lemma sel_nil_concat pls f ids : concat (sel pls f ids) = [] -> sel pls f ids = [].
Proof.
  intros H. pose proof (sel_nonempty pls f ids) as Hn. destruct (sel pls f ids) as [|l ls]; [reflexivity|].
  inversion Hn; subst. destruct l; [contradiction|discriminate].
Qed.

(* ------------------------------------------------------------------------------------------ *)
(* accumulated results: the loops only ever append to res *)
Definition lift_round (r0 : list hitrec) (o : option (option (list fcursor * list hitrec))) :=
  match o with
  | None => None
  | Some None => Some None
  | Some (Some (cs', r')) => Some (Some (cs', r0 ++ r'))
  end.

Lemma kg_round_acc need cs r0 r : kg_round need cs (r0 ++ r) = lift_round r0 (kg_round need cs r).
Proof.
  unfold kg_round. destruct (nth_error cs (need - 1)) as [cend|]; [|reflexivity].
  destruct (fc_current cend =? NULLENTRY)%N; [reflexivity|]. destruct cs as [|c0 cs']; [reflexivity|].
  cbv zeta.
  match goal with |- context [skip_first need ?a ?b] => destruct (skip_first need a b) as [hd|] end.
  - match goal with |- context [if ?c then skip_all ?a ?b else ?d] => destruct (if c then skip_all a b else d) as [tl|] end;
      [|reflexivity].
    cbn [lift_round]. do 3 f_equal.
    match goal with |- context [if ?c then _ else _] => destruct c end; [rewrite app_assoc|]; reflexivity.
  - match goal with |- context [if ?c then skip_all ?a ?b else ?d] => destruct (if c then skip_all a b else d) as [tl|] end;
      reflexivity.
Qed.

Lemma kg_loop_acc need : forall fuel cs r0 r,
  kg_loop fuel need cs (r0 ++ r) = option_map (app r0) (kg_loop fuel need cs r).
Proof.
  induction fuel as [|fuel IH]; intros cs r0 r; cbn [kg_loop]; [reflexivity|].
  rewrite kg_round_acc. destruct (kg_round need cs r) as [[[cs' r']|]|]; cbn [lift_round option_map]; auto.
Qed.

Lemma retrieve_k_acc need cs r0 : retrieve_k need cs r0 = option_map (app r0) (retrieve_k need cs []).
Proof.
  unfold retrieve_k. destruct (length cs <? need)%nat; cbn [option_map]; [rewrite app_nil_r; reflexivity|].
  rewrite <- (app_nil_r r0) at 1. apply kg_loop_acc.
Qed.

(* ------------------------------------------------------------------------------------------ *)
(* the specification: an assignment satisfies a conjunction *)
Definition field_val := RoaringProof.field_val.
Definition field_sat := RoaringProof.field_sat.
Definition conj_sat (parsers : fname -> parser_kind) (q : assignment) (cj : conj) : bool :=
  forallb (fun fe => match parse_assign (parsers (fst fe)) (field_val q (fst fe)) with
                     | POk ids => field_sat (parsers (fst fe)) ids (snd fe)
                     | _ => false
                     end) cj.

Lemma parse_assign_nil p : parse_assign p VNil = POk [].
Proof. destruct p; reflexivity. Qed.

Lemma alookup_In (f : N) (q : assignment) v : alookup N.eqb f q = Some v -> In (f, v) q.
Proof.
  induction q as [|[g w] q IH]; cbn [alookup]; [discriminate|]. destruct (N.eqb_spec f g) as [->|].
  - intros [= ->]. left. reflexivity.
  - intros H. right. apply IH. exact H.
Qed.
Lemma In_alookup (f : N) (q : assignment) v : NoDup (map fst q) -> In (f, v) q -> alookup N.eqb f q = Some v.
Proof.
  induction q as [|[g w] q IH]; intros Hnd Hin; [destruct Hin|]. cbn [alookup]. inversion Hnd as [|? ? Hn Hd]; subst.
  destruct Hin as [[= -> ->]|Hin]; [rewrite N.eqb_refl; reflexivity|].
  destruct (N.eqb_spec f g) as [->|]; [|apply IH; assumption].
  exfalso. apply Hn. apply in_map_iff. exists (g, v). auto.
Qed.

Lemma NoDup_fst_unique {A B} (l : list (A * B)) a b b' : NoDup (map fst l) -> In (a, b) l -> In (a, b') l -> b = b'.
Proof.
  induction l as [|[x y] l IH]; intros Hnd H1 H2; [destruct H1|]. cbn [map fst] in Hnd.
  inversion Hnd as [|? ? Hn Hd]; subst. destruct H1 as [E1|H1], H2 as [E2|H2].
  - congruence.
  - inversion E1; subst. exfalso. apply Hn. apply in_map_iff. exists (a, b'). auto.
  - inversion E2; subst. exfalso. apply Hn. apply in_map_iff. exists (a, b). auto.
  - eapply IH; eassumption.
Qed.

(* Assignments.Size() *)
Definition nonnil (v : gval) : bool := match nil_interface v with POk false => true | _ => false end.

Lemma parse_assign_nil_interface p v ids : parse_assign p v = POk ids ->
  exists b, nil_interface v = POk b /\ (b = true -> ids = []).
Proof.
  destruct p; cbn [parse_assign];
    unfold common_parse_assign, number_parse_assign, strhash_parse_assign, numrange_parse_assign;
    destruct (nil_interface v) as [[|]| | | |]; cbn [pbind]; intros H; try discriminate;
    (eexists; split; [reflexivity|]); intros E; try discriminate; congruence.
Qed.

Lemma assign_size_gen (parsers : fname -> parser_kind) : forall q : assignment,
  (forall f v, In (f, v) q -> exists ids, parse_assign (parsers f) v = POk ids) ->
  assign_size q = POk (Z.of_nat (length (filter (fun fv => nonnil (snd fv)) q))).
Proof.
  induction q as [|[f v] q IH]; intros Hp; cbn [assign_size filter]; [reflexivity|].
  destruct (Hp f v (or_introl eq_refl)) as [ids Hids]. apply parse_assign_nil_interface in Hids.
  destruct Hids as (b & Hb & _). cbn [snd]. unfold nonnil at 1. rewrite Hb. cbn [pbind].
  rewrite IH by (intros f' v' H; apply Hp; right; exact H). cbn [pbind].
  destruct b; cbn [length]; [reflexivity|]. f_equal. lia.
Qed.

Definition incl_fields (cj : conj) : list fname := map fst (filter (fun fe => existsb e_incl (snd fe)) cj).
Lemma incl_fields_length cj : length (incl_fields cj) = Z.to_nat (calc_size cj).
Proof. unfold incl_fields, calc_size. rewrite map_length. lia. Qed.
Lemma calc_size_nonneg cj : (0 <= calc_size cj)%Z.
Proof. unfold calc_size. lia. Qed.
Lemma incl_fields_In f cj : In f (incl_fields cj) <-> exists es, In (f, es) cj /\ existsb e_incl es = true.
Proof.
  unfold incl_fields. rewrite in_map_iff. split.
  - intros ([g es] & <- & H). apply filter_In in H. exists es. exact H.
  - intros (es & H1 & H2). exists (f, es). split; [reflexivity|]. apply filter_In. auto.
Qed.

(* ------------------------------------------------------------------------------------------ *)
(* a built index that represents a database *)
Section Query.
Variables (kind : index_kind) (pol : policy) (parsers : fname -> parser_kind).
Variables (st : bstate) (db : cdb).
Hypothesis HF : FInv kind pol parsers st.
Hypothesis HR : Repr kind parsers st db.
Hypothesis Hdb60 : forall cid cj, In (cid, cj) db -> (cid < 2^60)%N.
Hypothesis Hdbu : forall cid cj cj', In (cid, cj) db -> In (cid, cj') db -> cj = cj'.

Notation ix := (build_index st).
Notation ecs k := (nth k (b_conts st) new_econtainer).
Notation cec k := (nth k (ix_conts (build_index st)) new_econtainer).

Definition cpl (k : nat) : list (term_key * list N) :=
  match ec_default (cec k) with HDefault p => p | _ => [] end.

Lemma cec_eq k : cec k = compile_cont (ecs k).
Proof.
  change (ix_conts ix) with (map compile_cont (b_conts st)).
  change new_econtainer with (compile_cont new_econtainer) at 1. apply map_nth.
Qed.

Lemma cpl_spec k : exists pls, ec_default (ecs k) = HDefault pls /\
  cpl k = map (fun kv => (fst kv, sort_entries (snd kv))) pls /\ ec_default (cec k) = HDefault (cpl k).
Proof.
  destruct (fi_def _ _ _ _ HF k) as [pls E]. exists pls. split; [exact E|].
  unfold cpl. rewrite cec_eq. unfold compile_cont. cbn [ec_default]. rewrite E. cbn [compile_holder]. auto.
Qed.

Lemma cpl_In k f id x : In x (lk term_key_eqb (f, id) (cpl k)) <-> In x (plist (ecs k) f id).
Proof.
  destruct (cpl_spec k) as (pls & E1 & E2 & _). unfold plist, lk. rewrite E1, E2, alookup_map_snd.
  destruct (alookup term_key_eqb (f, id) pls); cbn [option_map]; [apply sort_entries_In|tauto].
Qed.

Lemma cpl_sel_wf k f ids :
  Forall sortedN (sel (cpl k) f ids) /\ Forall (fun l => forall x, In x l -> wf_entry x) (sel (cpl k) f ids).
Proof.
  split; apply Forall_forall; intros l Hl; apply sel_In in Hl; destruct Hl as [_ (id & _ & E)].
  - destruct (cpl_spec k) as (pls & _ & E2 & _). rewrite E2, alookup_map_snd in E.
    destruct (alookup term_key_eqb (f, id) pls); cbn [option_map] in E; [|discriminate].
    inversion E; subst. apply sort_entries_sortedN.
  - intros x Hx. assert (Hin : In x (lk term_key_eqb (f, id) (cpl k))) by (unfold lk; rewrite E; exact Hx).
    rewrite cpl_In in Hin. apply (rp_pl _ _ _ _ HR) in Hin.
    destruct Hin as (cid & cj & es & e & H1 & _ & _ & _ & _ & ->).
    apply new_entry_wf. eapply Hdb60; eassumption.
Qed.

Lemma find_field_known f fd : find_field f (b_fields st) = Some fd -> fd = mk_fd parsers f.
Proof.
  intros Ef. apply find_field_some in Ef. destruct Ef as [Hin Hn].
  pose proof (fi_fields _ _ _ _ HF) as D. rewrite Forall_forall in D. destruct (D _ Hin) as [H1 H2].
  destruct fd as [n c p]. cbn [fd_name fd_cont fd_parser] in *. subst. reflexivity.
Qed.

Lemma unknown_empty k f ids : find_field f (b_fields st) = None -> sel (cpl k) f ids = [].
Proof.
  intros Ef. apply sel_nil_concat. destruct (concat (sel (cpl k) f ids)) as [|x r] eqn:E; [reflexivity|exfalso].
  assert (Hx : In x (concat (sel (cpl k) f ids))) by (rewrite E; left; reflexivity).
  apply sel_concat_In in Hx. destruct Hx as (id & _ & Hx). rewrite cpl_In in Hx.
  apply (rp_pl _ _ _ _ HR) in Hx. destruct Hx as (cid & cj & es & e & H1 & _ & H3 & H4 & _).
  apply (rp_known _ _ _ _ HR cid cj f es H1 H3); [intros ->; destruct H4|exact Ef].
Qed.

(* ---- streams of one container for an assignment ---- *)
Definition qids (f : fname) (v : gval) : list pid :=
  match parse_assign (parsers f) v with POk ids => ids | _ => [] end.
Definition fstream (k : nat) (fv : fname * gval) : stream :=
  sort_stream (map dec (concat (sel (cpl k) (fst fv) (qids (fst fv) (snd fv))))).
Definition hit (f : fname) (v : gval) (e : expr) : Prop :=
  exists id, In id (qids f v) /\ In id (expr_ids (parsers f) e).

Lemma fstream_mem k f v c b :
  mem (c, b) (fstream k (f, v)) = true <->
  exists cj es e, In (c, cj) db /\ cidx kind (calc_size cj) = k /\ In (f, es) cj /\ In e es /\
                  e_incl e = b /\ hit f v e.
Proof.
  unfold fstream. cbn [fst snd]. rewrite sort_stream_mem, in_map_iff. split.
  - intros (x & Hd & Hx). apply sel_concat_In in Hx. destruct Hx as (id & Hid & Hx). rewrite cpl_In in Hx.
    apply (rp_pl _ _ _ _ HR) in Hx. destruct Hx as (cid & cj & es & e & H1 & H2 & H3 & H4 & H5 & ->).
    destruct (new_entry_wf cid (e_incl e) (Hdb60 _ _ H1)) as [_ Hdec]. rewrite Hdec in Hd. inversion Hd; subst.
    exists cj, es, e. repeat split; auto. exists id. auto.
  - intros (cj & es & e & H1 & H2 & H3 & H4 & H5 & (id & Hi1 & Hi2)).
    exists (IdsGen.NewEntryID c (e_incl e)). split.
    + destruct (new_entry_wf c (e_incl e) (Hdb60 _ _ H1)) as [_ Hdec]. rewrite Hdec, H5. reflexivity.
    + apply sel_concat_In. exists id. split; [exact Hi1|]. rewrite cpl_In. apply (rp_pl _ _ _ _ HR).
      exists c, cj, es, e. repeat split; auto.
Qed.

Lemma init_cursors k : forall q, (forall f v, In (f, v) q -> exists ids, parse_assign (parsers f) v = POk ids) ->
  exists cs, init_field_cursors (ix_fields ix) (cec k) q = POk cs /\
    Forall2 Rel cs (filter nonempty_s (map (fstream k) q)) /\ Forall live cs.
Proof.
  induction q as [|[f v] q IH]; intros Hp; cbn [init_field_cursors map filter].
  - exists []. repeat constructor.
  - destruct IH as (rest & Er & HF2 & HL). { intros f' v' H. apply Hp. right. exact H. }
    destruct (Hp f v (or_introl eq_refl)) as [ids Eids].
    assert (Efs : fstream k (f, v) = sort_stream (map dec (concat (sel (cpl k) f ids)))).
    { unfold fstream, qids. cbn [fst snd]. rewrite Eids. reflexivity. }
    change (ix_fields ix) with (b_fields st) in *.
    destruct (find_field f (b_fields st)) as [fd|] eqn:Ef.
    + apply find_field_known in Ef. subst fd.
      change (get_holder (cec k) (mk_fd parsers f)) with (Some (ec_default (cec k))).
      destruct (cpl_spec k) as (pls & _ & _ & E3). rewrite E3. cbn [get_entries mk_fd fd_parser fd_name].
      rewrite Eids. cbn [pbind]. fold (sel (cpl k) f ids). rewrite Er. cbn [pbind].
      destruct (cpl_sel_wf k f ids) as [Hs Hw]. pose proof (sel_nonempty (cpl k) f ids) as Hn.
      destruct (sel (cpl k) f ids) as [|l ls] eqn:Es.
      * rewrite Efs. cbn [concat map]. change (sort_stream []) with (@nil entry). cbn [nonempty_s].
        exists rest. auto.
      * exists (new_fcursor (l :: ls) :: rest). split; [reflexivity|].
        assert (Hne : nonempty_s (fstream k (f, v)) = true).
        { rewrite Efs. destruct (sort_stream (map dec (concat (l :: ls)))) eqn:E; [|reflexivity]. apply (proj1 (sort_stream_nil _)) in E.
          inversion Hn; subst. destruct l; [contradiction|discriminate]. }
        rewrite Hne. split.
        -- constructor; [|exact HF2]. rewrite Efs. apply Rel_new; [discriminate|exact Hs|exact Hw].
        -- constructor; [|exact HL]. apply live_new; [discriminate|exact Hs|exact Hw|exact Hn].
    + rewrite Efs, (unknown_empty k f ids Ef). cbn [concat map]. change (sort_stream []) with (@nil entry).
      cbn [nonempty_s]. exists rest. auto.
Qed.

(* ---- the assignment ---- *)
Variable q : assignment.
Hypothesis Hq : NoDup (map fst q).
Hypothesis Hqp : forall f v, In (f, v) q -> exists ids, parse_assign (parsers f) v = POk ids.
Hypothesis Hcj : forall cid cj, In (cid, cj) db -> NoDup (map fst cj).

Definition Qe (k : nat) (e : entry) : list (fname * gval) := filter (fun fv => mem e (fstream k fv)) q.
Definition fss (k : nat) : list stream := filter nonempty_s (map (fstream k) q).

Lemma cnt_fss k e : cnt e (fss k) = length (Qe k e).
Proof. unfold fss, Qe. rewrite cnt_filter_nonempty, cnt_map. reflexivity. Qed.

Lemma Qe_In k c cj b f v : In (c, cj) db ->
  (In (f, v) (Qe k (c, b)) <->
   In (f, v) q /\ cidx kind (calc_size cj) = k /\
   exists es e, In (f, es) cj /\ In e es /\ e_incl e = b /\ hit f v e).
Proof.
  intros Hc. unfold Qe. rewrite filter_In, fstream_mem. split.
  - intros [H1 (cj' & es & e & H2 & H3 & H4)]. assert (cj' = cj) by (eapply Hdbu; eassumption). subst cj'.
    split; [exact H1|]. split; [exact H3|]. exists es, e. exact H4.
  - intros [H1 [H2 (es & e & H3)]]. split; [exact H1|]. exists cj, es, e. auto.
Qed.

Lemma Qe_nonempty_db k x b : Qe k (x, b) <> [] -> exists cj, In (x, cj) db /\ cidx kind (calc_size cj) = k.
Proof.
  destruct (Qe k (x, b)) as [|[f v] r] eqn:E; [congruence|]. intros _.
  assert (Hin : In (f, v) (Qe k (x, b))) by (rewrite E; left; reflexivity).
  unfold Qe in Hin. apply filter_In in Hin. destruct Hin as [_ Hm]. apply fstream_mem in Hm.
  destruct Hm as (cj & es & e & H1 & H2 & _). exists cj. auto.
Qed.

Lemma Qe_true_le k c cj : In (c, cj) db -> (length (Qe k (c, true)) <= Z.to_nat (calc_size cj))%nat.
Proof.
  intros Hc. rewrite <- incl_fields_length, <- (map_length fst (Qe k (c, true))). apply NoDup_incl_length.
  - apply NoDup_map_filter. exact Hq.
  - intros f Hf. apply in_map_iff in Hf. destruct Hf as ([g v] & <- & Hin). cbn [fst].
    apply (Qe_In k c cj true g v Hc) in Hin. destruct Hin as (_ & _ & es & e & H1 & H2 & H3 & _).
    apply incl_fields_In. exists es. split; [exact H1|]. apply existsb_exists. exists e. auto.
Qed.

(* hits in terms of the value assigned to the field (nil when unassigned) *)
Definition hitf (f : fname) (e : expr) : Prop :=
  exists id, In id (qids f (field_val q f)) /\ In id (expr_ids (parsers f) e).

Lemma field_val_In f v : In (f, v) q -> field_val q f = v.
Proof. intros H. unfold field_val, RoaringProof.field_val. rewrite (In_alookup f q v Hq H). reflexivity. Qed.

Lemma hit_hitf f e : (exists v, In (f, v) q /\ hit f v e) <-> hitf f e.
Proof.
  split.
  - intros (v & Hin & Hh). unfold hitf. rewrite (field_val_In f v Hin). exact Hh.
  - intros (id & H1 & H2). unfold field_val, RoaringProof.field_val in H1.
    destruct (alookup N.eqb f q) as [v|] eqn:E.
    + exists v. split; [apply alookup_In; exact E|]. exists id. auto.
    + unfold qids in H1. rewrite parse_assign_nil in H1. destruct H1.
Qed.

Lemma field_val_parses f : parse_assign (parsers f) (field_val q f) = POk (qids f (field_val q f)).
Proof.
  unfold qids. unfold field_val, RoaringProof.field_val. destruct (alookup N.eqb f q) as [v|] eqn:E.
  - apply alookup_In in E. destruct (Hqp f v E) as [ids ->]. reflexivity.
  - rewrite parse_assign_nil. reflexivity.
Qed.

Lemma conj_sat_iff cj :
  conj_sat parsers q cj = true <->
  forall f es, In (f, es) cj ->
    ((forall e, In e es -> e_incl e = false) \/ exists e, In e es /\ e_incl e = true /\ hitf f e) /\
    (forall e, In e es -> e_incl e = false -> ~ hitf f e).
Proof.
  unfold conj_sat. rewrite forallb_forall. split.
  - intros H f es Hin. specialize (H (f, es) Hin). cbn [fst snd] in H. rewrite field_val_parses in H.
    apply RoaringProof.field_sat_iff in H. destruct H as [Hi He]. split.
    + destruct Hi as [Hi|(e & v & H1 & H2 & H3 & H4)]; [left; exact Hi|right].
      exists e. split; [exact H1|]. split; [exact H2|]. exists v. split; [exact H3|]. apply val_hit_ids. exact H4.
    + intros e H1 H2 (v & H3 & H4). specialize (He e v H1 H2 H3). apply val_hit_ids in H4. congruence.
  - intros H [f es] Hin. cbn [fst snd]. rewrite field_val_parses. apply RoaringProof.field_sat_iff.
    destruct (H f es Hin) as [Hi He]. split.
    + destruct Hi as [Hi|(e & H1 & H2 & (v & H3 & H4))]; [left; exact Hi|right].
      exists e, v. repeat split; auto. apply val_hit_ids. exact H4.
    + intros e v H1 H2 H3. destruct (RoaringProof.val_hit (parsers f) v e) eqn:E; [|reflexivity].
      exfalso. apply (He e H1 H2). exists v. split; [exact H3|]. apply val_hit_ids. exact E.
Qed.

Lemma no_excl_iff k c cj : In (c, cj) db -> cidx kind (calc_size cj) = k ->
  (length (Qe k (c, false)) = O <->
   forall f es e, In (f, es) cj -> In e es -> e_incl e = false -> ~ hitf f e).
Proof.
  intros Hc Hk. split.
  - intros Hl f es e H1 H2 H3 Hh. apply hit_hitf in Hh. destruct Hh as (v & Hv & Hh).
    assert (Hin : In (f, v) (Qe k (c, false))).
    { apply (Qe_In k c cj false f v Hc). split; [exact Hv|]. split; [exact Hk|]. exists es, e. auto. }
    destruct (Qe k (c, false)); [destruct Hin|discriminate].
  - intros H. destruct (Qe k (c, false)) as [|[f v] r] eqn:E; [reflexivity|exfalso].
    assert (Hin : In (f, v) (Qe k (c, false))) by (rewrite E; left; reflexivity).
    apply (Qe_In k c cj false f v Hc) in Hin. destruct Hin as (Hv & _ & es & e & H1 & H2 & H3 & H4).
    apply (H f es e H1 H2 H3). apply hit_hitf. exists v. auto.
Qed.

Lemma all_incl_iff k c cj : In (c, cj) db -> cidx kind (calc_size cj) = k ->
  ((Z.to_nat (calc_size cj) <= length (Qe k (c, true)))%nat <->
   forall f es, In (f, es) cj -> existsb e_incl es = true -> exists e, In e es /\ e_incl e = true /\ hitf f e).
Proof.
  intros Hc Hk. rewrite <- incl_fields_length, <- (map_length fst (Qe k (c, true))).
  assert (Hsub : incl (map fst (Qe k (c, true))) (incl_fields cj)).
  { intros f Hf. apply in_map_iff in Hf. destruct Hf as ([g v] & <- & Hin). cbn [fst].
    apply (Qe_In k c cj true g v Hc) in Hin. destruct Hin as (_ & _ & es & e & H1 & H2 & H3 & _).
    apply incl_fields_In. exists es. split; [exact H1|]. apply existsb_exists. exists e. auto. }
  assert (Hnd : NoDup (map fst (Qe k (c, true)))) by (apply NoDup_map_filter; exact Hq).
  split.
  - intros Hlen f es H1 H2.
    assert (Hincl : incl (incl_fields cj) (map fst (Qe k (c, true)))) by (apply NoDup_length_incl; assumption).
    assert (Hf : In f (incl_fields cj)) by (apply incl_fields_In; exists es; auto).
    apply Hincl in Hf. apply in_map_iff in Hf. destruct Hf as ([g v] & Eg & Hin). cbn [fst] in Eg. subst g.
    apply (Qe_In k c cj true f v Hc) in Hin. destruct Hin as (Hv & _ & es' & e & H3 & H4 & H5 & H6).
    assert (es' = es) by (eapply NoDup_fst_unique; [eapply Hcj; exact Hc|exact H3|exact H1]).
    subst es'. exists e. split; [exact H4|]. split; [exact H5|]. apply hit_hitf. exists v. auto.
  - intros H. apply NoDup_incl_length.
    + unfold incl_fields. apply NoDup_map_filter. eapply Hcj; eassumption.
    + intros f Hf. apply incl_fields_In in Hf. destruct Hf as (es & H1 & H2).
      destruct (H f es H1 H2) as (e & H3 & H4 & H5). apply hit_hitf in H5. destruct H5 as (v & Hv & Hh).
      apply in_map_iff. exists (f, v). split; [reflexivity|].
      apply (Qe_In k c cj true f v Hc). split; [exact Hv|]. split; [exact Hk|]. exists es, e. auto.
Qed.

Lemma conj_sat_cnt k c cj : In (c, cj) db -> cidx kind (calc_size cj) = k ->
  (conj_sat parsers q cj = true <->
   length (Qe k (c, false)) = O /\ (Z.to_nat (calc_size cj) <= length (Qe k (c, true)))%nat).
Proof.
  intros Hc Hk. rewrite conj_sat_iff, (no_excl_iff k c cj Hc Hk), (all_incl_iff k c cj Hc Hk). split.
  - intros H. split.
    + intros f es e H1 H2 H3. destruct (H f es H1) as [_ He]. apply He; assumption.
    + intros f es H1 H2. destruct (H f es H1) as [[Hi|Hi] _]; [|exact Hi].
      apply existsb_exists in H2. destruct H2 as (e & H3 & H4). rewrite (Hi e H3) in H4. discriminate.
  - intros [He Hi] f es H1. split.
    + destruct (existsb e_incl es) eqn:E; [right; apply (Hi f es H1 E)|left].
      intros e H2. destruct (e_incl e) eqn:E2; [|reflexivity].
      assert (existsb e_incl es = true) by (apply existsb_exists; exists e; auto). congruence.
    + intros e H2 H3. apply (He f es e H1 H2 H3).
Qed.

(* ---- the wildcard (Z) stream ---- *)
Definition zstream : stream := sort_stream (map dec (concat [ix_z ix])).
Definition zpart : list stream := match ix_z ix with [] => [] | _ => [zstream] end.

Lemma z_entry x : In x (ix_z ix) <->
  exists cid cj, In (cid, cj) db /\ calc_size cj = 0%Z /\ x = IdsGen.NewEntryID cid true.
Proof. change (ix_z ix) with (sort_entries (b_z st)). rewrite sort_entries_In. apply (rp_z _ _ _ _ HR). Qed.

Lemma z_cursor_rel : Forall2 Rel (z_cursor (ix_z ix)) zpart /\ Forall live (z_cursor (ix_z ix)).
Proof.
  unfold z_cursor, zpart, zstream. pose proof z_entry as Hz.
  assert (Hs : sortedN (ix_z ix)) by apply sort_entries_sortedN.
  destruct (ix_z ix) as [|n l]; [split; constructor|].
  assert (H1 : Forall sortedN [n :: l]) by (constructor; [exact Hs|constructor]).
  assert (H2 : Forall (fun l0 : list N => forall x, In x l0 -> wf_entry x) [n :: l]).
  { constructor; [|constructor]. intros x Hx. apply Hz in Hx. destruct Hx as (cid & cj & Hc & _ & ->).
    apply new_entry_wf. eapply Hdb60; eassumption. }
  split; (constructor; [|constructor]).
  - apply Rel_new; [discriminate|exact H1|exact H2].
  - apply live_new; [discriminate|exact H1|exact H2|]. constructor; [discriminate|constructor].
Qed.

Lemma zstream_mem c b : mem (c, b) zstream = true <-> b = true /\ exists cj, In (c, cj) db /\ calc_size cj = 0%Z.
Proof.
  unfold zstream. rewrite sort_stream_mem, in_map_iff. cbn [concat]. rewrite app_nil_r. split.
  - intros (x & Hd & Hx). apply z_entry in Hx. destruct Hx as (cid & cj & Hc & H0 & ->).
    destruct (new_entry_wf cid true (Hdb60 _ _ Hc)) as [_ Hdec]. rewrite Hdec in Hd. inversion Hd; subst.
    split; [reflexivity|]. exists cj. auto.
  - intros (-> & cj & Hc & H0). exists (IdsGen.NewEntryID c true). split.
    + apply (new_entry_wf c true (Hdb60 _ _ Hc)).
    + apply z_entry. exists c, cj. auto.
Qed.

Lemma zstream_excl c : mem (c, false) zstream = false.
Proof. destruct (mem (c, false) zstream) eqn:E; [|reflexivity]. apply zstream_mem in E. destruct E; discriminate. Qed.

Lemma zpart_cnt e : cnt e zpart = if mem e zstream then 1%nat else 0%nat.
Proof.
  unfold zpart. destruct (ix_z ix) as [|n l] eqn:E.
  - unfold zstream. rewrite E. reflexivity.
  - unfold cnt. cbn [filter]. destruct (mem e zstream); reflexivity.
Qed.

(* ------------------------------------------------------------------------------------------ *)
(* the k-groups index *)
Section KG.
Hypothesis Hkind : kind = IKGroups.

Lemma cidx_kg s : cidx kind s = Z.to_nat s.
Proof. unfold cidx. rewrite Hkind. reflexivity. Qed.

Section OneK.
Variable k : nat.
Definition kss : list stream := (match k with O => zpart | _ => [] end) ++ fss k.
Definition kneed : nat := Nat.max k 1.

Lemma kss_cnt e :
  cnt e kss = ((match k with O => if mem e zstream then 1 else 0 | _ => 0 end) + length (Qe k e))%nat.
Proof. unfold kss. rewrite cnt_app, cnt_fss. destruct k; [rewrite zpart_cnt|]; reflexivity. Qed.

Lemma kss_bound x : (cnt (x, true) kss <= kneed)%nat.
Proof.
  rewrite kss_cnt. unfold kneed. destruct (Qe k (x, true)) as [|fv r] eqn:E.
  - cbn [length]. destruct k; [destruct (mem (x, true) zstream)|]; lia.
  - destruct (Qe_nonempty_db k x true) as (cj & Hc & Hk); [rewrite E; discriminate|].
    pose proof (Qe_true_le k x cj Hc) as Hle. rewrite E in Hle. cbn [length] in *. rewrite cidx_kg in Hk.
    destruct k; lia.
Qed.

Lemma kss_sat x : sat kneed kss x <->
  exists cj, In (x, cj) db /\ Z.to_nat (calc_size cj) = k /\ conj_sat parsers q cj = true.
Proof.
  unfold sat, kneed. rewrite !kss_cnt. split.
  - intros [Hf Ht].
    assert (Hex : exists cj, In (x, cj) db /\ Z.to_nat (calc_size cj) = k).
    { destruct (Qe k (x, true)) as [|fv r] eqn:E.
      - cbn [length] in Ht. destruct k; [|lia]. destruct (mem (x, true) zstream) eqn:Em; [|lia].
        apply zstream_mem in Em. destruct Em as (_ & cj & Hc & H0). exists cj. split; [exact Hc|lia].
      - destruct (Qe_nonempty_db k x true) as (cj & Hc & Hk); [rewrite E; discriminate|].
        rewrite cidx_kg in Hk. exists cj. auto. }
    destruct Hex as (cj & Hc & Hk). exists cj. split; [exact Hc|]. split; [exact Hk|].
    apply (conj_sat_cnt k x cj Hc); [rewrite cidx_kg; exact Hk|]. split; [lia|].
    rewrite Hk. destruct k; lia.
  - intros (cj & Hc & Hk & Hs). apply (conj_sat_cnt k x cj Hc) in Hs; [|rewrite cidx_kg; exact Hk].
    destruct Hs as [He Hi]. rewrite Hk in Hi. rewrite He. split.
    + destruct k; [rewrite zstream_excl|]; reflexivity.
    + destruct k; [|lia].
      assert (Em : mem (x, true) zstream = true).
      { apply zstream_mem. split; [reflexivity|]. exists cj. split; [exact Hc|]. pose proof (calc_size_nonneg cj). lia. }
      rewrite Em. lia.
Qed.

Lemma kg_step : exists fcs hk,
  init_field_cursors (ix_fields ix) (cec k) q = POk fcs /\
  retrieve_k kneed ((match k with O => z_cursor (ix_z ix) | _ => [] end) ++ fcs) [] = Some hk /\
  (forall x, In x (map snd hk) <->
     exists cj, In (x, cj) db /\ Z.to_nat (calc_size cj) = k /\ conj_sat parsers q cj = true) /\
  NoDup (map snd hk) /\ (forall h, In h hk -> fst h = IdsGen.ConjID_DocID (snd h)).
Proof.
  destruct (init_cursors k q Hqp) as (fcs & E1 & HF2 & _).
  assert (HR2 : Forall2 Rel ((match k with O => z_cursor (ix_z ix) | _ => [] end) ++ fcs) kss).
  { unfold kss. apply Forall2_app; [|exact HF2]. destruct k; [apply z_cursor_rel|constructor]. }
  destruct (retrieve_k_correct kneed _ _ ltac:(unfold kneed; lia) HR2 kss_bound) as (hk & E2 & H3 & H4 & H5).
  exists fcs, hk. split; [exact E1|]. split; [exact E2|]. split; [|split; assumption].
  intros x. rewrite H3. apply kss_sat.
Qed.
End OneK.

Lemma kgroups_from_correct : forall k res0, exists hits,
  kgroups_from ix q k res0 = ROk (res0 ++ hits) /\ NoDup (map snd hits) /\
  (forall x, In x (map snd hits) <->
     exists cj, In (x, cj) db /\ (Z.to_nat (calc_size cj) <= k)%nat /\ conj_sat parsers q cj = true) /\
  (forall h, In h hits -> fst h = IdsGen.ConjID_DocID (snd h)).
Proof.
  induction k as [|k IH]; intros res0; cbn [kgroups_from].
  - destruct (kg_step O) as (fcs & hk & E1 & E2 & H3 & H4 & H5); unfold kneed in E2;
    rewrite E1; cbn [pres_to_rres]; rewrite retrieve_k_acc, E2; cbn [option_map].
    exists hk. split; [reflexivity|]. split; [exact H4|]. split; [|exact H5].
    intros x. rewrite H3. split; intros (cj & A & B & C); exists cj; (split; [exact A|]; split; [lia|exact C]).
  - destruct (kg_step (S k)) as (fcs & hk & E1 & E2 & H3 & H4 & H5); unfold kneed in E2;
    rewrite E1; cbn [pres_to_rres]; rewrite retrieve_k_acc, E2; cbn [option_map].
    destruct (IH (res0 ++ hk)) as (hits & E & N1 & I1 & O1). rewrite E. exists (hk ++ hits).
    split; [rewrite app_assoc; reflexivity|]. split; [|split].
    + rewrite map_app. apply RoaringProof.NoDup_app'; [exact H4|exact N1|].
      intros x Hx Hx'. apply H3 in Hx. apply I1 in Hx'. destruct Hx as (cj & A & B & _), Hx' as (cj' & A' & B' & _).
      assert (cj = cj') by (eapply Hdbu; eassumption). subst cj'. lia.
    + intros x. rewrite map_app, in_app_iff, H3, I1. split.
      * intros [(cj & A & B & C)|(cj & A & B & C)]; exists cj; (split; [exact A|]; split; [lia|exact C]).
      * intros (cj & A & B & C). destruct (Nat.eq_dec (Z.to_nat (calc_size cj)) (S k)) as [Ek|Ek].
        -- left. exists cj. auto.
        -- right. exists cj. split; [exact A|]. split; [lia|exact C].
    + intros h Hh. apply in_app_or in Hh. destruct Hh; auto.
Qed.

(* a satisfied conjunction of size k needs k assigned fields with non-nil values *)
Lemma sat_size_le c cj : In (c, cj) db -> conj_sat parsers q cj = true ->
  (Z.to_nat (calc_size cj) <= length (filter (fun fv => nonnil (snd fv)) q))%nat.
Proof.
  intros Hc Hs. rewrite <- incl_fields_length, <- (map_length fst (filter (fun fv => nonnil (snd fv)) q)).
  apply NoDup_incl_length.
  - unfold incl_fields. apply NoDup_map_filter. eapply Hcj; eassumption.
  - intros f Hf. apply incl_fields_In in Hf. destruct Hf as (es & H1 & H2).
    rewrite conj_sat_iff in Hs. destruct (Hs f es H1) as [[Hi|(e & H3 & H4 & Hh)] _].
    + apply existsb_exists in H2. destruct H2 as (e & H3 & H4). rewrite (Hi e H3) in H4. discriminate.
    + apply hit_hitf in Hh. destruct Hh as (v & Hv & (id & Hid & _)).
      apply in_map_iff. exists (f, v). split; [reflexivity|]. apply filter_In. split; [exact Hv|]. cbn [snd].
      destruct (Hqp f v Hv) as [ids Eids]. unfold qids in Hid. rewrite Eids in Hid.
      apply parse_assign_nil_interface in Eids. destruct Eids as (b & Eb & Hb). unfold nonnil. rewrite Eb.
      destruct b; [|reflexivity]. rewrite (Hb eq_refl) in Hid. destruct Hid.
Qed.

Theorem kgroups_hits_correct : exists hits,
  retrieve_hits ix q = ROk hits /\ NoDup (map snd hits) /\
  (forall x, In x (map snd hits) <-> exists cj, In (x, cj) db /\ conj_sat parsers q cj = true) /\
  (forall h, In h hits -> fst h = IdsGen.ConjID_DocID (snd h)).
Proof.
  unfold retrieve_hits. change (ix_kind ix) with (b_kind st). rewrite (fi_kind _ _ _ _ HF), Hkind.
  unfold retrieve_kgroups_hits. rewrite (assign_size_gen parsers q Hqp). cbn [pres_to_rres].
  change (ix_conts ix) with (map compile_cont (b_conts st)). rewrite map_length.
  set (sz := Z.of_nat (length (filter (fun fv => nonnil (snd fv)) q))).
  set (k0 := Z.min sz (Z.of_nat (length (b_conts st)) - 1)).
  destruct (Z.ltb_spec k0 0) as [Hlt|Hge].
  - exists []. split; [reflexivity|]. split; [constructor|]. split; [|intros h []].
    intros x. split; [intros []|]. intros (cj & Hc & _). pose proof (rp_len _ _ _ _ HR _ _ Hc). lia.
  - destruct (kgroups_from_correct (Z.to_nat k0) []) as (hits & E & N1 & I1 & O1).
    change (map compile_cont (b_conts st)) with (ix_conts ix) in E.
    exists hits. split; [exact E|]. split; [exact N1|]. split; [|exact O1].
    intros x. rewrite I1. split.
    + intros (cj & A & _ & C). exists cj. auto.
    + intros (cj & A & C). exists cj. split; [exact A|]. split; [|exact C].
      pose proof (rp_len _ _ _ _ HR _ _ A) as Hl. rewrite cidx_kg in Hl.
      pose proof (sat_size_le x cj A C). lia.
Qed.
End KG.

(* ------------------------------------------------------------------------------------------ *)
(* the compact index: one container, need = max 1 (size encoded in the conjunction id) *)
Section CP.
Hypothesis Hkind : kind = ICompact.
Hypothesis Hsize : forall cid cj, In (cid, cj) db -> IdsGen.ConjID_Size cid = calc_size cj.

Lemma cidx_cp s : cidx kind s = O.
Proof. unfold cidx. rewrite Hkind. reflexivity. Qed.

Definition css : list stream := zpart ++ fss O.

Lemma css_cnt e : cnt e css = ((if mem e zstream then 1 else 0) + length (Qe O e))%nat.
Proof. unfold css. rewrite cnt_app, cnt_fss, zpart_cnt. reflexivity. Qed.

Lemma cneed_db c cj : In (c, cj) db -> cneed c = Nat.max 1 (Z.to_nat (calc_size cj)).
Proof.
  intros Hc. unfold cneed. pose proof (Hdb60 _ _ Hc) as Hlt. apply N.ltb_lt in Hlt. rewrite Hlt.
  rewrite (Hsize _ _ Hc). reflexivity.
Qed.

Lemma css_bound x : (cnt (x, true) css <= cneed x)%nat.
Proof.
  rewrite css_cnt. destruct (mem (x, true) zstream) eqn:Em.
  - apply zstream_mem in Em. destruct Em as (_ & cj & Hc & H0).
    pose proof (Qe_true_le O x cj Hc) as Hle. rewrite (cneed_db x cj Hc). lia.
  - destruct (Qe O (x, true)) as [|fv r] eqn:E; [cbn [length]; lia|].
    destruct (Qe_nonempty_db O x true) as (cj & Hc & _); [rewrite E; discriminate|].
    pose proof (Qe_true_le O x cj Hc) as Hle. rewrite E in Hle. rewrite (cneed_db x cj Hc). lia.
Qed.

Lemma css_sat x : satf cneed css x <-> exists cj, In (x, cj) db /\ conj_sat parsers q cj = true.
Proof.
  unfold satf. rewrite !css_cnt, zstream_excl. split.
  - intros [Hf Ht]. pose proof (cneed_pos x) as Hpos.
    assert (Hex : exists cj, In (x, cj) db).
    { destruct (mem (x, true) zstream) eqn:Em.
      - apply zstream_mem in Em. destruct Em as (_ & cj & Hc & _). exists cj. exact Hc.
      - destruct (Qe O (x, true)) as [|fv r] eqn:E; [cbn [length] in Ht; lia|].
        destruct (Qe_nonempty_db O x true) as (cj & Hc & _); [rewrite E; discriminate|]. exists cj. exact Hc. }
    destruct Hex as (cj & Hc). exists cj. split; [exact Hc|].
    apply (conj_sat_cnt O x cj Hc (cidx_cp _)). split; [lia|]. rewrite (cneed_db x cj Hc) in Ht.
    destruct (mem (x, true) zstream) eqn:Em; [|lia].
    apply zstream_mem in Em. destruct Em as (_ & cj' & Hc' & H0).
    assert (cj' = cj) by (eapply Hdbu; eassumption). subst cj'. lia.
  - intros (cj & Hc & Hs). apply (conj_sat_cnt O x cj Hc (cidx_cp _)) in Hs. destruct Hs as [He Hi].
    split; [lia|]. rewrite (cneed_db x cj Hc). pose proof (calc_size_nonneg cj).
    destruct (Z.eq_dec (calc_size cj) 0) as [E0|E0]; [|lia].
    assert (Em : mem (x, true) zstream = true).
    { apply zstream_mem. split; [reflexivity|]. exists cj. auto. }
    rewrite Em, E0. cbn. lia.
Qed.

Theorem compact_hits_correct : exists hits,
  retrieve_hits ix q = ROk hits /\ NoDup (map snd hits) /\
  (forall x, In x (map snd hits) <-> exists cj, In (x, cj) db /\ conj_sat parsers q cj = true) /\
  (forall h, In h hits -> fst h = IdsGen.ConjID_DocID (snd h)).
Proof.
  unfold retrieve_hits. change (ix_kind ix) with (b_kind st). rewrite (fi_kind _ _ _ _ HF), Hkind.
  unfold retrieve_compact_hits. destruct (init_cursors O q Hqp) as (fcs & E1 & HF2 & HL). rewrite E1.
  cbn [pres_to_rres]. destruct z_cursor_rel as [Z1 Z2].
  assert (HR2 : Forall2 Rel (z_cursor (ix_z ix) ++ fcs) css) by (apply Forall2_app; assumption).
  assert (HL2 : Forall live (z_cursor (ix_z ix) ++ fcs)) by (apply Forall_app; split; assumption).
  destruct (cp_loop_correct _ _ HR2 HL2 css_bound) as (res & E2 & H3 & H4 & H5).
  rewrite E2. exists res. split; [reflexivity|]. split; [exact H4|]. split; [|exact H5].
  intros x. rewrite H3. apply css_sat.
Qed.
End CP.

End Query.

(* ------------------------------------------------------------------------------------------ *)
(* the database of a list of documents *)
Definition has_conj (ds : list doc) (d : doc) (k : nat) (cj : conj) (cid : N) : Prop :=
  In d ds /\ nth_error (d_conjs d) k = Some cj /\
  IdsGen.NewConjID (d_id d) (Z.of_nat k) (calc_size cj) = Some cid.

Lemma docs_db_In parsers ds cid cj : In (cid, cj) (docs_db parsers ds) <->
  exists d i, In d ds /\ In (i, cj) (indexed_from 0%Z (d_conjs d)) /\
              IdsGen.NewConjID (d_id d) i (calc_size cj) = Some cid /\ conj_ok parsers cj = true.
Proof.
  unfold docs_db, doc_db. rewrite in_flat_map. split.
  - intros (d & Hd & H). apply in_flat_map in H. destruct H as ([i c] & Hi & H). unfold conj_db in H. cbn [fst snd] in H.
    destruct (IdsGen.NewConjID (d_id d) i (calc_size c)) as [cid'|] eqn:E; [|destruct H].
    destruct (conj_ok parsers c) eqn:Eo; [|destruct H]. destruct H as [[= <- <-]|[]]. exists d, i. auto.
  - intros (d & i & Hd & Hi & E & Eo). exists d. split; [exact Hd|]. apply in_flat_map. exists (i, cj).
    split; [exact Hi|]. unfold conj_db. cbn [fst snd]. rewrite E, Eo. left. reflexivity.
Qed.

Lemma docs_db_has parsers ds cid cj : In (cid, cj) (docs_db parsers ds) -> exists d k, has_conj ds d k cj cid.
Proof.
  intros H. apply docs_db_In in H. destruct H as (d & i & Hd & Hi & E & _).
  apply NoTrace.indexed_from_in in Hi. destruct Hi as [Hge Hn]. rewrite Z.sub_0_r in Hn.
  exists d, (Z.to_nat i). split; [exact Hd|]. split; [exact Hn|]. rewrite Z2Nat.id by exact Hge. exact E.
Qed.

Lemma has_docs_db parsers ds d k cj cid : has_conj ds d k cj cid -> conj_ok parsers cj = true ->
  In (cid, cj) (docs_db parsers ds).
Proof.
  intros (Hd & Hn & E) Ho. apply docs_db_In. exists d, (Z.of_nat k). split; [exact Hd|]. split; [|auto].
  apply (indexed_from_nth _ 0%Z) in Hn. exact Hn.
Qed.

Lemma has_conj_facts ds d k cj cid : has_conj ds d k cj cid ->
  (cid < 2^60)%N /\ IdsGen.ConjID_Size cid = calc_size cj /\ IdsGen.ConjID_DocID cid = d_id d /\
  (Z.abs (d_id d) <= 8796093022207)%Z.
Proof.
  intros (_ & _ & E). destruct (IdsProof.NewConjID_some_inrange _ _ _ _ E) as (A & B & C).
  destruct (IdsProof.conjid_roundtrip _ _ _ A B C) as (c & E' & H1 & H2 & _ & H3).
  rewrite E in E'. inversion E'; subst c. auto.
Qed.

Lemma NoDup_map_eq {A B} (f : A -> B) l x y : NoDup (map f l) -> In x l -> In y l -> f x = f y -> x = y.
Proof.
  induction l as [|a l IH]; intros Hnd Hx Hy E; [destruct Hx|]. cbn [map] in Hnd. inversion Hnd as [|? ? Hn Hd]; subst.
  destruct Hx as [->|Hx], Hy as [->|Hy]; auto.
  - exfalso. apply Hn. rewrite E. apply in_map. exact Hy.
  - exfalso. apply Hn. rewrite <- E. apply in_map. exact Hx.
Qed.

Lemma has_conj_unique ds d k cj d' k' cj' cid : NoDup (map d_id ds) ->
  has_conj ds d k cj cid -> has_conj ds d' k' cj' cid -> d = d' /\ k = k' /\ cj = cj'.
Proof.
  intros Hnd (Hd & Hn & E) (Hd' & Hn' & E').
  destruct (IdsProof.conjid_injective _ _ _ _ _ _ _ E E') as (A & B & _).
  assert (d = d') by (eapply NoDup_map_eq; eassumption). subst d'.
  assert (k = k') by lia. subst k'. split; [reflexivity|]. split; [reflexivity|]. congruence.
Qed.

(* ------------------------------------------------------------------------------------------ *)
(* END TO END, both index kinds *)
Theorem index_correct kind pol thr parsers ds st os q :
  add_documents false (new_builder kind pol thr parsers) ds = (st, os) ->
  Forall (eq AddOk) os ->
  NoDup (map d_id ds) ->
  (forall d cj, In d ds -> In cj (d_conjs d) -> NoDup (map fst cj)) ->
  (pol <> PolSkip \/ forall d cj, In d ds -> In cj (d_conjs d) -> conj_ok parsers cj = true) ->
  NoDup (map fst q) ->
  (forall f v, In (f, v) q -> exists ids, parse_assign (parsers f) v = POk ids) ->
  exists hits,
    retrieve_hits (build_index st) q = ROk hits /\
    NoDup (map snd hits) /\
    (forall d k cj cid, has_conj ds d k cj cid ->
       (In cid (map snd hits) <-> conj_sat parsers q cj = true)) /\
    (forall h, In h hits -> fst h = IdsGen.ConjID_DocID (snd h) /\
                            exists d k cj, has_conj ds d k cj (snd h)).
Proof.
  intros Hadd Hok Hnd Hcjs Hpol Hq Hqp.
  destruct (add_documents_repr kind pol thr parsers ds st os Hadd Hok) as (HF & HR & Hall & _).
  assert (Hok_all : forall d cj, In d ds -> In cj (d_conjs d) -> conj_ok parsers cj = true).
  { destruct Hpol as [Hp|Hp]; [exact (Hall Hp)|exact Hp]. }
  set (db := docs_db parsers ds) in *.
  assert (H60 : forall cid cj, In (cid, cj) db -> (cid < 2^60)%N).
  { intros cid cj H. apply docs_db_has in H. destruct H as (d & k & H). apply (has_conj_facts _ _ _ _ _ H). }
  assert (Hu : forall cid cj cj', In (cid, cj) db -> In (cid, cj') db -> cj = cj').
  { intros cid cj cj' H H'. apply docs_db_has in H, H'. destruct H as (d & k & H), H' as (d' & k' & H').
    apply (has_conj_unique _ _ _ _ _ _ _ _ Hnd H H'). }
  assert (Hndc : forall cid cj, In (cid, cj) db -> NoDup (map fst cj)).
  { intros cid cj H. apply docs_db_has in H. destruct H as (d & k & Hd & Hn & _).
    apply (Hcjs d cj Hd). eapply nth_error_In. exact Hn. }
  assert (Hsz : forall cid cj, In (cid, cj) db -> IdsGen.ConjID_Size cid = calc_size cj).
  { intros cid cj H. apply docs_db_has in H. destruct H as (d & k & H). apply (has_conj_facts _ _ _ _ _ H). }
  assert (core : exists hits, retrieve_hits (build_index st) q = ROk hits /\ NoDup (map snd hits) /\
            (forall x, In x (map snd hits) <-> exists cj, In (x, cj) db /\ conj_sat parsers q cj = true) /\
            (forall h, In h hits -> fst h = IdsGen.ConjID_DocID (snd h))).
  { destruct kind.
    - apply (kgroups_hits_correct IKGroups pol parsers st db HF HR H60 Hu q Hq Hqp Hndc eq_refl).
    - apply (compact_hits_correct ICompact pol parsers st db HF HR H60 Hu q Hq Hqp Hndc eq_refl Hsz). }
  destruct core as (hits & E & N1 & I1 & O1). exists hits. split; [exact E|]. split; [exact N1|]. split.
  - intros d k cj cid Hh. rewrite I1. split.
    + intros (cj' & Hc & Hs). apply docs_db_has in Hc. destruct Hc as (d' & k' & Hh').
      destruct (has_conj_unique _ _ _ _ _ _ _ _ Hnd Hh Hh') as (_ & _ & ->). exact Hs.
    + intros Hs. exists cj. split; [|exact Hs]. apply (has_docs_db parsers ds d k cj cid Hh).
      destruct Hh as (Hd & Hn & _). apply (Hok_all d cj Hd). eapply nth_error_In. exact Hn.
  - intros h Hh. split; [apply O1; exact Hh|].
    assert (Hin : In (snd h) (map snd hits)) by (apply in_map; exact Hh).
    apply I1 in Hin. destruct Hin as (cj & Hc & _). apply docs_db_has in Hc. destruct Hc as (d & k & H).
    exists d, k, cj. exact H.
Qed.

Corollary kgroups_index_correct pol thr parsers ds st os q :
  add_documents false (new_builder IKGroups pol thr parsers) ds = (st, os) ->
  Forall (eq AddOk) os ->
  NoDup (map d_id ds) ->
  (forall d cj, In d ds -> In cj (d_conjs d) -> NoDup (map fst cj)) ->
  (pol <> PolSkip \/ forall d cj, In d ds -> In cj (d_conjs d) -> conj_ok parsers cj = true) ->
  NoDup (map fst q) ->
  (forall f v, In (f, v) q -> exists ids, parse_assign (parsers f) v = POk ids) ->
  exists hits,
    retrieve_kgroups_hits (build_index st) q = ROk hits /\
    NoDup (map snd hits) /\
    (forall d k cj cid, has_conj ds d k cj cid ->
       (In cid (map snd hits) <-> conj_sat parsers q cj = true)) /\
    (forall h, In h hits -> fst h = IdsGen.ConjID_DocID (snd h) /\
                            exists d k cj, has_conj ds d k cj (snd h)).
Proof.
  intros Hadd Hok Hnd Hcjs Hpol Hq Hqp.
  destruct (index_correct IKGroups pol thr parsers ds st os q Hadd Hok Hnd Hcjs Hpol Hq Hqp) as (hits & E & H).
  exists hits. split; [|exact H]. unfold retrieve_hits in E.
  destruct (add_documents_repr IKGroups pol thr parsers ds st os Hadd Hok) as (HF & _).
  change (ix_kind (build_index st)) with (b_kind st) in E. rewrite (fi_kind _ _ _ _ HF) in E. exact E.
Qed.

Corollary compact_index_correct pol thr parsers ds st os q :
  add_documents false (new_builder ICompact pol thr parsers) ds = (st, os) ->
  Forall (eq AddOk) os ->
  NoDup (map d_id ds) ->
  (forall d cj, In d ds -> In cj (d_conjs d) -> NoDup (map fst cj)) ->
  (pol <> PolSkip \/ forall d cj, In d ds -> In cj (d_conjs d) -> conj_ok parsers cj = true) ->
  NoDup (map fst q) ->
  (forall f v, In (f, v) q -> exists ids, parse_assign (parsers f) v = POk ids) ->
  exists hits,
    retrieve_compact_hits (build_index st) q = ROk hits /\
    NoDup (map snd hits) /\
    (forall d k cj cid, has_conj ds d k cj cid ->
       (In cid (map snd hits) <-> conj_sat parsers q cj = true)) /\
    (forall h, In h hits -> fst h = IdsGen.ConjID_DocID (snd h) /\
                            exists d k cj, has_conj ds d k cj (snd h)).
Proof.
  intros Hadd Hok Hnd Hcjs Hpol Hq Hqp.
  destruct (index_correct ICompact pol thr parsers ds st os q Hadd Hok Hnd Hcjs Hpol Hq Hqp) as (hits & E & H).
  exists hits. split; [|exact H]. unfold retrieve_hits in E.
  destruct (add_documents_repr ICompact pol thr parsers ds st os Hadd Hok) as (HF & _).
  change (ix_kind (build_index st)) with (b_kind st) in E. rewrite (fi_kind _ _ _ _ HF) in E. exact E.
Qed.

(* ------------------------------------------------------------------------------------------ *)
(* documents: DocIDCollector *)
Lemma dedup_sorted_In x l : In x (dedup_sorted l) <-> In x l.
Proof.
  induction l as [|a l IH]; [tauto|]. destruct l as [|b l]; [tauto|].
  change (dedup_sorted (a :: b :: l)) with (if (a =? b)%N then dedup_sorted (b :: l) else a :: dedup_sorted (b :: l)).
  destruct (N.eqb_spec a b) as [->|Hne].
  - rewrite IH. cbn [In]. tauto.
  - cbn [In] in *. rewrite IH. tauto.
Qed.

Lemma cast_roundtrip z : (- 9223372036854775808 <= z < 9223372036854775808)%Z ->
  wrap_i64 (Z.of_N (Z.to_N (wrap_u64 z))) = z.
Proof. intros H. unfold wrap_i64, wrap_u64, two63, two64. lia. Qed.

Lemma collect_docs_In z hits :
  In z (collect_docs hits) <-> exists h, In h hits /\ z = wrap_i64 (Z.of_N (Z.to_N (wrap_u64 (fst h)))).
Proof.
  unfold collect_docs. rewrite in_map_iff. split.
  - intros (u & <- & Hu). rewrite dedup_sorted_In, sort_entries_In, in_map_iff in Hu.
    destruct Hu as (h & <- & Hh). exists h. auto.
  - intros (h & Hh & ->). exists (Z.to_N (wrap_u64 (fst h))). split; [reflexivity|].
    rewrite dedup_sorted_In, sort_entries_In. apply (in_map (fun h0 : hitrec => Z.to_N (wrap_u64 (fst h0)))). exact Hh.
Qed.

Theorem retrieve_docs_correct kind pol thr parsers ds st os q :
  add_documents false (new_builder kind pol thr parsers) ds = (st, os) ->
  Forall (eq AddOk) os ->
  NoDup (map d_id ds) ->
  (forall d cj, In d ds -> In cj (d_conjs d) -> NoDup (map fst cj)) ->
  (pol <> PolSkip \/ forall d cj, In d ds -> In cj (d_conjs d) -> conj_ok parsers cj = true) ->
  NoDup (map fst q) ->
  (forall f v, In (f, v) q -> exists ids, parse_assign (parsers f) v = POk ids) ->
  exists docs,
    retrieve (build_index st) q = ROk docs /\
    (forall d, In d ds ->
       (In (d_id d) docs <-> exists cj, In cj (d_conjs d) /\ conj_sat parsers q cj = true)) /\
    (forall z, In z docs -> exists d, In d ds /\ z = d_id d).
Proof.
  intros Hadd Hok Hnd Hcjs Hpol Hq Hqp.
  destruct (index_correct kind pol thr parsers ds st os q Hadd Hok Hnd Hcjs Hpol Hq Hqp) as (hits & E & _ & I1 & O1).
  destruct (add_documents_repr kind pol thr parsers ds st os Hadd Hok) as (_ & _ & _ & Hids).
  assert (Hfst : forall h, In h hits -> exists d k cj, has_conj ds d k cj (snd h) /\
             wrap_i64 (Z.of_N (Z.to_N (wrap_u64 (fst h)))) = d_id d).
  { intros h Hh. destruct (O1 h Hh) as [Ef (d & k & cj & Hc)]. exists d, k, cj. split; [exact Hc|].
    destruct (has_conj_facts _ _ _ _ _ Hc) as (_ & _ & Hd & Hr). rewrite Ef, Hd. apply cast_roundtrip. lia. }
  exists (collect_docs hits). unfold retrieve. rewrite E. split; [reflexivity|]. split.
  - intros d Hd. rewrite collect_docs_In. split.
    + intros (h & Hh & Ez). destruct (Hfst h Hh) as (d' & k & cj & Hc & Er). rewrite Er in Ez.
      assert (d = d') by (destruct Hc as (Hd' & _); eapply NoDup_map_eq; eassumption). subst d'.
      exists cj. split; [destruct Hc as (_ & Hn & _); eapply nth_error_In; exact Hn|].
      apply (I1 d k cj (snd h) Hc). apply in_map. exact Hh.
    + intros (cj & Hcj & Hs). apply In_nth_error in Hcj. destruct Hcj as [k Hk].
      destruct (IdsGen.NewConjID (d_id d) (Z.of_nat k) (calc_size cj)) as [cid|] eqn:Ec;
        [|exfalso; exact (Hids d k cj Hd Hk Ec)].
      assert (Hc : has_conj ds d k cj cid) by (split; [exact Hd|split; [exact Hk|exact Ec]]).
      apply (I1 d k cj cid Hc) in Hs. apply in_map_iff in Hs. destruct Hs as (h & Eh & Hh).
      exists h. split; [exact Hh|]. destruct (Hfst h Hh) as (d' & k' & cj' & Hc' & Er). rewrite Er.
      rewrite Eh in Hc'. destruct (has_conj_unique _ _ _ _ _ _ _ _ Hnd Hc Hc') as (-> & _). reflexivity.
  - intros z Hz. apply collect_docs_In in Hz. destruct Hz as (h & Hh & ->).
    destruct (Hfst h Hh) as (d & k & cj & Hc & Er). exists d. split; [apply Hc|exact Er].
Qed.

Lemma conj_ok_iff parsers cj : conj_ok parsers cj = true <->
  forall f es e, In (f, es) cj -> In e es ->
    e_op e = OpEQ /\ exists ids, parse_value (parsers f) (e_val e) = POk ids.
Proof.
  unfold conj_ok. rewrite forallb_forall. split.
  - intros H f es e H1 H2. specialize (H (f, es) H1). cbn [fst snd] in H. rewrite forallb_forall in H.
    specialize (H e H2). unfold expr_ok in H. destruct (e_op e); try discriminate.
    split; [reflexivity|]. destruct (parse_value (parsers f) (e_val e)) as [ids| | | |]; try discriminate. eauto.
  - intros H [f es] H1. cbn [fst snd]. apply forallb_forall. intros e H2.
    destruct (H f es e H1 H2) as [Eo [ids Ep]]. unfold expr_ok. rewrite Eo, Ep. reflexivity.
Qed.

(* ------------------------------------------------------------------------------------------ *)
(* concrete runs (by computation): the hypotheses are satisfiable, and the PolSkip caveat is real *)
Module Witness.
  Local Open Scope Z_scope.
  Definition ps : fname -> parser_kind := fun _ => PNumber.
  Definition inc (z : Z) := {| e_incl := true; e_op := OpEQ; e_val := VInt KI z |}.
  Definition exc (z : Z) := {| e_incl := false; e_op := OpEQ; e_val := VInt KI z |}.
  Definition d1 := {| d_id := 1; d_conjs := [[(1%N, [inc 7]); (2%N, [exc 3])]] |}.
  Definition d2 := {| d_id := 2; d_conjs := [[(2%N, [exc 5])]; [(1%N, [inc 7]); (3%N, [inc 9])]] |}.
  Definition d3 := {| d_id := -3; d_conjs := [[(2%N, [exc 4; exc 6])]; [(1%N, [inc 8; inc 7]); (2%N, [inc 5; exc 9])]] |}.
  Definition qq : assignment := [(1%N, VInt KI 7); (2%N, VInt KI 5); (9%N, VInt KI 5)].

  Example run_both_kinds : forall k,
    let '(st, os) := add_documents false (new_builder k PolError 256 ps) [d1; d2; d3] in
    os = [AddOk; AddOk; AddOk] /\ retrieve (build_index st) qq = ROk [1; -3] /\
    map (fun d => map (conj_sat ps qq) (d_conjs d)) [d1; d2; d3] = [[true]; [false; false]; [true; true]].
  Proof. intros []; vm_compute; repeat split. Qed.

  (* PolSkip: the document is accepted, its only conjunction is satisfied by the empty assignment
     (the unparsable exclude expression cannot be hit), but it was never indexed *)
  Definition bad := {| e_incl := false; e_op := OpEQ; e_val := VBool true |}.
  Definition d4 := {| d_id := 4; d_conjs := [[(2%N, [bad])]] |}.
  Example polskip_counterexample :
    let '(st, os) := add_documents false (new_builder IKGroups PolSkip 256 ps) [d4] in
    os = [AddOk] /\ retrieve_hits (build_index st) [] = ROk [] /\ conj_sat ps [] [(2%N, [bad])] = true /\
    conj_ok ps [(2%N, [bad])] = false.
  Proof. vm_compute. repeat split. Qed.
End Witness.

Check index_correct.
Check kgroups_index_correct.
Check compact_index_correct.
Check retrieve_docs_correct.
Print Assumptions index_correct.
Print Assumptions kgroups_index_correct.
Print Assumptions compact_index_correct.
Print Assumptions retrieve_docs_correct.
Print Assumptions kgroups_hits_correct.
Print Assumptions compact_hits_correct.
