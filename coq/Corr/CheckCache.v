(* C13: model leg.  The model of a cached build is the model of the plain build (the cache is
   transparent in the model: Proofs/CacheProof.v), so every build is compared with Model/Index.v. *)
From Coq Require Import List NArith ZArith Bool.
From BE Require Import Model.Spec Corr.Common Corr.CheckE2E.
From BE Require Export Corr.SpecCache.
Import ListNotations.

Definition check_c (c : ccase) : verdict :=
  let '(s, d, g) := spec_verdict_c c in
  let vs := map CheckE2E.model_verdict (fst c :: snd c) in
  mk_verdict (forallb (fun v => fst v || negb (snd v)) vs) s (d && forallb snd vs) g.
Definition run (cs : list ccase) := check_all check_c cs.
