(* C12  Cursor SkipTo lands on the least entry >= target and never moves back; a field cursor
   exposes the minimum of its members; sorting orders by current entry, exhausted cursors last.
   Model: Model/Cursor.v (statement-level model of EntriesCursor.SkipTo: gallop + binary search,
   FieldCursor.SkipTo, NewFieldCursor, FieldCursors.Sort).  Statements only. *)
From Coq Require Import List NArith Bool Arith Permutation Sorting.Sorted.
From BE Require Import Model.Scan Model.Cursor Proofs.CursorProof Proofs.Refine Proofs.CursorHist Proofs.CursorGenProof Proofs.SortGenProof Proofs.FieldCursorGenProof.
From Coq Require Import ZArith.
Import ListNotations.
Local Open Scope N_scope.

(* one SkipTo, index level: terminates (fuel suffices), never moves back, everything skipped is
   below the target, lands on an entry >= target (or the sentinel), does not move if already there *)
Theorem C12_skip_to_spec : forall l id, sortedN l -> id <= NULLENTRY -> forall c, WF l c ->
  exists c', skip_to l c id = Some c' /\ WF l c' /\ (c_pos c <= c_pos c')%nat /\
    (forall i, (c_pos c <= i < c_pos c')%nat -> ent l i < id) /\ id <= c_eid c' /\
    (id <= c_eid c -> c' = c).
Proof. exact skip_to_spec. Qed.

(* any sequence of targets, from any reachable position: the returned entries are those of the
   value-level specification "drop what is below the target from what remains" *)
Theorem C12_skip_history : forall l, sortedN l -> forall ts c, Forall (fun t => t <= NULLENTRY) ts -> WF l c ->
  exists c' outs, run_skips l c ts = Some (c', outs) /\ WF l c' /\ (c_pos c <= c_pos c')%nat /\
                  outs = spec_skips (remaining l c) ts.
Proof. exact skip_history. Qed.

(* what the value-level specification means: least remaining entry >= t, else the sentinel *)
Theorem C12_spec_meaning : forall t r, (forall i j, (i <= j < length r)%nat -> ent r i <= ent r j) ->
  (forall x, In x (drop_lt t r) <-> In x r /\ t <= x) /\
  (forall x, In x r -> t <= x -> hd_eid (drop_lt t r) <= x) /\
  ((forall x, In x r -> x < t) -> hd_eid (drop_lt t r) = NULLENTRY) /\
  ((exists x, In x r /\ t <= x) -> In (hd_eid (drop_lt t r)) r /\ t <= hd_eid (drop_lt t r)).
Proof. exact drop_lt_spec. Qed.

(* a field cursor exposes the minimum of its members' current entries, after construction and after every SkipTo *)
Theorem C12_field_cursor_skip : forall f id f' m, fcursor_skip_to f id = Some (f', m) ->
  fc_skip id (fc_group f) = Some (fc_group f') /\ fc_current f' = m /\ m = fc_cur (fc_group f').
Proof. exact fcursor_skip_min. Qed.
Theorem C12_field_cursor_new : forall ls, ls <> [] -> Forall (fun l => ent l 0 <= NULLENTRY) ls ->
  fc_current (new_fcursor ls) = fc_cur (fc_group (new_fcursor ls)).
Proof. exact new_fcursor_min. Qed.

(* Sort: a permutation ordered by current entry; the sentinel is the largest value, so exhausted cursors are last *)
Theorem C12_sort : forall fs,
  Permutation (sort_fcursors fs) fs /\
  StronglySorted (fun a b => fc_current a <= fc_current b) (sort_fcursors fs).
Proof. exact sort_fcursors_spec. Qed.

(* the tie to the source, as a theorem: EntriesCursor.SkipTo TRANSLATED from index_scanner.go on every run
   (Gen/CursorGen.v: both loops, Go's 64-bit wrap at every arithmetic node, Panic where a slice read would be out of
   range, OutOfFuel when a loop's fuel ends) computes what the model computes, outcome for outcome, on every list
   shorter than 2^60 entries (sorted or not), every cursor position inside it and every target *)
Theorem C12_translated_SkipTo_is_model : forall l c id,
  (Z.of_nat (length l) < 2^60)%Z -> (c_pos c <= length l)%nat ->
  G.EntriesCursor_SkipTo (length l) (Z.of_nat (c_pos c)) l (Z.of_nat (length l)) (c_eid c) id =
  match skip_to l c id with
  | Some c' => G.Ret ((Z.of_nat (c_pos c'), c_eid c'), c_eid c')
  | None => G.OutOfFuel
  end.
Proof. exact SkipTo_translated_is_model. Qed.

(* hence the property for the translated code itself: no panic, `length l` units of fuel suffice, never back,
   only entries below the target are skipped, lands on an entry >= target, stays put if already there *)
Theorem C12_translated_SkipTo_spec : forall l id, sortedN l -> id <= NULLENTRY ->
  (Z.of_nat (length l) < 2^60)%Z -> forall c, WF l c ->
  exists c', G.EntriesCursor_SkipTo (length l) (Z.of_nat (c_pos c)) l (Z.of_nat (length l)) (c_eid c) id =
               G.Ret ((Z.of_nat (c_pos c'), c_eid c'), c_eid c') /\
    WF l c' /\ (c_pos c <= c_pos c')%nat /\
    (forall i, (c_pos c <= i < c_pos c')%nat -> ent l i < id) /\ id <= c_eid c' /\
    (id <= c_eid c -> c' = c).
Proof. exact SkipTo_translated_spec. Qed.

(* FieldCursors.Sort TRANSLATED from index_scanner.go on every run (the nested insertion loops over a slice of opaque
   elements read through GetCurEntryID and reordered by swaps) computes the model's insertion sort, for any element
   type and key; hence the property for the translated code: a permutation ordered by current entry, exhausted
   cursors (the sentinel is the largest entry) last, no index out of range, 2 * length units of fuel suffice *)
Theorem C12_translated_Sort_is_model : forall (T : Type) (key : T -> N) l fuel,
  (2 * length l <= fuel)%nat -> (Z.of_nat (length l) < 2^60)%Z ->
  G.FieldCursors_Sort T key fuel l = G.Ret (isort (fun x => Some (key x)) l).
Proof. exact Sort_translated_is_model. Qed.
Theorem C12_translated_Sort_spec : forall fs fuel, (2 * length fs <= fuel)%nat -> (Z.of_nat (length fs) < 2^60)%Z ->
  G.FieldCursors_Sort fcursor fc_current fuel fs = G.Ret (sort_fcursors fs) /\
  Permutation (sort_fcursors fs) fs /\
  StronglySorted (fun a b => fc_current a <= fc_current b) (sort_fcursors fs).
Proof. exact Sort_translated_spec. Qed.

(* FieldCursor.SkipTo TRANSLATED from index_scanner.go on every run (the loop over the member cursors; the member's own
   SkipTo enters as the element it leaves and the entry it returns, the pointer fc.current as the index of the member
   it points at) computes the model's field-cursor skip: the same members afterwards and the same new minimum -- which
   C12_field_cursor_skip above shows to be the minimum of the members' current entries.  The member's SkipTo read off
   the model is, in turn, what the translated EntriesCursor.SkipTo leaves and returns. *)
Theorem C12_translated_FieldCursor_SkipTo_is_model : forall f id f' m cur0,
  (Z.of_nat (length (fc_group f)) < 2^60)%Z ->
  fcursor_skip_to f id = Some (f', m) ->
  exists cur', G.FieldCursor_SkipTo member mskip mskip_ret (length (fc_group f)) cur0 (fc_group f) id =
               G.Ret ((fc_group f', cur'), m) /\ fc_current f' = m.
Proof. exact FieldCursor_SkipTo_translated_is_model. Qed.
Theorem C12_member_skip_is_translated : forall l c id,
  (Z.of_nat (length l) < 2^60)%Z -> (c_pos c <= length l)%nat -> skip_to l c id <> None ->
  G.EntriesCursor_SkipTo (length l) (Z.of_nat (c_pos c)) l (Z.of_nat (length l)) (c_eid c) id =
  G.Ret ((Z.of_nat (c_pos (snd (mskip (l, c) id))), c_eid (snd (mskip (l, c) id))), mskip_ret (l, c) id).
Proof. exact member_skip_is_translated. Qed.

(* the model's sentinel is the constant of the current source *)
Theorem C12_sentinel_is_generated : Cursor.NULLENTRY = BE.Gen.IdsGen.NULLENTRY.
Proof. exact nullentry_is_generated. Qed.

Example C12_nonvacuous :
  let l := [1;3;3;7;9;12;12;40] in
  sortedN l /\ WF l (new_cursor l) /\
  option_map snd (run_skips l (new_cursor l) [3; 2; 8; 12; 13; 100]) = Some [3; 3; 9; 12; 40; NULLENTRY].
Proof.
  cbv zeta. split; [apply sortedb_ok; reflexivity|].
  split; [split; [cbn; auto with arith|reflexivity]|vm_compute; reflexivity].
Qed.

Print Assumptions C12_skip_to_spec.
Print Assumptions C12_skip_history.
Print Assumptions C12_spec_meaning.
Print Assumptions C12_field_cursor_skip.
Print Assumptions C12_field_cursor_new.
Print Assumptions C12_sort.
Print Assumptions C12_sentinel_is_generated.
Print Assumptions C12_translated_SkipTo_is_model.
Print Assumptions C12_translated_SkipTo_spec.
Print Assumptions C12_translated_Sort_is_model.
Print Assumptions C12_translated_Sort_spec.
Print Assumptions C12_translated_FieldCursor_SkipTo_is_model.
Print Assumptions C12_member_skip_is_translated.
