package main

import (
	"encoding/json"
	"fmt"
	"reflect"
	"runtime"
	"runtime/debug"
	"sort"
	"time"

	be "github.com/echoface/be_indexer"
	"github.com/echoface/be_indexer/roaringidx"
)

type rField struct {
	F      int    `json:"f"`
	Cont   string `json:"c"` // default | ac_matcher
	Parser string `json:"p,omitempty"`
}
type rOp struct {
	S    int       `json:"s"`  // scanner number
	Op   string    `json:"op"` // hint | retrieve | docs | reset | raw
	Hint []int64   `json:"h,omitempty"`
	A    []eAssign `json:"a,omitempty"`
}
type rCase struct {
	Fields  []rField `json:"fields"`
	Docs    []eDoc   `json:"docs"`
	Ops     []rOp    `json:"ops"`
	Batch   int      `json:"batch,omitempty"`    // > 1: documents go to AddDocuments in groups of up to Batch; the generator puts a refused document last in its group
	Rebuild int      `json:"rebuild,omitempty"`  // > 0: BuildIndexer() is also called after the first Rebuild documents; the builder goes on, the final build is queried
	ViaJSON bool     `json:"via_json,omitempty"` // every document goes through its own JSON encoding (json.Marshal, json.Unmarshal into a new Document) before it is added
	Bulk    int      `json:"bulk,omitempty"`     // that many documents 0, 1, 2, ... `field 0 in [1]` added first (SpecRr.bulk_docs)
}

func bulkDoc(i int) eDoc {
	return eDoc{ID: int64(i), Cons: []eConj{{{F: 0, Inc: true, V: tvSlice("[]int", tvInt("int", 1))}}}}
}

func buildRoaring(c *rCase) (*roaringidx.IvtBEIndexer, []string, int) {
	b := roaringidx.NewIndexerBuilder()
	for _, f := range c.Fields {
		fs := roaringidx.FieldSetting{Container: f.Cont}
		if p := mkParser(f.Parser); p != nil {
			fs.Parser = p
		}
		if err := b.ConfigureField(string(fieldName(f.F)), fs); err != nil {
			panic(err)
		}
	}
	mkDoc := func(d eDoc) *be.Document {
		doc := d.build()
		if !c.ViaJSON {
			return doc
		}
		data, err := json.Marshal(doc)
		if err != nil {
			panic(err)
		}
		dec := &be.Document{}
		if err := json.Unmarshal(data, dec); err != nil {
			panic(err)
		}
		return dec
	}
	var adds []string
	nok := 0
	for i := 0; i < c.Bulk; i++ {
		d := bulkDoc(i)
		if err := b.AddDocument(d.build()); err != nil {
			panic(err)
		}
		nok++
	}
	for i := 0; i < len(c.Docs); {
		if c.Batch > 1 { // AddDocuments stops at the first document it refuses: by construction that is the group's last
			defer func(v bool) { callerReusesBuffers = v }(callerReusesBuffers)
			callerReusesBuffers = false // the documents of one group are alive together
			var group []*be.Document
			j := i
			for ; j < len(c.Docs) && len(group) < c.Batch; j++ {
				group = append(group, mkDoc(c.Docs[j]))
			}
			var err error
			p := safeCall(func() { err = b.AddDocuments(group...) })
			for k := i; k < j; k++ {
				switch {
				case k == j-1 && p:
					adds = append(adds, "IAddPanic")
				case k == j-1 && err != nil:
					adds = append(adds, "IAddErr")
				default:
					adds = append(adds, "IAddOk")
					nok++
				}
			}
			i = j
			continue
		}
		var err error
		p := safeCall(func() { err = b.AddDocument(mkDoc(c.Docs[i])) })
		switch {
		case p:
			adds = append(adds, "IAddPanic")
		case err != nil:
			adds = append(adds, "IAddErr")
		default:
			adds = append(adds, "IAddOk")
			nok++
		}
		i++
		if c.Rebuild > 0 && i == c.Rebuild { // an intermediate build: more documents (new keywords, new values) follow
			safeCall(func() { b.BuildIndexer() })
		}
	}
	idx, err := b.BuildIndexer()
	if err != nil {
		panic(err)
	}
	return idx, adds, nok
}

func rfieldsCoq(fs []rField) string {
	var out []string
	for _, f := range fs {
		k := "RDefault"
		if f.Cont == roaringidx.ContainerNameAcMatch {
			k = "RAc"
		}
		out = append(out, fmt.Sprintf("(%d%%N, (%s, %s))", f.F, k, parserCoq(f.Parser)))
	}
	return listl(out)
}

func assignCoq(a []eAssign) string {
	q := eQuery{A: a}
	return q.coq()
}

func execRr(raw json.RawMessage) (res execResult, err error) {
	// the process-wide pools (sync.Pool) are emptied by the garbage collector: keep it off during one history,
	// so that what one retrieval puts back really is what the next one takes out
	defer debug.SetGCPercent(debug.SetGCPercent(-1))
	defer runtime.GOMAXPROCS(runtime.GOMAXPROCS(1)) // one P: sync.Pool keeps per-P caches
	var c rCase
	if err = json.Unmarshal(raw, &c); err != nil {
		return
	}
	idx, adds, nok := buildRoaring(&c)
	var docLits []string
	for i := range c.Docs {
		docLits = append(docLits, fmt.Sprintf("(%s, %s)", c.Docs[i].coq(), adds[i]))
	}
	scanners := map[int]*roaringidx.IvtScanner{}
	get := func(i int) *roaringidx.IvtScanner {
		if s, ok := scanners[i]; ok {
			return s
		}
		s := roaringidx.NewScanner(idx)
		scanners[i] = s
		return s
	}
	var opLits []string
	type heldList struct {
		at, s int
		lit   string
		docs  []uint64
	}
	var held []heldList
	var obs []string
	anyProper, anyHint := false, false
	for _, op := range c.Ops {
		s := get(op.S)
		var lit, rlit string
		q := eQuery{A: op.A}
		switch op.Op {
		case "hint":
			// the hints come from a buffer of the caller's, refilled (here: with other documents' ids) as soon as
			// WithHint has returned -- e.g. to prime the next scanner
			buf := append([]int64(nil), op.Hint...)
			p := safeCall(func() { s.WithHint(buf...) })
			for k := range buf {
				if len(c.Docs) > 0 {
					buf[k] = c.Docs[(k+len(opLits))%len(c.Docs)].ID
				} else {
					buf[k] = -int64(k) - 1
				}
			}
			lit = fmt.Sprintf("ROHint %s", zlist(op.Hint))
			rlit = "RIUnit"
			if p {
				rlit = "RIPanic"
			}
			anyHint = true
		case "reset":
			p := safeCall(func() { s.Reset() })
			lit, rlit = "ROReset", "RIUnit"
			if p {
				rlit = "RIPanic"
			}
		case "raw":
			var arr []uint64
			p := safeCall(func() { arr = s.GetRawResult().ToArray() })
			lit = "RORaw"
			rlit = fmt.Sprintf("RIRaw %s", nlist(arr))
			if p {
				rlit = "RIPanic"
			}
		case "retrieve":
			var docs []uint64
			var e error
			p := safeCall(func() { docs, e = s.Retrieve(q.build()) })
			lit = fmt.Sprintf("RORetrieve %s", q.coq())
			switch {
			case p:
				rlit = "RIPanic"
			case e != nil:
				rlit = "RIErr"
			default:
				rlit = fmt.Sprintf("RIDocs %s", nlist(docs))
				held = append(held, heldList{at: len(opLits), s: op.S, lit: lit, docs: docs})
				if len(docs) > 0 && len(docs) < nok {
					anyProper = true
				}
			}
		case "docs":
			var m map[int64]struct{}
			var e error
			p := safeCall(func() { m, e = s.RetrieveDocs(q.build()) })
			lit = fmt.Sprintf("RORetrieveDocs %s", q.coq())
			switch {
			case p:
				rlit = "RIPanic"
			case e != nil:
				rlit = "RIErr"
			default:
				ks := make([]int64, 0, len(m))
				for k := range m {
					ks = append(ks, k)
				}
				sort.Slice(ks, func(i, j int) bool { return ks[i] < ks[j] })
				rlit = fmt.Sprintf("RIDocSet %s", zlist(ks))
				if len(ks) > 0 && len(ks) < nok {
					anyProper = true
				}
			}
		default:
			err = fmt.Errorf("bad op %q", op.Op)
			return
		}
		obs = append(obs, op.Op+"->"+rlit)
		opLits = append(opLits, fmt.Sprintf("(%d%%N, %s, %s)", op.S, lit, rlit))
	}
	// the caller keeps the lists Retrieve handed out: what they hold at the END of the history is what is compared
	for _, h := range held {
		opLits[h.at] = fmt.Sprintf("(%d%%N, %s, RIDocs %s)", h.s, h.lit, nlist(h.docs))
	}
	docsLit := listl(docLits)
	if c.Bulk > 0 {
		docsLit = fmt.Sprintf("(bulk_docs %d%%N ++ %s)", c.Bulk, docsLit)
	}
	res.Coq = fmt.Sprintf("Build_rcase %s\n    %s\n    %s", rfieldsCoq(c.Fields), docsLit, listl(opLits))
	res.NonTrivial = anyProper
	res.Dist = fmt.Sprintf("fields=%d", len(c.Fields))
	if anyHint {
		res.Dist += "/hints"
	}
	if len(obs) > 12 {
		obs = obs[:12]
	}
	res.Summary = map[string]interface{}{"adds": adds, "ops": obs}
	return
}

// ---- generators ----

// acRebuildCases: one roaring builder, several BuildIndexer() calls: documents added after a build bring keywords /
// values the earlier build had not seen (only a new exclude keyword; only a new include keyword; both;
// default-container values), for several numbers of include and exclude keywords before and after
func acRebuildCases(add func(in interface{})) {
	kw := func(inc bool, ss ...string) eExpr {
		l := make([]TV, len(ss))
		for i, s := range ss {
			l[i] = tvStr(s)
		}
		return eExpr{F: 1, Inc: inc, V: tvSlice("[]string", l...)}
	}
	num := func(inc bool, v int64) eExpr { return eExpr{F: 0, Inc: inc, V: tvSlice("[]int", tvInt("int", v))} }
	// (also with other numbers of include and exclude keywords before and after: 1/0 -> 1/1, 2/1 -> 2/2, 1/2 -> 2/2)
	for _, hist := range [][2][]eDoc{
		{{{ID: 1, Cons: []eConj{{kw(true, "apple")}}}}, {{ID: 3, Cons: []eConj{{kw(false, "banana")}}}}},
		{{{ID: 1, Cons: []eConj{{kw(true, "apple", "cherry")}}}, {ID: 2, Cons: []eConj{{kw(false, "apple"), num(true, 1)}}}}, {{ID: 3, Cons: []eConj{{kw(false, "banana")}}}}},
		{{{ID: 1, Cons: []eConj{{kw(true, "apple")}}}, {ID: 2, Cons: []eConj{{kw(false, "apple", "fig"), num(true, 1)}}}}, {{ID: 3, Cons: []eConj{{kw(true, "banana")}}}, {ID: 4, Cons: []eConj{{kw(false, "fig")}}}}},
	} {
		c := rCase{Fields: []rField{{F: 0, Cont: "default"}, {F: 1, Cont: "ac_matcher"}}, Docs: append(append([]eDoc{}, hist[0]...), hist[1]...), Rebuild: len(hist[0])}
		for i, t := range []string{"banana split", "cherry and banana", "apple", "apple banana", "fig", "none"} {
			c.Ops = append(c.Ops, rOp{S: 0, Op: "reset"}, rOp{S: 0, Op: []string{"retrieve", "docs"}[i%2], A: []eAssign{{F: 1, V: tvStr(t)}, {F: 0, V: tvInt("int", 1)}}}, rOp{S: 0, Op: "raw"})
		}
		add(c)
	}
	first := []eDoc{{ID: 1, Cons: []eConj{{kw(true, "apple")}}}, {ID: 2, Cons: []eConj{{kw(false, "apple"), num(true, 1)}}}}
	for _, later := range [][]eDoc{
		{{ID: 3, Cons: []eConj{{kw(false, "banana")}}}},
		{{ID: 3, Cons: []eConj{{kw(true, "cherry")}}}},
		{{ID: 3, Cons: []eConj{{kw(false, "banana")}}}, {ID: 4, Cons: []eConj{{kw(true, "cherry"), num(true, 2)}}}, {ID: 5, Cons: []eConj{{num(false, 1)}}}},
	} {
		c := rCase{Fields: []rField{{F: 0, Cont: "default"}, {F: 1, Cont: "ac_matcher"}}, Docs: append(append([]eDoc{}, first...), later...), Rebuild: len(first)}
		for i, t := range []string{"banana split", "cherry and banana", "apple", "apple banana", "cherry", "none"} {
			for _, n := range []int64{1, 2} {
				c.Ops = append(c.Ops, rOp{S: 0, Op: "reset"}, rOp{S: 0, Op: []string{"retrieve", "docs"}[i%2], A: []eAssign{{F: 1, V: tvStr(t)}, {F: 0, V: tvInt("int", n)}}}, rOp{S: 0, Op: "raw"})
			}
		}
		add(c)
	}
}

func genRrCase(r *Rand, nFields int, acPct int, hintPct int, nOps int, nScanners int) rCase {
	var c rCase
	for f := 0; f < nFields; f++ {
		c.Fields = append(c.Fields, rField{F: f, Cont: "default"})
	}
	o := &docsetOpts{kind: "rr", nFields: nFields, maxDocs: 10, valueShape: intsShape, queryShape: intsShape}
	if nFields == 0 {
		o.nFields = 1
	}
	ds := genDocset(r, o)
	used := map[int64]bool{}
	for _, d := range ds.Docs {
		if nFields == 0 {
			d.Cons = []eConj{{}}
		}
		// roaring ids: the wider range
		if r.Chance(15) {
			d.ID = pick(r, []int64{1<<55 - 1, -(1<<55 - 1), 1 << 44, -(1 << 44)})
		}
		if used[d.ID] {
			continue
		}
		used[d.ID] = true
		c.Docs = append(c.Docs, d)
	}
	if len(c.Docs) > 1 && r.Chance(12) { // an id added again with other (here: the first document's) conjunctions, or fewer of its own
		d := c.Docs[r.Intn(len(c.Docs))]
		if r.Bool() && len(d.Cons) > 1 {
			d.Cons = d.Cons[:1]
		} else {
			d.Cons = c.Docs[0].Cons
		}
		c.Docs = append(c.Docs, d)
	}
	if len(c.Docs) > 1 && r.Chance(20) { // add, build, add, build on one builder: the final build must know every document
		c.Rebuild = 1 + r.Intn(len(c.Docs)-1)
	}
	var ids []int64
	for _, d := range c.Docs {
		ids = append(ids, d.ID)
	}
	dirty := map[int]bool{}
	for i := 0; i < nOps; i++ {
		s := r.Intn(nScanners)
		q := ds.Queries[r.Intn(len(ds.Queries))]
		switch {
		case dirty[s] || r.Chance(25):
			c.Ops = append(c.Ops, rOp{S: s, Op: "reset"})
			dirty[s] = false
			if r.Chance(hintPct) {
				var hs []int64
				for k := r.Intn(5); k > 0; k-- {
					switch r.Intn(4) {
					case 0:
						hs = append(hs, r.I64(-2000, 2000)) // probably unknown
					case 1:
						// out of range; the last three share their low 56 bits with an indexed document's id
						d := ids[r.Intn(len(ids))]
						hs = append(hs, pick(r, []int64{1 << 60, -(1 << 60), 1 << 55, d + 1<<56, d - 1<<56, d + 1<<57}))
					default:
						hs = append(hs, ids[r.Intn(len(ids))])
					}
				}
				c.Ops = append(c.Ops, rOp{S: s, Op: "hint", Hint: hs})
			}
			op := "retrieve"
			if r.Bool() {
				op = "docs"
			}
			c.Ops = append(c.Ops, rOp{S: s, Op: op, A: q.A})
			c.Ops = append(c.Ops, rOp{S: s, Op: "raw"})
			dirty[s] = true
		default:
			c.Ops = append(c.Ops, rOp{S: s, Op: pick(r, []string{"raw", "retrieve", "docs", "hint"}), A: q.A, Hint: []int64{ids[r.Intn(len(ids))]}})
			dirty[s] = true
		}
	}
	return c
}

const rrRule = "seeded roaring cases: 1..5 configured fields (0 fields rarely), document sets as in C01 with ids up to +-(2^55-1), operation sequences over 1..4 scanners sharing one index (Reset, WithHint with known/unknown/out-of-range ids, Retrieve, RetrieveDocs, GetRawResult, also without Reset in between; a third more cases over a pattern-container field; a third more cases with failing retrievals (unsupported value on one field) injected on other scanners); document ids added again with other or fewer conjunctions (outside the specification's domain: decided by the model leg), indexes of catch-all documents only, include lists that are empty; the hint ids are passed from a caller's buffer that is refilled with other ids as soon as WithHint has returned; fields named by the dense id allocator queried with typed lists holding unknown texts; indexes without any include expression queried on no configured field under hints with unknown and negative ids; number-range fields whose expression value is a list of descriptions, stepped before and after step-less ones; non-trivial = some retrieval returns a non-empty proper subset of the accepted documents; distinct = distinct input"

func init() {
	mk := func(hintPct int, zeroFields bool) func(tier string, r *Rand, add func(in interface{})) {
		return func(tier string, r *Rand, add func(in interface{})) {
			n := 60
			if tier == "thorough" {
				n = 4000
			}
			// boundary: a document with the maximum number of conjunctions (256, positions 0..255), hinted
			for _, nconj := range []int{255, 256} {
				c := rCase{Fields: []rField{{F: 0, Cont: "default"}, {F: 1, Cont: "default"}}}
				d := eDoc{ID: -7}
				for k := 0; k < nconj; k++ {
					v := int64(k%5 + 1)
					if k == nconj-1 {
						v = 99 // only the last position matches 99
					}
					d.Cons = append(d.Cons, eConj{{F: 0, Inc: true, V: tvSlice("[]int", tvInt("int", v))}})
				}
				c.Docs = []eDoc{d, {ID: 8, Cons: []eConj{{{F: 0, Inc: true, V: tvSlice("[]int", tvInt("int", 99), tvInt("int", 2))}}}}}
				for _, q := range [][]eAssign{{{F: 0, V: tvInt("int", 99)}}, {{F: 0, V: tvInt("int", 2)}}, {{F: 0, V: tvSlice("[]int", tvInt("int", 99), tvInt("int", 1))}}} {
					for _, hs := range [][]int64{nil, {-7}, {8}, {-7, 8}, {12345}} {
						c.Ops = append(c.Ops, rOp{S: 0, Op: "reset"})
						if hs != nil {
							c.Ops = append(c.Ops, rOp{S: 0, Op: "hint", Hint: hs})
						}
						c.Ops = append(c.Ops, rOp{S: 0, Op: pick(r, []string{"retrieve", "docs"}), A: q}, rOp{S: 0, Op: "raw"})
					}
				}
				add(c)
			}
			// large results (roaring switches container layout at 4096 values; pooled bitmaps of that size): 4200
			// documents matching one value, then new, reset and hinted scanners on small results
			if hintPct > 0 || tier == "thorough" { // about 50 s in the model: C15's quick tier, both thorough tiers
				// ONE configured field: with several, the order in which the scanner visits them (a Go map) decides
				// whether a later intersection happens to hide what a recycled bitmap still held
				c := rCase{Fields: []rField{{F: 0, Cont: "default"}}, Bulk: 4200}
				c.Docs = []eDoc{{ID: 7003, Cons: []eConj{{{F: 0, Inc: true, V: tvSlice("[]int", tvInt("int", 2))}}}},
					{ID: 7005, Cons: []eConj{{{F: 0, Inc: true, V: tvSlice("[]int", tvInt("int", 1), tvInt("int", 2))}}, {{F: 0, Inc: false, V: tvSlice("[]int", tvInt("int", 9))}}}}}
				one, two := []eAssign{{F: 0, V: tvInt("int", 1)}}, []eAssign{{F: 0, V: tvInt("int", 2)}}
				c.Ops = []rOp{{S: 0, Op: "retrieve", A: one}, {S: 1, Op: "retrieve", A: two}, {S: 1, Op: "raw"},
					{S: 2, Op: "hint", Hint: []int64{7003, 4100, 9999}}, {S: 2, Op: "docs", A: []eAssign{{F: 0, V: tvSlice("[]int", tvInt("int", 1), tvInt("int", 2))}}}, {S: 2, Op: "raw"},
					{S: 0, Op: "reset"}, {S: 0, Op: "docs", A: two}, {S: 4, Op: "retrieve", A: two},
					{S: 3, Op: "retrieve", A: []eAssign{{F: 0, V: tvSlice("[]int", tvInt("int", 2), tvInt("int", 9))}}}, {S: 6, Op: "raw"}, {S: 6, Op: "retrieve", A: two}}
				add(c)
			}
			acRebuildCases(add)
			// the batch entry point stops at a document it refuses: what was indexed before it (here: the widest document
			// so far) stays indexed and must be reachable through hints at every conjunction position
			{
				one := func(v int64) eConj { return eConj{{F: 0, Inc: true, V: tvSlice("[]int", tvInt("int", v))}} }
				c := rCase{Fields: []rField{{F: 0, Cont: "default"}}, Batch: 3}
				c.Docs = []eDoc{
					{ID: 1, Cons: []eConj{one(5)}},
					{ID: 10, Cons: []eConj{one(1), one(2), one(5), one(6)}},
					{ID: 99, Cons: []eConj{{{F: 9, Inc: true, V: tvSlice("[]int", tvInt("int", 1))}}}}, // unconfigured field: refused, last of its group
					{ID: 2, Cons: []eConj{one(5)}},
					{ID: 12, Cons: []eConj{one(7), one(5)}},
				}
				five, six := []eAssign{{F: 0, V: tvInt("int", 5)}}, []eAssign{{F: 0, V: tvInt("int", 6)}}
				c.Ops = []rOp{{S: 0, Op: "docs", A: five}, {S: 1, Op: "hint", Hint: []int64{10, 2, 77}}, {S: 1, Op: "docs", A: five}, {S: 1, Op: "raw"},
					{S: 0, Op: "reset"}, {S: 0, Op: "hint", Hint: []int64{10, 12}}, {S: 0, Op: "retrieve", A: six}, {S: 0, Op: "raw"}, {S: 2, Op: "hint", Hint: []int64{12}}, {S: 2, Op: "retrieve", A: five}}
				add(c)
			}
			// the builder has no delete: a document id added AGAIN (here with fewer conjunctions) leaves the conjunction
			// ids of its earlier version in the index; hinted scans must still cover every position of that id
			{
				in := func(f int, vs ...int64) eExpr {
					l := make([]TV, len(vs))
					for i, v := range vs {
						l[i] = tvInt("int", v)
					}
					return eExpr{F: f, Inc: true, V: tvSlice("[]int", l...)}
				}
				c := rCase{Fields: []rField{{F: 0, Cont: "default"}, {F: 1, Cont: "default"}}}
				c.Docs = []eDoc{
					{ID: 7, Cons: []eConj{{in(0, 1)}, {in(1, 5)}, {in(1, 6)}}},
					{ID: 9, Cons: []eConj{{in(1, 5)}}},
					{ID: 7, Cons: []eConj{{in(0, 1, 2)}}},
					{ID: 8, Cons: []eConj{{in(0, 3)}, {in(0, 4)}}},
					{ID: 8, Cons: []eConj{{in(0, 3)}}},
				}
				for i, q := range [][]eAssign{{{F: 0, V: tvInt("int", 3)}, {F: 1, V: tvInt("int", 5)}}, {{F: 0, V: tvInt("int", 4)}, {F: 1, V: tvInt("int", 6)}}, {{F: 0, V: tvInt("int", 2)}}} {
					for _, hs := range [][]int64{nil, {7, 8}, {7}, {8, 9}} {
						c.Ops = append(c.Ops, rOp{S: 0, Op: "reset"})
						if hs != nil {
							c.Ops = append(c.Ops, rOp{S: 0, Op: "hint", Hint: hs})
						}
						c.Ops = append(c.Ops, rOp{S: 0, Op: []string{"retrieve", "docs"}[i%2], A: q}, rOp{S: 0, Op: "raw"})
					}
				}
				add(c)
			}
			// an index that holds only catch-all documents (no value on any configured field; the first generation of
			// many builder histories), then -- same builder -- a targeted document and a second build
			for _, rebuild := range []int{0, 2} {
				c := rCase{Fields: []rField{{F: 0, Cont: "default"}, {F: 1, Cont: "default"}}, Rebuild: rebuild}
				c.Docs = []eDoc{{ID: 1, Cons: []eConj{{}}}, {ID: 7, Cons: []eConj{{}, {}}}}
				if rebuild > 0 {
					c.Docs = append(c.Docs, eDoc{ID: 9, Cons: []eConj{{{F: 0, Inc: true, V: tvSlice("[]int", tvInt("int", 30))}}}})
				}
				for i, q := range [][]eAssign{nil, {{F: 0, V: tvInt("int", 30)}}, {{F: 0, V: tvInt("int", 31)}, {F: 1, V: tvStr("x")}}, {{F: 1, V: tvStr("x")}}} {
					c.Ops = append(c.Ops, rOp{S: 0, Op: "reset"}, rOp{S: 0, Op: []string{"retrieve", "docs"}[i%2], A: q}, rOp{S: 0, Op: "raw"})
				}
				add(c)
			}
			// a field whose only expressions are includes with EMPTY value lists: never satisfiable
			{
				c := rCase{Fields: []rField{{F: 0, Cont: "default"}, {F: 1, Cont: "default"}}}
				c.Docs = []eDoc{{ID: 1, Cons: []eConj{{{F: 0, Inc: true, V: tvSlice("[]int")}}}}, {ID: 2, Cons: []eConj{{{F: 0, Inc: true, V: tvSlice("[]string")}}, {}}}}
				for i, q := range [][]eAssign{nil, {{F: 0, V: tvInt("int", 30)}}, {{F: 1, V: tvStr("x")}}} {
					c.Ops = append(c.Ops, rOp{S: 0, Op: "reset"}, rOp{S: 0, Op: []string{"retrieve", "docs"}[i%2], A: q}, rOp{S: 0, Op: "raw"})
				}
				add(c)
			}
			// a field named by the DENSE id allocator (the first text it sees gets id 0): assignments as typed lists that
			// hold a text no document mentions must not be read as that first text
			{
				c := rCase{Fields: []rField{{F: 0, Cont: "default", Parser: "dense"}, {F: 1, Cont: "default", Parser: "dense"}}}
				c.Docs = []eDoc{
					{ID: 1, Cons: []eConj{{{F: 0, Inc: true, V: tvStr("bj")}}}},
					{ID: 2, Cons: []eConj{{{F: 0, Inc: true, V: tvSlice("[]string", tvStr("sh"), tvStr("bj"))}, {F: 1, Inc: true, V: tvSlice("[]int64", tvInt("int64", 30), tvInt("int64", 40))}}}},
					{ID: 3, Cons: []eConj{{{F: 0, Inc: false, V: tvStr("bj")}}}},
					{ID: 4, Cons: []eConj{{{F: 1, Inc: false, V: tvInt("int64", 30)}, {F: 0, Inc: true, V: tvStr("sh")}}}},
				}
				for i, q := range [][]eAssign{
					{{F: 0, V: tvSlice("[]string", tvStr("gz"))}}, {{F: 0, V: tvSlice("[]string", tvStr("sh"), tvStr("gz"))}}, {{F: 0, V: tvStr("gz")}}, {{F: 0, V: tvList(tvStr("gz"))}},
					{{F: 1, V: tvSlice("[]int64", tvInt("int64", 50))}, {F: 0, V: tvStr("sh")}}, {{F: 1, V: tvSlice("[]int", tvInt("int", 50), tvInt("int", 40))}, {F: 0, V: tvSlice("[]string", tvStr("xx"), tvStr("sh"))}},
					{{F: 0, V: tvSlice("[]string", tvStr("bj"))}}, {{F: 1, V: tvSlice("[]json.Number", tvJSON("77"))}},
				} {
					c.Ops = append(c.Ops, rOp{S: 0, Op: "reset"}, rOp{S: 0, Op: []string{"retrieve", "docs"}[i%2], A: q}, rOp{S: 0, Op: "raw"})
				}
				add(c)
			}
			// an index where NO field has an include expression (match-all and exclude-only documents), queries that mention
			// no configured field, hints with unknown and negative ids: the hint restricts, it never adds
			{
				c := rCase{Fields: []rField{{F: 0, Cont: "default"}, {F: 1, Cont: "default"}}}
				c.Docs = []eDoc{
					{ID: 1, Cons: []eConj{{}}},
					{ID: 2, Cons: []eConj{{{F: 0, Inc: false, V: tvSlice("[]int", tvInt("int", 1))}}, {{F: 1, Inc: false, V: tvSlice("[]int", tvInt("int", 2))}}}},
					{ID: 3, Cons: []eConj{{{F: 0, Inc: false, V: tvSlice("[]int", tvInt("int", 3))}}}},
				}
				for i, q := range [][]eAssign{nil, {{F: 7, V: tvStr("android")}}, {{F: 0, V: tvNil()}}, {{F: 0, V: tvInt("int", 1)}}, {{F: 1, V: tvInt("int", 9)}}} {
					for _, hs := range [][]int64{{2, 3, 77, -4}, {1}, {77}, nil} {
						c.Ops = append(c.Ops, rOp{S: 0, Op: "reset"})
						if hs != nil {
							c.Ops = append(c.Ops, rOp{S: 0, Op: "hint", Hint: hs})
						}
						c.Ops = append(c.Ops, rOp{S: 0, Op: []string{"retrieve", "docs"}[i%2], A: q}, rOp{S: 0, Op: "raw"})
					}
				}
				add(c)
			}
			// a pattern field whose keywords are all multi-byte: texts with fewer CHARACTERS than the shortest keyword has
			// BYTES that still contain a keyword (seed C03-13, which the random texts stopped producing)
			{
				kw := func(inc bool, ss ...string) eExpr {
					l := make([]TV, len(ss))
					for i, x := range ss {
						l[i] = tvStr(x)
					}
					return eExpr{F: 1, Inc: inc, V: tvSlice("[]string", l...)}
				}
				c := rCase{Fields: []rField{{F: 0, Cont: "default"}, {F: 1, Cont: "ac_matcher"}}}
				c.Docs = []eDoc{
					{ID: 1, Cons: []eConj{{kw(true, "北京")}}},
					{ID: 2, Cons: []eConj{{kw(true, "上海市", "广州市")}}},
					{ID: 3, Cons: []eConj{{kw(false, "北京"), {F: 0, Inc: true, V: tvStr("x")}}}},
				}
				for i, t := range []string{"北京", "去北京", "上海市", "北", "x", "北京上海市"} {
					c.Ops = append(c.Ops, rOp{S: 0, Op: "reset"}, rOp{S: 0, Op: []string{"retrieve", "docs"}[i%2], A: []eAssign{{F: 1, V: tvStr(t)}, {F: 0, V: tvStr("x")}}}, rOp{S: 0, Op: "raw"})
				}
				add(c)
			}
			// refused documents between accepted ones: a one-expression document whose value the field's parser refuses
			// (AddDocument returns early), then documents whose FIRST conjunction does not mention that field at all
			for _, par := range []string{"number", ""} {
				c := rCase{Fields: []rField{{F: 0, Cont: "default", Parser: par}, {F: 1, Cont: "default"}, {F: 2, Cont: "ac_matcher"}}}
				bad := tvStr("18-30")
				if par == "" {
					bad = tvBool(true)
				}
				one := func(id int64, e eExpr) eDoc { return eDoc{ID: id, Cons: []eConj{{e}}} }
				c.Docs = []eDoc{
					one(1, eExpr{F: 1, Inc: true, V: tvStr("x")}),
					one(2, eExpr{F: 0, Inc: true, V: bad}),
					{ID: 3, Cons: []eConj{{{F: 1, Inc: true, V: tvStr("y")}}, {{F: 0, Inc: true, V: tvSlice("[]int", tvInt("int", 5))}}}},
					one(4, eExpr{F: 0, Inc: false, V: bad}),
					one(5, eExpr{F: 1, Inc: false, V: tvStr("x")}),
					one(6, eExpr{F: 2, Inc: true, V: tvInt("int", 7)}),
					{ID: 7, Cons: []eConj{{}, {{F: 2, Inc: true, V: tvStr("kw")}}}},
				}
				for i, q := range [][]eAssign{{{F: 1, V: tvStr("x")}}, {{F: 1, V: tvStr("y")}}, {{F: 0, V: tvInt("int", 5)}}, nil, {{F: 2, V: tvStr("a kw b")}, {F: 1, V: tvStr("z")}}, {{F: 0, V: tvInt("int", 9)}, {F: 1, V: tvStr("y")}}} {
					c.Ops = append(c.Ops, rOp{S: 0, Op: "reset"}, rOp{S: 0, Op: []string{"retrieve", "docs"}[i%2], A: q}, rOp{S: 0, Op: "raw"})
				}
				add(c)
			}
			// a hinted scanner whose retrieval is REFUSED (a text the number parser cannot read) and that is then used again
			// WITHOUT Reset, the value corrected or the field dropped: the hints still restrict
			{
				c := rCase{Fields: []rField{{F: 0, Cont: "default", Parser: "number"}, {F: 1, Cont: "default"}}}
				for id := int64(1); id <= 6; id++ {
					c.Docs = append(c.Docs, eDoc{ID: id, Cons: []eConj{{{F: 1, Inc: true, V: tvStr("x")}, {F: 0, Inc: true, V: tvSlice("[]int", tvInt("int", 30))}}, {{F: 1, Inc: true, V: tvStr("y")}}}})
				}
				good := []eAssign{{F: 0, V: tvInt("int", 30)}, {F: 1, V: tvStr("x")}}
				for i, hs := range [][]int64{{2, 4, 7}, {1}, {6, 5, 4, 3}} {
					s := i
					c.Ops = append(c.Ops, rOp{S: s, Op: "hint", Hint: hs},
						rOp{S: s, Op: "retrieve", A: []eAssign{{F: 0, V: tvStr("thirty")}, {F: 1, V: tvStr("x")}}},
						rOp{S: s, Op: []string{"retrieve", "docs"}[i%2], A: good}, rOp{S: s, Op: "raw"},
						rOp{S: s, Op: "docs", A: []eAssign{{F: 1, V: tvStr("y")}}}, rOp{S: s, Op: "raw"},
						rOp{S: s, Op: "reset"}, rOp{S: s, Op: "hint", Hint: hs}, rOp{S: s, Op: "retrieve", A: good}, rOp{S: s, Op: "raw"})
				}
				add(c)
			}
			// one builder, two builds: a document of three conjunctions goes in before the first build, narrower documents
			// after it; hinted retrievals on the LATER index must still reach the wide document through its last conjunction
			for _, rebuild := range []int{1, 2} {
				iv := func(f int, n int64) eConj { return eConj{{F: f, Inc: true, V: tvSlice("[]int", tvInt("int", n))}} }
				c := rCase{Fields: []rField{{F: 0, Cont: "default"}, {F: 1, Cont: "default"}}, Rebuild: rebuild}
				c.Docs = []eDoc{
					{ID: 1, Cons: []eConj{iv(0, 1), iv(0, 2), {{F: 1, Inc: true, V: tvStr("x")}}}},
					{ID: 2, Cons: []eConj{iv(0, 5), iv(0, 6)}},
					{ID: 3, Cons: []eConj{iv(0, 3)}},
					{ID: 4, Cons: []eConj{{{F: 1, Inc: true, V: tvStr("x")}}}},
				}
				for i, q := range [][]eAssign{{{F: 1, V: tvStr("x")}}, {{F: 0, V: tvInt("int", 2)}}, {{F: 0, V: tvInt("int", 6)}}, {{F: 0, V: tvInt("int", 3)}, {F: 1, V: tvStr("x")}}} {
					for _, hs := range [][]int64{{1, 2}, {1}, {4, 1}, nil} {
						c.Ops = append(c.Ops, rOp{S: 0, Op: "reset"})
						if hs != nil {
							c.Ops = append(c.Ops, rOp{S: 0, Op: "hint", Hint: hs})
						}
						c.Ops = append(c.Ops, rOp{S: 0, Op: []string{"retrieve", "docs"}[i%2], A: q}, rOp{S: 0, Op: "raw"})
						if hs != nil { // ... and on a scanner created for the purpose
							c.Ops = append(c.Ops, rOp{S: 1 + i, Op: "hint", Hint: hs}, rOp{S: 1 + i, Op: "docs", A: q}, rOp{S: 1 + i, Op: "raw"}, rOp{S: 1 + i, Op: "reset"})
						}
					}
				}
				add(c)
			}
			// a field read by the number-range parser whose expression value is a LIST of descriptions, stepped ones before
			// and after step-less ones: every description enumerates with its own step
			{
				descs := func(ss ...string) TV {
					l := make([]TV, len(ss))
					for i, x := range ss {
						l[i] = tvStr(x)
					}
					return tvSlice("[]string", l...)
				}
				c := rCase{Fields: []rField{{F: 0, Cont: "default", Parser: "numrange"}, {F: 1, Cont: "default"}}}
				c.Docs = []eDoc{
					{ID: 1, Cons: []eConj{{{F: 0, Inc: true, V: descs("10:30:10", "40:45")}}}},
					{ID: 2, Cons: []eConj{{{F: 0, Inc: true, V: descs("40:45", "10:30:10")}}}},
					{ID: 3, Cons: []eConj{{{F: 0, Inc: false, V: descs("10:30:10", "40:45")}, {F: 1, Inc: true, V: tvStr("bj")}}}},
					{ID: 4, Cons: []eConj{{{F: 0, Inc: true, V: tvList(tvStr("0:9:3"), tvStr("20:22"), tvStr("30:40:5"), tvStr("50:52"))}}}},
				}
				for i, a := range []int64{41, 20, 45, 10, 15, 21, 35, 51, 6, 7, 44, 30} {
					c.Ops = append(c.Ops, rOp{S: 0, Op: "reset"}, rOp{S: 0, Op: []string{"retrieve", "docs"}[i%2], A: []eAssign{{F: 0, V: tvInt("int", a)}, {F: 1, V: tvStr("bj")}}}, rOp{S: 0, Op: "raw"})
				}
				add(c)
			}
			// value identity is 64 bits wide: values that agree in their low 32 bits (number parser: differing by a
			// multiple of 2^32; -1 vs 4294967295) must keep separate posting lists, as include and as exclude
			{
				iv := func(z int64) TV { return tvInt("int64", z) }
				in := func(f int, inc bool, zs ...int64) eExpr {
					l := make([]TV, len(zs))
					for i, z := range zs {
						l[i] = iv(z)
					}
					return eExpr{F: f, Inc: inc, V: tvSlice("[]int64", l...)}
				}
				c := rCase{Fields: []rField{{F: 0, Cont: "default", Parser: "number"}, {F: 1, Cont: "default"}}}
				c.Docs = []eDoc{
					{ID: 1, Cons: []eConj{{in(0, true, 7)}}}, {ID: 2, Cons: []eConj{{in(0, true, 7+(1<<32))}}},
					{ID: 3, Cons: []eConj{{in(0, false, 4294967295)}}}, {ID: 4, Cons: []eConj{{in(0, true, -1)}}},
					{ID: 5, Cons: []eConj{{in(1, true, 7), in(0, false, 7+(1<<33))}}}, {ID: 6, Cons: []eConj{{in(1, true, 7+(1<<32), 1<<32)}}},
				}
				for i, z := range []int64{7, 7 + (1 << 32), 7 + (1 << 33), -1, 4294967295, 0, 1 << 32, -(1 << 32) + 7} {
					c.Ops = append(c.Ops, rOp{S: 0, Op: "reset"}, rOp{S: 0, Op: []string{"retrieve", "docs"}[i%2], A: []eAssign{{F: 0, V: iv(z)}}}, rOp{S: 0, Op: "raw"},
						rOp{S: 0, Op: "reset"}, rOp{S: 0, Op: "docs", A: []eAssign{{F: 1, V: iv(z)}, {F: 0, V: tvSlice("[]int64", iv(z), iv(7))}}})
				}
				add(c)
			}
			for i := 0; i < n; i++ {
				nf := 1 + r.Intn(5)
				if zeroFields && r.Chance(3) {
					nf = 0
				}
				add(genRrCase(r, nf, 0, hintPct, 6+r.Intn(20), 1+r.Intn(4)))
			}
			// pattern-container fields next to default ones (keyword sets with overlaps, include and exclude
			// keywords of different conjunctions, texts containing several keywords)
			for i := 0; i < n/3; i++ {
				docs, qs := acDocsQueries(r, i%4 == 0)
				c := rCase{Fields: []rField{{F: 0, Cont: "default"}, {F: 1, Cont: "ac_matcher"}}, Docs: docs}
				for j, q := range qs {
					c.Ops = append(c.Ops, rOp{S: 0, Op: "reset"})
					if r.Chance(hintPct) && len(docs) > 0 {
						c.Ops = append(c.Ops, rOp{S: 0, Op: "hint", Hint: []int64{docs[r.Intn(len(docs))].ID, docs[0].ID}})
					}
					c.Ops = append(c.Ops, rOp{S: 0, Op: []string{"retrieve", "docs"}[j%2], A: q.A}, rOp{S: 0, Op: "raw"})
				}
				add(c)
			}
			// histories with failing retrievals (an unsupported value on one field) on other scanners in between:
			// reset, fresh and hinted scanners must answer as before
			for i := 0; i < n/3; i++ {
				c := genRrCase(r, 2+r.Intn(3), 0, hintPct, 8+r.Intn(16), 1+r.Intn(3))
				injectRrFailures(r, &c, i)
				add(c)
			}
		}
	}
	props["C03"] = &propDef{header: "From BE Require Import Corr.CheckC03.", rule: rrRule, shardSize: 30, gen: mk(0, true), exec: execRr}
	props["C15"] = &propDef{header: "From BE Require Import Corr.CheckC15.", rule: rrRule + "; hints on 60% of the fresh scanners", shardSize: 30, gen: mk(60, false), exec: execRr,
		// a raw result the caller keeps (by value) after dropping its scanner must stay what it was, whatever the
		// garbage collector and later scanners do (the model has no collector: Go-side probe)
		extra: func(tier string, seed uint64, outdir string) (map[string]interface{}, []string) {
			calls, viol := rawKeptProbe()
			return map[string]interface{}{"raw_results_kept_after_their_scanner": calls}, viol
		}}
}

// rawKeptProbe: one scanner per request; the hinted raw result is kept by value, the scanner dropped, collections
// forced and other scanners run -- the kept result must still be the unhinted raw result restricted to the hints
func rawKeptProbe() (calls int, viol []string) {
	b := roaringidx.NewIndexerBuilder()
	b.ConfigureField(string(fieldName(0)), roaringidx.FieldSetting{Container: "default"})
	for id := int64(1); id <= 40; id++ {
		d := eDoc{ID: id, Cons: []eConj{{{F: 0, Inc: true, V: tvSlice("[]int", tvInt("int", id%3))}}, {{F: 0, Inc: true, V: tvSlice("[]int", tvInt("int", 1), tvInt("int", 7))}}}}
		if err := b.AddDocument(d.build()); err != nil {
			return 0, []string{"raw-result probe: AddDocument failed: " + err.Error()}
		}
	}
	idx, err := b.BuildIndexer()
	if err != nil {
		return 0, []string{"raw-result probe: BuildIndexer failed: " + err.Error()}
	}
	one := func(hints []int64, v int) (roaringidx.PostingList, []uint64) {
		sc := roaringidx.NewScanner(idx)
		if hints != nil {
			sc.WithHint(hints...)
		}
		sc.Retrieve(be.Assignments{fieldName(0): v})
		raw := *sc.GetRawResult() // kept by value; the scanner is dropped when this returns
		return raw, raw.ToArray()
	}
	for round := 0; round < 12; round++ {
		hints := []int64{int64(2 + round), int64(3 + round), 77}
		raw, want := one(hints, 1)
		calls++
		runtime.GC()
		time.Sleep(2 * time.Millisecond)
		runtime.GC()
		for k := 0; k < 3; k++ {
			one(nil, k)
		}
		if got := raw.ToArray(); !reflect.DeepEqual(got, want) && len(viol) < 3 {
			viol = append(viol, fmt.Sprintf("a hinted raw result kept by the caller changed after its scanner was dropped: %v, was %v (hints %v)", got, want, hints))
		}
	}
	return
}

// refusedQueryRounds: on ONE roaring index, rounds of {good query, a query one field's container refuses, the good
// queries again} on a scanner that is Reset in between and on scanners created for the purpose: what a refused
// retrieval leaves behind (scratch lists, pooled bitmaps) must not show in any later answer.  Which field a retrieval
// visits first is Go's map order, so the rounds are repeated.
func refusedQueryRounds(c rCase, good [][]eAssign, bad []eAssign, rounds int) rCase {
	for k := 0; k < rounds; k++ {
		for i, q := range good {
			c.Ops = append(c.Ops, rOp{S: 0, Op: "reset"}, rOp{S: 0, Op: []string{"retrieve", "docs"}[(i+k)%2], A: q}, rOp{S: 0, Op: "raw"})
		}
		c.Ops = append(c.Ops, rOp{S: 0, Op: "reset"}, rOp{S: 0, Op: "retrieve", A: bad})
		for i, q := range good {
			s := 0
			if (i+k)%3 == 2 {
				s = 1 + k // a new scanner takes its result list from the pool
			}
			c.Ops = append(c.Ops, rOp{S: s, Op: "reset"}, rOp{S: s, Op: []string{"docs", "retrieve"}[(i+k)%2], A: q}, rOp{S: s, Op: "raw"})
		}
	}
	return c
}
