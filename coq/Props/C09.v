(* C09  Values match by canonical text, not Go representation.  Statements only.
   Left: Model/Parsers.v (the common parser, dispatching through the type-switch tables regenerated
   from the source).  Right: Model/Spec.v's canon_scalar / canon_texts, which classify a value by
   what it is (integer, string, float) and never mention a Go type table.
   Hash ids are modelled as the hashed text (premise: no FNV-64 collision). *)
From Coq Require Import List NArith ZArith Bool.
From BE Require Import Model.GoTypes Model.GoVal Model.Parsers Model.Index Model.Spec Proofs.CanonProof.
From BE Require Model.Json Proofs.JsonProof Proofs.JsonIndex Proofs.HoldersBuildInv Proofs.IndexCorrectHolders Proofs.SpecBridge Proofs.SpecBridgeHolders Proofs.IndexCorrectPolicy Proofs.SpecBridgeHoldersPolicy.
Import ListNotations.

(* a scalar in ANY supported representation (every integer width signed or unsigned, numeric or
   other string, json.Number, float32/64 inside the modelled fragment) is identified by its
   canonical text at indexing time and at query time *)
Theorem C09_scalar_identified_by_text : forall v t, canon_scalar v = Some t ->
  common_parse_value v = POk [PText t] /\ common_parse_assign v = POk [PText t].
Proof. exact value_scalar. Qed.

Theorem C09_every_integer_width : forall (k : ikind) (z : Z),
  common_parse_value (VInt k z) = POk [PText (dec_text z)] /\ common_parse_assign (VInt k z) = POk [PText (dec_text z)].
Proof. intros k z. apply value_scalar. reflexivity. Qed.

(* typed slices of integers, strings, json.Numbers, floats *)
Theorem C09_typed_slice_identified_by_texts : forall t n vs ts,
  wf_gval (VSlice t n vs) -> canon_texts (VSlice t n vs) = Some ts ->
  match t with TSint | TSint8 | TSint16 | TSint32 | TSint64 | TSuint | TSuint8 | TSuint16 | TSuint32 | TSuint64
             | TSstring | TSjsonNumber | TSfloat32 | TSfloat64 => True | _ => False end ->
  common_parse_value (VSlice t n vs) = POk (map PText ts) /\
  (n = false -> common_parse_assign (VSlice t n vs) = POk (map PText ts)).
Proof. exact value_slice. Qed.

(* heterogeneous lists *)
Theorem C09_list_identified_by_texts : forall n vs ts, canon_texts (VList n vs) = Some ts ->
  common_parse_value (VList n vs) = POk (map PText ts) /\
  (n = false -> common_parse_assign (VList n vs) = POk (map PText ts)).
Proof.
  intros n vs ts H. split; [apply value_list; auto|]. intros ->. apply assign_list; auto.
Qed.

(* hence: an expression value and an assigned value share an id exactly when they share a canonical text *)
Theorem C09_match_iff_canonical_text : forall ts1 ts2,
  (exists i, In i (map PText ts1) /\ In i (map PText ts2)) <-> (exists t, In t ts1 /\ In t ts2).
Proof. exact shared_id_iff_text. Qed.

(* non-vacuity: int32(-3), "-3", json.Number("-3"), float64(-3.7) and []uint8{7} / "7" *)
Example C09_nonvacuous :
  common_parse_value (VInt KI32 (-3)) = POk [PText [45; 51]%N] /\
  common_parse_assign (VStr [45; 51]%N) = POk [PText [45; 51]%N] /\
  common_parse_assign (VFloat false (Build_fl (-3) true FFinite [45; 51; 46; 55]%N)) = POk [PText [45; 51]%N] /\
  common_parse_value (VSlice TSuint8 false [VInt KU8 7]) = POk [PText [55]%N].
Proof. vm_compute. repeat split. Qed.

(* SECOND HALF OF THE PROPERTY: a document decoded from its own JSON encoding matches the same assignments.
   Model/Json.v json_roundtrip is an executable model of Unmarshal(Marshal(v)) into interface{} (numbers become float64
   -- rounded at 53 bits --, every slice/array becomes []interface{}, a nil slice becomes null = the nil interface, a
   json.Number is re-read as a float64, float32 is written with its shortest float32 digits); it is compared with the
   real decoder on every run (Corr/CheckJsonModel.v).  json_safe is the (boolean) domain on which NOTHING changes:
   integers and canonical json.Numbers of magnitude <= 2^53, finite floats (float32 below 2^24), strings, non-nil
   slices of those, between pairs in their three spellings.  On it, for EVERY container kind, parser and operator ... *)
Theorem C09_json_expression_keeps_its_meaning : forall fd e,
  Json.json_safe fd (e_op e) (e_val e) = true ->
  exists e', Json.expr_roundtrip e = Some e' /\ expr_sem fd e' = expr_sem fd e /\ e_incl e' = e_incl e /\ e_op e' = e_op e.
Proof. exact JsonProof.expr_sem_roundtrip. Qed.

(* ... hence the decoded documents denote the same and the specification returns the same hits for every assignment ... *)
Theorem C09_json_transparent : forall fields parsers pol ds,
  forallb (Json.doc_safe fields parsers) ds = true ->
  exists ds', Json.docs_roundtrip ds = Some ds' /\ map d_id ds' = map d_id ds /\
    (forall q, sat_hits fields parsers pol pl_docok ds' q = sat_hits fields parsers pol pl_docok ds q) /\
    map (doc_sem fields parsers pol pl_docok) ds' = map (doc_sem fields parsers pol pl_docok) ds.
Proof. exact JsonProof.json_transparent. Qed.

(* ... and so does the BUILT INDEX: same AddDocument outcomes, same reported triples, any container mix, every policy *)
Theorem C09_json_index_transparent : forall kind pol thr parsers cfgl st0 ds st os ds' st' os' q,
  HoldersBuildInv.config_fields (new_builder kind pol thr parsers) cfgl = Some st0 ->
  add_documents false st0 ds = (st, os) ->
  NoDup (map d_id ds) ->
  (forall d cj, In d ds -> In cj (d_conjs d) -> NoDup (map fst cj)) ->
  (forall d, In d ds -> SpecBridgeHoldersPolicy.doc_ok parsers cfgl d) ->
  IndexCorrectPolicy.sizes_ok ds ->
  SpecBridgeHoldersPolicy.skip_ok2 pol (SpecBridgeHolders.cfg_fields parsers cfgl) parsers ds ->
  (- two64 < thr)%Z ->
  NoDup (map fst q) ->
  SpecBridgeHolders.asg_good' parsers cfgl q ->
  SpecBridgeHoldersPolicy.asg_dom_den parsers cfgl ds q ->
  (kind = IKGroups -> forall f v, In (f, v) q -> HoldersBuildInv.cfg_of cfgl f = CAc -> IndexCorrectHolders.nil_slice_wf v) ->
  forallb (JsonIndex.doc_safe_ix (SpecBridgeHolders.cfg_fields parsers cfgl) parsers) ds = true ->
  Json.docs_roundtrip ds = Some ds' ->
  add_documents false st0 ds' = (st', os') ->
  os' = os /\
  exists hits hits',
    retrieve_hits (build_index st) q = ROk hits /\ retrieve_hits (build_index st') q = ROk hits' /\
    Permutation.Permutation (map (fun h : hitrec => SpecBridge.triple (snd h)) hits) (map (fun h : hitrec => SpecBridge.triple (snd h)) hits') /\
    NoDup (map snd hits) /\ NoDup (map snd hits').
Proof. exact JsonIndex.json_index_transparent. Qed.

(* OUTSIDE json_safe the full statement is FALSE of the faithful model -- the findings, each with its witness values
   (replayed on the real code by the check: KNOWN_FINDINGS F13, F15, F16, F17): integers beyond 2^53 and json.Numbers
   that are not canonical integer texts change meaning (`changes` = decodable, and expr_sem differs) *)
Theorem C09_json_refuted_beyond_2_53 :
  forallb (fun '(fd, op, v) => JsonProof.changes fd op v && negb (Json.json_safe fd op v))
    [(JsonProof.fd_common, OpEQ, VInt KI64 JsonProof.big); (JsonProof.fd_range, OpGT, VInt KI64 JsonProof.big);
     (JsonProof.fd_common, OpEQ, VJson (dec_text JsonProof.big))] = true.
Proof. vm_compute. reflexivity. Qed.
Theorem C09_json_refuted_noncanonical_json_number :
  forallb (fun v => JsonProof.changes JsonProof.fd_common OpEQ v && negb (Json.json_safe JsonProof.fd_common OpEQ v))
    [JsonProof.jn10; JsonProof.jn27; JsonProof.jn1e3; JsonProof.jnm0] = true.
Proof. vm_compute. reflexivity. Qed.

Print Assumptions C09_scalar_identified_by_text.
Print Assumptions C09_every_integer_width.
Print Assumptions C09_typed_slice_identified_by_texts.
Print Assumptions C09_list_identified_by_texts.
Print Assumptions C09_match_iff_canonical_text.
Print Assumptions C09_json_expression_keeps_its_meaning.
Print Assumptions C09_json_transparent.
Print Assumptions C09_json_index_transparent.
Print Assumptions C09_json_refuted_beyond_2_53.
Print Assumptions C09_json_refuted_noncanonical_json_number.
