(* C02  Compact index returns exactly the documents whose DNF is satisfied.  Statements only.
   The compact scan is the generic conjunction scan with needf c = max 1 (size c). *)
From Coq Require Import List NArith ZArith Bool Permutation.
From BE Require Import Model.Scan Proofs.ScanProof.
Import ListNotations.
Local Open Scope N_scope.

(* for ANY sorted streams, monotone need function >= 1 and "a conjunction's include entry sits in at
   most need streams": the scan terminates and returns exactly, once each, the conjunctions with no
   exclude entry and at least `need` include entries *)
Theorem C02_generic_scan_exact : forall (needf : N -> nat) (os : list stream),
  (forall c, (1 <= needf c)%nat) -> (forall c c', c <= c' -> (needf c <= needf c')%nat) ->
  Forall sorted os -> (forall c, (cnt (c, true) os <= needf c)%nat) ->
  exists r, scan needf os = Some r /\
            (forall x, In x r <-> cnt (x, false) os = O /\ (needf x <= cnt (x, true) os)%nat) /\ NoDup r.
Proof. exact scan_correct. Qed.

Print Assumptions C02_generic_scan_exact.
