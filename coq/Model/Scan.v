From Coq Require Import List NArith Bool Lia Permutation Sorting.Sorted Arith.
Import ListNotations.
Local Open Scope N_scope.

Definition entry := (N * bool)%type.
Definition key (e : entry) : N := 2 * fst e + (if snd e then 1 else 0).
Definition stream := list entry.
Definition head (s : stream) : option entry := hd_error s.
(* head key with +infinity for an exhausted stream, as an option *)
Definition hkey (s : stream) : option N := option_map key (head s).
Definition lt_okey (a b : option N) : bool :=
  match a, b with
  | Some x, Some y => x <? y
  | Some _, None => true
  | None, _ => false
  end.

(* Go's insertion sort: for i { for j=i; j>0 && s[j] < s[j-1]; j-- { swap } } ;
   functional form: insert each element from the right of the sorted prefix *)
Section ISort.
  Context {A : Type} (k : A -> option N).
  (* insert x into reversed-prefix-free form: place x before the maximal suffix of elements strictly greater *)
  Fixpoint ins (x : A) (l : list A) : list A :=   (* l sorted ascending; x goes after all elements <= x *)
    match l with
    | [] => [x]
    | y :: l' => if lt_okey (k x) (k y) then x :: y :: l' else y :: ins x l'
    end.
  Definition isort (l : list A) : list A := fold_left (fun acc x => ins x acc) l [].
End ISort.

Fixpoint drop_below (b : N) (s : stream) : stream :=
  match s with
  | [] => []
  | e :: s' => if fst e <? b then drop_below b s' else s
  end.
Definition map_first (n : nat) (f : stream -> stream) (l : list stream) :=
  map f (firstn n l) ++ skipn n l.

Section Scan.
Variable needf : N -> nat.

Definition round (ss : list stream) (res : list N) : option (list stream * list N) :=
  match ss with
  | [] => None
  | s0 :: _ =>
    match head s0 with
    | None => None
    | Some e0 =>
      let need := needf (fst e0) in
      match nth_error ss (need - 1) with
      | None => None
      | Some sEnd =>
        match head sEnd with
        | None => None
        | Some eEnd =>
          let c := fst e0 in
          if c =? fst eEnd then
            if snd e0 then Some (isort hkey (map_first need (drop_below (N.succ c)) ss), c :: res)
            else Some (isort hkey (map (drop_below (N.succ c)) ss), res)
          else Some (isort hkey (map_first need (drop_below (fst eEnd)) ss), res)
        end
      end
    end
  end.

Fixpoint loop (fuel : nat) (ss : list stream) (res : list N) : option (list N) :=
  match fuel with
  | O => None
  | S f => match round ss res with
           | None => Some res
           | Some (ss', res') => loop f ss' res'
           end
  end.

Definition scan (ss : list stream) : option (list N) :=
  loop (S (length (concat ss))) (isort hkey ss) [].
End Scan.

