package main

import (
	"encoding/json"
	"fmt"
)

// numeric / textual scalars worth offering to every parser
func scalarZoo() []TV {
	out := []TV{}
	for _, s := range []string{"", "0", "7", "007", "010", "0100", "-017", "011", "00", "08", "-0", "+5", "-3", "3.7", "-3.7", "3.", ".5", "1e3", "0x10", "1.5E3", "1E3", "2.5E2", "1.5e3", "15E2", "-1.5E1", "1.0E0", "12e-1", " 5", "5 ", "1_000", "abc", "1:5", "९", "9223372036854775807",
		"9223372036854775808", "-9223372036854775808", "4611686018427387904", "12345678901234567890123", "--5", "5-", "1.2.3", "NaN", "Inf", "-"} {
		out = append(out, tvStr(s), tvJSON(s))
	}
	for _, v := range []int64{0, 1, -1, 127, -128, 255, 1 << 31, -(1 << 31), 1 << 62, -(1 << 62), 1<<63 - 1, -1 << 63} {
		out = append(out, tvInt("int64", v), fitInt("int32", v), fitInt("uint8", v), fitInt("uint64", v))
	}
	out = append(out, tvUint("uint64", 1<<63), tvUint("uint64", ^uint64(0)), tvUint("uint", 1<<63+5))
	out = append(out, tvSlice("[]uint64", tvUint("uint64", 1<<63), tvUint("uint64", ^uint64(0))), tvSlice("[]uint", tvUint("uint", 1<<63+5)),
		tvList(tvUint("uint64", ^uint64(0)), tvInt("int64", -1)), tvSlice("[]int64", tvInt("int64", -1<<63), tvInt("int64", 1<<63-1)),
		tvSlice("[]int8", tvInt("int8", -128), tvInt("int8", 127)), tvSlice("[]uint8", tvUint("uint8", 255), tvUint("uint8", 0)),
		tvSlice("[]int16", tvInt("int16", -32768)), tvSlice("[]uint16", tvUint("uint16", 65535)), tvSlice("[]int32", tvInt("int32", -1<<31)), tvSlice("[]uint32", tvUint("uint32", 1<<32-1)))
	for _, f := range []float64{0, 1, -1, 3.7, -3.7, 0.5, -0.5, 1e15, -1e15, 123456789.75, 9.007199254740993e15, 4.611686018427388e18, -4.611686018427388e18} {
		out = append(out, tvFloat("float64", f))
	}
	out = append(out, tvFloat("float32", 2.5), tvFloat("float32", -7), tvFloat("float32", 16777216))
	return out
}

func rangeDescs() []string {
	return []string{"", ":", "a:b", "1:2:x", "5:1", "1:5", "1:5:2", "1:5:0", "1:5:-1", "-3:3", "1:5:1:9", "5:5", "0:1000:7", "1:", ":5", "1:5:", "1:x", " 1:5",
		"+1:+5", "-5:-1:2", "4611686018427387900:4611686018427387904:2", "0:20:20", "0:20:21", "7", "1::5", "3:1:0", "3:1:-1"}
}

// descriptions that end within one step of the int64 limit: two, one, three, two, two and one values -- the enumeration
// must stop there (F19).  Parser-level cases only: as `between` operands they put a bound on MaxInt64, where the harness
// cannot read the bounds back (Range.String tests the LEFT bound for +inf) and the property's domain ends (2^62).
func limitDescs() []string {
	return []string{"9223372036854775806:9223372036854775807", "9223372036854775807:9223372036854775807", "9223372036854775800:9223372036854775806:3",
		"0:9223372036854775807:4611686018427387904", "-9223372036854775808:-9223372036854775807", "9223372036854775805:9223372036854775806:2"}
}

func betweenValues() []TV {
	i64 := func(v int64) TV { return tvInt("int64", v) }
	return []TV{
		{T: "[2]int64", L: []TV{i64(5), i64(9)}}, {T: "[2]int64", L: []TV{i64(9), i64(5)}}, {T: "[2]int64", L: []TV{i64(5), i64(5)}},
		{T: "[2]int64", L: []TV{i64(-1 << 62), i64(1 << 62)}},
		tvSlice("[]int64", i64(5), i64(9)), tvSlice("[]int64", i64(5)), tvSlice("[]int64", i64(9), i64(5)), tvSlice("[]int64", i64(1), i64(2), i64(3)), tvSlice("[]int64"),
		tvSlice("[]int64", i64(10), i64(2000)), tvStr("5:9"), tvStr("9:5"), tvStr("x"), tvStr("5:9:0"), tvStr("10:2000"),
		tvSlice("[]int", tvInt("int", 5), tvInt("int", 9)), tvList(tvFloat("float64", 10), tvFloat("float64", 2000)), tvList(tvInt("int", 5), tvInt("int", 9)),
		tvInt("int", 5), tvFloat("float64", 5.5), tvNil(), {T: "[2]int", L: []TV{tvInt("int", 5), tvInt("int", 9)}}, tvSlice("[]string", tvStr("5"), tvStr("9")),
		tvSlice("[]float64", tvFloat("float64", 5), tvFloat("float64", 9)), {T: "other:map"},
	}
}

const c17Rule = "every value shape of the universe (all scalar kinds, typed slices incl. empty and typed-nil, []interface{} mixes with nil / nested / bool elements, arrays, maps, pointers, channels, funcs, structs, complex, untyped nil) x {common, number, string-hash, number-range} x {ParseValue, ParseAssign}; a zoo of numeric/decimal/malformed strings, extreme integers and floats; range descriptions (well formed, malformed, step<=0 under a 2 s / 600 MB guard in a child process); ParseIntergers/ParseIntegerNumber/NilInterface/ParseAcMatchDict/BuildAcMatchContent on all shapes; ParseRange for GT/LT/Between/unknown operator on all shapes and on between pairs of every typing; end-to-end: every accepted value indexed on a field using that parser/container and queried with the values it denotes. RangeIdx histories over configured domains [RangeMin,RangeMax) with ranges at the domain's edges; ParseRange also as a holder with EnableFloat2Int=false calls it (PCRangeNF); ParseIntergers also without float conversion (PCIntsNF); description lists with stepped descriptions before step-less ones; Non-trivial = the value is accepted (ids/values produced); distinct = distinct input"

// denseAllocatorCases: the common parser with the library's dense id allocator (set through the exported field): the
// first text a parser ever sees gets id 0 -- accepted at indexing time, it must be matched at query time in every
// assignment shape (include and exclude), and a text that is not indexed must match nothing in any shape
func denseAllocatorCases(add func(in interface{})) {
	for _, kind := range []string{"kgroups", "compact"} {
		c := eCase{Kind: kind, Policy: "error", Parsers: map[int]string{0: "dense", 1: "dense"}}
		c.Docs = []eDoc{
			{ID: 1, Cons: []eConj{{{F: 0, Inc: true, V: tvStr("beijing")}}}},
			{ID: 2, Cons: []eConj{{{F: 0, Inc: true, V: tvSlice("[]string", tvStr("beijing"), tvStr("shanghai"))}, {F: 1, Inc: true, V: tvInt("int", 7)}}}},
			{ID: 5, Cons: []eConj{{{F: 0, Inc: false, V: tvStr("beijing")}, {F: 1, Inc: true, V: tvSlice("[]int", tvInt("int", 7), tvInt("int", 8))}}}},
		}
		for _, v := range []TV{tvStr("beijing"), tvSlice("[]string", tvStr("beijing")), tvList(tvStr("beijing")), tvStr("shanghai"), tvStr("nowhere"), tvSlice("[]string", tvStr("nowhere"), tvStr("beijing")), tvList(tvStr("nowhere")), tvList(tvStr("nowhere"), tvInt("int", 5)), tvList(tvInt("int", 9))} {
			c.Queries = append(c.Queries, eQuery{A: []eAssign{{F: 0, V: v}}}, eQuery{A: []eAssign{{F: 0, V: v}, {F: 1, V: tvInt("int", 7)}}}, eQuery{A: []eAssign{{F: 0, V: v}, {F: 1, V: tvSlice("[]int", tvInt("int", 7))}}})
		}
		add(c)
	}
}

func init() {
	props["C17"] = &propDef{
		header:    "From BE Require Import Corr.CheckC17.",
		headers:   map[string]string{"P": "From BE Require Import Corr.CheckParse.", "E": "From BE Require Import Corr.CheckE2E.", "H": "From BE Require Import Corr.CheckRange."},
		rule:      c17Rule,
		shardSize: 400,
		// a hash function (parser.NewHashAllocator(fn)) that panics at one call and works again at the retry
		extra: func(tier string, seed uint64, outdir string) (map[string]interface{}, []string) {
			n, v := faultyHashProbe()
			return map[string]interface{}{"faulty_hash_function_parses": n}, v
		},
		gen: func(tier string, r *Rand, add func(in interface{})) {
			shapes := append(allShapes(), scalarZoo()...)
			for _, d := range rangeDescs() {
				shapes = append(shapes, tvStr(d))
			}
			shapes = append(shapes, tvSlice("[]string", tvStr("1:3"), tvStr("7:9:2")), tvSlice("[]string", tvStr("1:3"), tvStr("x")),
				tvList(tvStr("1:3"), tvStr("5:6")), tvList(tvStr("1:3"), tvInt("int", 5)),
				// lists of descriptions in every relative position: later below, later wider, overlapping, stepped, repeated
				tvSlice("[]string", tvStr("10:12"), tvStr("1:3")), tvSlice("[]string", tvStr("10:30:10"), tvStr("40:45")), tvList(tvStr("0:9:3"), tvStr("20:22"), tvStr("30:40:5"), tvStr("50:52")), tvSlice("[]string", tvStr("5:9"), tvStr("1:20")), tvSlice("[]string", tvStr("0:10:5"), tvStr("1:9:2")),
				tvList(tvStr("10:12"), tvStr("1:3"), tvStr("11:13")), tvList(tvStr("1:5"), tvStr("3:8"), tvStr("1:5")), tvSlice("[]string", tvStr("7:7"), tvStr("7:7"), tvStr("2:2")))
			for _, d := range limitDescs() {
				for _, v := range []TV{tvStr(d), tvSlice("[]string", tvStr("1:3"), tvStr(d)), tvList(tvStr(d), tvStr("5:6"))} {
					for _, p := range []string{"", "number", "strhash", "numrange"} {
						add(pIn{K: "parse", Parser: p, Assign: false, V: v})
						add(pIn{K: "parse", Parser: p, Assign: true, V: v})
					}
				}
			}
			for _, v := range shapes {
				for _, p := range []string{"", "number", "strhash", "numrange"} {
					add(pIn{K: "parse", Parser: p, Assign: false, V: v})
					add(pIn{K: "parse", Parser: p, Assign: true, V: v})
				}
				for _, k := range []string{"ints", "intsnf", "number", "nil", "acdict", "actext"} {
					add(pIn{K: k, V: v})
				}
				for _, op := range []int{1, 2, 3, 7} {
					add(pIn{K: "range", Op: op, V: v})
					add(pIn{K: "rangenf", Op: op, V: v}) // ... and as a holder with EnableFloat2Int = false decodes it
				}
			}
			for _, v := range betweenValues() {
				for _, op := range []int{1, 2, 3} {
					add(pIn{K: "range", Op: op, V: v})
				}
			}
			denseAllocatorCases(add)
			rangeSplitCases(add)      // kept intervals split by later ones: every accepted range stays matched by what it denotes
			rangeDomainEdgeHists(add) // a configured domain [RangeMin, RangeMax): ranges at its edges index what they denote inside it, nothing else
			// end to end: accepted => matchable.  One document per value; queries with candidate values.
			cands := []int64{0, 1, 2, 3, 5, 7, 8, 9, 10, -3, 4, 127, 255, 1000, 2000, 64, 100, -15, -17, 11, 1500, 250, 15}
			mkQueries := func(f int) []eQuery {
				var qs []eQuery
				for _, c := range cands {
					qs = append(qs, eQuery{A: []eAssign{{F: f, V: tvInt("int", c)}}})
				}
				qs = append(qs, eQuery{A: []eAssign{{F: f, V: tvStr("abc")}}}, eQuery{A: []eAssign{{F: f, V: tvStr("7")}}}, eQuery{})
				return qs
			}
			small := append(allShapes(), tvStr("1.5E3"), tvJSON("2.5E2"), tvStr("1.5e3"), tvStr("010"), tvJSON("0100"), tvSlice("[]string", tvStr("-017"), tvStr("011")), tvStr("1:5:2"), tvStr("1:5:0"), tvStr("0:20:7"), tvStr("5:1"), tvFloat("float64", -3), tvStr("3.7"), tvSlice("[]float64", tvFloat("float64", 3.7)))
			for _, v := range small {
				for _, p := range []string{"", "number", "strhash", "numrange"} {
					if p == "numrange" && v.T == "string" && v.S != nil && (*v.S == "1:5:0") {
						continue // would hang the in-process builder on an unrepaired tree; covered by the isolated parser case
					}
					c := eCase{Kind: "kgroups", Policy: "skip", Docs: []eDoc{{ID: 1, Cons: []eConj{{{F: 0, Inc: true, V: v}}}}}, Queries: mkQueries(0)}
					if p != "" {
						c.Parsers = map[int]string{0: p}
					}
					add(c)
				}
				// the range container with `in`, as include and as exclude
				add(eCase{Kind: "compact", Policy: "skip", Configs: map[int]string{0: "ext_range"},
					Docs: []eDoc{{ID: 1, Cons: []eConj{{{F: 0, Inc: true, V: v}}}}}, Queries: mkQueries(0)})
				add(eCase{Kind: "kgroups", Policy: "skip", Configs: map[int]string{0: "ext_range"},
					Docs: []eDoc{{ID: 1, Cons: []eConj{{{F: 0, Inc: false, V: v}}}}}, Queries: mkQueries(0)})
			}
			for _, v := range betweenValues() {
				for _, op := range []int{1, 2, 3} {
					add(eCase{Kind: "kgroups", Policy: "skip", Configs: map[int]string{0: "ext_range"},
						Docs: []eDoc{{ID: 1, Cons: []eConj{{{F: 0, Inc: true, Op: op, V: v}}}}}, Queries: mkQueries(0)})
				}
			}
			// several range expressions on one field in one conjunction (each must keep its own values): narrow and
			// wide, include and exclude, overlapping and disjoint
			{
				bt := func(inc bool, l, h int64) eExpr {
					return eExpr{F: 0, Inc: inc, Op: 3, V: tvSlice("[]int64", tvInt("int64", l), tvInt("int64", h))}
				}
				var qs []eQuery
				for x := int64(-2); x <= 31; x++ {
					qs = append(qs, eQuery{A: []eAssign{{F: 0, V: tvInt("int", x)}}})
				}
				qs = append(qs, eQuery{A: []eAssign{{F: 0, V: tvInt("int", 500)}}}, eQuery{A: []eAssign{{F: 0, V: tvInt("int", 1500)}}})
				for _, kind := range []string{"kgroups", "compact"} {
					add(eCase{Kind: kind, Policy: "error", Configs: map[int]string{0: "ext_range"}, Queries: qs, Docs: []eDoc{
						{ID: 1, Cons: []eConj{{bt(true, 0, 25), bt(false, 10, 15)}}},
						{ID: 2, Cons: []eConj{{bt(true, 0, 5), bt(true, 20, 23)}}},
						{ID: 3, Cons: []eConj{{bt(false, 3, 9), bt(true, 0, 30), bt(false, 25, 27)}}},
						{ID: 4, Cons: []eConj{{bt(true, 2, 4), bt(true, 0, 1000)}}},
						{ID: 5, Cons: []eConj{{bt(true, 0, 1000), bt(false, 5, 8)}}},
						{ID: 6, Cons: []eConj{{bt(false, 0, 2000), bt(true, 28, 30)}, {bt(true, 29, 31), {F: 0, Inc: true, Op: 2, V: tvInt("int", 3)}}}},
					}})
				}
			}
			if tier == "thorough" {
				zoo := scalarZoo()
				for i := 0; i < 20000; i++ {
					var v TV
					switch r.Intn(4) {
					case 0:
						v = pick(r, zoo)
					case 1:
						n := r.Intn(4)
						l := make([]TV, n)
						for j := range l {
							l[j] = pick(r, shapes)
						}
						v = tvList(l...)
					case 2:
						v = tvStr(fmt.Sprintf("%d:%d:%d", r.I64(-20, 20), r.I64(-20, 40), r.I64(1, 9)))
					default:
						v = tvInt("int64", int64(r.U64()>>2)*int64(1-2*r.Intn(2)))
					}
					p := pick(r, []string{"", "number", "strhash", "numrange"})
					add(pIn{K: "parse", Parser: p, Assign: r.Bool(), V: v})
				}
			}
		},
		exec: func(raw json.RawMessage) (execResult, error) {
			var probe struct {
				K    string `json:"k"`
				Hist bool   `json:"hist"`
			}
			json.Unmarshal(raw, &probe)
			if probe.K != "" {
				return execParse(raw)
			}
			if probe.Hist {
				return execRangeHist(raw)
			}
			res, err := execE2E(raw)
			res.Family = "E"
			res.Dist = "e2e/" + res.Dist
			return res, err
		},
	}
}
