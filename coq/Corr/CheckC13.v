(* C13: cache cases. *)
From BE Require Export Corr.CheckCache.
