(* C02  Compact index returns exactly the documents whose DNF is satisfied.  Statements only.
   The compact scan is the generic conjunction scan with needf c = max 1 (size c). *)
From Coq Require Import List NArith ZArith Bool Permutation.
From BE Require Import Model.Scan Model.Cursor Proofs.ScanProof Proofs.Refine Proofs.ConcreteScan.
From BE Require Model.GoVal Model.Parsers Model.Index Gen.IdsGen Proofs.RoaringProof Proofs.IndexBuildInv Proofs.IndexCorrect Proofs.NonVacuous.
Import ListNotations.
Local Open Scope N_scope.

(* for ANY sorted streams, monotone need function >= 1 and "a conjunction's include entry sits in at
   most need streams": the scan terminates and returns exactly, once each, the conjunctions with no
   exclude entry and at least `need` include entries *)
Theorem C02_generic_scan_exact : forall (needf : N -> nat) (os : list stream),
  (forall c, (1 <= needf c)%nat) -> (forall c c', c <= c' -> (needf c <= needf c')%nat) ->
  Forall sorted os -> (forall c, (cnt (c, true) os <= needf c)%nat) ->
  exists r, scan needf os = Some r /\
            (forall x, In x r <-> cnt (x, false) os = O /\ (needf x <= cnt (x, true) os)%nat) /\ NoDup r.
Proof. exact scan_correct. Qed.

(* the CONCRETE compact loop of the executable model (Model/Index.v: cp_loop; need = max 1 (size of the
   smallest conjunction), exit when need exceeds the live cursors, exhausted cursors trimmed after every
   round): terminates within its fuel and reports, once each, exactly the conjunctions with no exclude
   entry and at least `cneed c` include entries; cneed c = max 1 (ConjID.Size c) for every real id *)
Theorem C02_concrete_compact_loop_exact : forall cs ss,
  Forall2 Rel cs ss -> Forall live cs -> (forall c, (cnt (c, true) ss <= cneed c)%nat) ->
  exists res, Index.cp_loop (S (Index.fc_total cs)) (sort_fcursors cs) [] = Some res /\
    (forall x, In x (map snd res) <-> satf cneed ss x) /\ NoDup (map snd res) /\
    (forall h, In h res -> fst h = IdsGen.ConjID_DocID (snd h)).
Proof. exact cp_loop_correct. Qed.

Theorem C02_need_is_the_codes : forall c, c < 2^60 -> Z.to_nat (Z.max 1 (IdsGen.ConjID_Size c)) = cneed c.
Proof. exact cneed_eq. Qed.

(* END TO END over the executable model (Model/Index.v), compact builder, default-container fields, any
   parser configuration: same statement as C01's, for the single-container index (see Props/C01.v for
   the reading of conj_sat) *)
Theorem C02_compact_index_exact : forall pol thr parsers ds st os q,
  Index.add_documents false (Index.new_builder Index.ICompact pol thr parsers) ds = (st, os) ->
  Forall (eq Index.AddOk) os -> NoDup (map Index.d_id ds) ->
  (forall d cj, In d ds -> In cj (Index.d_conjs d) -> NoDup (map fst cj)) ->
  (pol <> Index.PolSkip \/ forall d cj, In d ds -> In cj (Index.d_conjs d) -> IndexBuildInv.conj_ok parsers cj = true) ->
  NoDup (map fst q) ->
  (forall f v, In (f, v) q -> exists ids, Parsers.parse_assign (parsers f) v = GoVal.POk ids) ->
  exists hits,
    Index.retrieve_compact_hits (Index.build_index st) q = Index.ROk hits /\
    NoDup (map snd hits) /\
    (forall d k cj cid, IndexCorrect.has_conj ds d k cj cid ->
       (In cid (map snd hits) <-> IndexCorrect.conj_sat parsers q cj = true)) /\
    (forall h, In h hits -> fst h = IdsGen.ConjID_DocID (snd h) /\
                            exists d k cj, IndexCorrect.has_conj ds d k cj (snd h)).
Proof. exact IndexCorrect.compact_index_correct. Qed.

Theorem C02_compact_documents_exact : forall pol thr parsers ds st os q,
  Index.add_documents false (Index.new_builder Index.ICompact pol thr parsers) ds = (st, os) ->
  Forall (eq Index.AddOk) os -> NoDup (map Index.d_id ds) ->
  (forall d cj, In d ds -> In cj (Index.d_conjs d) -> NoDup (map fst cj)) ->
  (pol <> Index.PolSkip \/ forall d cj, In d ds -> In cj (Index.d_conjs d) -> IndexBuildInv.conj_ok parsers cj = true) ->
  NoDup (map fst q) ->
  (forall f v, In (f, v) q -> exists ids, Parsers.parse_assign (parsers f) v = GoVal.POk ids) ->
  exists docs,
    Index.retrieve (Index.build_index st) q = Index.ROk docs /\
    (forall d, In d ds ->
       (In (Index.d_id d) docs <-> exists cj, In cj (Index.d_conjs d) /\ IndexCorrect.conj_sat parsers q cj = true)) /\
    (forall z, In z docs -> exists d, In d ds /\ z = Index.d_id d).
Proof. intros pol thr parsers. exact (IndexCorrect.retrieve_docs_correct Index.ICompact pol thr parsers). Qed.

(* the hypotheses of the end-to-end theorems are met by a concrete document set (3 documents, include and
   exclude expressions, a negative id) and assignment, accepted by the builder, for which the concrete
   retrieval returns a non-empty proper subset of the documents *)
Example C02_nonvacuous : NonVacuous.ex_ok Index.ICompact = true /\ NoDup (map Index.d_id NonVacuous.ex_docs).
Proof. split; [exact NonVacuous.hypotheses_met_compact | exact NonVacuous.ex_ids_distinct]. Qed.

Print Assumptions C02_generic_scan_exact.
Print Assumptions C02_compact_index_exact.
Print Assumptions C02_compact_documents_exact.
Print Assumptions C02_concrete_compact_loop_exact.
